(* C14 - from the one-step simulation (UrlTableProofs.step_refines) to whole
   histories, and the single-operation corollaries stated on the SQL-level model
   in every state a history can reach. *)
From Coq Require Import List NArith ZArith Bool Lia.
From Wpull Require Import Lib.Hex Model.UrlTable Proofs.UrlTableProofs.
Import ListNotations.
Open Scope N_scope.

(* ------------------------------------------------------------------ generic *)
Lemma NoDup_map_of_inj {A B} (f : A -> B) (l : list A) :
  NoDup l -> (forall x y, In x l -> In y l -> f x = f y -> x = y) -> NoDup (map f l).
Proof.
  induction l as [|a l IH]; cbn [map]; intros ND Hinj; [constructor|].
  inversion ND as [|? ? Ha ND']; subst. constructor.
  - intros Hin. apply in_map_iff in Hin. destruct Hin as [x [E Hx]].
    assert (x = a) by (apply Hinj; [now right|now left|exact E]). subst x. contradiction.
  - apply IH; [assumption|]. intros x y Hx Hy. apply Hinj; now right.
Qed.

Lemma find_split {A} (P : A -> bool) (l : list A) x :
  find P l = Some x ->
  exists pre post, l = pre ++ x :: post /\ (forall y, In y pre -> P y = false) /\ P x = true.
Proof.
  induction l as [|a l IH]; cbn [find]; [discriminate|].
  destruct (P a) eqn:E.
  - intros H. inversion H; subst. exists [], l. split; [reflexivity|]. split; [intros y []|assumption].
  - intros H. destruct (IH H) as [pre [post [E1 [E2 E3]]]]. exists (a :: pre), post.
    split; [now rewrite E1|]. split; [|assumption]. intros y [<-|Hy]; auto.
Qed.

Lemma Forall2_map_r {A B} (R : A -> B -> Prop) (g : A -> B) (l : list A) :
  (forall x, In x l -> R x (g x)) -> Forall2 R l (map g l).
Proof.
  induction l as [|a l IH]; cbn [map]; intros H; constructor.
  - apply H. now left.
  - apply IH. intros x Hx. apply H. now right.
Qed.

(* ------------------------------------------------------------------ keyed lists *)
Definition with_fields (r : rec) (f : fields) : rec := mkRec (r_url r) (r_parent r) (r_root r) f.

Lemma map_key_keys u g l : map r_url (map_key u g l) = map r_url l.
Proof.
  unfold map_key. rewrite map_map. apply map_ext. intros r. now destruct (list_eqb (r_url r) u).
Qed.

Lemma map_key_absent u g l : ~ In u (map r_url l) -> map_key u g l = l.
Proof.
  induction l as [|a l IH]; cbn [map map_key]; intros H; [reflexivity|].
  unfold map_key in *. cbn [map].
  destruct (list_eqb (r_url a) u) eqn:E.
  - apply list_eqb_eq in E. exfalso. apply H. now left.
  - f_equal. apply IH. intros X. apply H. now right.
Qed.

Lemma map_key_split u g pre x post :
  r_url x = u -> NoDup (map r_url (pre ++ x :: post)) ->
  map_key u g (pre ++ x :: post) = pre ++ with_fields x (g (r_f x)) :: post.
Proof.
  intros Ex ND. rewrite map_app in ND. cbn [map] in ND.
  pose proof (NoDup_remove_2 _ _ _ ND) as Hn. rewrite in_app_iff in Hn.
  unfold map_key. rewrite map_app. cbn [map]. rewrite Ex, list_eqb_refl.
  change (map (fun r => if list_eqb (r_url r) u then mkRec (r_url r) (r_parent r) (r_root r) (g (r_f r)) else r))
    with (map_key u g).
  rewrite (map_key_absent u g pre), (map_key_absent u g post).
  - unfold with_fields. now rewrite Ex.
  - intros X. apply Hn. right. now rewrite Ex.
  - intros X. apply Hn. left. now rewrite Ex.
Qed.

Lemma has_key_in u l : has_key u l = true <-> In u (map r_url l).
Proof.
  unfold has_key. rewrite existsb_exists. split.
  - intros [r [Hr E]]. apply list_eqb_eq in E. subst u. now apply in_map.
  - intros H. apply in_map_iff in H. destruct H as [r [E Hr]]. exists r. split; [assumption|]. subst u. apply list_eqb_refl.
Qed.

Lemma has_key_not_in u l : has_key u l = false <-> ~ In u (map r_url l).
Proof.
  split.
  - intros H X. apply has_key_in in X. congruence.
  - intros H. destruct (has_key u l) eqn:E; [|reflexivity]. apply has_key_in in E. contradiction.
Qed.

(* what the reference insertion loop does: appends records for the keys not yet
   present (first occurrence wins), reports exactly those keys *)
Lemma spec_add_shape b : forall recs,
  exists new,
    spec_add recs b = (recs ++ new, map r_url new) /\
    NoDup (map r_url new) /\
    (forall u, In u (map r_url new) -> has_key u recs = false /\ In u (map a_url b)) /\
    (forall it, In it b -> has_key (a_url it) (recs ++ new) = true) /\
    (forall r, In r new -> exists it, In it b /\ r = new_rec it).
Proof.
  induction b as [|it b IH]; intros recs; cbn [spec_add].
  - exists []. rewrite app_nil_r. split; [reflexivity|]. split; [constructor|].
    split; [intros u []|]. split; [intros it []|intros r []].
  - destruct (has_key (a_url it) recs) eqn:Ek.
    + destruct (IH recs) as [new [E [ND [Hn [Hall Hfrom]]]]]. exists new. split; [exact E|]. split; [exact ND|]. split; [|split].
      * intros u Hu. destruct (Hn u Hu) as [H1 H2]. split; [assumption|now right].
      * intros it' [<-|Hit]; [|now apply Hall]. rewrite has_key_app, Ek. reflexivity.
      * intros r Hr. destruct (Hfrom r Hr) as [it' [H1 H2]]. exists it'. split; [now right|assumption].
    + destruct (IH (recs ++ [new_rec it])) as [new [E [ND [Hn [Hall Hfrom]]]]]. exists (new_rec it :: new).
      rewrite E. rewrite <- app_assoc. cbn [app map]. split; [reflexivity|]. split; [|split; [|split]].
      * constructor; [|exact ND]. intros Hin. destruct (Hn _ Hin) as [H1 _].
        rewrite has_key_app in H1. apply orb_false_iff in H1. destruct H1 as [_ H1].
        unfold has_key in H1. cbn in H1. rewrite list_eqb_refl in H1. discriminate.
      * intros u [<-|Hu]; [split; [exact Ek|now left]|].
        destruct (Hn u Hu) as [H1 H2]. rewrite has_key_app in H1. apply orb_false_iff in H1.
        split; [apply H1|now right].
      * intros it' [<-|Hit].
        -- rewrite has_key_app. apply orb_true_iff. right. unfold has_key. cbn. now rewrite list_eqb_refl.
        -- specialize (Hall it' Hit). now rewrite <- app_assoc in Hall.
      * intros r [<-|Hr]; [exists it; split; [now left|reflexivity]|].
        destruct (Hfrom r Hr) as [it' [H1 H2]]. exists it'. split; [now right|assumption].
Qed.

(* ------------------------------------------------------------------ reachable states *)
Lemma keys_nodup d : inv d -> NoDup (map r_url (sql_get_all d)).
Proof.
  intros Hinv. pose proof Hinv as [Hs [_ [Hq _]]]. rewrite (get_all_inv d Hinv), map_map.
  apply NoDup_map_of_inj.
  - destruct Hq as [_ [H2 _]]. now apply NoDup_map_inv in H2.
  - intros x y Hx Hy E. eapply same_url_same_row; eauto.
Qed.

Ltac recs_of E := apply (f_equal (fun p => sp_recs (snd p))) in E; cbn [snd sp_recs abs] in E.

Section History.
  Variable bad : url -> bool.

  Lemma run_refines_from ops : forall d, inv d -> run_sql bad d ops = run_spec bad (abs d) ops.
  Proof.
    induction ops as [|o ops IH]; intros d Hinv; cbn [run_sql run_spec]; [reflexivity|].
    destruct (step_refines bad d o Hinv) as [E Hi]. rewrite E.
    destruct (sql_step bad d o) as [r d']. cbn [fst snd] in *.
    rewrite (IH d' Hi). reflexivity.
  Qed.

  (* every return value and get_all() after every step, for every history *)
  Theorem refines ops : run_sql bad empty_db ops = run_spec bad empty_spec ops.
  Proof. rewrite <- abs_empty. apply run_refines_from, inv_empty. Qed.

  Lemma after_from ops : forall d,
    inv d ->
    inv (fold_left (fun d o => snd (sql_step bad d o)) ops d) /\
    abs (fold_left (fun d o => snd (sql_step bad d o)) ops d)
    = fold_left (fun s o => snd (spec_step bad s o)) ops (abs d).
  Proof.
    induction ops as [|o ops IH]; intros d Hinv; cbn [fold_left]; [now split|].
    destruct (step_refines bad d o Hinv) as [E Hi].
    destruct (IH _ Hi) as [H1 H2]. split; [exact H1|]. rewrite H2, E. reflexivity.
  Qed.

  Lemma reach_inv ops : inv (sql_after bad ops).
  Proof. apply (after_from ops empty_db inv_empty). Qed.

  Theorem state_refines ops : abs (sql_after bad ops) = spec_after bad ops.
  Proof. unfold sql_after, spec_after. rewrite <- abs_empty. apply (after_from ops empty_db inv_empty). Qed.

  Theorem stored_once ops : NoDup (map r_url (sql_get_all (sql_after bad ops))).
  Proof. apply keys_nodup, reach_inv. Qed.

  Lemma run_sql_app ops1 : forall d ops2,
    run_sql bad d (ops1 ++ ops2)
    = run_sql bad d ops1 ++ run_sql bad (fold_left (fun d o => snd (sql_step bad d o)) ops1 d) ops2.
  Proof.
    induction ops1 as [|o ops1 IH]; intros d ops2; cbn [app run_sql fold_left]; [reflexivity|].
    destruct (sql_step bad d o) as [r d'] eqn:E. cbn [snd]. now rewrite IH.
  Qed.

  (* ---------------------------------------------------------------- add_many *)
  (* a rolled-back add_many returns the state it was given *)
  Lemma add_many_rollback d b : fst (sql_add_many bad d b) = RValueError -> snd (sql_add_many bad d b) = d.
  Proof.
    unfold sql_add_many. destruct b as [|it0 b0]; [cbn; discriminate|]. cbv zeta.
    destruct (existsb (unparseable bad) _); [reflexivity|cbn; discriminate].
  Qed.

  Lemma add_many_shape d b :
    inv d ->
    (fst (sql_add_many bad d b) = RValueError /\ snd (sql_add_many bad d b) = d) \/
    (exists new,
        fst (sql_add_many bad d b) = RUrls (map r_url new) /\
        sql_get_all (snd (sql_add_many bad d b)) = sql_get_all d ++ new /\
        NoDup (map r_url new) /\
        (forall u, In u (map r_url new) -> has_key u (sql_get_all d) = false /\ In u (map a_url b)) /\
        (forall it, In it b -> has_key (a_url it) (sql_get_all d ++ new) = true) /\
        (forall r, In r new -> exists it, In it b /\ r = new_rec it)).
  Proof.
    intros Hinv. destruct (add_many_refines bad d b Hinv) as [E _].
    unfold spec_add_many in E. cbn [abs sp_recs sp_visits] in E.
    destruct (spec_add_shape b (sql_get_all d)) as [new [Es [ND [Hn [Hall Hfrom]]]]].
    rewrite Es in E.
    destruct (existsb (unparseable bad) (map r_url new)) eqn:Ebad.
    - left. inversion E as [[E1 E2]]. split; [reflexivity|].
      now apply add_many_rollback.
    - right. exists new. inversion E as [[E1 E2]]. split; [reflexivity|]. split.
      + unfold abs in E2. now inversion E2.
      + auto.
  Qed.

  (* ---------------------------------------------------------------- check_out *)
  Lemma check_out_shape d s lvl :
    inv d ->
    match sql_check_out d s lvl with
    | (RNotFound, d') => d' = d /\ forall r, In r (sql_get_all d) -> checkout_match s lvl (r_f r) = false
    | (RRec r, d') =>
        exists pre r0 post,
          sql_get_all d = pre ++ r0 :: post /\
          (forall x, In x pre -> checkout_match s lvl (r_f x) = false) /\
          checkout_match s lvl (r_f r0) = true /\
          r = with_fields r0 (set_status InProgress (r_f r0)) /\
          sql_get_all d' = pre ++ r :: post
    | _ => False
    end.
  Proof.
    intros Hinv. pose proof (step_refines bad d (OCheckOut s lvl) Hinv) as [E _].
    cbn [sql_step spec_step] in E. unfold spec_check_out in E. cbn [abs sp_recs sp_visits] in E.
    destruct (find (fun r => checkout_match s lvl (r_f r)) (sql_get_all d)) as [r0|] eqn:Ef.
    - destruct (find_split _ _ _ Ef) as [pre [post [E1 [E2 E3]]]].
      destruct (sql_check_out d s lvl) as [ret d']. cbn [fst snd] in E. injection E as Er Ea Ev. subst ret.
      exists pre, r0, post. split; [exact E1|]. split; [exact E2|]. split; [exact E3|]. split; [reflexivity|].
      rewrite <- Ea.
      pose proof (keys_nodup d Hinv) as ND. rewrite E1 in ND |- *.
      now rewrite (map_key_split (r_url r0) (set_status InProgress) pre r0 post eq_refl ND).
    - unfold sql_check_out in *.
      destruct (by_id (filter (fun q => checkout_match s lvl (q_f q)) (d_queued d))) as [|q rest].
      + split; [reflexivity|]. intros r Hr. now apply (find_none _ _ Ef).
      + cbn [fst] in E. inversion E.
  Qed.

  (* ---------------------------------------------------------------- keyed updates *)
  Lemma check_in_shape d u s inc r :
    inv d ->
    sql_get_all (snd (sql_check_in d u s inc r)) = map_key u (checkin_fields s inc r) (sql_get_all d).
  Proof.
    intros Hinv. pose proof (step_refines bad d (OCheckIn u s inc r) Hinv) as [E _].
    cbn [sql_step spec_step] in E. recs_of E. now rewrite <- E.
  Qed.

  Lemma update_one_shape d u f :
    inv d ->
    sql_get_all (snd (sql_update_one d u f)) = map_key u (update_fields f) (sql_get_all d).
  Proof.
    intros Hinv. pose proof (step_refines bad d (OUpdateOne u f) Hinv) as [E _].
    cbn [sql_step spec_step] in E. recs_of E. now rewrite <- E.
  Qed.

  Lemma release_shape d :
    inv d ->
    sql_get_all (snd (sql_release d))
    = map (fun r => if status_eqb (f_status (r_f r)) InProgress then with_fields r (set_status Todo (r_f r)) else r)
          (sql_get_all d).
  Proof.
    intros Hinv. pose proof (step_refines bad d ORelease Hinv) as [E _].
    cbn [sql_step spec_step] in E. recs_of E. rewrite <- E.
    apply map_ext. intros x. unfold release_fields, with_fields.
    destruct (status_eqb (f_status (r_f x)) InProgress); [reflexivity|now destruct x].
  Qed.

  Lemma remove_many_shape d us :
    inv d ->
    sql_get_all (snd (sql_remove_many d us))
    = filter (fun r => negb (existsb (list_eqb (r_url r)) us)) (sql_get_all d).
  Proof.
    intros Hinv. pose proof (step_refines bad d (ORemoveMany us) Hinv) as [E _].
    cbn [sql_step spec_step] in E. recs_of E. now rewrite <- E.
  Qed.

  (* ---------------------------------------------------------------- only removal deletes *)
  Lemma keys_kept d o :
    inv d ->
    match o with
    | ORemoveMany us =>
        sql_get_all (snd (sql_step bad d o)) = filter (fun r => negb (existsb (list_eqb (r_url r)) us)) (sql_get_all d)
    | ORemoveOne u =>
        sql_get_all (snd (sql_step bad d o)) = filter (fun r => negb (list_eqb (r_url r) u)) (sql_get_all d)
    | _ => exists new, map r_url (sql_get_all (snd (sql_step bad d o))) = map r_url (sql_get_all d) ++ new
    end.
  Proof.
    intros Hinv. pose proof (step_refines bad d o Hinv) as [E _].
    assert (Hsame : forall d', sql_get_all d' = sql_get_all d -> exists new : list url,
                   map r_url (sql_get_all d') = map r_url (sql_get_all d) ++ new).
    { intros d' H. exists []. now rewrite app_nil_r, H. }
    destruct o as [b|i|s lvl|u s inc r|u f| |us|u| |u|u| |vs|u dg| ].
    - cbn [sql_step]. destruct (add_many_shape d b Hinv) as [[_ H]|[new [_ [H _]]]].
      + rewrite H. now apply Hsame.
      + exists (map r_url new). now rewrite H, map_app.
    - assert (X : snd (sql_step bad d (OAddOne i)) = snd (sql_add_many bad d [i])).
      { cbn [sql_step]. destruct (sql_add_many bad d [i]) as [r d']. now destruct r. }
      rewrite X. destruct (add_many_shape d [i] Hinv) as [[_ H]|[new [_ [H _]]]].
      + rewrite H. now apply Hsame.
      + exists (map r_url new). now rewrite H, map_app.
    - cbn [sql_step]. pose proof (check_out_shape d s lvl Hinv) as H.
      destruct (sql_check_out d s lvl) as [ret d']. cbn [snd].
      destruct ret; try contradiction.
      + destruct H as [pre [r0 [post [E1 [_ [_ [Er E2]]]]]]]. exists []. rewrite app_nil_r, E1, E2, !map_app. cbn [map]. now subst r.
      + destruct H as [-> _]. now apply Hsame.
    - cbn [sql_step]. exists []. now rewrite app_nil_r, (check_in_shape d u s inc r Hinv), map_key_keys.
    - cbn [sql_step]. exists []. now rewrite app_nil_r, (update_one_shape d u f Hinv), map_key_keys.
    - cbn [sql_step]. exists []. rewrite app_nil_r, (release_shape d Hinv), map_map. apply map_ext.
      intros r. now destruct (status_eqb (f_status (r_f r)) InProgress).
    - cbn [sql_step]. now apply remove_many_shape.
    - cbn [sql_step spec_step] in E. recs_of E. cbn [sql_step]. now rewrite <- E.
    - now apply Hsame.
    - now apply Hsame.
    - now apply Hsame.
    - now apply Hsame.
    - now apply Hsame.
    - now apply Hsame.
    - now apply Hsame.
  Qed.
End History.

(* what check_in assigns *)
Lemma checkin_fields_spec s inc r f :
  let f' := checkin_fields s inc r f in
  f_status f' = s /\ f_try f' = (f_try f + (if inc then 1 else 0))%Z /\ f_level f' = f_level f /\
  f_inline f' = f_inline f /\ f_link f' = f_link f /\ f_priority f' = f_priority f /\ f_post f' = f_post f /\
  f_code f' = match r with Some (mkResult (Some c) _) => Some c | _ => f_code f end /\
  f_file f' = match r with Some (mkResult _ (Some n)) => Some n | _ => f_file f end.
Proof.
  cbn. repeat split.
  - destruct inc; lia.
  - destruct r as [[[c|] fl]|]; reflexivity.
  - destruct r as [[c [n|]]|]; reflexivity.
Qed.

Lemma checkout_match_spec s lvl f :
  checkout_match s lvl f = true <->
  f_status f = s /\ match lvl with Some b => (f_level f < b)%Z | None => True end.
Proof.
  unfold checkout_match. rewrite andb_true_iff. split; intros [H1 H2]; split.
  - destruct (f_status f), s; cbn in H1; congruence.
  - destruct lvl as [b|]; [now apply Z.ltb_lt|exact I].
  - subst s. now destruct (f_status f).
  - destruct lvl as [b|]; [now apply Z.ltb_lt|reflexivity].
Qed.

Section History2.
  Variable bad : url -> bool.

  (* check_in, record by record *)
  Lemma check_in_pointwise ops u s inc res :
    let d := sql_after bad ops in
    fst (sql_check_in d u s inc res) = RNone /\
    Forall2 (fun x y =>
               if list_eqb (r_url x) u then
                 r_url y = r_url x /\ r_parent y = r_parent x /\ r_root y = r_root x /\
                 f_status (r_f y) = s /\
                 f_try (r_f y) = (f_try (r_f x) + (if inc then 1 else 0))%Z /\
                 f_level (r_f y) = f_level (r_f x) /\ f_inline (r_f y) = f_inline (r_f x) /\
                 f_link (r_f y) = f_link (r_f x) /\ f_priority (r_f y) = f_priority (r_f x) /\
                 f_post (r_f y) = f_post (r_f x) /\
                 f_code (r_f y) = match res with Some (mkResult (Some c) _) => Some c | _ => f_code (r_f x) end /\
                 f_file (r_f y) = match res with Some (mkResult _ (Some n)) => Some n | _ => f_file (r_f x) end
               else y = x)
            (sql_get_all d) (sql_get_all (snd (sql_check_in d u s inc res))).
  Proof.
    intros d. split; [reflexivity|].
    rewrite (check_in_shape bad d u s inc res (reach_inv bad ops)). unfold map_key.
    apply Forall2_map_r. intros x _. destruct (list_eqb (r_url x) u); [|reflexivity].
    cbn [r_url r_parent r_root r_f]. do 3 (split; [reflexivity|]). apply checkin_fields_spec.
  Qed.

  (* close() + reopen between any two operations changes no later answer *)
  Lemma reopen_transparent ops1 ops2 :
    run_sql bad empty_db (ops1 ++ OReopen :: ops2)
    = run_sql bad empty_db ops1 ++ (RNone, sql_get_all (sql_after bad ops1)) :: run_sql bad (sql_after bad ops1) ops2
    /\ run_sql bad empty_db (ops1 ++ ops2) = run_sql bad empty_db ops1 ++ run_sql bad (sql_after bad ops1) ops2.
  Proof. rewrite !run_sql_app. split; reflexivity. Qed.
End History2.
