(* C12 - the property theorems, from the invariant (PoolStep.reachable_inv). *)
From Coq Require Import List Arith Bool ZArith Lia.
From Wpull Require Import Model.Pool Proofs.PoolBasics Proofs.PoolNF Proofs.PoolInv Proofs.PoolStep.
Import ListNotations.
Open Scope bool_scope.

Section Thm.
Variable M : nat.
Variable MAXC : nat.

Lemma inv_parts s : reachable M MAXC s ->
  hplock s = free_lock /\ err s = false /\
  InvC M None None (pools s) (clients s) (rtasks s) (next_rid s) (next_cid s) (ckey s) (relset s).
Proof. intros R. exact (reachable_inv M MAXC s R). Qed.

Lemma holds_intro s c k x : clients s c = C_holding k x -> cholds (clients s) None c k x.
Proof. intros E. split; [assumption|exact Logic.I]. Qed.
Lemma owes_intro s r x f : rtasks s r = R_new (Some x) f -> rowes (rtasks s) None r x.
Proof. intros E. split; [eauto|exact Logic.I]. Qed.

(* ---------- a connection is held by at most one client; busy = held or owed to a pending release ---------- *)
Theorem exclusive s : reachable M MAXC s ->
  (forall c c' k k' x, clients s c = C_holding k x -> clients s c' = C_holding k' x -> c = c' /\ k = k') /\
  (forall c k x, clients s c = C_holding k x ->
     exists hp, aget (pools s) k = Some hp /\ In x (busy hp) /\ ~ In x (ready hp)) /\
  (forall k hp x, aget (pools s) k = Some hp -> In x (busy hp) ->
     (exists c, clients s c = C_holding k x) \/ (exists r f, rtasks s r = R_new (Some x) f)) /\
  (forall c k x r f, clients s c = C_holding k x -> rtasks s r = R_new (Some x) f -> False) /\
  (forall r r' x f f', rtasks s r = R_new (Some x) f -> rtasks s r' = R_new (Some x) f' -> r = r') /\
  (forall k k' hp hp' x, aget (pools s) k = Some hp -> aget (pools s) k' = Some hp' ->
     In x (ready hp ++ busy hp) -> In x (ready hp' ++ busy hp') -> k = k').
Proof.
  intros R. destruct (inv_parts s R) as (_ & _ & I). repeat split.
  - apply (i_uc I c c' k k' x); now apply holds_intro.
  - destruct (holder_in_busy M _ _ _ _ _ _ _ _ _ _ _ _ I (holds_intro s c k x H)) as (hp & G & B & _ & CK).
    destruct (holder_in_busy M _ _ _ _ _ _ _ _ _ _ _ _ I (holds_intro s c' k' x H0)) as (hp' & G' & B' & _ & CK').
    congruence.
  - intros c k x E.
    destruct (holder_in_busy M _ _ _ _ _ _ _ _ _ _ _ _ I (holds_intro s c k x E)) as (hp & G & B & _ & CK).
    exists hp. split; [assumption|]. split; [assumption|]. intros RD.
    eapply NoDup_app_disj; [apply (p_nodup (i_pool I k hp G))| |]; eauto.
  - intros k hp x G B. destruct (p_own (i_pool I k hp G) x B) as [[c [E _]]|[r [[f E] _]]]; eauto.
  - intros c k x r f E1 E2. exact (i_ex I c k x r (holds_intro s c k x E1) (owes_intro s r x f E2)).
  - intros r r' x f f' E1 E2. exact (i_ur I r r' x (owes_intro s r x f E1) (owes_intro s r' x f' E2)).
  - intros k k' hp hp' x G G' X X'.
    destruct (p_cid (i_pool I k hp G) x X) as [_ A]. destruct (p_cid (i_pool I k' hp' G') x X') as [_ A']. congruence.
Qed.

(* ---------- never more than M connections per host key ---------- *)
Lemma NoDup_map_inj {A B} (f : A -> B) (l : list A) :
  NoDup l -> (forall a b, In a l -> In b l -> f a = f b -> a = b) -> NoDup (map f l).
Proof.
  induction 1 as [|a l Ha Hl IH]; cbn; intros INJ; [constructor|].
  constructor.
  - intros X. apply in_map_iff in X. destruct X as (b & E & Hb).
    assert (b = a) by (apply INJ; auto). subst b. contradiction.
  - apply IH. intros x y Hx Hy. apply INJ; auto.
Qed.

Definition held_conn (s : state) (c : cli) : cid :=
  match clients s c with C_holding _ x => x | _ => 0 end.

Theorem bound s : reachable M MAXC s ->
  (forall k hp, aget (pools s) k = Some hp ->
     NoDup (ready hp ++ busy hp) /\ length (ready hp) + length (busy hp) <= M /\ length (busy hp) <= M) /\
  (forall k cs, NoDup cs -> (forall c, In c cs -> exists x, clients s c = C_holding k x) -> length cs <= M).
Proof.
  intros R. destruct (inv_parts s R) as (_ & _ & I). split.
  - intros k hp G. pose proof (i_pool I k hp G) as PI. pose proof (p_bound PI).
    split; [apply (p_nodup PI)|]. split; lia.
  - intros k cs ND H. destruct cs as [|c0 cs0] eqn:ECS; [cbn; lia|]. rewrite <- ECS in *.
    destruct (H c0) as [x0 E0]; [subst cs; now left|].
    destruct (holder_in_busy M _ _ _ _ _ _ _ _ _ _ _ _ I (holds_intro s c0 k x0 E0)) as (hp & G & _).
    pose proof (i_pool I k hp G) as PI.
    assert (INCL : incl (map (held_conn s) cs) (busy hp)).
    { intros x X. apply in_map_iff in X. destruct X as (c & E & Hc). destruct (H c Hc) as [y Ey].
      unfold held_conn in E. rewrite Ey in E. subst y.
      destruct (holder_in_busy M _ _ _ _ _ _ _ _ _ _ _ _ I (holds_intro s c k x Ey)) as (hp' & G' & B & _).
      congruence. }
    assert (NDM : NoDup (map (held_conn s) cs)).
    { apply NoDup_map_inj; [assumption|]. intros a b Ha Hb E.
      destruct (H a Ha) as [xa Ea]. destruct (H b Hb) as [xb Eb].
      unfold held_conn in E. rewrite Ea, Eb in E. subst xb.
      apply (i_uc I a b k k xa); now apply holds_intro. }
    pose proof (NoDup_incl_length NDM INCL) as L. rewrite map_length in L.
    pose proof (p_bound PI). lia.
Qed.


(* ---------- no exception escapes, no lock is held or waited for between two steps ---------- *)
Theorem lock_free s : reachable M MAXC s ->
  err s = false /\ hplock s = free_lock /\
  (forall k hp, aget (pools s) k = Some hp -> hlock hp = free_lock) /\
  (forall c cont, clients s c <> C_lockq cont) /\
  (forall r cont, rtasks s r <> R_lockq cont).
Proof.
  intros R. destruct (inv_parts s R) as (HL & HE & I). repeat split; auto.
  - intros k hp G. apply (p_lock (i_pool I k hp G)).
  - intros c cont E. pose proof (i_cli I c Logic.I) as H. unfold CliInv in H. now rewrite E in H.
  - intros r cont E. pose proof (i_rt I r Logic.I) as H. unfold RtInv in H. now rewrite E in H.
Qed.

(* ---------- no lost wake-up ---------- *)
Lemma count_done_pos q : 0 < count_done q -> exists c, In (c, FDone) q.
Proof.
  unfold count_done. induction q as [|[c f] q IH]; cbn; [lia|].
  destruct f; cbn; intros H.
  - destruct (IH H) as [c' X]. eauto.
  - eauto.
  - destruct (IH H) as [c' X]. eauto.
Qed.

Theorem no_lost_wakeup s : reachable M MAXC s ->
  (* a parked client is in the waiter list of its host's condition, and only parked clients are *)
  (forall c k, clients s c = C_parked k ->
     exists hp st, aget (pools s) k = Some hp /\ cw_status (cwait hp) c = Some st) /\
  (forall k hp c st, aget (pools s) k = Some hp -> cw_status (cwait hp) c = Some st -> clients s c = C_parked k) /\
  (* while somebody is still waiting, every free slot is matched by a notified waiter that has not run yet *)
  (forall k hp, aget (pools s) k = Some hp -> has_pending (cwait hp) ->
     M - length (busy hp) <= count_done (cwait hp)) /\
  (* hence: a waiter and a free slot => a waiter of that host is runnable now *)
  (forall k hp, aget (pools s) k = Some hp -> has_pending (cwait hp) -> length (busy hp) < M ->
     exists c, clients s c = C_parked k /\ cw_status (cwait hp) c = Some FDone /\ c_runnable s c = true).
Proof.
  intros R. destruct (inv_parts s R) as (HL & HE & I). repeat split.
  - intros c k E. pose proof (i_cli I c Logic.I) as H. unfold CliInv in H. rewrite E in H.
    destruct H as (hp & G & X). destruct (cw_status_Some_of_In _ _ X) as [st ST]. eauto.
  - intros k hp c st G ST. apply (p_cw (i_pool I k hp G) c). eapply cw_status_keys; eauto.
  - intros k hp G HP. pose proof (p_wake (i_pool I k hp G) HP) as H. cbn in H. lia.
  - intros k hp G HP LT. pose proof (i_pool I k hp G) as PI.
    pose proof (p_wake PI HP) as H. cbn in H.
    destruct (count_done_pos (cwait hp)) as [c X]; [lia|].
    assert (ST : cw_status (cwait hp) c = Some FDone) by (apply In_cw_status; [apply (p_cwnd PI)|assumption]).
    destruct (p_cw PI c (cw_status_keys _ _ _ ST)) as [E _].
    exists c. split; [assumption|]. split; [assumption|].
    unfold c_runnable. now rewrite E, G, ST.
Qed.

(* ---------- a notified waiter that runs while a slot is free gets a connection in that very step ---------- *)
Theorem waiter_served s c k hp : reachable M MAXC s ->
  clients s c = C_parked k -> aget (pools s) k = Some hp -> cw_status (cwait hp) c = Some FDone ->
  mcancel s c = false -> length (busy hp) < M ->
  (exists pk s', step M MAXC s (LStep (TC c) [] pk) = Some s') /\
  (forall dr pk s', step M MAXC s (LStep (TC c) dr pk) = Some s' -> exists x, clients s' c = C_holding k x).
Proof.
  intros R EC G ST MC LT. destruct (inv_parts s R) as (HL & HE & I).
  pose proof (i_pool I k hp G) as PI.
  assert (E : forall dr pk, step M MAXC s (LStep (TC c) dr pk) =
                            a_loop M (set_pool (set_mcancel s (upd (mcancel s) c false)) k
                                               (set_cwait hp (cw_remove (cwait hp) c))) c k pk).
  { intros dr pk. cbn [step]. unfold client_step. rewrite EC, G, ST, MC. cbn [is_cancelled orb].
    rewrite (reacquire_nf M _ c k (set_cwait hp (cw_remove (cwait hp) c)) false pk);
      [reflexivity|exact HL|apply aget_set_pool|apply (p_lock PI)]. }
  apply Nat.ltb_lt in LT.
  split.
  - exists (hd 0 (ready hp)). rewrite E. unfold a_loop. rewrite aget_set_pool. cbn [set_cwait ready busy].
    destruct (ready hp) as [|r0 rr]; cbn [hd mem].
    + rewrite LT. eauto.
    + rewrite Nat.eqb_refl. cbn. eauto.
  - intros dr pk s'. rewrite E. unfold a_loop. rewrite aget_set_pool. cbn [set_cwait ready busy].
    destruct (ready hp) as [|r0 rr].
    + rewrite LT. intros [= <-]. eexists. cbn. apply upd_same.
    + destruct (mem pk (r0 :: rr)); [|discriminate]. intros [= <-]. eexists. cbn. apply upd_same.
Qed.

(* ---------- deadlock freedom: nobody is ever stuck inside the pool ---------- *)
Definition trunnable (s : state) (t : tid) : bool :=
  match t with TC c => c_runnable s c | TR r => r_runnable s r end.
Definition can_run (s : state) (t : tid) : Prop :=
  exists dr pk s', step M MAXC s (LStep t dr pk) = Some s'.
Definition in_acquire (p : cpc) : Prop :=
  match p with C_drain _ _ => True | C_lockq _ => True | C_parked _ => True | _ => False end.

Definition pk_for (s : state) (k : key) : cid :=
  match aget (pools s) k with Some hp => hd 0 (ready hp) | None => 0 end.

Lemma a_loop_enabled s c k hp : aget (pools s) k = Some hp -> exists s', a_loop M s c k (hd 0 (ready hp)) = Some s'.
Proof.
  intros G. unfold a_loop. rewrite G. destruct (ready hp) as [|r0 rr]; cbn [hd mem].
  - destruct (length (busy hp) <? M); eauto.
  - rewrite Nat.eqb_refl. cbn. eauto.
Qed.

Lemma cp_acquire_enabled s c k :
  hplock s = free_lock -> (forall hp, aget (pools s) k = Some hp -> hlock hp = free_lock) ->
  exists s', cp_acquire M s c k (pk_for s k) = Some s'.
Proof.
  intros HL HF. rewrite cp_acquire_nf by assumption.
  assert (G : aget (pools (a_reg s k)) k = Some (hp_reg (aget (pools s) k))) by apply aget_set_pool.
  destruct (a_loop_enabled (a_reg s k) c k _ G) as [s' E].
  assert (P : hd 0 (ready (hp_reg (aget (pools s) k))) = pk_for s k).
  { unfold pk_for. destruct (aget (pools s) k); reflexivity. }
  rewrite P in E. eauto.
Qed.

Lemma drain_enabled c k n : forall s, length (relset s) = n ->
  hplock s = free_lock -> (forall hp, aget (pools s) k = Some hp -> hlock hp = free_lock) ->
  exists dr s', drain M s c k dr (pk_for s k) = Some s'.
Proof.
  induction n as [|n IH]; intros s LEN HL HF.
  - exists []. cbn [drain]. destruct (relset s); [|discriminate]. now apply cp_acquire_enabled.
  - destruct (relset s) as [|r rest] eqn:ERS; [discriminate|].
    destruct (rdone s r) eqn:RD.
    + destruct (IH (set_relset s rest)) as (dr & s' & E); [cbn in *; lia|exact HL|exact HF|].
      exists (r :: dr), s'. cbn [drain]. rewrite ERS. cbn [mem]. rewrite Nat.eqb_refl. cbn [orb].
      rewrite remove1_head, RD. exact E.
    + exists [r]. eexists. cbn [drain]. rewrite ERS. cbn [mem]. rewrite Nat.eqb_refl. cbn [orb].
      rewrite RD. reflexivity.
Qed.

Theorem deadlock_free s : 1 <= M -> reachable M MAXC s ->
  (* every task with a ready handle can take its step *)
  (forall t, trunnable s t = true -> can_run s t) /\
  (* a client inside acquire() never waits for nothing: some pool task is runnable, or a connection is
     held by a client whose session the environment can end *)
  (forall c, in_acquire (clients s c) ->
     (exists t, trunnable s t = true) \/ (exists c' k' x, clients s c' = C_holding k' x /\ mcancel s c' = false)) /\
  (* a pending release task is always runnable; a holder can always leave its session *)
  (forall r x f, rtasks s r = R_new x f -> trunnable s (TR r) = true) /\
  (forall c k x abort, clients s c = C_holding k x -> mcancel s c = false ->
     exists s', step M MAXC s (LFinish c abort) = Some s').
Proof.
  intros M1 R. destruct (inv_parts s R) as (HL & HE & I). repeat split.
  - intros [c|r] RUN; cbn in RUN; unfold can_run; cbn [step].
    + unfold c_runnable in RUN. unfold client_step.
      pose proof (i_cli I c Logic.I) as CI. unfold CliInv in CI.
      destruct (clients s c) as [|r k|cont|k|k x|] eqn:EC; try discriminate.
      * destruct (mcancel s c); [exists [], 0; eauto|]. cbn in RUN. rewrite RUN.
        destruct (drain_enabled c k _ s eq_refl HL) as (dr & s' & E).
        { intros hp G. apply (p_lock (i_pool I k hp G)). }
        eauto.
      * contradiction.
      * destruct CI as (hp & G & INC). rewrite G in *.
        pose proof (i_pool I k hp G) as PI.
        destruct (cw_status (cwait hp) c) as [[| |]|] eqn:ST; try discriminate.
        -- destruct (is_cancelled FDone || mcancel s c) eqn:EX.
           ++ exists [], 0. rewrite (reacquire_nf M _ c k (set_cwait hp (cw_remove (cwait hp) c)) true 0);
                [eauto|exact HL|apply aget_set_pool|apply (p_lock PI)].
           ++ destruct (a_loop_enabled (set_pool (set_mcancel s (upd (mcancel s) c false)) k
                                                 (set_cwait hp (cw_remove (cwait hp) c))) c k _ (aget_set_pool _ _ _)) as [s' E].
              exists [], (hd 0 (ready hp)).
              rewrite (reacquire_nf M _ c k (set_cwait hp (cw_remove (cwait hp) c)) false);
                [eauto|exact HL|apply aget_set_pool|apply (p_lock PI)].
        -- exists [], 0. cbn [is_cancelled orb].
           rewrite (reacquire_nf M _ c k (set_cwait hp (cw_remove (cwait hp) c)) true 0);
             [eauto|exact HL|apply aget_set_pool|apply (p_lock PI)].
      * rewrite RUN. exists [], 0. eauto.
    + unfold r_runnable in RUN. unfold rel_step.
      pose proof (i_rt I r Logic.I) as RI. unfold RtInv in RI.
      destruct (rtasks s r) as [|[x|] f|cont|] eqn:ER; try discriminate; try contradiction; exists [], 0; eauto.
  - intros c INA.
    pose proof (i_cli I c Logic.I) as CI. unfold CliInv in CI.
    destruct (clients s c) as [|r k|cont|k|k x|] eqn:EC; try contradiction.
    + (* draining: the awaited release task is runnable, or done and then the client is *)
      pose proof (i_rt I r Logic.I) as RI. unfold RtInv in RI.
      destruct (rtasks s r) as [|x f|cont|] eqn:ER; try contradiction.
      * left. exists (TR r). cbn. unfold r_runnable. now rewrite ER.
      * left. exists (TC c). cbn. unfold c_runnable, rdone. rewrite EC, ER. apply orb_true_r.
    + (* parked *)
      destruct CI as (hp & G & INC). pose proof (i_pool I k hp G) as PI.
      destruct (cw_status_Some_of_In _ _ INC) as [st ST].
      assert (RUNC : st <> FPending -> c_runnable s c = true).
      { intros N. unfold c_runnable. rewrite EC, G, ST. destruct st; congruence. }
      destruct st; [|left; exists (TC c); apply RUNC; discriminate|left; exists (TC c); apply RUNC; discriminate].
      assert (HP : has_pending (cwait hp)) by (exists c; now apply cw_status_In).
      destruct (Nat.lt_ge_cases (length (busy hp)) M) as [LT|GE].
      * pose proof (p_wake PI HP) as H. cbn in H.
        destruct (count_done_pos (cwait hp)) as [c' X]; [lia|].
        assert (ST' : cw_status (cwait hp) c' = Some FDone) by (apply In_cw_status; [apply (p_cwnd PI)|assumption]).
        destruct (p_cw PI c' (cw_status_keys _ _ _ ST')) as [E' _].
        left. exists (TC c'). cbn. unfold c_runnable. now rewrite E', G, ST'.
      * destruct (busy hp) as [|x bs] eqn:EB; [cbn in GE; lia|].
        destruct (p_own PI x) as [[c' [E' _]]|[r [[f E'] _]]]; [rewrite EB; now left| |].
        -- destruct (mcancel s c') eqn:MC.
           ++ left. exists (TC c'). cbn. unfold c_runnable. now rewrite E'.
           ++ right. eauto.
        -- left. exists (TR r). cbn. unfold r_runnable. now rewrite E'.
  - intros r x f E. cbn. unfold r_runnable. now rewrite E.
  - intros c k x abort E MC. cbn [step]. rewrite E, MC. eauto.
Qed.

(* ---------- ConnectionPool.clean, characterised: what one sweep leaves behind ---------- *)
(* a host pool worth keeping: somebody is counted as waiting, or it still has a connection *)
Definition nonidle (hp : hpool) : Prop := hwaiters hp <> 0%Z \/ ready hp <> [] \/ busy hp <> [].

Lemma clean_one_g s k hp force : aget (pools s) k = Some hp ->
  let s' := a_clean_one s k hp force in
  hplock s' = hplock s /\ rtasks s' = rtasks s /\
  (forall k1, k1 <> k -> aget (pools s') k1 = aget (pools s) k1) /\
  (forall hp', aget (pools s') k = Some hp' ->
     hlock hp' = free_lock /\ busy hp' = busy hp /\ hwaiters hp' = hwaiters hp /\ nonidle hp' /\
     (ready hp' <> [] -> force = false) /\ (forall x, In x (ready hp') -> copen s x = true)) /\
  (forall x, copen s' x = true -> copen s x = true) /\
  (force = false -> forall x, copen s' x = copen s x).
Proof.
  intros G. unfold a_clean_one.
  set (gone := filter (fun x => force || negb (copen s x)) (ready hp)).
  set (hp2 := hp_cleaned s hp force).
  assert (CO : forall x, (if mem x gone then false else copen s x) = true -> copen s x = true).
  { intros x. destruct (mem x gone); [discriminate|auto]. }
  assert (CF : force = false -> forall x, (if mem x gone then false else copen s x) = copen s x).
  { intros -> x. destruct (mem x gone) eqn:E; [|reflexivity]. apply mem_In in E. unfold gone in E.
    apply filter_In in E. destruct E as [_ E]. cbn in E. now destruct (copen s x). }
  assert (KF : ready hp2 <> [] -> force = false).
  { intros NE. unfold hp2, hp_cleaned in NE. cbn [ready] in NE. destruct force; [|reflexivity].
    exfalso. apply NE. clear. induction (ready hp); cbn; auto. }
  assert (KO : forall x, In x (ready hp2) -> copen s x = true).
  { intros x X. unfold hp2, hp_cleaned in X. cbn [ready] in X.
    apply filter_In in X. destruct X as [_ X]. destruct force; cbn in X; [discriminate|]. now destruct (copen s x). }
  destruct ((hwaiters hp2 =? 0)%Z && match ready hp2, busy hp2 with [], [] => true | _, _ => false end) eqn:DEL;
    cbv zeta; (split; [reflexivity|]); (split; [reflexivity|]); (split; [|split; [|split; [exact CO|exact CF]]]).
  - intros k1 NE. cbn. rewrite aget_adel_other, aget_aset_other; auto.
  - intros hp'. cbn. rewrite aget_adel_same. discriminate.
  - intros k1 NE. cbn. rewrite aget_aset_other; auto.
  - intros hp'. cbn. rewrite aget_aset_same. intros [= <-].
    split; [reflexivity|]. split; [reflexivity|]. split; [reflexivity|]. split; [|split; [exact KF|exact KO]].
    unfold nonidle. destruct (Z.eqb_spec (hwaiters hp2) 0) as [HW|HW]; [|now left]. right.
    destruct (ready hp2) as [|a0 l0] eqn:ER; [|left; discriminate].
    destruct (busy hp2) as [|b0 l1] eqn:EB; [|right; discriminate].
    exfalso. cbn in DEL. discriminate DEL.
Qed.

Lemma cleank_g r force ks : forall s,
  hplock s = held -> NoDup ks ->
  (forall k, In k ks -> exists hp, aget (pools s) k = Some hp /\ hlock hp = free_lock) ->
  let s' := run_cleank s r ks force in
  (forall k1, ~ In k1 ks -> aget (pools s') k1 = aget (pools s) k1) /\
  (forall k1 hp', In k1 ks -> aget (pools s') k1 = Some hp' ->
     exists hp, aget (pools s) k1 = Some hp /\
     hlock hp' = free_lock /\ busy hp' = busy hp /\ hwaiters hp' = hwaiters hp /\ nonidle hp' /\
     (ready hp' <> [] -> force = false) /\ (forall x, In x (ready hp') -> copen s x = true)) /\
  (force = false -> forall x, copen s' x = copen s x) /\
  rtasks s' r = R_done /\ hplock s' = free_lock.
Proof.
  induction ks as [|k ks IH]; intros s HL ND Q; cbn [run_cleank].
  - rewrite (release_hp_held s HL). cbv zeta.
    split; [reflexivity|]. split; [intros k1 hp' []|]. split; [reflexivity|]. split; [cbn; apply upd_same|reflexivity].
  - inversion ND as [|? ? NIN ND']; subst.
    destruct (Q k (or_introl eq_refl)) as (hp & G & QL).
    rewrite (acquire_k_free s (TR r) k hp G QL).
    rewrite (clean_one_nf s k hp force G QL).
    destruct (clean_one_g s k hp force G) as (A1 & A2 & A3 & A4 & A5 & A6).
    set (s1 := a_clean_one s k hp force) in *.
    destruct (IH s1) as (B1 & B2 & B3 & B4 & B5); [now rewrite A1|assumption| |].
    { intros k1 X. destruct (Q k1 (or_intror X)) as (hp1 & G1 & Q1). exists hp1. split; [|assumption].
      rewrite A3; [assumption|]. intros ->. contradiction. }
    cbv zeta. split; [|split; [|split; [|split; [exact B4|exact B5]]]].
    + intros k1 N. rewrite B1 by (intros X; apply N; now right). apply A3. intros ->. apply N. now left.
    + intros k1 hp' [<-|X] G'.
      * rewrite B1 in G' by assumption. exists hp. split; [assumption|]. now apply A4.
      * destruct (B2 k1 hp' X G') as (hp1 & G1 & C0 & C1 & C2 & C3 & C4 & C5).
        exists hp1. split; [rewrite <- A3; [assumption|intros ->; contradiction]|].
        split; [assumption|]. split; [assumption|]. split; [assumption|]. split; [assumption|].
        split; [assumption|]. intros x Hx. apply A5. now apply C5.
    + intros F x. rewrite B3 by assumption. now apply A6.
Qed.

(* what "no idle host bookkeeping, no closed idle connection" means for a whole state *)
Definition swept (s : state) : Prop :=
  forall k hp, aget (pools s) k = Some hp -> nonidle hp /\ (forall x, In x (ready hp) -> copen s x = true).

Lemma cp_clean_swept s r force :
  hplock s = free_lock -> NoDup (map fst (pools s)) ->
  (forall k hp, aget (pools s) k = Some hp -> hlock hp = free_lock) ->
  let s' := cp_clean s r force in
  swept s' /\ rtasks s' r = R_done /\ hplock s' = free_lock /\
  (forall k hp', aget (pools s') k = Some hp' ->
     exists hp, aget (pools s) k = Some hp /\ busy hp' = busy hp /\ hwaiters hp' = hwaiters hp /\
                (ready hp' <> [] -> force = false)).
Proof.
  intros HL ND LF. unfold cp_clean. rewrite (acquire_hp_free s (TR r) HL).
  destruct (cleank_g r force (map fst (pools s)) (set_hplock s held)) as (B1 & B2 & B3 & B4 & B5);
    [reflexivity|exact ND| |].
  { intros k X. destruct (In_keys_aget _ _ X) as [hp G]. exists hp. split; [exact G|]. now apply (LF k hp). }
  change (pools (set_hplock s held)) with (pools s) in *.
  cbv zeta. split; [|split; [exact B4|split; [exact B5|]]].
  - intros k hp' G'.
    destruct (in_dec Nat.eq_dec k (map fst (pools s))) as [X|N].
    + destruct (B2 k hp' X G') as (hp & G & C0 & C1 & C2 & C3 & C4 & C5). split; [assumption|].
      intros x Hx. destruct (ready hp') as [|y ys] eqn:ER; [destruct Hx|].
      rewrite B3 by (apply C4; discriminate). apply (C5 x Hx).
    + rewrite (B1 k N) in G'. exfalso. apply N. eapply aget_In_keys; eauto.
  - intros k hp' G'.
    destruct (in_dec Nat.eq_dec k (map fst (pools s))) as [X|N].
    + destruct (B2 k hp' X G') as (hp & G & C0 & C1 & C2 & C3 & C4 & C5). eauto 6.
    + rewrite (B1 k N) in G'. exfalso. apply N. eapply aget_In_keys; eauto.
Qed.

(* ---------- every completed check in (release task) and every clean() sweeps ALL host pools ---------- *)
Theorem release_sweeps s r dr pk s' : reachable M MAXC s ->
  r_runnable s r = true -> step M MAXC s (LStep (TR r) dr pk) = Some s' ->
  swept s' /\ rtasks s' r = R_done /\ hplock s' = free_lock.
Proof.
  intros R RUN. destruct (inv_parts s R) as (HL & HE & I). cbn [step]. unfold rel_step.
  unfold r_runnable in RUN.
  pose proof (i_rt I r Logic.I) as RI. unfold RtInv in RI.
  destruct (rtasks s r) as [|[x|] f|cont|] eqn:ER; try discriminate; try contradiction.
  - destruct RI as (hp & G & B). intros [= <-].
    pose proof (i_pool I _ hp G) as PI.
    rewrite (rel_start_nf MAXC s r x hp G (p_lock PI)); [|now apply mem_In].
    destruct (cp_clean_swept (a_reldata s x hp) r (MAXC <? count_all (a_reldata s x hp))) as (S1 & S2 & S3 & _).
    + exact HL.
    + apply keys_aset_NoDup, (i_keys I).
    + intros k1 hp1 G1. unfold a_reldata in G1. cbn in G1. apply aset_cases in G1.
      destruct G1 as [[_ ->]|[_ G1]]; [reflexivity|apply (p_lock (i_pool I k1 hp1 G1))].
    + auto.
  - intros [= <-].
    destruct (cp_clean_swept s r f) as (S1 & S2 & S3 & _); auto.
    + apply (i_keys I).
    + intros k1 hp1 G1. apply (p_lock (i_pool I k1 hp1 G1)).
Qed.

(* ---------- quiescence: nothing stays checked out; clean() drops the bookkeeping of idle hosts ---------- *)
Theorem quiescent_clean s : reachable M MAXC s ->
  (forall c, clients s c = C_idle \/ clients s c = C_cancelled) ->
  (forall r, rtasks s r = R_none \/ rtasks s r = R_done) ->
  (* nothing is checked out, nobody is counted as waiting, no lock is held *)
  (forall k hp, aget (pools s) k = Some hp ->
     busy hp = [] /\ cwait hp = [] /\ hwaiters hp = 0%Z /\ hlock hp = free_lock) /\
  hplock s = free_lock /\ err s = false /\
  (* and after one clean(): no host pool without an open idle connection remains (none at all when forced) *)
  (forall force, exists s1 s2,
     step M MAXC s (LClean force) = Some s1 /\ step M MAXC s1 (LStep (TR (next_rid s)) [] 0) = Some s2 /\
     rtasks s2 (next_rid s) = R_done /\ hplock s2 = free_lock /\
     (forall k hp', aget (pools s2) k = Some hp' ->
        ready hp' <> [] /\ busy hp' = [] /\ force = false /\ (forall x, In x (ready hp') -> copen s2 x = true)) /\
     (forall k hp', aget (pools s2) k = Some hp' -> exists hp, aget (pools s) k = Some hp)).
Proof.
  intros R QC QR. destruct (inv_parts s R) as (HL & HE & I).
  assert (QP : forall k hp, aget (pools s) k = Some hp ->
               busy hp = [] /\ cwait hp = [] /\ hwaiters hp = 0%Z /\ hlock hp = free_lock).
  { intros k hp G. pose proof (i_pool I k hp G) as PI.
    assert (B : busy hp = []).
    { destruct (busy hp) as [|x bs] eqn:EB; [reflexivity|]. exfalso.
      destruct (p_own PI x) as [[c [E _]]|[r [[f E] _]]]; [rewrite EB; now left| |].
      - destruct (QC c); congruence.
      - destruct (QR r); congruence. }
    assert (W : cwait hp = []).
    { destruct (cwait hp) as [|[c f] q] eqn:EW; [reflexivity|]. exfalso.
      destruct (p_cw PI c) as [E _]; [rewrite EW; now left|]. destruct (QC c); congruence. }
    split; [assumption|]. split; [assumption|]. split; [|apply (p_lock PI)].
    pose proof (p_hw PI) as H. rewrite W in H. exact H. }
  split; [exact QP|]. split; [exact HL|]. split; [exact HE|].
  intros force. set (r := next_rid s).
  set (s1 := set_next_rid (set_rpc s r (R_new None force)) (S r)).
  assert (E1 : rel_step MAXC s1 r = Some (cp_clean s1 r force)).
  { unfold rel_step. replace (rtasks s1 r) with (R_new None force); [reflexivity|].
    cbn. now rewrite upd_same. }
  exists s1, (cp_clean s1 r force). split; [reflexivity|]. split; [exact E1|].
  destruct (cp_clean_swept s1 r force) as (S1 & S2 & S3 & S4).
  { exact HL. }
  { apply (i_keys I). }
  { intros k hp G. apply (p_lock (i_pool I k hp G)). }
  split; [exact S2|]. split; [exact S3|]. split.
  - intros k hp' G'. destruct (S4 k hp' G') as (hp & G & C1 & C2 & C3).
    destruct (QP k hp G) as (A & _ & C & _). destruct (S1 k hp' G') as [[NI|[NI|NI]] OP].
    + congruence.
    + split; [assumption|]. split; [congruence|]. split; [now apply C3|assumption].
    + congruence.
  - intros k hp' G'. destruct (S4 k hp' G') as (hp & G & _). eauto.
Qed.

Lemma reachable_nc_reachable s : reachable_nc M MAXC s -> reachable M MAXC s.
Proof. induction 1; [apply reach_init|eapply reach_step; eauto]. Qed.

Theorem quiescent_clean_nc s : reachable_nc M MAXC s ->
  (forall c, clients s c = C_idle \/ clients s c = C_cancelled) ->
  (forall r, rtasks s r = R_none \/ rtasks s r = R_done) ->
  (forall k hp, aget (pools s) k = Some hp ->
     busy hp = [] /\ cwait hp = [] /\ hwaiters hp = 0%Z /\ hlock hp = free_lock) /\
  hplock s = free_lock /\ err s = false /\
  (forall force, exists s1 s2,
     step M MAXC s (LClean force) = Some s1 /\ step M MAXC s1 (LStep (TR (next_rid s)) [] 0) = Some s2 /\
     rtasks s2 (next_rid s) = R_done /\ hplock s2 = free_lock /\
     (forall k hp', aget (pools s2) k = Some hp' ->
        ready hp' <> [] /\ busy hp' = [] /\ force = false /\ (forall x, In x (ready hp') -> copen s2 x = true)) /\
     (forall k hp', aget (pools s2) k = Some hp' -> exists hp, aget (pools s) k = Some hp)).
Proof. intros R. apply quiescent_clean. now apply reachable_nc_reachable. Qed.

Lemma run_reachable ls : forall s s', reachable M MAXC s -> run M MAXC s ls = Some s' -> reachable M MAXC s'.
Proof.
  induction ls as [|l ls IH]; cbn; intros s s' R.
  - intros [= <-]. assumption.
  - destruct (step M MAXC s l) as [s1|] eqn:E; [|discriminate]. apply IH. eapply reach_step; eauto.
Qed.

Lemma run_reach ls s : run M MAXC init ls = Some s -> reachable M MAXC s.
Proof. apply run_reachable. apply reach_init. Qed.

Lemma run_reachable_nc ls : forall s0 s, forallb (fun l => negb (is_cancel l)) ls = true ->
  reachable_nc M MAXC s0 -> run M MAXC s0 ls = Some s -> reachable_nc M MAXC s.
Proof.
  induction ls as [|l ls IH]; cbn; intros s0 s F R0.
  - intros [= <-]. assumption.
  - apply andb_prop in F. destruct F as [F1 F2]. destruct (step M MAXC s0 l) as [s1|] eqn:E; [|discriminate].
    apply IH; [assumption|]. eapply reachnc_step; eauto. now destruct (is_cancel l).
Qed.

End Thm.
