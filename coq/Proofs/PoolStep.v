(* C12 - every transition of Model/Pool.v preserves the invariant of PoolInv.v; in particular no
   lock is ever held, nobody is ever queued on a lock, and no exception escapes the pool code. *)
From Coq Require Import List Arith Bool ZArith Lia.
From Wpull Require Import Model.Pool Proofs.PoolBasics Proofs.PoolNF Proofs.PoolInv.
Import ListNotations.
Open Scope bool_scope.

Section Step.
Variable M : nat.
Variable MAXC : nat.

Definition InvS tc tr (s : state) : Prop :=
  InvC M tc tr (pools s) (clients s) (rtasks s) (next_rid s) (next_cid s) (ckey s) (relset s).

Definition Inv (s : state) : Prop := hplock s = free_lock /\ err s = false /\ InvS None None s.

Lemma Inv_init : Inv init.
Proof.
  split; [reflexivity|]. split; [reflexivity|]. unfold InvS.
  constructor.
  - constructor.
  - intros k hp G. discriminate G.
  - intros c _. exact Logic.I.
  - intros r _. exact Logic.I.
  - reflexivity.
  - intros r [].
  - intros c c' k k' x [E _]. discriminate E.
  - intros r r' x [[f E] _]. discriminate E.
  - intros c k x r [E _]. discriminate E.
  - discriminate.
Qed.

(* ---------- HostPool.acquire's loop ---------- *)
Lemma loop_ok s c k pk s' :
  hplock s = free_lock -> err s = false -> InvS (Some (c, k)) None s ->
  a_loop M s c k pk = Some s' -> Inv s'.
Proof.
  intros HL HE I. unfold a_loop.
  destruct (aget (pools s) k) as [hp|] eqn:G; [|discriminate].
  pose proof (i_pool I k hp G) as PI.
  destruct (ready hp) as [|r0 rr] eqn:ER.
  - destruct (length (busy hp) <? M) eqn:EB; intros [= <-].
    + apply Nat.ltb_lt in EB. split; [exact HL|]. split; [exact HE|].
      unfold InvS.
      apply (got_inv M c k (pools s) (clients s) (rtasks s) (next_rid s) (next_cid s) (ckey s) (relset s) hp []
                     (next_cid s) (S (next_cid s)) (upd (ckey s) (next_cid s) k) I G).
      * cbn. constructor; [|eapply NoDup_app_r; apply (p_nodup PI)].
        intros B. destruct (p_cid PI (next_cid s)) as [A _]; [apply in_or_app; now right|]. lia.
      * cbn. lia.
      * intros y [].
      * apply (fresh_unowned M _ _ _ _ _ _ _ _ _ _ I (le_n _)).
      * apply (fresh_unowned M _ _ _ _ _ _ _ _ _ _ I (le_n _)).
      * lia.
      * lia.
      * intros y L. apply upd_other. lia.
      * apply upd_same.
    + apply Nat.ltb_ge in EB. split; [exact HL|]. split; [exact HE|].
      unfold InvS. rewrite <- ER.
      apply (park_inv M c k (pools s) (clients s) (rtasks s) (next_rid s) (next_cid s) (ckey s) (relset s) hp I G EB).
  - rewrite <- ER. destruct (mem pk (ready hp)) eqn:EM; intros [= <-].
    apply mem_In in EM.
    assert (PKC : pk < next_cid s /\ ckey s pk = k) by (apply (p_cid PI); apply in_or_app; now left).
    split; [exact HL|]. split; [exact HE|]. unfold InvS.
    apply (got_inv M c k (pools s) (clients s) (rtasks s) (next_rid s) (next_cid s) (ckey s) (relset s) hp
                   (remove1 pk (ready hp)) pk (next_cid s) (upd (ckey s) pk k) I G).
    + apply NoDup_move_rb; [apply (p_nodup PI)|assumption].
    + pose proof (p_bound PI). pose proof (remove1_length pk (ready hp) EM). unfold cid in *. lia.
    + intros y Hy. eapply remove1_In; eauto.
    + apply (ready_unowned M _ _ _ _ _ _ _ _ _ _ _ _ I G EM).
    + apply (ready_unowned M _ _ _ _ _ _ _ _ _ _ _ _ I G EM).
    + lia.
    + tauto.
    + intros y _. unfold upd. destruct (Nat.eqb y pk) eqn:E; [|reflexivity].
      apply Nat.eqb_eq in E. subst y. symmetry. tauto.
    + apply upd_same.
Qed.


Definition outside (s : state) (c : cli) : Prop :=
  (forall k1, clients s c <> C_parked k1) /\ (forall k1 x, clients s c <> C_holding k1 x).

(* ---------- ConnectionPool.acquire after the drain ---------- *)
Lemma enter_ok s c k pk s' :
  Inv s -> outside s c -> cp_acquire M s c k pk = Some s' -> Inv s'.
Proof.
  intros (HL & HE & I) [NP NH].
  rewrite cp_acquire_nf; [|exact HL|intros hp G; apply (p_lock (i_pool I k hp G))].
  apply loop_ok; [exact HL|exact HE|].
  unfold InvS, a_reg.
  apply (reg_inv M c k (pools s) (clients s) (rtasks s) (next_rid s) (next_cid s) (ckey s) (relset s) I NP NH).
Qed.

Lemma Inv_relset s rs :
  Inv s -> (forall r, In r rs -> In r (relset s)) -> Inv (set_relset s rs).
Proof.
  intros (HL & HE & I) SUB. split; [exact HL|]. split; [exact HE|].
  exact (relset_inv M _ _ _ _ _ _ _ _ _ rs I SUB).
Qed.

Lemma Inv_setpc s c pc :
  Inv s -> outside s c ->
  match pc with C_idle => True | C_cancelled => True | C_drain r _ => rtasks s r <> R_none | _ => False end ->
  Inv (set_cpc s c pc).
Proof.
  intros (HL & HE & I) [NP NH] HPC. split; [exact HL|]. split; [exact HE|].
  exact (setpc_inv M c pc _ _ _ _ _ _ _ I NP NH HPC).
Qed.

(* ---------- _process_no_wait_releases, then acquire ---------- *)
Lemma drain_ok dr : forall s c k pk s',
  Inv s -> outside s c -> drain M s c k dr pk = Some s' -> Inv s'.
Proof.
  induction dr as [|r dr IH]; intros s c k pk s' HI HO; cbn [drain].
  - destruct (relset s); [|discriminate]. now apply enter_ok.
  - destruct (mem r (relset s)) eqn:EM; [|discriminate]. apply mem_In in EM.
    assert (HI1 : Inv (set_relset s (remove1 r (relset s)))).
    { apply Inv_relset; [assumption|]. intros r1 X. eapply remove1_In; eauto. }
    destruct (rdone s r).
    + apply IH; assumption.
    + destruct dr; [|discriminate]. intros [= <-].
      apply Inv_setpc; [assumption|exact HO|].
      destruct HI as (_ & _ & I). apply (i_relset I r EM).
Qed.

(* ---------- BaseSession.__exit__ ---------- *)
Lemma exit_ok s c k x abort pc :
  Inv s -> clients s c = C_holding k x ->
  match pc with C_idle => True | C_cancelled => True | _ => False end ->
  Inv (session_exit s c x abort pc).
Proof.
  intros (HL & HE & I) EC HPC. unfold session_exit.
  split; [destruct abort; exact HL|]. split; [destruct abort; exact HE|].
  pose proof (exit_inv M c k x pc _ _ _ _ _ _ _ I EC HPC) as H.
  destruct abort; exact H.
Qed.

(* ---------- one step of a client task ---------- *)
Lemma client_step_ok s c dr pk s' :
  Inv s -> client_step M s c dr pk = Some s' -> Inv s'.
Proof.
  intros HI. pose proof HI as (HL & HE & I). unfold client_step.
  pose proof (i_cli I c Logic.I) as CI. unfold CliInv in CI.
  destruct (clients s c) as [|r k|cont|k|k x|] eqn:EC; try discriminate.
  - (* C_drain *)
    assert (HO : outside s c) by (split; intros; rewrite EC; discriminate).
    destruct (mcancel s c).
    + intros [= <-].
      assert (HI0 : Inv (set_mcancel s (upd (mcancel s) c false))) by exact HI.
      apply (Inv_setpc _ c C_cancelled HI0); [exact HO|exact Logic.I].
    + destruct (rdone s r); [|discriminate]. now apply drain_ok.
  - contradiction.
  - (* C_parked *)
    destruct CI as (hp & G & INC). rewrite G.
    destruct (cw_status_Some_of_In _ _ INC) as [st ST]. rewrite ST.
    pose proof (i_pool I k hp G) as PI.
    assert (I1 : InvS (Some (c, k)) None (set_pool (set_mcancel s (upd (mcancel s) c false)) k
                                                    (set_cwait hp (cw_remove (cwait hp) c)))).
    { exact (unpark_inv M c k _ _ _ _ _ _ _ hp I EC G). }
    assert (E : forall exc, reacquire M (set_pool (set_mcancel s (upd (mcancel s) c false)) k
                                                   (set_cwait hp (cw_remove (cwait hp) c))) c k exc pk = Some s' -> Inv s').
    { intros exc. rewrite (reacquire_nf M _ c k (set_cwait hp (cw_remove (cwait hp) c)) exc pk);
        [|exact HL|apply aget_set_pool|apply (p_lock PI)].
      destruct exc.
      - intros [= <-]. split; [exact HL|]. split; [exact HE|].
        exact (fail_inv M c k _ _ _ _ _ _ _ _ I1 (aget_set_pool _ _ _)).
      - apply loop_ok; [exact HL|exact HE|exact I1]. }
    destruct st; [discriminate| |]; apply E.
  - (* C_holding *)
    destruct (mcancel s c); [|discriminate]. intros [= <-].
    assert (HI0 : Inv (set_mcancel s (upd (mcancel s) c false))) by exact HI.
    apply (exit_ok _ c k x true C_cancelled HI0 EC Logic.I).
Qed.


(* ---------- ConnectionPool.clean: the loop over the snapshot of keys, host_pools_lock held ---------- *)
Lemma run_cleank_ok r force ks : forall s,
  hplock s = held -> err s = false -> InvS None (Some r) s -> NoDup ks ->
  (forall k, In k ks -> In k (map fst (pools s))) -> rtasks s r <> R_none ->
  Inv (run_cleank s r ks force).
Proof.
  induction ks as [|k ks IH]; intros s HL HE I ND KS NN; cbn [run_cleank].
  - rewrite (release_hp_held s HL).
    split; [reflexivity|]. split; [exact HE|].
    exact (done_inv M r _ _ _ _ _ _ _ I NN).
  - inversion ND as [|? ? NIN ND']; subst.
    destruct (In_keys_aget _ _ (KS k (or_introl eq_refl))) as [hp G].
    pose proof (i_pool I k hp G) as PI.
    rewrite (acquire_k_free s (TR r) k hp G (p_lock PI)).
    rewrite (clean_one_nf s k hp force G (p_lock PI)).
    unfold a_clean_one.
    set (fl := fun x : cid => negb (force || negb (copen s x))).
    set (hp2 := hp_cleaned s hp force).
    pose proof (clean_keep_inv M (Some r) k fl _ _ _ _ _ _ _ hp I G) as I2.
    assert (OTHER : forall P' : list (key * hpool), (forall k1, k1 <> k -> aget P' k1 = aget (pools s) k1) ->
                    forall k1, In k1 ks -> In k1 (map fst P')).
    { intros P' HP k1 X. assert (k1 <> k) by (intros ->; contradiction).
      destruct (In_keys_aget _ _ (KS k1 (or_intror X))) as [hp1 G1].
      apply aget_In_keys with (v := hp1). now rewrite HP. }
    destruct ((hwaiters hp2 =? 0)%Z && match ready hp2, busy hp2 with [], [] => true | _, _ => false end) eqn:DEL.
    + apply andb_true_iff in DEL. destruct DEL as [HW EMP]. apply Z.eqb_eq in HW.
      assert (HB : busy hp2 = []) by (destruct (ready hp2); [destruct (busy hp2); [reflexivity|discriminate]|discriminate]).
      apply IH; auto.
      * exact (clean_del_inv M (Some r) k _ _ _ _ _ _ _ hp2 I2 (aget_aset_same _ _ _) HW HB).
      * apply OTHER. intros k1 NE. cbn. rewrite aget_adel_other, aget_aset_other; auto.
    + apply IH; auto.
      apply OTHER. intros k1 NE. cbn. rewrite aget_aset_other; auto.
Qed.

Lemma cp_clean_ok s r force :
  hplock s = free_lock -> err s = false -> InvS None (Some r) s -> rtasks s r <> R_none ->
  Inv (cp_clean s r force).
Proof.
  intros HL HE I NN. unfold cp_clean. rewrite (acquire_hp_free s (TR r) HL).
  apply run_cleank_ok; auto.
  apply (i_keys I).
Qed.

(* ---------- one step of a release / clean task ---------- *)
Lemma rel_step_ok s r s' :
  Inv s -> rel_step MAXC s r = Some s' -> Inv s'.
Proof.
  intros (HL & HE & I). unfold rel_step.
  pose proof (i_rt I r Logic.I) as RI. unfold RtInv in RI.
  destruct (rtasks s r) as [|[x|] f|cont|] eqn:ER; try discriminate.
  - destruct RI as (hp & G & B). intros [= <-].
    pose proof (i_pool I _ hp G) as PI.
    rewrite (rel_start_nf MAXC s r x hp G (p_lock PI)); [|now apply mem_In].
    apply cp_clean_ok; [exact HL|exact HE| |].
    + exact (reldata_inv M r x f _ _ _ _ _ _ _ hp I ER G B).
    + cbn. rewrite ER. discriminate.
  - intros [= <-]. apply cp_clean_ok; [exact HL|exact HE| |rewrite ER; discriminate].
    apply (enter_tr M r None _ _ _ _ _ _ _ I). intros y f0. rewrite ER. discriminate.
  - contradiction.
Qed.

(* ---------- Task.cancel() on a suspended client ---------- *)
Lemma cancel_ok s c s' :
  Inv s -> cancel_client s c = Some s' -> Inv s'.
Proof.
  intros HI. pose proof HI as (HL & HE & I). unfold cancel_client.
  destruct (creq s c); [discriminate|].
  pose proof (i_cli I c Logic.I) as CI. unfold CliInv in CI.
  destruct (clients s c) as [|r k|cont|k|k x|] eqn:EC; try discriminate.
  - intros [= <-]. exact HI.
  - contradiction.
  - destruct CI as (hp & G & INC). rewrite G.
    destruct (cw_status_Some_of_In _ _ INC) as [st ST]. rewrite ST.
    destruct st; intros [= <-]; try exact HI.
    split; [exact HL|]. split; [exact HE|].
    exact (cancel_inv M c k _ _ _ _ _ _ _ hp I G ST).
  - intros [= <-]. exact HI.
Qed.

Theorem step_inv s l s' : Inv s -> step M MAXC s l = Some s' -> Inv s'.
Proof.
  intros HI. pose proof HI as (HL & HE & I). destruct l as [c k dr pk|[c|r] dr pk|c|c abort|c|x|force]; cbn [step].
  - destruct (clients s c) eqn:EC; try discriminate.
    apply drain_ok; [assumption|]. split; intros; rewrite EC; discriminate.
  - now apply client_step_ok.
  - now apply rel_step_ok.
  - destruct (clients s c); try discriminate. destruct (mcancel s c); [discriminate|]. intros [= <-]. exact HI.
  - destruct (clients s c) as [| | | |k x|] eqn:EC; try discriminate.
    destruct (mcancel s c); [discriminate|]. intros [= <-].
    apply (exit_ok s c k x abort C_idle HI EC Logic.I).
  - now apply cancel_ok.
  - destruct (x <? next_cid s); [|discriminate]. intros [= <-]. exact HI.
  - intros [= <-]. split; [exact HL|]. split; [exact HE|].
    exact (spawn_inv M force _ _ _ _ _ _ _ I).
Qed.

Theorem reachable_inv s : reachable M MAXC s -> Inv s.
Proof. induction 1; [apply Inv_init|eapply step_inv; eauto]. Qed.

End Step.
