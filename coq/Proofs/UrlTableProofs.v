(* C14 - the SQL-level model of the URL table refines the keyed-map specification,
   for every history; corollaries about single operations. *)
From Coq Require Import List NArith ZArith Bool Lia.
From Wpull Require Import Lib.Hex Model.UrlTable.
Import ListNotations.
Open Scope N_scope.

(* ------------------------------------------------------------------ generic *)
Lemma list_eqb_refl (a : list N) : list_eqb a a = true.
Proof. induction a as [|x a IH]; cbn; [reflexivity|]. now rewrite N.eqb_refl. Qed.

Lemma list_eqb_eq (a b : list N) : list_eqb a b = true <-> a = b.
Proof.
  split; [|intros ->; apply list_eqb_refl].
  revert b; induction a as [|x a IH]; intros [|y b]; cbn; try discriminate; [reflexivity|].
  intros H. apply andb_true_iff in H. destruct H as [H1 H2].
  apply N.eqb_eq in H1. apply IH in H2. now subst.
Qed.

Lemma list_eqb_neq (a b : list N) : list_eqb a b = false <-> a <> b.
Proof.
  split.
  - intros H E. apply list_eqb_eq in E. congruence.
  - intros H. destruct (list_eqb a b) eqn:E; [|reflexivity]. apply list_eqb_eq in E. contradiction.
Qed.

Lemma list_eqb_sym (a b : list N) : list_eqb a b = list_eqb b a.
Proof.
  destruct (list_eqb a b) eqn:E.
  - apply list_eqb_eq in E. subst. symmetry. apply list_eqb_refl.
  - symmetry. apply list_eqb_neq. apply list_eqb_neq in E. congruence.
Qed.

Lemma NoDup_map_inj {A B} (f : A -> B) (l : list A) x y :
  NoDup (map f l) -> In x l -> In y l -> f x = f y -> x = y.
Proof.
  induction l as [|a l IH]; cbn; [contradiction|].
  intros ND Hx Hy E. inversion ND as [|? ? Hn ND']; subst.
  destruct Hx as [->|Hx], Hy as [->|Hy]; [reflexivity| | |now apply IH].
  - exfalso. apply Hn. rewrite E. now apply in_map.
  - exfalso. apply Hn. rewrite <- E. now apply in_map.
Qed.

Lemma NoDup_app_one {A} (l : list A) x : NoDup l -> ~ In x l -> NoDup (l ++ [x]).
Proof.
  induction l as [|a l IH]; cbn; intros ND Hn.
  - constructor; [intros []|constructor].
  - inversion ND as [|? ? Ha ND']; subst. constructor.
    + rewrite in_app_iff. cbn. intros [H|[H|[]]]; [contradiction|]. subst. apply Hn. now left.
    + apply IH; [assumption|]. intros H. apply Hn. now right.
Qed.

Lemma NoDup_filter_map {A B} (f : A -> B) (P : A -> bool) (l : list A) :
  NoDup (map f l) -> NoDup (map f (filter P l)).
Proof.
  induction l as [|a l IH]; cbn; intros ND; [constructor|].
  inversion ND as [|? ? Ha ND']; subst.
  destruct (P a); cbn; [|now apply IH].
  constructor; [|now apply IH].
  intros H. apply Ha. apply in_map_iff in H. destruct H as [x [E Hx]].
  apply filter_In in Hx. destruct Hx as [Hx _]. rewrite <- E. now apply in_map.
Qed.

Lemma map_filter_comm {A B} (f : A -> B) (P : A -> bool) (Q : B -> bool) (l : list A) :
  (forall x, In x l -> P x = Q (f x)) -> map f (filter P l) = filter Q (map f l).
Proof.
  induction l as [|a l IH]; cbn; intros H; [reflexivity|].
  rewrite <- (H a) by now left. destruct (P a); cbn; rewrite IH; auto.
Qed.

Lemma existsb_ext_in {A} (P Q : A -> bool) (l : list A) :
  (forall x, In x l -> P x = Q x) -> existsb P l = existsb Q l.
Proof.
  induction l as [|a l IH]; cbn; intros H; [reflexivity|].
  rewrite (H a) by now left. rewrite IH; auto.
Qed.

Lemma existsb_false {A} (P : A -> bool) (l : list A) :
  existsb P l = false -> forall x, In x l -> P x = false.
Proof.
  induction l as [|a l IH]; cbn; intros H x Hx; [contradiction|].
  apply orb_false_iff in H. destruct H as [H1 H2]. destruct Hx as [<-|Hx]; [assumption|now apply IH].
Qed.

Lemma existsb_map {A B} (f : A -> B) (Q : B -> bool) (l : list A) :
  existsb Q (map f l) = existsb (fun x => Q (f x)) l.
Proof. induction l as [|a l IH]; cbn; [reflexivity|]. now rewrite IH. Qed.

Lemma find_map {A B} (f : A -> B) (Q : B -> bool) (l : list A) :
  find Q (map f l) = option_map f (find (fun x => Q (f x)) l).
Proof. induction l as [|a l IH]; cbn; [reflexivity|]. destruct (Q (f a)); [reflexivity|apply IH]. Qed.

Lemma find_filter_hd {A} (P : A -> bool) (l : list A) :
  find P l = match filter P l with [] => None | x :: _ => Some x end.
Proof. induction l as [|a l IH]; cbn; [reflexivity|]. destruct (P a); [reflexivity|apply IH]. Qed.

Lemma find_app {A} (P : A -> bool) (l1 l2 : list A) :
  find P (l1 ++ l2) = match find P l1 with Some x => Some x | None => find P l2 end.
Proof. induction l1 as [|a l1 IH]; cbn; [reflexivity|]. destruct (P a); [reflexivity|apply IH]. Qed.

Lemma find_none_iff {A} (P : A -> bool) (l : list A) :
  find P l = None <-> forall x, In x l -> P x = false.
Proof.
  split; [apply find_none|].
  induction l as [|a l IH]; cbn; intros H; [reflexivity|].
  rewrite (H a) by now left. apply IH. intros x Hx. apply H. now right.
Qed.

(* ------------------------------------------------------------------ ascending ids, ORDER BY *)
Fixpoint asc (l : list N) : Prop :=
  match l with
  | [] => True
  | x :: r => (forall y, In y r -> x < y) /\ asc r
  end.

Lemma asc_NoDup l : asc l -> NoDup l.
Proof.
  induction l as [|x l IH]; cbn; intros H; [constructor|].
  destruct H as [H1 H2]. constructor; [|now apply IH].
  intros Hx. apply H1 in Hx. lia.
Qed.

Lemma asc_app_one l x : asc l -> (forall y, In y l -> y < x) -> asc (l ++ [x]).
Proof.
  induction l as [|a l IH]; cbn; intros H Hx.
  - split; [intros y []|exact I].
  - destruct H as [H1 H2]. split.
    + intros y Hy. apply in_app_iff in Hy. destruct Hy as [Hy|[<-|[]]]; [now apply H1|]. apply Hx. now left.
    + apply IH; [assumption|]. intros y Hy. apply Hx. now right.
Qed.

Lemma asc_filter_map {A} (f : A -> N) (P : A -> bool) (l : list A) :
  asc (map f l) -> asc (map f (filter P l)).
Proof.
  induction l as [|a l IH]; cbn; intros H; [exact I|].
  destruct H as [H1 H2]. destruct (P a); cbn; [|now apply IH].
  split; [|now apply IH].
  intros y Hy. apply H1. apply in_map_iff in Hy. destruct Hy as [x [E Hx]].
  apply filter_In in Hx. destruct Hx as [Hx _]. rewrite <- E. now apply in_map.
Qed.

Lemma insert_by_id_lt q l :
  (forall x, In x l -> q_id q < q_id x) -> insert_by_id q l = q :: l.
Proof.
  destruct l as [|x r]; cbn; intros H; [reflexivity|].
  assert (Hx : q_id q < q_id x) by (apply H; now left).
  destruct (q_id q <=? q_id x) eqn:E; [reflexivity|]. apply N.leb_gt in E. lia.
Qed.

Lemma by_id_sorted l : asc (map q_id l) -> by_id l = l.
Proof.
  induction l as [|q l IH]; intros H; [reflexivity|].
  change (by_id (q :: l)) with (insert_by_id q (by_id l)).
  cbn in H. destruct H as [H1 H2]. rewrite IH by assumption.
  apply insert_by_id_lt. intros x Hx. apply H1. now apply in_map.
Qed.

Lemma max_id_cons {A} (idf : A -> N) (a : A) (l : list A) :
  max_id idf (a :: l) = N.max (idf a) (max_id idf l).
Proof. reflexivity. Qed.

Lemma max_id_ge {A} (idf : A -> N) (l : list A) x : In x l -> idf x <= max_id idf l.
Proof.
  induction l as [|a l IH]; [contradiction|].
  rewrite max_id_cons. intros [->|H]; [lia|]. apply IH in H. lia.
Qed.

Lemma max_id_app {A} (idf : A -> N) (l1 l2 : list A) :
  max_id idf (l1 ++ l2) = N.max (max_id idf l1) (max_id idf l2).
Proof.
  induction l1 as [|a l1 IH]; [cbn; now rewrite N.max_0_l|].
  rewrite <- app_comm_cons, !max_id_cons, IH. lia.
Qed.

(* ------------------------------------------------------------------ url_strings *)
Definition sok (ss : list srow) : Prop := NoDup (map s_id ss) /\ NoDup (map s_url ss).

Lemma string_id_some ss u i : string_id ss u = Some i -> In (mkS i u) ss.
Proof.
  unfold string_id. destruct (find (fun s => list_eqb (s_url s) u) ss) as [s|] eqn:E; cbn; intros H; inversion H; subst.
  apply find_some in E. destruct E as [Hin He]. apply list_eqb_eq in He. destruct s as [i' u']; cbn in *. now subst.
Qed.

Lemma string_id_none ss u : string_id ss u = None -> ~ In u (map s_url ss).
Proof.
  unfold string_id. destruct (find (fun s => list_eqb (s_url s) u) ss) as [s|] eqn:E; cbn; [discriminate|].
  intros _ Hin. apply in_map_iff in Hin. destruct Hin as [s [Es Hs]].
  eapply find_none in E; [|exact Hs]. cbn in E. rewrite Es, list_eqb_refl in E. discriminate.
Qed.

Lemma string_id_in ss i u : NoDup (map s_url ss) -> In (mkS i u) ss -> string_id ss u = Some i.
Proof.
  intros ND Hin. destruct (string_id ss u) as [j|] eqn:E.
  - apply string_id_some in E. f_equal.
    assert (X : mkS j u = mkS i u) by (eapply NoDup_map_inj; eauto). now inversion X.
  - apply string_id_none in E. exfalso. apply E. change u with (s_url (mkS i u)). now apply in_map.
Qed.

Lemma string_by_id_some ss i u : string_by_id ss i = Some u -> In (mkS i u) ss.
Proof.
  unfold string_by_id. destruct (find (fun s => s_id s =? i) ss) as [s|] eqn:E; cbn; intros H; inversion H; subst.
  apply find_some in E. destruct E as [Hin He]. apply N.eqb_eq in He. destruct s as [i' u']; cbn in *. now subst.
Qed.

Lemma string_by_id_none ss i : string_by_id ss i = None -> ~ In i (map s_id ss).
Proof.
  unfold string_by_id. destruct (find (fun s => s_id s =? i) ss) as [s|] eqn:E; cbn; [discriminate|].
  intros _ Hin. apply in_map_iff in Hin. destruct Hin as [s [Es Hs]].
  eapply find_none in E; [|exact Hs]. cbn in E. rewrite Es, N.eqb_refl in E. discriminate.
Qed.

Lemma string_by_id_in ss i u : NoDup (map s_id ss) -> In (mkS i u) ss -> string_by_id ss i = Some u.
Proof.
  intros ND Hin. destruct (string_by_id ss i) as [v|] eqn:E.
  - apply string_by_id_some in E. f_equal.
    assert (X : mkS i v = mkS i u) by (eapply NoDup_map_inj; eauto). now inversion X.
  - apply string_by_id_none in E. exfalso. apply E. change i with (s_id (mkS i u)). now apply in_map.
Qed.

Lemma string_id_by_id ss i u : sok ss -> (string_id ss u = Some i <-> string_by_id ss i = Some u).
Proof.
  intros [H1 H2]. split; intros H.
  - apply string_by_id_in; [assumption|]. now apply string_id_some.
  - apply string_id_in; [assumption|]. now apply string_by_id_some.
Qed.

Lemma string_by_id_app ss ext i u : string_by_id ss i = Some u -> string_by_id (ss ++ ext) i = Some u.
Proof. unfold string_by_id. rewrite find_app. destruct (find (fun s => s_id s =? i) ss); cbn; [auto|discriminate]. Qed.

Lemma string_id_app ss ext u i : string_id ss u = Some i -> string_id (ss ++ ext) u = Some i.
Proof. unfold string_id. rewrite find_app. destruct (find (fun s => list_eqb (s_url s) u) ss); cbn; [auto|discriminate]. Qed.

Lemma next_id_fresh {A} (idf : A -> N) (l : list A) : ~ In (next_id idf l) (map idf l).
Proof.
  intros H. apply in_map_iff in H. destruct H as [x [E Hx]].
  apply (max_id_ge idf) in Hx. unfold next_id in E. lia.
Qed.

Lemma insert_string_spec ss u :
  sok ss ->
  sok (insert_string ss u) /\ (exists ext, insert_string ss u = ss ++ ext) /\
  In u (map s_url (insert_string ss u)) /\
  (forall v, In v (map s_url (insert_string ss u)) -> In v (map s_url ss) \/ v = u).
Proof.
  intros [H1 H2]. unfold insert_string. destruct (string_id ss u) as [i|] eqn:E.
  - repeat split; try assumption.
    + exists []. now rewrite app_nil_r.
    + apply string_id_some in E. change u with (s_url (mkS i u)). now apply in_map.
    + intros v Hv. now left.
  - apply string_id_none in E. repeat split.
    + rewrite map_app. cbn. apply NoDup_app_one; [assumption|apply next_id_fresh].
    + rewrite map_app. cbn. now apply NoDup_app_one.
    + eexists. reflexivity.
    + rewrite map_app, in_app_iff. right. now left.
    + intros v Hv. rewrite map_app, in_app_iff in Hv. cbn in Hv. destruct Hv as [Hv|[Hv|[]]]; auto.
Qed.

Lemma fold_insert_string_spec us : forall ss,
  sok ss ->
  sok (fold_left insert_string us ss) /\ (exists ext, fold_left insert_string us ss = ss ++ ext) /\
  (forall u, In u us -> In u (map s_url (fold_left insert_string us ss))) /\
  (forall v, In v (map s_url (fold_left insert_string us ss)) -> In v (map s_url ss) \/ In v us).
Proof.
  induction us as [|u us IH]; intros ss Hok; cbn [fold_left].
  - repeat split; try apply Hok.
    + exists []. now rewrite app_nil_r.
    + intros u [].
    + intros v Hv. now left.
  - destruct (insert_string_spec ss u Hok) as [Hok1 [[e1 He1] [Hin1 Hsub1]]].
    destruct (IH _ Hok1) as [Hok2 [[e2 He2] [Hin2 Hsub2]]].
    split; [assumption|]. split; [|split].
    + exists (e1 ++ e2). rewrite He2, He1. now rewrite app_assoc.
    + intros v [<-|Hv]; [|now apply Hin2].
      rewrite He2, map_app, in_app_iff. now left.
    + intros v Hv. apply Hsub2 in Hv. destruct Hv as [Hv|Hv]; [|right; now right].
      apply Hsub1 in Hv. destruct Hv as [Hv| ->]; [now left|right; now left].
Qed.

(* ------------------------------------------------------------------ queued_urls *)
Definition ref_ok (ss : list srow) (o : option N) : Prop :=
  match o with Some i => string_by_id ss i <> None | None => True end.

Definition row_ok (ss : list srow) (q : qrow) : Prop :=
  string_by_id ss (q_us q) <> None /\ ref_ok ss (q_parent q) /\ ref_ok ss (q_root q).

Definition qok (ss : list srow) (qs : list qrow) : Prop :=
  asc (map q_id qs) /\ NoDup (map q_us qs) /\ (forall q, In q qs -> row_ok ss q).

Lemma plain_url ss q u : string_by_id ss (q_us q) = Some u -> r_url (plain ss q) = u.
Proof. intros H. unfold plain; cbn [r_url]. now rewrite H. Qed.

Lemma row_ok_url ss q : row_ok ss q -> string_by_id ss (q_us q) = Some (r_url (plain ss q)).
Proof.
  intros [H _]. destruct (string_by_id ss (q_us q)) as [u|] eqn:E; [|congruence].
  now rewrite (plain_url _ _ _ E).
Qed.

Lemma key_us_is ss q u :
  sok ss -> row_ok ss q -> us_is (string_id ss u) q = list_eqb (r_url (plain ss q)) u.
Proof.
  intros Hs Hq. pose proof (row_ok_url _ _ Hq) as Hu. remember (r_url (plain ss q)) as u' eqn:Hu'; clear Hu'.
  destruct (string_id ss u) as [i|] eqn:E; cbn.
  - destruct (q_us q =? i) eqn:Ei.
    + apply N.eqb_eq in Ei. subst i. apply (string_id_by_id _ _ _ Hs) in E.
      rewrite E in Hu. inversion Hu. symmetry. apply list_eqb_refl.
    + symmetry. apply list_eqb_neq. intros ->. apply (string_id_by_id _ _ _ Hs) in Hu.
      rewrite Hu in E. inversion E. subst. rewrite N.eqb_refl in Ei. discriminate.
  - symmetry. apply list_eqb_neq. intros ->. apply (string_id_by_id _ _ _ Hs) in Hu. congruence.
Qed.

Lemma key_has_url ss q u :
  sok ss -> row_ok ss q -> has_url ss u q = list_eqb (r_url (plain ss q)) u.
Proof.
  intros Hs Hq. pose proof (row_ok_url _ _ Hq) as Hu. remember (r_url (plain ss q)) as u' eqn:Hu'; clear Hu'.
  apply string_by_id_some in Hu. unfold has_url.
  destruct (list_eqb u' u) eqn:E.
  - apply existsb_exists. exists (mkS (q_us q) u'). split; [assumption|]. cbn. now rewrite N.eqb_refl.
  - destruct (existsb _ ss) eqn:Ex; [|reflexivity].
    apply existsb_exists in Ex. destruct Ex as [s [Hin Hs']]. apply andb_true_iff in Hs'. destruct Hs' as [Hi Hu'].
    apply N.eqb_eq in Hi. destruct Hs as [Hs1 _].
    assert (X : s = mkS (q_us q) u') by (eapply NoDup_map_inj; eauto).
    subst s. cbn in Hu'. congruence.
Qed.

Lemma ref_ok_app ss ext o : ref_ok ss o -> ref_ok (ss ++ ext) o.
Proof.
  destruct o as [i|]; cbn; [|auto]. intros H.
  destruct (string_by_id ss i) as [u|] eqn:E; [|congruence].
  now rewrite (string_by_id_app _ ext _ _ E).
Qed.

Lemma row_ok_app ss ext q : row_ok ss q -> row_ok (ss ++ ext) q.
Proof.
  intros [H1 [H2 H3]]. split; [|split; now apply ref_ok_app].
  destruct (string_by_id ss (q_us q)) as [u|] eqn:E; [|congruence].
  now rewrite (string_by_id_app _ ext _ _ E).
Qed.

Lemma qok_app ss ext qs : qok ss qs -> qok (ss ++ ext) qs.
Proof. intros [H1 [H2 H3]]. repeat split; try assumption; now apply row_ok_app, H3. Qed.

Lemma ref_plain_app ss ext o :
  ref_ok ss o ->
  match o with Some i => string_by_id (ss ++ ext) i | None => None end =
  match o with Some i => string_by_id ss i | None => None end.
Proof.
  destruct o as [i|]; cbn; [|reflexivity]. intros H.
  destruct (string_by_id ss i) as [u|] eqn:E; [|congruence]. now apply string_by_id_app.
Qed.

Lemma plain_app ss ext q : row_ok ss q -> plain (ss ++ ext) q = plain ss q.
Proof.
  intros [H1 [H2 H3]]. unfold plain.
  rewrite (ref_plain_app _ ext _ H2), (ref_plain_app _ ext _ H3).
  destruct (string_by_id ss (q_us q)) as [u|] eqn:E; [|congruence].
  now rewrite (string_by_id_app _ ext _ _ E).
Qed.

Lemma map_plain_app ss ext qs : qok ss qs -> map (plain (ss ++ ext)) qs = map (plain ss) qs.
Proof. intros [_ [_ H]]. apply map_ext_in. intros q Hq. now apply plain_app, H. Qed.

Definition set_f (q : qrow) (f : fields) : qrow := mkQ (q_id q) (q_us q) (q_parent q) (q_root q) f.

Lemma update_where_keys (proj : qrow -> N) P g qs :
  (forall q f, proj (set_f q f) = proj q) -> map proj (update_where P g qs) = map proj qs.
Proof.
  intros Hp. unfold update_where. rewrite map_map. apply map_ext. intros q.
  destruct (P q); [apply (Hp q)|reflexivity].
Qed.

Lemma qok_update_where ss P g qs : qok ss qs -> qok ss (update_where P g qs).
Proof.
  intros [H1 [H2 H3]]. split; [|split].
  - rewrite (update_where_keys q_id); [assumption|reflexivity].
  - rewrite (update_where_keys q_us); [assumption|reflexivity].
  - intros q Hq. unfold update_where in Hq. apply in_map_iff in Hq. destruct Hq as [x [E Hx]].
    specialize (H3 x Hx). destruct (P x); subst q; exact H3.
Qed.

Lemma qok_filter ss P qs : qok ss qs -> qok ss (filter P qs).
Proof.
  intros [H1 [H2 H3]]. split; [|split].
  - now apply asc_filter_map.
  - now apply NoDup_filter_map.
  - intros q Hq. apply filter_In in Hq. now apply H3.
Qed.

Lemma plain_set_f ss q f :
  plain ss (set_f q f) = mkRec (r_url (plain ss q)) (r_parent (plain ss q)) (r_root (plain ss q)) f.
Proof. reflexivity. Qed.

(* UPDATE .. WHERE url_string_id = (SELECT id .. WHERE url = u)  ==  update the record with key u *)
Lemma update_where_key ss qs u g :
  sok ss -> qok ss qs ->
  map (plain ss) (update_where (us_is (string_id ss u)) g qs) = map_key u g (map (plain ss) qs).
Proof.
  intros Hs [_ [_ H3]]. unfold update_where, map_key. rewrite !map_map. apply map_ext_in. intros q Hq.
  rewrite (key_us_is _ _ u Hs (H3 q Hq)). destruct (list_eqb (r_url (plain ss q)) u); reflexivity.
Qed.

(* ------------------------------------------------------------------ add_many *)
(* the specification's insertion loop with the record constructor abstracted *)
Fixpoint spec_add_gen (mk : add_item -> rec) (recs : list rec) (b : list add_item) : list rec * list url :=
  match b with
  | [] => (recs, [])
  | it :: rest =>
      if has_key (a_url it) recs then spec_add_gen mk recs rest
      else let '(recs', added) := spec_add_gen mk (recs ++ [mk it]) rest in (recs', a_url it :: added)
  end.

Lemma spec_add_is_gen b : forall recs, spec_add recs b = spec_add_gen new_rec recs b.
Proof.
  induction b as [|it b IH]; intros recs; cbn [spec_add spec_add_gen]; [reflexivity|].
  destruct (has_key (a_url it) recs); [apply IH|]. now rewrite IH.
Qed.

Definition resolve (ss : list srow) (o : option url) : option url :=
  match ref_id ss o with Some i => string_by_id ss i | None => None end.
Definition mk_ss (ss : list srow) (it : add_item) : rec :=
  mkRec (a_url it) (resolve ss (item_parent it)) (resolve ss (item_root it)) (item_fields it).

Lemma has_key_map (u : url) (recs : list rec) :
  has_key u recs = existsb (fun v => list_eqb v u) (map r_url recs).
Proof. unfold has_key. now rewrite existsb_map. Qed.

Lemma has_key_us ss qs u sid :
  sok ss -> qok ss qs -> string_id ss u = Some sid ->
  existsb (fun q => q_us q =? sid) qs = has_key u (map (plain ss) qs).
Proof.
  intros Hs [_ [_ H3]] E. unfold has_key. rewrite existsb_map. apply existsb_ext_in. intros q Hq.
  rewrite <- (key_us_is ss q u Hs (H3 q Hq)). now rewrite E.
Qed.

Lemma ref_id_ok ss o : sok ss -> ref_ok ss (ref_id ss o).
Proof.
  intros Hs. destruct o as [u|]; cbn; [|exact I].
  destruct (string_id ss u) as [i|] eqn:E; cbn; [|exact I].
  apply (string_id_by_id _ _ _ Hs) in E. congruence.
Qed.

Lemma fold_insert_queued_sim ss b :
  sok ss -> forall qs, qok ss qs ->
  (forall it, In it b -> string_id ss (a_url it) <> None) ->
  exists new,
    fold_left (insert_queued ss) b qs = qs ++ new /\ qok ss (qs ++ new) /\
    (forall q, In q new -> max_id q_id qs < q_id q) /\
    spec_add_gen (mk_ss ss) (map (plain ss) qs) b
    = (map (plain ss) (qs ++ new), map (fun q => r_url (plain ss q)) new).
Proof.
  intros Hs. induction b as [|it b IH]; intros qs Hq Hb; cbn [fold_left spec_add_gen].
  - exists []. rewrite app_nil_r. split; [reflexivity|]. split; [assumption|]. split; [intros q []|reflexivity].
  - destruct (string_id ss (a_url it)) as [sid|] eqn:E; [|exfalso; apply (Hb it); [now left|assumption]].
    assert (Hb' : forall it', In it' b -> string_id ss (a_url it') <> None) by (intros it' H'; apply Hb; now right).
    unfold insert_queued at 2. rewrite E.
    rewrite <- (has_key_us ss qs (a_url it) sid Hs Hq E).
    destruct (existsb (fun q => q_us q =? sid) qs) eqn:Ex.
    + exact (IH qs Hq Hb').
    + set (newq := mkQ (next_id q_id qs) sid (ref_id ss (item_parent it)) (ref_id ss (item_root it)) (item_fields it)).
      assert (Hurl : string_by_id ss sid = Some (a_url it)) by now apply (string_id_by_id _ _ _ Hs).
      assert (Hplain : plain ss newq = mk_ss ss it).
      { unfold plain, mk_ss, resolve. cbn [q_us q_parent q_root q_f newq]. now rewrite Hurl. }
      assert (Hq1 : qok ss (qs ++ [newq])).
      { destruct Hq as [H1 [H2 H3]]. split; [|split].
        - rewrite map_app. cbn [map]. apply asc_app_one; [assumption|].
          intros y Hy. apply in_map_iff in Hy. destruct Hy as [x [<- Hx]].
          apply (max_id_ge q_id) in Hx. cbn [q_id newq]. unfold next_id. lia.
        - rewrite map_app. cbn [map]. apply NoDup_app_one; [assumption|].
          intros Hin. apply in_map_iff in Hin. destruct Hin as [x [Ex' Hx]].
          pose proof (existsb_false _ _ Ex x Hx) as Ex2. cbn beta in Ex2. cbn [q_us newq] in Ex'.
          rewrite Ex', N.eqb_refl in Ex2. discriminate.
        - intros q Hin. apply in_app_iff in Hin. destruct Hin as [Hin|[<-|[]]]; [now apply H3|].
          split; [cbn [q_us newq]; congruence|]. split; cbn [q_parent q_root newq]; now apply ref_id_ok. }
      destruct (IH (qs ++ [newq]) Hq1 Hb') as [new [Hf [Hok [Hids Hspec]]]].
      exists (newq :: new). rewrite <- app_assoc in Hf, Hok, Hspec. cbn [app] in Hf, Hok, Hspec.
      split; [exact Hf|]. split; [exact Hok|]. split.
      * intros q [<-|Hin]; [cbn [q_id newq]; unfold next_id; lia|].
        apply Hids in Hin. rewrite max_id_app in Hin. lia.
      * rewrite map_app in Hspec. cbn [map] in Hspec. rewrite Hplain in Hspec. rewrite Hspec.
        cbn [map]. rewrite Hplain. reflexivity.
Qed.

Lemma snd_let_pair {A B} (X : A * list B) (u : B) :
  snd (let '(r, a) := X in (r, u :: a)) = u :: snd X.
Proof. now destruct X. Qed.

Lemma fst_let_pair {A B} (X : A * list B) (u : B) :
  fst (let '(r, a) := X in (r, u :: a)) = fst X.
Proof. now destruct X. Qed.

Lemma spec_add_gen_added mk1 mk2 b :
  (forall it, r_url (mk1 it) = a_url it) -> (forall it, r_url (mk2 it) = a_url it) ->
  forall r1 r2, map r_url r1 = map r_url r2 ->
  snd (spec_add_gen mk1 r1 b) = snd (spec_add_gen mk2 r2 b).
Proof.
  intros H1 H2. induction b as [|it b IH]; intros r1 r2 E; cbn [spec_add_gen]; [reflexivity|].
  rewrite !has_key_map, E. destruct (existsb (fun v => list_eqb v (a_url it)) (map r_url r2)); [now apply IH|].
  rewrite !snd_let_pair. f_equal. apply IH. rewrite !map_app. cbn. now rewrite E, H1, H2.
Qed.

Lemma spec_add_gen_ext mk1 mk2 b :
  (forall it, In it b -> mk1 it = mk2 it) ->
  forall r, spec_add_gen mk1 r b = spec_add_gen mk2 r b.
Proof.
  induction b as [|it b IH]; intros H r; cbn [spec_add_gen]; [reflexivity|].
  assert (H' : forall it', In it' b -> mk1 it' = mk2 it') by (intros it' Hi; apply H; now right).
  destruct (has_key (a_url it) r); [now apply IH|].
  rewrite (H it) by now left. now rewrite IH.
Qed.

Lemma has_key_app u r1 r2 : has_key u (r1 ++ r2) = has_key u r1 || has_key u r2.
Proof. unfold has_key. apply existsb_app. Qed.

Lemma spec_add_gen_in_added mk b u :
  (forall it, r_url (mk it) = a_url it) ->
  forall recs, In u (map a_url b) -> has_key u recs = false -> In u (snd (spec_add_gen mk recs b)).
Proof.
  intros Hmk. induction b as [|it b IH]; intros recs Hin Hk; cbn [spec_add_gen]; [destruct Hin|].
  cbn [map] in Hin. destruct (has_key (a_url it) recs) eqn:Ek.
  - destruct Hin as [E|Hin]; [congruence|]. now apply IH.
  - rewrite snd_let_pair. destruct (list_eqb (a_url it) u) eqn:Eu.
    + apply list_eqb_eq in Eu. now left.
    + right. destruct Hin as [E|Hin]; [apply list_eqb_neq in Eu; contradiction|].
      apply IH; [assumption|]. rewrite has_key_app, Hk. cbn. now rewrite Hmk, Eu.
Qed.

Lemma filter_nil {A} (P : A -> bool) (l : list A) : (forall x, In x l -> P x = false) -> filter P l = [].
Proof.
  induction l as [|a l IH]; cbn; intros H; [reflexivity|].
  rewrite (H a) by now left. apply IH. intros x Hx. apply H. now right.
Qed.

Lemma filter_all {A} (P : A -> bool) (l : list A) : (forall x, In x l -> P x = true) -> filter P l = l.
Proof.
  induction l as [|a l IH]; cbn; intros H; [reflexivity|].
  rewrite (H a) by now left. f_equal. apply IH. intros x Hx. apply H. now right.
Qed.

Lemma filter_by_id_single ss i u :
  NoDup (map s_id ss) -> In (mkS i u) ss -> filter (fun s => s_id s =? i) ss = [mkS i u].
Proof.
  induction ss as [|a ss IH]; cbn [map filter In]; intros ND Hin; [contradiction|].
  inversion ND as [|? ? Ha ND']; subst.
  destruct (s_id a =? i) eqn:E.
  - apply N.eqb_eq in E. destruct Hin as [->|Hin].
    + f_equal. apply filter_nil. intros x Hx. apply N.eqb_neq. intros Ex. apply Ha. cbn. rewrite <- Ex. now apply in_map.
    + exfalso. apply Ha. rewrite E. change i with (s_id (mkS i u)). now apply in_map.
  - destruct Hin as [->|Hin]; [cbn in E; rewrite N.eqb_refl in E; discriminate|]. now apply IH.
Qed.

Lemma inserted_urls_new ss qs new :
  sok ss -> qok ss (qs ++ new) -> (forall q, In q new -> max_id q_id qs < q_id q) ->
  inserted_urls ss (qs ++ new) (max_id q_id qs) = map (fun q => r_url (plain ss q)) new.
Proof.
  intros [Hs1 Hs2] [H1 [H2 H3]] Hnew. unfold inserted_urls. rewrite (by_id_sorted _ H1), filter_app.
  rewrite (filter_nil _ qs), (filter_all _ new); cbn [app].
  - assert (Hr : forall q, In q new -> row_ok ss q) by (intros q Hq; apply H3, in_app_iff; now right).
    clear - Hs1 Hr. induction new as [|q new IH]; cbn [flat_map map]; [reflexivity|].
    pose proof (row_ok_url ss q (Hr q (or_introl eq_refl))) as Hu. apply string_by_id_some in Hu.
    rewrite (filter_by_id_single ss _ _ Hs1 Hu). cbn [map app s_url]. f_equal. apply IH. intros x Hx. apply Hr. now right.
  - intros q Hq. apply N.ltb_lt. now apply Hnew.
  - intros q Hq. apply N.ltb_ge. now apply max_id_ge.
Qed.

Lemma in_batch_strings_url b it : In it b -> In (a_url it) (batch_strings b).
Proof. intros H. unfold batch_strings. apply in_flat_map. exists it. split; [assumption|now left]. Qed.

Lemma in_batch_strings_ref b it (c : N) (r : list N) :
  In it b -> (item_parent it = Some (c :: r) \/ item_root it = Some (c :: r)) -> In (c :: r) (batch_strings b).
Proof.
  intros H Hr. unfold batch_strings. apply in_flat_map. exists it. split; [assumption|].
  unfold item_parent, item_root in Hr. destruct (a_props it) as [p|].
  - right. apply in_app_iff. destruct Hr as [E|E]; rewrite E; cbn; auto.
  - left. destruct Hr as [E|E]; now inversion E.
Qed.

Lemma truthy_nonempty o : ~ In [] (truthy o).
Proof. destruct o as [[|c r]|]; cbn; intros H; try contradiction. destruct H as [H|[]]. discriminate. Qed.

Lemma batch_strings_nonempty b : (forall it, In it b -> a_url it <> []) -> ~ In [] (batch_strings b).
Proof.
  intros H Hin. unfold batch_strings in Hin. apply in_flat_map in Hin. destruct Hin as [it [Hit Hin]].
  destruct Hin as [E|Hin]; [now apply (H it)|].
  destruct (a_props it) as [p|]; [|destruct Hin].
  apply in_app_iff in Hin. destruct Hin as [Hin|Hin]; now apply truthy_nonempty in Hin.
Qed.

Lemma resolve_norm ss o :
  sok ss -> ~ In [] (map s_url ss) ->
  (forall c r, o = Some (c :: r) -> In (c :: r) (map s_url ss)) ->
  resolve ss o = norm_ref o.
Proof.
  intros Hs Hne Hin. unfold resolve. destruct o as [[|c r]|]; cbn [ref_id norm_ref]; [| |reflexivity].
  - destruct (string_id ss []) as [i|] eqn:E; [|reflexivity].
    apply string_id_some in E. exfalso. apply Hne. change [] with (s_url (mkS i [])). now apply in_map.
  - specialize (Hin c r eq_refl). destruct (string_id ss (c :: r)) as [i|] eqn:E.
    + now apply (string_id_by_id _ _ _ Hs).
    + apply string_id_none in E. contradiction.
Qed.

(* ------------------------------------------------------------------ invariant and abstraction *)
Definition inv (d : db) : Prop :=
  sok (d_strings d) /\ ~ In [] (map s_url (d_strings d)) /\ qok (d_strings d) (d_queued d) /\
  NoDup (map v_url (d_visits d)).

Definition abs_visit (v : vrow) : url * (str * str) := (v_url v, (v_warc v, v_digest v)).
Definition abs (d : db) : spec := mkSpec (sql_get_all d) (map abs_visit (d_visits d)).

Lemma inv_empty : inv empty_db.
Proof.
  unfold inv, sok, qok; cbn. split; [split; constructor|]. split; [intros []|]. split; [|constructor].
  split; [exact I|]. split; [constructor|intros q []].
Qed.

Lemma abs_empty : abs empty_db = empty_spec.
Proof. reflexivity. Qed.

Lemma get_all_inv d : inv d -> sql_get_all d = map (plain (d_strings d)) (d_queued d).
Proof. intros [_ [_ [[H _] _]]]. unfold sql_get_all. now rewrite by_id_sorted. Qed.

Lemma keys_in_strings ss qs u :
  qok ss qs -> has_key u (map (plain ss) qs) = true -> In u (map s_url ss).
Proof.
  intros [_ [_ H3]] Hk. unfold has_key in Hk. rewrite existsb_map in Hk. apply existsb_exists in Hk.
  destruct Hk as [q [Hq E]]. apply list_eqb_eq in E. subst u.
  pose proof (row_ok_url ss q (H3 q Hq)) as Hu. apply string_by_id_some in Hu.
  change (r_url (plain ss q)) with (s_url (mkS (q_us q) (r_url (plain ss q)))). now apply in_map.
Qed.

Section Refinement.
  Variable bad : url -> bool.

  Definition sql_add_many_body (d : db) (b : list add_item) : ret * db :=
    let ss := fold_left insert_string (batch_strings b) (d_strings d) in
    let last := max_id q_id (d_queued d) in
    let qs := fold_left (insert_queued ss) b (d_queued d) in
    let added := inserted_urls ss qs last in
    if existsb (unparseable bad) added then (RValueError, d) else (RUrls added, mkDb ss qs (d_visits d)).

  Lemma sql_add_many_nonempty d b : b <> [] -> sql_add_many bad d b = sql_add_many_body d b.
  Proof. destruct b; [contradiction|reflexivity]. Qed.

  Lemma add_many_refines d b :
    inv d ->
    spec_add_many bad (abs d) b = (fst (sql_add_many bad d b), abs (snd (sql_add_many bad d b)))
    /\ inv (snd (sql_add_many bad d b)).
  Proof.
    intros Hinv. pose proof Hinv as [Hs [Hne [Hq Hv]]].
    unfold spec_add_many. cbn [abs sp_recs sp_visits]. rewrite (get_all_inv d Hinv).
    destruct b as [|it0 b0].
    { cbn. split; [|assumption]. unfold abs. now rewrite (get_all_inv d Hinv). }
    rewrite (sql_add_many_nonempty d (it0 :: b0)) by discriminate.
    generalize (it0 :: b0). clear it0 b0. intros b. unfold sql_add_many_body.
    set (ss0 := d_strings d) in *. set (qs0 := d_queued d) in *.
    destruct (fold_insert_string_spec (batch_strings b) ss0 Hs) as [Hs' [[ext Hext] [Hin Hsub]]].
    set (ss := fold_left insert_string (batch_strings b) ss0) in *.
    assert (Hq' : qok ss qs0) by (rewrite Hext; now apply qok_app).
    assert (Hb' : forall it, In it b -> string_id ss (a_url it) <> None).
    { intros it Hit E. apply string_id_none in E. apply E, Hin. now apply in_batch_strings_url. }
    destruct (fold_insert_queued_sim ss b Hs' qs0 Hq' Hb') as [new [Hf [Hok [Hids Hsim]]]].
    rewrite Hf. rewrite (inserted_urls_new ss qs0 new Hs' Hok Hids).
    set (added := map (fun q => r_url (plain ss q)) new) in *.
    assert (Hplain0 : map (plain ss) qs0 = map (plain ss0) qs0) by (rewrite Hext; now apply map_plain_app).
    rewrite Hplain0 in Hsim.
    (* the reported URLs do not depend on how records are built *)
    assert (Hadded : snd (spec_add (map (plain ss0) qs0) b) = added).
    { rewrite spec_add_is_gen.
      rewrite (spec_add_gen_added new_rec (mk_ss ss) b (fun _ => eq_refl) (fun _ => eq_refl) _ _ eq_refl).
      now rewrite Hsim. }
    destruct (existsb (unparseable bad) added) eqn:Ebad.
    - (* rollback *)
      destruct (spec_add (map (plain ss0) qs0) b) as [recs' added'] eqn:Espec. cbn [snd] in Hadded. subst added'.
      rewrite Ebad. cbn [fst snd]. split; [|assumption].
      unfold abs. now rewrite (get_all_inv d Hinv).
    - (* commit: no URL of the batch is the empty string *)
      assert (Hnoempty : forall it, In it b -> a_url it <> []).
      { intros it Hit E.
        assert (X : In [] added).
        { rewrite <- Hadded, spec_add_is_gen. apply spec_add_gen_in_added; [reflexivity|rewrite <- E; now apply in_map|].
          destruct (has_key [] (map (plain ss0) qs0)) eqn:Ek; [|reflexivity].
          exfalso. apply Hne. exact (keys_in_strings ss0 qs0 [] Hq Ek). }
        pose proof (existsb_false _ _ Ebad [] X) as Y. discriminate Y. }
      assert (Hne' : ~ In [] (map s_url ss)).
      { intros X. apply Hsub in X. destruct X as [X|X]; [contradiction|].
        now apply (batch_strings_nonempty b Hnoempty). }
      assert (Hmk : forall it, In it b -> mk_ss ss it = new_rec it).
      { intros it Hit. unfold mk_ss, new_rec. f_equal.
        - apply resolve_norm; try assumption. intros c r E. apply Hin. apply (in_batch_strings_ref b it c r Hit). now left.
        - apply resolve_norm; try assumption. intros c r E. apply Hin. apply (in_batch_strings_ref b it c r Hit). now right. }
      rewrite (spec_add_gen_ext _ _ b Hmk) in Hsim. rewrite <- spec_add_is_gen in Hsim.
      rewrite Hsim, Ebad. cbn [fst snd].
      assert (Hinv' : inv (mkDb ss (qs0 ++ new) (d_visits d))).
      { unfold inv. cbn [d_strings d_queued d_visits]. auto. }
      split; [|exact Hinv'].
      unfold abs. rewrite (get_all_inv _ Hinv'). reflexivity.
  Qed.
End Refinement.

(* ------------------------------------------------------------------ the other operations *)
Lemma same_url_same_row ss qs x q :
  sok ss -> qok ss qs -> In x qs -> In q qs -> r_url (plain ss x) = r_url (plain ss q) -> x = q.
Proof.
  intros Hs [_ [H2 H3]] Hx Hq E.
  pose proof (row_ok_url ss x (H3 x Hx)) as Ux. pose proof (row_ok_url ss q (H3 q Hq)) as Uq.
  rewrite E in Ux. apply (string_id_by_id _ _ _ Hs) in Ux, Uq. rewrite Ux in Uq. inversion Uq as [Eus].
  eapply NoDup_map_inj; eauto.
Qed.

Lemma update_by_id_key ss qs q g :
  sok ss -> qok ss qs -> In q qs ->
  map (plain ss) (update_where (fun x => q_id x =? q_id q) g qs)
  = map_key (r_url (plain ss q)) g (map (plain ss) qs).
Proof.
  intros Hs Hq Hin. unfold update_where, map_key. rewrite !map_map. apply map_ext_in. intros x Hx.
  destruct (q_id x =? q_id q) eqn:E.
  - apply N.eqb_eq in E. assert (x = q).
    { destruct Hq as [H1 _]. apply asc_NoDup in H1. eapply NoDup_map_inj; eauto. }
    subst x. now rewrite list_eqb_refl.
  - destruct (list_eqb (r_url (plain ss x)) (r_url (plain ss q))) eqn:Eu; [|reflexivity].
    apply list_eqb_eq in Eu. assert (x = q) by (eapply same_url_same_row; eauto).
    subst x. rewrite N.eqb_refl in E. discriminate.
Qed.

Lemma release_map ss qs :
  map (plain ss) (update_where (fun q => status_eqb (f_status (q_f q)) InProgress) (set_status Todo) qs)
  = map (fun r => mkRec (r_url r) (r_parent r) (r_root r) (release_fields (r_f r))) (map (plain ss) qs).
Proof.
  unfold update_where. rewrite !map_map. apply map_ext. intros q. unfold release_fields. cbn [plain r_f r_url r_parent r_root].
  destruct (status_eqb (f_status (q_f q)) InProgress); reflexivity.
Qed.

Lemma filter_filter {A} (P Q : A -> bool) (l : list A) :
  filter P (filter Q l) = filter (fun x => Q x && P x) l.
Proof.
  induction l as [|a l IH]; cbn; [reflexivity|].
  destruct (Q a); cbn; [destruct (P a); now rewrite IH|exact IH].
Qed.

Lemma remove_one_map ss qs u :
  sok ss -> qok ss qs ->
  map (plain ss) (filter (fun q => negb (us_is (string_id ss u) q)) qs)
  = filter (fun r => negb (list_eqb (r_url r) u)) (map (plain ss) qs).
Proof.
  intros Hs [_ [_ H3]]. apply map_filter_comm. intros q Hq. now rewrite (key_us_is ss q u Hs (H3 q Hq)).
Qed.

Lemma remove_many_map ss us : forall qs,
  sok ss -> qok ss qs ->
  map (plain ss) (fold_left (fun qs u => filter (fun q => negb (us_is (string_id ss u) q)) qs) us qs)
  = filter (fun r => negb (existsb (list_eqb (r_url r)) us)) (map (plain ss) qs)
  /\ qok ss (fold_left (fun qs u => filter (fun q => negb (us_is (string_id ss u) q)) qs) us qs).
Proof.
  induction us as [|u us IH]; intros qs Hs Hq; cbn [fold_left existsb].
  - split; [|assumption]. symmetry. apply filter_all. reflexivity.
  - destruct (IH (filter (fun q => negb (us_is (string_id ss u) q)) qs) Hs (qok_filter _ _ _ Hq)) as [E Hok].
    split; [|exact Hok]. rewrite E, (remove_one_map ss qs u Hs Hq), filter_filter.
    apply filter_ext. intros r. now rewrite negb_orb.
Qed.

Lemma existsb_find {A} (P : A -> bool) (l : list A) :
  existsb P l = match find P l with Some _ => true | None => false end.
Proof. induction l as [|a l IH]; cbn; [reflexivity|]. destruct (P a); [reflexivity|exact IH]. Qed.

Lemma get_one_refines d u : inv d -> sql_get_one d u = spec_get_one (abs d) u.
Proof.
  intros Hinv. pose proof Hinv as [Hs [_ [Hq _]]]. unfold sql_get_one, spec_get_one. cbn [abs sp_recs].
  rewrite (get_all_inv d Hinv), find_map.
  rewrite (filter_ext_in (has_url (d_strings d) u) (fun q => list_eqb (r_url (plain (d_strings d) q)) u)).
  2:{ intros q Hin. destruct Hq as [_ [_ H3]]. now apply key_has_url, H3. }
  rewrite by_id_sorted by (apply asc_filter_map, Hq).
  rewrite find_filter_hd. now destruct (filter _ (d_queued d)).
Qed.

Lemma visits_refines vs : forall l,
  NoDup (map v_url l) ->
  map abs_visit (fold_left insert_visit vs l) = fold_left spec_add_visit vs (map abs_visit l)
  /\ NoDup (map v_url (fold_left insert_visit vs l)).
Proof.
  induction vs as [|v vs IH]; intros l ND; cbn [fold_left]; [now split|].
  assert (E : existsb (fun x => list_eqb (v_url x) (fst v)) l
              = existsb (fun x => list_eqb (fst x) (fst v)) (map abs_visit l)) by now rewrite existsb_map.
  unfold insert_visit at 2 4, spec_add_visit at 2. rewrite <- E.
  destruct (existsb (fun x => list_eqb (v_url x) (fst v)) l) eqn:Ex.
  - now apply IH.
  - assert (ND' : NoDup (map v_url (l ++ [mkV (fst v) (fst (snd v)) (snd (snd v))]))).
    { rewrite map_app. cbn [map v_url]. apply NoDup_app_one; [assumption|].
      intros Hin. apply in_map_iff in Hin. destruct Hin as [x [Ex' Hx]].
      pose proof (existsb_false _ _ Ex x Hx) as Y. cbn beta in Y. rewrite Ex', list_eqb_refl in Y. discriminate. }
    destruct (IH _ ND') as [E1 E2]. split; [|exact E2].
    rewrite E1, map_app. destruct v as [a [b c]]. reflexivity.
Qed.

Lemma revisit_refines l u dg :
  NoDup (map v_url l) ->
  option_map v_warc (find (fun v => list_eqb (v_url v) u && list_eqb (v_digest v) dg) l)
  = match find (fun x => list_eqb (fst x) u) (map abs_visit l) with
    | Some (_, (w, d)) => if list_eqb d dg then Some w else None
    | None => None
    end.
Proof.
  induction l as [|v l IH]; cbn [map find]; intros ND; [reflexivity|].
  inversion ND as [|? ? Hn ND']; subst. cbn [abs_visit fst].
  destruct (list_eqb (v_url v) u) eqn:Eu; cbn [andb].
  - change (abs_visit v) with (v_url v, (v_warc v, v_digest v)). cbn iota.
    destruct (list_eqb (v_digest v) dg) eqn:Ed; [reflexivity|].
    apply list_eqb_eq in Eu. subst u.
    rewrite (proj2 (find_none_iff _ l)); [reflexivity|].
    intros x Hx. destruct (list_eqb (v_url x) (v_url v)) eqn:Ex; [|reflexivity].
    apply list_eqb_eq in Ex. exfalso. apply Hn. rewrite <- Ex. now apply in_map.
  - now apply IH.
Qed.

Lemma spec_eta (s : spec) : mkSpec (sp_recs s) (sp_visits s) = s.
Proof. now destruct s. Qed.

Section Refinement2.
  Variable bad : url -> bool.

  Lemma step_refines d o :
    inv d ->
    spec_step bad (abs d) o = (fst (sql_step bad d o), abs (snd (sql_step bad d o)))
    /\ inv (snd (sql_step bad d o)).
  Proof.
    intros Hinv. pose proof Hinv as [Hs [Hne [Hq Hv]]].
    pose proof (get_all_inv d Hinv) as Hall.
    assert (Hupd : forall P g, inv (mkDb (d_strings d) (update_where P g (d_queued d)) (d_visits d))).
    { intros P g. unfold inv. cbn [d_strings d_queued d_visits].
      split; [exact Hs|]. split; [exact Hne|]. split; [apply qok_update_where; exact Hq|exact Hv]. }
    destruct o as [b|i|s lvl|u s inc r|u f| |us|u| |u|u| |vs|u dg| ]; cbn [sql_step spec_step].
    - (* add_many *) apply add_many_refines; assumption.
    - (* add_one *)
      destruct (add_many_refines bad d [i] Hinv) as [E Hi]. rewrite E.
      destruct (sql_add_many bad d [i]) as [r d']. cbn [fst snd] in *. destruct r; split; auto.
    - (* check_out *)
      unfold sql_check_out, spec_check_out. cbn [abs sp_recs sp_visits]. rewrite Hall, find_map.
      rewrite by_id_sorted by (apply asc_filter_map, Hq).
      change (fun x : qrow => checkout_match s lvl (r_f (plain (d_strings d) x)))
        with (fun q : qrow => checkout_match s lvl (q_f q)).
      rewrite find_filter_hd.
      destruct (filter (fun q => checkout_match s lvl (q_f q)) (d_queued d)) as [|q rest] eqn:Ef; cbn [option_map fst snd].
      + split; [|assumption]. unfold abs. now rewrite Hall.
      + assert (Hin : In q (d_queued d)).
        { assert (X : In q (filter (fun q => checkout_match s lvl (q_f q)) (d_queued d))) by (rewrite Ef; now left).
          apply filter_In in X. apply X. }
        split; [|apply Hupd].
        f_equal. unfold abs. rewrite (get_all_inv _ (Hupd _ _)). cbn [d_strings d_queued d_visits].
        rewrite (update_by_id_key _ _ q _ Hs Hq Hin). reflexivity.
    - (* check_in *)
      unfold sql_check_in. cbn [fst snd abs sp_recs sp_visits]. split; [|apply Hupd].
      f_equal. unfold abs. rewrite (get_all_inv _ (Hupd _ _)). cbn [d_strings d_queued d_visits].
      rewrite Hall. now rewrite (update_where_key _ _ u _ Hs Hq).
    - (* update_one *)
      unfold sql_update_one. cbn [fst snd abs sp_recs sp_visits]. split; [|apply Hupd].
      f_equal. unfold abs. rewrite (get_all_inv _ (Hupd _ _)). cbn [d_strings d_queued d_visits].
      rewrite Hall. now rewrite (update_where_key _ _ u _ Hs Hq).
    - (* release *)
      unfold sql_release. cbn [fst snd abs sp_recs sp_visits]. split; [|apply Hupd].
      f_equal. unfold abs. rewrite (get_all_inv _ (Hupd _ _)). cbn [d_strings d_queued d_visits].
      rewrite Hall. now rewrite release_map.
    - (* remove_many *)
      unfold sql_remove_many. cbn [fst snd abs sp_recs sp_visits].
      destruct (remove_many_map (d_strings d) us (d_queued d) Hs Hq) as [E Hok].
      assert (Hi : inv (mkDb (d_strings d)
                 (fold_left (fun qs u => filter (fun q => negb (us_is (string_id (d_strings d) u) q)) qs) us (d_queued d))
                 (d_visits d))).
      { unfold inv. cbn [d_strings d_queued d_visits]. auto. }
      split; [|exact Hi]. f_equal. unfold abs. rewrite (get_all_inv _ Hi). cbn [d_strings d_queued d_visits].
      now rewrite Hall, E.
    - (* remove_one *)
      unfold sql_remove_many. cbn [fst snd abs sp_recs sp_visits fold_left].
      assert (Hi : inv (mkDb (d_strings d)
                 (filter (fun q => negb (us_is (string_id (d_strings d) u) q)) (d_queued d)) (d_visits d))).
      { unfold inv. cbn [d_strings d_queued d_visits].
        split; [exact Hs|]. split; [exact Hne|]. split; [apply qok_filter; exact Hq|exact Hv]. }
      split; [|exact Hi]. f_equal. unfold abs. rewrite (get_all_inv _ Hi). cbn [d_strings d_queued d_visits].
      now rewrite Hall, (remove_one_map _ _ u Hs Hq).
    - (* count *)
      cbn [fst snd abs sp_recs]. split; [|assumption]. now rewrite Hall, map_length.
    - (* get_one *)
      cbn [fst snd]. split; [|assumption]. now rewrite (get_one_refines d u Hinv).
    - (* contains *)
      cbn [fst snd]. split; [|assumption]. rewrite (get_one_refines d u Hinv).
      unfold spec_get_one, has_key. rewrite existsb_find. now destruct (find _ (sp_recs (abs d))).
    - (* get_all *)
      cbn [fst snd]. now split.
    - (* add_visits *)
      cbn [fst snd abs sp_recs sp_visits]. destruct (visits_refines vs (d_visits d) Hv) as [E ND].
      split.
      + f_equal. unfold abs, sql_get_all. cbn [d_strings d_queued d_visits]. now rewrite E.
      + unfold inv. cbn [d_strings d_queued d_visits]. auto.
    - (* get_revisit_id *)
      cbn [fst snd]. split; [|assumption]. unfold sql_get_revisit_id, spec_get_revisit_id. cbn [abs sp_visits].
      now rewrite (revisit_refines _ u dg Hv).
    - (* reopen *)
      cbn [fst snd]. now split.
  Qed.
End Refinement2.
