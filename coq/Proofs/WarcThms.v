(* C05 / C07, part 6: the statements about a whole recorder lifetime, assembled
   from Proofs/WarcLife.v (files, slices, lines, warcinfo), Proofs/WarcSess.v
   (well-formed records, payload offset) and Proofs/WarcParse.v (strict reader). *)
From Coq Require Import List NArith Bool Lia Arith ZifyBool ZifyNat ZifyN.
From Wpull Require Import Lib.Decimal Lib.FsModel Lib.ListX Model.Warc
  Proofs.WarcParse Proofs.WarcSteps Proofs.WarcInv Proofs.WarcLife Proofs.WarcSess.
Import ListNotations.
Open Scope N_scope.
Open Scope bool_scope.

Section Thms.
  Variable fuel : nat.
  Variable O : oracles.
  Variable C : cfg.
  Variable s0 : fs.
  Variable ops : list op.
  Variable logblock : bytes.
  Variable st : state.
  Hypothesis LIFE : lifetime fuel O C s0 ops logblock = Some st.

  Let FIN : Final O C s0 st := lifetime_final fuel O C s0 ops logblock st LIFE.

  (* what a file held before this recorder touched it, as far as it was kept *)
  Definition kept (f : name) : bytes := if trunc_in f (st_trace st) then [] else content s0 f.

  Lemma writes_to_incl f : incl (writes_to f (st_trace st)) (evs st).
  Proof. unfold writes_to, evs. apply incl_filter. Qed.

  (* ---- C05: lengths and digests ---- *)
  Theorem lengths_digests :
    Forall (fun e => write_local O C (efields e) (w_block (e_rec e)) (e_ghost e)) (evs st).
  Proof.
    destruct FIN as ([_ H2 _ _ _ _ _] & _ & _). eapply Forall_impl; [|exact H2]. intros e H. apply H.
  Qed.

  (* ---- C05: every archive file is the kept content followed by one encoded record per write ---- *)
  Theorem files_are_record_sequences :
    forall f, f <> cdx_name C ->
      content (st_fs st) f
      = kept f ++ concat (map (fun e => encode O C (e_idx e) (serialize (e_rec e))) (writes_to f (st_trace st)))
      /\ (c_appending C = true -> kept f = content s0 f).
  Proof.
    destruct FIN as ([H1 H2 _ _ _ _ H7] & _ & _). intros f Hf. split.
    - rewrite (H1 f Hf). unfold kept. f_equal. f_equal. apply map_ext_in.
      intros e I1. apply writes_to_incl in I1. rewrite Forall_forall in H2. apply (H2 e I1).
    - intros A. unfold kept. rewrite (H7 A f). reflexivity.
  Qed.

  (* ---- C05: every record names a warcinfo record of the same file ---- *)
  Theorem points_at_warcinfo :
    Forall (fun e => exists e0 id, In e0 (evs st) /\ e_file e0 = e_file e
                                   /\ fget n_type (efields e0) = Some t_warcinfo
                                   /\ fget n_id (efields e0) = Some id
                                   /\ fget n_info (efields e) = Some id) (evs st).
  Proof.
    destruct FIN as ([_ H2 _ _ _ H6 _] & _ & _). rewrite Forall_forall in *.
    intros e I1. destruct (H6 e I1) as (e0 & I0 & F0 & T0 & E0).
    destruct (H2 e I1) as (_ & _ & _ & _ & NN & _).
    destruct (fget n_info (efields e)) as [id|] eqn:E; [|contradiction].
    exists e0, id. repeat split; assumption.
  Qed.

  (* ---- C07: the byte range recorded for a write is exactly that record ---- *)
  Theorem slice_is_record :
    Forall (fun e => slice (content (st_fs st) (e_file e)) (e_off e) (e_len e)
                     = encode O C (e_idx e) (serialize (e_rec e))) (evs st).
  Proof.
    destruct FIN as ([_ H2 H3 _ _ _ _] & _ & _). rewrite Forall_forall in *.
    intros e I1. destruct (H3 e I1) as (Sl & _). rewrite Sl. apply (H2 e I1).
  Qed.

  (* ---- C07: one CDX line per response record, in order; the CDX file is those lines ---- *)
  Theorem one_line_per_response :
    st_lines st = flat_map (ev_lines O C) (evs st)
    /\ (c_cdx C = true ->
        content (st_fs st) (cdx_name C) = cdx_base C s0 ++ concat (map render_line (st_lines st))).
  Proof. destruct FIN as ([_ _ _ H4 _ _ _] & _ & HX). split; [exact H4|exact HX]. Qed.

  Theorem line_addresses_its_record :
    forall l, In l (st_lines st) ->
      exists e, In e (evs st)
        /\ is_cdx_record (efields e) = true
        /\ l = make_line O (efields e) (w_block (e_rec e)) (e_len e) (e_off e) (e_base e)
        /\ slice (content (st_fs st) (c_dir C ++ x_file l)) (x_off l) (x_size l)
           = encode O C (e_idx e) (serialize (e_rec e)).
  Proof.
    intros l Hl. destruct one_line_per_response as (E & _). rewrite E in Hl.
    apply in_flat_map in Hl. destruct Hl as (e & I1 & Hl). unfold ev_lines in Hl.
    destruct (c_cdx C && is_cdx_record (efields e)) eqn:G; [|destruct Hl].
    destruct Hl as [Hl|[]]. exists e. split; [exact I1|].
    apply andb_true_iff in G. split; [apply G|]. split; [symmetry; exact Hl|].
    pose proof slice_is_record as S. rewrite Forall_forall in S. specialize (S e I1).
    destruct FIN as ([_ H2 _ _ _ _ _] & _ & _). rewrite Forall_forall in H2.
    destruct (H2 e I1) as (_ & _ & _ & Fn & _).
    subst l. unfold make_line. destruct (o_sniff O (w_block (e_rec e))) as [mime status].
    cbn [x_file x_off x_size]. rewrite <- Fn. exact S.
  Qed.

  (* ---- what needs clean inputs ---- *)
  Hypothesis CO : clean_oracles O.
  Hypothesis CLEAN : Forall op_clean ops.

  Let SS : S2 st := lifetime_S2 fuel O C CO s0 ops logblock st CLEAN LIFE.

  Theorem records_well_formed : Forall (fun e => wf_rec (e_rec e)) (evs st).
  Proof.
    destruct SS as (_ & _ & D). pose proof lengths_digests as L.
    rewrite Forall_forall in *. intros e I1.
    destruct (D e I1) as (((Q1 & Q2) & (T1 & T2 & T3)) & _). destruct (L e I1) as (CL & _).
    unfold efields in *. repeat split; try assumption.
    apply count_name_one; [exact Q2|]. unfold has_field. rewrite CL. reflexivity.
  Qed.

  Theorem payload_after_header :
    Forall (fun e => forall head off, e_ghost e = GResponse head off ->
              exists body, w_block (e_rec e) = head ++ body
                /\ (head <> [] -> c_digests C = true ->
                    fget n_pdig (efields e) = Some (v_sha1 ++ o_H O body))) (evs st).
  Proof.
    destruct SS as (_ & _ & D). pose proof lengths_digests as L.
    rewrite Forall_forall in *. intros e I1 head off G.
    destruct (D e I1) as (_ & GO). destruct (L e I1) as (_ & _ & PD). rewrite G in GO, PD.
    destruct GO as ((body & E) & Hoff). exists body. split; [exact E|].
    intros NE Dg. rewrite (PD Dg), (Hoff NE), E, blen_to_nat, skipn_app_exact. reflexivity.
  Qed.

  Theorem revisit_block :
    Forall (fun e => forall head off orig, e_ghost e = GRevisit head off orig ->
              fget n_type (efields e) = Some t_revisit
              /\ exists body, orig = head ++ body
                /\ (head <> [] ->
                    w_block (e_rec e) = head
                    /\ fget n_clen (efields e) = Some (dec (blen head))
                    /\ (c_digests C = true ->
                        fget n_bdig (efields e) = Some (v_sha1 ++ o_H O head)
                        /\ fget n_pdig (efields e) = Some (v_sha1 ++ o_H O body)))) (evs st).
  Proof.
    destruct SS as (_ & _ & D). pose proof lengths_digests as L.
    rewrite Forall_forall in *. intros e I1 head off orig G.
    destruct (D e I1) as (_ & GO). destruct (L e I1) as (CL & BD & PD). rewrite G in GO, PD.
    destruct GO as ((body & E) & Hoff). destruct PD as (Cut & Ty & PD).
    split; [exact Ty|]. exists body. split; [exact E|]. intros NE.
    assert (B : w_block (e_rec e) = head).
    { rewrite Cut, (Hoff NE), E. unfold blen. apply truncate_to_app. }
    split; [exact B|]. rewrite B in CL, BD. split; [exact CL|].
    intros Dg. split; [exact (BD Dg)|].
    rewrite (PD Dg), (Hoff NE), E, blen_to_nat, skipn_app_exact. reflexivity.
  Qed.

  (* ---- C05: the archive files parse back, strictly ---- *)
  Lemma wf_written f : Forall wf_rec (map e_rec (writes_to f (st_trace st))).
  Proof.
    pose proof records_well_formed as W. rewrite Forall_forall in *.
    intros r I1. apply in_map_iff in I1. destruct I1 as (e & <- & I1). apply W. exact (writes_to_incl f e I1).
  Qed.

  Theorem archive_valid :
    c_compress C = false ->
    forall f old, f <> cdx_name C -> Forall wf_rec old -> kept f = concat (map serialize old) ->
      strict_parse (content (st_fs st) f) = Some (old ++ map e_rec (writes_to f (st_trace st))).
  Proof.
    intros NC f old Hf Hold Hk.
    destruct (files_are_record_sequences f Hf) as (E & _). rewrite E, Hk.
    assert (M : map (fun e => encode O C (e_idx e) (serialize (e_rec e))) (writes_to f (st_trace st))
                = map serialize (map e_rec (writes_to f (st_trace st)))).
    { rewrite map_map. apply map_ext. intros e. unfold encode. rewrite NC. reflexivity. }
    rewrite M, <- concat_app, <- map_app. apply parse_back.
    apply Forall_app. split; [exact Hold|apply wf_written].
  Qed.

  Theorem one_member_per_record (gunz : bytes -> option (bytes * bytes)) :
    (forall k m rest, gunz (o_gz O k m ++ rest) = Some (m, rest)) ->
    (forall k m, o_gz O k m <> []) ->
    c_compress C = true ->
    forall f (old : list (nat * wrec)), f <> cdx_name C ->
      Forall (fun km => wf_rec (snd km)) old ->
      kept f = concat (map (fun km => o_gz O (fst km) (serialize (snd km))) old) ->
      strict_members_fuel gunz (length (content (st_fs st) f)) (content (st_fs st) f)
      = Some (map snd old ++ map e_rec (writes_to f (st_trace st))).
  Proof.
    intros G1 G2 YC f old Hf Hold Hk.
    destruct (files_are_record_sequences f Hf) as (E & _).
    set (ws := writes_to f (st_trace st)) in *.
    set (kms := old ++ map (fun e => (e_idx e, e_rec e)) ws).
    assert (EC : content (st_fs st) f = concat (map (fun km => o_gz O (fst km) (serialize (snd km))) kms)).
    { rewrite E, Hk. unfold kms. rewrite map_app, concat_app. f_equal. f_equal.
      rewrite map_map. apply map_ext. intros e. unfold encode. rewrite YC. reflexivity. }
    assert (EM : map snd kms = map snd old ++ map e_rec ws).
    { unfold kms. rewrite map_app, map_map. reflexivity. }
    rewrite <- EM. rewrite EC at 2.
    apply (strict_members_ser (o_gz O) gunz G1 G2).
    - unfold kms. apply Forall_app. split; [exact Hold|].
      pose proof (wf_written f) as W. fold ws in W. rewrite Forall_forall in *.
      intros km I1. apply in_map_iff in I1. destruct I1 as (e & <- & I1). cbn [snd].
      apply W. apply in_map. exact I1.
    - rewrite EC. clear - G2. induction kms as [|km r IH]; cbn [map concat length]; [lia|].
      rewrite app_length. pose proof (G2 (fst km) (serialize (snd km))) as NE.
      destruct (o_gz O (fst km) (serialize (snd km))); [contradiction|]. cbn [length]. lia.
  Qed.
End Thms.

(* C07: the fields of a CDX line, by construction of [make_line] *)
Lemma strip_pref_app (p s : bytes) : strip_pref p (p ++ s) = Some s.
Proof. induction p as [|x p IH]; cbn; [reflexivity|]. rewrite N.eqb_refl. exact IH. Qed.

Lemma line_fields O fs block size off fbase :
  let l := make_line O fs block size off fbase in
  x_url l = or_empty (fget n_uri fs)
  /\ x_id l = or_empty (fget n_id fs)
  /\ x_digest l = cdx_checksum fs
  /\ (forall d, fget n_pdig fs = Some (v_sha1 ++ d) -> x_digest l = d)
  /\ (fget n_pdig fs = None -> x_digest l = [45])
  /\ x_ts l = o_ts O (or_empty (fget n_date fs))
  /\ (x_mime l, x_status l) = o_sniff O block
  /\ x_size l = size /\ x_off l = off /\ x_file l = fbase.
Proof.
  unfold make_line. destruct (o_sniff O block) as [mime status].
  cbn [x_url x_id x_digest x_ts x_mime x_status x_size x_off x_file].
  repeat split.
  - intros d E. unfold cdx_checksum. rewrite E. cbn [or_empty]. rewrite strip_pref_app. reflexivity.
  - intros E. unfold cdx_checksum. rewrite E. reflexivity.
Qed.
