(* C16 - library lemmas about Model/HttpReq.v:
   (A) string equality, (B) NameValueRecord lemmas, (C) the cookie glue,
   (D) character-level facts (decimal, base64, URL text), (E) the shape of the
   serialised bytes.  The session invariant and the induction over the hop list are
   in Proofs/HttpReqInv.v, the independent reader and the statements cited by
   Props/C16.v in Proofs/HttpReadProofs.v.
   (Round 1 left a [repeat apply Forall_app] on an iff here that never terminated;
   [to_bytes_shape] now applies [lt256_app] five times.) *)
From Coq Require Import List NArith Bool Lia Arith ZifyBool ZifyNat ZifyN.
From Wpull Require Import Lib.Hex Model.HttpReq Spec.HttpWire.
Import ListNotations.
Open Scope bool_scope.
Open Scope N_scope.

(* ------------------------------------------------------------------ *)
(* (A) string equality                                                  *)
(* ------------------------------------------------------------------ *)
Lemma str_eqb_eq (a b : str) : str_eqb a b = true <-> a = b.
Proof.
  unfold str_eqb. revert b; induction a as [|x a IH]; intros [|y b]; cbn; split; intros H;
    try reflexivity; try discriminate.
  - apply andb_true_iff in H. destruct H as [H1 H2]. apply N.eqb_eq in H1. apply IH in H2. now subst.
  - inversion H; subst. apply andb_true_iff. split; [apply N.eqb_refl | now apply IH].
Qed.

Lemma str_eqb_refl (a : str) : str_eqb a a = true.
Proof. now apply str_eqb_eq. Qed.

Lemma str_eqb_neq (a b : str) : a <> b -> str_eqb a b = false.
Proof. intros H. destruct (str_eqb a b) eqn:E; [apply str_eqb_eq in E; contradiction | reflexivity]. Qed.

Lemma str_eqb_false (a b : str) : str_eqb a b = false -> a <> b.
Proof. intros H E. subst. rewrite str_eqb_refl in H. discriminate. Qed.

Lemma str_eq_dec (a b : str) : {a = b} + {a <> b}.
Proof. destruct (str_eqb a b) eqn:E; [left; now apply str_eqb_eq | right; now apply str_eqb_false]. Qed.

(* ------------------------------------------------------------------ *)
(* (B) NameValueRecord                                                  *)
(* ------------------------------------------------------------------ *)
Notation wf := nvr_wf.

Lemma in_get_all (f : nvr) m w :
  In (m, w) (nv_get_all f) <-> exists vs, In (m, vs) f /\ In w vs.
Proof.
  unfold nv_get_all. rewrite in_flat_map. split.
  - intros [[k vs] [Hin Hm]]. cbn in Hm. apply in_map_iff in Hm. destruct Hm as [v [E Hv]].
    inversion E; subst. now exists vs.
  - intros [vs [Hin Hw]]. exists (m, vs). split; [assumption|]. cbn. apply in_map_iff. now exists w.
Qed.

Lemma find_in (f : nvr) n vs : nv_find n f = Some vs -> In (n, vs) f.
Proof.
  induction f as [|[m ws] r IH]; cbn; [discriminate|].
  destruct (str_eqb m n) eqn:E.
  - intros H; inversion H; subst. apply str_eqb_eq in E. subst. now left.
  - intros H. right. now apply IH.
Qed.

Lemma find_none_not_in (f : nvr) n : nv_find n f = None -> forall vs, ~ In (n, vs) f.
Proof.
  induction f as [|[m ws] r IH]; cbn; intros H vs; [tauto|].
  destruct (str_eqb m n) eqn:E; [discriminate|].
  intros [H1|H1]; [inversion H1; subst; rewrite str_eqb_refl in E; discriminate | now apply (IH H vs)].
Qed.

Lemma wf_in_find (f : nvr) n vs : wf f -> In (n, vs) f -> nv_find n f = Some vs.
Proof.
  unfold wf. induction f as [|[m ws] r IH]; cbn; intros Hwf Hin; [tauto|].
  inversion Hwf as [|? ? Hnotin Hwf']; subst.
  destruct Hin as [H|H].
  - inversion H; subst. now rewrite str_eqb_refl.
  - destruct (str_eqb m n) eqn:E.
    + apply str_eqb_eq in E. subst. exfalso. apply Hnotin. apply in_map_iff. now exists (n, vs).
    + now apply IH.
Qed.

Lemma get_list_in (f : nvr) n v : In v (nv_get_list n f) -> In (n, v) (nv_get_all f).
Proof.
  unfold nv_get_list. destruct (nv_find n f) as [vs|] eqn:E; [|intros []].
  intros H. apply in_get_all. exists vs. split; [now apply find_in | assumption].
Qed.

Lemma wf_in_get_list (f : nvr) n v : wf f -> In (n, v) (nv_get_all f) -> In v (nv_get_list n f).
Proof.
  intros Hwf H. apply in_get_all in H. destruct H as [vs [H1 H2]].
  unfold nv_get_list. now rewrite (wf_in_find f n vs Hwf H1).
Qed.

(* keys after set/add *)
Lemma keys_set n v f :
  map fst (nv_set n v f) = if existsb (fun m => str_eqb m n) (map fst f) then map fst f else map fst f ++ [n].
Proof.
  induction f as [|[m ws] r IH]; cbn; [reflexivity|].
  destruct (str_eqb m n) eqn:E; cbn; [reflexivity|]. rewrite IH.
  destruct (existsb (fun m0 => str_eqb m0 n) (map fst r)); reflexivity.
Qed.

Lemma keys_add n v f :
  map fst (nv_add n v f) = if existsb (fun m => str_eqb m n) (map fst f) then map fst f else map fst f ++ [n].
Proof.
  induction f as [|[m ws] r IH]; cbn; [reflexivity|].
  destruct (str_eqb m n) eqn:E; cbn; [reflexivity|]. rewrite IH.
  destruct (existsb (fun m0 => str_eqb m0 n) (map fst r)); reflexivity.
Qed.

Lemma NoDup_snoc (l : list str) (n : str) :
  NoDup l -> existsb (fun m => str_eqb m n) l = false -> NoDup (l ++ [n]).
Proof.
  induction l as [|x l IH]; cbn; intros Hnd He.
  - constructor; [intros []|constructor].
  - apply orb_false_iff in He. destruct He as [He1 He2]. inversion Hnd as [|? ? Hx Hl]; subst.
    constructor.
    + intros Hin. apply in_app_or in Hin. destruct Hin as [Hin|[Hin|[]]]; [contradiction|].
      subst. rewrite str_eqb_refl in He1. discriminate.
    + now apply IH.
Qed.

Lemma wf_set n v f : wf f -> wf (nv_set n v f).
Proof.
  unfold wf. intros H. rewrite keys_set.
  destruct (existsb (fun m => str_eqb m n) (map fst f)) eqn:E; [assumption | now apply NoDup_snoc].
Qed.

Lemma wf_add n v f : wf f -> wf (nv_add n v f).
Proof.
  unfold wf. intros H. rewrite keys_add.
  destruct (existsb (fun m => str_eqb m n) (map fst f)) eqn:E; [assumption | now apply NoDup_snoc].
Qed.

Lemma wf_del n f : wf f -> wf (nv_del n f).
Proof.
  unfold wf, nv_del. induction f as [|[m ws] r IH]; cbn; intros H; [constructor|].
  inversion H as [|? ? Hm Hr]; subst.
  destruct (str_eqb m n); cbn; [now apply IH|].
  constructor; [|now apply IH].
  intros Hin. apply Hm. apply in_map_iff in Hin. destruct Hin as [[k vs] [E Hin]]. cbn in E. subst.
  apply filter_In in Hin. destruct Hin as [Hin _]. apply in_map_iff. now exists (m, vs).
Qed.

Lemma wf_pop n f : wf f -> wf (nv_pop n f).
Proof. unfold nv_pop. intros H. destruct (nv_contains n f); [now apply wf_del | assumption]. Qed.

Lemma wf_nil : wf [].
Proof. constructor. Qed.

Lemma wf_fold_add (l : list (str * str)) (g : nvr) :
  wf g -> wf (fold_left (fun g p => nv_add (fst p) (snd p) g) l g).
Proof. revert g; induction l as [|p l IH]; intros g H; cbn; [assumption | apply IH; now apply wf_add]. Qed.

Lemma wf_fold_add_name n (l : list str) (g : nvr) :
  wf g -> wf (fold_left (fun g v => nv_add n v g) l g).
Proof. revert g; induction l as [|p l IH]; intros g H; cbn; [assumption | apply IH; now apply wf_add]. Qed.

(* membership after the operations *)
Lemma in_get_all_set n v f m w :
  In (m, w) (nv_get_all (nv_set n v f)) -> (m = n /\ w = v) \/ In (m, w) (nv_get_all f).
Proof.
  induction f as [|[k ws] r IH]; cbn.
  - intros [H|[]]. inversion H; subst. now left.
  - destruct (str_eqb k n) eqn:E; cbn; intros H.
    + apply str_eqb_eq in E. subst. destruct H as [H|H].
      * inversion H; subst. now left.
      * right. apply in_or_app. now right.
    + apply in_app_or in H. destruct H as [H|H].
      * right. apply in_or_app. now left.
      * destruct (IH H) as [H'|H']; [now left | right; apply in_or_app; now right].
Qed.

Lemma in_get_all_add n v f m w :
  In (m, w) (nv_get_all (nv_add n v f)) -> (m = n /\ w = v) \/ In (m, w) (nv_get_all f).
Proof.
  induction f as [|[k ws] r IH]; cbn.
  - intros [H|[]]. inversion H; subst. now left.
  - destruct (str_eqb k n) eqn:E; cbn; intros H.
    + apply str_eqb_eq in E. subst. apply in_app_or in H. destruct H as [H|H].
      * rewrite map_app in H. apply in_app_or in H. destruct H as [H|H].
        -- right. apply in_or_app. now left.
        -- cbn in H. destruct H as [H|[]]. inversion H; subst. now left.
      * right. apply in_or_app. now right.
    + apply in_app_or in H. destruct H as [H|H].
      * right. apply in_or_app. now left.
      * destruct (IH H) as [H'|H']; [now left | right; apply in_or_app; now right].
Qed.

Lemma in_get_all_del n f m w :
  In (m, w) (nv_get_all (nv_del n f)) -> m <> n /\ In (m, w) (nv_get_all f).
Proof.
  intros H. apply in_get_all in H. destruct H as [vs [H1 H2]].
  unfold nv_del in H1. apply filter_In in H1. destruct H1 as [H1 Hne]. cbn in Hne.
  apply negb_true_iff in Hne. split; [now apply str_eqb_false|].
  apply in_get_all. now exists vs.
Qed.

Lemma contains_false_no_pair n f : wf f -> nv_contains n f = false -> forall w, ~ In (n, w) (nv_get_all f).
Proof.
  intros Hwf Hc w Hin. apply (wf_in_get_list f n w Hwf) in Hin.
  unfold nv_contains, nv_get, nv_get_list in *.
  destruct (nv_find n f) as [[|v vs]|]; try discriminate; destruct Hin.
Qed.

Lemma in_get_all_pop n f m w :
  wf f -> In (m, w) (nv_get_all (nv_pop n f)) -> m <> n /\ In (m, w) (nv_get_all f).
Proof.
  intros Hwf. unfold nv_pop. destruct (nv_contains n f) eqn:E.
  - apply in_get_all_del.
  - intros H. split; [|assumption]. intros ->. now apply (contains_false_no_pair n f Hwf E w).
Qed.

Lemma in_fold_add (l : list (str * str)) (g : nvr) m w :
  In (m, w) (nv_get_all (fold_left (fun g p => nv_add (fst p) (snd p) g) l g)) ->
  In (m, w) l \/ In (m, w) (nv_get_all g).
Proof.
  revert g; induction l as [|[k v] l IH]; intros g; cbn; [now right|].
  intros H. apply IH in H. destruct H as [H|H]; [left; now right|].
  apply in_get_all_add in H. destruct H as [[-> ->]|H]; [left; now left | now right].
Qed.

Lemma in_fold_add_name n (l : list str) (g : nvr) m w :
  In (m, w) (nv_get_all (fold_left (fun g v => nv_add n v g) l g)) ->
  (m = n /\ In w l) \/ In (m, w) (nv_get_all g).
Proof.
  revert g; induction l as [|v l IH]; intros g; cbn; [now right|].
  intros H. apply IH in H. destruct H as [[-> H]|H]; [left; split; [reflexivity | now right]|].
  apply in_get_all_add in H. destruct H as [[-> ->]|H]; [left; split; [reflexivity | now left] | now right].
Qed.

(* the value list of one name *)
Lemma find_set n v f k :
  nv_find k (nv_set n v f) = if str_eqb n k then Some [v] else nv_find k f.
Proof.
  induction f as [|[m ws] r IH]; cbn.
  - destruct (str_eqb n k); reflexivity.
  - destruct (str_eqb m n) eqn:E; cbn.
    + apply str_eqb_eq in E. subst. destruct (str_eqb n k); reflexivity.
    + destruct (str_eqb m k) eqn:E2.
      * destruct (str_eqb n k) eqn:E3; [|reflexivity].
        apply str_eqb_eq in E2. apply str_eqb_eq in E3. subst. rewrite str_eqb_refl in E. discriminate.
      * apply IH.
Qed.

Lemma get_list_set n v f k :
  nv_get_list k (nv_set n v f) = if str_eqb n k then [v] else nv_get_list k f.
Proof. unfold nv_get_list. rewrite find_set. destruct (str_eqb n k); reflexivity. Qed.

Lemma get_list_add n v f k :
  nv_get_list k (nv_add n v f) = if str_eqb n k then nv_get_list k f ++ [v] else nv_get_list k f.
Proof.
  unfold nv_get_list. induction f as [|[m ws] r IH]; cbn.
  - destruct (str_eqb n k); reflexivity.
  - destruct (str_eqb m n) eqn:E; cbn.
    + apply str_eqb_eq in E. subst. destruct (str_eqb n k); reflexivity.
    + destruct (str_eqb m k) eqn:E2.
      * destruct (str_eqb n k) eqn:E3; [|reflexivity].
        apply str_eqb_eq in E2. apply str_eqb_eq in E3. subst. rewrite str_eqb_refl in E. discriminate.
      * apply IH.
Qed.

Lemma get_list_del n f k :
  nv_get_list k (nv_del n f) = if str_eqb n k then [] else nv_get_list k f.
Proof.
  unfold nv_get_list, nv_del. induction f as [|[m ws] r IH]; cbn.
  - destruct (str_eqb n k); reflexivity.
  - destruct (str_eqb m n) eqn:E; cbn.
    + apply str_eqb_eq in E. subst. rewrite IH. destruct (str_eqb n k); reflexivity.
    + destruct (str_eqb m k) eqn:E2.
      * destruct (str_eqb n k) eqn:E3; [|reflexivity].
        apply str_eqb_eq in E2. apply str_eqb_eq in E3. subst. rewrite str_eqb_refl in E. discriminate.
      * apply IH.
Qed.

Lemma get_list_pop n f k :
  nv_get_list k (nv_pop n f) = if str_eqb n k then (if nv_contains n f then [] else nv_get_list k f) else nv_get_list k f.
Proof.
  unfold nv_pop. destruct (nv_contains n f); [apply get_list_del|].
  destruct (str_eqb n k); reflexivity.
Qed.

Lemma get_list_pop_same n f : nv_get_list n (nv_pop n f) = [].
Proof.
  rewrite get_list_pop, str_eqb_refl. destruct (nv_contains n f) eqn:E; [reflexivity|].
  unfold nv_contains, nv_get, nv_get_list in *. destruct (nv_find n f) as [[|v vs]|]; try reflexivity; discriminate.
Qed.

Lemma get_list_fold_add_name n (l : list str) g k :
  nv_get_list k (fold_left (fun g v => nv_add n v g) l g) =
  if str_eqb n k then nv_get_list k g ++ l else nv_get_list k g.
Proof.
  revert g; induction l as [|v l IH]; intros g; cbn.
  - destruct (str_eqb n k); [now rewrite app_nil_r | reflexivity].
  - rewrite IH, get_list_add. destruct (str_eqb n k); [now rewrite <- app_assoc | reflexivity].
Qed.

Lemma get_list_fold_add (l : list (str * str)) g k :
  nv_get_list k (fold_left (fun g p => nv_add (fst p) (snd p) g) l g) =
  nv_get_list k g ++ map snd (filter (fun p => str_eqb (fst p) k) l).
Proof.
  revert g; induction l as [|[n v] l IH]; intros g; cbn; [now rewrite app_nil_r|].
  rewrite IH, get_list_add. destruct (str_eqb n k); cbn; [now rewrite <- app_assoc | reflexivity].
Qed.

(* with unique keys, the pairs of one name are exactly its value list *)
Lemma get_all_cons m ws (r : nvr) :
  nv_get_all ((m, ws) :: r) = map (fun v => (m, v)) ws ++ nv_get_all r.
Proof. reflexivity. Qed.

Lemma filter_pairs_same (m : str) (ws : list str) :
  filter (fun p : str * str => str_eqb (fst p) m) (map (fun v => (m, v)) ws) = map (fun v => (m, v)) ws.
Proof. induction ws as [|w ws IH]; cbn; [reflexivity | rewrite str_eqb_refl; now rewrite IH]. Qed.

Lemma filter_pairs_other (m n : str) (ws : list str) :
  str_eqb m n = false ->
  filter (fun p : str * str => str_eqb (fst p) n) (map (fun v => (m, v)) ws) = [].
Proof. intros E. induction ws as [|w ws IH]; cbn; [reflexivity | now rewrite E]. Qed.

Lemma no_key_filter_nil (f : nvr) n :
  ~ In n (map fst f) -> filter (fun p => str_eqb (fst p) n) (nv_get_all f) = [].
Proof.
  induction f as [|[m ws] r IH]; intros H; [reflexivity|].
  rewrite get_all_cons, filter_app. cbn [map fst] in H.
  rewrite IH by (intros Hin; apply H; now right).
  rewrite filter_pairs_other; [reflexivity|]. apply str_eqb_neq. intros ->. apply H. now left.
Qed.

Lemma wf_filter_get_list (f : nvr) n :
  wf f -> map snd (filter (fun p => str_eqb (fst p) n) (nv_get_all f)) = nv_get_list n f.
Proof.
  unfold wf. induction f as [|[m ws] r IH]; intros H; [reflexivity|].
  cbn [map fst] in H. inversion H as [|? ? Hm Hr]; subst.
  rewrite get_all_cons, filter_app, map_app. unfold nv_get_list. cbn [nv_find].
  destruct (str_eqb m n) eqn:E.
  - apply str_eqb_eq in E. subst. rewrite (no_key_filter_nil r n Hm), filter_pairs_same. cbn. rewrite app_nil_r.
    rewrite map_map. cbn. apply map_id.
  - rewrite (filter_pairs_other m n ws E). cbn. apply (IH Hr).
Qed.

(* ------------------------------------------------------------------ *)
(* (C) the Python dict of urllib.request.Request and the cookie glue    *)
(* ------------------------------------------------------------------ *)
Lemma in_dict_set k v d m w : In (m, w) (dict_set k v d) -> (m = k /\ w = v) \/ In (m, w) d.
Proof.
  induction d as [|[k' v'] r IH]; cbn.
  - intros [H|[]]. inversion H; subst. now left.
  - destruct (str_eqb k' k) eqn:E; cbn; intros [H|H].
    + inversion H; subst. apply str_eqb_eq in E. subst. now left.
    + right. now right.
    + right. now left.
    + destruct (IH H) as [H'|H']; [now left | right; now right].
Qed.

Lemma in_fold_dict (l d : list (str * str)) m w :
  In (m, w) (fold_left (fun d p => dict_set (fst p) (snd p) d) l d) -> In (m, w) l \/ In (m, w) d.
Proof.
  revert d; induction l as [|[k v] l IH]; intros d; cbn; [now right|].
  intros H. apply IH in H. destruct H as [H|H]; [left; now right|].
  apply in_dict_set in H. destruct H as [[-> ->]|H]; [left; now left | now right].
Qed.

Lemma keys_dict_set k v d :
  map fst (dict_set k v d) = if dict_has k d then map fst d else map fst d ++ [k].
Proof.
  unfold dict_has. induction d as [|[k' v'] r IH]; cbn; [reflexivity|].
  destruct (str_eqb k' k) eqn:E; cbn; [reflexivity|]. rewrite IH.
  destruct (existsb (fun p => str_eqb (fst p) k) r); reflexivity.
Qed.

Lemma dict_has_keys k d : dict_has k d = existsb (fun m => str_eqb m k) (map fst d).
Proof. unfold dict_has. induction d as [|[k' v'] r IH]; cbn; [reflexivity | now rewrite IH]. Qed.

Lemma nodup_dict_set k v d : NoDup (map fst d) -> NoDup (map fst (dict_set k v d)).
Proof.
  intros H. rewrite keys_dict_set. destruct (dict_has k d) eqn:E; [assumption|].
  apply NoDup_snoc; [assumption | now rewrite <- dict_has_keys].
Qed.

Lemma nodup_fold_dict (l d : list (str * str)) :
  NoDup (map fst d) -> NoDup (map fst (fold_left (fun d p => dict_set (fst p) (snd p) d) l d)).
Proof. revert d; induction l as [|p l IH]; intros d H; cbn; [assumption | apply IH; now apply nodup_dict_set]. Qed.

Lemma nodup_keys_filter_le1 (l : list (str * str)) k :
  NoDup (map fst l) -> (length (filter (fun p => str_eqb (fst p) k) l) <= 1)%nat.
Proof.
  induction l as [|[m w] l IH]; cbn; intros H; [lia|].
  inversion H as [|? ? Hm Hl]; subst. destruct (str_eqb m k) eqn:E; cbn; [|now apply IH].
  apply str_eqb_eq in E. subst.
  replace (filter (fun p => str_eqb (fst p) k) l) with (@nil (str * str)); [cbn; lia|].
  symmetry. clear -Hm. induction l as [|[m w] l IH]; cbn; [reflexivity|].
  cbn in Hm. destruct (str_eqb m k) eqn:E; [apply str_eqb_eq in E; subst; tauto | apply IH; tauto].
Qed.

Definition glue_headers (ans : option str) (f : nvr) : list (str * str) :=
  let hdrs := fold_left (fun d p => dict_set (fst p) (snd p) d) (nv_get_all f) [] in
  (match ans with
   | Some v => if dict_has s_Cookie hdrs then [] else [(s_Cookie, v)]
   | None => []
   end) ++ hdrs.

Lemma cookie_glue_unfold ans f :
  cookie_glue ans f = fold_left (fun g p => nv_add (fst p) (snd p) g) (glue_headers ans f) [].
Proof. reflexivity. Qed.

Lemma glue_headers_nodup ans f : NoDup (map fst (glue_headers ans f)).
Proof.
  unfold glue_headers.
  set (hdrs := fold_left (fun d p => dict_set (fst p) (snd p) d) (nv_get_all f) []).
  assert (Hh : NoDup (map fst hdrs)) by (apply nodup_fold_dict; constructor).
  destruct ans as [v|]; [|exact Hh].
  destruct (dict_has s_Cookie hdrs) eqn:E; [exact Hh|].
  cbn. constructor; [|exact Hh].
  intros Hin. rewrite dict_has_keys in E.
  assert (existsb (fun m => str_eqb m s_Cookie) (map fst hdrs) = true); [|congruence].
  apply existsb_exists. exists s_Cookie. split; [assumption | apply str_eqb_refl].
Qed.

Lemma in_glue_headers ans f m w :
  In (m, w) (glue_headers ans f) -> In (m, w) (nv_get_all f) \/ (m = s_Cookie /\ ans = Some w).
Proof.
  unfold glue_headers. intros H. apply in_app_or in H. destruct H as [H|H].
  - destruct ans as [v|]; [|destruct H].
    destruct (dict_has s_Cookie _); [destruct H|]. destruct H as [H|[]]. inversion H; subst. now right.
  - apply in_fold_dict in H. destruct H as [H|[]]. now left.
Qed.

Lemma wf_glue ans f : wf (cookie_glue ans f).
Proof. rewrite cookie_glue_unfold. apply wf_fold_add, wf_nil. Qed.

Lemma in_glue ans f m w :
  In (m, w) (nv_get_all (cookie_glue ans f)) -> In (m, w) (nv_get_all f) \/ (m = s_Cookie /\ ans = Some w).
Proof.
  rewrite cookie_glue_unfold. intros H. apply in_fold_add in H. destruct H as [H|[]].
  now apply in_glue_headers.
Qed.

(* after the glue every name has at most one value *)
Lemma glue_single ans f k : (length (nv_get_list k (cookie_glue ans f)) <= 1)%nat.
Proof.
  rewrite cookie_glue_unfold, get_list_fold_add. cbn. rewrite map_length.
  apply nodup_keys_filter_le1, glue_headers_nodup.
Qed.

(* ------------------------------------------------------------------ *)
(* (D) character-level facts                                            *)
(* ------------------------------------------------------------------ *)
Lemma clean_app a b : clean a -> clean b -> clean (a ++ b).
Proof. unfold clean. intros; apply Forall_app; now split. Qed.

Lemma clean_nil : clean [].
Proof. constructor. Qed.

Lemma no_crlf_app a b : no_crlf a -> no_crlf b -> no_crlf (a ++ b).
Proof. unfold no_crlf. intros; apply Forall_app; now split. Qed.

Lemma clean_no_crlf s : clean s -> no_crlf s.
Proof. unfold clean, no_crlf. apply Forall_impl. intros a H. lia. Qed.

(* boolean checkers for the constants *)
Definition clean_b (s : str) : bool := forallb (fun ch => (32 <? ch) && (ch <? 127)) s.
Lemma clean_b_ok s : clean_b s = true -> clean s.
Proof.
  unfold clean_b, clean. intros H. rewrite forallb_forall in H. apply Forall_forall. intros x Hx.
  specialize (H x Hx). lia.
Qed.
Definition no_crlf_b (s : str) : bool := forallb (fun ch => negb (ch =? 13) && negb (ch =? 10)) s.
Lemma no_crlf_b_ok s : no_crlf_b s = true -> no_crlf s.
Proof.
  unfold no_crlf_b, no_crlf. intros H. rewrite forallb_forall in H. apply Forall_forall. intros x Hx.
  specialize (H x Hx). lia.
Qed.

Lemma clean_dec_aux fuel n acc : clean acc -> clean (dec_aux fuel n acc).
Proof.
  revert n acc; induction fuel as [|f IH]; intros n acc H; cbn; [assumption|].
  assert (Hd : clean ((48 + n mod 10) :: acc)).
  { constructor; [|assumption]. assert (n mod 10 < 10) by (apply N.mod_lt; lia). lia. }
  destruct (n <? 10); [assumption | now apply IH].
Qed.

Lemma clean_dec n : clean (dec n).
Proof. unfold dec. apply clean_dec_aux, clean_nil. Qed.

Lemma b64char_clean i : 32 < b64char i /\ b64char i < 127.
Proof.
  unfold b64char.
  destruct (i <? 26) eqn:E1; [lia|]. destruct (i <? 52) eqn:E2; [lia|].
  destruct (i <? 62) eqn:E3; [lia|]. destruct (i =? 62); lia.
Qed.

Lemma b64char_clean' i : 32 < b64char i /\ b64char i < 256.
Proof. pose proof (b64char_clean i). lia. Qed.

Lemma clean_b64 : forall l, clean (b64 l).
Proof.
  fix IH 1. intros [|a [|b [|c r]]]; cbn [b64].
  - constructor.
  - repeat constructor; try apply b64char_clean'; lia.
  - repeat constructor; try apply b64char_clean'; lia.
  - constructor; [apply b64char_clean'|]. constructor; [apply b64char_clean'|].
    constructor; [apply b64char_clean'|]. constructor; [apply b64char_clean'|]. apply IH.
Qed.

Lemma basic_value_no_crlf user pass : no_crlf (basic_value user pass).
Proof.
  unfold basic_value. apply no_crlf_app; [apply no_crlf_b_ok; reflexivity|].
  apply clean_no_crlf, clean_b64.
Qed.

Lemma clean_bracketed u : clean (u_hostname u) -> clean (bracketed u).
Proof.
  intros H. unfold bracketed. destruct (u_ipv6 u); [|assumption].
  apply clean_app; [apply clean_b_ok; reflexivity|]. apply clean_app; [assumption | apply clean_b_ok; reflexivity].
Qed.

Lemma clean_hwp u : url_clean u -> clean (hostname_with_port u).
Proof.
  intros (Hs & Hh & Hp & Hq & Hu & Hw). unfold hostname_with_port.
  destruct (u_defport u =? 0); [apply clean_nil|].
  destruct (u_defport u =? u_port u); [now apply clean_bracketed|].
  apply clean_app; [now apply clean_bracketed|]. apply clean_app; [apply clean_b_ok; reflexivity | apply clean_dec].
Qed.

Lemma clean_url_of u : url_clean u -> clean (url_of u).
Proof.
  intros (Hs & Hh & Hp & Hq & Hu & Hw). unfold url_of.
  repeat apply clean_app; try assumption; try (apply clean_b_ok; reflexivity).
  - destruct (nonempty (u_user u)); [assumption | apply clean_nil].
  - destruct (nonempty (u_pass u)); [|apply clean_nil].
    apply clean_app; [apply clean_b_ok; reflexivity | assumption].
  - destruct (nonempty (u_user u) || nonempty (u_pass u)); [apply clean_b_ok; reflexivity | apply clean_nil].
  - now apply clean_bracketed.
  - destruct (u_defport u =? u_port u); [apply clean_nil|].
    apply clean_app; [apply clean_b_ok; reflexivity | apply clean_dec].
  - destruct (nonempty (u_query u)); [|apply clean_nil].
    apply clean_app; [apply clean_b_ok; reflexivity | assumption].
Qed.

Lemma clean_referrer_of p : url_clean p -> clean (referrer_of p).
Proof.
  intros Hc. pose proof (clean_hwp p Hc) as Hh. destruct Hc as (Hs & _ & Hp & Hq & _ & _).
  unfold referrer_of. repeat apply clean_app; try assumption; try (apply clean_b_ok; reflexivity).
  destruct (nonempty (u_query p)); [|apply clean_nil].
  apply clean_app; [apply clean_b_ok; reflexivity | assumption].
Qed.

Lemma clean_target full u : url_clean u -> clean (target_of full u).
Proof.
  intros Hc. unfold target_of. destruct full; [now apply clean_url_of|].
  destruct Hc as (_ & _ & Hp & Hq & _ & _).
  destruct (nonempty (u_query u)); [|assumption].
  apply clean_app; [assumption|]. apply clean_app; [apply clean_b_ok; reflexivity | assumption].
Qed.

(* ------------------------------------------------------------------ *)
(* (E) shape of the serialised bytes                                    *)
(* ------------------------------------------------------------------ *)
Lemma enc_strict_ok s : Forall (fun ch => ch < 256) s -> enc_strict s = Some s.
Proof.
  intros H. unfold enc_strict.
  replace (forallb (fun ch => ch <? 256) s) with true; [reflexivity|].
  symmetry. apply forallb_forall. intros x Hx. rewrite Forall_forall in H. specialize (H x Hx). lia.
Qed.

Lemma clean_lt256 s : clean s -> Forall (fun ch => ch < 256) s.
Proof. unfold clean. apply Forall_impl. intros a H. lia. Qed.

Lemma lt256_app (a b : str) :
  Forall (fun ch => ch < 256) a -> Forall (fun ch => ch < 256) b -> Forall (fun ch => ch < 256) (a ++ b).
Proof. intros; apply Forall_app; now split. Qed.

Lemma enc_replace_app a b : enc_replace (a ++ b) = enc_replace a ++ enc_replace b.
Proof. unfold enc_replace. apply map_app. Qed.

Lemma enc_replace_clean s : clean s -> enc_replace s = s.
Proof.
  unfold clean, enc_replace. induction 1 as [|x l Hx Hl IH]; cbn; [reflexivity|].
  rewrite IH. replace (x <? 256) with true by lia. reflexivity.
Qed.

Lemma enc_replace_no_crlf s : no_crlf s -> no_crlf (enc_replace s).
Proof.
  unfold no_crlf, enc_replace. induction 1 as [|x l Hx Hl IH]; cbn; constructor; [|assumption].
  destruct (x <? 256); lia.
Qed.

Lemma enc_replace_field_line p : enc_replace (field_line p) = wire_line p.
Proof.
  destruct p as [n v]. unfold field_line, wire_line. cbn [fst snd].
  destruct v as [|x v]; rewrite enc_replace_app; reflexivity.
Qed.

Lemma enc_replace_to_str (l : list (str * str)) :
  enc_replace (List.concat (map (fun p => field_line p ++ crlf) l))
  = List.concat (map (fun ln => ln ++ crlf) (map wire_line l)).
Proof.
  induction l as [|p l IH]; [reflexivity|].
  cbn [map List.concat]. rewrite !enc_replace_app, IH, enc_replace_field_line. reflexivity.
Qed.

Lemma wire_line_no_crlf p : no_crlf (fst p) -> no_crlf (snd p) -> no_crlf (wire_line p).
Proof.
  intros Hn Hv. unfold wire_line. apply no_crlf_app; [now apply enc_replace_no_crlf|].
  apply no_crlf_app; [apply no_crlf_b_ok; reflexivity|].
  destruct (snd p) as [|x v] eqn:E; [constructor|].
  apply (no_crlf_app [32]); [apply no_crlf_b_ok; reflexivity | now apply enc_replace_no_crlf].
Qed.

Lemma method_clean q : clean (method_of q).
Proof. unfold method_of. destruct (q_post q); apply clean_b_ok; reflexivity. Qed.

(* the bytes of a request whose URL is clean *)
Lemma to_bytes_shape full q :
  url_clean (q_url q) ->
  to_bytes full q =
  Some (method_of q ++ [32] ++ target_of full (q_url q) ++ [32] ++ s_version ++ crlf
        ++ List.concat (map (fun ln => ln ++ crlf) (map wire_line (nv_get_all (q_fields q)))) ++ crlf).
Proof.
  intros Hc. unfold to_bytes.
  rewrite enc_strict_ok.
  - unfold nv_to_str. rewrite enc_replace_to_str. unfold SP. now rewrite <- !app_assoc.
  - unfold SP.
    apply lt256_app; [apply clean_lt256, method_clean|].
    apply lt256_app; [repeat constructor; lia|].
    apply lt256_app; [apply clean_lt256, clean_target; assumption|].
    apply lt256_app; [repeat constructor; lia|].
    apply clean_lt256, clean_b_ok. reflexivity.
Qed.
