(* Crawl engine, part 7: kills and restarts (C03).  [reach] allows [LCrash] at any point
   between two transitions; the restart is [LRelease] then [LAddStarts]. *)
From Coq Require Import List NArith Bool Arith Lia.
From Wpull Require Import Model.Engine Model.EngineSim Proofs.EngineProofs Proofs.EngineRun Proofs.EngineFinal
  Proofs.EngineOnce Proofs.EngineTerm Proofs.EngineWitness.
Import ListNotations.
Open Scope N_scope.

Section Resume.
  Variable site : url -> page.
  Variable host : url -> N.
  Variable in_scope : list N -> bool -> url -> rinfo -> N -> bool.
  Variable maxredir : nat.
  Variable starts : list url.
  Variable conc : nat.
  Hypothesis scope_ext : forall sp sp', (forall h, In h sp <-> In h sp') ->
    forall b u i n, in_scope sp b u i n = in_scope sp' b u i n.

  Notation scope := (in_scope (sp0 host starts)).
  Notation plan := (Engine.plan site scope maxredir).
  Notation kids := (Engine.kids site scope maxredir).
  Notation step := (Engine.step site host in_scope maxredir starts conc).
  Notation steps := (Engine.steps site host in_scope maxredir starts conc).
  Notation reach := (Engine.reach site host in_scope maxredir starts conc).
  Notation reach_nc := (Engine.reach_nc site host in_scope maxredir starts conc).
  Notation quiescent := (Engine.quiescent site host in_scope maxredir starts conc).
  Notation Inv := (Inv site host in_scope maxredir starts).
  Notation no_fail := (no_fail site maxredir).

  Lemma steps_reach s s' : reach s -> steps s s' -> reach s'.
  Proof. intros R H. induction H as [|s s1 s2 H IH St]; [assumption|]. econstructor; [apply IH; assumption | exact St]. Qed.

  (* a row in a final state is never touched again, and no request is made for it again *)
  Lemma final_stable_step s s' r : Inv s -> step s s' -> In r (st_tbl s) -> is_final (r_status r) = true ->
    In r (st_tbl s') /\ forall e, In e (st_log s') -> fst (fst e) = r_url r -> In e (st_log s).
  Proof.
    intros I [l H] Hr F. pose proof (inv_nodup _ _ _ _ _ s I) as ND.
    destruct l; cbn [Engine.fire] in H.
    - destruct (st_mode s) eqn:M; try discriminate. destruct (pick (st_tbl s)) as [p|] eqn:P; [|discriminate].
      inversion H; subst s'; clear H. cbn. split; [|auto].
      apply pick_some in P. destruct P as [Hp Sp]. apply upd_other; [assumption|].
      intros E. assert (r = p) by (apply (nodup_url_eq (st_tbl s)); auto). subst p.
      destruct (r_status r); try discriminate; destruct Sp; discriminate.
    - destruct (st_mode s); try discriminate. destruct (n_started (st_items s) <? conc)%nat; [|discriminate].
      destruct (start_first (st_items s)); [|discriminate]. inversion H; subst s'; cbn. auto.
    - destruct (st_mode s) eqn:M; try discriminate.
      destruct (act_items n (st_items s)) as [[[it a] its]|] eqn:A; [|discriminate]. inversion H; subst s'; clear H.
      apply act_items_inv in A. destruct A as [l1 [l2 [more [E [Sf [T _]]]]]].
      assert (Hit : In it (st_items s)) by (rewrite E; apply in_or_app; right; now left).
      destruct (inv_items _ _ _ _ _ s I it Hit) as [[r0 [H0 [Ei [Es Et]]]] _].
      assert (U0 : r_url r0 = ri_url (it_info it)) by (unfold r_url; now rewrite Ei).
      assert (Ne : r_url r <> ri_url (it_info it)).
      { intros C. assert (r = r0) by (apply (nodup_url_eq (st_tbl s)); auto; congruence). subst r0.
        rewrite Es in F. discriminate. }
      cbn. split.
      + destruct a; cbn; try assumption; try (now apply upd_other). now apply add_many_keeps.
      + intros e He Eu. destruct a; cbn in He; try assumption. destruct He as [<-|He]; [|assumption].
        cbn in Eu. congruence.
    - inversion H; subst s'; cbn. auto.
    - destruct (st_mode s); try discriminate. inversion H; subst s'; cbn. split; [|auto].
      apply In_release. exists r. split; [assumption|]. destruct (r_status r); try discriminate; reflexivity.
    - destruct (st_mode s); try discriminate. inversion H; subst s'; cbn. split; [|auto]. now apply add_many_keeps.
    - destruct (st_mode s); try discriminate. destruct ((0 <? n) && (st_batch s + n <=? length starts))%nat eqn:G; [|discriminate]. inversion H; subst s'; cbn. split; [|auto]. now apply add_many_keeps.
  Qed.

  Lemma done_not_refetched s s' r : reach s -> steps s s' -> In r (st_tbl s) -> is_final (r_status r) = true ->
    In r (st_tbl s') /\ forall e, In e (st_log s') -> fst (fst e) = r_url r -> In e (st_log s).
  Proof.
    intros R H Hr F. induction H as [|s s1 s2 H IH St]; [auto|].
    destruct (IH R Hr) as [Hr1 L1].
    assert (R1 : reach s1) by (now apply (steps_reach s)).
    pose proof (reach_Inv site host in_scope maxredir starts conc scope_ext s1 R1) as I1.
    destruct (final_stable_step s1 s2 r I1 St Hr1 F) as [Hr2 L2]. split; [assumption|].
    intros e He Eu. apply L1; [|assumption]. now apply L2.
  Qed.

  Lemma steps_urls_incl s s' : steps s s' -> forall u, In u (urls (st_tbl s)) -> In u (urls (st_tbl s')).
  Proof.
    intros H. induction H as [|s s1 s2 H IH St]; [auto|]. intros u Hu. specialize (IH u Hu).
    rewrite urls_infos in *. apply in_map_iff in IH. destruct IH as [i [<- Hi]]. apply in_map.
    now apply (step_infos_incl site host in_scope maxredir starts conc s1 s2 St).
  Qed.

  (* nothing discovered is lost: at EVERY point (between any two transitions, whatever kills happened
     before) a row that has been checked in has all the children its visit admitted in the table;
     rows are never removed; after the restart's release no row is in progress, and while running
     every in-progress row is owned by an in-flight item (so none can stay stuck) *)
  Lemma nothing_lost s : reach s ->
    (forall r, In r (st_tbl s) -> checked_in (r_status r) ->
       exists t, r_tries r = t + 1 /\ forall ci, In ci (kids (r_info r) t) -> In (ri_url ci) (urls (st_tbl s))) /\
    (forall s', steps s s' -> forall u, In u (urls (st_tbl s)) -> In u (urls (st_tbl s'))) /\
    (st_mode s = Starting -> forall r, In r (st_tbl s) -> r_status r <> InProgress) /\
    (st_mode s = Running -> forall r, In r (st_tbl s) -> r_status r = InProgress ->
       exists it, In it (st_items s) /\ it_info it = r_info r).
  Proof.
    intros R. pose proof (reach_Inv site host in_scope maxredir starts conc scope_ext s R) as I.
    split; [|split; [|split]].
    - intros r Hr C. destruct (inv_nothing_lost _ _ _ _ _ s I r Hr C) as [t [Et [Hk _]]]. eauto.
    - intros s' H. now apply steps_urls_incl.
    - apply (inv_starting _ _ _ _ _ s I).
    - apply (inv_owner _ _ _ _ _ s I).
  Qed.

  (* the restarted crawl terminates with everything done or skipped *)
  Lemma resume_terminates_final U Lmax :
    (forall u, In u starts -> In u U) ->
    (forall u code links l, site u = Doc code links -> In l links -> In (fst l) U) ->
    (forall u code links, site u = Doc code links -> (length links <= Lmax)%nat) ->
    (1 <= conc)%nat -> no_fail ->
    forall s s1, reach s -> Engine.fire site host in_scope maxredir starts conc LCrash s = Some s1 ->
    (forall n s2, nsteps_nc site host in_scope maxredir starts conc n s1 s2 -> (n <= mu maxredir starts U Lmax s1)%nat) /\
    (forall s2, steps s1 s2 -> quiescent s2 ->
       st_items s2 = [] /\ forall r, In r (st_tbl s2) -> is_final (r_status r) = true).
  Proof.
    intros HU HL HLen C1 NF s s1 R Hc.
    assert (R1 : reach s1) by (econstructor; [exact R | exists LCrash; exact Hc]).
    split.
    - intros n s2 H. pose proof (terminates site host in_scope maxredir starts conc scope_ext U HU HL Lmax HLen n s1 s2 NF R1 H). lia.
    - intros s2 H Q. assert (R2 : reach s2) by (now apply (steps_reach s1)).
      destruct (quiescent_final site host in_scope maxredir starts conc scope_ext s2 C1 NF R2 Q) as [_ [Its Fin]].
      split; [assumption|]. intros r Hr. now destruct (Fin r Hr).
  Qed.

  (* union of the runs = the uninterrupted crawl, as sets of requests, when admission is path-independent *)
  Lemma union_complete s1 s2 : (1 <= conc)%nat -> no_fail -> path_independent site host in_scope maxredir starts ->
    reach_nc s1 -> quiescent s1 -> reach s2 -> quiescent s2 ->
    forall e, In e (st_log s1) -> In e (st_log s2).
  Proof.
    intros C1 NF PI R1 Q1 R2 Q2 [[u q] ini] He.
    pose proof (reach_nc_reach site host in_scope maxredir starts conc s1 R1) as R1'.
    apply (quiescent_log site host in_scope maxredir starts conc scope_ext s2 C1 NF PI R2 Q2).
    now apply (quiescent_log site host in_scope maxredir starts conc scope_ext s1 C1 NF PI R1' Q1).
  Qed.

  Lemma no_extra s1 s2 : (1 <= conc)%nat -> no_fail -> path_independent site host in_scope maxredir starts ->
    reach_nc s1 -> quiescent s1 -> reach s2 -> quiescent s2 ->
    forall e, In e (st_log s2) -> In e (st_log s1).
  Proof.
    intros C1 NF PI R1 Q1 R2 Q2 [[u q] ini] He.
    pose proof (reach_nc_reach site host in_scope maxredir starts conc s1 R1) as R1'.
    apply (quiescent_log site host in_scope maxredir starts conc scope_ext s1 C1 NF PI R1' Q1).
    now apply (quiescent_log site host in_scope maxredir starts conc scope_ext s2 C1 NF PI R2 Q2).
  Qed.

  (* whatever the hostnames table held when the process was killed, the restarted process works
     with the span-hosts list of a fresh crawl of the same start URLs *)
  Lemma resume_same_span s : reach s -> st_mode s = Running -> forall h, In h (st_span s) <-> In h (sp0 host starts).
  Proof. intros R M. apply (ih_running _ _ s (reach_InvH site host in_scope maxredir starts conc s R) M). Qed.

  (* the input is committed in batches and the process may be killed between two of them: whenever the crawl
     proper is running, EVERY start URL has its row (level 0, its own root); and as long as no start-up ever
     completed, the table holds nothing but such rows *)
  Lemma starts_never_lost s : reach s ->
    (st_mode s = Running -> forall u, In u starts -> In (start_info u) (infos (st_tbl s))) /\
    (forall i, In i (infos (st_tbl s)) -> ri_level i = 0 -> i = start_info (ri_url i) /\ In (ri_url i) starts).
  Proof.
    intros R. pose proof (reach_InvH site host in_scope maxredir starts conc s R) as IH. split.
    - intros M. apply (ih_running _ _ s IH M).
    - apply (ih_lvl0 _ _ s IH).
  Qed.
End Resume.

(* ------------------------------------------------------------------ *)
(* witness (F29 across a kill): two workers, killed after 4 overtook 2; the restarted crawl never
   requests 6 although the uninterrupted one-worker crawl does *)
Definition w3_labels : list label :=
  [LRelease; LAddStarts; LCheckout; LStart; LAct 0; LAct 0; LAct 0; LAct 0;
   LCheckout; LCheckout; LStart; LStart; LAct 1; LAct 1; LAct 1; LAct 1;
   LCheckout; LStart; LAct 1; LAct 1; LAct 1; LAct 1;
   LCrash].
Definition w3_killed := run_labels w2_site w2_host w2_scope 20 [1] 2 w3_labels init.
Definition w3_rel := get (fire w2_site w2_host w2_scope 20 [1] 2 LRelease (get w3_killed)).
Definition w3_boot := get (fire w2_site w2_host w2_scope 20 [1] 2 LAddStarts w3_rel).
(* the same command again, one worker after the other *)
Definition w3_final := seq_run w2_site w2_host w2_scope 20 [1] 2 200 w3_boot.

Lemma steps_cons site host in_scope maxredir starts conc s s1 s' :
  step site host in_scope maxredir starts conc s s1 -> steps site host in_scope maxredir starts conc s1 s' ->
  steps site host in_scope maxredir starts conc s s'.
Proof.
  intros St H. induction H as [|a b c H IH St']; [econstructor; [constructor | exact St]|].
  econstructor; [exact (IH St) | exact St'].
Qed.

Lemma seq_run_steps site host in_scope maxredir starts conc fuel : forall s s',
  seq_run site host in_scope maxredir starts conc fuel s = Some s' -> steps site host in_scope maxredir starts conc s s'.
Proof.
  induction fuel as [|f IH]; intros s s' H; cbn [seq_run] in H; [discriminate|].
  assert (K : forall l, match fire site host in_scope maxredir starts conc l s with Some s1 => seq_run site host in_scope maxredir starts conc f s1 | None => Some s end = Some s' ->
              steps site host in_scope maxredir starts conc s s').
  { intros l Hl. destruct (fire site host in_scope maxredir starts conc l s) as [s1|] eqn:E; [|inversion Hl; subst; constructor].
    apply (steps_cons _ _ _ _ _ _ s s1 s'); [exists l; exact E | exact (IH s1 s' Hl)]. }
  destruct (st_items s) as [|it rest]; [exact (K LCheckout H)|].
  destruct (it_started it); [exact (K (LAct 0) H) | exact (K LStart H)].
Qed.

Lemma union_complete_refuted :
  exists site host in_scope maxredir starts conc s1 s2 e,
    (forall sp sp', (forall h, In h sp <-> In h sp') -> forall b u i n, in_scope sp b u i n = in_scope sp' b u i n) /\
    no_fail site maxredir /\ (1 <= conc)%nat /\
    reach_nc site host in_scope maxredir starts conc s1 /\ quiescent site host in_scope maxredir starts conc s1 /\
    reach site host in_scope maxredir starts conc s2 /\ quiescent site host in_scope maxredir starts conc s2 /\
    In e (st_log s1) /\ ~ In e (st_log s2).
Proof.
  exists w2_site, w2_host, w2_scope, 20%nat, [1], 2%nat, (get w2_seq), (get w3_final), (6, 6, true).
  split; [apply cscope_ext|]. split; [exact w2_no_fail|]. split; [lia|].
  split; [apply (run_on_reach_nc _ _ _ _ _ _ 200); vm_compute; reflexivity|].
  split; [apply quiescent_of_shape; vm_compute; reflexivity|].
  split.
  - (* the killed run, then the restart, as one execution *)
    assert (Rk : reach w2_site w2_host w2_scope 20 [1] 2 (get w3_killed)).
    { apply (run_labels_reach _ _ _ _ _ _ w3_labels init); [constructor | vm_compute; reflexivity]. }
    assert (E1 : fire w2_site w2_host w2_scope 20 [1] 2 LRelease (get w3_killed) = Some w3_rel) by (vm_compute; reflexivity).
    assert (E2 : fire w2_site w2_host w2_scope 20 [1] 2 LAddStarts w3_rel = Some w3_boot) by (vm_compute; reflexivity).
    assert (E3 : seq_run w2_site w2_host w2_scope 20 [1] 2 200 w3_boot = Some (get w3_final)) by (vm_compute; reflexivity).
    apply (steps_reach _ _ _ _ _ _ w3_boot); [|apply (seq_run_steps _ _ _ _ _ _ 200%nat); exact E3].
    econstructor; [econstructor; [exact Rk|exists LRelease; exact E1]|exists LAddStarts; exact E2].
  - split; [apply quiescent_of_shape; vm_compute; reflexivity|]. split.
    + assert (E : existsb (fun e => (fst (fst e) =? 6) && (snd (fst e) =? 6) && snd e) (st_log (get w2_seq)) = true) by (vm_compute; reflexivity).
      apply existsb_exists in E. destruct E as [[[a b] c] [He Hc]]. cbn in Hc.
      apply andb_prop in Hc. destruct Hc as [Hc Hd]. apply andb_prop in Hc. destruct Hc as [Ha Hb].
      apply N.eqb_eq in Ha, Hb. subst. exact He.
    + assert (E : forallb (fun e => negb (snd (fst e) =? 6)) (st_log (get w3_final)) = true) by (vm_compute; reflexivity).
      rewrite forallb_forall in E. intros C. specialize (E _ C). cbn in E. discriminate E.
Qed.

(* witness (batched start-up): three start URLs committed in batches of two and one; the process is killed after
   the first batch; the rerun commits both batches and then crawls *)
Definition w4_labels : list label :=
  [LRelease; LAddBatch 2; LCrash; LRelease; LAddBatch 2; LAddBatch 1; LAddStarts; LCheckout].
Definition w4_killed := run_labels w2_site w2_host w2_scope 20 [1; 5; 6] 1 (firstn 3 w4_labels) init.
Definition w4_run := run_labels w2_site w2_host w2_scope 20 [1; 5; 6] 1 w4_labels init.

Lemma c03_batches_nonvacuous :
  reach w2_site w2_host w2_scope 20 [1; 5; 6] 1 (get w4_killed) /\ reach w2_site w2_host w2_scope 20 [1; 5; 6] 1 (get w4_run) /\
  st_mode (get w4_killed) = Down /\ urls (st_tbl (get w4_killed)) = [1; 5] /\
  st_mode (get w4_run) = Running /\ urls (st_tbl (get w4_run)) = [1; 5; 6].
Proof.
  split; [apply (run_labels_reach _ _ _ _ _ _ (firstn 3 w4_labels) init); [constructor | vm_compute; reflexivity]|].
  split; [apply (run_labels_reach _ _ _ _ _ _ w4_labels init); [constructor | vm_compute; reflexivity]|].
  repeat split; vm_compute; reflexivity.
Qed.

Lemma c03_nonvacuous :
  reach w2_site w2_host w2_scope 20 [1] 2 (get w3_killed) /\ st_mode (get w3_killed) = Down /\
  map (fun r => (r_url r, r_status r)) (st_tbl (get w3_killed)) = [(1, Done); (2, InProgress); (3, Done); (4, Done); (5, Todo)] /\
  map (fun r => (r_url r, r_status r)) (st_tbl (get w3_final)) = [(1, Done); (2, Done); (3, Done); (4, Done); (5, Done)] /\
  length (st_log (get w3_killed)) = 3%nat /\ length (st_log (get w3_final)) = 5%nat.
Proof.
  split; [apply (run_labels_reach _ _ _ _ _ _ w3_labels init); [constructor | vm_compute; reflexivity]|].
  repeat split; vm_compute; reflexivity.
Qed.
