(* C12 - lock-free normal forms of the code blocks of Model/Pool.v.

   Between two suspension points no lock of the pool is ever held (PoolInv.v proves
   that this is an invariant), so every Lock.acquire inside a step takes the fast
   path.  The lemmas below rewrite each block of the model, started in a state whose
   relevant locks are free, into one explicit functional update of that state. *)
From Coq Require Import List Arith Bool ZArith Lia.
From Wpull Require Import Model.Pool Proofs.PoolBasics.
Import ListNotations.
Open Scope bool_scope.

Definition held := mkLock true [].

Lemma set_pool_pool s k a b : set_pool (set_pool s k a) k b = set_pool s k b.
Proof. unfold set_pool, set_pools; cbn. now rewrite aset_aset. Qed.
Lemma aget_set_pool s k a : aget (pools (set_pool s k a)) k = Some a.
Proof. unfold set_pool, set_pools; cbn. apply aget_aset_same. Qed.
Lemma aget_set_pool_other s k a k' : k' <> k -> aget (pools (set_pool s k a)) k' = aget (pools s) k'.
Proof. unfold set_pool, set_pools; cbn. apply aget_aset_other. Qed.

(* ---------- Lock.acquire / Lock.release on free / held locks ---------- *)
Lemma acquire_hp_free s t : hplock s = free_lock -> acquire s t None = (set_hplock s held, true).
Proof. unfold acquire; cbn. intros ->. reflexivity. Qed.
Lemma release_hp_held s : hplock s = held -> release s None = set_hplock s free_lock.
Proof. unfold release; cbn. intros ->. reflexivity. Qed.
Lemma acquire_k_free s t k hp :
  aget (pools s) k = Some hp -> hlock hp = free_lock ->
  acquire s t (Some k) = (set_pool s k (set_hlock hp held), true).
Proof. unfold acquire; cbn. intros -> ->. reflexivity. Qed.
Lemma release_k_held s k hp :
  aget (pools s) k = Some hp -> hlock hp = held ->
  release s (Some k) = set_pool s k (set_hlock hp free_lock).
Proof. unfold release; cbn. intros -> ->. reflexivity. Qed.

Ltac red_state :=
  cbv beta iota delta [set_cpc set_rpc set_pool set_pools set_hplock set_relset set_rtasks set_next_rid set_clients set_mcancel
         set_creq set_next_cid set_copen set_ckey set_err set_hlock set_cwait set_ready set_busy set_hwaiters
         pools hplock relset rtasks next_rid clients mcancel creq next_cid copen ckey err ready busy hlock cwait hwaiters].
Ltac state_eq := red_state; rewrite ?aset_aset; repeat f_equal; try (first [reflexivity | eassumption | symmetry; eassumption]).
Ltac aget_now := red_state; rewrite ?aset_aset; apply aget_aset_same.

Section NF.
Variable M : nat.
Variable MAXC : nat.

(* ConnectionPool.acquire's finally block *)
Definition a_dec (s : state) (c : cli) (k : key) (hp : hpool) (res : option cid) : state :=
  set_cpc (set_pool s k (set_hwaiters hp (hwaiters hp - 1))) c
          (match res with Some x => C_holding k x | None => C_cancelled end).

Lemma finally_dec_nf s c k hp res :
  hplock s = free_lock -> aget (pools s) k = Some hp ->
  finally_dec s c k res = a_dec s c k hp res.
Proof.
  intros HL HP. unfold finally_dec. rewrite (acquire_hp_free _ _ HL).
  unfold run_dec. cbn [pools set_hplock]. rewrite HP.
  rewrite release_hp_held by reflexivity.
  unfold a_dec. state_eq.
Qed.

(* HostPool.acquire's loop + the caller's finally, from a state with everything free *)
Definition a_loop (s : state) (c : cli) (k : key) (pk : cid) : option state :=
  match aget (pools s) k with
  | None => None
  | Some hp =>
      match ready hp with
      | _ :: _ =>
          if mem pk (ready hp) then
            Some (set_cpc (set_ckey (set_pool s k (mkHP (remove1 pk (ready hp)) (pk :: busy hp) free_lock (cwait hp)
                                                         (hwaiters hp - 1))) (upd (ckey s) pk k)) c (C_holding k pk))
          else None
      | [] =>
          if length (busy hp) <? M then
            let x := next_cid s in
            Some (set_cpc (set_ckey (set_copen (set_next_cid (set_pool s k (mkHP (ready hp) (x :: busy hp) free_lock (cwait hp)
                                                                              (hwaiters hp - 1))) (S x))
                                               (upd (copen s) x false)) (upd (ckey s) x k)) c (C_holding k x))
          else
            Some (set_cpc (set_pool s k (mkHP (ready hp) (busy hp) free_lock (cwait hp ++ [(c, FPending)]) (hwaiters hp)))
                          c (C_parked k))
      end
  end.

(* the tail of a successful HostPool.acquire: release the host lock, set connection.key, the caller's finally *)
Lemma got_tail s1 c k hp1 x :
  hplock s1 = free_lock -> aget (pools s1) k = Some hp1 -> hlock hp1 = held ->
  finally_dec (set_ckey (release s1 (Some k)) (upd (ckey (release s1 (Some k))) x k)) c k (Some x) =
  set_cpc (set_ckey (set_pool s1 k (mkHP (ready hp1) (busy hp1) free_lock (cwait hp1) (hwaiters hp1 - 1)))
                    (upd (ckey s1) x k)) c (C_holding k x).
Proof.
  intros HL HP HH. rewrite (release_k_held s1 k hp1 HP HH).
  change (ckey (set_pool s1 k (set_hlock hp1 free_lock))) with (ckey s1).
  rewrite (finally_dec_nf _ c k (set_hlock hp1 free_lock) (Some x)).
  - unfold a_dec. state_eq.
  - exact HL.
  - red_state. apply aget_aset_same.
Qed.

Lemma run_loop_nf s c k hp pk :
  hplock s = free_lock -> aget (pools s) k = Some hp -> hlock hp = free_lock ->
  run_loop M (set_pool s k (set_hlock hp held)) c k pk = a_loop s c k pk.
Proof.
  intros HL HP HF. unfold run_loop, a_loop. rewrite aget_set_pool, HP.
  cbn [ready set_hlock busy cwait hwaiters].
  destruct (ready hp) as [|r0 rr] eqn:ER.
  - destruct (length (busy hp) <? M) eqn:EB.
    + cbv zeta.
      change (next_cid (set_pool s k (set_hlock hp held))) with (next_cid s).
      change (copen (set_pool s k (set_hlock hp held))) with (copen s).
      rewrite (set_pool_pool s k).
      f_equal. etransitivity; [eapply got_tail; [exact HL| red_state; apply aget_aset_same | reflexivity]|].
      state_eq.
    + erewrite release_k_held; [|apply aget_set_pool|reflexivity].
      rewrite !(set_pool_pool s k), aget_set_pool, !(set_pool_pool s k). state_eq.
  - destruct (mem pk (r0 :: rr)) eqn:EM; [|reflexivity].
    rewrite (set_pool_pool s k).
    f_equal. etransitivity; [eapply got_tail; [exact HL| apply aget_set_pool | reflexivity]|].
    state_eq.
Qed.

Lemma host_acquire_nf s c k hp pk :
  hplock s = free_lock -> aget (pools s) k = Some hp -> hlock hp = free_lock ->
  host_acquire M s c k pk = a_loop s c k pk.
Proof.
  intros HL HP HF. unfold host_acquire. rewrite (acquire_k_free _ _ _ _ HP HF).
  now apply run_loop_nf.
Qed.

(* ConnectionPool.acquire's registration *)
Definition hp_reg (o : option hpool) : hpool :=
  match o with None => new_hpool | Some hp => set_hwaiters hp (hwaiters hp + 1) end.
Definition a_reg (s : state) (k : key) : state := set_pool s k (hp_reg (aget (pools s) k)).

Lemma hp_reg_free o : (forall hp, o = Some hp -> hlock hp = free_lock) -> hlock (hp_reg o) = free_lock.
Proof. destruct o; cbn; auto. Qed.

Lemma cp_acquire_nf s c k pk :
  hplock s = free_lock -> (forall hp, aget (pools s) k = Some hp -> hlock hp = free_lock) ->
  cp_acquire M s c k pk = a_loop (a_reg s k) c k pk.
Proof.
  intros HL HF. unfold cp_acquire. rewrite (acquire_hp_free _ _ HL). unfold run_reg.
  cbn [pools set_hplock].
  assert (E : release (match aget (pools s) k with
                       | Some hp => set_pool (set_hplock s held) k (set_hwaiters hp (hwaiters hp + 1))
                       | None => set_pool (set_hplock s held) k new_hpool end) None = a_reg s k).
  { unfold a_reg, hp_reg. destruct (aget (pools s) k);
      (rewrite release_hp_held by reflexivity);
      state_eq. }
  rewrite E. apply host_acquire_nf with (hp := hp_reg (aget (pools s) k)).
  - exact HL.
  - apply aget_set_pool.
  - apply hp_reg_free. exact HF.
Qed.

(* a failed HostPool.acquire: notify, release, count down, CancelledError *)
Definition a_fail (s : state) (c : cli) (k : key) (hp : hpool) : state :=
  set_cpc (set_pool s k (mkHP (ready hp) (busy hp) free_lock (cw_notify (cwait hp)) (hwaiters hp - 1))) c C_cancelled.

Lemma fail_locked_nf s c k hp :
  hplock s = free_lock -> aget (pools s) k = Some hp -> hlock hp = free_lock ->
  fail_locked (set_pool s k (set_hlock hp held)) c k = a_fail s c k hp.
Proof.
  intros HL HP HF. unfold fail_locked. rewrite aget_set_pool. rewrite (set_pool_pool s k).
  erewrite release_k_held; [|apply aget_set_pool|reflexivity].
  rewrite (set_pool_pool s k).
  erewrite finally_dec_nf; [|exact HL|apply aget_set_pool].
  unfold a_dec, a_fail. rewrite (set_pool_pool s k). reflexivity.
Qed.

(* a parked client resumes (notified, or cancelled): Condition.wait's re-acquire takes the fast path *)
Lemma reacquire_nf s c k hp exc pk :
  hplock s = free_lock -> aget (pools s) k = Some hp -> hlock hp = free_lock ->
  reacquire M s c k exc pk = if exc then Some (a_fail s c k hp) else a_loop s c k pk.
Proof.
  intros HL HP HF. unfold reacquire. rewrite (acquire_k_free _ _ _ _ HP HF). unfold after_wait.
  destruct exc.
  - now rewrite fail_locked_nf.
  - now apply run_loop_nf.
Qed.

(* HostPool.release body + ConnectionPool.release's clean *)
Definition a_reldata (s : state) (x : cid) (hp : hpool) : state :=
  set_pool s (ckey s x) (mkHP (x :: ready hp) (remove1 x (busy hp)) free_lock (cw_notify (cwait hp)) (hwaiters hp)).

Lemma rel_start_nf s r x hp :
  aget (pools s) (ckey s x) = Some hp -> hlock hp = free_lock -> mem x (busy hp) = true ->
  rel_start MAXC s r x = cp_clean (a_reldata s x hp) r (MAXC <? count_all (a_reldata s x hp)).
Proof.
  intros HP HF HM. unfold rel_start. rewrite HP. rewrite (acquire_k_free _ _ _ _ HP HF).
  unfold run_rel. change (ckey (set_pool s (ckey s x) (set_hlock hp held)) x) with (ckey s x).
  rewrite aget_set_pool. cbn [busy set_hlock]. rewrite HM.
  rewrite (set_pool_pool s (ckey s x)).
  erewrite release_k_held; [|apply aget_set_pool|reflexivity].
  rewrite (set_pool_pool s (ckey s x)). reflexivity.
Qed.

(* HostPool.clean of k + the deletion test *)
Definition hp_cleaned (s : state) (hp : hpool) (force : bool) : hpool :=
  mkHP (filter (fun x => negb (force || negb (copen s x))) (ready hp)) (busy hp) free_lock (cwait hp) (hwaiters hp).
Definition a_clean_one (s : state) (k : key) (hp : hpool) (force : bool) : state :=
  let gone := filter (fun x => force || negb (copen s x)) (ready hp) in
  let s1 := set_copen s (fun x => if mem x gone then false else copen s x) in
  let hp2 := hp_cleaned s hp force in
  let s2 := set_pool s1 k hp2 in
  if (hwaiters hp2 =? 0)%Z && match ready hp2, busy hp2 with [], [] => true | _, _ => false end
  then set_pools s2 (adel (pools s2) k) else s2.

Lemma clean_one_nf s k hp force :
  aget (pools s) k = Some hp -> hlock hp = free_lock ->
  clean_one (set_pool s k (set_hlock hp held)) k force = a_clean_one s k hp force.
Proof.
  intros HP HF. unfold clean_one. rewrite aget_set_pool.
  cbn [ready set_hlock copen set_pool set_pools].
  match goal with |- context [release ?st (Some k)] =>
    assert (E : release st (Some k) = set_pool (set_copen s (fun x => if mem x (filter (fun x => force || negb (copen s x)) (ready hp)) then false else copen s x)) k (hp_cleaned s hp force)) end.
  { erewrite release_k_held; [| unfold set_pool, set_pools, set_copen; cbn; apply aget_aset_same | reflexivity].
    unfold set_pool, set_pools, set_copen, hp_cleaned; cbn. rewrite !aset_aset. reflexivity. }
  cbv zeta. rewrite E. rewrite aget_set_pool. reflexivity.
Qed.

End NF.
