(* C10, equivalent spellings: an explicit default port.  The component split of
   URLInfo.parse for an arbitrary (not normalized) remaining text, and the theorem that
   appending ":<default port>" to a port-less authority changes neither the normalized URL
   nor the components. *)
From Coq Require Import List NArith ZArith Bool Lia Arith.
From Coq Require Import ZifyBool ZifyNat ZifyN.
From Wpull Require Import Model.UrlLib Model.Url Proofs.UrlPeProofs Proofs.UrlStrProofs Proofs.UrlPathProofs
  Proofs.UrlTotalProofs Proofs.UrlHostProofs Proofs.UrlNormProofs.
Import ListNotations.
Open Scope N_scope.

(* ---------- the component split depends on the authority only through its length ---------- *)
Lemma find_idx_shift c A R :
  memb c A = false -> find_idx c (A ++ R) = option_map (Nat.add (length A)) (find_idx c R).
Proof.
  induction A as [|x A IH]; cbn [memb app find_idx length].
  - intros _. destruct (find_idx c R); reflexivity.
  - intros H. apply orb_false_iff in H. destruct H as [H1 H2]. rewrite H1, (IH H2).
    destruct (find_idx c R); reflexivity.
Qed.

Lemma min_found_shift k l d :
  min_found (map (option_map (Nat.add k)) l) (k + d) = (k + min_found l d)%nat.
Proof.
  unfold min_found.
  assert (G : fold_right (fun o acc => match o, acc with
                                       | Some a, Some b => Some (Nat.min a b) | Some a, None => Some a | None, _ => acc end)
                         None (map (option_map (Nat.add k)) l)
              = option_map (Nat.add k)
                  (fold_right (fun o acc => match o, acc with
                                            | Some a, Some b => Some (Nat.min a b) | Some a, None => Some a | None, _ => acc end) None l)).
  { induction l as [|o l IH]; [reflexivity|]. cbn [map fold_right]. rewrite IH.
    destruct o as [a|]; cbn [option_map]; [|reflexivity].
    destruct (fold_right _ None l) as [b|]; cbn [option_map]; [|reflexivity]. f_equal. lia. }
  rewrite G. destruct (fold_right _ None l); reflexivity.
Qed.

Lemma skipn_add_app {A} (a : list A) k r : skipn (length a + k) (a ++ r) = skipn k r.
Proof. induction a as [|x a IH]; [reflexivity|exact IH]. Qed.

(* the text after the authority: empty, or starting with one of / ? # *)
Definition rest_ok (R : str) : Prop :=
  match R with [] => True | c :: _ => c = 47 \/ c = 63 \/ c = 35 end.

Theorem split_remaining_shift (A R : str) :
  memb 47 A = false -> memb 63 A = false -> memb 35 A = false -> rest_ok R ->
  split_remaining (A ++ R) =
  let '(_, resource, path, query, fragment) := split_remaining R in (A, resource, path, query, fragment).
Proof.
  intros A47 A63 A35 HR. unfold split_remaining.
  rewrite (find_idx_shift 47 A R A47), (find_idx_shift 63 A R A63), (find_idx_shift 35 A R A35).
  set (pi := find_idx 47 R). set (qi := find_idx 63 R). set (fi := find_idx 35 R).
  rewrite app_length.
  change [option_map (Nat.add (length A)) pi; option_map (Nat.add (length A)) qi; option_map (Nat.add (length A)) fi]
    with (map (option_map (Nat.add (length A))) [pi; qi; fi]).
  change [option_map (Nat.add (length A)) qi; option_map (Nat.add (length A)) fi]
    with (map (option_map (Nat.add (length A))) [qi; fi]).
  rewrite !min_found_shift.
  assert (Hai : min_found [pi; qi; fi] (length R) = 0%nat).
  { subst pi qi fi. destruct R as [|c r]; [reflexivity|]. cbn [rest_ok] in HR. cbn [find_idx].
    destruct HR as [ -> | [ -> | -> ] ]; cbn [N.eqb Pos.eqb]; unfold min_found; cbn [fold_right];
      repeat match goal with |- context [option_map S ?x] => destruct x; cbn [option_map] end; reflexivity. }
  rewrite Hai, Nat.add_0_r.
  set (p2 := min_found [qi; fi] (length R)).
  assert (Hq2 : match option_map (Nat.add (length A)) fi with Some i => i | None => (length A + length R)%nat end
                = (length A + match fi with Some i => i | None => length R end)%nat) by (destruct fi; reflexivity).
  rewrite Hq2. set (q2 := match fi with Some i => i | None => length R end).
  rewrite firstn_len_app, skipn_len_app. unfold slice.
  replace (S (length A)) with (length A + 1)%nat by lia.
  replace (S (length A + p2)) with (length A + S p2)%nat by lia.
  replace (S (length A + q2)) with (length A + S q2)%nat by lia.
  rewrite !skipn_add_app.
  replace (length A + p2 - (length A + 1))%nat with (p2 - 1)%nat by lia.
  replace (length A + q2 - (length A + S p2))%nat with (q2 - S p2)%nat by lia.
  cbn [firstn skipn]. reflexivity.
Qed.

(* local copies of small facts (the originals live inside the oracle section of UrlNormProofs) *)
Lemma last_is_digits2 d c : d <> [] -> Forall (fun x => 48 <= x <= 57) d -> ~ (48 <= c <= 57) -> forall a, last_is (a ++ d) c = false.
Proof.
  intros Hne Hd Hc a. rewrite last_is_app_ne by exact Hne. destruct (exists_last Hne) as [d' [x ->]].
  rewrite last_is_app. apply Forall_app in Hd. destruct Hd as [_ Hx]. inversion Hx; subst. lia.
Qed.
Lemma dport_range2 scheme dport : default_port scheme = Some dport -> 0 < dport <= 65535.
Proof. intros H. apply default_port_cases in H. lia. Qed.
Lemma startswith_app_ne2 a b p : a <> [] -> startswith (a ++ b) [p] = startswith a [p].
Proof. destruct a as [|x r]; [contradiction|]. intros _. cbn [app]. now rewrite !startswith_cons1. Qed.

(* ---------- parse_authority / parse_host with a port suffix ---------- *)
Lemma partition_app_suffix c A suffix :
  memb c suffix = false ->
  partition c (A ++ suffix) =
  let '(a, f, b) := partition c A in if f then (a, true, b ++ suffix) else (A ++ suffix, false, []).
Proof.
  intros Hs. induction A as [|x A IH]; cbn [app partition].
  - now rewrite (partition_none c suffix Hs).
  - destruct (x =? c); [reflexivity|]. rewrite IH. destruct (partition c A) as [[a f] b]. destruct f; reflexivity.
Qed.

Lemma parse_authority_suffix A suffix :
  memb 64 suffix = false ->
  parse_authority (A ++ suffix) = (fst (parse_authority A), snd (parse_authority A) ++ suffix).
Proof.
  intros Hs. unfold parse_authority. rewrite (partition_app_suffix 64 A suffix Hs).
  destruct (partition 64 A) as [[a f] b] eqn:E. destruct f; [reflexivity|].
  cbn [fst snd]. f_equal. f_equal.
  (* no '@': the user-info is empty and the host is the whole authority *)
  clear -E. revert a b E. induction A as [|x A IH]; intros a b E; cbn [partition] in E.
  - now inversion E.
  - destruct (x =? 64); [discriminate|]. destruct (partition 64 A) as [[a' f'] b'] eqn:E'. inversion E; subst.
    f_equal. now apply (IH a' b).
Qed.

Section DefaultPort.
Variable enc : str -> option (list N).
Variable idna_o : str -> option str.
Variable ipv6_o : str -> option str.
Variable int_o : N -> str -> option Z.
Variable unq_o : str -> str.

Lemma parse_host_add_port host h p :
  parse_host idna_o ipv6_o int_o host = Ok (h, None) -> 0 < p <= 65535 ->
  parse_host idna_o ipv6_o int_o (host ++ 58 :: dec_of_N p) = Ok (h, Some p).
Proof.
  intros H Hp. destruct (dec_good_spec p ltac:(lia)) as [Hdig [Hdne _]].
  assert (Hd58 : memb 58 (dec_of_N p) = false) by (apply digits_no; [exact Hdig|lia]).
  assert (L : last_is (host ++ 58 :: dec_of_N p) 93 = false).
  { change (host ++ 58 :: dec_of_N p) with (host ++ [58] ++ dec_of_N p). rewrite app_assoc.
    apply last_is_digits2; [exact Hdne|exact Hdig|lia]. }
  assert (Hh : parse_hostname idna_o ipv6_o int_o host = Ok h).
  { unfold parse_host in H. destruct (last_is host 93).
    - apply bind_ok in H. destruct H as [h0 [Hh [= <-]]]. exact Hh.
    - destruct (rpartition 58 host) as [[hn pt]|].
      + destruct (py_int int_o 10 pt) as [z|]; [|discriminate]. destruct ((z <? 0)%Z || (65535 <? z)%Z); [discriminate|].
        apply bind_ok in H. destruct H as [h0 [_ H]]. discriminate.
      + apply bind_ok in H. destruct H as [h0 [Hh [= <-]]]. exact Hh. }
  unfold parse_host. rewrite L, (rpartition_last 58 host _ Hd58), (py_int_dec int_o p) by lia.
  replace ((Z.of_N p <? 0)%Z || (65535 <? Z.of_N p)%Z) with false by lia.
  rewrite Hh. cbn [bind]. now rewrite N2Z.id.
Qed.

(* "http://host/x" and "http://host:80/x": the remaining text after the scheme is
   //A R resp. //A:dport R with A free of / ? # and R empty or starting with one of them *)
Theorem parse_network_default_port url url' scheme dport A R h :
  default_port scheme = Some dport ->
  memb 47 A = false -> memb 63 A = false -> memb 35 A = false -> rest_ok R ->
  parse_host idna_o ipv6_o int_o (snd (parse_authority A)) = Ok (h, None) ->
  match parse_network enc idna_o ipv6_o int_o unq_o url scheme dport ([47; 47] ++ A ++ R),
        parse_network enc idna_o ipv6_o int_o unq_o url' scheme dport ([47; 47] ++ (A ++ 58 :: dec_of_N dport) ++ R) with
  | Ok i, Ok i' => url_of enc i = url_of enc i' /\ u_scheme i = u_scheme i' /\ u_hostname i = u_hostname i' /\
                   u_port i = u_port i' /\ u_path i = u_path i' /\ u_query i = u_query i'
  | Err k, Err k' => k = k'
  | _, _ => False
  end.
Proof.
  intros Hd A47 A63 A35 HR Hh.
  pose proof (dport_range2 _ _ Hd) as Hdr.
  destruct (dec_good_spec dport ltac:(lia)) as [Hdig _].
  assert (S47 : memb 47 (A ++ 58 :: dec_of_N dport) = false)
    by (rewrite memb_app, A47; cbn [memb orb N.eqb Pos.eqb]; apply digits_no; [exact Hdig|lia]).
  assert (S63 : memb 63 (A ++ 58 :: dec_of_N dport) = false)
    by (rewrite memb_app, A63; cbn [memb orb N.eqb Pos.eqb]; apply digits_no; [exact Hdig|lia]).
  assert (S35 : memb 35 (A ++ 58 :: dec_of_N dport) = false)
    by (rewrite memb_app, A35; cbn [memb orb N.eqb Pos.eqb]; apply digits_no; [exact Hdig|lia]).
  assert (S64 : memb 64 (58 :: dec_of_N dport) = false)
    by (cbn [memb orb N.eqb Pos.eqb]; apply digits_no; [exact Hdig|lia]).
  unfold parse_network. rewrite !(startswith_app [47; 47]). cbn [app skipn].
  rewrite (split_remaining_shift A R A47 A63 A35 HR), (split_remaining_shift _ R S47 S63 S35 HR).
  destruct (split_remaining R) as [[[[a0 resource] path] query] fragment].
  rewrite (parse_authority_suffix A _ S64).
  destruct (parse_authority A) as [userinfo host] eqn:Ea. cbn [fst snd] in *.
  rewrite Hh, (parse_host_add_port host h dport Hh Hdr). cbn [bind].
  destruct (parse_userinfo userinfo) as [username password].
  destruct (is_nil h) eqn:En; [reflexivity|].
  destruct (normalize_path enc path); cbn [bind]; [|reflexivity].
  destruct (normalize_query enc query); cbn [bind]; [|reflexivity].
  destruct (normalize_fragment enc fragment); cbn [bind]; [|reflexivity].
  destruct (normalize_userpart enc username_encode_set _); cbn [bind]; [|reflexivity].
  destruct (normalize_userpart enc password_encode_set _); cbn [bind]; [|reflexivity].
  assert (Hp0 : (dport =? 0) = false) by lia. rewrite Hp0.
  split; [|repeat split; reflexivity].
  unfold url_of, is_ipv6. cbn [u_scheme u_username u_password u_host u_hostname u_port u_path u_query]. rewrite Hd.
  assert (Hne : host <> []).
  { intros ->. vm_compute in Hh. inversion Hh; subst. discriminate. }
  rewrite (startswith_app_ne2 host _ 91 Hne). reflexivity.
Qed.
End DefaultPort.
