(* C13 - after the pipeline left `running` (stop(), or the producer finished / raised), there
   are at least as many poison pills queued as live workers, so no worker takes a further item:
   no Start _ 0 is logged after that point. *)
From Coq Require Import List Arith Bool Lia.
From Wpull Require Import Model.Pipeline Proofs.PipelineBase Proofs.PipelineSafety.
Import ListNotations.

Definition live (x : worker) : bool := negb (wdone (pc x)).
Definition bad (x : worker) : bool := live x && negb (inset x).
Definition no_start0 (l : list ev) : Prop := forall i, ~ In (Start i 0) l.

Definition is_sd (m : mpc) : bool := match m with M_sd_wait_workers | M_sd_wait_prod => true | _ => false end.

Record Stp (s : state) : Prop := {
  st_some : forall m, stopped_at s = Some m ->
     m <= length (log s) /\ no_start0 (firstn (length (log s) - m) (log s)) /\
     countw live (workers s) <= q_pills s /\ pstate s <> St_running;
  st_none : stopped_at s = None -> pstate s = St_running \/ mainpc s = M_new;
  st_new : mainpc s = M_new -> stopped_at s = None /\ pstate s = St_stopped;
  st_sd : is_sd (mainpc s) = true -> pstate s <> St_running;
  st_bad : countw bad (workers s) = 0
}.

Lemma stp_frame s s' :
  Stp s -> stopped_at s' = stopped_at s -> log s' = log s ->
  (pstate s' = pstate s \/ (pstate s <> St_running /\ pstate s' <> St_running /\ mainpc s <> M_new)) ->
  (mainpc s' = mainpc s \/
   (mainpc s' <> M_new /\ mainpc s <> M_new /\ (is_sd (mainpc s') = true -> pstate s' <> St_running))) ->
  countw live (workers s') + q_pills s <= countw live (workers s) + q_pills s' ->
  countw bad (workers s') = 0 -> Stp s'.
Proof.
  intros [A B C D0 D] E1 E2 E3 E4 L Bd. constructor; rewrite ?E1, ?E2; auto.
  - intros m H. destruct (A m H) as [A1 [A2 [A3 A4]]]. repeat split; auto; [lia|].
    destruct E3 as [->|[_ [E3 _]]]; auto.
  - intros H. destruct (B H) as [R|N].
    + left. destruct E3 as [->|[E3 _]]; [exact R|contradiction].
    + right. destruct E4 as [->|[_ [E4 _]]]; [exact N|contradiction].
  - intros H. destruct E4 as [E4|[E4 _]]; [|contradiction]. rewrite E4 in H. destruct (C H) as [C1 C2].
    split; [exact C1|]. destruct E3 as [->|[_ [_ E3]]]; [exact C2|contradiction].
  - intros H. destruct E4 as [E4|[_ [_ E4]]]; [|now apply E4]. rewrite E4 in H. specialize (D0 H).
    destruct E3 as [->|[_ [E3 _]]]; auto.
Qed.

(* ---- worker-list facts ------------------------------------------------------------------ *)
Lemma countw_map g (f : worker -> worker) ws : countw g (map f ws) = countw (fun x => g (f x)) ws.
Proof. induction ws as [|x r IH]; [reflexivity|]. cbn [map]. now rewrite !countw_cons, IH. Qed.

Lemma bad_zero_in ws x : countw bad ws = 0 -> In x ws -> live x = true -> inset x = true.
Proof.
  intros Z I L. pose proof (proj1 (countw_zero bad ws) Z x I) as B. unfold bad in B. rewrite L in B.
  destruct (inset x); [reflexivity|discriminate].
Qed.

Lemma live_bad_upd ws w p x :
  nth_error ws w = Some x -> live x = true -> countw bad ws = 0 ->
  countw bad (upd_pc ws w p) = 0 /\
  countw live (upd_pc ws w p) + 1 = countw live ws + b2n (live {| pc := p; inset := inset x |}).
Proof.
  intros E L Z. pose proof (bad_zero_in _ _ Z (nth_error_In _ _ E) L) as I.
  pose proof (countw_upd bad ws w p x E) as C1. pose proof (countw_upd live ws w p x E) as C2.
  assert (B0 : bad x = false) by (unfold bad; now rewrite I, andb_false_r).
  assert (B1 : bad {| pc := p; inset := inset x |} = false) by (unfold bad; cbn; now rewrite I, andb_false_r).
  rewrite B0, B1, Z in C1. rewrite L in C2. cbn [b2n] in *. split; lia.
Qed.

Lemma live_le_inset ws : countw bad ws = 0 -> countw live ws <= countw inset ws.
Proof.
  induction ws as [|x r IH]; [auto|]. rewrite !countw_cons. intros Z.
  assert (B : bad x = false) by (destruct (bad x); [cbn in Z; lia|reflexivity]).
  rewrite B in Z. specialize (IH Z). unfold bad in B. destruct (live x), (inset x); cbn in *; try lia; discriminate.
Qed.

Lemma live_le_in_live ws : countw bad ws = 0 -> countw live ws <= countw in_live ws.
Proof.
  induction ws as [|x r IH]; [auto|]. rewrite !countw_cons. intros Z.
  assert (B : bad x = false) by (destruct (bad x); [cbn in Z; lia|reflexivity]).
  rewrite B in Z. specialize (IH Z). unfold bad, live, in_live in *.
  destruct (wdone (pc x)), (inset x); cbn in *; try lia; discriminate.
Qed.

Lemma live_wake t s k : Safe t s ->
  countw live (wake_set (workers s) (firstn k (getters s))) = countw live (workers s) /\
  countw bad (wake_set (workers s) (firstn k (getters s))) = countw bad (workers s).
Proof.
  intros Sf. destruct (nodup_split (getters s) k (sf_getters_nd _ _ Sf)) as [_ _].
  assert (ND : NoDup (firstn k (getters s))).
  { pose proof (sf_getters_nd _ _ Sf) as N. rewrite <- (firstn_skipn k (getters s)) in N.
    revert N. generalize (firstn k (getters s)) (skipn k (getters s)). intros a b. induction a as [|y a IH]; [constructor|].
    cbn. intros N. inversion N as [|? ? Ny N']; subst. constructor; [|now apply IH]. intros I. apply Ny. apply in_or_app; now left. }
  assert (P : forall w, In w (firstn k (getters s)) -> wpc_at (workers s) w = Some W_parked).
  { intros w I. apply (sf_getters _ _ Sf). rewrite <- (firstn_skipn k (getters s)). apply in_or_app; now left. }
  split; apply countw_wake; auto.
Qed.

(* ---- helpers ------------------------------------------------------------------------------- *)
Ltac stp_same St :=
  apply (stp_frame _ _ St); cbn;
  [reflexivity|reflexivity|auto|auto|try lia|try (apply (st_bad _ St))].

Lemma stp_put_pills t s k : Safe t s -> Stp s -> Stp (put_pills k s).
Proof.
  intros Sf St. rewrite put_pills_eq. destruct (live_wake t s k Sf) as [L B].
  apply (stp_frame _ _ St); cbn; [reflexivity|reflexivity|auto|auto|lia|rewrite B; apply (st_bad _ St)].
Qed.

Lemma stp_wake_n t s k : Safe t s -> Stp s -> Stp (wake_n k s).
Proof.
  intros Sf St. rewrite wake_n_eq. destruct (live_wake t s k Sf) as [L B].
  apply (stp_frame _ _ St); cbn; [reflexivity|reflexivity|auto|auto|lia|rewrite B; apply (st_bad _ St)].
Qed.

Lemma stp_wake_one t s : Safe t s -> Stp s -> Stp (wake_one s).
Proof. apply (stp_wake_n t s 1). Qed.

Lemma stp_event_set s : Stp s -> Stp (event_set s).
Proof.
  intros St. rewrite event_set_eq. destruct (unpaused s); [exact St|]. stp_same St.
  destruct (mainpc s); cbn; auto. right. repeat split; discriminate.
Qed.

Lemma stp_notify_all s : Stp s -> Stp (notify_all s).
Proof. intros St. rewrite notify_all_eq. stp_same St. Qed.

Lemma stp_pipeline_stop t s : Safe t s -> Stp s -> Stp (pipeline_stop s).
Proof.
  intros Sf St. unfold pipeline_stop. destruct (pstate s) eqn:EP; try exact St.
  apply stp_event_set. rewrite put_pills_eq. destruct (live_wake t s (count_inset (workers s)) Sf) as [L B]. cbn in *.
  assert (NN : mainpc s <> M_new) by (intros H; destruct (st_new _ St H); congruence).
  constructor; cbn.
  - intros m H; injection H as <-. rewrite Nat.sub_diag. cbn. repeat split; try (intros ? []); try discriminate; auto.
    rewrite L. pose proof (live_le_inset _ (st_bad _ St)). rewrite count_inset_countw. lia.
  - discriminate.
  - intros H. contradiction.
  - discriminate.
  - rewrite B. apply (st_bad _ St).
Qed.

Lemma stp_set_concurrency t s k : Safe t s -> Stp s -> Stp (set_concurrency k s).
Proof.
  intros Sf St. unfold set_concurrency.
  assert (S1 : Stp (set_conc s k)) by stp_same St.
  assert (F1 : Safe t (set_conc s k)) by same_frame Sf.
  destruct (pstate s); try exact S1.
  assert (S2 : Stp (if k <? conc s then put_pills (conc s - k) (set_conc s k)
                    else if conc s <? k then put_pills 1 (set_conc s k) else set_conc s k)).
  { destruct (k <? conc s); [now apply (stp_put_pills t)|]. destruct (conc s <? k); [now apply (stp_put_pills t)|exact S1]. }
  destruct (0 <? k); [now apply stp_event_set|]. stp_same S2.
Qed.

Lemma stp_prod_loop t s : Safe t s -> Stp s -> Stp (prod_loop s).
Proof.
  intros Sf St. unfold prod_loop. destruct (prod_running s).
  - stp_same St.
  - pose proof (stp_pipeline_stop t s Sf St) as S1. stp_same S1.
Qed.

Lemma stp_prod_put t s i : Safe t s -> pitem (prod s) = Some i -> Stp s -> Stp (prod_put i s).
Proof.
  intros Sf E St. unfold prod_put. destruct (qsize s).
  - pose proof (safe_enqueue t s i Sf E) as F1. apply safe_wake_one in F1. rewrite wake_one_set_prod in F1.
    assert (S1 : Stp (set_prod (set_items (set_unfinished s (S (unfinished s))) (q_items s ++ [i])) P_src)) by stp_same St.
    apply (stp_wake_one t) in S1; [|now apply safe_enqueue]. rewrite wake_one_set_prod in S1.
    pose proof (stp_prod_loop t _ F1 S1) as S2. rewrite prod_loop_set_prod in S2. exact S2.
  - stp_same St.
Qed.

Lemma stp_prod_step t s s' : Safe t s -> Stp s -> prod_step s = Some s' -> Stp s'.
Proof.
  intros Sf St. unfold prod_step. destruct (pdone (prod s)); [discriminate|].
  destruct (prod s) as [| | |i| | |i [|]|[|]| | |] eqn:E; try discriminate;
    (destruct (prod_cancel s); [intros H; injection H as <-; stp_same St|]);
    try discriminate;
    try (match goal with |- match unfinished s with _ => _ end = _ -> _ => destruct (unfinished s) end); intros H; injection H as <-.
  - apply (stp_prod_loop t); [same_frame Sf|stp_same St].
  - apply (stp_prod_put t); [exact Sf|now rewrite E|exact St].
  - assert (S1 : Stp (pipeline_stop (set_prod_running s false))) by (apply (stp_pipeline_stop t); [same_frame Sf|stp_same St]).
    stp_same S1.
  - stp_same St.
  - pose proof (stp_pipeline_stop t s Sf St) as S1. stp_same S1.
  - apply (stp_prod_put t); [exact Sf|now rewrite E|exact St].
  - now apply (stp_prod_loop t).
Qed.

(* ---- workers --------------------------------------------------------------------------------- *)
Lemma stp_set_wpc s w x p :
  Stp s -> nth_error (workers s) w = Some x -> live x = true -> Stp (set_wpc s w p).
Proof.
  intros St E L. destruct (live_bad_upd _ _ p _ E L (st_bad _ St)) as [B C].
  apply (stp_frame _ _ St); cbn; auto.
  destruct (live {| pc := p; inset := inset x |}); cbn [b2n] in C; lia.
Qed.

Lemma stp_add_log s e : Stp s -> (stopped_at s = None \/ forall i, e <> Start i 0) -> Stp (add_log s e).
Proof.
  intros [A B C D0 D] N. constructor; cbn [add_log stopped_at log workers q_pills pstate mainpc length]; auto.
  intros m H. destruct N as [N|N]; [congruence|]. destruct (A m H) as [A1 [A2 [A3 A4]]]. repeat split; auto.
  replace (S (length (log s)) - m) with (S (length (log s) - m)) by lia. cbn [firstn].
  intros i [I|I]; [now apply (N i)|now apply (A2 i)].
Qed.

Lemma live_pos ws w x : nth_error ws w = Some x -> live x = true -> 0 < countw live ws.
Proof. intros E L. apply countw_pos. exists x. split; [eapply nth_error_In; eauto|exact L]. Qed.

Lemma stp_worker_get t s w x :
  Stp s -> nth_error (workers s) w = Some x -> live x = true -> Stp (worker_get t w s).
Proof.
  intros St E L. unfold worker_get. destruct (q_pills s) as [|pl] eqn:EP.
  - destruct (q_items s) as [|i r] eqn:EQ.
    + pose proof (stp_set_wpc s w x W_parked St E L) as S1. stp_same S1.
    + assert (S1 : Stp (notify_all (set_items s r))) by (apply stp_notify_all; stp_same St).
      assert (E1 : nth_error (workers (notify_all (set_items s r))) w = Some x) by (rewrite notify_all_eq; exact E).
      destruct t as [|t'].
      * destruct (unfinished (notify_all (set_items s r))) as [|u].
        -- eapply stp_set_wpc; eauto.
        -- eapply stp_set_wpc with (x := x); [| |exact L].
           ++ apply stp_notify_all. stp_same S1.
           ++ rewrite !notify_all_eq. exact E.
      * assert (N : stopped_at s = None).
        { destruct (stopped_at s) as [m|] eqn:ES; [|reflexivity]. destruct (st_some _ St m ES) as [_ [_ [A _]]].
          pose proof (live_pos _ _ _ E L). lia. }
        eapply stp_set_wpc with (x := x); [| |exact L].
        -- apply stp_add_log; [exact S1|]. left. rewrite notify_all_eq. exact N.
        -- rewrite notify_all_eq. exact E.
  - destruct (live_bad_upd _ _ W_exited _ E L (st_bad _ St)) as [B C].
    rewrite notify_all_eq. apply (stp_frame _ _ St); cbn; auto.
    change (live {| pc := W_exited; inset := inset x |}) with false in C. cbn [b2n] in C. lia.
Qed.

Lemma stp_worker_step t w s s' : Stp s -> worker_step t w s = Some s' -> Stp s'.
Proof.
  intros St. unfold worker_step. destruct (wpc_at (workers s) w) as [p|] eqn:A; [|discriminate].
  destruct (wpc_at_nth _ _ _ A) as [x [E Px]].
  destruct p as [| | | |i k|i k|i k| |]; try discriminate.
  - intros H; injection H as <-. eapply stp_worker_get; eauto. unfold live. now rewrite Px.
  - intros H; injection H as <-. eapply stp_worker_get; eauto. unfold live. now rewrite Px.
  - intros H; injection H as <-. eapply stp_worker_get; eauto. unfold live. now rewrite Px.
  - assert (L : live x = true) by (unfold live; now rewrite Px).
    assert (S1 : Stp (add_log s (End_ i k))) by (apply stp_add_log; [exact St|right; discriminate]).
    destruct (S k <? t).
    + intros H; injection H as <-. eapply stp_set_wpc with (x := x); [|exact E|exact L].
      apply stp_add_log; [exact S1|right; discriminate].
    + cbn [unfinished add_log]. destruct (unfinished s) as [|u]; intros H; injection H as <-.
      * eapply stp_set_wpc; eauto.
      * eapply stp_worker_get with (x := x); [| |exact L].
        -- apply stp_notify_all. stp_same S1.
        -- rewrite notify_all_eq. exact E.
  - intros H; injection H as <-. eapply stp_set_wpc; eauto. unfold live. now rewrite Px.
Qed.

(* ---- main ------------------------------------------------------------------------------------------ *)
Ltac keep := left; reflexivity.
Ltac chg := right; repeat split; auto; try congruence; try discriminate.
Ltac stp_fr S1 tp tm :=
  apply (stp_frame _ _ S1); cbn; [reflexivity|reflexivity|tp|tm|try lia|try apply (st_bad _ S1)].
Lemma main_loop_set_main s m : main_loop (set_main s m) = main_loop s.
Proof.
  unfold main_loop, sd_after_workers, finish_prod, spawn. cbn [pstate workers set_main conc unpaused prod set_workers].
  destruct (pstate s); reflexivity.
Qed.

Lemma countw_clear_live ws : countw live (clear_set ws) = countw live ws.
Proof. unfold clear_set. rewrite countw_map. apply countw_ext. reflexivity. Qed.

Lemma countw_clear_bad ws : countw bad (clear_set ws) = countw live ws.
Proof.
  unfold clear_set. rewrite countw_map. apply countw_ext. intros x _. unfold bad, live. cbn. now rewrite andb_true_r.
Qed.

Lemma countw_reap_live ws : countw live (reap ws) = countw live ws.
Proof. unfold reap. rewrite countw_map. apply countw_ext. intros x _. destruct (in_done x); reflexivity. Qed.

Lemma countw_reap_bad ws : countw bad (reap ws) = countw bad ws.
Proof.
  unfold reap. rewrite countw_map. apply countw_ext. intros x _. destruct (in_done x) eqn:E; [|reflexivity].
  unfold in_done in E. apply andb_prop in E. destruct E as [_ E]. unfold bad, live. cbn. now rewrite E.
Qed.

Lemma stp_sd_after_workers s :
  Stp s -> mainpc s <> M_new -> pstate s <> St_running -> countw live (workers s) = 0 -> Stp (sd_after_workers s).
Proof.
  intros St NN NR Z. unfold sd_after_workers. cbn [prod set_workers].
  assert (S1 : Stp (set_workers s (clear_set (workers s)))).
  { stp_fr St keep keep; [rewrite countw_clear_live; lia|now rewrite countw_clear_bad]. }
  destruct (pdone (prod s)).
  - unfold finish_prod. cbn [prod set_workers]. destruct (prod s); first [stp_fr S1 keep chg | stp_fr S1 chg chg].
  - stp_fr S1 keep chg.
Qed.

Lemma stp_main_loop s : Stp s -> mainpc s <> M_new -> Stp (main_loop s).
Proof.
  intros St NN. unfold main_loop.
  assert (NS : forall m, is_sd m = false -> m <> M_new -> Stp (set_main s m)).
  { intros m Hm Nm. stp_fr St keep chg. }
  assert (SD : pstate s <> St_running -> Stp (if 0 <? count_inset (workers s) then set_main s M_sd_wait_workers
                                                else sd_after_workers s)).
  { intros NR. destruct (0 <? count_inset (workers s)) eqn:EC.
    - stp_fr St keep chg.
    - apply stp_sd_after_workers; auto. apply Nat.ltb_ge in EC.
      pose proof (live_le_inset _ (st_bad _ St)). rewrite count_inset_countw in EC. lia. }
  destruct (pstate s) eqn:EP.
  - apply SD. discriminate.
  - assert (N : stopped_at s = None).
    { destruct (stopped_at s) as [m|] eqn:ES; [|reflexivity]. destruct (st_some _ St m ES) as [_ [_ [_ A]]]. congruence. }
    assert (S1 : forall m, is_sd m = false -> m <> M_new -> Stp (set_main (spawn s) m)).
    { intros m Hm Nm. constructor; cbn; auto; try congruence.
      rewrite countw_app, countw_repeat. rewrite (st_bad _ St). cbn. lia. }
    destruct (0 <? count_inset (workers (spawn s))); [apply S1; [reflexivity|discriminate]|].
    destruct (unpaused (spawn s)); apply S1; try reflexivity; discriminate.
  - apply SD. discriminate.
Qed.

Lemma stp_main_step s s' : Stp s -> main_step s = Some s' -> Stp s'.
Proof.
  intros St. unfold main_step. destruct (mainpc s) as [| | |[|]| | | |] eqn:EM; try discriminate.
  - destruct (st_new _ St EM) as [N P]. rewrite P. intros H; injection H as <-.
    rewrite <- main_loop_set_main with (m := M_spin). apply stp_main_loop; [|discriminate].
    constructor; cbn; auto; try congruence; try discriminate. apply (st_bad _ St).
  - intros H; injection H as <-. apply stp_main_loop; [exact St|congruence].
  - destruct (existsb in_done (workers s)); [|discriminate].
    destruct (existsb in_raised (workers s)); intros H; injection H as <-.
    + stp_fr St keep chg.
    + apply stp_main_loop; [|cbn; congruence].
      stp_fr St keep keep; [rewrite countw_reap_live; lia|rewrite countw_reap_bad; apply (st_bad _ St)].
  - intros H; injection H as <-. apply stp_main_loop; [exact St|congruence].
  - destruct (existsb in_live (workers s)) eqn:EL; [discriminate|]. intros H; injection H as <-.
    apply stp_sd_after_workers; auto; try congruence.
    + apply (st_sd _ St). now rewrite EM.
    + rewrite existsb_countw in EL. apply Nat.ltb_ge in EL. pose proof (live_le_in_live _ (st_bad _ St)). lia.
  - destruct (pdone (prod s)); [|discriminate]. intros H; injection H as <-.
    assert (NR : pstate s <> St_running) by (apply (st_sd _ St); now rewrite EM).
    unfold finish_prod. destruct (prod s); first [stp_fr St keep chg | stp_fr St chg chg].
Qed.

(* ---- all steps ------------------------------------------------------------------------------------------- *)
Lemma stp_step t s l s' : Safe t s -> Stp s -> step t s l = Some s' -> Stp s'.
Proof.
  intros Sf St. destruct l as [| |w|i|i| | | | |k]; cbn [step].
  - now apply stp_main_step.
  - now apply (stp_prod_step t).
  - now apply stp_worker_step.
  - destruct (find_task (workers s) i 0) as [[w k]|] eqn:F; [|discriminate]. intros H; injection H as <-.
    destruct (find_task_spec _ _ _ _ _ F) as [_ A]. rewrite Nat.sub_0_r in A. destruct (wpc_at_nth _ _ _ A) as [x [E Px]].
    eapply stp_set_wpc; eauto. unfold live. now rewrite Px.
  - destruct (find_task (workers s) i 0) as [[w k]|] eqn:F; [|discriminate]. intros H; injection H as <-.
    destruct (find_task_spec _ _ _ _ _ F) as [_ A]. rewrite Nat.sub_0_r in A. destruct (wpc_at_nth _ _ _ A) as [x [E Px]].
    eapply stp_set_wpc; eauto. unfold live. now rewrite Px.
  - destruct (prod s) eqn:E; try discriminate. destruct (prod_cancel s); [discriminate|].
    destruct (src_left s); [discriminate|]. intros H; injection H as <-. stp_same St.
  - destruct (prod s) eqn:E; try discriminate. destruct (prod_cancel s); [discriminate|].
    intros H; injection H as <-. stp_same St.
  - destruct (prod s) eqn:E; try discriminate. destruct (prod_cancel s); [discriminate|].
    intros H; injection H as <-. stp_same St.
  - intros H; injection H as <-. now apply (stp_pipeline_stop t).
  - intros H; injection H as <-. now apply (stp_set_concurrency t).
Qed.

Lemma stp_init n c : Stp (init n c).
Proof. constructor; cbn; auto; discriminate. Qed.

Theorem stp_reachable t n c s : reachable t n c s -> Stp s.
Proof.
  induction 1 as [|s l s' R IH H]; [apply stp_init|].
  eapply stp_step; eauto. eapply safe_reachable; eauto.
Qed.

Ltac nf := rewrite ?event_set_eq, ?put_pills_eq, ?wake_one_eq, ?notify_all_eq.
Ltac brk :=
  repeat match goal with
  | |- context [match ?x with _ => _ end] => destruct x eqn:?
  | |- context [if ?x then _ else _] => destruct x eqn:?
  end.

Lemma src_count_step t s l s' :
  step t s l = Some s' -> next_item s' + src_left s' = next_item s + src_left s.
Proof.
  destruct l; cbn [step].
  - unfold main_step, main_loop, sd_after_workers, finish_prod, spawn. brk; intros H; inversion H; cbn; try lia.
  - unfold prod_step, prod_put, prod_loop, pipeline_stop. brk; intros H; inversion H; nf; brk; cbn; nf; brk; cbn; try lia.
  - unfold worker_step, worker_get. brk; intros H; inversion H; nf; cbn; nf; cbn; try lia.
  - brk; intros H; inversion H; cbn; lia.
  - brk; intros H; inversion H; cbn; lia.
  - brk; intros H; inversion H; cbn; lia.
  - brk; intros H; inversion H; cbn; lia.
  - brk; intros H; inversion H; cbn; lia.
  - unfold pipeline_stop. brk; intros H; inversion H; nf; brk; cbn; lia.
  - unfold set_concurrency. brk; intros H; inversion H; nf; brk; cbn; nf; brk; cbn; lia.
Qed.

Lemma src_count_reachable t n c s : reachable t n c s -> next_item s + src_left s = S n.
Proof.
  induction 1 as [|s l s' R IH H]; [reflexivity|]. rewrite <- IH. eapply src_count_step; eauto.
Qed.

(* ---- the property-level statements ------------------------------------------------------------------------------ *)
Theorem at_most_once t n c s : reachable t n c s -> NoDup (log s).
Proof. intros R. eapply log_nodup, safe_reachable, R. Qed.

Theorem tasks_in_order t n c s :
  reachable t n c s ->
  forall l1 e l2, log s = l1 ++ e :: l2 ->
    task_of e < t /\
    match e with
    | Ev true i (S k) => In (End_ i k) l2
    | Ev true i O => True
    | Ev false i k => In (Start i k) l2
    end.
Proof.
  intros R l1 e l2 E. pose proof (safe_reachable _ _ _ _ R) as Sf. split; [|eapply log_order; eauto].
  destruct e as [b i k]. eapply (log_event_range t s Sf b i k). rewrite E. apply in_or_app. right. now left.
Qed.

Theorem only_source_items t n c s :
  reachable t n c s ->
  forall b i k, In (Ev b i k) (log s) -> 1 <= i < next_item s /\ next_item s <= S n.
Proof.
  intros R b i k I. pose proof (safe_reachable _ _ _ _ R) as Sf. pose proof (src_count_reachable _ _ _ _ R).
  destruct (log_event_range t s Sf b i k I). split; [assumption|lia].
Qed.

Theorem stop_takes_no_more t n c s :
  reachable t n c s ->
  (pstate s <> St_running -> mainpc s <> M_new -> exists m, stopped_at s = Some m) /\
  (forall m, stopped_at s = Some m ->
     pstate s <> St_running /\
     exists recent old, log s = recent ++ old /\ length old = m /\ forall i, ~ In (Start i 0) recent).
Proof.
  intros R. pose proof (stp_reachable _ _ _ _ R) as St. split.
  - intros NR NN. destruct (stopped_at s) as [m|] eqn:E; [eauto|]. destruct (st_none _ St E); contradiction.
  - intros m E. destruct (st_some _ St m E) as [A1 [A2 [_ A4]]]. split; [exact A4|].
    exists (firstn (length (log s) - m) (log s)), (skipn (length (log s) - m) (log s)).
    split; [now rewrite firstn_skipn|]. split; [rewrite skipn_length; lia|exact A2].
Qed.
