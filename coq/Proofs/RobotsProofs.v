(* Proofs about Model/Robots.v (C20). *)
From Coq Require Import List NArith Bool Arith Lia ZifyBool ZifyNat ZifyN.
From Wpull Require Import Model.Robots.
Import ListNotations.
Open Scope N_scope.
Open Scope bool_scope.

(* ------------------------------------------------------------------ *)
(* 1. strings                                                          *)
(* ------------------------------------------------------------------ *)
Lemma seqb_eq a b : seqb a b = true <-> a = b.
Proof.
  revert b; induction a as [|x a IH]; intros [|y b]; cbn [seqb]; split; intros H; try reflexivity; try discriminate.
  - apply andb_true_iff in H. destruct H as [H1 H2]. apply N.eqb_eq in H1. apply IH in H2. now subst.
  - injection H as -> ->. rewrite N.eqb_refl. cbn. now apply IH.
Qed.

Lemma seqb_refl a : seqb a a = true.
Proof. now apply seqb_eq. Qed.

Lemma starts_with_spec p s : starts_with p s = true <-> exists rest, s = p ++ rest.
Proof.
  revert s; induction p as [|a p IH]; intros s; cbn [starts_with].
  - split; [intros _; now exists s | reflexivity].
  - destruct s as [|b s].
    + split; [discriminate | intros [r H]; discriminate].
    + rewrite andb_true_iff, N.eqb_eq, IH. split.
      * intros [-> [r ->]]. now exists r.
      * intros [r H]. cbn in H. injection H as -> ->. split; [reflexivity | now exists r].
Qed.

Lemma is_infix_spec p s : is_infix p s = true <-> exists a b, s = a ++ p ++ b.
Proof.
  induction s as [|c s IH]; cbn [is_infix].
  - rewrite orb_false_r, starts_with_spec. split.
    + intros [r H]. now exists [], r.
    + intros [a [b H]]. destruct a as [|x a]; [now exists b | discriminate].
  - rewrite orb_true_iff, starts_with_spec, IH. split.
    + intros [[r H] | [a [b H]]].
      * now exists [], r.
      * exists (c :: a), b. now rewrite H.
    + intros [a [b H]]. destruct a as [|x a].
      * left. now exists b.
      * right. cbn in H. injection H as -> ->. now exists a, b.
Qed.

Lemma ends_dollar_spec p : ends_dollar p = true <-> exists q, p = q ++ [36].
Proof.
  unfold ends_dollar. split.
  - destruct (rev p) as [|c r] eqn:E; [discriminate|]. intros H. apply N.eqb_eq in H. subst c.
    exists (rev r). rewrite <- (rev_involutive p), E. reflexivity.
  - intros [q ->]. rewrite rev_app_distr. reflexivity.
Qed.

Lemma ends_dollar_removelast q : removelast (q ++ [36]) = q.
Proof. apply removelast_last. Qed.

Lemma has_star_spec p : has_star p = true <-> In 42 p.
Proof.
  unfold has_star. rewrite existsb_exists. split.
  - intros [x [Hin H]]. apply N.eqb_eq in H. now subst.
  - intros H. exists 42. split; [assumption | reflexivity].
Qed.

(* ------------------------------------------------------------------ *)
(* 2. the wildcard matcher against a declarative semantics              *)
(* ------------------------------------------------------------------ *)
(* "p matches a prefix of s (all of s when anchored)", every "*" standing for an
   arbitrary, possibly empty, string *)
Inductive wild : str -> bool -> str -> Prop :=
| W_nil_open s : wild [] false s
| W_nil_anch : wild [] true []
| W_lit c p a s : c <> 42 -> wild p a s -> wild (c :: p) a (c :: s)
| W_star p a s1 s2 : wild p a s2 -> wild (42 :: p) a (s1 ++ s2).

Lemma wmatch_star_unfold p a s :
  wmatch (42 :: p) a s = wmatch p a s || match s with [] => false | _ :: s' => wmatch (42 :: p) a s' end.
Proof. destruct s; reflexivity. Qed.

Lemma wmatch_lit_unfold c p a s :
  c <> 42 -> wmatch (c :: p) a s = match s with [] => false | d :: s' => (c =? d) && wmatch p a s' end.
Proof.
  intros H. cbn [wmatch]. destruct (N.eqb_spec c 42) as [E|_]; [contradiction | reflexivity].
Qed.

Lemma wmatch_star_spec p a s :
  wmatch (42 :: p) a s = true <-> exists s1 s2, s = s1 ++ s2 /\ wmatch p a s2 = true.
Proof.
  induction s as [|c s IH]; rewrite wmatch_star_unfold.
  - rewrite orb_false_r. split.
    + intros H. now exists [], [].
    + intros [s1 [s2 [E H]]]. symmetry in E. apply app_eq_nil in E. destruct E as [-> ->]. exact H.
  - rewrite orb_true_iff, IH. split.
    + intros [H | [s1 [s2 [-> H]]]].
      * now exists [], (c :: s).
      * now exists (c :: s1), s2.
    + intros [s1 [s2 [E H]]]. destruct s1 as [|x s1].
      * cbn in E. subst s2. now left.
      * cbn in E. injection E as -> ->. right. now exists s1, s2.
Qed.

Lemma wmatch_spec p a s : wmatch p a s = true <-> wild p a s.
Proof.
  revert s; induction p as [|c p IH]; intros s.
  - cbn [wmatch]. destruct a.
    + destruct s; cbn [is_nil]; split; intros H; try constructor; try discriminate. inversion H.
    + split; [constructor | reflexivity].
  - destruct (N.eq_dec c 42) as [->|Hc].
    + rewrite wmatch_star_spec. split.
      * intros [s1 [s2 [-> H]]]. apply W_star. now apply IH.
      * intros H. inversion H as [| |c' p' a' s' Hne _|p' a' s1 s2 Hw]; subst; [contradiction|].
        exists s1, s2. split; [reflexivity | now apply IH].
    + rewrite (wmatch_lit_unfold _ _ _ _ Hc). destruct s as [|d s].
      * split; [discriminate | intros H; inversion H; subst; contradiction].
      * rewrite andb_true_iff, N.eqb_eq, IH. split.
        -- intros [-> H]. now apply W_lit.
        -- intros H. inversion H; subst; [now split | contradiction].
Qed.

(* ------------------------------------------------------------------ *)
(* 3. first-match semantics                                             *)
(* ------------------------------------------------------------------ *)
Definition is_wild_path (path : str) : Prop := In 42 path \/ exists q, path = q ++ [36].

(* when does one rule line apply to a (decoded) request target *)
Definition rule_matches (path url : str) : Prop :=
  (is_wild_path path /\
     ((exists q, path = q ++ [36] /\ wild q true url) \/
      ((forall q, path <> q ++ [36]) /\ wild path false url)))
  \/ (~ is_wild_path path /\ exists rest, url = path ++ rest).

(* "Disallow:" with an empty path allows everything, "Allow:" with an empty path allows nothing *)
Definition rule_verdict (allow : bool) (path : str) : bool :=
  match path with [] => negb allow | _ => allow end.

Inductive fm_spec (url : str) : list (bool * str) -> bool -> Prop :=
| FM_none : fm_spec url [] true
| FM_hit a p r : rule_matches p url -> fm_spec url ((a, p) :: r) (rule_verdict a p)
| FM_skip a p r v : ~ rule_matches p url -> fm_spec url r v -> fm_spec url ((a, p) :: r) v.

Lemma is_wild_path_dec path : (has_star path || ends_dollar path = true) <-> is_wild_path path.
Proof. unfold is_wild_path. now rewrite orb_true_iff, has_star_spec, ends_dollar_spec. Qed.

Lemma app_last_inj {A} (a b : list A) x y : a ++ [x] = b ++ [y] -> a = b /\ x = y.
Proof. intros H. apply app_inj_tail in H. exact H. Qed.

Lemma eval_rule_some a p url v :
  eval_rule a p url = Some v <-> (rule_matches p url /\ v = rule_verdict a p).
Proof.
  unfold eval_rule, rule_matches.
  destruct (has_star p || ends_dollar p) eqn:Hw.
  - assert (Wp : is_wild_path p) by now apply is_wild_path_dec.
    assert (Hv : rule_verdict a p = a).
    { destruct p as [|c p]; [|reflexivity]. exfalso. destruct Wp as [[]|[q E]]. now destruct q. }
    rewrite Hv.
    destruct (ends_dollar p) eqn:Hd.
    + apply ends_dollar_spec in Hd. destruct Hd as [q ->]. rewrite ends_dollar_removelast.
      destruct (wmatch q true url) eqn:Hm.
      * split.
        -- intros H. injection H as <-. split; [|reflexivity]. left. split; [assumption|]. left. exists q. split; [reflexivity | now apply wmatch_spec].
        -- intros [_ ->]. reflexivity.
      * split; [discriminate|]. intros [[[_ [[q' [E H]] | [Hn _]]] | [Hn _]] _]; exfalso.
        -- apply app_last_inj in E. destruct E as [-> _]. apply wmatch_spec in H. congruence.
        -- now apply (Hn q).
        -- contradiction.
    + assert (Hnd : forall q, p <> q ++ [36]).
      { intros q E. assert (ends_dollar p = true) by (apply ends_dollar_spec; now exists q). congruence. }
      destruct (wmatch p false url) eqn:Hm.
      * split.
        -- intros H. injection H as <-. split; [|reflexivity]. left. split; [assumption|]. right. split; [assumption | now apply wmatch_spec].
        -- intros [_ ->]. reflexivity.
      * split; [discriminate|]. intros [[[_ [[q [E _]] | [_ H]]] | [Hn _]] _]; exfalso.
        -- now apply (Hnd q).
        -- apply wmatch_spec in H. congruence.
        -- contradiction.
  - assert (Wp : ~ is_wild_path p).
    { intros H. apply is_wild_path_dec in H. congruence. }
    destruct (starts_with p url) eqn:Hs.
    + apply starts_with_spec in Hs. split.
      * intros H. split; [right; now split|]. injection H as <-. now destruct p.
      * intros [_ ->]. now destruct p.
    + split; [discriminate|]. intros [[[H _] | [_ H]] _]; [contradiction|].
      apply starts_with_spec in H. congruence.
Qed.

Lemma eval_rule_none a p url : eval_rule a p url = None <-> ~ rule_matches p url.
Proof.
  split.
  - intros H Hm. assert (E : eval_rule a p url = Some (rule_verdict a p)) by (apply eval_rule_some; now split). congruence.
  - intros H. destruct (eval_rule a p url) as [v|] eqn:E; [|reflexivity].
    apply eval_rule_some in E. destruct E as [Hm _]. contradiction.
Qed.

Lemma first_match_spec rules url v : first_match rules url = v <-> fm_spec url rules v.
Proof.
  revert v; induction rules as [|[a p] r IH]; intros v; cbn [first_match].
  - split; [intros <-; constructor | intros H; now inversion H].
  - destruct (eval_rule a p url) as [w|] eqn:E.
    + apply eval_rule_some in E. destruct E as [Hm ->]. split.
      * intros <-. now apply FM_hit.
      * intros H. inversion H; subst; [reflexivity | contradiction].
    + apply eval_rule_none in E. rewrite IH. split.
      * intros H. now apply FM_skip.
      * intros H. inversion H; subst; [contradiction | assumption].
Qed.

(* which record applies: the first, in the order "specific records, then records naming *",
   one of whose names is "*" or occurs (case-insensitively) in the user agent *)
Definition ua_matches (names : list str) (ua : str) : Prop :=
  exists n, In n names /\ (n = [42] \/ exists a b, lower ua = a ++ lower n ++ b).

Inductive allowed_spec (ua url : str) : list ruleset -> bool -> Prop :=
| AS_none : allowed_spec ua url [] true
| AS_hit r rest v : ua_matches (rs_names r) ua -> fm_spec (unquote_path (url_target url)) (rs_rules r) v ->
                    allowed_spec ua url (r :: rest) v
| AS_skip r rest v : ~ ua_matches (rs_names r) ua -> allowed_spec ua url rest v -> allowed_spec ua url (r :: rest) v.

Lemma ua_match_spec names ua : ua_match names ua = true <-> ua_matches names ua.
Proof.
  unfold ua_match, ua_matches, name_matches. rewrite existsb_exists. split.
  - intros [n [Hin H]]. exists n. split; [assumption|]. apply orb_true_iff in H. destruct H as [H|H].
    + left. now apply seqb_eq.
    + right. now apply is_infix_spec.
  - intros [n [Hin H]]. exists n. split; [assumption|]. apply orb_true_iff. destruct H as [->|H].
    + left. apply seqb_refl.
    + right. now apply is_infix_spec.
Qed.

Lemma is_allowed_spec rsets ua url v : is_allowed rsets ua url = v <-> allowed_spec ua url rsets v.
Proof.
  unfold is_allowed. revert v. induction rsets as [|r rest IH]; intros v; cbn [find].
  - split; [intros <-; constructor | intros H; now inversion H].
  - destruct (ua_match (rs_names r) ua) eqn:E.
    + apply ua_match_spec in E. split.
      * intros H. apply AS_hit; [assumption | now apply first_match_spec].
      * intros H. inversion H; subst; [now apply first_match_spec | contradiction].
    + assert (~ ua_matches (rs_names r) ua) by (intros H; apply ua_match_spec in H; congruence).
      rewrite IH. split.
      * intros H1. now apply AS_skip.
      * intros H1. inversion H1; subst; [contradiction | assumption].
Qed.

(* the rule lists the parser builds are never empty (is_url_allowed indexes rules[0]) *)
Lemma flush_cur_nonempty done cur :
  Forall (fun r => rs_rules r <> [] /\ rs_names r <> []) done ->
  Forall (fun r => rs_rules r <> [] /\ rs_names r <> []) (flush_cur done cur).
Proof.
  intros H. unfold flush_cur. destruct cur as [r|]; [|assumption].
  destruct (rs_not_empty r) eqn:E; [|assumption].
  apply Forall_app. split; [assumption|]. constructor; [|constructor].
  unfold rs_not_empty in E. apply andb_true_iff in E. destruct E as [E1 E2].
  destruct (rs_rules r); [discriminate|]. destruct (rs_names r); [discriminate|]. split; discriminate.
Qed.

Lemma parse_line_done_nonempty st raw :
  Forall (fun r => rs_rules r <> [] /\ rs_names r <> []) (ps_done st) ->
  Forall (fun r => rs_rules r <> [] /\ rs_names r <> []) (ps_done (parse_line st raw)).
Proof.
  intros H. unfold parse_line.
  destruct (match strip raw with c :: _ => c =? 35 | [] => false end); [assumption|].
  destruct (strip (cut_at 35 (strip raw))) as [|c l].
  - cbn [ps_done]. now apply flush_cur_nonempty.
  - destruct (find_directive (c :: l)) as [[f d]|]; [|assumption].
    unfold parse_directive. destruct f; try (cbn [ps_done]; assumption).
    destruct (ps_prev_ua st); cbn [ps_done]; [assumption | now apply flush_cur_nonempty].
Qed.

Lemma parse_robots_nonempty body :
  Forall (fun r => rs_rules r <> [] /\ rs_names r <> []) (parse_robots body).
Proof.
  unfold parse_robots.
  assert (H : Forall (fun r => rs_rules r <> [] /\ rs_names r <> [])
                     (ps_done (fold_left parse_line (split_lines body) ps_init))).
  { generalize (split_lines body) as ls. intros ls.
    assert (G : forall st, Forall (fun r => rs_rules r <> [] /\ rs_names r <> []) (ps_done st) ->
                           Forall (fun r => rs_rules r <> [] /\ rs_names r <> []) (ps_done (fold_left parse_line ls st))).
    { induction ls as [|l ls IH]; intros st Hst; cbn [fold_left]; [assumption|].
      apply IH. now apply parse_line_done_nonempty. }
    apply G. constructor. }
  set (st := fold_left parse_line (split_lines body) ps_init) in *.
  pose proof (flush_cur_nonempty (ps_done st) (ps_cur st) H) as F.
  apply Forall_app. split; apply Forall_forall; intros r Hr; apply filter_In in Hr; destruct Hr as [Hr _];
    now apply (proj1 (Forall_forall _ _) F).
Qed.

Lemma parse_robots_blank : parse_robots [] = [].
Proof. reflexivity. Qed.

Lemma blank_allows_all ua url : is_allowed (parse_robots []) ua url = true.
Proof. reflexivity. Qed.

(* ------------------------------------------------------------------ *)
(* 4. pool, status table                                               *)
(* ------------------------------------------------------------------ *)
Lemma origin_eqb_eq a b : origin_eqb a b = true <-> a = b.
Proof.
  destruct a as [s1 h1 p1], b as [s2 h2 p2]. unfold origin_eqb. cbn [o_scheme o_host o_port].
  rewrite !andb_true_iff, !seqb_eq, N.eqb_eq. split.
  - intros [[-> ->] ->]. reflexivity.
  - intros H. injection H as -> -> ->. now repeat split.
Qed.

Lemma origin_eqb_refl a : origin_eqb a a = true.
Proof. now apply origin_eqb_eq. Qed.

Lemma pool_lookup_store p o r o2 :
  pool_lookup (pool_store p o r) o2 = if origin_eqb o o2 then Some r else pool_lookup p o2.
Proof. reflexivity. Qed.

Lemma redirect_status_range s : is_redirect_status s = true -> 301 <= s <= 308.
Proof. unfold is_redirect_status. lia. Qed.

Lemma status_5xx s body : 500 <= s <= 599 -> status_action s body = RAServerError.
Proof. intros H. unfold status_action. destruct ((500 <=? s) && (s <=? 599)) eqn:E; [reflexivity | lia]. Qed.

Lemma status_200 body : status_action 200 body = RAParse body.
Proof. reflexivity. Qed.

Lemma status_other s body : ~ (500 <= s <= 599) -> s <> 200 -> status_action s body = RABlank.
Proof.
  intros H1 H2. unfold status_action. destruct ((500 <=? s) && (s <=? 599)) eqn:E; [lia|].
  destruct (s =? 200) eqn:E2; [lia | reflexivity].
Qed.

Lemma session_final mr n s hl loc body :
  is_redirect_status s = false -> session_step mr n (Resp s hl loc body) = SFinal s body.
Proof. intros H. unfold session_step. now rewrite H. Qed.


(* ------------------------------------------------------------------ *)
(* 5. case analysis of the step functions                              *)
(* ------------------------------------------------------------------ *)
Lemma decide_cases cfg i u cur hop r w ev :
  decide cfg i u cur hop r = (w, ev) ->
  (is_allowed r (c_ua cfg) (u_text cur) = true /\ w = WFetchSend u cur hop /\ ev = []) \/
  (is_allowed r (c_ua cfg) (u_text cur) = false /\ w = WIdle /\ ev = [EvSkipped i u]).
Proof.
  unfold decide, pool_can_fetch. destruct (is_allowed r (c_ua cfg) (u_text cur)); intros H; injection H as <- <-; auto.
Qed.

Inductive check_result (cfg : config) (p : pool) (i : nat) (u cur : url) (hop : bool) : wstate -> list event -> Prop :=
| CR_skip : check_result cfg p i u cur hop WIdle [EvSkipped i u]
| CR_norobots : c_robots cfg = false -> check_result cfg p i u cur hop (WFetchSend u cur hop) []
| CR_allowed r : c_robots cfg = true -> pool_lookup p (u_origin cur) = Some r ->
                 is_allowed r (c_ua cfg) (u_text cur) = true ->
                 check_result cfg p i u cur hop (WFetchSend u cur hop) []
| CR_wait : c_robots cfg = true -> pool_lookup p (u_origin cur) = None ->
            check_result cfg p i u cur hop (WLockWait u cur hop) [].

Lemma on_check_cases cfg p i u cur hop f w ev :
  on_check cfg p i u cur hop f = (w, ev) -> check_result cfg p i u cur hop w ev.
Proof.
  unfold on_check. destruct f; cbn [negb].
  - destruct (c_robots cfg) eqn:R; cbn [negb].
    + destruct (pool_lookup p (u_origin cur)) as [r|] eqn:L.
      * intros D. apply decide_cases in D. destruct D as [[A [-> ->]] | [A [-> ->]]]; [now apply CR_allowed with r | constructor].
      * intros H. injection H as <- <-. now constructor.
    + intros H. injection H as <- <-. now constructor.
  - intros H. injection H as <- <-. constructor.
Qed.

Inductive lock_result (cfg : config) (p : pool) (i : nat) (u cur : url) (hop : bool) : wstate -> list event -> bool -> Prop :=
| LR_skip : lock_result cfg p i u cur hop WIdle [EvSkipped i u] false
| LR_allowed r : pool_lookup p (u_origin cur) = Some r -> is_allowed r (c_ua cfg) (u_text cur) = true ->
                 lock_result cfg p i u cur hop (WFetchSend u cur hop) [] false
| LR_fetch : pool_lookup p (u_origin cur) = None ->
             lock_result cfg p i u cur hop (WRobotsSend u cur hop (robots_url (u_origin cur)) 0) [EvFetchStart i (u_origin cur)] true.

Lemma on_lock_cases cfg p i u cur hop w ev keep :
  on_lock cfg p i u cur hop = (w, ev, keep) -> lock_result cfg p i u cur hop w ev keep.
Proof.
  unfold on_lock. destruct (pool_lookup p (u_origin cur)) as [r|] eqn:L.
  - destruct (decide cfg i u cur hop r) as [w0 ev0] eqn:D. intros H. injection H as <- <- <-.
    apply decide_cases in D. destruct D as [[A [-> ->]] | [A [-> ->]]]; [now apply LR_allowed with r | constructor].
  - intros H. injection H as <- <- <-. now constructor.
Qed.

Inductive resp_result (cfg : config) (p : pool) (i : nat) (u cur : url) (hop : bool) : pool -> wstate -> list event -> bool -> Prop :=
| RR_next t n' : resp_result cfg p i u cur hop p (WRobotsSend u cur hop t n') [] true
| RR_postponed : resp_result cfg p i u cur hop p WIdle [EvPostponed i u] false
| RR_stored_ok rules : is_allowed rules (c_ua cfg) (u_text cur) = true ->
    resp_result cfg p i u cur hop (pool_store p (u_origin cur) rules) (WFetchSend u cur hop) [EvStored i (u_origin cur) rules] false
| RR_stored_no rules : is_allowed rules (c_ua cfg) (u_text cur) = false ->
    resp_result cfg p i u cur hop (pool_store p (u_origin cur) rules) WIdle [EvSkipped i u; EvStored i (u_origin cur) rules] false.

Lemma store_cases cfg p i u cur hop rules p' w ev keep :
  (let '(w0, ev0) := decide cfg i u cur hop rules in
   (pool_store p (u_origin cur) rules, w0, ev0 ++ [EvStored i (u_origin cur) rules], false)) = (p', w, ev, keep) ->
  resp_result cfg p i u cur hop p' w ev keep.
Proof.
  destruct (decide cfg i u cur hop rules) as [w0 ev0] eqn:D. intros H. injection H as <- <- <- <-.
  apply decide_cases in D. destruct D as [[A [-> ->]] | [A [-> ->]]]; now constructor.
Qed.

Lemma on_robots_response_cases cfg p i u cur hop n r p' w ev keep :
  on_robots_response cfg p i u cur hop n r = (p', w, ev, keep) -> resp_result cfg p i u cur hop p' w ev keep.
Proof.
  unfold on_robots_response.
  destruct (session_step (c_max_redirects cfg) n r) as [t n'|st body| |].
  - intros H. injection H as <- <- <- <-. constructor.
  - destruct (status_action st body) as [data| |].
    + apply store_cases.
    + apply store_cases.
    + intros H. injection H as <- <- <- <-. constructor.
  - apply store_cases.
  - intros H. injection H as <- <- <- <-. constructor.
Qed.

Lemma set_worker_same ws i s : set_worker ws i s i = s.
Proof. unfold set_worker. now rewrite Nat.eqb_refl. Qed.

Lemma set_worker_other ws i s j : j <> i -> set_worker ws i s j = ws j.
Proof. intros H. unfold set_worker. destruct (Nat.eqb_spec j i); [contradiction | reflexivity]. Qed.

Lemma lock_set_same l o v : lock_set l o v o = v.
Proof. unfold lock_set. now rewrite origin_eqb_refl. Qed.

Lemma lock_set_other l o v o2 : o2 <> o -> lock_set l o v o2 = l o2.
Proof.
  intros H. unfold lock_set. destruct (origin_eqb o o2) eqn:E; [|reflexivity].
  apply origin_eqb_eq in E. congruence.
Qed.

Lemma pool_lookup_store_same p o r : pool_lookup (pool_store p o r) o = Some r.
Proof. rewrite pool_lookup_store, origin_eqb_refl. reflexivity. Qed.

Lemma pool_lookup_store_other p o r o2 : o2 <> o -> pool_lookup (pool_store p o r) o2 = pool_lookup p o2.
Proof.
  intros H. rewrite pool_lookup_store. destruct (origin_eqb o o2) eqn:E; [|reflexivity].
  apply origin_eqb_eq in E. congruence.
Qed.

Lemma origin_eq_dec (a b : origin) : {a = b} + {a <> b}.
Proof.
  destruct (origin_eqb a b) eqn:E; [left; now apply origin_eqb_eq | right; intros H; apply origin_eqb_eq in H; congruence].
Qed.

(* ------------------------------------------------------------------ *)
(* 6. trace predicates (newest event first) and the invariant           *)
(* ------------------------------------------------------------------ *)
(* P e older: a condition on an event given everything that happened before it *)
Fixpoint trace_all (P : event -> list event -> Prop) (t : list event) : Prop :=
  match t with
  | [] => True
  | e :: t' => P e t' /\ trace_all P t'
  end.

Lemma trace_all_split P t : trace_all P t -> forall t2 e t1, t = t2 ++ e :: t1 -> P e t1.
Proof.
  intros H t2. revert t H. induction t2 as [|x t2 IH]; intros t H e t1 E; subst t.
  - exact (proj1 H).
  - cbn [app trace_all] in H. exact (IH _ (proj2 H) e t1 eq_refl).
Qed.

Definition stored_in (o : origin) (t : list event) : Prop := exists w r, In (EvStored w o r) t.

(* an acquisition for the origin of cur is complete and its rules allow cur *)
Definition cleared (cfg : config) (cur : url) (t : list event) : Prop :=
  exists w r, In (EvStored w (u_origin cur) r) t /\ is_allowed r (c_ua cfg) (u_text cur) = true.

(* the gate: EVERY request of an item's session - the initial one and every redirect hop - is
   preceded by a completed acquisition for the origin of the requested URL whose rules allow it *)
Definition gate_cond (cfg : config) (e : event) (older : list event) : Prop :=
  match e with
  | EvReq _ u cur hop => (hop = false -> cur = u) /\ cleared cfg cur older
  | _ => True
  end.

(* robots.txt is neither requested nor an acquisition begun for an origin whose rules are stored,
   and rules are stored for an origin at most once *)
Definition once_cond (e : event) (older : list event) : Prop :=
  match e with
  | EvRobotsReq _ o _ | EvFetchStart _ o | EvStored _ o _ => ~ stored_in o older
  | _ => True
  end.

(* rules are stored only by a worker that requested robots.txt for that origin; requests of a
   robots.txt session belong to an acquisition begun by that worker *)
Definition acq_cond (e : event) (older : list event) : Prop :=
  match e with
  | EvStored w o _ => exists t, In (EvRobotsReq w o t) older
  | EvRobotsReq w o _ => In (EvFetchStart w o) older
  | _ => True
  end.

Definition acq_of (w : wstate) : option origin :=
  match w with
  | WRobotsSend _ cur _ _ _ | WRobotsWait _ cur _ _ _ => Some (u_origin cur)
  | _ => None
  end.

Definition wcur (w : wstate) : option (url * url * bool) :=
  match w with
  | WIdle => None
  | WCheck u c h | WLockWait u c h | WRobotsSend u c h _ _ | WRobotsWait u c h _ _
  | WFetchSend u c h | WFetchWait u c h => Some (u, c, h)
  end.

Record inv (cfg : config) (s : gstate) : Prop := {
  inv_pool_stored : forall o r, pool_lookup (g_pool s) o = Some r -> exists w, In (EvStored w o r) (g_trace s);
  inv_stored_pool : forall o, stored_in o (g_trace s) -> pool_lookup (g_pool s) o <> None;
  inv_send : c_robots cfg = true -> forall i u cur hop, g_workers s i = WFetchSend u cur hop -> cleared cfg cur (g_trace s);
  inv_hop0 : forall i u cur, wcur (g_workers s i) = Some (u, cur, false) -> cur = u;
  inv_acq_lock : forall i o, acq_of (g_workers s i) = Some o -> g_locks s o = true;
  inv_excl : forall i j o, i <> j -> acq_of (g_workers s i) = Some o -> acq_of (g_workers s j) = Some o -> False;
  inv_acq_pool : forall i o, acq_of (g_workers s i) = Some o -> pool_lookup (g_pool s) o = None;
  inv_acq_started : forall i o, acq_of (g_workers s i) = Some o -> In (EvFetchStart i o) (g_trace s);
  inv_wait : forall i u cur hop t n, g_workers s i = WRobotsWait u cur hop t n ->
             exists t', In (EvRobotsReq i (u_origin cur) t') (g_trace s);
  inv_norobots : c_robots cfg = false -> (forall i, acq_of (g_workers s i) = None) /\
                 (forall i u cur hop, g_workers s i <> WLockWait u cur hop) /\
                 (forall e, In e (g_trace s) -> match e with EvFetchStart _ _ | EvRobotsReq _ _ _ | EvStored _ _ _ => False | _ => True end);
  inv_gate : c_robots cfg = true -> trace_all (gate_cond cfg) (g_trace s);
  inv_once : trace_all once_cond (g_trace s);
  inv_acq : trace_all acq_cond (g_trace s);
}.

Lemma inv_init cfg : inv cfg g_init.
Proof.
  constructor; cbn; try discriminate; try contradiction; auto.
  - intros o [w [r []]].
  - intros _. repeat split; try discriminate. intros e [].
Qed.

Lemma stored_in_app o ev t : stored_in o t -> stored_in o (ev ++ t).
Proof. intros [w [r H]]. exists w, r. apply in_or_app. now right. Qed.

Lemma cleared_app cfg cur ev t : cleared cfg cur t -> cleared cfg cur (ev ++ t).
Proof. intros [w [r [H A]]]. exists w, r. split; [apply in_or_app; now right | assumption]. Qed.

Lemma cleared_cons cfg cur e t : cleared cfg cur t -> cleared cfg cur (e :: t).
Proof. apply (cleared_app cfg cur [e]). Qed.

Lemma not_stored_of_pool_none cfg s o : inv cfg s -> pool_lookup (g_pool s) o = None -> ~ stored_in o (g_trace s).
Proof. intros I H S. now apply (inv_stored_pool _ _ I o S). Qed.

Lemma cleared_of_pool cfg s cur r :
  inv cfg s -> pool_lookup (g_pool s) (u_origin cur) = Some r -> is_allowed r (c_ua cfg) (u_text cur) = true ->
  cleared cfg cur (g_trace s).
Proof. intros I L A. destruct (inv_pool_stored _ _ I _ _ L) as [w H]. now exists w, r. Qed.

(* a stored event for another origin does not count as stored for o *)
Lemma stored_in_cons_other o e t :
  (forall w r, e <> EvStored w o r) -> stored_in o (e :: t) -> stored_in o t.
Proof. intros Hn [w [r [H|H]]]; [exfalso; now apply (Hn w r) | now exists w, r]. Qed.

(* ------------------------------------------------------------------ *)
(* 7. every step preserves the invariant                                *)
(* ------------------------------------------------------------------ *)
Ltac wcase j i :=
  let E := fresh "E" in
  destruct (Nat.eq_dec j i) as [E|E];
  [ subst j; rewrite ?set_worker_same in * | rewrite ?(set_worker_other _ _ _ _ E) in * ].

(* a step that changes only worker i, to a state outside any acquisition, appending events that
   are neither robots events nor requests *)
Definition quiet (e : event) : Prop :=
  match e with EvPostponed _ _ | EvSkipped _ _ => True | _ => False end.

Lemma trace_all_quiet (P : event -> list event -> Prop) ev t :
  (forall e older, quiet e -> P e older) -> Forall quiet ev -> trace_all P t -> trace_all P (ev ++ t).
Proof.
  intros HP F Ht. induction F as [|e ev He F IH]; [assumption|]. cbn [app trace_all]. split; [now apply HP | assumption].
Qed.

Lemma gate_quiet cfg e older : quiet e -> gate_cond cfg e older.
Proof. destruct e; cbn; tauto. Qed.
Lemma once_quiet e older : quiet e -> once_cond e older.
Proof. destruct e; cbn; tauto. Qed.
Lemma acq_quiet e older : quiet e -> acq_cond e older.
Proof. destruct e; cbn; tauto. Qed.

Lemma stored_in_quiet o ev t : Forall quiet ev -> stored_in o (ev ++ t) -> stored_in o t.
Proof.
  intros F [w [r H]]. apply in_app_or in H. destruct H as [H|H]; [|now exists w, r].
  exfalso. rewrite Forall_forall in F. apply F in H. exact H.
Qed.

(* generic: worker i moves to w' (not in an acquisition, not WFetchSend unless cleared), pool and
   locks unchanged, quiet events appended *)
Lemma inv_quiet_step cfg s i w' ev l' :
  inv cfg s ->
  (forall o, l' o = g_locks s o) ->
  acq_of (g_workers s i) = None ->
  acq_of w' = None ->
  Forall quiet ev ->
  (c_robots cfg = true -> forall u cur hop, w' = WFetchSend u cur hop -> cleared cfg cur (g_trace s)) ->
  (forall u cur, wcur w' = Some (u, cur, false) -> cur = u) ->
  (c_robots cfg = false -> forall u cur hop, w' <> WLockWait u cur hop) ->
  inv cfg {| g_pool := g_pool s; g_locks := l'; g_workers := set_worker (g_workers s) i w'; g_trace := ev ++ g_trace s |}.
Proof.
  intros I HL A0 A1 Q Hsend Hhop Hnr.
  constructor; cbn [g_pool g_locks g_workers g_trace].
  - intros o r L. destruct (inv_pool_stored _ _ I _ _ L) as [w H]. exists w. apply in_or_app. now right.
  - intros o S. apply (inv_stored_pool _ _ I). now apply stored_in_quiet with ev.
  - intros R j u cur hop H. wcase j i.
    + apply cleared_app. now apply (Hsend R u cur hop).
    + apply cleared_app. now apply (inv_send _ _ I R j u cur hop).
  - intros j u cur H. wcase j i; [now apply Hhop | now apply (inv_hop0 _ _ I j)].
  - intros j o H. rewrite HL. wcase j i; [congruence | now apply (inv_acq_lock _ _ I j)].
  - intros j k o Hjk Hj Hk. wcase j i; [congruence|]. wcase k i; [congruence|]. now apply (inv_excl _ _ I j k o).
  - intros j o H. wcase j i; [congruence | now apply (inv_acq_pool _ _ I j)].
  - intros j o H. wcase j i; [congruence|]. apply in_or_app. right. now apply (inv_acq_started _ _ I j).
  - intros j u cur hop t n H. wcase j i; [rewrite H in A1; discriminate|].
    destruct (inv_wait _ _ I j u cur hop t n H) as [t' Ht]. exists t'. apply in_or_app. now right.
  - intros R. destruct (inv_norobots _ _ I R) as [N1 [N2 N3]]. repeat split.
    + intros j. wcase j i; [assumption | apply N1].
    + intros j u cur hop. wcase j i; [now apply Hnr | apply N2].
    + intros e He. apply in_app_or in He. destruct He as [He|He]; [|now apply N3].
      rewrite Forall_forall in Q. apply Q in He. destruct e; cbn in He; tauto.
  - intros R. apply trace_all_quiet; [apply gate_quiet | assumption | now apply (inv_gate _ _ I)].
  - apply trace_all_quiet; [apply once_quiet | assumption | apply (inv_once _ _ I)].
  - apply trace_all_quiet; [apply acq_quiet | assumption | apply (inv_acq _ _ I)].
Qed.

Lemma lock_set_noop l o v : l o = v -> forall o2, lock_set l o v o2 = l o2.
Proof.
  intros H o2. destruct (origin_eq_dec o2 o) as [->|N]; [now rewrite lock_set_same | now apply lock_set_other].
Qed.

(* (B) the lock is taken and an acquisition begins *)
Lemma inv_fetch_start cfg s i u cur hop :
  inv cfg s -> c_robots cfg = true ->
  g_workers s i = WLockWait u cur hop ->
  g_locks s (u_origin cur) = false ->
  pool_lookup (g_pool s) (u_origin cur) = None ->
  inv cfg {| g_pool := g_pool s; g_locks := lock_set (g_locks s) (u_origin cur) true;
             g_workers := set_worker (g_workers s) i (WRobotsSend u cur hop (robots_url (u_origin cur)) 0);
             g_trace := [EvFetchStart i (u_origin cur)] ++ g_trace s |}.
Proof.
  intros I R W L P. set (o := u_origin cur) in *.
  assert (Free : forall j, acq_of (g_workers s j) <> Some o).
  { intros j H. apply (inv_acq_lock _ _ I) in H. congruence. }
  constructor; cbn [g_pool g_locks g_workers g_trace app].
  - intros o' r H. destruct (inv_pool_stored _ _ I _ _ H) as [w Hw]. exists w. now right.
  - intros o' S. apply (inv_stored_pool _ _ I). apply stored_in_cons_other in S; [assumption | discriminate].
  - intros _ j u' cur' hop' H. wcase j i; [discriminate|]. apply cleared_cons. now apply (inv_send _ _ I R j u' cur' hop').
  - intros j u' cur' H. wcase j i.
    + cbn [wcur] in H. injection H as <- <- ->. apply (inv_hop0 _ _ I i). now rewrite W.
    + now apply (inv_hop0 _ _ I j).
  - intros j o' H. wcase j i.
    + cbn [acq_of] in H. injection H as <-. apply lock_set_same.
    + destruct (origin_eq_dec o' o) as [->|N]; [apply lock_set_same|]. rewrite lock_set_other by assumption.
      now apply (inv_acq_lock _ _ I j).
  - intros j k o' Hjk Hj Hk. wcase j i.
    + cbn [acq_of] in Hj. injection Hj as <-. wcase k i; [congruence | now apply (Free k)].
    + wcase k i; [cbn [acq_of] in Hk; injection Hk as <-; now apply (Free j) | now apply (inv_excl _ _ I j k o')].
  - intros j o' H. wcase j i; [cbn [acq_of] in H; now injection H as <- | now apply (inv_acq_pool _ _ I j)].
  - intros j o' H. wcase j i; [cbn [acq_of] in H; injection H as <-; now left | right; now apply (inv_acq_started _ _ I j)].
  - intros j u' cur' hop' t n H. wcase j i; [discriminate|].
    destruct (inv_wait _ _ I j _ _ _ _ _ H) as [t' Ht]. exists t'. now right.
  - congruence.
  - intros _. split; [exact Logic.I | now apply (inv_gate _ _ I)].
  - split; [|apply (inv_once _ _ I)]. cbn [once_cond]. now apply (not_stored_of_pool_none cfg).
  - split; [exact Logic.I | apply (inv_acq _ _ I)].
Qed.

(* (C)/(D) the acquisition goes on: a request of the robots.txt session is sent / a redirect is followed *)
Lemma inv_acq_continue cfg s i w' ev l' u cur hop :
  inv cfg s ->
  (forall o, l' o = g_locks s o) ->
  wcur (g_workers s i) = Some (u, cur, hop) -> acq_of (g_workers s i) = Some (u_origin cur) ->
  wcur w' = Some (u, cur, hop) -> acq_of w' = Some (u_origin cur) ->
  ((ev = [] /\ exists t n, w' = WRobotsSend u cur hop t n) \/
   (exists t n, ev = [EvRobotsReq i (u_origin cur) t] /\ w' = WRobotsWait u cur hop t n)) ->
  inv cfg {| g_pool := g_pool s; g_locks := l'; g_workers := set_worker (g_workers s) i w'; g_trace := ev ++ g_trace s |}.
Proof.
  intros I HL C0 A0 C1 A1 Hev. set (o := u_origin cur) in *.
  assert (Q : forall e, In e ev -> exists t, e = EvRobotsReq i o t).
  { intros e He. destruct Hev as [[-> _]|[t [n [-> _]]]]; [destruct He|]. destruct He as [<-|[]]. now exists t. }
  assert (NS : forall o', stored_in o' (ev ++ g_trace s) -> stored_in o' (g_trace s)).
  { intros o' [w [r H]]. apply in_app_or in H. destruct H as [H|H]; [|now exists w, r].
    apply Q in H. destruct H as [t H]. discriminate. }
  constructor; cbn [g_pool g_locks g_workers g_trace].
  - intros o' r H. destruct (inv_pool_stored _ _ I _ _ H) as [w Hw]. exists w. apply in_or_app. now right.
  - intros o' S. apply (inv_stored_pool _ _ I). now apply NS.
  - intros R j u' cur' hop' H. wcase j i.
    + rewrite H in A1. discriminate.
    + apply cleared_app. now apply (inv_send _ _ I R j u' cur' hop').
  - intros j u' cur' H. wcase j i.
    + rewrite C1 in H. injection H as <- <- ->. apply (inv_hop0 _ _ I i). exact C0.
    + now apply (inv_hop0 _ _ I j).
  - intros j o' H. rewrite HL. wcase j i.
    + rewrite A1 in H. injection H as <-. now apply (inv_acq_lock _ _ I i).
    + now apply (inv_acq_lock _ _ I j).
  - intros j k o' Hjk Hj Hk. wcase j i.
    + rewrite A1 in Hj. injection Hj as <-. wcase k i; [congruence|]. now apply (inv_excl _ _ I i k o).
    + wcase k i; [|now apply (inv_excl _ _ I j k o')].
      rewrite A1 in Hk. injection Hk as <-. now apply (inv_excl _ _ I j i o).
  - intros j o' H. wcase j i; [|now apply (inv_acq_pool _ _ I j)].
    rewrite A1 in H. injection H as <-. now apply (inv_acq_pool _ _ I i).
  - intros j o' H. apply in_or_app. right. wcase j i; [|now apply (inv_acq_started _ _ I j)].
    rewrite A1 in H. injection H as <-. now apply (inv_acq_started _ _ I i).
  - intros j u' cur' hop' t n H. wcase j i.
    + destruct Hev as [[_ [t0 [n0 Hw]]]|[t0 [n0 [-> Hw]]]]; rewrite Hw in H; [discriminate|].
      injection H as <- <- <- <- <-. exists t0. now left.
    + destruct (inv_wait _ _ I j _ _ _ _ _ H) as [t' Ht]. exists t'. apply in_or_app. now right.
  - intros R. exfalso. destruct (inv_norobots _ _ I R) as [N1 _]. specialize (N1 i). congruence.
  - intros R. destruct Hev as [[-> _]|[t [n [-> _]]]]; cbn [app trace_all]; [now apply (inv_gate _ _ I)|].
    split; [exact Logic.I | now apply (inv_gate _ _ I)].
  - destruct Hev as [[-> _]|[t [n [-> _]]]]; cbn [app trace_all]; [apply (inv_once _ _ I)|].
    split; [|apply (inv_once _ _ I)]. cbn [once_cond]. apply (not_stored_of_pool_none cfg); [assumption|].
    now apply (inv_acq_pool _ _ I i).
  - destruct Hev as [[-> _]|[t [n [-> _]]]]; cbn [app trace_all]; [apply (inv_acq _ _ I)|].
    split; [|apply (inv_acq _ _ I)]. cbn [acq_cond]. now apply (inv_acq_started _ _ I i).
Qed.

(* (E)/(F) the acquisition ends: the lock is released; either nothing is stored and the item is
   postponed, or rules are stored and the verdict is taken from them in the same step *)
Lemma inv_acq_end cfg s i u cur hop t n p' w' ev :
  inv cfg s ->
  g_workers s i = WRobotsWait u cur hop t n ->
  ((p' = g_pool s /\ w' = WIdle /\ ev = [EvPostponed i u]) \/
   (exists rules ev0, p' = pool_store (g_pool s) (u_origin cur) rules /\ ev = ev0 ++ [EvStored i (u_origin cur) rules] /\
      ((is_allowed rules (c_ua cfg) (u_text cur) = true /\ w' = WFetchSend u cur hop /\ ev0 = []) \/
       (w' = WIdle /\ ev0 = [EvSkipped i u])))) ->
  inv cfg {| g_pool := p'; g_locks := lock_set (g_locks s) (u_origin cur) false;
             g_workers := set_worker (g_workers s) i w'; g_trace := ev ++ g_trace s |}.
Proof.
  intros I W Hcase. set (o := u_origin cur) in *.
  assert (A0 : acq_of (g_workers s i) = Some o) by now rewrite W.
  assert (A1 : acq_of w' = None).
  { destruct Hcase as [[_ [-> _]]|[rules [ev0 [_ [_ [[_ [-> _]]|[-> _]]]]]]]; reflexivity. }
  assert (Other : forall j o', j <> i -> acq_of (g_workers s j) = Some o' -> o' <> o).
  { intros j o' Hj H ->. now apply (inv_excl _ _ I j i o). }
  assert (Old : forall e, In e (g_trace s) -> In e (ev ++ g_trace s)) by (intros e He; apply in_or_app; now right).
  assert (Hp : forall o', o' <> o -> pool_lookup p' o' = pool_lookup (g_pool s) o').
  { intros o' N. destruct Hcase as [[-> _]|[rules [ev0 [-> _]]]]; [reflexivity | now apply pool_lookup_store_other]. }
  assert (Hs : forall o', o' <> o -> stored_in o' (ev ++ g_trace s) -> stored_in o' (g_trace s)).
  { intros o' N [w [r H]]. apply in_app_or in H. destruct H as [H|H]; [exfalso | now exists w, r].
    destruct Hcase as [[_ [_ ->]]|[rules [ev0 [_ [-> Hc]]]]].
    - destruct H as [H|[]]. discriminate.
    - apply in_app_or in H. destruct H as [H|[H|[]]].
      + destruct Hc as [[_ [_ ->]]|[_ ->]]; [destruct H | destruct H as [H|[]]; discriminate].
      + injection H as _ E _. congruence. }
  constructor; cbn [g_pool g_locks g_workers g_trace].
  - intros o' r H. destruct (origin_eq_dec o' o) as [->|N].
    + destruct Hcase as [[-> _]|[rules [ev0 [-> [-> _]]]]].
      * rewrite (inv_acq_pool _ _ I i o A0) in H. discriminate.
      * rewrite pool_lookup_store_same in H. injection H as <-. exists i. apply in_or_app. left. apply in_or_app. right. now left.
    + rewrite (Hp o' N) in H. destruct (inv_pool_stored _ _ I _ _ H) as [w Hw]. exists w. now apply Old.
  - intros o' S. destruct (origin_eq_dec o' o) as [->|N].
    + destruct Hcase as [[_ [_ ->]]|[rules [ev0 [-> _]]]].
      * exfalso. apply stored_in_cons_other in S; [|discriminate].
        now apply (not_stored_of_pool_none cfg s o I (inv_acq_pool _ _ I i o A0)).
      * rewrite pool_lookup_store_same. discriminate.
    + rewrite (Hp o' N). apply (inv_stored_pool _ _ I). now apply Hs.
  - intros R j u' cur' hop' H. wcase j i.
    + destruct Hcase as [[_ [-> _]]|[rules [ev0 [_ [-> [[Al [-> _]]|[-> _]]]]]]]; try discriminate.
      injection H as <- <- <-. exists i, rules. split; [|assumption]. apply in_or_app. left. apply in_or_app. right. now left.
    + apply cleared_app. now apply (inv_send _ _ I R j u' cur' hop').
  - intros j u' cur' H. wcase j i; [|now apply (inv_hop0 _ _ I j)].
    destruct Hcase as [[_ [-> _]]|[rules [ev0 [_ [_ [[_ [-> _]]|[-> _]]]]]]]; try discriminate.
    cbn [wcur] in H. injection H as <- <- ->. apply (inv_hop0 _ _ I i). now rewrite W.
  - intros j o' H. wcase j i; [congruence|].
    rewrite lock_set_other by now apply (Other j). now apply (inv_acq_lock _ _ I j).
  - intros j k o' Hjk Hj Hk. wcase j i; [congruence|]. wcase k i; [congruence|]. now apply (inv_excl _ _ I j k o').
  - intros j o' H. wcase j i; [congruence|]. rewrite Hp by now apply (Other j). now apply (inv_acq_pool _ _ I j).
  - intros j o' H. wcase j i; [congruence|]. apply Old. now apply (inv_acq_started _ _ I j).
  - intros j u' cur' hop' t' n' H. wcase j i; [rewrite H in A1; discriminate|].
    destruct (inv_wait _ _ I j _ _ _ _ _ H) as [t'' Ht]. exists t''. now apply Old.
  - intros R. exfalso. destruct (inv_norobots _ _ I R) as [N1 _]. specialize (N1 i). congruence.
  - intros R. destruct Hcase as [[_ [_ ->]]|[rules [ev0 [_ [-> Hc]]]]].
    + split; [exact Logic.I | now apply (inv_gate _ _ I)].
    + rewrite <- app_assoc. cbn [app].
      destruct Hc as [[_ [_ ->]]|[_ ->]]; cbn [app trace_all gate_cond]; repeat split; now apply (inv_gate _ _ I).
  - destruct Hcase as [[_ [_ ->]]|[rules [ev0 [_ [-> Hc]]]]].
    + split; [exact Logic.I | apply (inv_once _ _ I)].
    + rewrite <- app_assoc. cbn [app].
      assert (NS : ~ stored_in o (g_trace s)) by exact (not_stored_of_pool_none cfg s o I (inv_acq_pool _ _ I i o A0)).
      destruct Hc as [[_ [_ ->]]|[_ ->]]; cbn [app trace_all once_cond]; repeat split; try assumption; apply (inv_once _ _ I).
  - destruct Hcase as [[_ [_ ->]]|[rules [ev0 [_ [-> Hc]]]]].
    + split; [exact Logic.I | apply (inv_acq _ _ I)].
    + rewrite <- app_assoc. cbn [app].
      destruct Hc as [[_ [_ ->]]|[_ ->]]; cbn [app trace_all acq_cond]; repeat split;
        try apply (inv_acq _ _ I); now apply (inv_wait _ _ I i u cur hop t n W).
Qed.

(* (G) the request for cur goes on the wire *)
Lemma inv_fetch_send cfg s i u cur hop :
  inv cfg s ->
  g_workers s i = WFetchSend u cur hop ->
  inv cfg {| g_pool := g_pool s; g_locks := g_locks s;
             g_workers := set_worker (g_workers s) i (WFetchWait u cur hop);
             g_trace := EvReq i u cur hop :: g_trace s |}.
Proof.
  intros I W.
  constructor; cbn [g_pool g_locks g_workers g_trace].
  - intros o r H. destruct (inv_pool_stored _ _ I _ _ H) as [w Hw]. exists w. now right.
  - intros o S. apply (inv_stored_pool _ _ I). apply stored_in_cons_other in S; [assumption | discriminate].
  - intros R j u' cur' hop' H. wcase j i; [discriminate|]. apply cleared_cons. now apply (inv_send _ _ I R j u' cur' hop').
  - intros j u' cur' H. wcase j i; [|now apply (inv_hop0 _ _ I j)].
    cbn [wcur] in H. injection H as <- <- ->. apply (inv_hop0 _ _ I i). now rewrite W.
  - intros j o H. wcase j i; [discriminate | now apply (inv_acq_lock _ _ I j)].
  - intros j k o Hjk Hj Hk. wcase j i; [discriminate|]. wcase k i; [discriminate|]. now apply (inv_excl _ _ I j k o).
  - intros j o H. wcase j i; [discriminate | now apply (inv_acq_pool _ _ I j)].
  - intros j o H. wcase j i; [discriminate|]. right. now apply (inv_acq_started _ _ I j).
  - intros j u' cur' hop' t n H. wcase j i; [discriminate|].
    destruct (inv_wait _ _ I j _ _ _ _ _ H) as [t' Ht]. exists t'. now right.
  - intros R. destruct (inv_norobots _ _ I R) as [N1 [N2 N3]]. repeat split.
    + intros j. wcase j i; [reflexivity | apply N1].
    + intros j u' cur' hop'. wcase j i; [discriminate | apply N2].
    + intros e [<-|He]; [exact Logic.I | now apply N3].
  - intros R. split; [|now apply (inv_gate _ _ I)]. cbn [gate_cond]. split.
    + intros ->. apply (inv_hop0 _ _ I i). now rewrite W.
    + now apply (inv_send _ _ I R i u cur hop).
  - split; [exact Logic.I | apply (inv_once _ _ I)].
  - split; [exact Logic.I | apply (inv_acq _ _ I)].
Qed.

Ltac fin W :=
  try solve [ now auto | now rewrite W | intros; discriminate | now repeat constructor
            | intros; match goal with H : wcur _ = _ |- _ => cbn [wcur] in H; discriminate end
            | intros; match goal with r : fetch_reply |- _ => destruct r; discriminate end ].

Lemma inv_step cfg s s' : inv cfg s -> gstep cfg s s' -> inv cfg s'.
Proof.
  intros I St. destruct St as
    [s i u Hi W | s i u cur hop f w' ev Hi W C | s i u cur hop w' ev keep Hi W L C | s i u cur hop t n Hi W
    | s i u cur hop t n r p' w' ev keep Hi W C | s i u cur hop sub_ok Hi W | s i u cur hop reply Hi W].
  - (* pick *)
    apply (inv_quiet_step cfg s i (WCheck u u false) [] (g_locks s)); fin W.
    intros u' cur' H. cbn [wcur] in H. now injection H as <- <-.
  - (* check *)
    apply on_check_cases in C.
    assert (Hh : forall w, wcur w = Some (u, cur, hop) -> forall u' cur', wcur w = Some (u', cur', false) -> cur' = u').
    { intros w Hw u' cur' H. rewrite Hw in H. injection H as <- <- ->. apply (inv_hop0 _ _ I i). now rewrite W. }
    destruct C as [| R | r R Lk A | R Lk];
      apply (inv_quiet_step cfg s i _ _ (g_locks s)); fin W; try (now apply Hh); try congruence.
    intros _ u' cur' hop' H. injection H as <- <- <-. now apply (cleared_of_pool cfg s cur r).
  - (* lock *)
    apply on_lock_cases in C.
    assert (R : c_robots cfg = true).
    { destruct (c_robots cfg) eqn:R; [reflexivity|]. destruct (inv_norobots _ _ I R) as [_ [N2 _]]. exfalso. now apply (N2 i u cur hop). }
    assert (Hh : forall w, wcur w = Some (u, cur, hop) -> forall u' cur', wcur w = Some (u', cur', false) -> cur' = u').
    { intros w Hw u' cur' H. rewrite Hw in H. injection H as <- <- ->. apply (inv_hop0 _ _ I i). now rewrite W. }
    destruct C as [| r Lk A | Lk].
    + apply (inv_quiet_step cfg s i WIdle _ _); fin W. now apply lock_set_noop.
    + apply (inv_quiet_step cfg s i (WFetchSend u cur hop) [] _); fin W; try (now apply Hh).
      * now apply lock_set_noop.
      * intros _ u' cur' hop' H. injection H as <- <- <-. now apply (cleared_of_pool cfg s cur r).
    + now apply inv_fetch_start.
  - (* robots send *)
    apply (inv_acq_continue cfg s i _ [EvRobotsReq i (u_origin cur) t] (g_locks s) u cur hop); fin W.
    right. now exists t, n.
  - (* robots response *)
    apply on_robots_response_cases in C. destruct C as [t' n' | | rules A | rules A].
    + apply (inv_acq_continue cfg s i _ [] _ u cur hop); fin W.
      * apply lock_set_noop. apply (inv_acq_lock _ _ I i). now rewrite W.
      * left. split; [reflexivity | now exists t', n'].
    + apply (inv_acq_end cfg s i u cur hop t n); try assumption. now left.
    + apply (inv_acq_end cfg s i u cur hop t n); try assumption. right. exists rules, []. repeat split. left. now repeat split.
    + apply (inv_acq_end cfg s i u cur hop t n); try assumption. right. exists rules, [EvSkipped i u]. repeat split. right. now split.
  - (* fetch send *)
    destruct sub_ok; [now apply inv_fetch_send|].
    apply (inv_quiet_step cfg s i WIdle _ (g_locks s)); fin W.
  - (* fetch response *)
    change (g_trace s) with ([] ++ g_trace s).
    apply (inv_quiet_step cfg s i _ [] (g_locks s)); fin W.
    now destruct reply.
Qed.

Theorem inv_reachable cfg s : reachable cfg s -> inv cfg s.
Proof. induction 1 as [|s s' _ IH St]; [apply inv_init | now apply (inv_step cfg s)]. Qed.

(* ------------------------------------------------------------------ *)
(* 8. the property theorems over every reachable state                  *)
(* ------------------------------------------------------------------ *)
Lemma in_split_trace (e : event) t : In e t -> exists a b, t = a ++ e :: b.
Proof. apply in_split. Qed.

(* no disallowed URL is requested, and robots.txt of the origin is obtained first: every request of
   an item's session (initial or redirect hop) comes after rules for the origin of the requested
   URL were stored - by a worker that had requested robots.txt for that origin before - and
   those rules allow the URL *)
Theorem gate cfg s :
  c_robots cfg = true -> reachable cfg s ->
  forall t2 w u cur hop t1, g_trace s = t2 ++ EvReq w u cur hop :: t1 ->
    (hop = false -> cur = u) /\
    exists w' r t0,
      In (EvStored w' (u_origin cur) r) t1 /\ is_allowed r (c_ua cfg) (u_text cur) = true /\
      In (EvRobotsReq w' (u_origin cur) t0) t1.
Proof.
  intros R Hr t2 w u cur hop t1 E. pose proof (inv_reachable _ _ Hr) as I.
  pose proof (trace_all_split _ _ (inv_gate _ _ I R) _ _ _ E) as G. cbn [gate_cond] in G.
  destruct G as [G1 [w' [r [Hin A]]]]. split; [assumption|].
  destruct (in_split _ _ Hin) as [a [b Eb]].
  assert (E2 : g_trace s = (t2 ++ EvReq w u cur hop :: a) ++ EvStored w' (u_origin cur) r :: b).
  { rewrite E, Eb, <- app_assoc. reflexivity. }
  pose proof (trace_all_split _ _ (inv_acq _ _ I) _ _ _ E2) as [t0 Ht0]. 
  exists w', r, t0. repeat split; try assumption. rewrite Eb. apply in_or_app. right. now right.
Qed.

(* the rules of an origin are stored at most once, so "the rules" is well defined *)
Theorem stored_once cfg s :
  reachable cfg s ->
  forall t2 w o r t1, g_trace s = t2 ++ EvStored w o r :: t1 -> forall w' r', ~ In (EvStored w' o r') t1.
Proof.
  intros Hr t2 w o r t1 E w' r' Hin. pose proof (inv_reachable _ _ Hr) as I.
  pose proof (trace_all_split _ _ (inv_once _ _ I) _ _ _ E) as G. cbn [once_cond] in G. apply G. now exists w', r'.
Qed.

(* not requested again once obtained: after rules are stored for an origin no robots.txt
   acquisition for it begins and no request of a robots.txt session for it is sent *)
Theorem once_per_origin cfg s :
  reachable cfg s ->
  forall t2 e t1 w o, g_trace s = t2 ++ e :: t1 ->
    (e = EvFetchStart w o \/ exists t, e = EvRobotsReq w o t) ->
    forall w' r, ~ In (EvStored w' o r) t1.
Proof.
  intros Hr t2 e t1 w o E He w' r Hin. pose proof (inv_reachable _ _ Hr) as I.
  pose proof (trace_all_split _ _ (inv_once _ _ I) _ _ _ E) as G.
  destruct He as [->|[t ->]]; cbn [once_cond] in G; apply G; now exists w', r.
Qed.

(* at most one acquisition per origin is in progress, whatever the number of workers *)
Theorem one_acquisition_at_a_time cfg s :
  reachable cfg s -> forall i j o, i <> j -> acq_of (g_workers s i) = Some o -> acq_of (g_workers s j) = Some o -> False.
Proof. intros Hr. exact (inv_excl _ _ (inv_reachable _ _ Hr)). Qed.

(* every request of a robots.txt session belongs to an acquisition its worker began *)
Theorem robots_request_in_acquisition cfg s :
  reachable cfg s ->
  forall t2 w o t t1, g_trace s = t2 ++ EvRobotsReq w o t :: t1 -> In (EvFetchStart w o) t1.
Proof.
  intros Hr t2 w o t t1 E. pose proof (inv_reachable _ _ Hr) as I.
  exact (trace_all_split _ _ (inv_acq _ _ I) _ _ _ E).
Qed.

(* an origin whose robots.txt was never obtained (5xx / network errors every time) has none of its URLs requested *)
Theorem never_obtained_never_requested cfg s o :
  c_robots cfg = true -> reachable cfg s ->
  (forall w r, ~ In (EvStored w o r) (g_trace s)) ->
  forall w u cur hop, u_origin cur = o -> ~ In (EvReq w u cur hop) (g_trace s).
Proof.
  intros R Hr Hn w u cur hop <- Hin. destruct (in_split _ _ Hin) as [a [b E]].
  destruct (gate cfg s R Hr _ _ _ _ _ _ E) as [_ [w' [r [t0 [Hs _]]]]].
  apply (Hn w' r). rewrite E. apply in_or_app. right. now right.
Qed.

(* with robots off the machinery is inert *)
Theorem robots_off_no_robots_traffic cfg s :
  c_robots cfg = false -> reachable cfg s ->
  forall e, In e (g_trace s) -> match e with EvFetchStart _ _ | EvRobotsReq _ _ _ | EvStored _ _ _ => False | _ => True end.
Proof. intros R Hr. exact (proj2 (proj2 (inv_norobots _ _ (inv_reachable _ _ Hr) R))). Qed.

(* the headline: whatever rules are (ever) stored for the origin of a requested URL allow that URL *)
Theorem no_disallowed_request cfg s :
  c_robots cfg = true -> reachable cfg s ->
  forall w u cur hop, In (EvReq w u cur hop) (g_trace s) ->
  (exists w' r, In (EvStored w' (u_origin cur) r) (g_trace s)) /\
  forall w' r, In (EvStored w' (u_origin cur) r) (g_trace s) -> is_allowed r (c_ua cfg) (u_text cur) = true.
Proof.
  intros R Hr w u cur hop Hin. destruct (in_split _ _ Hin) as [t2 [t1 E]].
  destruct (gate cfg s R Hr _ _ _ _ _ _ E) as [_ [w0 [r0 [t0 [H0 [A0 _]]]]]].
  assert (H0' : In (EvStored w0 (u_origin cur) r0) (g_trace s)).
  { rewrite E. apply in_or_app. right. now right. }
  split; [now exists w0, r0|].
  intros w' r H.
  destruct (in_split _ _ H0') as [x [y Exy]].
  rewrite Exy in H. apply in_app_or in H. destruct H as [H|[H|H]].
  - (* the other store is newer: then ours is in its past *)
    exfalso. destruct (in_split _ _ H) as [x1 [x2 Ex]].
    assert (E2 : g_trace s = x1 ++ EvStored w' (u_origin cur) r :: (x2 ++ EvStored w0 (u_origin cur) r0 :: y)).
    { rewrite Exy, Ex, <- app_assoc. reflexivity. }
    apply (stored_once cfg s Hr _ _ _ _ _ E2 w0 r0). apply in_or_app. right. now left.
  - injection H as _ <-. exact A0.
  - exfalso. apply (stored_once cfg s Hr _ _ _ _ _ Exy w' r H).
Qed.

(* ------------------------------------------------------------------ *)
(* 9. the step function used to replay observed runs                    *)
(* ------------------------------------------------------------------ *)
Lemma step_fun_sound cfg s l s' : step_fun cfg s l = Some s' -> gstep cfg s s'.
Proof.
  destruct l as [i u|i f|i|i|i r|i sub_ok|i reply]; cbn [step_fun];
    (destruct (Nat.ltb i (c_workers cfg)) eqn:Lt; cbn [negb]; [apply Nat.ltb_lt in Lt | discriminate]);
    destruct (g_workers s i) eqn:W; try discriminate.
  - intros H. injection H as <-. now apply StepPick.
  - destruct (on_check cfg (g_pool s) i item cur hop f) as [w' ev] eqn:C. intros H. injection H as <-.
    now apply StepCheck with (u := item) (cur := cur) (hop := hop) (filters_ok := f).
  - destruct (g_locks s (u_origin cur)) eqn:L; [discriminate|].
    destruct (on_lock cfg (g_pool s) i item cur hop) as [[w' ev] keep] eqn:C. intros H. injection H as <-.
    now apply StepLock with (u := item) (cur := cur) (hop := hop).
  - intros H. injection H as <-. now apply StepRobotsSend with (u := item) (cur := cur) (hop := hop) (t := target) (n := n).
  - destruct (on_robots_response cfg (g_pool s) i item cur hop n r) as [[[p' w'] ev] keep] eqn:C. intros H. injection H as <-.
    now apply StepRobotsResp with (u := item) (cur := cur) (hop := hop) (t := target) (n := n) (r := r).
  - intros H. injection H as <-. now apply StepFetchSend with (u := item) (cur := cur) (hop := hop) (sub_ok := sub_ok).
  - intros H. injection H as <-. now apply StepFetchResp with (u := item) (cur := cur) (hop := hop).
Qed.

Lemma run_labels_reachable cfg ls : forall s s', reachable cfg s -> run_labels cfg s ls = Some s' -> reachable cfg s'.
Proof.
  induction ls as [|l ls IH]; intros s s' Hr; cbn [run_labels].
  - intros H. now injection H as <-.
  - destruct (step_fun cfg s l) as [s1|] eqn:E; [|discriminate]. intros H.
    apply (IH s1 s'); [|assumption]. apply ReachStep with s; [assumption | now apply (step_fun_sound cfg s l)].
Qed.

(* ------------------------------------------------------------------ *)
(* 10. status table, whole file, 5xx visits, nofollow                   *)
(* ------------------------------------------------------------------ *)
(* what a FINAL (non-redirect) robots.txt response does to the pool, the lock and the item *)
Lemma final_response_table cfg p i u cur hop n s hl loc body :
  is_redirect_status s = false ->
  on_robots_response cfg p i u cur hop n (Resp s hl loc body) =
    if (500 <=? s) && (s <=? 599) then (p, WIdle, [EvPostponed i u], false)
    else let rules := if s =? 200 then parse_robots body else [] in
         let '(w, ev) := decide cfg i u cur hop rules in
         (pool_store p (u_origin cur) rules, w, ev ++ [EvStored i (u_origin cur) rules], false).
Proof.
  intros H. unfold on_robots_response. rewrite (session_final _ _ _ _ _ _ H). unfold status_action.
  destruct ((500 <=? s) && (s <=? 599)); [reflexivity|]. destruct (s =? 200); reflexivity.
Qed.

Lemma missing_allows cfg p i u cur hop n s hl loc body :
  is_redirect_status s = false -> ~ (500 <= s <= 599) -> s <> 200 ->
  on_robots_response cfg p i u cur hop n (Resp s hl loc body) =
    (pool_store p (u_origin cur) [], WFetchSend u cur hop, [EvStored i (u_origin cur) []], false)
  /\ forall ua url, is_allowed [] ua url = true.
Proof.
  intros H1 H2 H3. split; [|reflexivity]. rewrite (final_response_table _ _ _ _ _ _ _ _ _ _ _ H1).
  destruct ((500 <=? s) && (s <=? 599)) eqn:E; [lia|]. destruct (s =? 200) eqn:E2; [lia|]. reflexivity.
Qed.

(* a 5xx answer stores nothing, releases the lock, sends nothing for the item and hands the item to
   handle_error (status error, try count + 1) *)
Lemma server_error_postpones cfg p i u cur hop n s hl loc body :
  500 <= s <= 599 ->
  on_robots_response cfg p i u cur hop n (Resp s hl loc body) = (p, WIdle, [EvPostponed i u], false).
Proof.
  intros H. assert (R : is_redirect_status s = false) by (unfold is_redirect_status; lia).
  rewrite (final_response_table _ _ _ _ _ _ _ _ _ _ _ R).
  destruct ((500 <=? s) && (s <=? 599)) eqn:E; [reflexivity | lia].
Qed.

(* as long as robots.txt answers 5xx an item is visited exactly [tries] times - one acquisition
   attempt each, never a request for its URL - and then skipped with try count tries + 1 *)
Lemma visits_5xx_run tries d : forall k st a fuel,
  (0 < tries)%nat -> (k + d = tries)%nat -> (st = StTodo \/ st = StError) -> (d + 1 < fuel)%nat ->
  visits_5xx fuel tries {| it_status := st; it_tries := k |} a = ({| it_status := StSkipped; it_tries := S tries |}, (a + d)%nat).
Proof.
  induction d as [|d IH]; intros k st a fuel Ht Hk Hst Hf.
  - destruct fuel as [|[|fuel]]; try lia. cbn [visits_5xx it_status].
    assert (E : visit_5xx tries {| it_status := st; it_tries := k |} = ({| it_status := StSkipped; it_tries := S k |}, 0, 0)%nat).
    { unfold visit_5xx. cbn [it_tries]. destruct (Nat.eqb_spec tries 0); [lia|]. destruct (Nat.ltb_spec k tries); [lia|]. reflexivity. }
    destruct Hst as [-> | ->]; rewrite E; cbn [visits_5xx it_status]; repeat f_equal; lia.
  - destruct fuel as [|fuel]; [lia|]. cbn [visits_5xx it_status].
    assert (E : visit_5xx tries {| it_status := st; it_tries := k |} = ({| it_status := StError; it_tries := S k |}, 1, 0)%nat).
    { unfold visit_5xx. cbn [it_tries]. destruct (Nat.eqb_spec tries 0); [lia|]. destruct (Nat.ltb_spec k tries); [|lia]. reflexivity. }
    destruct Hst as [-> | ->]; rewrite E; rewrite (IH (S k) StError); try lia; try (now right); f_equal; lia.
Qed.

Lemma visits_5xx_total tries fuel :
  (0 < tries)%nat -> (tries + 1 < fuel)%nat ->
  visits_5xx fuel tries {| it_status := StTodo; it_tries := 0 |} 0 = ({| it_status := StSkipped; it_tries := S tries |}, tries).
Proof. intros H1 H2. rewrite (visits_5xx_run tries tries 0 StTodo 0 fuel); auto. Qed.

Lemma visit_5xx_no_request tries it : snd (visit_5xx tries it) = 0%nat.
Proof. unfold visit_5xx. destruct (_ || _); reflexivity. Qed.

Lemma whole_file cfg p i u cur hop n hl loc body :
  exists w ev, on_robots_response cfg p i u cur hop n (Resp 200 hl loc body) =
               (pool_store p (u_origin cur) (parse_robots body), w, ev, false)
               /\ pool_lookup (pool_store p (u_origin cur) (parse_robots body)) (u_origin cur) = Some (parse_robots body).
Proof.
  rewrite final_response_table by reflexivity.
  change ((500 <=? 200) && (200 <=? 599)) with false. change (200 =? 200) with true. cbv iota zeta.
  destruct (decide cfg i u cur hop (parse_robots body)) as [w ev]. exists w, (ev ++ [EvStored i (u_origin cur) (parse_robots body)]).
  split; [reflexivity|]. apply pool_lookup_store_same.
Qed.

Lemma robots_cannot_follow_spec e :
  robots_cannot_follow e = true <->
  e_tag e = kw_meta /\ lower (e_name e) = kw_robots /\ exists a b, lower (e_content e) = a ++ kw_nofollow ++ b.
Proof.
  unfold robots_cannot_follow. rewrite !andb_true_iff, !seqb_eq, is_infix_spec. tauto.
Qed.

Lemma nofollow_drops_linked elems links :
  existsb robots_cannot_follow elems = true ->
  (forall l, In l (scrape_nofollow true elems links) -> lc_linked l = false) /\
  (forall l, In l links -> lc_linked l = false -> In l (scrape_nofollow true elems links)) /\
  (forall l, In l (scrape_nofollow true elems links) -> In l links).
Proof.
  intros H. unfold scrape_nofollow. rewrite H. cbn [andb]. repeat split.
  - intros l Hl. apply filter_In in Hl. destruct Hl as [_ Hl]. now destruct (lc_linked l).
  - intros l Hl Hk. apply filter_In. split; [assumption|]. now rewrite Hk.
  - intros l Hl. apply filter_In in Hl. tauto.
Qed.

Lemma nofollow_off_keeps elems links :
  scrape_nofollow false elems links = links /\
  (existsb robots_cannot_follow elems = false -> scrape_nofollow true elems links = links).
Proof. unfold scrape_nofollow. split; [reflexivity|]. intros ->. reflexivity. Qed.
