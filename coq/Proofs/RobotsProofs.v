(* Proofs about Model/Robots.v (C20). *)
From Coq Require Import List NArith Bool Arith Lia ZifyBool ZifyNat ZifyN.
From Wpull Require Import Model.Robots.
Import ListNotations.
Open Scope N_scope.
Open Scope bool_scope.

(* ------------------------------------------------------------------ *)
(* 1. strings                                                          *)
(* ------------------------------------------------------------------ *)
Lemma seqb_eq a b : seqb a b = true <-> a = b.
Proof.
  revert b; induction a as [|x a IH]; intros [|y b]; cbn [seqb]; split; intros H; try reflexivity; try discriminate.
  - apply andb_true_iff in H. destruct H as [H1 H2]. apply N.eqb_eq in H1. apply IH in H2. now subst.
  - injection H as -> ->. rewrite N.eqb_refl. cbn. now apply IH.
Qed.

Lemma seqb_refl a : seqb a a = true.
Proof. now apply seqb_eq. Qed.

Lemma starts_with_spec p s : starts_with p s = true <-> exists rest, s = p ++ rest.
Proof.
  revert s; induction p as [|a p IH]; intros s; cbn [starts_with].
  - split; [intros _; now exists s | reflexivity].
  - destruct s as [|b s].
    + split; [discriminate | intros [r H]; discriminate].
    + rewrite andb_true_iff, N.eqb_eq, IH. split.
      * intros [-> [r ->]]. now exists r.
      * intros [r H]. cbn in H. injection H as -> ->. split; [reflexivity | now exists r].
Qed.

Lemma is_infix_spec p s : is_infix p s = true <-> exists a b, s = a ++ p ++ b.
Proof.
  induction s as [|c s IH]; cbn [is_infix].
  - rewrite orb_false_r, starts_with_spec. split.
    + intros [r H]. now exists [], r.
    + intros [a [b H]]. destruct a as [|x a]; [now exists b | discriminate].
  - rewrite orb_true_iff, starts_with_spec, IH. split.
    + intros [[r H] | [a [b H]]].
      * now exists [], r.
      * exists (c :: a), b. now rewrite H.
    + intros [a [b H]]. destruct a as [|x a].
      * left. now exists b.
      * right. cbn in H. injection H as -> ->. now exists a, b.
Qed.

Lemma ends_dollar_spec p : ends_dollar p = true <-> exists q, p = q ++ [36].
Proof.
  unfold ends_dollar. split.
  - destruct (rev p) as [|c r] eqn:E; [discriminate|]. intros H. apply N.eqb_eq in H. subst c.
    exists (rev r). rewrite <- (rev_involutive p), E. reflexivity.
  - intros [q ->]. rewrite rev_app_distr. reflexivity.
Qed.

Lemma ends_dollar_removelast q : removelast (q ++ [36]) = q.
Proof. apply removelast_last. Qed.

Lemma has_star_spec p : has_star p = true <-> In 42 p.
Proof.
  unfold has_star. rewrite existsb_exists. split.
  - intros [x [Hin H]]. apply N.eqb_eq in H. now subst.
  - intros H. exists 42. split; [assumption | reflexivity].
Qed.

(* ------------------------------------------------------------------ *)
(* 2. the wildcard matcher against a declarative semantics              *)
(* ------------------------------------------------------------------ *)
(* "p matches a prefix of s (all of s when anchored)", every "*" standing for an
   arbitrary, possibly empty, string *)
Inductive wild : str -> bool -> str -> Prop :=
| W_nil_open s : wild [] false s
| W_nil_anch : wild [] true []
| W_lit c p a s : c <> 42 -> wild p a s -> wild (c :: p) a (c :: s)
| W_star p a s1 s2 : wild p a s2 -> wild (42 :: p) a (s1 ++ s2).

Lemma wmatch_star_unfold p a s :
  wmatch (42 :: p) a s = wmatch p a s || match s with [] => false | _ :: s' => wmatch (42 :: p) a s' end.
Proof. destruct s; reflexivity. Qed.

Lemma wmatch_lit_unfold c p a s :
  c <> 42 -> wmatch (c :: p) a s = match s with [] => false | d :: s' => (c =? d) && wmatch p a s' end.
Proof.
  intros H. cbn [wmatch]. destruct (N.eqb_spec c 42) as [E|_]; [contradiction | reflexivity].
Qed.

Lemma wmatch_star_spec p a s :
  wmatch (42 :: p) a s = true <-> exists s1 s2, s = s1 ++ s2 /\ wmatch p a s2 = true.
Proof.
  induction s as [|c s IH]; rewrite wmatch_star_unfold.
  - rewrite orb_false_r. split.
    + intros H. now exists [], [].
    + intros [s1 [s2 [E H]]]. symmetry in E. apply app_eq_nil in E. destruct E as [-> ->]. exact H.
  - rewrite orb_true_iff, IH. split.
    + intros [H | [s1 [s2 [-> H]]]].
      * now exists [], (c :: s).
      * now exists (c :: s1), s2.
    + intros [s1 [s2 [E H]]]. destruct s1 as [|x s1].
      * cbn in E. subst s2. now left.
      * cbn in E. injection E as -> ->. right. now exists s1, s2.
Qed.

Lemma wmatch_spec p a s : wmatch p a s = true <-> wild p a s.
Proof.
  revert s; induction p as [|c p IH]; intros s.
  - cbn [wmatch]. destruct a.
    + destruct s; cbn [is_nil]; split; intros H; try constructor; try discriminate. inversion H.
    + split; [constructor | reflexivity].
  - destruct (N.eq_dec c 42) as [->|Hc].
    + rewrite wmatch_star_spec. split.
      * intros [s1 [s2 [-> H]]]. apply W_star. now apply IH.
      * intros H. inversion H as [| |c' p' a' s' Hne _|p' a' s1 s2 Hw]; subst; [contradiction|].
        exists s1, s2. split; [reflexivity | now apply IH].
    + rewrite (wmatch_lit_unfold _ _ _ _ Hc). destruct s as [|d s].
      * split; [discriminate | intros H; inversion H; subst; contradiction].
      * rewrite andb_true_iff, N.eqb_eq, IH. split.
        -- intros [-> H]. now apply W_lit.
        -- intros H. inversion H; subst; [now split | contradiction].
Qed.

(* ------------------------------------------------------------------ *)
(* 3. first-match semantics                                             *)
(* ------------------------------------------------------------------ *)
Definition is_wild_path (path : str) : Prop := In 42 path \/ exists q, path = q ++ [36].

(* when does one rule line apply to a (decoded) request target *)
Definition rule_matches (path url : str) : Prop :=
  (is_wild_path path /\
     ((exists q, path = q ++ [36] /\ wild q true url) \/
      ((forall q, path <> q ++ [36]) /\ wild path false url)))
  \/ (~ is_wild_path path /\ exists rest, url = path ++ rest).

(* "Disallow:" with an empty path allows everything, "Allow:" with an empty path allows nothing *)
Definition rule_verdict (allow : bool) (path : str) : bool :=
  match path with [] => negb allow | _ => allow end.

Inductive fm_spec (url : str) : list (bool * str) -> bool -> Prop :=
| FM_none : fm_spec url [] true
| FM_hit a p r : rule_matches p url -> fm_spec url ((a, p) :: r) (rule_verdict a p)
| FM_skip a p r v : ~ rule_matches p url -> fm_spec url r v -> fm_spec url ((a, p) :: r) v.

Lemma is_wild_path_dec path : (has_star path || ends_dollar path = true) <-> is_wild_path path.
Proof. unfold is_wild_path. now rewrite orb_true_iff, has_star_spec, ends_dollar_spec. Qed.

Lemma app_last_inj {A} (a b : list A) x y : a ++ [x] = b ++ [y] -> a = b /\ x = y.
Proof. intros H. apply app_inj_tail in H. exact H. Qed.

Lemma eval_rule_some a p url v :
  eval_rule a p url = Some v <-> (rule_matches p url /\ v = rule_verdict a p).
Proof.
  unfold eval_rule, rule_matches.
  destruct (has_star p || ends_dollar p) eqn:Hw.
  - assert (Wp : is_wild_path p) by now apply is_wild_path_dec.
    assert (Hv : rule_verdict a p = a).
    { destruct p as [|c p]; [|reflexivity]. exfalso. destruct Wp as [[]|[q E]]. now destruct q. }
    rewrite Hv.
    destruct (ends_dollar p) eqn:Hd.
    + apply ends_dollar_spec in Hd. destruct Hd as [q ->]. rewrite ends_dollar_removelast.
      destruct (wmatch q true url) eqn:Hm.
      * split.
        -- intros H. injection H as <-. split; [|reflexivity]. left. split; [assumption|]. left. exists q. split; [reflexivity | now apply wmatch_spec].
        -- intros [_ ->]. reflexivity.
      * split; [discriminate|]. intros [[[_ [[q' [E H]] | [Hn _]]] | [Hn _]] _]; exfalso.
        -- apply app_last_inj in E. destruct E as [-> _]. apply wmatch_spec in H. congruence.
        -- now apply (Hn q).
        -- contradiction.
    + assert (Hnd : forall q, p <> q ++ [36]).
      { intros q E. assert (ends_dollar p = true) by (apply ends_dollar_spec; now exists q). congruence. }
      destruct (wmatch p false url) eqn:Hm.
      * split.
        -- intros H. injection H as <-. split; [|reflexivity]. left. split; [assumption|]. right. split; [assumption | now apply wmatch_spec].
        -- intros [_ ->]. reflexivity.
      * split; [discriminate|]. intros [[[_ [[q [E _]] | [_ H]]] | [Hn _]] _]; exfalso.
        -- now apply (Hnd q).
        -- apply wmatch_spec in H. congruence.
        -- contradiction.
  - assert (Wp : ~ is_wild_path p).
    { intros H. apply is_wild_path_dec in H. congruence. }
    destruct (starts_with p url) eqn:Hs.
    + apply starts_with_spec in Hs. split.
      * intros H. split; [right; now split|]. injection H as <-. now destruct p.
      * intros [_ ->]. now destruct p.
    + split; [discriminate|]. intros [[[H _] | [_ H]] _]; [contradiction|].
      apply starts_with_spec in H. congruence.
Qed.

Lemma eval_rule_none a p url : eval_rule a p url = None <-> ~ rule_matches p url.
Proof.
  split.
  - intros H Hm. assert (E : eval_rule a p url = Some (rule_verdict a p)) by (apply eval_rule_some; now split). congruence.
  - intros H. destruct (eval_rule a p url) as [v|] eqn:E; [|reflexivity].
    apply eval_rule_some in E. destruct E as [Hm _]. contradiction.
Qed.

Lemma first_match_spec rules url v : first_match rules url = v <-> fm_spec url rules v.
Proof.
  revert v; induction rules as [|[a p] r IH]; intros v; cbn [first_match].
  - split; [intros <-; constructor | intros H; now inversion H].
  - destruct (eval_rule a p url) as [w|] eqn:E.
    + apply eval_rule_some in E. destruct E as [Hm ->]. split.
      * intros <-. now apply FM_hit.
      * intros H. inversion H; subst; [reflexivity | contradiction].
    + apply eval_rule_none in E. rewrite IH. split.
      * intros H. now apply FM_skip.
      * intros H. inversion H; subst; [contradiction | assumption].
Qed.

(* which record applies: the first, in the order "specific records, then records naming *",
   one of whose names is "*" or occurs (case-insensitively) in the user agent *)
Definition ua_matches (names : list str) (ua : str) : Prop :=
  exists n, In n names /\ (n = [42] \/ exists a b, lower ua = a ++ lower n ++ b).

Inductive allowed_spec (ua url : str) : list ruleset -> bool -> Prop :=
| AS_none : allowed_spec ua url [] true
| AS_hit r rest v : ua_matches (rs_names r) ua -> fm_spec (unquote_path (url_target url)) (rs_rules r) v ->
                    allowed_spec ua url (r :: rest) v
| AS_skip r rest v : ~ ua_matches (rs_names r) ua -> allowed_spec ua url rest v -> allowed_spec ua url (r :: rest) v.

Lemma ua_match_spec names ua : ua_match names ua = true <-> ua_matches names ua.
Proof.
  unfold ua_match, ua_matches, name_matches. rewrite existsb_exists. split.
  - intros [n [Hin H]]. exists n. split; [assumption|]. apply orb_true_iff in H. destruct H as [H|H].
    + left. now apply seqb_eq.
    + right. now apply is_infix_spec.
  - intros [n [Hin H]]. exists n. split; [assumption|]. apply orb_true_iff. destruct H as [->|H].
    + left. apply seqb_refl.
    + right. now apply is_infix_spec.
Qed.

Lemma is_allowed_spec rsets ua url v : is_allowed rsets ua url = v <-> allowed_spec ua url rsets v.
Proof.
  unfold is_allowed. revert v. induction rsets as [|r rest IH]; intros v; cbn [find].
  - split; [intros <-; constructor | intros H; now inversion H].
  - destruct (ua_match (rs_names r) ua) eqn:E.
    + apply ua_match_spec in E. split.
      * intros H. apply AS_hit; [assumption | now apply first_match_spec].
      * intros H. inversion H; subst; [now apply first_match_spec | contradiction].
    + assert (~ ua_matches (rs_names r) ua) by (intros H; apply ua_match_spec in H; congruence).
      rewrite IH. split.
      * intros H1. now apply AS_skip.
      * intros H1. inversion H1; subst; [contradiction | assumption].
Qed.

(* the rule lists the parser builds are never empty (is_url_allowed indexes rules[0]) *)
Lemma flush_cur_nonempty done cur :
  Forall (fun r => rs_rules r <> [] /\ rs_names r <> []) done ->
  Forall (fun r => rs_rules r <> [] /\ rs_names r <> []) (flush_cur done cur).
Proof.
  intros H. unfold flush_cur. destruct cur as [r|]; [|assumption].
  destruct (rs_not_empty r) eqn:E; [|assumption].
  apply Forall_app. split; [assumption|]. constructor; [|constructor].
  unfold rs_not_empty in E. apply andb_true_iff in E. destruct E as [E1 E2].
  destruct (rs_rules r); [discriminate|]. destruct (rs_names r); [discriminate|]. split; discriminate.
Qed.

Lemma parse_line_done_nonempty st raw :
  Forall (fun r => rs_rules r <> [] /\ rs_names r <> []) (ps_done st) ->
  Forall (fun r => rs_rules r <> [] /\ rs_names r <> []) (ps_done (parse_line st raw)).
Proof.
  intros H. unfold parse_line.
  destruct (match strip raw with c :: _ => c =? 35 | [] => false end); [assumption|].
  destruct (strip (cut_at 35 (strip raw))) as [|c l].
  - cbn [ps_done]. now apply flush_cur_nonempty.
  - destruct (find_directive (c :: l)) as [[f d]|]; [|assumption].
    unfold parse_directive. destruct f; try (cbn [ps_done]; assumption).
    destruct (ps_prev_ua st); cbn [ps_done]; [assumption | now apply flush_cur_nonempty].
Qed.

Lemma parse_robots_nonempty body :
  Forall (fun r => rs_rules r <> [] /\ rs_names r <> []) (parse_robots body).
Proof.
  unfold parse_robots.
  assert (H : Forall (fun r => rs_rules r <> [] /\ rs_names r <> [])
                     (ps_done (fold_left parse_line (split_lines body) ps_init))).
  { generalize (split_lines body) as ls. intros ls.
    assert (G : forall st, Forall (fun r => rs_rules r <> [] /\ rs_names r <> []) (ps_done st) ->
                           Forall (fun r => rs_rules r <> [] /\ rs_names r <> []) (ps_done (fold_left parse_line ls st))).
    { induction ls as [|l ls IH]; intros st Hst; cbn [fold_left]; [assumption|].
      apply IH. now apply parse_line_done_nonempty. }
    apply G. constructor. }
  set (st := fold_left parse_line (split_lines body) ps_init) in *.
  pose proof (flush_cur_nonempty (ps_done st) (ps_cur st) H) as F.
  apply Forall_app. split; apply Forall_forall; intros r Hr; apply filter_In in Hr; destruct Hr as [Hr _];
    now apply (proj1 (Forall_forall _ _) F).
Qed.

Lemma parse_robots_blank : parse_robots [] = [].
Proof. reflexivity. Qed.

Lemma blank_allows_all ua url : is_allowed (parse_robots []) ua url = true.
Proof. reflexivity. Qed.

(* ------------------------------------------------------------------ *)
(* 4. pool, status table                                               *)
(* ------------------------------------------------------------------ *)
Lemma origin_eqb_eq a b : origin_eqb a b = true <-> a = b.
Proof.
  destruct a as [s1 h1 p1], b as [s2 h2 p2]. unfold origin_eqb. cbn [o_scheme o_host o_port].
  rewrite !andb_true_iff, !seqb_eq, N.eqb_eq. split.
  - intros [[-> ->] ->]. reflexivity.
  - intros H. injection H as -> -> ->. now repeat split.
Qed.

Lemma origin_eqb_refl a : origin_eqb a a = true.
Proof. now apply origin_eqb_eq. Qed.

Lemma pool_lookup_store p o r o2 :
  pool_lookup (pool_store p o r) o2 = if origin_eqb o o2 then Some r else pool_lookup p o2.
Proof. reflexivity. Qed.

Lemma redirect_status_range s : is_redirect_status s = true -> 301 <= s <= 308.
Proof. unfold is_redirect_status. lia. Qed.

Lemma status_5xx s body : 500 <= s <= 599 -> status_action s body = RAServerError.
Proof. intros H. unfold status_action. destruct ((500 <=? s) && (s <=? 599)) eqn:E; [reflexivity | lia]. Qed.

Lemma status_200 body : status_action 200 body = RAParse body.
Proof. reflexivity. Qed.

Lemma status_other s body : ~ (500 <= s <= 599) -> s <> 200 -> status_action s body = RABlank.
Proof.
  intros H1 H2. unfold status_action. destruct ((500 <=? s) && (s <=? 599)) eqn:E; [lia|].
  destruct (s =? 200) eqn:E2; [lia | reflexivity].
Qed.

Lemma session_final mr n s hl loc body :
  is_redirect_status s = false -> session_step mr n (Resp s hl loc body) = SFinal s body.
Proof. intros H. unfold session_step. now rewrite H. Qed.

(* ------------------------------------------------------------------ *)
(* 5. case analysis of the step functions                              *)
(* ------------------------------------------------------------------ *)
Lemma decide_cases cfg i u r w ev :
  decide cfg i u r = (w, ev) ->
  (is_allowed r (c_ua cfg) (u_text u) = true /\ w = WFetchSend u u false /\ ev = []) \/
  (is_allowed r (c_ua cfg) (u_text u) = false /\ w = WIdle /\ ev = [EvSkipped i u]).
Proof.
  unfold decide, pool_can_fetch. destruct (is_allowed r (c_ua cfg) (u_text u)); intros H; injection H as <- <-; auto.
Qed.

Inductive pick_result (cfg : config) (p : pool) (i : nat) (u : url) : wstate -> list event -> Prop :=
| PR_skip : pick_result cfg p i u WIdle [EvSkipped i u]
| PR_norobots : c_robots cfg = false -> pick_result cfg p i u (WFetchSend u u false) []
| PR_allowed r : pool_lookup p (u_origin u) = Some r -> is_allowed r (c_ua cfg) (u_text u) = true ->
                 pick_result cfg p i u (WFetchSend u u false) []
| PR_fetch : c_robots cfg = true -> pool_lookup p (u_origin u) = None ->
             pick_result cfg p i u (WRobotsSend u (robots_url (u_origin u)) 0) [EvFetchStart i (u_origin u)].

Lemma on_pick_cases cfg p i u f p' w ev :
  on_pick cfg p i u f = (p', w, ev) -> p' = p /\ pick_result cfg p i u w ev.
Proof.
  unfold on_pick. destruct f; cbn [negb].
  - destruct (c_robots cfg) eqn:R; cbn [negb].
    + destruct (pool_lookup p (u_origin u)) as [r|] eqn:L.
      * destruct (decide cfg i u r) as [w0 ev0] eqn:D. intros H. injection H as <- <- <-. split; [reflexivity|].
        apply decide_cases in D. destruct D as [[A [-> ->]] | [A [-> ->]]]; [now apply PR_allowed with r | constructor].
      * intros H. injection H as <- <- <-. split; [reflexivity | now constructor].
    + intros H. injection H as <- <- <-. split; [reflexivity | now constructor].
  - intros H. injection H as <- <- <-. split; [reflexivity | constructor].
Qed.

Inductive resp_result (cfg : config) (p : pool) (i : nat) (u : url) : pool -> wstate -> list event -> Prop :=
| RR_next t n' : resp_result cfg p i u p (WRobotsSend u t n') []
| RR_postponed : resp_result cfg p i u p WIdle [EvPostponed i u]
| RR_stored_ok rules : is_allowed rules (c_ua cfg) (u_text u) = true ->
    resp_result cfg p i u (pool_store p (u_origin u) rules) (WFetchSend u u false) [EvStored i (u_origin u) rules]
| RR_stored_no rules : is_allowed rules (c_ua cfg) (u_text u) = false ->
    resp_result cfg p i u (pool_store p (u_origin u) rules) WIdle [EvSkipped i u; EvStored i (u_origin u) rules].

Lemma store_cases cfg p i u rules p' w ev :
  (let '(w0, ev0) := decide cfg i u rules in (pool_store p (u_origin u) rules, w0, ev0 ++ [EvStored i (u_origin u) rules])) = (p', w, ev) ->
  resp_result cfg p i u p' w ev.
Proof.
  destruct (decide cfg i u rules) as [w0 ev0] eqn:D. intros H. injection H as <- <- <-.
  apply decide_cases in D. destruct D as [[A [-> ->]] | [A [-> ->]]]; now constructor.
Qed.

Lemma on_robots_response_cases cfg p i u n r p' w ev :
  on_robots_response cfg p i u n r = (p', w, ev) -> resp_result cfg p i u p' w ev.
Proof.
  unfold on_robots_response.
  destruct (session_step (c_max_redirects cfg) n r) as [t n'|st body| |].
  - intros H. injection H as <- <- <-. constructor.
  - destruct (status_action st body) as [data| |].
    + apply store_cases.
    + apply store_cases.
    + intros H. injection H as <- <- <-. constructor.
  - apply store_cases.
  - intros H. injection H as <- <- <-. constructor.
Qed.

Lemma set_worker_same ws i s : set_worker ws i s i = s.
Proof. unfold set_worker. now rewrite Nat.eqb_refl. Qed.

Lemma set_worker_other ws i s j : j <> i -> set_worker ws i s j = ws j.
Proof. intros H. unfold set_worker. destruct (Nat.eqb_spec j i); [contradiction | reflexivity]. Qed.

(* ------------------------------------------------------------------ *)
(* 6. trace predicates (newest event first)                             *)
(* ------------------------------------------------------------------ *)
(* P e older: a condition on an event given everything that happened before it *)
Fixpoint trace_all (P : event -> list event -> Prop) (t : list event) : Prop :=
  match t with
  | [] => True
  | e :: t' => P e t' /\ trace_all P t'
  end.

Lemma trace_all_split P t : trace_all P t -> forall t2 e t1, t = t2 ++ e :: t1 -> P e t1.
Proof.
  intros H t2. revert t H. induction t2 as [|x t2 IH]; intros t H e t1 E; subst t.
  - exact (proj1 H).
  - cbn [app trace_all] in H. exact (IH _ (proj2 H) e t1 eq_refl).
Qed.

Lemma trace_all_app P ev t :
  trace_all P t -> (forall t2 e t1, ev = t2 ++ e :: t1 -> P e (t1 ++ t)) -> trace_all P (ev ++ t).
Proof.
  intros Ht. induction ev as [|e ev IH]; intros H; cbn [app trace_all]; [assumption|]. split.
  - exact (H [] e ev eq_refl).
  - apply IH. intros t2 e' t1 E. apply (H (e :: t2) e' t1). now rewrite E.
Qed.

Definition ev_worker (e : event) : nat :=
  match e with
  | EvFetchStart w _ | EvRobotsReq w _ _ | EvStored w _ _ | EvPostponed w _ | EvSkipped w _ | EvReq w _ _ _ => w
  end.

(* the gate: an initial request is preceded by a completed acquisition that allows it *)
Definition gate_cond (cfg : config) (e : event) (older : list event) : Prop :=
  match e with
  | EvReq _ u cur false =>
      cur = u /\ exists w r, In (EvStored w (u_origin u) r) older /\ is_allowed r (c_ua cfg) (u_text u) = true
  | _ => True
  end.

(* a fetch begins only when nothing has been stored for the origin *)
Definition start_cond (e : event) (older : list event) : Prop :=
  match e with
  | EvFetchStart _ o => forall w r, ~ In (EvStored w o r) older
  | _ => True
  end.

(* a robots.txt request on the wire belongs to an acquisition its worker has begun and not finished *)
Definition own_open (w : nat) (o : origin) (older : list event) : Prop :=
  exists tb ta, older = tb ++ EvFetchStart w o :: ta /\
                Forall (fun e => ev_worker e = w -> exists t, e = EvRobotsReq w o t) tb.
Definition wire_cond (e : event) (older : list event) : Prop :=
  match e with
  | EvRobotsReq w o _ => own_open w o older
  | EvStored w o _ => own_open w o older /\ exists t, In (EvRobotsReq w o t) older
  | _ => True
  end.

(* with one worker: nothing is stored for the origin when its robots.txt is requested *)
Definition seq_cond (e : event) (older : list event) : Prop :=
  match e with
  | EvRobotsReq _ o _ => forall w r, ~ In (EvStored w o r) older
  | _ => True
  end.

Record inv (cfg : config) (s : gstate) : Prop := {
  inv_pool_stored : forall o r, pool_lookup (g_pool s) o = Some r -> exists w, In (EvStored w o r) (g_trace s);
  inv_stored_pool : forall w o r, In (EvStored w o r) (g_trace s) -> pool_lookup (g_pool s) o <> None;
  inv_send : c_robots cfg = true -> forall i u cur, g_workers s i = WFetchSend u cur false ->
             cur = u /\ exists w r, In (EvStored w (u_origin u) r) (g_trace s) /\ is_allowed r (c_ua cfg) (u_text u) = true;
  inv_open : forall i u t n, (g_workers s i = WRobotsSend u t n \/ g_workers s i = WRobotsWait u t n) ->
             own_open i (u_origin u) (g_trace s);
  inv_wait : forall i u t n, g_workers s i = WRobotsWait u t n -> exists t', In (EvRobotsReq i (u_origin u) t') (g_trace s);
  inv_gate : c_robots cfg = true -> trace_all (gate_cond cfg) (g_trace s);
  inv_start : trace_all start_cond (g_trace s);
  inv_wire : trace_all wire_cond (g_trace s);
}.

Lemma own_open_cons w o e t :
  own_open w o t -> (ev_worker e = w -> exists x, e = EvRobotsReq w o x) -> own_open w o (e :: t).
Proof.
  intros [tb [ta [-> F]]] H. exists (e :: tb), ta. split; [reflexivity | now constructor].
Qed.

Lemma own_open_app w o ev t :
  own_open w o t -> Forall (fun e => ev_worker e <> w) ev -> own_open w o (ev ++ t).
Proof.
  intros H F. induction F as [|e ev He F IH]; [assumption|]. cbn [app].
  apply own_open_cons; [assumption | intros E; contradiction].
Qed.

Lemma own_open_start w o t : own_open w o (EvFetchStart w o :: t).
Proof. exists [], t. split; [reflexivity | constructor]. Qed.

Lemma inv_init cfg : inv cfg g_init.
Proof.
  constructor; cbn; try discriminate; try contradiction; auto.
  - intros i u t n [H|H]; discriminate.
Qed.

(* ------------------------------------------------------------------ *)
(* 7. status table, whole file, nofollow                                *)
(* ------------------------------------------------------------------ *)
(* what a FINAL (non-redirect) robots.txt response does to the pool and to the item *)
Lemma final_response_table cfg p i u n s hl loc body :
  is_redirect_status s = false ->
  on_robots_response cfg p i u n (Resp s hl loc body) =
    if (500 <=? s) && (s <=? 599) then (p, WIdle, [EvPostponed i u])
    else let rules := if s =? 200 then parse_robots body else [] in
         let '(w, ev) := decide cfg i u rules in
         (pool_store p (u_origin u) rules, w, ev ++ [EvStored i (u_origin u) rules]).
Proof.
  intros H. unfold on_robots_response. rewrite (session_final _ _ _ _ _ _ H). unfold status_action.
  destruct ((500 <=? s) && (s <=? 599)); [reflexivity|]. destruct (s =? 200); reflexivity.
Qed.

Lemma missing_allows cfg p i u n s hl loc body :
  is_redirect_status s = false -> ~ (500 <= s <= 599) -> s <> 200 ->
  on_robots_response cfg p i u n (Resp s hl loc body) =
    (pool_store p (u_origin u) [], WFetchSend u u false, [EvStored i (u_origin u) []])
  /\ forall ua url, is_allowed [] ua url = true.
Proof.
  intros H1 H2 H3. split; [|reflexivity]. rewrite (final_response_table _ _ _ _ _ _ _ _ _ H1).
  destruct ((500 <=? s) && (s <=? 599)) eqn:E; [lia|]. destruct (s =? 200) eqn:E2; [lia|]. reflexivity.
Qed.

Lemma server_error_postpones cfg p i u n s hl loc body :
  500 <= s <= 599 ->
  on_robots_response cfg p i u n (Resp s hl loc body) = (p, WIdle, [EvPostponed i u]).
Proof.
  intros H. assert (R : is_redirect_status s = false) by (unfold is_redirect_status; lia).
  rewrite (final_response_table _ _ _ _ _ _ _ _ _ R).
  destruct ((500 <=? s) && (s <=? 599)) eqn:E; [reflexivity | lia].
Qed.

Lemma whole_file cfg p i u n hl loc body :
  exists w ev, on_robots_response cfg p i u n (Resp 200 hl loc body) =
               (pool_store p (u_origin u) (parse_robots body), w, ev)
               /\ pool_lookup (pool_store p (u_origin u) (parse_robots body)) (u_origin u) = Some (parse_robots body).
Proof.
  rewrite final_response_table by reflexivity. cbn [N.leb N.eqb andb Pos.eqb].
  change ((500 <=? 200) && (200 <=? 599)) with false. change (200 =? 200) with true. cbv iota.
  destruct (decide cfg i u (parse_robots body)) as [w ev]. exists w, (ev ++ [EvStored i (u_origin u) (parse_robots body)]).
  split; [reflexivity|]. rewrite pool_lookup_store, origin_eqb_refl. reflexivity.
Qed.

Lemma robots_cannot_follow_spec e :
  robots_cannot_follow e = true <->
  e_tag e = kw_meta /\ lower (e_name e) = kw_robots /\ exists a b, lower (e_content e) = a ++ kw_nofollow ++ b.
Proof.
  unfold robots_cannot_follow. rewrite !andb_true_iff, !seqb_eq, is_infix_spec. tauto.
Qed.

Lemma nofollow_drops_linked elems links :
  existsb robots_cannot_follow elems = true ->
  (forall l, In l (scrape_nofollow true elems links) -> lc_linked l = false) /\
  (forall l, In l links -> lc_linked l = false -> In l (scrape_nofollow true elems links)) /\
  (forall l, In l (scrape_nofollow true elems links) -> In l links).
Proof.
  intros H. unfold scrape_nofollow. rewrite H. cbn [andb]. repeat split.
  - intros l Hl. apply filter_In in Hl. destruct Hl as [_ Hl]. now destruct (lc_linked l).
  - intros l Hl Hk. apply filter_In. split; [assumption|]. now rewrite Hk.
  - intros l Hl. apply filter_In in Hl. tauto.
Qed.

Lemma nofollow_off_keeps elems links :
  scrape_nofollow false elems links = links /\
  (existsb robots_cannot_follow elems = false -> scrape_nofollow true elems links = links).
Proof. unfold scrape_nofollow. split; [reflexivity|]. intros ->. reflexivity. Qed.
