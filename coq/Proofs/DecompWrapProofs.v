(* Proofs about Model/DecompWrap.v (the concrete zlib / gzip wrappers over an
   abstract raw inflater).  For EVERY raw inflater:
   - input after the end marker is swallowed (the premise of
     C19_data_after_end_marker_ignored is a lemma for the wrapped machine);
   - a body accepted under wbits = 15 is  CMF FLG deflate ADLER32(output) junk
     with a header wpull's is_zlib_header accepts;
   - a body accepted under wbits = 31 is  1f 8b 08 flg .. deflate CRC32(output)
     ISIZE(output) junk;
   so whatever the content decoders of Model/Decomp.v return for a body they
   recognise as compressed carries a matching checksum. *)
From Coq Require Import List NArith Bool Arith Lia.
From Wpull Require Import Model.Decomp Model.DecompWrap Proofs.DecompProofs.
Import ListNotations.
Open Scope N_scope.

Definition be32 (b0 b1 b2 b3 : N) : N := ((b0 * 256 + b1) * 256 + b2) * 256 + b3.
Definition le32 (b0 b1 b2 b3 : N) : N := b0 + N.shiftl b1 8 + N.shiftl b2 16 + N.shiftl b3 24.

Section WrapProofs.
  Variable rst : Type.
  Variable rinit : rst.
  Variable rstep : rst -> N -> option (rst * list N).
  Variable reof : rst -> bool.

  Notation wst := (wst rst).
  Notation wstep := (wstep rst rinit rstep reof).
  Notation weof := (weof rst reof).
  Notation wfl := (wfl rst).
  Notation winit := (winit rst rinit).
  Notation wfeed := (zfeed wst wstep).
  Notation rfeed := (zfeed rst rstep).
  Notation zw_step := (zw_step rst rinit rstep reof).
  Notation gw_step := (gw_step rst rinit rstep reof).
  Notation gw_body0 := (gw_body0 rst rinit).

  (* ---- after the end marker ---- *)
  Lemma wrap_after_eof s x : weof s = true ->
    exists s', wstep s x = Some (s', []) /\ weof s' = true /\ wfl s' = wfl s.
  Proof.
    intros H. exists s. destruct s as [z|g|r]; cbn [DecompWrap.weof] in H.
    - destruct z; try discriminate. repeat split.
    - destruct g; try discriminate. repeat split.
    - cbn [DecompWrap.wstep DecompWrap.weof]. rewrite H. repeat split.
  Qed.

  Lemma wfeed_nil s : wfeed s [] = Some (s, []).
  Proof. reflexivity. Qed.

  Lemma wfeed_cons s x r :
    wfeed s (x :: r) =
    match wstep s x with
    | None => None
    | Some (s1, o1) => match wfeed s1 r with None => None | Some (s2, o2) => Some (s2, o1 ++ o2) end
    end.
  Proof. reflexivity. Qed.

  Lemma wfeed_eof s bs : weof s = true -> wfeed s bs = Some (s, []).
  Proof.
    intros H. induction bs as [|x r IH]; [reflexivity|].
    rewrite wfeed_cons. destruct (wrap_after_eof s x H) as (s' & S1 & _ & _).
    assert (s' = s).
    { destruct s as [z|g|r0]; cbn [DecompWrap.weof] in H.
      - destruct z; try discriminate. cbn in S1. congruence.
      - destruct g; try discriminate. cbn in S1. congruence.
      - cbn [DecompWrap.wstep] in S1. rewrite H in S1. congruence. }
    subst s'. rewrite S1, IH. reflexivity.
  Qed.

  (* ================= wbits = 15 ================= *)
  Lemma zw_dict_never_eof bs : forall k s' o,
    wfeed (WZ rst (ZW_dict rst k)) bs = Some (s', o) -> weof s' = false.
  Proof.
    induction bs as [|x r IH]; intros k s' o.
    - cbn. intros [= <- <-]. reflexivity.
    - rewrite wfeed_cons. cbn [DecompWrap.wstep DecompWrap.zw_step].
      destruct k as [|[|[|[|k]]]]; try discriminate;
        (destruct (wfeed _ r) as [[s2 o2]|] eqn:E; [|discriminate]; intros [= <- <-]; eapply IH; exact E).
  Qed.

  Lemma zw_trail_spec bs : forall k acc ab s' o, (k <= 3)%nat ->
    wfeed (WZ rst (ZW_trail rst k acc ab)) bs = Some (s', o) -> weof s' = true ->
    o = [] /\ exists t junk, bs = t ++ junk /\ length t = (4 - k)%nat
                             /\ fold_left (fun a x => a * 256 + x) t acc = adler_value ab.
  Proof.
    induction bs as [|x r IH]; intros k acc ab s' o Hk.
    - cbn. intros [= <- <-]. discriminate.
    - rewrite wfeed_cons. cbn [DecompWrap.wstep DecompWrap.zw_step].
      destruct k as [|[|[|[|k]]]]; try lia.
      1-3: (destruct (wfeed _ r) as [[s2 o2]|] eqn:E; [|discriminate]; intros [= <- <-] He;
            match type of E with zfeed _ _ (WZ _ (ZW_trail _ ?k' ?acc' ?ab')) _ = _ =>
              destruct (IH k' acc' ab' _ _ ltac:(lia) E He) as (-> & t & junk & -> & Hl & Hv) end;
            split; [reflexivity|]; exists (x :: t), junk; repeat split; [cbn [length]; lia | exact Hv]).
      destruct (N.eqb_spec (acc * 256 + x) (adler_value ab)) as [Ha|Ha]; [|discriminate].
      rewrite wfeed_eof by reflexivity. intros [= <- <-] _.
      split; [reflexivity|]. exists [x], r. repeat split. exact Ha.
  Qed.

  Lemma adler_feed_app ab a b : adler_feed ab (a ++ b) = adler_feed (adler_feed ab a) b.
  Proof. unfold adler_feed. apply fold_left_app. Qed.

  Lemma zw_body_spec bs : forall r ab s' o,
    wfeed (WZ rst (ZW_body rst r ab)) bs = Some (s', o) -> weof s' = true ->
    exists deflate t junk r',
      bs = deflate ++ t ++ junk /\ length t = 4%nat
      /\ rfeed r deflate = Some (r', o) /\ reof r' = true
      /\ fold_left (fun a x => a * 256 + x) t 0 = adler_value (adler_feed ab o).
  Proof.
    induction bs as [|x bs IH]; intros r ab s' o.
    - cbn. intros [= <- <-]. discriminate.
    - rewrite wfeed_cons. cbn [DecompWrap.wstep DecompWrap.zw_step].
      destruct (rstep r x) as [[r1 o1]|] eqn:R; [|discriminate].
      destruct (reof r1) eqn:E1.
      + destruct (wfeed _ bs) as [[s2 o2]|] eqn:F; [|discriminate]. intros [= <- <-] He.
        destruct (zw_trail_spec bs 0 0 _ _ _ ltac:(lia) F He) as (-> & t & junk & -> & Hl & Hv).
        exists [x], t, junk, r1. rewrite app_nil_r. repeat split; try assumption.
        cbn [zfeed]. rewrite R. cbn. now rewrite app_nil_r.
      + destruct (wfeed _ bs) as [[s2 o2]|] eqn:F; [|discriminate]. intros [= <- <-] He.
        destruct (IH _ _ _ _ F He) as (d & t & junk & r' & -> & Hl & Hr & He' & Hv).
        exists (x :: d), t, junk, r'. repeat split; try assumption.
        * cbn [zfeed]. rewrite R, Hr. reflexivity.
        * rewrite adler_feed_app. exact Hv.
  Qed.

  Theorem zlib_wrapper_accepts body out :
    whole wst winit wstep weof wfl W15 body = Some out ->
    exists c f deflate b0 b1 b2 b3 junk r',
      body = c :: f :: deflate ++ [b0; b1; b2; b3] ++ junk
      /\ is_zlib_header c f = true
      /\ rfeed rinit deflate = Some (r', out) /\ reof r' = true
      /\ be32 b0 b1 b2 b3 = adler32 out.
  Proof.
    unfold whole. destruct (wfeed (winit W15) body) as [[s' o]|] eqn:F; [|discriminate].
    destruct (weof s') eqn:He; [|discriminate]. intros [= <-]. cbn [DecompWrap.wfl]. rewrite app_nil_r.
    cbn [DecompWrap.winit] in F.
    destruct body as [|c [|f rest]].
    - cbn in F. injection F as <- <-. discriminate.
    - cbn in F. injection F as <- <-. discriminate.
    - rewrite wfeed_cons in F. cbn [DecompWrap.wstep DecompWrap.zw_step] in F.
      rewrite wfeed_cons in F. cbn [DecompWrap.wstep DecompWrap.zw_step] in F.
      destruct (zw_hdr_ok c f) eqn:Hh; [|discriminate].
      destruct (N.land f 32 =? 0) eqn:Hd.
      + destruct (wfeed _ rest) as [[s2 o2]|] eqn:F2; [|discriminate].
        cbn [app] in F. injection F as <- <-.
        destruct (zw_body_spec rest _ _ _ _ F2 He) as (d & t & junk & r' & -> & Hl & Hr & He' & Hv).
        destruct t as [|b0 [|b1 [|b2 [|b3 [|b4 t]]]]]; try discriminate.
        exists c, f, d, b0, b1, b2, b3, junk, r'.
        split; [reflexivity|]. split; [unfold is_zlib_header; unfold zw_hdr_ok in Hh; now rewrite Hh, Hd|].
        split; [exact Hr|]. split; [exact He'|].
        unfold be32, adler32. cbn [fold_left] in Hv. rewrite N.mul_0_l, N.add_0_l in Hv. exact Hv.
      + destruct (wfeed _ rest) as [[s2 o2]|] eqn:F2; [|discriminate].
        cbn [app] in F. injection F as <- <-.
        apply zw_dict_never_eof in F2. congruence.
  Qed.

  (* ================= wbits = 31 ================= *)
  Definition gw_is_hdr (s : gw rst) : bool :=
    match s with
    | GW_hdr _ _ _ _ _ | GW_xlen _ _ _ _ _ | GW_extra _ _ _ _ | GW_name _ _ _ | GW_comment _ _ _ | GW_hcrc _ _ _ _ => true
    | _ => false
    end.

  Lemma gw_after_comment_ok flg hc :
    gw_is_hdr (gw_after_comment rst rinit flg hc) = true \/ gw_after_comment rst rinit flg hc = gw_body0.
  Proof. unfold gw_after_comment. destruct (N.testbit flg 1); [left|right]; reflexivity. Qed.

  Lemma gw_after_name_ok flg hc :
    gw_is_hdr (gw_after_name rst rinit flg hc) = true \/ gw_after_name rst rinit flg hc = gw_body0.
  Proof. unfold gw_after_name. destruct (N.testbit flg 4); [left; reflexivity | apply gw_after_comment_ok]. Qed.

  Lemma gw_after_extra_ok flg hc :
    gw_is_hdr (gw_after_extra rst rinit flg hc) = true \/ gw_after_extra rst rinit flg hc = gw_body0.
  Proof. unfold gw_after_extra. destruct (N.testbit flg 3); [left; reflexivity | apply gw_after_name_ok]. Qed.

  Lemma gw_after_fixed_ok flg hc :
    gw_is_hdr (gw_after_fixed rst rinit flg hc) = true \/ gw_after_fixed rst rinit flg hc = gw_body0.
  Proof. unfold gw_after_fixed. destruct (N.testbit flg 2); [left; reflexivity | apply gw_after_extra_ok]. Qed.

  Lemma gw_hdr_step s x s1 o1 :
    gw_is_hdr s = true -> gw_step s x = Some (s1, o1) ->
    o1 = [] /\ (gw_is_hdr s1 = true \/ s1 = gw_body0).
  Proof.
    destruct s as [k prev flg hc|k lo flg hc|lft flg hc|flg hc|flg hc|k lo hc| | |]; try discriminate; intros _;
      cbn [DecompWrap.gw_step].
    - destruct k as [|[|[|[|[|[|[|[|[|[|k]]]]]]]]]];
        try (intros [= <- <-]; split; [reflexivity|left; reflexivity]).
      + destruct ((prev =? 31) && (x =? 139))%bool; [|discriminate].
        intros [= <- <-]; split; [reflexivity|left; reflexivity].
      + destruct ((prev =? 8) && (N.land x 224 =? 0))%bool; [|discriminate].
        intros [= <- <-]; split; [reflexivity|left; reflexivity].
      + intros [= <- <-]. split; [reflexivity|apply gw_after_fixed_ok].
    - destruct k as [|k]; intros [= <- <-]; (split; [reflexivity|]); [left; reflexivity|].
      match goal with |- context [if ?c then _ else _] => destruct c end; [apply gw_after_extra_ok | left; reflexivity].
    - intros [= <- <-]. split; [reflexivity|].
      match goal with |- context [if ?c then _ else _] => destruct c end; [apply gw_after_extra_ok | left; reflexivity].
    - intros [= <- <-]. split; [reflexivity|].
      match goal with |- context [if ?c then _ else _] => destruct c end; [apply gw_after_name_ok | left; reflexivity].
    - intros [= <- <-]. split; [reflexivity|].
      match goal with |- context [if ?c then _ else _] => destruct c end; [apply gw_after_comment_ok | left; reflexivity].
    - destruct k as [|k]; [intros [= <- <-]; split; [reflexivity|left; reflexivity]|].
      match goal with |- context [if ?c then _ else _] => destruct c end; [|discriminate].
      intros [= <- <-]. split; [reflexivity|right; reflexivity].
  Qed.

  Lemma gw_hdr_not_eof s : gw_is_hdr s = true -> weof (WG rst s) = false.
  Proof. destruct s; try discriminate; reflexivity. Qed.

  Lemma wfeed_WG s x r :
    wfeed (WG rst s) (x :: r) =
    match gw_step s x with
    | None => None
    | Some (s1, o1) => match wfeed (WG rst s1) r with None => None | Some (s2, o2) => Some (s2, o1 ++ o2) end
    end.
  Proof. rewrite wfeed_cons. cbn [DecompWrap.wstep]. destruct (gw_step s x) as [[s1 o1]|]; reflexivity. Qed.

  Lemma gw_hdr_phase bs : forall s s' o,
    gw_is_hdr s = true -> wfeed (WG rst s) bs = Some (s', o) -> weof s' = true ->
    exists hdr rest, bs = hdr ++ rest /\ wfeed (WG rst gw_body0) rest = Some (s', o).
  Proof.
    induction bs as [|x r IH]; intros s s' o Hs.
    - cbn. intros [= <- <-] He. rewrite gw_hdr_not_eof in He by assumption. discriminate.
    - rewrite wfeed_WG. destruct (gw_step s x) as [[s1 o1]|] eqn:G; [|discriminate].
      destruct (gw_hdr_step s x s1 o1 Hs G) as (-> & [H1|H1]).
      + destruct (wfeed (WG rst s1) r) as [[s2 o2]|] eqn:F; [|discriminate]. intros [= <- <-] He.
        destruct (IH _ _ _ H1 F He) as (hdr & rest & -> & Fr).
        exists (x :: hdr), rest. split; [reflexivity|exact Fr].
      + subst s1. destruct (wfeed (WG rst gw_body0) r) as [[s2 o2]|] eqn:F; [|discriminate]. intros [= <- <-] He.
        exists [x], r. split; [reflexivity|exact F].
  Qed.

  Lemma gw_magic bs hc s' o :
    wfeed (WG rst (GW_hdr rst 0 0 0 hc)) bs = Some (s', o) -> weof s' = true ->
    exists flg rest, bs = 31 :: 139 :: 8 :: flg :: rest /\ N.land flg 224 = 0.
  Proof.
    intros F He.
    destruct bs as [|b0 bs]; [cbn in F; injection F as <- <-; discriminate|].
    rewrite wfeed_WG in F. cbn [DecompWrap.gw_step] in F.
    destruct bs as [|b1 bs]; [cbn in F; injection F as <- <-; discriminate|].
    rewrite wfeed_WG in F. cbn [DecompWrap.gw_step] in F.
    destruct ((b0 =? 31) && (b1 =? 139))%bool eqn:M1; [|discriminate].
    apply andb_true_iff in M1. destruct M1 as [M0 M1]. apply N.eqb_eq in M0, M1. subst b0 b1.
    destruct bs as [|b2 bs]; [cbn in F; injection F as <- <-; discriminate|].
    rewrite wfeed_WG in F. cbn [DecompWrap.gw_step] in F.
    destruct bs as [|b3 bs]; [cbn in F; injection F as <- <-; discriminate|].
    rewrite wfeed_WG in F. cbn [DecompWrap.gw_step] in F.
    destruct ((b2 =? 8) && (N.land b3 224 =? 0))%bool eqn:M2; [|discriminate].
    apply andb_true_iff in M2. destruct M2 as [M2 M3]. apply N.eqb_eq in M2, M3. subst b2.
    exists b3, bs. split; [reflexivity|exact M3].
  Qed.

  Lemma crc_feed_app c a b : crc_feed c (a ++ b) = crc_feed (crc_feed c a) b.
  Proof. unfold crc_feed. apply fold_left_app. Qed.

  (* the 8 trailer bytes *)
  Lemma gw_trail_spec bs crc len s' o :
    wfeed (WG rst (GW_trail rst 0 0 crc len)) bs = Some (s', o) -> weof s' = true ->
    o = [] /\ exists b0 b1 b2 b3 b4 b5 b6 b7 junk,
      bs = [b0; b1; b2; b3; b4; b5; b6; b7] ++ junk
      /\ le32 b0 b1 b2 b3 = crc_value crc /\ le32 b4 b5 b6 b7 = len mod 4294967296.
  Proof.
    intros F He.
    do 3 (destruct bs as [|? bs]; [cbn in F; injection F as <- <-; discriminate|];
          rewrite wfeed_WG in F; cbn [DecompWrap.gw_step Nat.modulo Nat.divmod fst snd Nat.sub N.of_nat N.mul Pos.of_succ_nat Pos.succ Pos.mul] in F).
    destruct bs as [|? bs]; [cbn in F; injection F as <- <-; discriminate|].
    rewrite wfeed_WG in F; cbn [DecompWrap.gw_step Nat.modulo Nat.divmod fst snd Nat.sub N.of_nat N.mul Pos.of_succ_nat Pos.succ Pos.mul] in F.
    match type of F with context [if ?c then _ else _] => destruct c eqn:C1; [|discriminate] end.
    do 3 (destruct bs as [|? bs]; [cbn in F; injection F as <- <-; discriminate|];
          rewrite wfeed_WG in F; cbn [DecompWrap.gw_step Nat.modulo Nat.divmod fst snd Nat.sub N.of_nat N.mul Pos.of_succ_nat Pos.succ Pos.mul] in F).
    destruct bs as [|? bs]; [cbn in F; injection F as <- <-; discriminate|].
    rewrite wfeed_WG in F; cbn [DecompWrap.gw_step Nat.modulo Nat.divmod fst snd Nat.sub N.of_nat N.mul Pos.of_succ_nat Pos.succ Pos.mul] in F.
    match type of F with context [if ?c then _ else _] => destruct c eqn:C2; [|discriminate] end.
    rewrite wfeed_eof in F by reflexivity. injection F as <- <-.
    split; [reflexivity|].
    apply N.eqb_eq in C1, C2.
    do 8 eexists. exists bs. split; [reflexivity|].
    unfold le32. rewrite N.shiftl_0_r, N.add_0_l in C1, C2. split; [exact C1|exact C2].
  Qed.

  Lemma gw_body_spec bs : forall r crc len s' o,
    wfeed (WG rst (GW_body rst r crc len)) bs = Some (s', o) -> weof s' = true ->
    exists deflate b0 b1 b2 b3 b4 b5 b6 b7 junk r',
      bs = deflate ++ [b0; b1; b2; b3; b4; b5; b6; b7] ++ junk
      /\ rfeed r deflate = Some (r', o) /\ reof r' = true
      /\ le32 b0 b1 b2 b3 = crc_value (crc_feed crc o)
      /\ le32 b4 b5 b6 b7 = (len + N.of_nat (length o)) mod 4294967296.
  Proof.
    induction bs as [|x bs IH]; intros r crc len s' o.
    - cbn. intros [= <- <-]. discriminate.
    - rewrite wfeed_WG. cbn [DecompWrap.gw_step].
      destruct (rstep r x) as [[r1 o1]|] eqn:R; [|discriminate].
      destruct (reof r1) eqn:E1.
      + destruct (wfeed _ bs) as [[s2 o2]|] eqn:F; [|discriminate]. intros [= <- <-] He.
        destruct (gw_trail_spec bs _ _ _ _ F He) as (-> & b0 & b1 & b2 & b3 & b4 & b5 & b6 & b7 & junk & -> & Hc & Hl).
        exists [x], b0, b1, b2, b3, b4, b5, b6, b7, junk, r1. rewrite app_nil_r. repeat split; try assumption.
        cbn [zfeed]. rewrite R. cbn. now rewrite app_nil_r.
      + destruct (wfeed _ bs) as [[s2 o2]|] eqn:F; [|discriminate]. intros [= <- <-] He.
        destruct (IH _ _ _ _ _ F He) as (d & b0 & b1 & b2 & b3 & b4 & b5 & b6 & b7 & junk & r' & -> & Hr & He' & Hc & Hl).
        exists (x :: d), b0, b1, b2, b3, b4, b5, b6, b7, junk, r'. repeat split; try assumption.
        * cbn [zfeed]. rewrite R, Hr. reflexivity.
        * rewrite crc_feed_app. exact Hc.
        * rewrite app_length, Nat2N.inj_add, N.add_assoc. exact Hl.
  Qed.

  Theorem gzip_wrapper_accepts body out :
    whole wst winit wstep weof wfl W31 body = Some out ->
    (exists flg rest, body = 31 :: 139 :: 8 :: flg :: rest /\ N.land flg 224 = 0)
    /\ exists hdr deflate b0 b1 b2 b3 b4 b5 b6 b7 junk r',
      body = hdr ++ deflate ++ [b0; b1; b2; b3; b4; b5; b6; b7] ++ junk
      /\ rfeed rinit deflate = Some (r', out) /\ reof r' = true
      /\ le32 b0 b1 b2 b3 = crc32 out
      /\ le32 b4 b5 b6 b7 = N.of_nat (length out) mod 4294967296.
  Proof.
    unfold whole. destruct (wfeed (winit W31) body) as [[s' o]|] eqn:F; [|discriminate].
    destruct (weof s') eqn:He; [|discriminate]. intros [= <-]. cbn [DecompWrap.wfl]. rewrite app_nil_r.
    cbn [DecompWrap.winit] in F. split.
    - eapply gw_magic; eassumption.
    - destruct (gw_hdr_phase body (GW_hdr rst 0 0 0 crc_init) _ _ eq_refl F He) as (hdr & rest & -> & Fr).
      unfold DecompWrap.gw_body0 in Fr.
      destruct (gw_body_spec rest _ _ _ _ _ Fr He) as (d & b0 & b1 & b2 & b3 & b4 & b5 & b6 & b7 & junk & r' & -> & Hr & He' & Hc & Hl).
      exists hdr, d, b0, b1, b2, b3, b4, b5, b6, b7, junk, r'. repeat split; try assumption.
  Qed.

  (* ================= the decoders of wpull over the wrapped machine ================= *)
  Notation wrun := (run wst winit wstep weof wfl).
  Notation wreference := (reference wst winit wstep weof wfl).

  (* a gzip-declared body that starts with 0x1f is either a complete gzip member
     with matching CRC-32 and length (plus ignored data after it) or an error -
     "plaintext that happens to start with 0x1f" is never passed through *)
  Theorem wrapped_gzip_success ps out :
    Forall (fun p => p <> []) ps -> wrun KGzip ps = Some out ->
    match concat ps with
    | [] => out = []
    | b :: _ =>
        if b =? 31 then
          (exists flg rest, concat ps = 31 :: 139 :: 8 :: flg :: rest /\ N.land flg 224 = 0)
          /\ exists hdr deflate b0 b1 b2 b3 b4 b5 b6 b7 junk r',
              concat ps = hdr ++ deflate ++ [b0; b1; b2; b3; b4; b5; b6; b7] ++ junk
              /\ rfeed rinit deflate = Some (r', out) /\ reof r' = true
              /\ le32 b0 b1 b2 b3 = crc32 out
              /\ le32 b4 b5 b6 b7 = N.of_nat (length out) mod 4294967296
        else out = concat ps
    end.
  Proof.
    intros Hp R. rewrite (run_is_reference wst winit wstep weof wfl) in R by assumption.
    destruct (concat ps) as [|b body]; [cbn in R; congruence|].
    destruct (N.eqb_spec b 31) as [->|Hb].
    - change (whole wst winit wstep weof wfl W31 (31 :: body) = Some out) in R.
      now apply gzip_wrapper_accepts.
    - cbn [reference] in R.
      destruct b as [|q]; [congruence|].
      do 5 (destruct q as [q|q|]; try congruence).
  Qed.

  (* a deflate-declared body whose first two bytes are a zlib header is a complete
     zlib stream with matching Adler-32 (plus ignored data after it) or an error *)
  Theorem wrapped_zlib_success ps out c f rest :
    Forall (fun p => p <> []) ps -> concat ps = c :: f :: rest -> is_zlib_header c f = true ->
    wrun KDeflate ps = Some out ->
    exists deflate b0 b1 b2 b3 junk r',
      rest = deflate ++ [b0; b1; b2; b3] ++ junk
      /\ rfeed rinit deflate = Some (r', out) /\ reof r' = true
      /\ be32 b0 b1 b2 b3 = adler32 out.
  Proof.
    intros Hp Hc Hh R. rewrite (run_is_reference wst winit wstep weof wfl) in R by assumption.
    rewrite Hc in R. cbn [reference] in R. rewrite Hh in R.
    destruct (zlib_wrapper_accepts _ _ R) as (c' & f' & d & b0 & b1 & b2 & b3 & junk & r' & E & _ & Hr & He & Ha).
    injection E as <- <- ->.
    exists d, b0, b1, b2, b3, junk, r'. repeat split; assumption.
  Qed.

  (* the zlib-or-raw sniff of wpull and the header check of the zlib wrapper agree:
     a body is sent to the zlib decoder exactly when zlib accepts its header and no
     preset dictionary is asked for *)
  Theorem sniff_agrees_with_zlib c f :
    is_zlib_header c f = true <->
    wfeed (winit W15) [c; f] = Some (WZ rst (ZW_body rst rinit adler_init), []).
  Proof.
    cbn [zfeed DecompWrap.winit DecompWrap.wstep DecompWrap.zw_step].
    unfold is_zlib_header, zw_hdr_ok.
    destruct ((N.land c 15 =? 8) && (N.shiftr c 4 <=? 7) && ((c * 256 + f) mod 31 =? 0))%bool; cbn [andb].
    - destruct (N.land f 32 =? 0); split; intros H; try reflexivity; try discriminate.
    - split; discriminate.
  Qed.

  (* data after the end marker, without any premise: the law is a lemma here *)
  Theorem wrapped_ignores_data_after_end_marker k ps s junk out :
    engaged k s = true -> Forall (fun p => p <> []) ps -> concat ps = s ++ junk ->
    wreference k s = Some out -> wrun k ps = Some out.
  Proof. apply run_ignores_data_after_end_marker. exact wrap_after_eof. Qed.
End WrapProofs.
