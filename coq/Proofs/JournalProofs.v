(* Proofs about Model/Journal.v: the journalled append under every fault and
   every crash point (C06). *)
From Coq Require Import List NArith Bool Lia Arith ZifyBool ZifyNat ZifyN.
From Wpull Require Import Lib.Decimal Lib.FsModel Model.Journal.
Import ListNotations.
Open Scope N_scope.

(* ------------------------------------------------------------ generalities *)

Definition op_target (o : op) : name :=
  match o with
  | Create f | OpenAppend f | Write f _ | Close f | OpenRW f | Truncate f _ | Unlink f => f
  end.

Lemma apply_op_other s o s' g :
  apply_op s o = Some s' -> g <> op_target o -> lookup s' g = lookup s g.
Proof.
  destruct o as [f|f|f b|f|f|f n|f]; cbn [apply_op op_target]; intros H NE;
    try (destruct (exists_file s f) eqn:E); inversion H; subst;
    rewrite ?lookup_set_other, ?lookup_remove_other by congruence; reflexivity.
Qed.

Lemma partial_op_other s o d w g :
  g <> op_target o -> lookup (partial_op s o d w) g = lookup s g.
Proof.
  intros NE.
  destruct o as [f|f|f b|f|f|f n|f]; cbn [partial_op];
    try (destruct d; [|reflexivity];
         match goal with |- lookup (match ?x with _ => _ end) _ = _ => destruct x eqn:E end;
         [eapply apply_op_other; eauto | reflexivity]).
  cbn [op_target] in NE. rewrite lookup_set_other by congruence. reflexivity.
Qed.

Definition pres (P : fs -> Prop) (o : op) : Prop :=
  forall s0, P s0 ->
    (forall s', apply_op s0 o = Some s' -> P s') /\ (forall d w, P (partial_op s0 o d w)).

Lemma run_phase_inv (P : fs -> Prop) ops :
  Forall (pres P) ops -> forall n flt crash s, P s -> P (fst (fst (run_phase ops n flt crash s))).
Proof.
  induction 1 as [|o ops Ho Hops IH]; intros n flt crash s Ps; cbn [run_phase]; [exact Ps|].
  destruct (Ho s Ps) as [Hfull Hpart].
  destruct (hits crash n) as [[d w]|]; [apply Hpart|].
  destruct (hits flt n) as [[d w]|]; [apply Hpart|].
  destruct (apply_op s o) as [s'|] eqn:E; [|exact Ps].
  apply IH. apply Hfull. reflexivity.
Qed.

Lemma pres_other (P : fs -> Prop) (g : name) o :
  (forall s0 s1, lookup s1 g = lookup s0 g -> P s0 -> P s1) -> g <> op_target o -> pres P o.
Proof.
  intros HP NE s0 P0. split.
  - intros s' E. eapply HP; [|exact P0]. eapply apply_op_other; eauto.
  - intros d w. eapply HP; [|exact P0]. apply partial_op_other. exact NE.
Qed.

Lemma run_phase_other ops g :
  Forall (fun o => g <> op_target o) ops ->
  forall n flt crash s, lookup (fst (fst (run_phase ops n flt crash s))) g = lookup s g.
Proof.
  intros H n flt crash s.
  apply (run_phase_inv (fun s' => lookup s' g = lookup s g)); [|reflexivity].
  eapply Forall_impl; [|exact H]. intros o NE.
  apply (pres_other _ g); [|exact NE]. intros s0 s1 E1 E0. congruence.
Qed.

Lemma run_phase_app ops1 ops2 n flt crash s :
  run_phase (ops1 ++ ops2) n flt crash s =
  match run_phase ops1 n flt crash s with
  | (s1, EndOk, n1) => run_phase ops2 n1 flt crash s1
  | r => r
  end.
Proof.
  revert n s; induction ops1 as [|o ops1 IH]; intros n s; cbn [app run_phase]; [reflexivity|].
  destruct (hits crash n) as [[d w]|]; [reflexivity|].
  destruct (hits flt n) as [[d w]|]; [reflexivity|].
  destruct (apply_op s o); [apply IH|reflexivity].
Qed.

Lemma run_phase_ok_index ops n flt crash s s' n' :
  run_phase ops n flt crash s = (s', EndOk, n') -> n' = (n + length ops)%nat.
Proof.
  revert n s; induction ops as [|o ops IH]; intros n s; cbn [run_phase length].
  - intros H; inversion H; lia.
  - destruct (hits crash n) as [[d w]|]; [discriminate|].
    destruct (hits flt n) as [[d w]|]; [discriminate|].
    destruct (apply_op s o); [|discriminate]. intros H. apply IH in H. lia.
Qed.

Lemma run_phase_no_crash ops n flt s :
  snd (fst (run_phase ops n flt None s)) <> EndCrash.
Proof.
  revert n s; induction ops as [|o ops IH]; intros n s; cbn [run_phase hits]; [discriminate|].
  destruct (hits flt n) as [[d w]|]; [discriminate|].
  destruct (apply_op s o); [apply IH|discriminate].
Qed.

(* a planned fault inside the phase makes the phase end in an error *)
Lemma run_phase_fault_hits ops n k d w s :
  (n <= k < n + length ops)%nat ->
  snd (fst (run_phase ops n (Some (Intr k d w)) None s)) = EndErr.
Proof.
  revert n s; induction ops as [|o ops IH]; intros n s Hk; cbn [length] in Hk; [lia|].
  cbn [run_phase hits]. destruct (Nat.eqb k n) eqn:E; [reflexivity|].
  destruct (apply_op s o); [|reflexivity]. apply IH. apply Nat.eqb_neq in E. lia.
Qed.

(* a fault planned outside the phase is not seen by it *)
Lemma run_phase_fault_misses ops n k d w crash s :
  (k < n)%nat ->
  run_phase ops n (Some (Intr k d w)) crash s = run_phase ops n None crash s.
Proof.
  revert n s; induction ops as [|o ops IH]; intros n s Hk; cbn [run_phase]; [reflexivity|].
  destruct (hits crash n) as [[d0 w0]|]; [reflexivity|].
  cbn [hits]. destruct (Nat.eqb k n) eqn:E; [apply Nat.eqb_eq in E; lia|].
  destruct (apply_op s o); [apply IH; lia|reflexivity].
Qed.

Lemma run_phase_fault_beyond ops n k d w crash s :
  (n + length ops <= k)%nat ->
  run_phase ops n (Some (Intr k d w)) crash s = run_phase ops n None crash s.
Proof.
  revert n s; induction ops as [|o ops IH]; intros n s Hk; cbn [run_phase]; [reflexivity|].
  cbn [length] in Hk.
  destruct (hits crash n) as [[d0 w0]|]; [reflexivity|].
  cbn [hits]. destruct (Nat.eqb k n) eqn:E; [apply Nat.eqb_eq in E; lia|].
  destruct (apply_op s o); [apply IH; lia|reflexivity].
Qed.

(* a phase that ran to its end met no adversary *)
Lemma run_phase_ok_no_adv ops : forall n flt crash s s' n',
  run_phase ops n flt crash s = (s', EndOk, n') -> run_phase ops n None None s = (s', EndOk, n').
Proof.
  induction ops as [|o ops IH]; intros n flt crash s s' n'; cbn [run_phase hits]; [trivial|].
  destruct (hits crash n) as [[d w]|]; [discriminate|].
  destruct (hits flt n) as [[d w]|]; [discriminate|].
  destruct (apply_op s o); [apply IH|discriminate].
Qed.

Lemma journal_name_neq (A : name) : journal_name A <> A.
Proof.
  unfold journal_name. intros E. apply (f_equal (@length N)) in E.
  rewrite app_length in E. cbn in E. lia.
Qed.

Lemma strip_prefix_app (p l : list N) : strip_prefix p (p ++ l) = Some l.
Proof. induction p as [|x p IH]; cbn; [reflexivity|]. now rewrite N.eqb_refl. Qed.

Theorem parse_journal_bytes (off : N) : parse_journal (journal_bytes off) = Some off.
Proof.
  unfold parse_journal, journal_bytes. rewrite strip_prefix_app.
  rewrite rev_app_distr. cbn [rev app]. rewrite rev_involutive. apply undec_dec.
Qed.

(* -------------------------------------------------- one append, all phases *)
Section Append.
  Variable s : fs.
  Variable A : name.
  Variable chunks : list bytes.

  Local Notation J := (journal_name A).
  Local Notation old := (content s A).
  Local Notation off := (size s A).
  Local Notation jb := (journal_bytes (size s A)).

  Definition jops : list op := [Create J; Write J jb; Close J].
  Definition aops : list op := OpenAppend A :: map (Write A) chunks ++ [Close A].

  Lemma main_split : main_ops A off chunks = jops ++ aops.
  Proof. reflexivity. Qed.

  (* the three kinds of state an append passes through *)
  Definition SJ (s' : fs) : Prop := content s' A = old.
  Definition SA (s' : fs) : Prop :=
    (exists junk, content s' A = old ++ junk) /\ lookup s' J = Some jb.
  Definition SD (s' : fs) : Prop := content s' A = old ++ concat chunks.
  Definition PA (s' : fs) : Prop := exists junk, content s' A = old ++ junk.

  Lemma JA : J <> A.  Proof. apply journal_name_neq. Qed.
  Lemma AJ : A <> J.  Proof. intros E. symmetry in E. exact (JA E). Qed.

  Lemma content_lookup s0 s1 g : lookup s1 g = lookup s0 g -> content s1 g = content s0 g.
  Proof. unfold content. now intros ->. Qed.

  Lemma pres_SJ_J o : op_target o = J -> pres SJ o.
  Proof.
    intros T. apply (pres_other _ A); [|rewrite T; exact AJ].
    intros s0 s1 E H. unfold SJ in *. rewrite (content_lookup _ _ _ E). exact H.
  Qed.

  Lemma pres_SD_J o : op_target o = J -> pres SD o.
  Proof.
    intros T. apply (pres_other _ A); [|rewrite T; exact AJ].
    intros s0 s1 E H. unfold SD in *. rewrite (content_lookup _ _ _ E). exact H.
  Qed.

  (* every primitive on the archive that this code performs keeps [old] as a prefix *)
  Definition archive_op (o : op) : Prop :=
    match o with
    | OpenAppend f | Close f | OpenRW f => f = A
    | Write f _ => f = A
    | Truncate f n => f = A /\ n = off
    | _ => False
    end.

  Lemma PA_absent s0 : PA s0 -> exists_file s0 A = false -> old = [] /\ content s0 A = [].
  Proof.
    intros [junk E] X. unfold exists_file in X. unfold content in E at 1.
    destruct (lookup s0 A) eqn:L; [discriminate|].
    symmetry in E. apply app_eq_nil in E. destruct E as [E _]. split; [exact E|].
    unfold content. now rewrite L.
  Qed.

  Lemma pres_PA o : archive_op o -> pres PA o.
  Proof.
    intros AO s0 P0. destruct o as [f|f|f b|f|f|f n|f]; cbn [archive_op] in AO; try contradiction.
    - (* OpenAppend *) subst f.
      assert (H : forall s', apply_op s0 (OpenAppend A) = Some s' -> PA s').
      { cbn [apply_op]. intros s' E. destruct (exists_file s0 A) eqn:X; inversion E; subst; [exact P0|].
        destruct (PA_absent _ P0 X) as [O _]. exists []. rewrite content_set_same, O. reflexivity. }
      split; [exact H|]. intros d w. cbn [partial_op]. destruct d; [|exact P0].
      destruct (apply_op s0 (OpenAppend A)) eqn:E; [apply H; reflexivity|exact P0].
    - (* Write *) subst f. destruct P0 as [junk E]. split.
      + cbn [apply_op]. intros s' H; inversion H; subst. exists (junk ++ b).
        rewrite content_set_same, E. now rewrite app_assoc.
      + intros d w. cbn [partial_op]. exists (junk ++ w).
        rewrite content_set_same, E. now rewrite app_assoc.
    - (* Close *) subst f. split; [cbn; intros s' H; inversion H; subst; exact P0|].
      intros d w; cbn. destruct d; exact P0.
    - (* OpenRW *) subst f.
      assert (H : forall s', apply_op s0 (OpenRW A) = Some s' -> PA s').
      { cbn [apply_op]. intros s' E. destruct (exists_file s0 A); inversion E; subst; exact P0. }
      split; [exact H|]. intros d w. cbn [partial_op]. destruct d; [|exact P0].
      destruct (apply_op s0 (OpenRW A)) eqn:E; [apply H; reflexivity|exact P0].
    - (* Truncate *) destruct AO as [-> ->].
      assert (H : forall s', apply_op s0 (Truncate A off) = Some s' -> PA s').
      { cbn [apply_op]. intros s' E; inversion E; subst. destruct P0 as [junk E0]. exists [].
        rewrite content_set_same, E0. unfold size. rewrite truncate_to_app. now rewrite app_nil_r. }
      split; [exact H|]. intros d w. cbn [partial_op]. destruct d; [|exact P0].
      destruct (apply_op s0 (Truncate A off)) eqn:E; [apply H; reflexivity|exact P0].
  Qed.

  Lemma archive_op_target o : archive_op o -> op_target o = A.
  Proof. destruct o; cbn; try tauto. Qed.

  Lemma pres_SA o : archive_op o -> pres SA o.
  Proof.
    intros AO s0 [P0 L0]. pose proof (archive_op_target _ AO) as T.
    destruct (pres_PA o AO s0 P0) as [Hf Hp]. split.
    - intros s' E. split; [apply Hf; exact E|].
      rewrite (apply_op_other _ _ _ J E); [exact L0|rewrite T; exact JA].
    - intros d w. split; [apply Hp|]. rewrite partial_op_other; [exact L0|rewrite T; exact JA].
  Qed.

  (* the rollback primitives also keep "archive = old" *)
  Definition rollback_op (o : op) : Prop :=
    match o with
    | Close f | OpenRW f => f = A
    | Truncate f n => f = A /\ n = off
    | _ => False
    end.

  Lemma pres_SJ_rollback o : rollback_op o -> pres SJ o.
  Proof.
    intros RO s0 S0. unfold SJ in *.
    destruct o as [f|f|f b|f|f|f n|f]; cbn [rollback_op] in RO; try contradiction.
    - subst f. split; [cbn; intros s' H; inversion H; subst; exact S0|].
      intros d w; cbn. destruct d; exact S0.
    - subst f. split.
      + cbn [apply_op]. intros s' E. destruct (exists_file s0 A); inversion E; subst; exact S0.
      + intros d w. cbn [partial_op apply_op]. destruct d; [|exact S0]. destruct (exists_file s0 A); exact S0.
    - destruct RO as [-> ->].
      assert (H : content (set s0 A (truncate_to off (content s0 A))) A = old).
      { rewrite content_set_same, S0. unfold size. apply truncate_to_same. }
      split.
      + cbn [apply_op]. intros s' E; inversion E; subst. exact H.
      + intros d w. cbn [partial_op apply_op]. destruct d; [exact H|exact S0].
  Qed.

  Lemma rollback_is_archive_op o : rollback_op o -> archive_op o.
  Proof. destruct o; cbn; tauto. Qed.

  Lemma Forall_jops_target : Forall (fun o => op_target o = J) jops.
  Proof. repeat constructor. Qed.

  Lemma Forall_aops : Forall archive_op aops.
  Proof.
    unfold aops. constructor; [reflexivity|]. apply Forall_app. split.
    - apply Forall_forall. intros o Ho. apply in_map_iff in Ho. destruct Ho as [c [<- _]]. reflexivity.
    - repeat constructor.
  Qed.

  Lemma Forall_rollback : Forall rollback_op (rollback_ops A off).
  Proof. repeat constructor. Qed.

  Lemma Forall_rollback_for s1 : Forall rollback_op (rollback_for A off s1).
  Proof. unfold rollback_for. destruct (exists_file s1 A); repeat constructor. Qed.

  (* journal phase: only J changes; when it completes J holds the journal *)
  Lemma J_phase n flt crash s1 e n1 :
    run_phase jops n flt crash s = (s1, e, n1) ->
    SJ s1 /\ (e = EndOk -> lookup s1 J = Some jb).
  Proof.
    intros R. split.
    - pose proof (run_phase_inv SJ jops) as H. specialize (H ltac:(eapply Forall_impl;
        [|exact Forall_jops_target]; intros o T; apply pres_SJ_J; exact T) n flt crash s).
      rewrite R in H. apply H. reflexivity.
    - intros ->. revert R. unfold jops. cbn [run_phase apply_op].
      destruct (hits crash n) as [[d w]|]; [discriminate|].
      destruct (hits flt n) as [[d w]|]; [discriminate|].
      destruct (hits crash (S n)) as [[d w]|]; [discriminate|].
      destruct (hits flt (S n)) as [[d w]|]; [discriminate|].
      destruct (hits crash (S (S n))) as [[d w]|]; [discriminate|].
      destruct (hits flt (S (S n))) as [[d w]|]; [discriminate|].
      intros R; inversion R; subst. rewrite lookup_set_same, content_set_same. reflexivity.
  Qed.

  (* write phase: when it completes, exactly the chunks were appended *)
  Lemma W_phase cs : forall n flt crash s0 s1 n1,
    run_phase (map (Write A) cs) n flt crash s0 = (s1, EndOk, n1) ->
    content s1 A = content s0 A ++ concat cs.
  Proof.
    induction cs as [|c cs IH]; intros n flt crash s0 s1 n1; cbn [map run_phase concat].
    - intros R; inversion R; subst. now rewrite app_nil_r.
    - destruct (hits crash n) as [[d w]|]; [discriminate|].
      destruct (hits flt n) as [[d w]|]; [discriminate|].
      cbn [apply_op]. intros R. apply IH in R. rewrite R, content_set_same. now rewrite app_assoc.
  Qed.

  Lemma A_phase n flt crash s0 s1 e n1 :
    SJ s0 -> lookup s0 J = Some jb ->
    run_phase aops n flt crash s0 = (s1, e, n1) ->
    SA s1 /\ (e = EndOk -> SD s1).
  Proof.
    intros S0 L0 R. split.
    - pose proof (run_phase_inv SA aops) as H. specialize (H ltac:(eapply Forall_impl;
        [|exact Forall_aops]; intros o T; apply pres_SA; exact T) n flt crash s0).
      rewrite R in H. apply H. split; [exists []; rewrite app_nil_r; exact S0|exact L0].
    - intros ->. revert R. unfold aops. cbn [run_phase].
      destruct (hits crash n) as [[d w]|]; [discriminate|].
      destruct (hits flt n) as [[d w]|]; [discriminate|].
      cbn [apply_op]. rewrite run_phase_app.
      destruct (run_phase (map (Write A) chunks) (S n) flt crash _) as [[s2 e2] n2] eqn:RW.
      destruct e2; try discriminate.
      apply W_phase in RW. cbn [run_phase].
      destruct (hits crash n2) as [[d w]|]; [discriminate|].
      destruct (hits flt n2) as [[d w]|]; [discriminate|].
      cbn [apply_op]. intros R; inversion R; subst. unfold SD. rewrite RW.
      f_equal. destruct (exists_file s0 A) eqn:X; [exact S0|].
      rewrite content_set_same. unfold SJ in S0. rewrite <- S0.
      unfold content. unfold exists_file in X. destruct (lookup s0 A); [discriminate|reflexivity].
  Qed.

  (* rollback without adversary: it completes and the archive is exactly the old one again *)
  Lemma R_phase n s0 s1 e n1 :
    PA s0 -> run_phase (rollback_for A off s0) n None None s0 = (s1, e, n1) -> SJ s1 /\ e = EndOk.
  Proof.
    intros P0. unfold rollback_for, rollback_ops. destruct (exists_file s0 A) eqn:X.
    - cbn [run_phase hits apply_op]. rewrite X.
      intros R; inversion R; subst. split; [|reflexivity]. unfold SJ. rewrite content_set_same.
      destruct P0 as [junk E]. rewrite E. unfold size. apply truncate_to_app.
    - cbn [run_phase hits apply_op].
      intros R; inversion R; subst. split; [|reflexivity].
      destruct (PA_absent _ P0 X) as [O C]. unfold SJ. congruence.
  Qed.

  Lemma SJ_PA s0 : SJ s0 -> PA s0.
  Proof. intros H. exists []. rewrite app_nil_r. exact H. Qed.

  (* state after the main path, whatever its ending *)
  Lemma main_phase flt crash s1 e n1 :
    run_phase (main_ops A off chunks) 0 flt crash s = (s1, e, n1) ->
    (SJ s1 \/ SA s1) /\ (e = EndOk -> SD s1 /\ lookup s1 J = Some jb).
  Proof.
    rewrite main_split, run_phase_app.
    destruct (run_phase jops 0 flt crash s) as [[s0 e0] n0] eqn:RJ.
    destruct (J_phase _ _ _ _ _ _ RJ) as [S0 L0].
    destruct e0.
    - intros RA. destruct (A_phase _ _ _ _ _ _ _ S0 (L0 eq_refl) RA) as [SA1 D1].
      split; [right; exact SA1|]. intros E. split; [apply D1; exact E|apply SA1].
    - intros R; inversion R; subst. split; [left; exact S0|discriminate].
    - intros R; inversion R; subst. split; [left; exact S0|discriminate].
  Qed.

  (* ------------------------------------------------ crash: every crash point *)
  Definition recoverable (s' : fs) : Prop :=
    content s' A = old
    \/ content s' A = old ++ concat chunks
    \/ (lookup s' J <> None /\ parse_journal (content s' J) = Some off
        /\ truncate_to off (content s' A) = old).

  Lemma SA_recoverable s' : SA s' -> recoverable s'.
  Proof.
    intros [[junk E] L]. right; right. split; [congruence|]. split.
    - unfold content at 1. rewrite L. apply parse_journal_bytes.
    - rewrite E. unfold size. apply truncate_to_app.
  Qed.

  Lemma final_pres P : pres P (Unlink J) -> forall n flt crash s0, P s0 ->
    P (fst (fst (run_phase (final_ops A) n flt crash s0))).
  Proof. intros H n flt crash s0 P0. apply run_phase_inv; [constructor; [exact H|constructor]|exact P0]. Qed.

  (* after the main path failed: whatever happens in the handler (a further fault, a crash, or
     neither), the directory stays in one of the two safe kinds of state, and the handler's
     unlink is reached only with the archive exactly restored *)
  Lemma handler_states flt2 crash s1 n1 :
    SJ s1 \/ SA s1 ->
    forall s2 e2 n2, run_phase (rollback_for A off s1) n1 flt2 crash s1 = (s2, e2, n2) ->
      (SJ s2 \/ SA s2) /\ (e2 = EndOk -> SJ s2).
  Proof.
    intros M1 s2 e2 n2 RR. split.
    - destruct M1 as [M1|M1]; [left|right].
      + pose proof (run_phase_inv SJ (rollback_for A off s1)) as H. specialize (H ltac:(eapply Forall_impl;
          [|exact (Forall_rollback_for s1)]; intros o T; apply pres_SJ_rollback; exact T) n1 flt2 crash s1 M1).
        now rewrite RR in H.
      + pose proof (run_phase_inv SA (rollback_for A off s1)) as H. specialize (H ltac:(eapply Forall_impl;
          [|exact (Forall_rollback_for s1)]; intros o T; apply pres_SA, rollback_is_archive_op; exact T) n1 flt2 crash s1 M1).
        now rewrite RR in H.
    - intros ->. apply run_phase_ok_no_adv in RR.
      assert (P1 : PA s1) by (destruct M1 as [M1|M1]; [apply SJ_PA; exact M1|apply M1]).
      apply (R_phase _ _ _ _ _ P1 RR).
  Qed.

  (* EVERY ending of an append - completed, raised after one or two faults, crashed anywhere -
     leaves a recoverable directory *)
  Theorem always_recoverable flt flt2 crash :
    recoverable (state_of (write_record2 A chunks flt flt2 crash s)).
  Proof.
    unfold write_record2.
    destruct (run_phase (main_ops A off chunks) 0 flt crash s) as [[s1 e1] n1] eqn:RM.
    destruct (main_phase _ _ _ _ _ RM) as [M1 M2].
    destruct e1.
    - (* main completed; final unlink *)
      destruct (M2 eq_refl) as [D1 _].
      pose proof (final_pres SD (pres_SD_J (Unlink J) eq_refl) n1 flt crash s1 D1) as F.
      destruct (run_phase (final_ops A) n1 flt crash s1) as [[s2 e2] n2].
      destruct e2; cbn [state_of]; right; left; exact F.
    - (* main raised; handler *)
      destruct (run_phase (rollback_for A off s1) n1 flt2 crash s1) as [[s2 e2] n2] eqn:RR.
      destruct (handler_states flt2 crash s1 n1 M1 _ _ _ RR) as [M N2].
      assert (C2 : recoverable s2) by (destruct M as [M|M]; [left; exact M|apply SA_recoverable; exact M]).
      destruct e2; cbn [state_of]; try exact C2.
      pose proof (final_pres SJ (pres_SJ_J (Unlink J) eq_refl) n2 flt2 crash s2 (N2 eq_refl)) as F.
      destruct (run_phase (final_ops A) n2 flt2 crash s2) as [[s3 e3] n3].
      destruct e3; cbn [state_of]; left; exact F.
    - (* crashed in the main path *)
      cbn [state_of]. destruct M1 as [M|M]; [left; exact M|apply SA_recoverable; exact M].
  Qed.

  Theorem crash_recoverable flt crash s' :
    write_record A chunks flt crash s = Crashed s' -> recoverable s'.
  Proof.
    intros R. pose proof (always_recoverable flt None crash) as H.
    unfold write_record in R. rewrite R in H. exact H.
  Qed.

  (* ------------------------------------- fault: every position and partial effect *)
  Lemma final_no_adv n s0 :
    exists s1 e n1, run_phase (final_ops A) n None None s0 = (s1, e, n1) /\ e <> EndCrash
      /\ lookup s1 J = None /\ forall g, g <> J -> lookup s1 g = lookup s0 g.
  Proof.
    unfold final_ops. cbn [run_phase hits apply_op]. destruct (exists_file s0 J) eqn:X.
    - do 3 eexists. split; [reflexivity|]. split; [discriminate|]. split.
      + apply lookup_remove_same.
      + intros g NE. apply lookup_remove_other. congruence.
    - do 3 eexists. split; [reflexivity|]. split; [discriminate|]. split.
      + unfold exists_file in X. destruct (lookup s0 J); [discriminate|reflexivity].
      + reflexivity.
  Qed.

  Lemma main_ops_targets g : g <> A -> g <> J -> Forall (fun o => g <> op_target o) (main_ops A off chunks).
  Proof.
    intros NA NJ. rewrite main_split. apply Forall_app. split.
    - eapply Forall_impl; [|exact Forall_jops_target]. intros o T. now rewrite T.
    - eapply Forall_impl; [|exact Forall_aops]. intros o T. now rewrite (archive_op_target _ T).
  Qed.

  Theorem io_error_restores k d w :
    (k < length (main_ops A off chunks))%nat ->
    exists s', write_record A chunks (Some (Intr k d w)) None s = Raised s'
      /\ content s' A = old /\ lookup s' J = None
      /\ forall g, g <> A -> g <> J -> lookup s' g = lookup s g.
  Proof.
    intros Hk. unfold write_record, write_record2.
    pose proof (run_phase_fault_hits (main_ops A off chunks) 0 k d w s ltac:(lia)) as HE.
    destruct (run_phase (main_ops A off chunks) 0 (Some (Intr k d w)) None s) as [[s1 e1] n1] eqn:RM.
    cbn [fst snd] in HE. subst e1.
    destruct (main_phase _ _ _ _ _ RM) as [M1 _].
    assert (O1 : forall g, g <> A -> g <> J -> lookup s1 g = lookup s g).
    { intros g NA NJ. pose proof (run_phase_other _ g (main_ops_targets g NA NJ) 0 (Some (Intr k d w)) None s) as H.
      now rewrite RM in H. }
    destruct (run_phase (rollback_for A off s1) n1 None None s1) as [[s2 e2] n2] eqn:RR.
    assert (S2 : SJ s2 /\ e2 = EndOk).
    { eapply R_phase; [|exact RR]. destruct M1 as [M1|M1]; [apply SJ_PA; exact M1|apply M1]. }
    destruct S2 as [S2 ->].
    assert (O2 : forall g, g <> A -> lookup s2 g = lookup s1 g).
    { intros g NA. pose proof (run_phase_other (rollback_for A off s1) g) as H.
      specialize (H ltac:(unfold rollback_for; destruct (exists_file s1 A); repeat constructor; exact NA) n1 None None s1).
      now rewrite RR in H. }
    destruct (final_no_adv n2 s2) as [s3 [e3 [n3 [RF [NC3 [LJ O3]]]]]].
    exists s3. split.
    - rewrite RF; destruct e3; try contradiction; reflexivity.
    - split; [|split; [exact LJ|]].
      + unfold SJ in S2. rewrite <- S2. apply content_lookup. apply O3. exact AJ.
      + intros g NA NJ. rewrite O3 by exact NJ. rewrite O2 by exact NA. apply O1; assumption.
  Qed.

  (* no adversary: the record is appended and the journal is gone *)
  Theorem success_appends :
    exists s', write_record A chunks None None s = Completed s'
      /\ content s' A = old ++ concat chunks /\ lookup s' J = None
      /\ forall g, g <> A -> g <> J -> lookup s' g = lookup s g.
  Proof.
    unfold write_record, write_record2.
    destruct (run_phase (main_ops A off chunks) 0 None None s) as [[s1 e1] n1] eqn:RM.
    assert (E1 : e1 = EndOk).
    { revert RM. rewrite main_split, run_phase_app. unfold jops. cbn [run_phase hits apply_op].
      unfold aops. cbn [run_phase hits apply_op]. rewrite run_phase_app.
      match goal with |- context [run_phase (map (Write A) chunks) ?n None None ?s0] =>
        generalize s0; generalize n end.
      intros n0 s0.
      assert (W : forall cs n s0, snd (fst (run_phase (map (Write A) cs) n None None s0)) = EndOk).
      { induction cs as [|c cs IH]; intros n s'; cbn [map run_phase hits apply_op]; [reflexivity|apply IH]. }
      specialize (W chunks n0 s0).
      destruct (run_phase (map (Write A) chunks) n0 None None s0) as [[s2 e2] n2]. cbn in W. subst e2.
      cbn [run_phase hits apply_op]. intros R; inversion R; reflexivity. }
    subst e1. destruct (main_phase _ _ _ _ _ RM) as [_ M2]. destruct (M2 eq_refl) as [D1 L1].
    assert (O1 : forall g, g <> A -> g <> J -> lookup s1 g = lookup s g).
    { intros g NA NJ. pose proof (run_phase_other _ g (main_ops_targets g NA NJ) 0 None None s) as H.
      now rewrite RM in H. }
    unfold final_ops. cbn [run_phase hits apply_op]. unfold exists_file. rewrite L1.
    eexists. split; [reflexivity|]. split; [|split].
    - unfold SD in D1. rewrite <- D1. apply content_lookup. apply lookup_remove_other. exact JA.
    - apply lookup_remove_same.
    - intros g NA NJ. rewrite lookup_remove_other by congruence. apply O1; assumption.
  Qed.

  (* a fault at the final unlink itself: the append is complete, the state is that
     of a crash before the unlink (journal present) or of a success (journal gone) *)
  Theorem unlink_fault_state d w :
    exists s', write_record A chunks (Some (Intr (length (main_ops A off chunks)) d w)) None s = Raised s'
      /\ content s' A = old ++ concat chunks
      /\ lookup s' J = (if d then None else Some jb).
  Proof.
    destruct success_appends as [s0 [R0 _]].
    unfold write_record, write_record2 in *.
    rewrite run_phase_fault_beyond by (cbn [plus]; lia).
    destruct (run_phase (main_ops A off chunks) 0 None None s) as [[s1 e1] n1] eqn:RM.
    destruct e1.
    - pose proof (run_phase_ok_index _ _ _ _ _ _ _ RM) as N1. cbn [plus] in N1. subst n1.
      destruct (main_phase _ _ _ _ _ RM) as [_ M2]. destruct (M2 eq_refl) as [D1 L1].
      unfold final_ops. cbn [run_phase hits]. rewrite Nat.eqb_refl.
      eexists. split; [reflexivity|]. cbn [partial_op apply_op]. unfold exists_file. rewrite L1.
      destruct d.
      + split; [|apply lookup_remove_same].
        unfold SD in D1. rewrite <- D1. apply content_lookup. apply lookup_remove_other. exact JA.
      + split; [exact D1|exact L1].
    - exfalso. destruct (run_phase (rollback_for A off s1) n1 None None s1) as [[s2 e2] n2].
      destruct e2; try discriminate;
        destruct (run_phase (final_ops A) n2 None None s2) as [[s3 e3] n3]; destruct e3; discriminate.
    - discriminate.
  Qed.

  Lemma main_ops_length : length (main_ops A off chunks) = n_main chunks.
  Proof. unfold main_ops, n_main. cbn [app length]. rewrite app_length, map_length. cbn [length]. lia. Qed.

  (* the same with what happens to the other files *)
  Theorem unlink_fault_full d w :
    exists s', write_record A chunks (Some (Intr (length (main_ops A off chunks)) d w)) None s = Raised s'
      /\ content s' A = old ++ concat chunks
      /\ lookup s' J = (if d then None else Some jb)
      /\ forall g, g <> A -> g <> J -> lookup s' g = lookup s g.
  Proof.
    destruct success_appends as [s0 [R0 _]].
    unfold write_record, write_record2 in *.
    rewrite run_phase_fault_beyond by (cbn [plus]; lia).
    destruct (run_phase (main_ops A off chunks) 0 None None s) as [[s1 e1] n1] eqn:RM.
    assert (O1 : forall g, g <> A -> g <> J -> lookup s1 g = lookup s g).
    { intros g NA NJ. pose proof (run_phase_other _ g (main_ops_targets g NA NJ) 0 None None s) as H.
      now rewrite RM in H. }
    destruct e1.
    - pose proof (run_phase_ok_index _ _ _ _ _ _ _ RM) as N1. cbn [plus] in N1. subst n1.
      destruct (main_phase _ _ _ _ _ RM) as [_ M2]. destruct (M2 eq_refl) as [D1 L1].
      unfold final_ops. cbn [run_phase hits]. rewrite Nat.eqb_refl.
      eexists. split; [reflexivity|]. cbn [partial_op apply_op]. unfold exists_file. rewrite L1.
      destruct d.
      + split; [|split; [apply lookup_remove_same|]].
        * unfold SD in D1. rewrite <- D1. apply content_lookup. apply lookup_remove_other. exact JA.
        * intros g NA NJ. rewrite lookup_remove_other by congruence. apply O1; assumption.
      + split; [exact D1|split; [exact L1|exact O1]].
    - exfalso. destruct (run_phase (rollback_for A off s1) n1 None None s1) as [[s2 e2] n2].
      destruct e2; try discriminate;
        destruct (run_phase (final_ops A) n2 None None s2) as [[s3 e3] n3]; destruct e3; discriminate.
    - discriminate.
  Qed.

  (* a fault planned beyond the last primitive never fires *)
  Lemma fault_beyond k d w :
    (length (main_ops A off chunks) < k)%nat ->
    write_record A chunks (Some (Intr k d w)) None s = write_record A chunks None None s.
  Proof.
    intros Hk. unfold write_record, write_record2.
    rewrite run_phase_fault_beyond by (cbn [plus]; lia).
    destruct (run_phase (main_ops A off chunks) 0 None None s) as [[s1 e1] n1] eqn:RM.
    destruct e1; try reflexivity.
    pose proof (run_phase_ok_index _ _ _ _ _ _ _ RM) as N1. cbn [plus] in N1. subst n1.
    rewrite run_phase_fault_beyond by (cbn [final_ops length]; lia). reflexivity.
  Qed.

  (* one attempt under an arbitrary fault plan (no crash): always Completed or Raised, the archive is
     old or old + record according to [survives], the other files are untouched, and the journal is
     gone unless the unlink itself failed without effect *)
  Theorem append_outcome flt :
    exists s', (write_record A chunks flt None s = Completed s' \/ write_record A chunks flt None s = Raised s')
      /\ content s' A = (if survives (chunks, flt) then old ++ concat chunks else old)
      /\ (forall g, g <> A -> g <> J -> lookup s' g = lookup s g)
      /\ (clean (chunks, flt) = true -> lookup s' J = None).
  Proof.
    destruct flt as [[k d w]|].
    - unfold survives, clean. cbn [fst snd].
      destruct (Nat.lt_trichotomy k (n_main chunks)) as [Hk|[Hk|Hk]].
      + destruct (io_error_restores k d w) as [s' [R [C [LJ O]]]]; [rewrite main_ops_length; exact Hk|].
        exists s'. split; [right; exact R|].
        replace (Nat.leb (n_main chunks) k) with false by (symmetry; apply Nat.leb_gt; exact Hk).
        split; [exact C|split; [exact O|intros _; exact LJ]].
      + subst k. destruct (unlink_fault_full d w) as [s' [R [C [LJ O]]]].
        rewrite main_ops_length in R.
        exists s'. split; [right; exact R|]. rewrite Nat.leb_refl.
        split; [exact C|split; [exact O|]]. rewrite Nat.eqb_refl. cbn [negb orb].
        intros ->. exact LJ.
      + destruct success_appends as [s' [R [C [LJ O]]]].
        exists s'. split; [left; rewrite fault_beyond by (rewrite main_ops_length; exact Hk); exact R|].
        replace (Nat.leb (n_main chunks) k) with true by (symmetry; apply Nat.leb_le; lia).
        split; [exact C|split; [exact O|intros _; exact LJ]].
    - destruct success_appends as [s' [R [C [LJ O]]]].
      exists s'. split; [left; exact R|]. cbn. split; [exact C|split; [exact O|intros _; exact LJ]].
  Qed.
End Append.

(* ---------------------------------------- validity-level corollary of the crash theorem *)
Section Valid.
  Variable valid : bytes -> Prop.      (* "is a valid record sequence" (C05's strict reader) *)

  Theorem crash_recoverable_valid s A chunks flt crash s' :
    valid (content s A) ->
    valid (content s A ++ concat chunks) ->
    write_record A chunks flt crash s = Crashed s' ->
    valid (content s' A)
    \/ (lookup s' (journal_name A) <> None
        /\ parse_journal (content s' (journal_name A)) = Some (size s A)
        /\ truncate_to (size s A) (content s' A) = content s A
        /\ valid (truncate_to (size s A) (content s' A))).
  Proof.
    intros V0 V1 R. destruct (crash_recoverable s A chunks flt crash s' R) as [E|[E|[L [PJ T]]]].
    - left. now rewrite E.
    - left. now rewrite E.
    - right. repeat split; try assumption. now rewrite T.
  Qed.
End Valid.

(* ------------------------------------------------------------ histories of appends *)
Definition data_of (e : attempt) : bytes := concat (fst e).

Definition kept (h : list attempt) : bytes := concat (map data_of (filter survives h)).

Lemma state_of_outcome s A chunks flt s' :
  (write_record A chunks flt None s = Completed s' \/ write_record A chunks flt None s = Raised s') ->
  state_of (write_record A chunks flt None s) = s'.
Proof. intros [-> | ->]; reflexivity. Qed.

(* after ANY sequence of attempts, each with a fault at an arbitrary primitive and with an
   arbitrary partial effect: the archive is exactly the old archive followed by the records
   of the attempts that survived, in order; no other file changed *)
Theorem history_content A : forall h s,
  content (run_history A h s) A = content s A ++ kept h
  /\ forall g, g <> A -> g <> journal_name A -> lookup (run_history A h s) g = lookup s g.
Proof.
  induction h as [|[chunks flt] h IH]; intros s.
  - cbn. split; [now rewrite app_nil_r|reflexivity].
  - cbn [run_history].
    destruct (append_outcome s A chunks flt) as [s' [R [C [O _]]]].
    rewrite (state_of_outcome _ _ _ _ _ R).
    destruct (IH s') as [IC IO]. split.
    + rewrite IC, C. unfold kept. cbn [filter].
      destruct (survives (chunks, flt)); cbn [map concat]; [|reflexivity].
      unfold data_of at 1. cbn [fst]. now rewrite app_assoc.
    + intros g NA NJ. rewrite IO by assumption. apply O; assumption.
Qed.

(* ... and no journal is left when the last attempt was clean (or there was none and there was no journal) *)
Theorem history_journal A : forall h s,
  lookup s (journal_name A) = None ->
  Forall (fun e => clean e = true) h ->
  lookup (run_history A h s) (journal_name A) = None.
Proof.
  induction h as [|[chunks flt] h IH]; intros s L F; [exact L|].
  cbn [run_history]. inversion F as [|e t Fe Ft]; subst.
  destruct (append_outcome s A chunks flt) as [s' [R [_ [_ LJ]]]].
  rewrite (state_of_outcome _ _ _ _ _ R). apply IH; [apply LJ; exact Fe|exact Ft].
Qed.

Section HistoryValid.
  Variable valid : bytes -> bool.        (* the strict reader, plain or compressed *)
  Hypothesis valid_app : forall a b, valid a = true -> valid b = true -> valid (a ++ b) = true.
  Hypothesis valid_nil : valid [] = true.

  Lemma kept_valid h : Forall (fun e => valid (data_of e) = true) h -> valid (kept h) = true.
  Proof.
    unfold kept. induction 1 as [|e h He Hh IH]; [exact valid_nil|].
    cbn [filter]. destruct (survives e); [|exact IH]. cbn [map concat]. apply valid_app; assumption.
  Qed.

  (* the archive stays a valid record sequence through every history of failed and successful appends *)
  Theorem history_valid A h s :
    valid (content s A) = true ->
    Forall (fun e => valid (data_of e) = true) h ->
    valid (content (run_history A h s) A) = true.
  Proof.
    intros V F. destruct (history_content A h s) as [C _]. rewrite C.
    apply valid_app; [exact V|apply kept_valid; exact F].
  Qed.

  (* one append, crash at any point: validity-level statement with the reader *)
  Theorem crash_valid s A chunks flt crash s' :
    valid (content s A) = true ->
    valid (concat chunks) = true ->
    write_record A chunks flt crash s = Crashed s' ->
    valid (content s' A) = true
    \/ (lookup s' (journal_name A) <> None
        /\ parse_journal (content s' (journal_name A)) = Some (size s A)
        /\ truncate_to (size s A) (content s' A) = content s A
        /\ valid (truncate_to (size s A) (content s' A)) = true).
  Proof.
    intros V0 V1 R.
    apply (crash_recoverable_valid (fun c => valid c = true) s A chunks flt crash s' V0); [|exact R].
    apply valid_app; assumption.
  Qed.

  (* a whole run: any history of attempts with faults, then the process dies during a further append *)
  Theorem history_then_crash A h chunks flt crash s s' :
    valid (content s A) = true ->
    Forall (fun e => valid (data_of e) = true) h ->
    valid (concat chunks) = true ->
    write_record A chunks flt crash (run_history A h s) = Crashed s' ->
    valid (content s' A) = true
    \/ (lookup s' (journal_name A) <> None
        /\ parse_journal (content s' (journal_name A)) = Some (size (run_history A h s) A)
        /\ truncate_to (size (run_history A h s) A) (content s' A) = content s A ++ kept h
        /\ valid (truncate_to (size (run_history A h s) A) (content s' A)) = true).
  Proof.
    intros V F V1 R.
    pose proof (history_valid A h s V F) as VH.
    destruct (crash_valid _ _ _ _ _ _ VH V1 R) as [H|[L [PJ [T VT]]]]; [left; exact H|right].
    repeat split; try assumption. rewrite T. apply history_content.
  Qed.
End HistoryValid.

(* ------------------------------------------------------------ start-up check *)
Lemma lookup_in (s : fs) (f : name) : lookup s f <> None -> exists c, In (f, c) s.
Proof.
  induction s as [|[g d] r IH]; cbn; [congruence|].
  destruct (leqb g f) eqn:E.
  - apply leqb_eq in E. subst g. intros _. exists d. now left.
  - intros H. destruct (IH H) as [c Hc]. exists c. now right.
Qed.

Lemma digits_no_slash (l : list N) : forallb is_digit l = true -> has_slash l = false.
Proof.
  unfold has_slash. induction l as [|x l IH]; cbn [forallb existsb]; [reflexivity|].
  intros H. apply andb_true_iff in H. destruct H as [H1 H2]. rewrite (IH H2).
  unfold is_digit in H1. destruct (N.eqb 47 x) eqn:E; [|reflexivity]. lia.
Qed.

Lemma has_slash_app (a b : list N) : has_slash (a ++ b) = has_slash a || has_slash b.
Proof. apply existsb_app. Qed.

Lemma seq_name_no_slash sized meta seq : has_slash (seq_name sized meta seq) = false.
Proof.
  unfold seq_name. destruct sized; cbn [negb]; [|reflexivity]. destruct meta; [reflexivity|].
  change (45 :: dec_pad 5 seq) with ([45] ++ dec_pad 5 seq). rewrite has_slash_app.
  rewrite (digits_no_slash _ (dec_pad_digits 5 seq)). reflexivity.
Qed.

Lemma journal_is_journal_for prefix sized meta seq compress :
  is_journal_for prefix (journal_name (warc_filename prefix sized meta seq compress)) = true.
Proof.
  unfold is_journal_for, journal_name, warc_filename.
  rewrite <- !app_assoc. rewrite strip_prefix_app.
  rewrite !has_slash_app, seq_name_no_slash.
  assert (E : has_slash (if compress then s_warc_gz else s_warc) = false) by (destruct compress; reflexivity).
  rewrite E. cbn [orb negb andb].
  unfold endswith. rewrite !app_assoc. rewrite rev_app_distr, strip_prefix_app. reflexivity.
Qed.

Theorem refuses_leftover prefix sized meta seq compress s :
  lookup s (journal_name (warc_filename prefix sized meta seq compress)) <> None ->
  new_recorder_check prefix s = StartRefused.
Proof.
  intros L. destruct (lookup_in _ _ L) as [c Hc].
  unfold new_recorder_check, journals_present.
  assert (E : existsb (fun e => is_journal_for prefix (fst e)) s = true).
  { apply existsb_exists. eexists. split; [exact Hc|]. cbn [fst]. apply journal_is_journal_for. }
  now rewrite E.
Qed.

(* after a crash that left the recovery case behind, the next run refuses to start *)
Theorem crashed_then_refused prefix sized meta seq compress chunks flt crash s s' :
  let A := warc_filename prefix sized meta seq compress in
  write_record A chunks flt crash s = Crashed s' ->
  content s' A = content s A \/ content s' A = content s A ++ concat chunks
  \/ new_recorder_check prefix s' = StartRefused.
Proof.
  intros A R. destruct (crash_recoverable s A chunks flt crash s' R) as [E|[E|[L _]]]; [tauto|tauto|].
  right; right. eapply refuses_leftover. exact L.
Qed.

(* the constructor of a new run: while ANY journal of this prefix exists it raises and touches nothing *)
Theorem init_refuses prefix sized0 meta seq compress0 sized compress appending info flt crash s :
  lookup s (journal_name (warc_filename prefix sized0 meta seq compress0)) <> None ->
  recorder_init prefix sized compress appending info flt crash s = (StartRefused, Raised s).
Proof.
  intros L. unfold recorder_init. rewrite (refuses_leftover _ _ _ _ _ _ L). reflexivity.
Qed.
