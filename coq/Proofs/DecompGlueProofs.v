(* Proofs about Model/DecompGlue.v: the glue of http/stream.py around the content
   decoders.  For EVERY zlib machine, every Content-Encoding value, every
   segmentation oracle: what read_body writes to the file is the one-shot
   reference decoding of the entity body, and any decoding failure is a
   ProtocolError. *)
From Coq Require Import List NArith Bool Arith Lia.
From Wpull Require Import Lib.ListX Lib.Conn Model.Decomp Model.DecompGlue Proofs.DecompProofs.
Import ListNotations.
Open Scope N_scope.

(* ------------------------------------------------------------------ *)
(* the readers (no zlib involved) *)

Lemma close_pieces_spec o : forall fuel c, (length (pending c) < fuel)%nat ->
  concat (fst (close_pieces o fuel c)) = pending c
  /\ Forall (fun p => p <> []) (fst (close_pieces o fuel c)).
Proof.
  induction fuel as [|f IH]; intros c Hf; [lia|].
  cbn [close_pieces].
  assert (Hcase : pending c = [] \/ pending c <> [])
    by (destruct (pending c); [now left | right; congruence]).
  destruct Hcase as [E|Hne].
  - rewrite read_eof by assumption. cbn. rewrite E. split; [reflexivity|constructor].
  - destruct (read_some o read_size c Hne ltac:(unfold read_size; lia)) as (m & Hm0 & Hmn & Hml & R).
    rewrite R.
    assert (Hd : firstn m (pending c) <> []) by now apply firstn_nonempty.
    destruct (firstn m (pending c)) as [|d0 d] eqn:ED; [congruence|]. rewrite <- ED in *. clear ED d0 d.
    specialize (IH (mkConn (skipn m (pending c)) (eof_hit c))).
    cbn [pending] in IH. rewrite skipn_length in IH. specialize (IH ltac:(lia)).
    destruct (close_pieces o f _) as [ps c2]. cbn [fst] in *. destruct IH as [I1 I2].
    split.
    + rewrite concat_cons_app, I1. apply firstn_skipn.
    + constructor; assumption.
Qed.

Lemma firstn_firstn_le {A} (i j : nat) (l : list A) : (i <= j)%nat -> firstn i (firstn j l) = firstn i l.
Proof. intros H. rewrite firstn_firstn. now rewrite Nat.min_l. Qed.

Lemma length_pieces_spec o : forall fuel left c, (left <= fuel)%nat ->
  let '(ps, l', _) := length_pieces o fuel left c in
  concat ps = firstn left (pending c)
  /\ Forall (fun p => p <> []) ps
  /\ (0 <? l')%nat = (length (pending c) <? left)%nat.
Proof.
  induction fuel as [|f IH]; intros left c Hf.
  - assert (left = O) by lia. subst. cbn. repeat split; constructor.
  - cbn [length_pieces]. destruct left as [|l].
    { cbn. repeat split; constructor. }
    assert (Hcase : pending c = [] \/ pending c <> [])
      by (destruct (pending c); [now left | right; congruence]).
    destruct Hcase as [E|Hne].
    + rewrite read_eof by assumption. rewrite E. cbn. repeat split; constructor.
    + destruct (read_some o read_size c Hne ltac:(unfold read_size; lia)) as (m & Hm0 & Hmn & Hml & R).
      rewrite R.
      assert (Hd : firstn m (pending c) <> []) by now apply firstn_nonempty.
      destruct (firstn m (pending c)) as [|d0 d] eqn:ED; [congruence|]. rewrite <- ED in *. clear ED d0 d.
      rewrite firstn_length_le by lia.
      destruct (Nat.ltb_spec (S l) m) as [Hov|Hin].
      * (* overrun: the read is cut to bytes_left *)
        rewrite firstn_firstn_le by lia. cbn [concat]. rewrite app_nil_r.
        repeat split.
        -- constructor; [|constructor]. apply firstn_nonempty; [lia|assumption].
        -- symmetry. apply Nat.ltb_ge. lia.
      * specialize (IH (S l - m)%nat (mkConn (skipn m (pending c)) (eof_hit c)) ltac:(lia)).
        destruct (length_pieces o f (S l - m) _) as [[ps l'] c2]. cbn [pending] in IH.
        destruct IH as (I1 & I2 & I3).
        repeat split.
        -- rewrite concat_cons_app, I1.
           replace (S l) with (m + (S l - m))%nat at 2 by lia. now rewrite firstn_plus.
        -- constructor; assumption.
        -- rewrite I3, skipn_length.
           destruct (Nat.ltb_spec (length (pending c) - m) (S l - m)), (Nat.ltb_spec (length (pending c)) (S l));
             try reflexivity; lia.
Qed.

(* a well-framed chunked body: size line, content, line end (CRLF or LF) -
   repeated - then the size line of the terminating chunk; [rest] is what follows
   it (trailer ...) *)
Definition line_ok (l : list N) : Prop := ~ In 10 l /\ (N.of_nat (length l) <= line_limit)%N.
Definition nl_ok (l : list N) : Prop := ~ In 10 l /\ (length l <= 1)%nat.

Inductive framed : list (list N) -> list N -> list N -> Prop :=
| framed_last : forall line rest, line_ok line -> framed [] (line ++ 10 :: rest) rest
| framed_chunk : forall line content nl chunks wire rest,
    line_ok line -> content <> [] -> nl_ok nl -> framed chunks wire rest ->
    framed (content :: chunks) (line ++ 10 :: content ++ nl ++ 10 :: wire) rest.

Lemma ends_lf_app a : ends_lf (a ++ [10]) = true.
Proof.
  induction a as [|x a IH]; [reflexivity|].
  cbn [app ends_lf]. destruct (a ++ [10]) eqn:E; [destruct a; discriminate|]. exact IH.
Qed.

Lemma size_line_ok a b e : line_ok a -> size_line (mkConn (a ++ 10 :: b) e) = (None, mkConn b e).
Proof. intros [H1 H2]. unfold size_line. rewrite readline_line by assumption. now rewrite ends_lf_app. Qed.

Lemma end_line_ok a b e : nl_ok a -> end_line (mkConn (a ++ 10 :: b) e) = (None, mkConn b e).
Proof.
  intros [H1 H2]. unfold end_line. rewrite readline_line; [|assumption|unfold line_limit; lia].
  rewrite app_length. cbn [length].
  destruct (Nat.ltb_spec 2 (length a + 1)); [lia|reflexivity].
Qed.

Lemma chunk_pieces_spec o chunks wire rest : framed chunks wire rest -> forall e,
  exists ps, chunk_pieces o (map (@length N) chunks) (mkConn wire e) = (ps, None, mkConn rest e)
             /\ concat ps = concat chunks /\ Forall (fun p => p <> []) ps.
Proof.
  induction 1 as [line rest Hl | line content nl chunks wire rest Hl Hc Hn Hf IH]; intros e.
  - exists []. cbn [map chunk_pieces]. rewrite size_line_ok by assumption. cbn. repeat split. constructor.
  - cbn [map chunk_pieces]. rewrite size_line_ok by assumption.
    set (n := length content).
    pose proof (read_exact_spec o read_size ltac:(unfold read_size; lia) n n
                  (mkConn (content ++ nl ++ 10 :: wire) e) (le_n n)) as HS.
    destruct (read_exact o n n read_size _) as [ps c2]. cbn [pending eof_hit] in HS.
    destruct HS as (S1 & S2 & S3 & S4).
    assert (F : firstn n (content ++ nl ++ 10 :: wire) = content).
    { subst n. rewrite firstn_app, Nat.sub_diag, firstn_O, app_nil_r. apply firstn_all. }
    assert (K : skipn n (content ++ nl ++ 10 :: wire) = nl ++ 10 :: wire).
    { subst n. rewrite skipn_app, Nat.sub_diag, skipn_all. reflexivity. }
    rewrite F in S1. rewrite K in S3.
    assert (L : Nat.ltb (length (content ++ nl ++ 10 :: wire)) n = false).
    { apply Nat.ltb_ge. subst n. rewrite app_length. lia. }
    rewrite L, orb_false_r in S4.
    rewrite S1. fold n. rewrite Nat.ltb_irrefl.
    destruct c2 as [p2 e2]. cbn [pending eof_hit] in S3, S4. subst p2 e2.
    rewrite end_line_ok by assumption.
    destruct (IH e) as (qs & Q1 & Q2 & Q3). rewrite Q1.
    exists (ps ++ qs). repeat split.
    + rewrite concat_app, S1, Q2. reflexivity.
    + apply Forall_app. split; assumption.
Qed.

(* ------------------------------------------------------------------ *)
(* the glue *)
Section Proofs.
  Variable zst : Type.
  Variable zinit : wbits -> zst.
  Variable zstep : zst -> N -> option (zst * list N).
  Variable zeof : zst -> bool.
  Variable zfl : zst -> list N.

  Notation run_from := (run_from zst zinit zstep zeof zfl).
  Notation run := (run zst zinit zstep zeof zfl).
  Notation reference := (reference zst zinit zstep zeof zfl).
  Notation glue_loop := (glue_loop zst zinit zstep).
  Notation glue_finish := (glue_finish zst zeof zfl).
  Notation glue_run := (glue_run zst zinit zstep zeof zfl).
  Notation read_body := (read_body zst zinit zstep zeof zfl).

  (* the file-writing loop + flush computes exactly Model/Decomp.run_from, and
     the only error it can raise is ProtocolError *)
  Lemma glue_loop_view ps : forall s file,
    gres_view (glue_finish None (glue_loop s ps file)) =
    match run_from s ps with Some o => inl (file ++ o) | None => inr GProtocolErr end.
  Proof.
    induction ps as [|p r IH]; intros s file; cbn [DecompGlue.glue_loop Decomp.run_from].
    - cbn [DecompGlue.glue_finish]. destruct (flush zst zeof zfl s); reflexivity.
    - destruct (decompress zst zinit zstep s p) as [[s' o]|]; [|reflexivity].
      rewrite IH. destruct (run_from s' r) as [o'|]; [|reflexivity]. now rewrite app_assoc.
  Qed.

  Lemma glue_run_view raw ce ps :
    gres_view (glue_run raw ce None ps) = ref_view (run (select_kind raw ce) ps).
  Proof.
    unfold DecompGlue.glue_run, Decomp.run. rewrite glue_loop_view.
    destruct (run_from _ ps); reflexivity.
  Qed.

  (* PIECES level *)
  Theorem stream_glue raw ce ps :
    Forall (fun p => p <> []) ps ->
    gres_view (glue_run raw ce None ps) = ref_view (reference (select_kind raw ce) (concat ps)).
  Proof. intros H. rewrite glue_run_view. now rewrite (run_is_reference zst zinit zstep zeof zfl). Qed.

  (* a length-delimited body that fell short / an EOF inside a chunk is never a success *)
  Lemma glue_short_not_ok raw ce e ps f : glue_run raw ce (Some e) ps <> GOk f.
  Proof.
    unfold DecompGlue.glue_run.
    destruct (glue_loop _ ps []) as [[s|] file]; cbn; congruence.
  Qed.

  (* WIRE level: for every oracle (= every way the connection cuts the stream) *)
  Theorem stream_glue_close o raw ce wire :
    gres_view (read_body o raw ce SClose wire) = ref_view (reference (select_kind raw ce) wire).
  Proof.
    unfold DecompGlue.read_body, body_pieces.
    destruct (close_pieces_spec o (S (length wire)) (mkConn wire false)) as [C1 C2]; [cbn; lia|].
    cbn [pending] in *. rewrite stream_glue by assumption. now rewrite C1.
  Qed.

  Theorem stream_glue_length o raw ce n wire :
    (n <= length wire)%nat ->
    gres_view (read_body o raw ce (SLength n) wire) = ref_view (reference (select_kind raw ce) (firstn n wire)).
  Proof.
    intros Hn. unfold DecompGlue.read_body, body_pieces.
    pose proof (length_pieces_spec o (S n) n (mkConn wire false) ltac:(lia)) as HS.
    destruct (length_pieces o (S n) n _) as [[ps l'] c2]. cbn [pending] in HS.
    destruct HS as (S1 & S2 & S3). rewrite S3.
    replace (length wire <? n)%nat with false by (symmetry; apply Nat.ltb_ge; lia).
    rewrite stream_glue by assumption. now rewrite S1.
  Qed.

  Theorem stream_glue_length_short o raw ce n wire f :
    (length wire < n)%nat -> read_body o raw ce (SLength n) wire <> GOk f.
  Proof.
    intros Hn. unfold DecompGlue.read_body, body_pieces.
    pose proof (length_pieces_spec o (S n) n (mkConn wire false) ltac:(lia)) as HS.
    destruct (length_pieces o (S n) n _) as [[ps l'] c2]. cbn [pending] in HS.
    destruct HS as (S1 & S2 & S3). rewrite S3.
    replace (length wire <? n)%nat with true by (symmetry; apply Nat.ltb_lt; lia).
    apply glue_short_not_ok.
  Qed.

  Theorem stream_glue_chunked o raw ce chunks wire rest :
    framed chunks wire rest ->
    gres_view (read_body o raw ce (SChunked (map (@length N) chunks)) wire)
    = ref_view (reference (select_kind raw ce) (concat chunks)).
  Proof.
    intros Hf. unfold DecompGlue.read_body, body_pieces.
    destruct (chunk_pieces_spec o chunks wire rest Hf false) as (ps & P1 & P2 & P3).
    rewrite P1. rewrite stream_glue by assumption. now rewrite P2.
  Qed.

  (* ---- gzip_uncompress ---- *)
  Notation gzip_uncompress := (gzip_uncompress zst zinit zstep zeof zfl).

  Lemma gzip_uncompress_full data : gzip_uncompress data false = whole zst zinit zstep zeof zfl W31 data.
  Proof.
    unfold DecompGlue.gzip_uncompress, Decomp.whole, Decomp.zflush.
    destruct (zfeed zst zstep (zinit W31) data) as [[z o]|]; [|reflexivity]. destruct (zeof z); reflexivity.
  Qed.

  (* on a prefix (truncated=True) it returns a prefix of what the longer buffer
     gives, and an error on the prefix is an error on every extension *)
  Lemma gzip_uncompress_prefix a b :
    match gzip_uncompress a true with
    | None => gzip_uncompress (a ++ b) true = None
    | Some o1 => gzip_uncompress (a ++ b) true = None
                 \/ exists o2, gzip_uncompress (a ++ b) true = Some (o1 ++ o2)
    end.
  Proof.
    unfold DecompGlue.gzip_uncompress. rewrite (zfeed_app zst zstep).
    destruct (zfeed zst zstep (zinit W31) a) as [[z1 o1]|]; [|reflexivity].
    destruct (zfeed zst zstep z1 b) as [[z2 o2]|]; [right; now exists o2 | now left].
  Qed.

  Theorem gzip_uncompress_spec data a b :
    gzip_uncompress data false = whole zst zinit zstep zeof zfl W31 data
    /\ match gzip_uncompress a true with
       | None => gzip_uncompress (a ++ b) true = None
       | Some o1 => gzip_uncompress (a ++ b) true = None
                    \/ exists o2, gzip_uncompress (a ++ b) true = Some (o1 ++ o2)
       end.
  Proof. split; [apply gzip_uncompress_full | apply gzip_uncompress_prefix]. Qed.


  (* --ignore-length: a Content-Length is not believed, the body is everything up to EOF *)
  Theorem stream_glue_ignore_length o raw ce n wire :
    gres_view (read_body_il zst zinit zstep zeof zfl o raw ce true (SLength n) wire)
    = ref_view (reference (select_kind raw ce) wire).
  Proof. unfold read_body_il, effective. apply stream_glue_close. Qed.

  Theorem stream_glue_wire (o : oracle) (raw : bool) (ce : list N) :
    (forall wire,
        gres_view (read_body o raw ce SClose wire) = ref_view (reference (select_kind raw ce) wire))
    /\ (forall n wire, (n <= length wire)%nat ->
        gres_view (read_body o raw ce (SLength n) wire) = ref_view (reference (select_kind raw ce) (firstn n wire)))
    /\ (forall chunks wire rest, framed chunks wire rest ->
        gres_view (read_body o raw ce (SChunked (map (@length N) chunks)) wire)
        = ref_view (reference (select_kind raw ce) (concat chunks))).
  Proof.
    split; [|split].
    - apply stream_glue_close.
    - apply stream_glue_length.
    - apply stream_glue_chunked.
  Qed.
End Proofs.

(* ------------------------------------------------------------------ *)
(* _setup_decompressor: which header values select which decoder *)
Lemma str_eqb_eq a : forall b, str_eqb a b = true <-> a = b.
Proof.
  induction a as [|x a IH]; intros [|y b]; cbn [str_eqb]; try (split; [discriminate|congruence]).
  - split; reflexivity.
  - rewrite andb_true_iff, N.eqb_eq, IH. split; [intros [-> ->]; reflexivity | intros [= -> ->]; split; reflexivity].
Qed.

Lemma select_kind_spec raw ce :
  select_kind raw ce =
  if raw then KIdentity
  else if str_eqb (map ascii_lower ce) s_gzip then KGzip
  else if str_eqb (map ascii_lower ce) s_deflate then KDeflate else KIdentity.
Proof. reflexivity. Qed.

Lemma select_gzip_iff ce : select_kind false ce = KGzip <-> map ascii_lower ce = s_gzip.
Proof.
  unfold select_kind. destruct (str_eqb (map ascii_lower ce) s_gzip) eqn:E.
  - apply str_eqb_eq in E. split; auto.
  - split; [destruct (str_eqb _ s_deflate); discriminate|].
    intros H. apply str_eqb_eq in H. congruence.
Qed.

Lemma select_deflate_iff ce : select_kind false ce = KDeflate <-> map ascii_lower ce = s_deflate.
Proof.
  unfold select_kind. destruct (str_eqb (map ascii_lower ce) s_gzip) eqn:E.
  - apply str_eqb_eq in E. split; [discriminate|]. intros H. rewrite H in E. discriminate.
  - destruct (str_eqb (map ascii_lower ce) s_deflate) eqn:E2.
    + apply str_eqb_eq in E2. split; auto.
    + split; [discriminate|]. intros H. apply str_eqb_eq in H. congruence.
Qed.

Theorem content_encoding_selection (ce : list N) :
  (select_kind false ce = KGzip <-> map ascii_lower ce = s_gzip)
  /\ (select_kind false ce = KDeflate <-> map ascii_lower ce = s_deflate)
  /\ select_kind true ce = KIdentity.
Proof. split; [apply select_gzip_iff | split; [apply select_deflate_iff | reflexivity]]. Qed.
