(* C09 - soundness of the escape analysis of Model/ExcLang.v:
   whatever class the big-step semantics can raise out of a function is a
   subclass of some class in [escapes P f fuel], for EVERY fuel (exhaustion
   yields the "unknown" result, which covers everything). *)
From Coq Require Import List NArith Bool Lia.
From Wpull Require Import Model.ExcLang.
Import ListNotations.
Open Scope N_scope.

(* ---------- small facts about assoc / memb / sub ---------- *)
Lemma memb_In x l : memb x l = true <-> In x l.
Proof.
  unfold memb. rewrite existsb_exists. split.
  - intros (y & Hy & E). apply N.eqb_eq in E. subst. exact Hy.
  - intros H. exists x. split; [exact H | apply N.eqb_refl].
Qed.

Lemma assoc_In {A} k (l : list (N * A)) v : assoc k l = Some v -> In (k, v) l.
Proof.
  induction l as [|[k' v'] r IH]; cbn [assoc]; intros H; [discriminate|].
  destruct (k =? k') eqn:E.
  - apply N.eqb_eq in E. inversion H. subst. left. reflexivity.
  - right. apply IH. exact H.
Qed.

Lemma sub_refl P c : sub P c c = true.
Proof. unfold sub. rewrite N.eqb_refl. reflexivity. Qed.

Lemma sub_trans P c k h :
  mro_closed P = true -> sub P c k = true -> sub P k h = true -> sub P c h = true.
Proof.
  intros Hcl Hck Hkh. unfold sub in *.
  apply orb_true_iff in Hck. destruct Hck as [E|Hck].
  { apply N.eqb_eq in E. subst. exact Hkh. }
  apply orb_true_iff in Hkh. destruct Hkh as [E|Hkh].
  { apply N.eqb_eq in E. subst. rewrite Hck. apply orb_true_r. }
  unfold supers in Hck |- *. destruct (assoc c (mros P)) as [ms|] eqn:Ea; [|discriminate Hck].
  pose proof (assoc_In _ _ _ Ea) as Hin.
  unfold mro_closed in Hcl. rewrite forallb_forall in Hcl. specialize (Hcl _ Hin). cbn [fst snd] in Hcl.
  rewrite forallb_forall in Hcl. apply memb_In in Hck. specialize (Hcl _ Hck).
  rewrite forallb_forall in Hcl. apply memb_In in Hkh. specialize (Hcl _ Hkh).
  apply orb_true_iff in Hcl. destruct Hcl as [E|Hm].
  - apply N.eqb_eq in E. subst. rewrite N.eqb_refl. reflexivity.
  - rewrite Hm. apply orb_true_r.
Qed.

Lemma matches_exists P c cs : matches P c cs = true <-> exists h, In h cs /\ sub P c h = true.
Proof. unfold matches. apply existsb_exists. Qed.

Lemma matches_trans P c k cs :
  mro_closed P = true -> sub P c k = true -> matches P k cs = true -> matches P c cs = true.
Proof.
  intros Hcl Hck Hm. apply matches_exists in Hm. destruct Hm as (h & Hh & Hkh).
  apply matches_exists. exists h. split; [exact Hh|]. eapply sub_trans; eassumption.
Qed.

(* ---------- coverage ---------- *)
Definition covers (P : prog) (a : aset) (c : cls) : Prop :=
  match a with
  | None => True
  | Some ks => exists k, In k ks /\ sub P c k = true
  end.

Lemma add_all_acc xs : forall acc x, In x acc -> In x (add_all xs acc).
Proof.
  induction xs as [|y r IH]; intros acc x H; cbn [add_all]; [exact H|].
  destruct (memb y acc); apply IH; [exact H|]. apply in_or_app. left. exact H.
Qed.

Lemma add_all_xs xs : forall acc x, In x xs -> In x (add_all xs acc).
Proof.
  induction xs as [|y r IH]; intros acc x H; cbn [add_all]; [destruct H|].
  destruct H as [E|H].
  - subst. destruct (memb x acc) eqn:M.
    + apply add_all_acc. apply memb_In. exact M.
    + apply add_all_acc. apply in_or_app. right. left. reflexivity.
  - destruct (memb y acc); apply IH; exact H.
Qed.

Lemma covers_union_l P a b c : covers P a c -> covers P (union a b) c.
Proof.
  destruct a as [x|], b as [y|]; cbn [union covers]; trivial.
  intros (k & Hk & Hs). exists k. split; [apply add_all_acc; exact Hk | exact Hs].
Qed.

Lemma covers_union_r P a b c : covers P b c -> covers P (union a b) c.
Proof.
  destruct a as [x|], b as [y|]; cbn [union covers]; trivial.
  intros (k & Hk & Hs). exists k. split; [apply add_all_xs; exact Hk | exact Hs].
Qed.

Lemma covers_fold_acc P (g : cls -> aset) ks : forall acc c,
  covers P acc c -> covers P (fold_left (fun a k => union a (g k)) ks acc) c.
Proof.
  induction ks as [|k r IH]; intros acc c H; cbn [fold_left]; [exact H|].
  apply IH. apply covers_union_l. exact H.
Qed.

Lemma covers_fold_in P (g : cls -> aset) ks : forall acc c k,
  In k ks -> covers P (g k) c -> covers P (fold_left (fun a k => union a (g k)) ks acc) c.
Proof.
  induction ks as [|k' r IH]; intros acc c k Hin H; cbn [fold_left]; [destruct Hin|].
  destruct Hin as [E|Hin].
  - subst. apply covers_fold_acc. apply covers_union_r. exact H.
  - eapply IH; eassumption.
Qed.

(* the abstract current exception describes the concrete one *)
Definition cur_ok (P : prog) (cur acur : option cls) : Prop :=
  match cur, acur with
  | None, None => True
  | Some c, Some k => sub P c k = true
  | _, _ => False
  end.

(* the fold of the partially-overlapping case of Match *)
Definition mstep (P : prog) (k : cls) (A : cls -> aset) (B : aset) (acc : aset) (h' : cls) : aset :=
  if sub P h' k then union acc (A h')
  else if overlap P k [h'] then union acc B
  else acc.

Lemma covers_mfold_acc P k A B cs : forall acc c,
  covers P acc c -> covers P (fold_left (mstep P k A B) cs acc) c.
Proof.
  induction cs as [|h' r IH]; intros acc c H; cbn [fold_left]; [exact H|].
  apply IH. unfold mstep. destruct (sub P h' k); [apply covers_union_l; exact H|].
  destruct (overlap P k [h']); [apply covers_union_l; exact H | exact H].
Qed.

Lemma covers_mfold_sub P k A B cs : forall acc c h',
  In h' cs -> sub P h' k = true -> covers P (A h') c -> covers P (fold_left (mstep P k A B) cs acc) c.
Proof.
  induction cs as [|x r IH]; intros acc c h' Hin Hs H; cbn [fold_left]; [destruct Hin|].
  destruct Hin as [E|Hin].
  - subst. apply covers_mfold_acc. unfold mstep. rewrite Hs. apply covers_union_r. exact H.
  - eapply IH; eassumption.
Qed.

Lemma covers_mfold_ov P k A B cs : forall acc c h',
  In h' cs -> sub P h' k = false -> overlap P k [h'] = true -> covers P B c ->
  covers P (fold_left (mstep P k A B) cs acc) c.
Proof.
  induction cs as [|x r IH]; intros acc c h' Hin Hs Ho H; cbn [fold_left]; [destruct Hin|].
  destruct Hin as [E|Hin].
  - subst. apply covers_mfold_acc. unfold mstep. rewrite Hs, Ho. apply covers_union_r. exact H.
  - eapply IH; eassumption.
Qed.

Lemma overlap_complete P c k cs :
  sub P c k = true -> matches P c cs = true -> matches P k cs = false -> overlap P k cs = true.
Proof.
  intros Hck Hm Hk. unfold overlap. apply existsb_exists.
  destruct (assoc c (mros P)) as [ms|] eqn:Ea.
  - exists c. split.
    + unfold universe. apply in_map_iff. exists (c, ms). split; [reflexivity | apply assoc_In; exact Ea].
    + rewrite Hck, Hm. reflexivity.
  - (* c has no superclasses: c = k, contradiction with Hk *)
    exfalso. unfold sub, supers in Hck. rewrite Ea in Hck. cbn [memb existsb] in Hck.
    rewrite orb_false_r in Hck. apply N.eqb_eq in Hck. subst. rewrite Hm in Hk. discriminate.
Qed.

Section Sound.
  Variable P : prog.
  Hypothesis Hcl : mro_closed P = true.

  Lemma esc_sound :
    forall cur t o, eval P cur t o ->
    forall c, o = OExc c ->
    forall n acur, cur_ok P cur acur ->
      covers P (esc_tm P (fun g => escapes P g n) acur t) c.
  Proof.
    induction 1; intros c0 Ho n acur Hcur; try discriminate Ho; cbn [esc_tm].
    - (* raise *) inversion Ho; subst. exists c0. split; [left; reflexivity | apply sub_refl].
    - (* reraise *) inversion Ho; subst. cbn [cur_ok] in Hcur. destruct acur as [k|]; [|destruct Hcur].
      exists k. split; [left; reflexivity | exact Hcur].
    - (* prim exc *) inversion Ho; subst. unfold prim_raises in H.
      destruct (assoc p (prims P)) as [l|]; [|destruct H]. exists k. split; assumption.
    - (* prim unknown *) unfold known_prim in H. destruct (assoc p (prims P)); [discriminate H | exact I].
    - (* call *) destruct n as [|m]; cbn [escapes]; [exact I|]. rewrite H.
      apply IHeval; [exact Ho | exact I].
    - (* call undefined *) destruct n as [|m]; cbn [escapes]; [exact I|]. rewrite H. exact I.
    - (* seq n *) apply covers_union_r. apply IHeval2; assumption.
    - (* seq e *) apply covers_union_l. apply IHeval; assumption.
    - (* branch l *) apply covers_union_l. apply IHeval; assumption.
    - (* branch r *) apply covers_union_r. apply IHeval; assumption.
    - (* loop s *) apply (IHeval2 c0 Ho n acur Hcur).
    - (* loop e *) apply IHeval; assumption.
    - (* catch e *)
      specialize (IHeval1 c eq_refl n acur Hcur).
      destruct (esc_tm P (fun g => escapes P g n) acur b) as [ks|]; [|exact I].
      destruct IHeval1 as (k & Hk & Hs).
      eapply covers_fold_in; [exact Hk|].
      apply IHeval2; [exact Ho | exact Hs].
    - (* match yes *)
      cbn [cur_ok] in Hcur. destruct acur as [k|]; [|destruct Hcur].
      destruct (matches P k cs) eqn:Mk.
      + apply IHeval; assumption.
      + apply covers_union_l.
        apply matches_exists in H. destruct H as (h' & Hin & Hch).
        change (covers P (fold_left (mstep P k (fun x => esc_tm P (fun g => escapes P g n) (Some x) h)
                                          (esc_tm P (fun g => escapes P g n) (Some k) h)) cs (Some [])) c0).
        destruct (sub P h' k) eqn:Shk.
        * eapply covers_mfold_sub; [exact Hin | exact Shk |]. apply IHeval; [exact Ho | exact Hch].
        * eapply covers_mfold_ov; [exact Hin | exact Shk | | apply IHeval; [exact Ho | exact Hcur]].
          apply (overlap_complete P c k [h'] Hcur).
          -- cbn [matches existsb]. rewrite Hch. reflexivity.
          -- cbn [matches existsb]. rewrite orb_false_r.
             destruct (sub P k h') eqn:Skh; [|reflexivity].
             exfalso. assert (matches P k cs = true) as Hm by (apply matches_exists; exists h'; split; assumption).
             rewrite Hm in Mk. discriminate Mk.
    - (* match no *)
      cbn [cur_ok] in Hcur. destruct acur as [k|]; [|destruct Hcur].
      destruct (matches P k cs) eqn:Mk.
      + rewrite (matches_trans _ _ _ _ Hcl Hcur Mk) in H. discriminate H.
      + apply covers_union_r. apply IHeval; assumption.
    - (* match none *)
      cbn [cur_ok] in Hcur. destruct acur as [k|]; [destruct Hcur|].
      apply IHeval; [exact Ho | exact I].
    - (* finally n *) apply covers_union_r. apply IHeval2; assumption.
    - (* finally e *) inversion Ho; subst. apply covers_union_l. apply IHeval1; [reflexivity | assumption].
    - (* finally ee *) apply covers_union_r. apply IHeval2; assumption.
  Qed.

  (* the main soundness statement, for every fuel *)
  Theorem escapes_sound_closed :
    forall f fuel c, raises P f c -> covers P (escapes P f fuel) c.
  Proof.
    intros f fuel c H. unfold raises in H.
    pose proof (esc_sound _ _ _ H c eq_refl fuel None I) as Hc.
    cbn [esc_tm] in Hc. exact Hc.
  Qed.

  Theorem escapes_within_closed :
    forall f fuel handled c,
      within P (escapes P f fuel) handled = true -> raises P f c -> matches P c handled = true.
  Proof.
    intros f fuel handled c Hw Hr.
    pose proof (escapes_sound_closed f fuel c Hr) as Hc.
    destruct (escapes P f fuel) as [ks|]; cbn [within covers] in *; [|discriminate Hw].
    destruct Hc as (k & Hk & Hs). rewrite forallb_forall in Hw.
    eapply matches_trans; [exact Hcl | exact Hs | apply Hw; exact Hk].
  Qed.
End Sound.

Definition escapes_sound := escapes_sound_closed.
Definition escapes_within := escapes_within_closed.

(* Nothing at all escapes when the analysis returns the empty set. *)
Corollary escapes_nil P f fuel c :
  mro_closed P = true -> escapes P f fuel = Some [] -> ~ raises P f c.
Proof.
  intros Hcl E Hr. pose proof (escapes_sound P Hcl f fuel c Hr) as Hc. rewrite E in Hc.
  destruct Hc as (k & [] & _).
Qed.

(* ---------- lists of entry points ---------- *)
Definition all_within (P : prog) (fs : list fname) (fuel : nat) (handled : list cls) : bool :=
  forallb (fun f => within P (escapes P f fuel) handled) fs.

Theorem entries_within P fs fuel handled :
  mro_closed P = true -> all_within P fs fuel handled = true ->
  forall f c, In f fs -> raises P f c -> matches P c handled = true.
Proof.
  intros Hcl Hall f c Hin Hr. unfold all_within in Hall. rewrite forallb_forall in Hall.
  eapply escapes_within; [exact Hcl | apply Hall; exact Hin | exact Hr].
Qed.

(* with an empty handled set: nothing escapes *)
Theorem entries_silent P fs fuel :
  mro_closed P = true -> all_within P fs fuel [] = true ->
  forall f c, In f fs -> ~ raises P f c.
Proof.
  intros Hcl Hall f c Hin Hr.
  pose proof (entries_within P fs fuel [] Hcl Hall f c Hin Hr) as Hm.
  cbn [matches existsb] in Hm. discriminate Hm.
Qed.

(* ---------- the under-approximation exhibits real outcomes ---------- *)
Definition dsound (P : prog) (cur : option cls) (t : tm) (r : dres) : Prop :=
  (fst r = true -> eval P cur t ONormal) /\ (forall c, In c (snd r) -> eval P cur t (OExc c)).

Lemma def_tm_sound P (call : fname -> dres) :
  (forall cur f, dsound P cur (Call f) (call f)) ->
  forall t cur, dsound P cur t (def_tm P call cur t).
Proof.
  intros Hcall. induction t as [ | c | | p | f | a IHa b IHb | a IHa b IHb | a IHa | b IHb d IHd | cs h IHh rest IHr | b IHb f IHf];
    intros cur; cbn [def_tm].
  - split; cbn [fst snd]; [intros _; constructor | intros c []].
  - split; cbn [fst snd]; [discriminate | intros c0 [E|[]]; subst; constructor].
  - destruct cur as [c|]; split; cbn [fst snd]; try discriminate.
    + intros c0 [E|[]]. subst. constructor.
    + intros c0 [].
  - split; cbn [fst snd]; [intros _; constructor|].
    intros c Hin. eapply E_prim_exc; [exact Hin | apply sub_refl].
  - apply Hcall.
  - destruct (IHa cur) as [Han Hae]. destruct (IHb cur) as [Hbn Hbe].
    split; cbn [fst snd].
    + intros H. apply andb_true_iff in H. destruct H as [Ha Hb]. eapply E_seq_n; [apply Han; exact Ha | apply Hbn; exact Hb].
    + intros c Hin. apply in_app_or in Hin. destruct Hin as [Hin|Hin].
      * apply E_seq_e. apply Hae. exact Hin.
      * destruct (fst (def_tm P call cur a)) eqn:Ea; [|destruct Hin].
        eapply E_seq_n; [apply Han; reflexivity | apply Hbe; exact Hin].
  - destruct (IHa cur) as [Han Hae]. destruct (IHb cur) as [Hbn Hbe].
    split; cbn [fst snd].
    + intros H. apply orb_true_iff in H. destruct H as [Ha|Hb]; [apply E_branch_l; apply Han; exact Ha | apply E_branch_r; apply Hbn; exact Hb].
    + intros c Hin. apply in_app_or in Hin. destruct Hin as [Hin|Hin]; [apply E_branch_l; apply Hae; exact Hin | apply E_branch_r; apply Hbe; exact Hin].
  - destruct (IHa cur) as [Han Hae]. split; cbn [fst snd].
    + intros _. constructor.
    + intros c Hin. apply E_loop_e. apply Hae. exact Hin.
  - destruct (IHb cur) as [Hbn Hbe]. split; cbn [fst snd].
    + intros H. apply orb_true_iff in H. destruct H as [Hb|Hd].
      * apply E_catch_n. apply Hbn. exact Hb.
      * apply existsb_exists in Hd. destruct Hd as (c & Hc & Hdn).
        eapply E_catch_e; [apply Hbe; exact Hc | apply (IHd (Some c)); exact Hdn].
    + intros c Hin. apply in_flat_map in Hin. destruct Hin as (k & Hk & Hin).
      eapply E_catch_e; [apply Hbe; exact Hk | apply (IHd (Some k)); exact Hin].
  - destruct cur as [c|].
    + destruct (matches P c cs) eqn:M.
      * destruct (IHh (Some c)) as [Hn He]. split.
        -- intros H. apply E_match_y; [exact M | apply Hn; exact H].
        -- intros c0 Hin. apply E_match_y; [exact M | apply He; exact Hin].
      * destruct (IHr (Some c)) as [Hn He]. split.
        -- intros H. apply E_match_n; [exact M | apply Hn; exact H].
        -- intros c0 Hin. apply E_match_n; [exact M | apply He; exact Hin].
    + destruct (IHr None) as [Hn He]. split.
      * intros H. apply E_match_none. apply Hn. exact H.
      * intros c0 Hin. apply E_match_none. apply He. exact Hin.
  - destruct (IHb cur) as [Hbn Hbe]. destruct (IHf cur) as [Hfn Hfe].
    split; cbn [fst snd].
    + intros H. apply andb_true_iff in H. destruct H as [Hb Hf]. eapply E_fin_n; [apply Hbn; exact Hb | apply Hfn; exact Hf].
    + intros c Hin. apply in_app_or in Hin. destruct Hin as [Hin|Hin].
      * destruct (fst (def_tm P call cur f)) eqn:Ef; [|destruct Hin].
        apply E_fin_e; [apply Hbe; exact Hin | apply Hfn; reflexivity].
      * destruct (fst (def_tm P call cur b)) eqn:Eb; cbn [orb] in Hin.
        -- eapply E_fin_n; [apply Hbn; reflexivity | apply Hfe; exact Hin].
        -- destruct (snd (def_tm P call cur b)) as [|k ks] eqn:Es; cbn [is_nil negb] in Hin; [destruct Hin|].
           eapply E_fin_ee; [apply Hbe; left; reflexivity | apply Hfe; exact Hin].
Qed.

Lemma definite_sound P : forall n cur f, dsound P cur (Call f) (definite P f n).
Proof.
  induction n as [|n IH]; intros cur f; cbn [definite].
  - split; cbn [fst snd]; [discriminate | intros c []].
  - destruct (assoc f (funs P)) as [body|] eqn:Ea.
    + destruct (def_tm_sound P (fun g => definite P g n) (fun cur0 g => IH cur0 g) body None) as [Hn He].
      split.
      * intros H. eapply E_call; [exact Ea | apply Hn; exact H].
      * intros c Hin. eapply E_call; [exact Ea | apply He; exact Hin].
    + split; cbn [fst snd]; [discriminate | intros c []].
Qed.

(* a class computed by [definite] really can leave the function *)
Theorem definite_raises P f fuel c : In c (snd (definite P f fuel)) -> raises P f c.
Proof. intros H. unfold raises. destruct (definite_sound P fuel None f) as [_ He]. apply He. exact H. Qed.

Definition all_live (P : prog) (fs : list fname) (fuel : nat) : bool :=
  forallb (fun f => negb (is_nil (snd (definite P f fuel)))) fs.

Theorem entries_live P fs fuel :
  all_live P fs fuel = true -> forall f, In f fs -> exists c, raises P f c.
Proof.
  intros H f Hin. unfold all_live in H. rewrite forallb_forall in H. specialize (H f Hin).
  destruct (snd (definite P f fuel)) as [|c r] eqn:E; [discriminate H|].
  exists c. apply (definite_raises P f fuel). rewrite E. left. reflexivity.
Qed.
