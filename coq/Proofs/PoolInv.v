(* C12 - the invariant of the pool LTS, stated over the components of a state, with a
   "transit" generalisation for the middle of a step:
     tc = Some (c, k): client c is inside ConnectionPool.acquire for key k between its
                       registration (waiter count incremented / removed from the condition's
                       waiter list) and the end of HostPool.acquire - its program counter is
                       stale and ignored, the waiter count of k is one more than the parked
                       clients, and it may owe the condition one wake-up;
     tr = Some r:      release task r has already moved its connection from busy to ready,
                       its program counter (still R_new) is ignored. *)
From Coq Require Import List Arith Bool ZArith Lia.
From Wpull Require Import Model.Pool Proofs.PoolBasics Proofs.PoolNF.
Import ListNotations.
Open Scope bool_scope.

Definition livec (tc : option (cli * key)) (c : cli) : Prop :=
  match tc with Some (c0, _) => c <> c0 | None => True end.
Definition liver (tr : option rid) (r : rid) : Prop :=
  match tr with Some r0 => r <> r0 | None => True end.
Definition extra (tc : option (cli * key)) (k : key) : nat :=
  match tc with Some (_, k0) => if Nat.eqb k0 k then 1 else 0 | None => 0 end.

Lemma extra_same c k : extra (Some (c, k)) k = 1.
Proof. cbn. now rewrite Nat.eqb_refl. Qed.
Lemma extra_other c k0 k : k <> k0 -> extra (Some (c, k0)) k = 0.
Proof. cbn. intros H. destruct (Nat.eqb k0 k) eqn:E; [apply Nat.eqb_eq in E; congruence|reflexivity]. Qed.

Definition cholds (CL : cli -> cpc) tc (c : cli) (k : key) (x : cid) : Prop := CL c = C_holding k x /\ livec tc c.
Definition rowes (RT : rid -> rpc) tr (r : rid) (x : cid) : Prop := (exists f, RT r = R_new (Some x) f) /\ liver tr r.

Section Inv.
Variable M : nat.

Record PoolInv tc tr (CL : cli -> cpc) (RT : rid -> rpc) (NC : nat) (CK : cid -> key) (k : key) (hp : hpool) : Prop := {
  p_lock : hlock hp = free_lock;
  p_nodup : NoDup (ready hp ++ busy hp);
  p_bound : length (ready hp) + length (busy hp) <= M;
  p_cid : forall x, In x (ready hp ++ busy hp) -> x < NC /\ CK x = k;
  p_cwnd : NoDup (map fst (cwait hp));
  p_hw : hwaiters hp = Z.of_nat (length (cwait hp) + extra tc k);
  p_cw : forall c, In c (map fst (cwait hp)) -> CL c = C_parked k /\ livec tc c;
  p_own : forall x, In x (busy hp) -> (exists c, cholds CL tc c k x) \/ (exists r, rowes RT tr r x);
  p_wake : has_pending (cwait hp) -> M - length (busy hp) <= count_done (cwait hp) + extra tc k
}.

Definition CliInv (P : list (key * hpool)) (RT : rid -> rpc) (CL : cli -> cpc) (c : cli) : Prop :=
  match CL c with
  | C_idle => True
  | C_cancelled => True
  | C_drain r _ => RT r <> R_none
  | C_lockq _ => False
  | C_parked k => exists hp, aget P k = Some hp /\ In c (map fst (cwait hp))
  | C_holding k x => exists hp, aget P k = Some hp /\ In x (busy hp)
  end.

Definition RtInv (P : list (key * hpool)) (CK : cid -> key) (RT : rid -> rpc) (r : rid) : Prop :=
  match RT r with
  | R_new (Some x) _ => exists hp, aget P (CK x) = Some hp /\ In x (busy hp)
  | R_lockq _ => False
  | _ => True
  end.

Record InvC tc tr (P : list (key * hpool)) (CL : cli -> cpc) (RT : rid -> rpc) (NR NC : nat) (CK : cid -> key)
       (RS : list rid) : Prop := {
  i_keys : NoDup (map fst P);
  i_pool : forall k hp, aget P k = Some hp -> PoolInv tc tr CL RT NC CK k hp;
  i_cli : forall c, livec tc c -> CliInv P RT CL c;
  i_rt : forall r, liver tr r -> RtInv P CK RT r;
  i_rfresh : forall r, NR <= r -> RT r = R_none;
  i_relset : forall r, In r RS -> RT r <> R_none;
  i_uc : forall c c' k k' x, cholds CL tc c k x -> cholds CL tc c' k' x -> c = c';
  i_ur : forall r r' x, rowes RT tr r x -> rowes RT tr r' x -> r = r';
  i_ex : forall c k x r, cholds CL tc c k x -> rowes RT tr r x -> False;
  i_tc : forall c k, tc = Some (c, k) -> exists hp, aget P k = Some hp
}.

Arguments p_lock {tc tr CL RT NC CK k hp} _.
Arguments p_nodup {tc tr CL RT NC CK k hp} _.
Arguments p_bound {tc tr CL RT NC CK k hp} _.
Arguments p_cid {tc tr CL RT NC CK k hp} _ _ _.
Arguments p_cwnd {tc tr CL RT NC CK k hp} _.
Arguments p_hw {tc tr CL RT NC CK k hp} _.
Arguments p_cw {tc tr CL RT NC CK k hp} _ _ _.
Arguments p_own {tc tr CL RT NC CK k hp} _ _ _.
Arguments p_wake {tc tr CL RT NC CK k hp} _ _.
Arguments i_keys {tc tr P CL RT NR NC CK RS} _.
Arguments i_pool {tc tr P CL RT NR NC CK RS} _ _ _ _.
Arguments i_cli {tc tr P CL RT NR NC CK RS} _ _ _.
Arguments i_rt {tc tr P CL RT NR NC CK RS} _ _ _.
Arguments i_rfresh {tc tr P CL RT NR NC CK RS} _ _ _.
Arguments i_relset {tc tr P CL RT NR NC CK RS} _ _ _.
Arguments i_uc {tc tr P CL RT NR NC CK RS} _ _ _ _ _ _ _ _.
Arguments i_ur {tc tr P CL RT NR NC CK RS} _ _ _ _ _ _.
Arguments i_ex {tc tr P CL RT NR NC CK RS} _ _ _ _ _ _ _.
Arguments i_tc {tc tr P CL RT NR NC CK RS} _ _ _ _.

(* ---------- consequences ---------- *)
Lemma holder_in_busy tc tr P CL RT NR NC CK RS c k x :
  InvC tc tr P CL RT NR NC CK RS -> cholds CL tc c k x ->
  exists hp, aget P k = Some hp /\ In x (busy hp) /\ x < NC /\ CK x = k.
Proof.
  intros I [E L]. pose proof (i_cli I c L) as H. unfold CliInv in H. rewrite E in H.
  destruct H as (hp & G & B). exists hp. split; [assumption|]. split; [assumption|].
  apply (p_cid (i_pool I k hp G)). apply in_or_app. now right.
Qed.

Lemma ower_in_busy tc tr P CL RT NR NC CK RS r x :
  InvC tc tr P CL RT NR NC CK RS -> rowes RT tr r x ->
  exists hp, aget P (CK x) = Some hp /\ In x (busy hp) /\ x < NC.
Proof.
  intros I [[f E] L]. pose proof (i_rt I r L) as H. unfold RtInv in H. rewrite E in H.
  destruct H as (hp & G & B). exists hp. split; [assumption|]. split; [assumption|].
  apply (p_cid (i_pool I _ hp G)). apply in_or_app. now right.
Qed.

(* a connection in a ready set is neither held nor owed *)
Lemma ready_unowned tc tr P CL RT NR NC CK RS k hp x :
  InvC tc tr P CL RT NR NC CK RS -> aget P k = Some hp -> In x (ready hp) ->
  (forall c k', ~ cholds CL tc c k' x) /\ (forall r, ~ rowes RT tr r x).
Proof.
  intros I G R.
  pose proof (i_pool I k hp G) as PI.
  assert (CKx : CK x = k) by (apply (p_cid PI); apply in_or_app; now left).
  split.
  - intros c k' H. destruct (holder_in_busy _ _ _ _ _ _ _ _ _ _ _ _ I H) as (hp' & G' & B & _ & CK').
    assert (k' = k) by congruence. subst k'. assert (hp' = hp) by congruence. subst hp'.
    eapply NoDup_app_disj; [apply (p_nodup PI)| |]; eauto.
  - intros r H. destruct (ower_in_busy _ _ _ _ _ _ _ _ _ _ _ I H) as (hp' & G' & B & _).
    rewrite CKx in G'. assert (hp' = hp) by congruence. subst hp'.
    eapply NoDup_app_disj; [apply (p_nodup PI)| |]; eauto.
Qed.

Lemma fresh_unowned tc tr P CL RT NR NC CK RS x :
  InvC tc tr P CL RT NR NC CK RS -> NC <= x ->
  (forall c k', ~ cholds CL tc c k' x) /\ (forall r, ~ rowes RT tr r x).
Proof.
  intros I L. split.
  - intros c k' H. destruct (holder_in_busy _ _ _ _ _ _ _ _ _ _ _ _ I H) as (hp' & _ & _ & X & _). lia.
  - intros r H. destruct (ower_in_busy _ _ _ _ _ _ _ _ _ _ _ I H) as (hp' & _ & _ & X). lia.
Qed.

(* ---------- frame lemmas ---------- *)
Lemma PoolInv_frame tc tr tc' tr' CL CL' RT RT' NC NC' CK CK' k1 hp1 :
  PoolInv tc tr CL RT NC CK k1 hp1 ->
  NC <= NC' -> (forall y, y < NC -> CK' y = CK y) ->
  extra tc' k1 = extra tc k1 ->
  (forall c', CL c' = C_parked k1 -> livec tc c' -> CL' c' = C_parked k1 /\ livec tc' c') ->
  (forall y, In y (busy hp1) ->
     ((exists c, cholds CL tc c k1 y) \/ (exists r, rowes RT tr r y)) ->
     ((exists c, cholds CL' tc' c k1 y) \/ (exists r, rowes RT' tr' r y))) ->
  PoolInv tc' tr' CL' RT' NC' CK' k1 hp1.
Proof.
  intros PI LE HCK HE HW HO. constructor.
  - apply (p_lock PI).
  - apply (p_nodup PI).
  - apply (p_bound PI).
  - intros x Hx. destruct (p_cid PI x Hx) as [A B]. split; [lia|]. now rewrite HCK.
  - apply (p_cwnd PI).
  - rewrite HE. apply (p_hw PI).
  - intros c Hc. destruct (p_cw PI c Hc) as [A B]. auto.
  - intros x Hx. apply HO; [assumption|]. apply (p_own PI x Hx).
  - rewrite HE. apply (p_wake PI).
Qed.

Lemma CliInv_mono P P' RT RT' CL CL' c :
  CliInv P RT CL c -> CL' c = CL c ->
  (forall r, RT r <> R_none -> RT' r <> R_none) ->
  (forall k hp, aget P k = Some hp -> CL c = C_parked k -> In c (map fst (cwait hp)) ->
     exists hp', aget P' k = Some hp' /\ In c (map fst (cwait hp'))) ->
  (forall k hp x, aget P k = Some hp -> CL c = C_holding k x -> In x (busy hp) ->
     exists hp', aget P' k = Some hp' /\ In x (busy hp')) ->
  CliInv P' RT' CL' c.
Proof.
  unfold CliInv. intros H E HR HW HB. rewrite E. destruct (CL c) eqn:EC; auto.
  - destruct H as (hp & G & X). eauto.
  - destruct H as (hp & G & X). eauto.
Qed.

Lemma RtInv_mono P P' CK CK' RT RT' r :
  RtInv P CK RT r -> RT' r = RT r ->
  (forall x f hp, RT r = R_new (Some x) f -> aget P (CK x) = Some hp -> In x (busy hp) ->
     exists hp', aget P' (CK' x) = Some hp' /\ In x (busy hp')) ->
  RtInv P' CK' RT' r.
Proof.
  unfold RtInv. intros H E HB. rewrite E. destruct (RT r) as [|[x|] f| |] eqn:ER; auto.
  destruct H as (hp & G & X). eauto.
Qed.

(* pools after [aset P k hp'] *)
Lemma aset_cases P k hp' k1 hp1 :
  aget (aset P k hp') k1 = Some hp1 -> (k1 = k /\ hp1 = hp') \/ (k1 <> k /\ aget P k1 = Some hp1).
Proof.
  rewrite aget_aset. destruct (Nat.eqb k1 k) eqn:E.
  - apply Nat.eqb_eq in E. intros [= <-]. now left.
  - apply Nat.eqb_neq in E. now right.
Qed.

Lemma NoDup_snoc {A} (l : list A) x : NoDup l -> ~ In x l -> NoDup (l ++ [x]).
Proof.
  intros H N. apply NoDup_app_intro; [assumption|repeat constructor; tauto|].
  intros y Hy [<-|[]]. contradiction.
Qed.

Lemma upd_holding_inv CL c pc c1 k1 y tc :
  cholds (upd CL c pc) tc c1 k1 y -> (c1 = c /\ pc = C_holding k1 y) \/ (c1 <> c /\ CL c1 = C_holding k1 y).
Proof.
  intros [E _]. unfold upd in E. destruct (Nat.eqb c1 c) eqn:EE.
  - apply Nat.eqb_eq in EE. now left.
  - apply Nat.eqb_neq in EE. now right.
Qed.

(* ---------- T1/T2: HostPool.acquire hands out connection x (popped from ready, or new) ---------- *)
Lemma got_inv c k P CL RT NR NC CK RS hp rd' x NC' CK' :
  InvC (Some (c, k)) None P CL RT NR NC CK RS -> aget P k = Some hp ->
  NoDup (rd' ++ x :: busy hp) -> length rd' + S (length (busy hp)) <= M ->
  (forall y, In y rd' -> In y (ready hp)) ->
  (forall c' k', ~ cholds CL (Some (c, k)) c' k' x) -> (forall r, ~ rowes RT None r x) ->
  NC <= NC' -> x < NC' -> (forall y, y < NC -> CK' y = CK y) -> CK' x = k ->
  InvC None None (aset P k (mkHP rd' (x :: busy hp) free_lock (cwait hp) (hwaiters hp - 1)))
       (upd CL c (C_holding k x)) RT NR NC' CK' RS.
Proof.
  intros I G ND LB SUB UC UR LE XL HCK CKx.
  pose proof (i_pool I k hp G) as PI.
  assert (KEEPB : forall k1 hp1 y, aget P k1 = Some hp1 -> In y (busy hp1) ->
            exists hp2, aget (aset P k (mkHP rd' (x :: busy hp) free_lock (cwait hp) (hwaiters hp - 1))) k1 = Some hp2
                        /\ In y (busy hp2)).
  { intros k1 hp1 y G1 B1. rewrite aget_aset. destruct (Nat.eqb k1 k) eqn:E.
    - apply Nat.eqb_eq in E. subst k1. assert (hp1 = hp) by congruence. subst hp1.
      eexists. split; [reflexivity|]. cbn. now right.
    - eauto. }
  constructor.
  - apply keys_aset_NoDup, (i_keys I).
  - intros k1 hp1 G1. apply aset_cases in G1. destruct G1 as [[-> ->]|[NE G1]].
    + constructor; cbn [ready busy hlock cwait hwaiters].
      * reflexivity.
      * assumption.
      * cbn. lia.
      * intros y Hy. apply in_app_or in Hy. destruct Hy as [Hy|[<-|Hy]].
        -- destruct (p_cid PI y) as [A B]; [apply in_or_app; left; auto|]. split; [lia|]. now rewrite HCK.
        -- split; assumption.
        -- destruct (p_cid PI y) as [A B]; [apply in_or_app; now right|]. split; [lia|]. now rewrite HCK.
      * apply (p_cwnd PI).
      * pose proof (p_hw PI) as H. rewrite extra_same in H. cbn. lia.
      * intros c1 Hc. destruct (p_cw PI c1 Hc) as [A B]. cbn in B. split; [|exact Logic.I].
        now rewrite upd_other.
      * intros y [<-|Hy].
        -- left. exists c. split; [apply upd_same|exact Logic.I].
        -- destruct (p_own PI y Hy) as [[c1 [A B]]|[r R]].
           ++ left. exists c1. cbn in B. split; [now rewrite upd_other|exact Logic.I].
           ++ right. eauto.
      * intros HPend. pose proof (p_wake PI HPend) as H. rewrite extra_same in H. cbn. lia.
    + apply (PoolInv_frame _ _ _ _ _ _ _ _ _ _ _ _ _ _ (i_pool I k1 hp1 G1)); auto.
      * now rewrite extra_other.
      * intros c1 A B. cbn in B. split; [now rewrite upd_other|exact Logic.I].
      * intros y Hy [[c1 [A B]]|[r R]].
        -- left. exists c1. cbn in B. split; [now rewrite upd_other|exact Logic.I].
        -- right. eauto.
  - intros c1 _. destruct (Nat.eq_dec c1 c) as [->|NE].
    + unfold CliInv. rewrite upd_same. eexists. split; [apply aget_aset_same|]. cbn. now left.
    + assert (L : livec (Some (c, k)) c1) by exact NE.
      apply (CliInv_mono _ _ _ _ _ _ _ (i_cli I c1 L)); auto.
      * now rewrite upd_other.
      * intros k1 hp1 G1 _ W. rewrite aget_aset. destruct (Nat.eqb k1 k) eqn:E.
        -- apply Nat.eqb_eq in E. subst k1. assert (hp1 = hp) by congruence. subst hp1.
           eexists. split; [reflexivity|]. exact W.
        -- eauto.
      * intros k1 hp1 y G1 _ B. eauto.
  - intros r _. apply (RtInv_mono _ _ _ _ _ _ _ (i_rt I r Logic.I)); auto.
    intros y f hp1 ER G1 B1.
    assert (YL : y < NC) by (apply (p_cid (i_pool I _ hp1 G1)); apply in_or_app; now right).
    rewrite HCK by assumption. eauto.
  - apply (i_rfresh I).
  - apply (i_relset I).
  - intros c1 c2 k1 k2 y H1 H2.
    destruct (upd_holding_inv _ _ _ _ _ _ _ H1) as [[-> E1]|[N1 E1]];
      destruct (upd_holding_inv _ _ _ _ _ _ _ H2) as [[-> E2]|[N2 E2]]; auto.
    + injection E1 as <- <-. exfalso. apply (UC c2 k2). split; assumption.
    + injection E2 as <- <-. exfalso. apply (UC c1 k1). split; assumption.
    + apply (i_uc I c1 c2 k1 k2 y); split; assumption.
  - apply (i_ur I).
  - intros c1 k1 y r H1 H2.
    destruct (upd_holding_inv _ _ _ _ _ _ _ H1) as [[-> E1]|[N1 E1]].
    + injection E1 as <- <-. exact (UR r H2).
    + apply (i_ex I c1 k1 y r); [split; assumption|assumption].
  - discriminate.
Qed.


(* ---------- G2: pool k gets a new waiter queue / waiter count (ready and busy unchanged, or a new empty pool),
   some program counters change, nobody starts or stops holding a connection ---------- *)
Lemma swap_inv tc tc' tr k P CL CL' RT NR NC CK RS hp' :
  InvC tc tr P CL RT NR NC CK RS ->
  match aget P k with
  | Some hp => ready hp' = ready hp /\ busy hp' = busy hp
  | None => ready hp' = [] /\ busy hp' = []
  end ->
  hlock hp' = free_lock ->
  NoDup (map fst (cwait hp')) ->
  hwaiters hp' = Z.of_nat (length (cwait hp') + extra tc' k) ->
  (forall c1, In c1 (map fst (cwait hp')) -> CL' c1 = C_parked k /\ livec tc' c1) ->
  (has_pending (cwait hp') -> M - length (busy hp') <= count_done (cwait hp') + extra tc' k) ->
  (forall c1, livec tc' c1 ->
     (livec tc c1 /\ CL' c1 = CL c1 /\
      (forall hp, aget P k = Some hp -> CL c1 = C_parked k -> In c1 (map fst (cwait hp)) -> In c1 (map fst (cwait hp'))))
     \/ CliInv (aset P k hp') RT CL' c1) ->
  (forall c1 k1 x, cholds CL tc c1 k1 x <-> cholds CL' tc' c1 k1 x) ->
  (forall k1 c1, k1 <> k -> CL c1 = C_parked k1 -> livec tc c1 -> CL' c1 = C_parked k1 /\ livec tc' c1) ->
  (forall k1, k1 <> k -> extra tc' k1 = extra tc k1) ->
  (forall c1 k1, tc' = Some (c1, k1) -> k1 = k \/ exists hp, aget P k1 = Some hp) ->
  InvC tc' tr (aset P k hp') CL' RT NR NC CK RS.
Proof.
  intros I HA HL HND HHW HCW HWK HCL HH HPK HEX HTC.
  assert (OWN : forall k1 y, ((exists c, cholds CL tc c k1 y) \/ (exists r, rowes RT tr r y)) ->
                             ((exists c, cholds CL' tc' c k1 y) \/ (exists r, rowes RT tr r y))).
  { intros k1 y [[c1 H]|R]; [left; exists c1; now apply HH|now right]. }
  assert (KEEPB : forall k1 hp1 y, aget P k1 = Some hp1 -> In y (busy hp1) ->
            exists hp2, aget (aset P k hp') k1 = Some hp2 /\ In y (busy hp2)).
  { intros k1 hp1 y G1 B1. rewrite aget_aset. destruct (Nat.eqb k1 k) eqn:E.
    - apply Nat.eqb_eq in E. subst k1. rewrite G1 in HA. destruct HA as [_ HB].
      eexists. split; [reflexivity|]. now rewrite HB.
    - eauto. }
  constructor.
  - apply keys_aset_NoDup, (i_keys I).
  - intros k1 hp1 G1. apply aset_cases in G1. destruct G1 as [[-> ->]|[NE G1]].
    + destruct (aget P k) as [hp|] eqn:G.
      * destruct HA as [HR HB]. pose proof (i_pool I k hp G) as PI. constructor; auto.
        -- rewrite HR, HB. apply (p_nodup PI).
        -- rewrite HR, HB. apply (p_bound PI).
        -- rewrite HR, HB. apply (p_cid PI).
        -- intros y Hy. rewrite HB in Hy. apply OWN. apply (p_own PI y Hy).
      * destruct HA as [HR HB]. constructor; auto.
        -- rewrite HR, HB. constructor.
        -- rewrite HR, HB. cbn. lia.
        -- rewrite HR, HB. intros y [].
        -- rewrite HB. intros y [].
    + apply (PoolInv_frame _ _ _ _ _ _ _ _ _ _ _ _ _ _ (i_pool I k1 hp1 G1)); auto.
  - intros c1 L1. destruct (HCL c1 L1) as [(L & E & W)|D]; [|exact D].
    apply (CliInv_mono _ _ _ _ _ _ _ (i_cli I c1 L)); auto.
    + intros k1 hp1 G1 EC X. rewrite aget_aset. destruct (Nat.eqb k1 k) eqn:EK.
      * apply Nat.eqb_eq in EK. subst k1. eexists. split; [reflexivity|]. eapply W; eauto.
      * eauto.
    + intros k1 hp1 y G1 _ B. eauto.
  - intros r L. apply (RtInv_mono _ _ _ _ _ _ _ (i_rt I r L)); auto.
    intros y f hp1 _ G1 B1. eauto.
  - apply (i_rfresh I).
  - apply (i_relset I).
  - intros c1 c2 k1 k2 y H1 H2. apply HH in H1. apply HH in H2. apply (i_uc I c1 c2 k1 k2 y H1 H2).
  - apply (i_ur I).
  - intros c1 k1 y r H1 H2. apply HH in H1. apply (i_ex I c1 k1 y r H1 H2).
  - intros c1 k1 E. destruct (HTC c1 k1 E) as [->|[hp G]].
    + eexists. apply aget_aset_same.
    + destruct (Nat.eq_dec k1 k) as [->|NE]; [eexists; apply aget_aset_same|].
      exists hp. now rewrite aget_aset_other.
Qed.


Lemma cholds_upd_other CL c pc tc tc' c1 k1 x :
  c1 <> c -> livec tc' c1 -> cholds CL tc c1 k1 x -> cholds (upd CL c pc) tc' c1 k1 x.
Proof. intros N L [E _]. split; [now rewrite upd_other|assumption]. Qed.

(* ---------- T3: the limit is reached, the client parks on the condition ---------- *)
Lemma park_inv c k P CL RT NR NC CK RS hp :
  InvC (Some (c, k)) None P CL RT NR NC CK RS -> aget P k = Some hp -> M <= length (busy hp) ->
  InvC None None (aset P k (mkHP (ready hp) (busy hp) free_lock (cwait hp ++ [(c, FPending)]) (hwaiters hp)))
       (upd CL c (C_parked k)) RT NR NC CK RS.
Proof.
  intros I G FULL. pose proof (i_pool I k hp G) as PI.
  assert (NIN : ~ In c (map fst (cwait hp))).
  { intros X. destruct (p_cw PI c X) as [_ L]. now apply L. }
  apply (swap_inv (Some (c, k)) None None k P CL); auto; cbn [ready busy hlock cwait hwaiters].
  - now rewrite G.
  - rewrite map_app. cbn. apply NoDup_snoc; [apply (p_cwnd PI)|assumption].
  - pose proof (p_hw PI) as H. rewrite extra_same in H. rewrite app_length. cbn. lia.
  - intros c1 X. rewrite map_app in X. apply in_app_or in X. destruct X as [X|[<-|[]]].
    + destruct (p_cw PI c1 X) as [A B]. cbn in B. split; [now rewrite upd_other|exact Logic.I].
    + split; [apply upd_same|exact Logic.I].
  - intros _. lia.
  - intros c1 _. destruct (Nat.eq_dec c1 c) as [->|NE].
    + right. unfold CliInv. rewrite upd_same. eexists. split; [apply aget_aset_same|].
      cbn. rewrite map_app. apply in_or_app. right. now left.
    + left. split; [exact NE|]. split; [now rewrite upd_other|].
      intros hp0 G0 _ X. assert (hp0 = hp) by congruence. subst hp0.
      rewrite map_app. apply in_or_app. now left.
  - intros c1 k1 x. split.
    + intros [E L]. cbn in L. split; [now rewrite upd_other|exact Logic.I].
    + intros H. destruct (upd_holding_inv _ _ _ _ _ _ _ H) as [[_ E]|[N E]]; [discriminate|]. split; assumption.
  - intros k1 c1 NE E L. cbn in L. split; [now rewrite upd_other|exact Logic.I].
  - intros k1 NE. now rewrite extra_other.
  - discriminate.
Qed.

(* ---------- T4: HostPool.acquire fails (cancellation): notify, count down ---------- *)
Lemma fail_inv c k P CL RT NR NC CK RS hp :
  InvC (Some (c, k)) None P CL RT NR NC CK RS -> aget P k = Some hp ->
  InvC None None (aset P k (mkHP (ready hp) (busy hp) free_lock (cw_notify (cwait hp)) (hwaiters hp - 1)))
       (upd CL c C_cancelled) RT NR NC CK RS.
Proof.
  intros I G. pose proof (i_pool I k hp G) as PI.
  apply (swap_inv (Some (c, k)) None None k P CL); auto; cbn [ready busy hlock cwait hwaiters].
  - now rewrite G.
  - rewrite cw_notify_keys. apply (p_cwnd PI).
  - pose proof (p_hw PI) as H. rewrite extra_same in H. rewrite cw_notify_length. cbn. lia.
  - intros c1 X. rewrite cw_notify_keys in X.
    destruct (p_cw PI c1 X) as [A B]. cbn in B. split; [now rewrite upd_other|exact Logic.I].
  - intros HPn. pose proof (p_wake PI (has_pending_notify _ HPn)) as H. rewrite extra_same in H.
    destruct (cw_notify_cases (cwait hp)) as [[NP _]|[_ E]].
    + exfalso. apply NP. now apply has_pending_notify.
    + rewrite E. cbn. lia.
  - intros c1 _. destruct (Nat.eq_dec c1 c) as [->|NE].
    + right. unfold CliInv. now rewrite upd_same.
    + left. split; [exact NE|]. split; [now rewrite upd_other|].
      intros hp0 G0 _ X. assert (hp0 = hp) by congruence. subst hp0. now rewrite cw_notify_keys.
  - intros c1 k1 x. split.
    + intros [E L]. cbn in L. split; [now rewrite upd_other|exact Logic.I].
    + intros H. destruct (upd_holding_inv _ _ _ _ _ _ _ H) as [[_ E]|[N E]]; [discriminate|]. split; assumption.
  - intros k1 c1 NE E L. cbn in L. split; [now rewrite upd_other|exact Logic.I].
  - intros k1 NE. now rewrite extra_other.
  - discriminate.
Qed.

(* ---------- T5: ConnectionPool.acquire registers the client (creates the host pool / counts the waiter) ---------- *)
Lemma reg_inv c k P CL RT NR NC CK RS :
  InvC None None P CL RT NR NC CK RS ->
  (forall k1, CL c <> C_parked k1) -> (forall k1 x, CL c <> C_holding k1 x) ->
  InvC (Some (c, k)) None (aset P k (hp_reg (aget P k))) CL RT NR NC CK RS.
Proof.
  intros I NP NH.
  apply (swap_inv None (Some (c, k)) None k P CL); auto.
  - destruct (aget P k); cbn; auto.
  - destruct (aget P k) as [hp|] eqn:G; cbn [hp_reg new_hpool set_hwaiters busy cwait ready hlock hwaiters map length]; [apply (p_lock (i_pool I k hp G))|reflexivity].
  - destruct (aget P k) as [hp|] eqn:G; cbn [hp_reg new_hpool set_hwaiters busy cwait ready hlock hwaiters map length]; [apply (p_cwnd (i_pool I k hp G))|constructor].
  - rewrite extra_same. destruct (aget P k) as [hp|] eqn:G; cbn [hp_reg new_hpool set_hwaiters busy cwait ready hlock hwaiters map length].
    + pose proof (p_hw (i_pool I k hp G)) as H. cbn [extra] in H. lia.
    + reflexivity.
  - destruct (aget P k) as [hp|] eqn:G; cbn [hp_reg new_hpool set_hwaiters busy cwait ready hlock hwaiters map length]; [|intros c1 []].
    intros c1 X. destruct (p_cw (i_pool I k hp G) c1 X) as [A _]. split; [assumption|].
    cbn. intros ->. now apply (NP k).
  - rewrite extra_same. destruct (aget P k) as [hp|] eqn:G; cbn [hp_reg new_hpool set_hwaiters busy cwait ready hlock hwaiters map length].
    + intros HPn. pose proof (p_wake (i_pool I k hp G) HPn) as H. cbn [extra] in H. lia.
    + intros [c1 []].
  - intros c1 L. left. split; [exact Logic.I|]. split; [reflexivity|].
    intros hp G _ X. rewrite G. exact X.
  - intros c1 k1 x. split.
    + intros [E _]. split; [assumption|]. cbn. intros ->. now apply (NH k1 x).
    + intros [E _]. split; [assumption|exact Logic.I].
  - intros k1 c1 NE E _. split; [assumption|]. cbn. intros ->. now apply (NP k1).
  - intros k1 NE. now rewrite extra_other.
  - intros c1 k1 [= <- <-]. now left.
Qed.

(* ---------- T6: a parked client whose future is done (notified or cancelled) leaves the waiter list ---------- *)
Lemma unpark_inv c k P CL RT NR NC CK RS hp :
  InvC None None P CL RT NR NC CK RS -> CL c = C_parked k -> aget P k = Some hp ->
  InvC (Some (c, k)) None (aset P k (set_cwait hp (cw_remove (cwait hp) c))) CL RT NR NC CK RS.
Proof.
  intros I EC G. pose proof (i_pool I k hp G) as PI.
  assert (INC : In c (map fst (cwait hp))).
  { pose proof (i_cli I c Logic.I) as H. unfold CliInv in H. rewrite EC in H.
    destruct H as (hp0 & G0 & X). congruence. }
  apply (swap_inv None (Some (c, k)) None k P CL); auto; cbn [set_cwait ready busy hlock cwait hwaiters].
  - now rewrite G.
  - apply (p_lock PI).
  - apply cw_remove_NoDup, (p_cwnd PI).
  - pose proof (p_hw PI) as H. cbn in H. rewrite extra_same.
    pose proof (cw_remove_length _ _ INC). lia.
  - intros c1 X. apply cw_remove_keys in X; [|apply (p_cwnd PI)]. destruct X as [X N].
    destruct (p_cw PI c1 X) as [A _]. split; [assumption|exact N].
  - intros HPn. pose proof (p_wake PI (has_pending_remove _ _ HPn)) as H. cbn in H. rewrite extra_same.
    destruct (cw_status_Some_of_In _ _ INC) as [st ST].
    pose proof (cw_remove_count _ _ _ (p_cwnd PI) ST). destruct (is_fdone st); lia.
  - intros c1 L. left. split; [exact Logic.I|]. split; [reflexivity|].
    intros hp0 G0 _ X. assert (hp0 = hp) by congruence. subst hp0.
    apply cw_remove_keys; [apply (p_cwnd PI)|]. split; [assumption|exact L].
  - intros c1 k1 x. split.
    + intros [E _]. split; [assumption|]. cbn. intros ->. congruence.
    + intros [E _]. split; [assumption|exact Logic.I].
  - intros k1 c1 NE E _. split; [assumption|]. cbn. intros ->. congruence.
  - intros k1 NE. now rewrite extra_other.
  - intros c1 k1 [= <- <-]. now left.
Qed.

(* ---------- T8: the environment cancels a client parked on a pending future ---------- *)
Lemma cancel_inv c k P CL RT NR NC CK RS hp :
  InvC None None P CL RT NR NC CK RS -> aget P k = Some hp -> cw_status (cwait hp) c = Some FPending ->
  InvC None None (aset P k (set_cwait hp (cw_cancel (cwait hp) c))) CL RT NR NC CK RS.
Proof.
  intros I G ST. pose proof (i_pool I k hp G) as PI.
  apply (swap_inv None None None k P CL); auto; cbn [set_cwait ready busy hlock cwait hwaiters].
  - now rewrite G.
  - apply (p_lock PI).
  - rewrite cw_cancel_keys. apply (p_cwnd PI).
  - rewrite cw_cancel_length. apply (p_hw PI).
  - intros c1 X. rewrite cw_cancel_keys in X. apply (p_cw PI c1 X).
  - intros HPn. rewrite cw_cancel_count by assumption. apply (p_wake PI). eapply has_pending_cancel; eauto.
  - intros c1 L. left. split; [exact Logic.I|]. split; [reflexivity|].
    intros hp0 G0 _ X. assert (hp0 = hp) by congruence. subst hp0. now rewrite cw_cancel_keys.
  - tauto.
  - discriminate.
Qed.


Lemma rowes_upd_other RT r0 pc tr tr' r x :
  r <> r0 -> liver tr' r -> rowes RT tr r x -> rowes (upd RT r0 pc) tr' r x.
Proof. intros N L [[f E] _]. split; [exists f; now rewrite upd_other|assumption]. Qed.

Lemma upd_owes_inv RT r0 pc r x tr :
  rowes (upd RT r0 pc) tr r x -> (r = r0 /\ exists f, pc = R_new (Some x) f) \/ (r <> r0 /\ exists f, RT r = R_new (Some x) f).
Proof.
  intros [[f E] _]. unfold upd in E. destruct (Nat.eqb r r0) eqn:EE.
  - apply Nat.eqb_eq in EE. left. eauto.
  - apply Nat.eqb_neq in EE. right. eauto.
Qed.

(* ---------- T10: a client outside the host pools changes its program counter (drain / cancelled / idle) ---------- *)
Lemma setpc_inv c pc P CL RT NR NC CK RS :
  InvC None None P CL RT NR NC CK RS ->
  (forall k1, CL c <> C_parked k1) -> (forall k1 x, CL c <> C_holding k1 x) ->
  match pc with C_idle => True | C_cancelled => True | C_drain r _ => RT r <> R_none | _ => False end ->
  InvC None None P (upd CL c pc) RT NR NC CK RS.
Proof.
  intros I NP NH HPC.
  assert (HH : forall c1 k1 x, cholds CL None c1 k1 x <-> cholds (upd CL c pc) None c1 k1 x).
  { intros c1 k1 x. split.
    - intros [E _]. split; [|exact Logic.I]. rewrite upd_other; [assumption|]. intros ->. now apply (NH k1 x).
    - intros H. destruct (upd_holding_inv _ _ _ _ _ _ _ H) as [[_ E]|[N E]].
      + subst pc. contradiction.
      + split; [assumption|exact Logic.I]. }
  constructor.
  - apply (i_keys I).
  - intros k1 hp1 G1. apply (PoolInv_frame _ _ _ _ _ _ _ _ _ _ _ _ _ _ (i_pool I k1 hp1 G1)); auto.
    + intros c1 E _. split; [|exact Logic.I]. rewrite upd_other; [assumption|]. intros ->. now apply (NP k1).
    + intros y _ [[c1 H]|R]; [left; exists c1; now apply HH|now right].
  - intros c1 _. destruct (Nat.eq_dec c1 c) as [->|NE].
    + unfold CliInv. rewrite upd_same. destruct pc; cbn in HPC; auto; contradiction.
    + apply (CliInv_mono _ _ _ _ _ _ _ (i_cli I c1 Logic.I)); eauto. now rewrite upd_other.
  - apply (i_rt I).
  - apply (i_rfresh I).
  - apply (i_relset I).
  - intros c1 c2 k1 k2 y H1 H2. apply HH in H1. apply HH in H2. apply (i_uc I c1 c2 k1 k2 y H1 H2).
  - apply (i_ur I).
  - intros c1 k1 y r H1 H2. apply HH in H1. apply (i_ex I c1 k1 y r H1 H2).
  - discriminate.
Qed.

Lemma relset_inv tc tr P CL RT NR NC CK RS RS' :
  InvC tc tr P CL RT NR NC CK RS -> (forall r, In r RS' -> In r RS) -> InvC tc tr P CL RT NR NC CK RS'.
Proof. intros I H. destruct I. constructor; auto. Qed.

(* ---------- T9: the environment spawns pool.clean(force) ---------- *)
Lemma spawn_inv f P CL RT NR NC CK RS :
  InvC None None P CL RT NR NC CK RS ->
  InvC None None P CL (upd RT NR (R_new None f)) (S NR) NC CK RS.
Proof.
  intros I. pose proof (i_rfresh I NR (le_n _)) as FR.
  assert (HH : forall r x, rowes RT None r x <-> rowes (upd RT NR (R_new None f)) None r x).
  { intros r x. split.
    - intros H. eapply rowes_upd_other; [|exact Logic.I|eassumption]. intros ->. destruct H as [[f0 E] _]. congruence.
    - intros H. destruct (upd_owes_inv _ _ _ _ _ _ H) as [[_ [f0 E]]|[N E]]; [discriminate|]. split; [assumption|exact Logic.I]. }
  assert (NN : forall r, RT r <> R_none -> upd RT NR (R_new None f) r <> R_none).
  { intros r H. unfold upd. destruct (Nat.eqb r NR); [discriminate|assumption]. }
  constructor.
  - apply (i_keys I).
  - intros k1 hp1 G1. apply (PoolInv_frame _ _ _ _ _ _ _ _ _ _ _ _ _ _ (i_pool I k1 hp1 G1)); auto.
    intros y _ [C|[r R]]; [now left|right; exists r; now apply HH].
  - intros c1 _. apply (CliInv_mono _ _ _ _ _ _ _ (i_cli I c1 Logic.I)); eauto.
  - intros r _. destruct (Nat.eq_dec r NR) as [->|NE].
    + unfold RtInv. now rewrite upd_same.
    + apply (RtInv_mono _ _ _ _ _ _ _ (i_rt I r Logic.I)); eauto. now rewrite upd_other.
  - intros r L. rewrite upd_other by lia. apply (i_rfresh I). lia.
  - intros r X. apply NN. now apply (i_relset I).
  - apply (i_uc I).
  - intros r1 r2 x H1 H2. apply HH in H1. apply HH in H2. apply (i_ur I r1 r2 x H1 H2).
  - intros c1 k1 y r H1 H2. apply HH in H2. apply (i_ex I c1 k1 y r H1 H2).
  - discriminate.
Qed.

(* ---------- T7: BaseSession.__exit__: the holder gives its connection to a new release task ---------- *)
Lemma exit_inv c k x pc P CL RT NR NC CK RS :
  InvC None None P CL RT NR NC CK RS -> CL c = C_holding k x ->
  match pc with C_idle => True | C_cancelled => True | _ => False end ->
  InvC None None P (upd CL c pc) (upd RT NR (R_new (Some x) false)) (S NR) NC CK (NR :: RS).
Proof.
  intros I EC HPC. pose proof (i_rfresh I NR (le_n _)) as FR.
  assert (HC : cholds CL None c k x) by (split; [assumption|exact Logic.I]).
  destruct (holder_in_busy _ _ _ _ _ _ _ _ _ _ _ _ I HC) as (hp & G & B & XL & CKx).
  assert (NN : forall r, RT r <> R_none -> upd RT NR (R_new (Some x) false) r <> R_none).
  { intros r H. unfold upd. destruct (Nat.eqb r NR); [discriminate|assumption]. }
  assert (NPC : forall k1 y, pc <> C_holding k1 y) by (intros k1 y ->; contradiction).
  assert (OLDR : forall r y, rowes RT None r y -> rowes (upd RT NR (R_new (Some x) false)) None r y).
  { intros r y H. eapply rowes_upd_other; [|exact Logic.I|eassumption]. intros ->. destruct H as [[f0 E] _]. congruence. }
  assert (OLDC : forall c1 k1 y, cholds CL None c1 k1 y -> c1 <> c -> cholds (upd CL c pc) None c1 k1 y).
  { intros c1 k1 y H N. eapply cholds_upd_other; [assumption|exact Logic.I|eassumption]. }
  assert (NEWC : forall c1 k1 y, cholds (upd CL c pc) None c1 k1 y -> c1 <> c /\ cholds CL None c1 k1 y).
  { intros c1 k1 y H. destruct (upd_holding_inv _ _ _ _ _ _ _ H) as [[_ E]|[N E]].
    - exfalso. eapply NPC; eauto.
    - split; [assumption|]. split; [assumption|exact Logic.I]. }
  constructor.
  - apply (i_keys I).
  - intros k1 hp1 G1. apply (PoolInv_frame _ _ _ _ _ _ _ _ _ _ _ _ _ _ (i_pool I k1 hp1 G1)); auto.
    + intros c1 E _. split; [|exact Logic.I]. rewrite upd_other; [assumption|]. intros ->. congruence.
    + intros y _ [[c1 H]|[r R]].
      * destruct (Nat.eq_dec c1 c) as [->|NE].
        -- right. exists NR. destruct H as [E _]. rewrite EC in E. injection E as <- <-.
           split; [exists false; apply upd_same|exact Logic.I].
        -- left. exists c1. now apply OLDC.
      * right. exists r. now apply OLDR.
  - intros c1 _. destruct (Nat.eq_dec c1 c) as [->|NE].
    + unfold CliInv. rewrite upd_same. destruct pc; cbn in HPC; auto; contradiction.
    + apply (CliInv_mono _ _ _ _ _ _ _ (i_cli I c1 Logic.I)); eauto. now rewrite upd_other.
  - intros r _. destruct (Nat.eq_dec r NR) as [->|NE].
    + unfold RtInv. rewrite upd_same. rewrite CKx. eauto.
    + apply (RtInv_mono _ _ _ _ _ _ _ (i_rt I r Logic.I)); eauto. now rewrite upd_other.
  - intros r L. rewrite upd_other by lia. apply (i_rfresh I). lia.
  - intros r [<-|X]; [rewrite upd_same; discriminate|]. apply NN. now apply (i_relset I).
  - intros c1 c2 k1 k2 y H1 H2. apply NEWC in H1. apply NEWC in H2.
    apply (i_uc I c1 c2 k1 k2 y); tauto.
  - intros r1 r2 y H1 H2.
    destruct (upd_owes_inv _ _ _ _ _ _ H1) as [[-> [f1 E1]]|[N1 [f1 E1]]];
      destruct (upd_owes_inv _ _ _ _ _ _ H2) as [[-> [f2 E2]]|[N2 [f2 E2]]]; auto.
    + injection E1 as <- _. exfalso. apply (i_ex I c k x r2 HC). split; [eauto|exact Logic.I].
    + injection E2 as <- _. exfalso. apply (i_ex I c k x r1 HC). split; [eauto|exact Logic.I].
    + apply (i_ur I r1 r2 y); (split; [eauto|exact Logic.I]).
  - intros c1 k1 y r H1 H2. apply NEWC in H1. destruct H1 as [N1 H1].
    destruct (upd_owes_inv _ _ _ _ _ _ H2) as [[-> [f2 E2]]|[N2 [f2 E2]]].
    + injection E2 as <- _. apply N1. apply (i_uc I c1 c k1 k x H1 HC).
    + apply (i_ex I c1 k1 y r H1). split; [eauto|exact Logic.I].
  - discriminate.
Qed.


(* ---------- T11: HostPool.release: x goes from busy to ready, one waiter is notified ---------- *)
Lemma reldata_inv r x f P CL RT NR NC CK RS hp :
  InvC None None P CL RT NR NC CK RS -> RT r = R_new (Some x) f -> aget P (CK x) = Some hp -> In x (busy hp) ->
  InvC None (Some r) (aset P (CK x) (mkHP (x :: ready hp) (remove1 x (busy hp)) free_lock (cw_notify (cwait hp)) (hwaiters hp)))
       CL RT NR NC CK RS.
Proof.
  intros I ER G B. set (k := CK x) in *. pose proof (i_pool I k hp G) as PI.
  assert (OW : rowes RT None r x) by (split; [eauto|exact Logic.I]).
  assert (F1 : forall c k1, ~ cholds CL None c k1 x) by (intros c k1 H; exact (i_ex I c k1 x r H OW)).
  assert (NDb : NoDup (busy hp)) by (eapply NoDup_app_r; apply (p_nodup PI)).
  assert (OTHER : forall r1 y, rowes RT None r1 y -> y <> x -> rowes RT (Some r) r1 y).
  { intros r1 y [[f1 E1] _] N. split; [eauto|]. cbn. intros ->. congruence. }
  constructor.
  - apply keys_aset_NoDup, (i_keys I).
  - intros k1 hp1 G1. apply aset_cases in G1. destruct G1 as [[-> ->]|[NE G1]].
    + constructor; cbn [ready busy hlock cwait hwaiters].
      * reflexivity.
      * apply NoDup_move_br; [apply (p_nodup PI)|assumption].
      * pose proof (p_bound PI). pose proof (remove1_length x (busy hp) B). cbn [length]. unfold cid in *. lia.
      * intros y Hy. apply (p_cid PI). cbn in Hy. destruct Hy as [<-|Hy]; [apply in_or_app; now right|].
        apply in_app_or in Hy. apply in_or_app. destruct Hy as [Hy|Hy]; [now left|right]. eapply remove1_In; eauto.
      * rewrite cw_notify_keys. apply (p_cwnd PI).
      * rewrite cw_notify_length. apply (p_hw PI).
      * intros c1 X. rewrite cw_notify_keys in X. apply (p_cw PI c1 X).
      * intros y Hy. apply remove1_In_iff in Hy; [|assumption]. destruct Hy as [Hy N].
        destruct (p_own PI y Hy) as [C|[r1 R]]; [now left|right]. exists r1. now apply OTHER.
      * intros HPn. pose proof (p_wake PI (has_pending_notify _ HPn)) as H.
        pose proof (remove1_length x (busy hp) B).
        destruct (cw_notify_cases (cwait hp)) as [[NP _]|[_ E]].
        -- exfalso. apply NP. now apply has_pending_notify.
        -- rewrite E. cbn [extra] in *. unfold cid in *. lia.
    + apply (PoolInv_frame _ _ _ _ _ _ _ _ _ _ _ _ _ _ (i_pool I k1 hp1 G1)); auto.
      intros y Hy [C|[r1 R]]; [now left|right]. exists r1. apply OTHER; [assumption|].
      intros ->. apply NE. symmetry. apply (p_cid (i_pool I k1 hp1 G1) x). apply in_or_app. now right.
  - intros c1 _. apply (CliInv_mono _ _ _ _ _ _ _ (i_cli I c1 Logic.I)); auto.
    + intros k1 hp1 G1 _ W. rewrite aget_aset. destruct (Nat.eqb k1 k) eqn:E.
      * apply Nat.eqb_eq in E. subst k1. assert (hp1 = hp) by congruence. subst hp1.
        eexists. split; [reflexivity|]. cbn. now rewrite cw_notify_keys.
      * eauto.
    + intros k1 hp1 y G1 EC B1. rewrite aget_aset. destruct (Nat.eqb k1 k) eqn:E.
      * apply Nat.eqb_eq in E. subst k1. assert (hp1 = hp) by congruence. subst hp1.
        eexists. split; [reflexivity|]. cbn. apply remove1_In_iff; [assumption|]. split; [assumption|].
        intros ->. apply (F1 c1 k). split; [assumption|exact Logic.I].
      * eauto.
  - intros r1 L. apply (RtInv_mono _ _ _ _ _ _ _ (i_rt I r1 Logic.I)); auto.
    intros y f1 hp1 E1 G1 B1. rewrite aget_aset. destruct (Nat.eqb (CK y) k) eqn:E.
    + apply Nat.eqb_eq in E. rewrite E in G1. assert (hp1 = hp) by congruence. subst hp1.
      eexists. split; [reflexivity|]. cbn. apply remove1_In_iff; [assumption|]. split; [assumption|].
      intros ->. apply L. apply (i_ur I r1 r x); [split; [eauto|exact Logic.I]|assumption].
    + eauto.
  - apply (i_rfresh I).
  - apply (i_relset I).
  - apply (i_uc I).
  - intros r1 r2 y [E1 _] [E2 _]. apply (i_ur I r1 r2 y); (split; [assumption|exact Logic.I]).
  - intros c1 k1 y r1 H1 [E2 _]. apply (i_ex I c1 k1 y r1 H1). split; [assumption|exact Logic.I].
  - discriminate.
Qed.

(* a clean task owes nothing: it can be put in transit as it is *)
Lemma enter_tr r tc P CL RT NR NC CK RS :
  InvC tc None P CL RT NR NC CK RS -> (forall y f, RT r <> R_new (Some y) f) -> InvC tc (Some r) P CL RT NR NC CK RS.
Proof.
  intros I NO.
  assert (HH : forall r1 y, rowes RT None r1 y <-> rowes RT (Some r) r1 y).
  { intros r1 y. split.
    - intros [[f E] _]. split; [eauto|]. cbn. intros ->. now apply (NO y f).
    - intros [E _]. split; [assumption|exact Logic.I]. }
  constructor.
  - apply (i_keys I).
  - intros k1 hp1 G1. apply (PoolInv_frame _ _ _ _ _ _ _ _ _ _ _ _ _ _ (i_pool I k1 hp1 G1)); auto.
    intros y _ [C|[r1 R]]; [now left|right; exists r1; now apply HH].
  - apply (i_cli I).
  - intros r1 _. apply (i_rt I r1 Logic.I).
  - apply (i_rfresh I).
  - apply (i_relset I).
  - apply (i_uc I).
  - intros r1 r2 y H1 H2. apply HH in H1. apply HH in H2. apply (i_ur I r1 r2 y H1 H2).
  - intros c1 k1 y r1 H1 H2. apply HH in H2. apply (i_ex I c1 k1 y r1 H1 H2).
  - apply (i_tc I).
Qed.

(* ---------- T13: the release / clean task finishes ---------- *)
Lemma done_inv r P CL RT NR NC CK RS :
  InvC None (Some r) P CL RT NR NC CK RS -> RT r <> R_none ->
  InvC None None P CL (upd RT r R_done) NR NC CK RS.
Proof.
  intros I NN0.
  assert (HH : forall r1 y, rowes RT (Some r) r1 y <-> rowes (upd RT r R_done) None r1 y).
  { intros r1 y. split.
    - intros [[f E] L]. cbn in L. split; [exists f; now rewrite upd_other|exact Logic.I].
    - intros H. destruct (upd_owes_inv _ _ _ _ _ _ H) as [[_ [f0 E]]|[N E]]; [discriminate|]. split; assumption. }
  assert (NN : forall r1, RT r1 <> R_none -> upd RT r R_done r1 <> R_none).
  { intros r1 H. unfold upd. destruct (Nat.eqb r1 r); [discriminate|assumption]. }
  constructor.
  - apply (i_keys I).
  - intros k1 hp1 G1. apply (PoolInv_frame _ _ _ _ _ _ _ _ _ _ _ _ _ _ (i_pool I k1 hp1 G1)); auto.
    intros y _ [C|[r1 R]]; [now left|right; exists r1; now apply HH].
  - intros c1 _. apply (CliInv_mono _ _ _ _ _ _ _ (i_cli I c1 Logic.I)); eauto.
  - intros r1 _. destruct (Nat.eq_dec r1 r) as [->|NE].
    + unfold RtInv. now rewrite upd_same.
    + apply (RtInv_mono _ _ _ _ _ _ _ (i_rt I r1 NE)); eauto. now rewrite upd_other.
  - intros r1 L. rewrite upd_other; [apply (i_rfresh I r1 L)|]. intros ->. apply NN0. apply (i_rfresh I r L).
  - intros r1 X. apply NN. now apply (i_relset I).
  - apply (i_uc I).
  - intros r1 r2 y H1 H2. apply HH in H1. apply HH in H2. apply (i_ur I r1 r2 y H1 H2).
  - intros c1 k1 y r1 H1 H2. apply HH in H2. apply (i_ex I c1 k1 y r1 H1 H2).
  - discriminate.
Qed.

(* ---------- T12: HostPool.clean of k, then the deletion test of ConnectionPool.clean ---------- *)
Lemma clean_keep_inv tr k (fl : cid -> bool) P CL RT NR NC CK RS hp :
  InvC None tr P CL RT NR NC CK RS -> aget P k = Some hp ->
  InvC None tr (aset P k (mkHP (filter fl (ready hp)) (busy hp) free_lock (cwait hp) (hwaiters hp))) CL RT NR NC CK RS.
Proof.
  intros I G. pose proof (i_pool I k hp G) as PI.
  constructor.
  - apply keys_aset_NoDup, (i_keys I).
  - intros k1 hp1 G1. apply aset_cases in G1. destruct G1 as [[-> ->]|[NE G1]]; [|exact (i_pool I k1 hp1 G1)].
    constructor; cbn [ready busy hlock cwait hwaiters].
    + reflexivity.
    + apply NoDup_filter_app, (p_nodup PI).
    + pose proof (p_bound PI). pose proof (filter_length_le fl (ready hp)). lia.
    + intros y Hy. apply (p_cid PI). apply in_app_or in Hy. apply in_or_app.
      destruct Hy as [Hy|Hy]; [left|now right]. apply filter_In in Hy. tauto.
    + apply (p_cwnd PI).
    + apply (p_hw PI).
    + apply (p_cw PI).
    + apply (p_own PI).
    + apply (p_wake PI).
  - intros c1 L. apply (CliInv_mono _ _ _ _ _ _ _ (i_cli I c1 L)); auto.
    + intros k1 hp1 G1 _ W. rewrite aget_aset. destruct (Nat.eqb k1 k) eqn:E; [|eauto].
      apply Nat.eqb_eq in E. subst k1. assert (hp1 = hp) by congruence. subst hp1. eauto.
    + intros k1 hp1 y G1 _ B1. rewrite aget_aset. destruct (Nat.eqb k1 k) eqn:E; [|eauto].
      apply Nat.eqb_eq in E. subst k1. assert (hp1 = hp) by congruence. subst hp1. eauto.
  - intros r1 L. apply (RtInv_mono _ _ _ _ _ _ _ (i_rt I r1 L)); auto.
    intros y f1 hp1 _ G1 B1. rewrite aget_aset. destruct (Nat.eqb (CK y) k) eqn:E; [|eauto].
    apply Nat.eqb_eq in E. rewrite E in G1. assert (hp1 = hp) by congruence. subst hp1. eauto.
  - apply (i_rfresh I).
  - apply (i_relset I).
  - apply (i_uc I).
  - apply (i_ur I).
  - apply (i_ex I).
  - discriminate.
Qed.

Lemma clean_del_inv tr k P CL RT NR NC CK RS hp :
  InvC None tr P CL RT NR NC CK RS -> aget P k = Some hp ->
  hwaiters hp = 0%Z -> busy hp = [] ->
  InvC None tr (adel P k) CL RT NR NC CK RS.
Proof.
  intros I G HW HB. pose proof (i_pool I k hp G) as PI.
  assert (CW : cwait hp = []).
  { pose proof (p_hw PI) as H. rewrite HW in H. cbn in H. destruct (cwait hp); [reflexivity|cbn in H; lia]. }
  constructor.
  - apply keys_adel_NoDup, (i_keys I).
  - intros k1 hp1 G1. rewrite aget_adel in G1. destruct (Nat.eqb k1 k); [discriminate|]. exact (i_pool I k1 hp1 G1).
  - intros c1 L. apply (CliInv_mono _ _ _ _ _ _ _ (i_cli I c1 L)); auto.
    + intros k1 hp1 G1 _ W. rewrite aget_adel. destruct (Nat.eqb k1 k) eqn:E; [|eauto].
      apply Nat.eqb_eq in E. subst k1. assert (hp1 = hp) by congruence. subst hp1. rewrite CW in W. destruct W.
    + intros k1 hp1 y G1 _ B1. rewrite aget_adel. destruct (Nat.eqb k1 k) eqn:E; [|eauto].
      apply Nat.eqb_eq in E. subst k1. assert (hp1 = hp) by congruence. subst hp1. rewrite HB in B1. destruct B1.
  - intros r1 L. apply (RtInv_mono _ _ _ _ _ _ _ (i_rt I r1 L)); auto.
    intros y f1 hp1 _ G1 B1. rewrite aget_adel. destruct (Nat.eqb (CK y) k) eqn:E; [|eauto].
    apply Nat.eqb_eq in E. rewrite E in G1. assert (hp1 = hp) by congruence. subst hp1. rewrite HB in B1. destruct B1.
  - apply (i_rfresh I).
  - apply (i_relset I).
  - apply (i_uc I).
  - apply (i_ur I).
  - apply (i_ex I).
  - discriminate.
Qed.

End Inv.

Arguments p_lock {M tc tr CL RT NC CK k hp} _.
Arguments p_nodup {M tc tr CL RT NC CK k hp} _.
Arguments p_bound {M tc tr CL RT NC CK k hp} _.
Arguments p_cid {M tc tr CL RT NC CK k hp} _ _ _.
Arguments p_cwnd {M tc tr CL RT NC CK k hp} _.
Arguments p_hw {M tc tr CL RT NC CK k hp} _.
Arguments p_cw {M tc tr CL RT NC CK k hp} _ _ _.
Arguments p_own {M tc tr CL RT NC CK k hp} _ _ _.
Arguments p_wake {M tc tr CL RT NC CK k hp} _ _.
Arguments i_keys {M tc tr P CL RT NR NC CK RS} _.
Arguments i_pool {M tc tr P CL RT NR NC CK RS} _ _ _ _.
Arguments i_cli {M tc tr P CL RT NR NC CK RS} _ _ _.
Arguments i_rt {M tc tr P CL RT NR NC CK RS} _ _ _.
Arguments i_rfresh {M tc tr P CL RT NR NC CK RS} _ _ _.
Arguments i_relset {M tc tr P CL RT NR NC CK RS} _ _ _.
Arguments i_uc {M tc tr P CL RT NR NC CK RS} _ _ _ _ _ _ _ _.
Arguments i_ur {M tc tr P CL RT NR NC CK RS} _ _ _ _ _ _.
Arguments i_ex {M tc tr P CL RT NR NC CK RS} _ _ _ _ _ _ _.
Arguments i_tc {M tc tr P CL RT NR NC CK RS} _ _ _ _.
