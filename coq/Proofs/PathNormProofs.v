(* C15, lexical path algebra used by the writer-session proofs: how
   posixpath.normpath's component stack behaves under the string operations of
   wpull/writer.py and wpull/path.py (os.path.join, dirname, split, appending a
   suffix, anti_clobber_dir_path). *)
From Coq Require Import List NArith ZArith Bool Lia ZifyBool ZifyNat ZifyN.
From Wpull Require Import Model.Path Proofs.PathProofs.
Import ListNotations.
Open Scope N_scope.
Open Scope bool_scope.

(* the component stack of posixpath.normpath (top first) and its reading order *)
Definition stk (i : nat) (p : str) : list str := fold_left (normpath_step i) (split_on 47 p) [].
Definition nstack (p : str) : list str := rev (stk (initial_slashes p) p).
Definition render (i : nat) (l : list str) : str := repeat 47 i ++ intercalate [47] l.

Lemma posix_normpath_render p :
  posix_normpath p =
  (if is_nil (render (initial_slashes p) (nstack p)) then dot else render (initial_slashes p) (nstack p)).
Proof.
  unfold posix_normpath, render, nstack, stk. destruct p as [|a p]; [reflexivity|]. reflexivity.
Qed.

(* a name that normpath pushes and never pops *)
Definition psafe (n : str) : Prop := n <> [] /\ n <> dot /\ n <> dotdot /\ ~ In 47 n.

Lemma safe_psafe c n : safe_component c n -> psafe n.
Proof. intros (H1 & H2 & H3 & H4 & _). repeat split; assumption. Qed.

(* ---------------------------------------------------------------- *)
(* split_on                                                          *)
(* ---------------------------------------------------------------- *)
Lemma split_on_nonnil sep s : split_on sep s <> [].
Proof.
  destruct s as [|c r]; cbn; [discriminate|].
  destruct (c =? sep); [discriminate|]. destruct (split_on sep r); discriminate.
Qed.

Lemma split_on_sep sep a b : split_on sep (a ++ sep :: b) = split_on sep a ++ split_on sep b.
Proof.
  induction a as [|c a IH]; cbn [app split_on].
  - now rewrite N.eqb_refl.
  - destruct (c =? sep); [now rewrite IH|].
    rewrite IH. destruct (split_on sep a) as [|h t] eqn:E; [now apply split_on_nonnil in E|]. reflexivity.
Qed.

Lemma split_on_noslash sep n : ~ In sep n -> split_on sep n = [n].
Proof.
  induction n as [|c n IH]; intros H; [reflexivity|]. cbn [split_on].
  destruct (c =? sep) eqn:E; [apply N.eqb_eq in E; subst; exfalso; apply H; now left|].
  rewrite IH; [reflexivity|]. intros Hin. apply H. now right.
Qed.

Lemma split_on_repeat sep k : split_on sep (repeat sep k) = repeat [] (S k).
Proof.
  induction k as [|k IH]; [reflexivity|]. cbn [repeat split_on]. rewrite N.eqb_refl. now rewrite IH.
Qed.

Lemma split_on_no_sep sep s : Forall (fun x => ~ In sep x) (split_on sep s).
Proof.
  induction s as [|c s IH]; cbn [split_on]; [repeat constructor; auto|].
  destruct (c =? sep) eqn:E; [constructor; auto|].
  destruct (split_on sep s) as [|h t]; [repeat constructor; intros [->|[]]; rewrite N.eqb_refl in E; discriminate|].
  inversion IH; subst. constructor; [|assumption].
  intros [->|Hin]; [rewrite N.eqb_refl in E; discriminate|contradiction].
Qed.

(* ---------------------------------------------------------------- *)
(* the stack under concatenation                                     *)
(* ---------------------------------------------------------------- *)
Lemma step_empty i s : normpath_step i s [] = s.
Proof. reflexivity. Qed.

Lemma fold_empties i m s : fold_left (normpath_step i) (repeat [] m) s = s.
Proof. induction m as [|m IH]; [reflexivity|]. cbn. exact IH. Qed.

Lemma step_psafe i s n : psafe n -> normpath_step i s n = n :: s.
Proof.
  intros (H1 & H2 & H3 & _). unfold normpath_step.
  destruct n as [|x n]; [contradiction|]. cbn [is_nil orb].
  destruct (str_eqb (x :: n) dot) eqn:E1; [apply str_eqb_eq in E1; contradiction|].
  destruct (str_eqb (x :: n) dotdot) eqn:E2; [apply str_eqb_eq in E2; contradiction|].
  reflexivity.
Qed.

Lemma stk_nil i : stk i [] = [].
Proof. reflexivity. Qed.

Lemma stk_sep i a b : stk i (a ++ 47 :: b) = fold_left (normpath_step i) (split_on 47 b) (stk i a).
Proof. unfold stk. now rewrite split_on_sep, fold_left_app. Qed.

Lemma stk_sep_name i a n : ~ In 47 n -> stk i (a ++ 47 :: n) = normpath_step i (stk i a) n.
Proof. intros H. rewrite stk_sep, split_on_noslash by assumption. reflexivity. Qed.

Lemma stk_name i n : ~ In 47 n -> stk i n = normpath_step i [] n.
Proof. intros H. unfold stk. now rewrite split_on_noslash. Qed.

Lemma stk_slashes i q k : stk i (q ++ repeat 47 k) = stk i q.
Proof.
  destruct k as [|k]; [now rewrite app_nil_r|].
  cbn [repeat]. rewrite stk_sep, split_on_repeat. apply fold_empties.
Qed.

(* a directory prefix: empty, or ending in a separator *)
Definition hd_ok (h : str) : Prop := h = [] \/ exists d, h = d ++ [47].

Lemma stk_hd_name i h n : hd_ok h -> ~ In 47 n -> stk i (h ++ n) = normpath_step i (stk i h) n.
Proof.
  intros [->|(d & ->)] Hn.
  - cbn [app]. rewrite stk_nil. now apply stk_name.
  - rewrite <- app_assoc. cbn [app]. rewrite stk_sep_name by assumption.
    f_equal. change (d ++ [47]) with (d ++ repeat 47 1). now rewrite stk_slashes.
Qed.

(* ---------------------------------------------------------------- *)
(* the count of leading slashes under concatenation                  *)
(* ---------------------------------------------------------------- *)
Lemma init_noslash n : ~ In 47 n -> initial_slashes n = 0%nat.
Proof.
  intros H. destruct n as [|a n]; [reflexivity|].
  assert (E : (a =? 47) = false) by (apply N.eqb_neq; intros ->; apply H; now left).
  destruct n as [|b [|c n]]; cbn; now rewrite E.
Qed.

Lemma init_app3 a b c r t : initial_slashes (a :: b :: c :: r ++ t) = initial_slashes (a :: b :: c :: r).
Proof. reflexivity. Qed.

(* appending to a string whose last character is not a slash *)
Lemma init_app_last q t : q <> [] -> ends_with_char 47 q = false -> initial_slashes (q ++ t) = initial_slashes q.
Proof.
  intros Hq He. destruct q as [|a [|b [|c r]]]; [contradiction| | |reflexivity].
  - unfold ends_with_char in He. cbn in He.
    destruct t as [|x [|y t]]; cbn; rewrite He; reflexivity.
  - unfold ends_with_char in He. cbn in He.
    destruct t as [|x t]; cbn; rewrite He; destruct (a =? 47); reflexivity.
Qed.

(* appending a slash-free name to a directory prefix *)
Lemma init_hd_name h n : hd_ok h -> ~ In 47 n -> initial_slashes (h ++ n) = initial_slashes h.
Proof.
  intros [->|(d & ->)] Hn; [now apply init_noslash|].
  assert (E : forall x r, n = x :: r -> (x =? 47) = false).
  { intros x r ->. apply N.eqb_neq. intros ->. apply Hn. now left. }
  destruct d as [|a [|b [|c r]]].
  - destruct n as [|x [|y n]]; cbn; try reflexivity; now rewrite (E x _ eq_refl).
  - destruct n as [|x n]; cbn; [reflexivity|]. rewrite (E x _ eq_refl). reflexivity.
  - reflexivity.
  - reflexivity.
Qed.

(* ---------------------------------------------------------------- *)
(* two strings that name the same directory                          *)
(* ---------------------------------------------------------------- *)
Definition same_dir (a b : str) : Prop :=
  initial_slashes a = initial_slashes b /\ forall i, stk i a = stk i b.

Lemma same_dir_refl a : same_dir a a.
Proof. split; reflexivity. Qed.

Lemma same_dir_sym a b : same_dir a b -> same_dir b a.
Proof. intros [H1 H2]. split; [now symmetry|]. intros i. now symmetry. Qed.

Lemma same_dir_trans a b c : same_dir a b -> same_dir b c -> same_dir a c.
Proof. intros [H1 H2] [H3 H4]. split; [congruence|]. intros i. now rewrite H2. Qed.

Lemma same_dir_slashes q k : q <> [] -> ends_with_char 47 q = false -> same_dir (q ++ repeat 47 k) q.
Proof. intros Hq He. split; [now apply init_app_last|]. intros i. apply stk_slashes. Qed.

Lemma dir_prefix_hd_ok d : hd_ok (dir_prefix d).
Proof.
  unfold dir_prefix. destruct (is_nil d) eqn:En; [apply is_nil_true in En; subst; now left|].
  cbn [orb]. destruct (ends_with_char 47 d) eqn:Ee.
  - right. unfold ends_with_char in Ee. destruct (last_opt d) as [l|] eqn:El; [|discriminate].
    apply N.eqb_eq in Ee. subst l.
    apply is_nil_false in En. destruct (exists_last En) as (d' & x & ->).
    rewrite last_opt_app in El. inversion El. subst. now exists d'.
  - right. now exists d.
Qed.

Lemma dir_prefix_same d : same_dir (dir_prefix d) d.
Proof.
  unfold dir_prefix. destruct (is_nil d) eqn:En; [apply same_dir_refl|].
  cbn [orb]. destruct (ends_with_char 47 d) eqn:Ee; [apply same_dir_refl|].
  apply is_nil_false in En. exact (same_dir_slashes d 1 En Ee).
Qed.

(* ---------------------------------------------------------------- *)
(* posixpath.dirname / basename of  prefix ++ name                   *)
(* ---------------------------------------------------------------- *)
Lemma htls_none n : ~ In 47 n -> head_through_last_slash n = None.
Proof.
  induction n as [|c n IH]; intros H; [reflexivity|]. cbn [head_through_last_slash].
  rewrite IH by (intros Hin; apply H; now right).
  destruct (c =? 47) eqn:E; [apply N.eqb_eq in E; subst; exfalso; apply H; now left|reflexivity].
Qed.

Lemma htls_some d n : ~ In 47 n -> head_through_last_slash (d ++ 47 :: n) = Some (d ++ [47]).
Proof.
  intros H. induction d as [|c d IH]; cbn [app head_through_last_slash].
  - now rewrite htls_none.
  - now rewrite IH.
Qed.

(* rstrip('/') on the reversed string *)
Lemma rstrip_rev_spec r :
  exists k, r = repeat 47 k ++ rstrip_slash_rev r
            /\ (rstrip_slash_rev r = [] \/ exists c t, rstrip_slash_rev r = c :: t /\ (c =? 47) = false).
Proof.
  induction r as [|c r (k & E & H)]; [exists 0%nat; split; [reflexivity|now left]|].
  cbn [rstrip_slash_rev]. destruct (c =? 47) eqn:Ec.
  - apply N.eqb_eq in Ec. subst c. exists (S k). split; [cbn [repeat app]; now rewrite <- E|assumption].
  - exists 0%nat. split; [reflexivity|]. right. now exists c, r.
Qed.

Lemma forallb_repeat k : forallb (N.eqb 47) (repeat 47 k) = true.
Proof. induction k; [reflexivity|]. cbn. assumption. Qed.

Lemma ends_with_char_last x q c : ends_with_char x (q ++ [c]) = (c =? x).
Proof. unfold ends_with_char. now rewrite last_opt_app. Qed.

(* dirname(h ++ n) names the same directory as h, and so does what os.path.join
   puts in front of the next name *)
Lemma dirname_hd_name h n :
  hd_ok h -> ~ In 47 n ->
  hd_ok (dir_prefix (posix_dirname (h ++ n))) /\ same_dir (dir_prefix (posix_dirname (h ++ n))) h
  /\ same_dir (posix_dirname (h ++ n)) h.
Proof.
  intros Hh Hn. split; [apply dir_prefix_hd_ok|].
  assert (S2 : same_dir (posix_dirname (h ++ n)) h).
  { unfold posix_dirname. destruct Hh as [->|(d & ->)].
    - cbn [app]. rewrite htls_none by assumption. apply same_dir_refl.
    - rewrite <- app_assoc. cbn [app]. rewrite htls_some by assumption.
      destruct (forallb (N.eqb 47) (d ++ [47])) eqn:Ea; [apply same_dir_refl|].
      destruct (rstrip_rev_spec (rev (d ++ [47]))) as (k & E & Hq).
      set (q := rstrip_slash_rev (rev (d ++ [47]))) in *.
      apply (f_equal (@rev N)) in E. rewrite rev_involutive, rev_app_distr in E.
      assert (Er : rev (repeat 47 k) = repeat 47 k).
      { clear. induction k as [|k IH]; [reflexivity|]. cbn [repeat rev]. rewrite IH.
        clear IH. induction k as [|k IH]; [reflexivity|]. cbn [repeat app]. now rewrite IH. }
      rewrite Er in E. rewrite E. apply same_dir_sym.
      destruct Hq as [Hq|(c & t & Hq & Hc)].
      + exfalso. rewrite Hq in E. cbn in E. rewrite E, forallb_repeat in Ea. discriminate.
      + apply same_dir_slashes.
        * rewrite Hq. cbn. intros E0. apply app_eq_nil in E0. destruct E0. discriminate.
        * rewrite Hq. cbn [rev]. now rewrite ends_with_char_last. }
  split; [|exact S2].
  eapply same_dir_trans; [apply dir_prefix_same|exact S2].
Qed.

Lemma basename_hd_name h n : hd_ok h -> ~ In 47 n -> posix_basename (h ++ n) = n.
Proof.
  intros [->|(d & ->)] Hn; unfold posix_basename.
  - cbn [app]. now rewrite split_on_noslash.
  - rewrite <- app_assoc. cbn [app]. rewrite split_on_sep, (split_on_noslash 47 n) by assumption.
    now rewrite last_last.
Qed.

(* ---------------------------------------------------------------- *)
(* canonical stacks: what normpath's loop can leave on its stack     *)
(* ---------------------------------------------------------------- *)
Definition comp_ok (c : str) : Prop := c <> [] /\ c <> dot /\ ~ In 47 c.

Inductive cstack (i : nat) : list str -> Prop :=
| cs_nil : cstack i []
| cs_push c s : cstack i s -> comp_ok c -> c <> dotdot -> cstack i (c :: s)
| cs_dd s : cstack i s -> i = 0%nat -> (s = [] \/ exists s', s = dotdot :: s') -> cstack i (dotdot :: s).

Lemma cstack_tail i c s : cstack i (c :: s) -> cstack i s.
Proof. inversion 1; assumption. Qed.

Lemma cstack_suffix i a b : cstack i (a ++ b) -> cstack i b.
Proof. induction a as [|x a IH]; [trivial|]. cbn. intros H. apply IH. eapply cstack_tail; eauto. Qed.

Lemma cstack_comps i s : cstack i s -> Forall (fun c => c <> [] /\ ~ In 47 c) s.
Proof.
  induction 1 as [|c s H IH (H1 & H2 & H3) Hd|s H IH Hi Hs]; constructor; auto.
  split; [discriminate|]. cbn. intros [E|[E|[]]]; discriminate.
Qed.

Lemma step_cstack i s c : cstack i s -> ~ In 47 c -> cstack i (normpath_step i s c).
Proof.
  intros Hs Hc. unfold normpath_step.
  destruct (is_nil c || str_eqb c dot) eqn:E1; [assumption|].
  apply orb_false_iff in E1. destruct E1 as [En Ed].
  apply is_nil_false in En.
  assert (Hdot : c <> dot) by (intros ->; cbn in Ed; discriminate).
  destruct (str_eqb c dotdot) eqn:E2; cbn [negb orb].
  - apply str_eqb_eq in E2. subst c.
    destruct s as [|top st].
    + cbn [is_nil andb]. rewrite andb_true_r. destruct (Nat.eqb i 0) eqn:Ei; cbn [orb].
      * apply Nat.eqb_eq in Ei. apply cs_dd; auto.
      * constructor.
    + cbn [is_nil]. rewrite andb_false_r. cbn [orb].
      destruct (str_eqb top dotdot) eqn:Et.
      * apply str_eqb_eq in Et. subst top. apply cs_dd; [assumption| |right; eauto].
        inversion Hs as [|? ? ? ? Hne|? ? Hi ?]; [exfalso; now apply Hne|assumption].
      * eapply cstack_tail; eauto.
  - apply cs_push; [assumption|repeat split; assumption|].
    intros ->. cbn in E2. discriminate.
Qed.

Lemma fold_cstack i l : forall s,
    Forall (fun x => ~ In 47 x) l -> cstack i s -> cstack i (fold_left (normpath_step i) l s).
Proof.
  induction l as [|c l IH]; intros s Hl Hs; [assumption|].
  inversion Hl; subst. cbn. apply IH; [assumption|]. now apply step_cstack.
Qed.

Lemma stk_cstack i p : cstack i (stk i p).
Proof. apply fold_cstack; [apply split_on_no_sep|constructor]. Qed.

Lemma initial_le2 p : (initial_slashes p <= 2)%nat.
Proof.
  destruct p as [|a [|b [|c r]]]; cbn; repeat match goal with |- context [if ?x then _ else _] => destruct x end; lia.
Qed.

(* ---------------------------------------------------------------- *)
(* intercalate                                                        *)
(* ---------------------------------------------------------------- *)
Lemma intercalate_cons sep x r : r <> [] -> intercalate sep (x :: r) = x ++ sep ++ intercalate sep r.
Proof. destruct r; [contradiction|reflexivity]. Qed.

Lemma intercalate_snoc sep l c : l <> [] -> intercalate sep (l ++ [c]) = intercalate sep l ++ sep ++ c.
Proof.
  induction l as [|x l IH]; [contradiction|]. intros _.
  destruct l as [|y l]; [reflexivity|].
  change ((x :: y :: l) ++ [c]) with (x :: (y :: l) ++ [c]).
  rewrite intercalate_cons by (destruct l; discriminate).
  rewrite IH by discriminate. rewrite (intercalate_cons sep x (y :: l)) by discriminate.
  now rewrite <- !app_assoc.
Qed.

Lemma intercalate_nonempty l : l <> [] -> Forall (fun c => c <> [] /\ ~ In 47 c) l ->
  exists a t, intercalate [47] l = a :: t /\ (a =? 47) = false.
Proof.
  destruct l as [|x l]; [contradiction|]. intros _ H. inversion H as [|? ? [Hx Hn] Hl]; subst.
  destruct x as [|a x]; [contradiction|].
  assert (E : (a =? 47) = false) by (apply N.eqb_neq; intros ->; apply Hn; now left).
  destruct l; cbn; eauto.
Qed.

Lemma J_split l : l <> [] -> Forall (fun x => ~ In 47 x) l -> split_on 47 (intercalate [47] l) = l.
Proof.
  induction l as [|x l IH]; [contradiction|]. intros _ H. inversion H as [|? ? Hx Hl]; subst.
  destruct l as [|y l]; [now apply split_on_noslash|].
  rewrite intercalate_cons by discriminate. cbn [app].
  rewrite split_on_sep, (split_on_noslash 47 x) by assumption.
  rewrite IH by (discriminate || assumption). reflexivity.
Qed.

Lemma split_slashes i t : split_on 47 (repeat 47 i ++ t) = repeat [] i ++ split_on 47 t.
Proof. induction i as [|i IH]; [reflexivity|]. cbn [repeat app split_on]. rewrite N.eqb_refl. now rewrite IH. Qed.

Lemma J_slashes i l : l <> [] -> intercalate [47] (repeat [] i ++ l) = repeat 47 i ++ intercalate [47] l.
Proof.
  intros Hl. induction i as [|i IH]; [reflexivity|]. cbn [repeat app].
  rewrite intercalate_cons; [|destruct i; cbn; [assumption|discriminate]].
  rewrite IH. reflexivity.
Qed.

Lemma J_repeat_nil k : intercalate [47] (repeat [] (S k)) = repeat 47 k.
Proof.
  induction k as [|k IH]; [reflexivity|].
  change (repeat [] (S (S k))) with ([] :: repeat (@nil N) (S k)).
  rewrite intercalate_cons by discriminate. rewrite IH. reflexivity.
Qed.

(* ---------------------------------------------------------------- *)
(* normpath is idempotent on what it renders                          *)
(* ---------------------------------------------------------------- *)
Lemma init_render i t :
  (i <= 2)%nat -> (t = [] \/ exists a t', t = a :: t' /\ (a =? 47) = false) ->
  initial_slashes (repeat 47 i ++ t) = i.
Proof.
  intros Hi Ht. destruct i as [|[|[|i]]]; [| | |lia].
  - destruct Ht as [->|(a & t' & -> & E)]; [reflexivity|].
    destruct t' as [|b [|c t']]; cbn; now rewrite E.
  - destruct Ht as [->|(a & t' & -> & E)]; [reflexivity|].
    destruct t' as [|b t']; cbn; now rewrite E.
  - destruct Ht as [->|(a & t' & -> & E)]; [reflexivity|]. cbn. now rewrite E.
Qed.

Lemma stk_render i s : cstack i s -> (i <= 2)%nat -> stk i (render i (rev s)) = s.
Proof.
  intros Hs Hi. unfold render.
  assert (Push : forall c s0, cstack i (c :: s0) -> normpath_step i s0 c = c :: s0).
  { intros c s0 H. inversion H as [|? ? H0 (H1 & H2 & H3) Hd|? H0 Hi0 Hs0]; subst.
    - apply step_psafe. repeat split; assumption.
    - destruct Hs0 as [->|(s' & ->)]; reflexivity. }
  induction Hs as [|c s Hs IH Hc Hd|s Hs IH Hi0 Hss].
  - cbn [rev intercalate]. rewrite app_nil_r. change (repeat 47 i) with ([] ++ repeat 47 i) at 1.
    now rewrite stk_slashes.
  - assert (Hn : ~ In 47 c) by apply Hc.
    assert (HP := Push c s (cs_push i c s Hs Hc Hd)).
    cbn [rev]. destruct s as [|y s].
    + cbn [rev app intercalate].
      destruct i as [|[|[|i]]]; [| | |lia]; cbn [repeat app].
      * rewrite stk_name by assumption. exact HP.
      * change (47 :: c) with ([] ++ 47 :: c). rewrite stk_sep_name by assumption. exact HP.
      * change (47 :: 47 :: c) with ([47] ++ 47 :: c). rewrite stk_sep_name by assumption. exact HP.
    + rewrite intercalate_snoc by (cbn; intros E; apply app_eq_nil in E; destruct E; discriminate).
      rewrite app_assoc. cbn [app]. rewrite stk_sep_name by assumption.
      rewrite IH. exact HP.
  - assert (Hn : ~ In 47 dotdot) by (cbn; intros [E|[E|[]]]; discriminate).
    assert (HP := Push dotdot s (cs_dd i s Hs Hi0 Hss)).
    cbn [rev]. destruct s as [|y s].
    + subst i. cbn [rev app intercalate repeat]. rewrite stk_name by assumption. exact HP.
    + rewrite intercalate_snoc by (cbn; intros E; apply app_eq_nil in E; destruct E; discriminate).
      rewrite app_assoc. cbn [app]. rewrite stk_sep_name by assumption.
      rewrite IH. exact HP.
Qed.

Lemma init_render_stack i s : cstack i s -> (i <= 2)%nat -> initial_slashes (render i (rev s)) = i.
Proof.
  intros Hs Hi. unfold render. apply init_render; [assumption|].
  destruct (rev s) as [|x l] eqn:E; [now left|right].
  apply intercalate_nonempty; [discriminate|].
  rewrite <- E. apply Forall_rev. now apply cstack_comps with (i := i).
Qed.

(* the directory denoted by (i, l): l is the stack in reading order *)
Lemma render_nstack i l :
  cstack i (rev l) -> (i <= 2)%nat ->
  initial_slashes (render i l) = i /\ nstack (render i l) = l.
Proof.
  intros Hs Hi.
  pose proof (init_render_stack i (rev l) Hs Hi) as E1.
  pose proof (stk_render i (rev l) Hs Hi) as E2.
  rewrite rev_involutive in E1, E2. split; [exact E1|].
  unfold nstack. rewrite E1, E2. apply rev_involutive.
Qed.

(* pushing safe names keeps a stack canonical *)
Lemma cstack_push_all i ds : forall s, cstack i s -> Forall psafe ds -> cstack i (rev ds ++ s).
Proof.
  induction ds as [|d ds IH]; intros s Hs Hd; [assumption|].
  inversion Hd as [|? ? (H1 & H2 & H3 & H4) Hd']; subst.
  cbn [rev]. rewrite <- app_assoc. cbn [app]. apply IH; [|assumption].
  apply cs_push; [assumption|repeat split; assumption|assumption].
Qed.

(* ---------------------------------------------------------------- *)
(* suffixes                                                           *)
(* ---------------------------------------------------------------- *)
(* a suffix wpull appends to a name: harmless characters, and not only dots *)
Definition tame (c : cfg) (s : str) : Prop :=
  (forall x, In x s -> bad_char c x = false) /\ (s = [] \/ exists x, In x s /\ x <> 46).

Lemma safe_suffix c n s : safe_component c n -> tame c s -> safe_component c (n ++ s).
Proof.
  intros Hn [Hs1 Hs2]. destruct Hs2 as [->|(x & Hx & Hx46)]; [now rewrite app_nil_r|].
  apply safe_b_iff in Hn. apply safe_b_iff. destruct Hn as (H1 & H2 & H3 & H4).
  assert (Hin : In x (n ++ s)) by (apply in_or_app; now right).
  repeat split.
  - intros E. apply app_eq_nil in E. destruct E. contradiction.
  - exact (proj1 (has_non_dot _ x Hin Hx46)).
  - exact (proj2 (has_non_dot _ x Hin Hx46)).
  - intros y Hy. apply in_app_or in Hy. destruct Hy; auto.
Qed.

Lemma tame_lit c s :
  Forall (fun x => 32 <= x /\ x <> 47 /\ x <> 92) s -> (exists x, In x s /\ x <> 46) -> tame c s.
Proof.
  intros H1 H2. split; [|now right]. intros x Hx. rewrite Forall_forall in H1.
  destruct (H1 x Hx) as (A & B & C). now apply bad_char_false.
Qed.

Lemma tame_suffix_d c : tame c suffix_d.
Proof. apply tame_lit; [repeat constructor; lia|exists 100; split; [cbn; auto|lia]]. Qed.
Lemma tame_suffix_f c : tame c suffix_f.
Proof. apply tame_lit; [repeat constructor; lia|exists 102; split; [cbn; auto|lia]]. Qed.

(* ---------------------------------------------------------------- *)
(* anti_clobber_dir_path                                              *)
(* ---------------------------------------------------------------- *)
Lemma acgo_spec isfile rest : forall done parts,
    anti_clobber_go isfile done rest = Some parts ->
    exists a p b, rest = a ++ p :: b /\ parts = rev done ++ a ++ (p ++ suffix_d) :: b
                  /\ isfile (intercalate [47] (rev done ++ a ++ [p])) = true.
Proof.
  induction rest as [|p r IH]; intros done parts H; [discriminate|].
  cbn [anti_clobber_go] in H.
  destruct (isfile (intercalate [47] (rev (p :: done)))) eqn:E.
  - inversion H; subst. exists [], p, r. cbn [app rev] in *. auto.
  - destruct (IH _ _ H) as (a & q & b & -> & -> & Hf).
    exists (p :: a), q, b. cbn [rev app] in *. rewrite <- !app_assoc in *. cbn [app] in *. auto.
Qed.

Lemma app_split_long {A} (R : list A) : forall a p b dirs,
    a ++ p :: b = R ++ dirs -> (length R <= length a)%nat ->
    exists a', a = R ++ a' /\ dirs = a' ++ p :: b.
Proof.
  induction R as [|r R IH]; intros a p b dirs E Hl; [exists a; auto|].
  destruct a as [|x a]; [cbn in Hl; lia|]. cbn in E. inversion E; subst.
  destruct (IH a p b dirs H1) as (a' & -> & ->); [cbn in Hl; lia|]. exists a'. auto.
Qed.

Lemma app_split_short {A} (R : list A) : forall a p b dirs,
    a ++ p :: b = R ++ dirs -> (length a < length R)%nat ->
    a ++ [p] = firstn (S (length a)) R.
Proof.
  induction R as [|r R IH]; intros a p b dirs E Hl; [cbn in Hl; lia|].
  destruct a as [|x a]; cbn in E; inversion E; subst; [reflexivity|].
  cbn [length firstn app]. f_equal. eapply IH; eauto. cbn in Hl. lia.
Qed.

(* no all-slash path, nor ".", nor any prefix of the normalised download root is a
   regular file (PathNamer refuses a root that is a file; a file above it would
   make anti_clobber_dir_path rename a component of the prefix itself) *)
Definition root_clean (isfile : str -> bool) (i : nat) (st0 : list str) : Prop :=
  isfile dot = false /\ (forall k, isfile (repeat 47 k) = false)
  /\ forall k, isfile (intercalate [47] (firstn k (repeat [] i ++ st0))) = false.

Definition suffixed_d (d d' : str) : Prop := d' = d \/ d' = d ++ suffix_d.

Lemma Forall2_suffixed_refl l : Forall2 suffixed_d l l.
Proof. induction l; constructor; [now left|assumption]. Qed.

Lemma nstack_same a b : same_dir a b -> initial_slashes a = initial_slashes b /\ nstack a = nstack b.
Proof. intros [H1 H2]. split; [assumption|]. unfold nstack. now rewrite H1, H2. Qed.

Lemma stack_of_nstack D l : nstack D = l -> stk (initial_slashes D) D = rev l.
Proof. intros <-. unfold nstack. now rewrite rev_involutive. Qed.

Lemma acdp_placed isfile D st0 dirs :
  nstack D = st0 ++ dirs -> root_clean isfile (initial_slashes D) st0 -> Forall psafe dirs ->
  exists dirs', initial_slashes (anti_clobber_dir_path isfile D) = initial_slashes D
                /\ nstack (anti_clobber_dir_path isfile D) = st0 ++ dirs'
                /\ Forall2 suffixed_d dirs dirs'.
Proof.
  intros Hst (Rdot & Rsl & Rpre) Hd.
  set (i := initial_slashes D) in *.
  assert (Hi : (i <= 2)%nat) by apply initial_le2.
  assert (Hcs : cstack i (rev (st0 ++ dirs))).
  { rewrite <- (stack_of_nstack D _ Hst). apply stk_cstack. }
  assert (Hcs0 : cstack i (rev st0)).
  { rewrite rev_app_distr in Hcs. eapply cstack_suffix; eauto. }
  unfold anti_clobber_dir_path. rewrite posix_normpath_render. fold i. rewrite Hst.
  destruct (st0 ++ dirs) as [|x0 l0] eqn:El.
  - (* the root itself is "." or all slashes, and there is no directory below it *)
    apply app_eq_nil in El. destruct El as [-> ->]. exists []. cbn [app].
    unfold render. cbn [intercalate]. rewrite app_nil_r.
    destruct i as [|i'] eqn:Ei.
    + unfold dot in Rdot |- *. cbn. rewrite Rdot. cbn. repeat split; constructor.
    + cbn [repeat is_nil]. change (47 :: repeat 47 i') with (repeat 47 (S i')).
      rewrite split_on_repeat.
      destruct (anti_clobber_go isfile [] (repeat [] (S (S i')))) as [parts|] eqn:Eg.
      * exfalso. destruct (acgo_spec _ _ _ _ Eg) as (a & p & b & E & _ & Hf).
        cbn [rev app] in Hf.
        assert (Ha : a ++ [p] = repeat [] (S (length a))).
        { assert (Hall : Forall (eq []) (a ++ p :: b)) by (rewrite <- E; apply Forall_forall; intros y Hy; now apply repeat_spec in Hy).
          apply Forall_app in Hall. destruct Hall as [Ha Hp]. inversion Hp; subst.
          clear - Ha. induction a as [|y a IH]; [reflexivity|]. inversion Ha; subst. cbn. f_equal. auto. }
        rewrite Ha, J_repeat_nil, Rsl in Hf. discriminate.
      * split; [|split; [|constructor]].
        -- rewrite <- (app_nil_r (repeat 47 (S i'))). apply (init_render (S i') []); [lia|now left].
        -- unfold nstack. generalize (initial_slashes (repeat 47 (S i'))). intros j.
           change (repeat 47 (S i')) with ([] ++ repeat 47 (S i')). rewrite stk_slashes. reflexivity.
  - (* general case *)
    assert (Hne : x0 :: l0 <> []) by discriminate. rewrite <- El in *. clear El x0 l0.
    set (l := st0 ++ dirs) in *.
    assert (Hcomps : Forall (fun c => c <> [] /\ ~ In 47 c) l).
    { rewrite <- (rev_involutive l). apply Forall_rev. eapply cstack_comps; eauto. }
    assert (Hnoslash : Forall (fun x => ~ In 47 x) l).
    { eapply Forall_impl; [|exact Hcomps]. intros a [_ H]. exact H. }
    assert (Hrn : is_nil (render i l) = false).
    { unfold render. destruct (intercalate_nonempty l Hne Hcomps) as (a & t & E & _). rewrite E.
      destruct (repeat 47 i); reflexivity. }
    rewrite Hrn.
    replace (split_on 47 (render i l)) with (repeat [] i ++ l)
      by (unfold render; now rewrite split_slashes, J_split).
    destruct (anti_clobber_go isfile [] (repeat [] i ++ l)) as [parts|] eqn:Eg.
    + destruct (acgo_spec _ _ _ _ Eg) as (a & p & b & E & -> & Hf). cbn [rev app] in Hf |- *.
      unfold l in E. rewrite app_assoc in E. symmetry in E.
      destruct (Nat.lt_ge_cases (length a) (length (repeat [] i ++ st0))) as [Hlt|Hge].
      * exfalso. rewrite (app_split_short _ _ _ _ _ E Hlt), Rpre in Hf. discriminate.
      * destruct (app_split_long _ _ _ _ _ E Hge) as (a' & -> & Ed).
        exists (a' ++ (p ++ suffix_d) :: b).
        assert (Hd' : Forall psafe (a' ++ (p ++ suffix_d) :: b)).
        { rewrite Ed in Hd. apply Forall_app in Hd. destruct Hd as [Ha' Hpb]. inversion Hpb as [|? ? Hp Hb]; subst.
          apply Forall_app. split; [assumption|]. constructor; [|assumption].
          destruct Hp as (P1 & P2 & P3 & P4). repeat split.
          - intros E0. apply app_eq_nil in E0. destruct E0. contradiction.
          - intros E0. destruct p as [|x [|y p]]; cbn in E0; try discriminate; contradiction.
          - intros E0. destruct p as [|x [|y [|z p]]]; cbn in E0; try discriminate; contradiction.
          - intros Hin. apply in_app_or in Hin. destruct Hin as [Hin|Hin]; [contradiction|].
            cbn in Hin. destruct Hin as [E0|[E0|[]]]; discriminate. }
        assert (Hcs' : cstack i (rev (st0 ++ a' ++ (p ++ suffix_d) :: b))).
        { rewrite rev_app_distr. now apply cstack_push_all. }
        rewrite <- !app_assoc.
        assert (Hne' : st0 ++ a' ++ (p ++ suffix_d) :: b <> []).
        { intros E0. apply app_eq_nil in E0. destruct E0 as [_ E0]. apply app_eq_nil in E0. destruct E0. discriminate. }
        rewrite J_slashes by assumption.
        destruct (render_nstack i _ Hcs' Hi) as [R1 R2]. unfold render in R1, R2.
        repeat split; [exact R1|exact R2|].
        rewrite Ed. clear. induction a' as [|y a' IH]; cbn.
        -- constructor; [now right|apply Forall2_suffixed_refl].
        -- constructor; [now left|assumption].
    + exists dirs. destruct (render_nstack i l Hcs Hi) as [R1 R2].
      repeat split; [exact R1|exact R2|apply Forall2_suffixed_refl].
Qed.
