(* C04 - proofs about Model/WarcSession.v: which records one HTTP session
   produces and what their blocks are, for every segmentation oracle. *)
From Coq Require Import List NArith ZArith Bool Arith Lia.
From Wpull Require Import Lib.ListX Lib.Conn Model.PyText Model.Decomp Proofs.DecompProofs Model.Chunked Model.HttpMsg
  Model.WarcSession Spec.HttpFraming Proofs.HttpProofs Proofs.HttpLineProofs Proofs.HttpRefProofs Proofs.HttpTraceProofs.
Import ListNotations.
Open Scope N_scope.

(* ---------------- the write side ---------------- *)
Lemma notified_write_ops pieces : notified (write_ops pieces) = pieces.
Proof. induction pieces as [|d r IH]; [reflexivity|]. cbn. now f_equal. Qed.

Lemma written_write_ops pieces : written (write_ops pieces) = concat pieces.
Proof. induction pieces as [|d r IH]; [reflexivity|]. cbn. now f_equal. Qed.

(* ---------------- the recorder session ---------------- *)
Lemma fold_request_data ps : forall uri id blk tmp resp out next,
  fold_left rs_step (map RequestData ps) (mkRS uri (Some (id, blk)) tmp resp out next)
  = mkRS uri (Some (id, blk ++ concat ps)) tmp resp out next.
Proof.
  induction ps as [|d r IH]; intros; cbn [map fold_left concat].
  - now rewrite app_nil_r.
  - cbn [rs_step rs_req rs_uri rs_tmp rs_resp rs_out rs_next]. rewrite IH. now rewrite app_assoc.
Qed.

Definition req_record (next : N) (uri : list N) (pieces : list (list N)) : wrec :=
  mkRec TRequest next uri None (concat pieces).
Definition resp_record (next : N) (uri : list N) (block : list N) : wrec :=
  mkRec TResponse (next + 1) uri (Some next) block.

Section Sess.
  Variable zst : Type.
  Variable zinit : wbits -> zst.
  Variable zstep : zst -> N -> option (zst * list N).
  Variable zeof : zst -> bool.
  Variable zfl : zst -> list N.

  Notation read_body := (read_body zst zinit zstep zeof zfl).
  Notation session_records := (session_records zst zinit zstep zeof zfl).
  Notation reference := (reference zst zinit zstep zeof zfl).

  (* the records of one session, in closed form *)
  Lemma session_records_shape o next uri pieces P c :
    session_records o next uri pieces P c =
    match read_response (mkSt c [] false) with
    | Err _ => [req_record next uri pieces]
    | Ok r s1 =>
        match read_body o P r (mkSt (cn s1) [] (closed s1)) with
        | Err _ => [req_record next uri pieces]
        | Ok _ s2 => [req_record next uri pieces; resp_record next uri (recd s1 ++ recd s2)]
        end
    end.
  Proof.
    unfold WarcSession.session_records, rs_run, session_events. rewrite notified_write_ops.
    cbn [fold_left rs_step rs_init rs_next rs_tmp rs_resp rs_out rs_uri rs_req].
    rewrite fold_left_app, fold_request_data. cbn [app fold_left].
    cbn [rs_step rs_next rs_tmp rs_resp rs_out rs_uri rs_req app].
    destruct (read_response (mkSt c [] false)) as [e|r s1]; [reflexivity|].
    cbn [fold_left rs_step rs_next rs_tmp rs_resp rs_out rs_uri rs_req app].
    destruct (read_body o P r (mkSt (cn s1) [] (closed s1))) as [e|a s2]; [reflexivity|].
    cbn [fold_left rs_step rs_next rs_tmp rs_resp rs_out rs_uri rs_req app]. reflexivity.
  Qed.

  (* (a) a well-formed, decodable message followed by any surplus *)
  Theorem response_block_wf o next uri pieces P bs m surplus ef :
    wf_response P 0 bs m -> (m_delim m = DClose -> surplus = []) ->
    reference (content_kind (m_head m)) (m_payload m) <> None ->
    session_records o next uri pieces P (mkConn (bs ++ surplus) ef)
    = [req_record next uri pieces; resp_record next uri bs].
  Proof.
    intros Hwf Hsur Hdec. rewrite session_records_shape. unfold read_response.
    destruct (read_response_wf P 0 bs m Hwf surplus ef [] false
                (fuel_of (mkSt (mkConn (bs ++ surplus) ef) [] false))) as (hd & w & r & -> & Hw & ->).
    { unfold fuel_of; cbn [cn pending]. lia. }
    cbn [cn recd closed app].
    destruct (read_body_wf zst zinit zstep zeof zfl P r _ w m Hw o surplus ef [] Hsur) as (Hh & Hb).
    rewrite Hh in Hdec. destruct (reference (content_kind r) (m_payload m)) as [body|]; [|congruence].
    destruct Hb as (s' & -> & Hrc & _). rewrite Hrc. reflexivity.
  Qed.

  (* (b) ANY byte stream: one request record; and a response record only when the
     exchange completed, whose block is then a prefix of the wire bytes - the rest
     is still unread on the open connection or was discarded with it *)
  Theorem records_any_stream o next uri pieces P bs ef :
    let recs := session_records o next uri pieces P (mkConn bs ef) in
    recs = [req_record next uri pieces]
    \/ exists block tail, recs = [req_record next uri pieces; resp_record next uri block] /\ bs = block ++ tail
                          /\ match WarcSession.session_conn zst zinit zstep zeof zfl o P (mkConn bs ef) with
                             | Some c1 => pending c1 = tail        (* still unread on the open connection *)
                             | None => True                        (* wpull closed the connection: discarded *)
                             end.
  Proof.
    cbv zeta. rewrite session_records_shape. unfold WarcSession.session_conn, read_response.
    destruct (read_response_loop _ _) as [e|r s1] eqn:E; [now left|].
    assert (Ho : opened bs (mkSt (mkConn bs ef) [] false)) by (split; reflexivity).
    destruct (read_response_opened bs _ _ _ _ Ho E) as [Hc E1].
    destruct (read_body o P r (mkSt (cn s1) [] (closed s1))) as [e|a s2] eqn:E2; [now left|].
    right. rewrite Hc in E2.
    assert (Ho2 : opened (pending (cn s1)) (mkSt (cn s1) [] false)) by (split; reflexivity).
    destruct (read_body_accounted zst zinit zstep zeof zfl o _ P r _ a s2 Ho2 E2) as (tail & E3 & Hopen & _).
    exists (recd s1 ++ recd s2), tail. split; [reflexivity|]. split; [rewrite E1, E3; now rewrite app_assoc|].
    destruct (closed s2); [exact I|]. now apply Hopen.
  Qed.

  (* (c) the records do not depend on how the stream is cut into reads *)
  Theorem records_segmentation_independent o1 o2 next uri pieces P c :
    session_records o1 next uri pieces P c = session_records o2 next uri pieces P c.
  Proof.
    rewrite !session_records_shape.
    destruct (read_response (mkSt c [] false)) as [e|r s1]; [reflexivity|].
    pose proof (read_body_sim zst zinit zstep zeof zfl o1 o2 P r (mkSt (cn s1) [] (closed s1))) as H.
    destruct (read_body o1 P r _) as [e1|a1 t1], (read_body o2 P r _) as [e2|a2 t2]; cbn [res_sim] in H;
      try reflexivity; try contradiction.
    destruct H as (_ & Hc & _). apply (f_equal recd) in Hc. cbn [close recd] in Hc. now rewrite Hc.
  Qed.

  (* (d) the request block is what was written to the connection *)
  Theorem request_block_is_written o next uri pieces P c :
    exists rest, session_records o next uri pieces P c
                 = mkRec TRequest next uri None (written (write_ops pieces)) :: rest.
  Proof.
    rewrite session_records_shape, written_write_ops. unfold req_record.
    destruct (read_response (mkSt c [] false)) as [e|r s1]; [eexists; reflexivity|].
    destruct (read_body o P r _) as [e|a s2]; eexists; reflexivity.
  Qed.

  (* (e) lockstep sequences on a persistent connection *)
  Notation session_conn := (session_conn zst zinit zstep zeof zfl).
  Notation sessions := (sessions zst zinit zstep zeof zfl).

  Lemma session_conn_wf o P bs m ef :
    keeps_open zst zinit zstep zeof zfl (P, bs, m) -> session_conn o P (mkConn bs ef) = Some (mkConn [] ef).
  Proof.
    intros (Hwf & Hd & Hwc & Hdec). unfold WarcSession.session_conn, read_response.
    destruct (read_response_wf P 0 bs m Hwf [] ef [] false
                (fuel_of (mkSt (mkConn (bs ++ []) ef) [] false))) as (hd & w & r & E & Hw & Hr).
    { unfold fuel_of; cbn [cn pending]. lia. }
    rewrite app_nil_r in Hr. rewrite Hr. cbn [cn recd closed app].
    destruct (read_body_wf zst zinit zstep zeof zfl P r _ w m Hw o [] ef [] ltac:(congruence)) as (Hh & Hb).
    rewrite Hh in Hdec. destruct (reference (content_kind r) (m_payload m)) as [body|]; [|congruence].
    destruct Hb as (s' & -> & _ & Hopen & _ & Hcl).
    rewrite (Hcl (or_introl eq_refl)), Hwc. rewrite (Hcl (or_introl eq_refl)), Hwc in Hopen.
    rewrite (Hopen eq_refl). destruct (m_delim m); congruence.
  Qed.

  Fixpoint expected_records (next : N) (xs : list (list N * list (list N) * (params * list N * message))) : list wrec :=
    match xs with
    | [] => []
    | (uri, pieces, (P, bs, m)) :: r =>
        req_record next uri pieces :: resp_record next uri bs :: expected_records (next + 2) r
    end.

  Theorem sessions_lockstep o (xs : list (list N * list (list N) * (params * list N * message))) :
    Forall (fun x => keeps_open zst zinit zstep zeof zfl (snd x)) xs ->
    forall next ef,
      sessions o next (map (fun x => (fst (fst x), snd (fst x), fst (fst (snd x)), snd (fst (snd x)))) xs) (mkConn [] ef)
      = expected_records next xs.
  Proof.
    induction 1 as [|[[uri pieces] [[P bs] m]] xs Hk _ IH]; intros next ef; [reflexivity|].
    cbn [map fst snd WarcSession.sessions pending eof_hit app expected_records].
    pose proof Hk as (Hwf & Hd & Hwc & Hdec). cbn [snd] in Hk.
    pose proof (response_block_wf o next uri pieces P bs m [] ef Hwf ltac:(congruence) Hdec) as Hr.
    rewrite app_nil_r in Hr. rewrite Hr, (session_conn_wf o P bs m ef Hk). cbn [app]. now rewrite IH.
  Qed.
End Sess.
