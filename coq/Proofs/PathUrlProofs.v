(* C15, URL level: PathNamer.get_filename modelled from the URL STRING through the
   concrete urlsplit model (Model/PathWriter.v).  The two facts about urlsplit's
   result that Proofs/PathProofs.v took as hypotheses are discharged here:
   SplitResult.hostname is never the empty string, and the scheme is not empty
   for a URL that starts with "http:", "https:" or "ftp:". *)
From Coq Require Import List NArith ZArith Bool Lia ZifyBool ZifyNat ZifyN.
From Wpull Require Import Model.Path Model.PathWriter Proofs.PathProofs Proofs.PathNormProofs Proofs.PathWriterProofs.
Import ListNotations.
Open Scope N_scope.
Open Scope bool_scope.

Definition lit_http : str := [104; 116; 116; 112].
Definition lit_https : str := [104; 116; 116; 112; 115].
Definition lit_ftp : str := [102; 116; 112].

(* url = "http:..." | "https:..." | "ftp:..." : what URLInfo.parse produces for the
   three schemes wpull downloads (C10) *)
Definition starts_with_scheme (url : str) : Prop :=
  exists s rest, url = s ++ 58 :: rest /\ (s = lit_http \/ s = lit_https \/ s = lit_ftp).

Lemma case_map_nonempty f s : case_map_safe f -> s <> [] -> f s <> [].
Proof.
  intros Hf Hs. destruct (Hf s) as (pieces & E & HF). rewrite E.
  eapply pieces_nonempty; eauto.
Qed.

Section Url.
  Variable bracket_ok netloc_ok : str -> bool.
  Variable sha1hex : list N -> str.
  Variable pylower pyupper : str -> str.
  Hypothesis Hsha : sha1_shape sha1hex.
  Hypothesis Hlower : case_map_safe pylower.
  Hypothesis Hupper : case_map_safe pyupper.

  Lemma hostname_of_nonempty h : hostname_of pylower h <> Some [].
  Proof.
    unfold hostname_of. destruct (is_nil h) eqn:En; [discriminate|].
    apply is_nil_false in En.
    destruct (cut_first 37 h) as [[a z]|].
    - intros E. inversion E as [E']. apply app_eq_nil in E'. destruct E' as [_ E']. discriminate.
    - intros E. inversion E as [E']. revert E'. now apply case_map_nonempty.
  Qed.

  Lemma urlsplit_scheme url0 sp :
    urlsplit bracket_ok netloc_ok url0 = Some sp ->
    sp_scheme sp = fst (split_scheme (remove_tab_nl (lstrip_c0 url0))).
  Proof.
    unfold urlsplit. destruct (split_scheme _) as [scheme url1]. cbn [fst].
    set (is_net := match url1 with a :: b :: _ => (a =? 47) && (b =? 47) | _ => false end).
    destruct (if is_net then span_netloc (skipn 2 url1) else ([], url1)) as [netloc url2].
    destruct (is_net && xorb _ _); [discriminate|].
    destruct (is_net && _ && _ && negb _); [discriminate|].
    destruct (cut_first 63 _) as [[a b]|]; destruct (negb (netloc_ok netloc)); try discriminate;
      intros H; inversion H; reflexivity.
  Qed.

  Lemma split_scheme_lit s rest :
    s = lit_http \/ s = lit_https \/ s = lit_ftp ->
    fst (split_scheme (remove_tab_nl (lstrip_c0 (s ++ 58 :: rest)))) = s.
  Proof. intros [-> | [-> | ->]]; reflexivity. Qed.

  Lemma urlparts_of_facts need url is_ftp u :
    urlparts_of bracket_ok netloc_ok pylower need url is_ftp = Ok u ->
    u_hostname u <> Some [] /\ (starts_with_scheme url -> u_scheme u <> []).
  Proof.
    unfold urlparts_of. destruct (urlsplit _ _ url) as [sp|] eqn:ES; [|discriminate].
    destruct (hostinfo (sp_netloc sp)) as [h ptxt].
    destruct (if need then port_of ptxt else Some None) as [port|]; [|discriminate].
    intros H. inversion H; subst u; cbn [u_hostname u_scheme]. split.
    - apply hostname_of_nonempty.
    - intros (s & rest & -> & Hs). rewrite (urlsplit_scheme _ _ ES), (split_scheme_lit s rest Hs).
      destruct Hs as [-> | [-> | ->]]; discriminate.
  Qed.

  (* the two facts the session theorems need about a URL's components hold for what
     the urlsplit model returns on a URL that starts with one of the three schemes *)
  Theorem url_ok_of_url c need url is_ftp u :
    (protocol c = true -> starts_with_scheme url) ->
    urlparts_of bracket_ok netloc_ok pylower need url is_ftp = Ok u -> url_ok c u.
  Proof.
    intros Hs H. destruct (urlparts_of_facts _ _ _ _ H) as [Hh Hsch]. split; auto.
  Qed.

  Theorem url_path_inside_root c root url is_ftp path :
    index c <> [] -> (protocol c = true -> starts_with_scheme url) ->
    get_filename_url bracket_ok netloc_ok pylower sha1hex pyupper c root url is_ftp = Ok path ->
    exists parts, parts <> [] /\ Forall (safe_component c) parts
                  /\ path = dir_prefix root ++ intercalate [47] parts.
  Proof.
    intros Hi Hs H. unfold get_filename_url, bind in H.
    destruct (urlparts_of _ _ _ _ url is_ftp) as [u|] eqn:EU; [|discriminate].
    destruct (urlparts_of_facts _ _ _ _ EU) as [Hh Hsch].
    apply (path_inside_root sha1hex pylower pyupper Hsha Hlower Hupper c root u path Hi); auto.
  Qed.
  (* the whole chain from two URL strings (request, last hop) to the opened path *)
  Theorem session_from_urls
          (fs_isfile_o fs_isdir_o fs_exists_o : str -> bool) w fuel c root url1 ftp1 need1 url2 ftp2 need2 u1 r o f :
    index c <> [] -> starts_with_scheme url1 -> starts_with_scheme url2 ->
    urlparts_of bracket_ok netloc_ok pylower need1 url1 ftp1 = Ok u1 ->
    urlparts_of bracket_ok netloc_ok pylower need2 url2 ftp2 = Ok (r_url r) ->
    root_clean fs_isfile_o (initial_slashes root) (nstack root) ->
    session_run sha1hex pylower pyupper fs_isfile_o fs_isdir_o fs_exists_o w fuel c root u1 r = Ok o ->
    opened o f -> placed c (initial_slashes root) (nstack root) f.
  Proof.
    intros Hi Hs1 Hs2 E1 E2 Hrc H Ho.
    apply (session_run_placed fs_isfile_o fs_isdir_o fs_exists_o sha1hex pylower pyupper Hsha Hlower Hupper
                              w fuel c root u1 r o f Hi); auto.
    - exact (url_ok_of_url c need1 url1 ftp1 u1 (fun _ => Hs1) E1).
    - exact (url_ok_of_url c need2 url2 ftp2 (r_url r) (fun _ => Hs2) E2).
  Qed.
End Url.
