(* Proofs/FilterProofs.v - C02: the translated filter code (Gen/UrlFilter.v, regenerated from
   wpull on every run, executed by the interpreter of Lib/MiniPy.v) computes exactly the
   reference scope predicate of Spec/Scope.v, for ALL inputs.
     part A  helpers (strings, string-keyed dicts, membership)
     part B  one lemma per filter class: <Filter>.test = its bullet of Spec/Scope.v
     part C  DemuxURLFilter.test_info: verdict = conjunction, for every filter list
     part D  FetchRule.consult_filters / is_only_span_hosts_failed: the redirect waiver
     part E  _build_url_filters + the span-hosts filter of the post-import task = build_spec
     part F  the verdict of the built filters = in_scope; with the waiver = in_scope minus span-hosts *)
From Coq Require Import List NArith ZArith Bool Lia Arith.
From Wpull Require Import Lib.MiniPy Spec.Scope Gen.UrlFilter.
Import ListNotations.
Open Scope nat_scope.
Open Scope bool_scope.

(* ------------------------------------------------------------------ part A *)
Lemma Neqb_refl : forall x : N, N.eqb x x = true.
Proof. intros; apply N.eqb_refl. Qed.

Lemma str_eqb_eq : forall a b, str_eqb a b = true <-> a = b.
Proof.
  induction a as [|x a IH]; destruct b as [|y b]; cbn; split; intro H; try reflexivity; try discriminate.
  - apply andb_true_iff in H as [H1 H2]. apply N.eqb_eq in H1. apply IH in H2. congruence.
  - inversion H; subst. rewrite N.eqb_refl. cbn. apply IH. reflexivity.
Qed.
Lemma str_eqb_refl : forall a, str_eqb a a = true.
Proof. intros; apply str_eqb_eq; reflexivity. Qed.
Lemma str_eqb_sym : forall a b, str_eqb a b = str_eqb b a.
Proof.
  intros. destruct (str_eqb a b) eqn:E1, (str_eqb b a) eqn:E2; try reflexivity.
  - apply str_eqb_eq in E1; subst. rewrite str_eqb_refl in E2; discriminate.
  - apply str_eqb_eq in E2; subst. rewrite str_eqb_refl in E1; discriminate.
Qed.

Lemma in_list_strs : forall s l, in_list (PStr s) (map PStr l) = Ok (existsb (str_eqb s) l).
Proof. induction l as [|x l IH]; cbn; [reflexivity|]. destruct (str_eqb s x); cbn; auto. Qed.

Lemma in_list_none_strs : forall l, in_list PNone (map PStr l) = Ok false.
Proof. induction l as [|x l IH]; cbn; auto. Qed.

Lemma in_list_ostr : forall h l, in_list (pv_ostr h) (map PStr l) = Ok (host_in h l).
Proof. intros [s|] l; cbn [pv_ostr host_in]; [apply in_list_strs | apply in_list_none_strs]. Qed.

(* string-keyed dicts *)
Definition sd (l : list (str * pv)) : list (pv * pv) := map (fun kv => (PStr (fst kv), snd kv)) l.
Fixpoint sget (k : str) (l : list (str * pv)) : option pv :=
  match l with [] => None | (k', v) :: l' => if str_eqb k k' then Some v else sget k l' end.
Fixpoint sset (k : str) (v : pv) (l : list (str * pv)) : list (str * pv) :=
  match l with
  | [] => [(k, v)]
  | (k', v') :: l' => if str_eqb k k' then (k', v) :: l' else (k', v') :: sset k v l'
  end.
Lemma dict_get_sd : forall k l, dict_get (PStr k) (sd l) = Ok (sget k l).
Proof. induction l as [|[k' v] l IH]; cbn; [reflexivity|]. destruct (str_eqb k k'); auto. Qed.
Lemma dict_set_sd : forall k v l, dict_set (PStr k) v (sd l) = Ok (sd (sset k v l)).
Proof.
  induction l as [|[k' v'] l IH]; cbn; [reflexivity|]. destruct (str_eqb k k'); cbn; [reflexivity|].
  fold (sd l). rewrite IH. reflexivity.
Qed.
Lemma in_list_keys_sd : forall k l, in_list (PStr k) (map fst (sd l)) = Ok (match sget k l with Some _ => true | None => false end).
Proof. induction l as [|[k' v] l IH]; cbn; [reflexivity|]. destruct (str_eqb k k'); auto. Qed.
Lemma sget_sset : forall k k' v l, sget k' (sset k v l) = if str_eqb k' k then Some v else sget k' l.
Proof.
  induction l as [|[k0 v0] l IH]; cbn.
  - destruct (str_eqb k' k); reflexivity.
  - destruct (str_eqb k k0) eqn:E; cbn.
    + apply str_eqb_eq in E; subst k0. destruct (str_eqb k' k); reflexivity.
    + destruct (str_eqb k' k0) eqn:E2.
      * destruct (str_eqb k' k) eqn:E3; [|reflexivity].
        apply str_eqb_eq in E2, E3; subst. rewrite str_eqb_refl in E; discriminate.
      * apply IH.
  Qed.

(* the result of a call: some value whose truth value is b *)
Definition returns (x : res pv) (b : bool) : Prop := exists v, x = Ok v /\ truthy v = b.

Ltac unf := unfold pv_filter, pv_urlinfo, pv_record, mk_obj, filter_cls, filter_fields.
Ltac red1 := mp_reduce; cbn [pv_ostr pv_oint pv_ostrs u_scheme u_hostname u_port u_path u_url
                              r_level r_inline r_tries r_parent r_root o_re_search o_fn_translate o_fnmatchcase
                              o_parse o_urljoin mk_oracles nonempty given items ogiven otext].
Ltac auto_mp := repeat (progress (red1; try mp_split)); try reflexivity.
Ltac fuel m := destruct m as [|m]; [lia|].

(* expose the step function of the (single) for loop in the goal *)
Ltac loop_lemma H :=
  match goal with |- context [for_loop ?st (map PStr ?l) ?E] =>
    let r := fresh "R" in
    destruct (H st l E) as (?E' & r); [try reflexivity ..|]; rewrite r; clear r
  end.

Lemma run_S : forall O P m c mt args fd, P c mt = Some fd ->
  run O P (S m) c mt args = match run_body O (run O P m) fd args with Ok (v, _) => Ok v | Err e => Err e end.
Proof. intros O P m c mt args fd H. cbn [run]. rewrite H. reflexivity. Qed.
Ltac enter := erewrite run_S by reflexivity.

Section WithLib.
Variable L : lib.
Notation O := (mk_oracles L).
Notation runf := (run O filter_prog).

(* ------------------------------------------------------------------ part B *)
Definition test_of (m : nat) (f : filter) (u : urlinfo) (r : urlrec) : res pv :=
  runf m (filter_cls f) M_test [pv_filter f; pv_urlinfo u; pv_record r].

Lemma SchemeFilter_ok : forall al u r m, (m >= 1)%nat -> test_of m (FScheme al) u r = Ok (PBool (scheme_spec al u)).
Proof.
  intros al u r m Hm; fuel m. unfold test_of; unf; enter; unfold SchemeFilter__test. red1.
  rewrite in_list_strs. reflexivity.
Qed.

Lemma HTTPSOnlyFilter_ok : forall u r m, (m >= 1)%nat -> test_of m FHTTPSOnly u r = Ok (PBool (https_only_spec u)).
Proof. intros u r m Hm; fuel m. reflexivity. Qed.

Definition parse_opt (o : option str) : pv :=
  match o with Some s => pv_urlinfo (l_parse L s) | None => PNone end.

Lemma parent_url_info_ok : forall r m, (m >= 1)%nat ->
  runf m C_URLProperties M_parent_url_info [pv_record r] = Ok (parse_opt (r_parent r)).
Proof. intros [lv il tr [p|] ro] m Hm; fuel m; reflexivity. Qed.

Lemma FollowFTPFilter_ok : forall fo u r m, (m >= 2)%nat ->
  test_of m (FFollowFTP fo) u r = Ok (PBool (follow_ftp_spec L fo u r)).
Proof.
  intros fo u r m Hm; fuel m. unfold test_of, follow_ftp_spec, parent_is_web, web_scheme, s_ftp, s_http, s_https; unf.
  enter; unfold FollowFTPFilter__test. red1.
  destruct r as [lv il tr [p|] ro]; red1.
  2: { repeat (progress (red1; try mp_split)); reflexivity. }
  destruct p as [|c p]; red1.
  { repeat (progress (red1; try mp_split)); reflexivity. }
  mp_split; red1; [|reflexivity].
  rewrite (parent_url_info_ok {| r_level := lv; r_inline := il; r_tries := tr; r_parent := Some (c :: p); r_root := ro |}) by lia.
  unfold parse_opt, pv_urlinfo, mk_obj. red1.
  repeat (progress (red1; try mp_split)); reflexivity.
Qed.


(* -- domain suffixes -- *)
Lemma domain_match_ok : forall self l h m, (m >= 1)%nat ->
  returns (runf m C_BackwardDomainFilter M_match [self; pv_strs l; pv_ostr h]) (suffix_match l h).
Proof.
  intros self l h m Hm; fuel m. unfold returns, suffix_match, pv_strs.
  enter; unfold BackwardDomainFilter__match. red1.
  destruct h as [s|]; red1; [|eexists; split; reflexivity].
  destruct s as [|c s]; red1; [eexists; split; reflexivity|].
  set (s0 := c :: s). clearbody s0.
  match goal with |- context [for_loop ?st _ ?E] => set (step := st); set (E0 := E) end.
  assert (H : forall l E, E 2 = Some (PStr s0) ->
            exists E', for_loop step (map PStr l) E =
                       Ok (E', if existsb (endswith s0) l then Some (PBool true) else None)).
  { clear. induction l as [|x l IH]; intros E HE; cbn [map for_loop existsb].
    - eexists; reflexivity.
    - unfold step at 1. red1. rewrite HE. red1.
      destruct (endswith s0 x); red1; [eexists; reflexivity|].
      apply IH. red1. exact HE. }
  destruct (H l E0 eq_refl) as (E' & ->).
  destruct (existsb (endswith s0) l); eexists; split; reflexivity.
Qed.

Lemma truthy_pv_strs : forall l, truthy (pv_strs l) = nonempty l.
Proof. intros [|x l]; reflexivity. Qed.
Lemma py_in_ostr_strs : forall h l, py_in (pv_ostr h) (pv_strs l) = Ok (host_in h l).
Proof. intros; unfold pv_strs; cbn [py_in]. apply in_list_ostr. Qed.

Ltac use_truthy := match goal with H : truthy ?v = _ |- context [truthy ?v] => rewrite H end.
Ltac dom_step := first
  [ progress red1
  | rewrite truthy_pv_strs
  | match goal with |- context [run _ filter_prog ?m C_BackwardDomainFilter M_match [?s; pv_strs ?l; pv_ostr ?h]] =>
       let v := fresh "v" in let Hv := fresh "Hv" in let E := fresh "E" in
       destruct (domain_match_ok s l h m ltac:(lia)) as (v & E & Hv); rewrite E; clear E end
  | use_truthy
  | mp_split ].

Lemma BackwardDomainFilter_ok : forall a rj u r m, (m >= 2)%nat ->
  test_of m (FDomain a rj) u r = Ok (PBool (domain_spec a rj u)).
Proof.
  intros a rj u r m Hm; fuel m. unfold test_of, domain_spec; unf.
  enter; unfold BackwardDomainFilter__test.
  destruct a as [[|x la]|], rj as [[|y lr]|]; repeat dom_step; reflexivity.
Qed.

(* -- host names -- *)
Ltac host_step := first
  [ progress red1
  | rewrite truthy_pv_strs
  | rewrite py_in_ostr_strs
  | mp_split ].
Lemma HostnameFilter_ok : forall a rj u r m, (m >= 1)%nat ->
  test_of m (FHostname a rj) u r = Ok (PBool (hostname_spec a rj u)).
Proof.
  intros a rj u r m Hm; fuel m. unfold test_of, hostname_spec; unf.
  enter; unfold HostnameFilter__test.
  destruct a as [[|x la]|], rj as [[|y lr]|]; repeat host_step; reflexivity.
Qed.

(* -- recursion, depth, tries -- *)
Lemma RecursiveFilter_ok : forall e p u r m, (m >= 1)%nat ->
  returns (test_of m (FRecursive e p) u r) (recursive_spec e p r).
Proof.
  intros e p u [lv [il|] tr pa ro] m Hm; fuel m; unfold returns, test_of, recursive_spec, is_requisite; unf;
    enter; unfold RecursiveFilter__test; cbn [r_level r_inline];
    repeat (progress (red1; try mp_split)); eexists; split; try reflexivity;
    destruct e, p; reflexivity.
Qed.

Lemma LevelFilter_ok : forall d i u r m, (m >= 1)%nat ->
  test_of m (FLevel d i) u r = Ok (PBool (level_spec d i r)).
Proof.
  intros d i u [lv [il|] tr pa ro] m Hm; fuel m; unfold test_of, level_spec, is_requisite; unf;
    enter; unfold LevelFilter__test; cbn [r_level r_inline]; auto_mp.
Qed.

Lemma TriesFilter_ok : forall t u r m, (m >= 1)%nat ->
  test_of m (FTries t) u r = Ok (PBool (tries_spec t r)).
Proof.
  intros t u [lv il tr pa ro] m Hm; fuel m; unfold test_of, tries_spec; unf;
    enter; unfold TriesFilter__test; cbn [r_tries]; auto_mp.
Qed.

(* -- url.py helpers -- *)
Lemma schemes_similar_ok : forall a b m, (m >= 1)%nat ->
  runf m C_mod_url M_schemes_similar [PStr a; PStr b] = Ok (PBool (schemes_similar_spec a b)).
Proof.
  intros a b m Hm; fuel m. unfold schemes_similar_spec, web_scheme, s_http, s_https.
  enter; unfold mod_url__schemes_similar. auto_mp.
Qed.

Lemma rsplit1_cases : forall c s, (exists h t, rsplit1 c s = [h; t]) \/ rsplit1 c s = [s].
Proof. intros c s. unfold rsplit1. destruct (rsplit1_aux c s) as [[h t]|]; [left; eauto | right; reflexivity]. Qed.

Lemma is_subdir_trailing_ok : forall b t m, (m >= 1)%nat ->
  runf m C_mod_url M_is_subdir [PStr b; PStr t; PBool true; PBool false]
  = Ok (PBool (startswith (dir_of t) (dir_of b))).
Proof.
  intros b t m Hm; fuel m. unfold dir_of, slash.
  enter; unfold mod_url__is_subdir. red1.
  destruct (rsplit1_cases 47%N b) as [(h1 & t1 & Hb)| Hb];
  destruct (rsplit1_cases 47%N t) as [(h2 & t2 & Ht)| Ht];
  repeat (progress (red1; rewrite ?Hb, ?Ht)); reflexivity.
Qed.

Lemma is_subdir_wild_ok : forall b t m, (m >= 1)%nat ->
  runf m C_mod_url M_is_subdir [PStr b; PStr t; PBool false; PBool true]
  = Ok (PBool (l_fnmatchcase L (slashed t) (slashed b))).
Proof.
  intros b t m Hm; fuel m. unfold slashed, slash.
  enter; unfold mod_url__is_subdir. red1.
  destruct (endswith b [47%N]); red1; destruct (endswith t [47%N]); red1; reflexivity.
Qed.

(* -- no-parent -- *)
Lemma py_eq_ostr : forall a b, py_eq (pv_ostr a) (pv_ostr b) = Some (ostr_eqb a b).
Proof. intros [a|] [b|]; reflexivity. Qed.
Lemma py_eq_oint : forall a b, py_eq (pv_oint a) (pv_oint b) = Some (oint_eqb a b).
Proof. intros [a|] [b|]; reflexivity. Qed.

Ltac parent_step := first
  [ progress red1
  | progress unfold pv_urlinfo, mk_obj
  | rewrite schemes_similar_ok by lia
  | rewrite is_subdir_trailing_ok by lia
  | rewrite py_eq_ostr
  | rewrite py_eq_oint
  | mp_split ].

Lemma ParentFilter_ok : forall u r m, (m >= 2)%nat ->
  test_of m FParent u r = Ok (PBool (parent_spec L u r)).
Proof.
  intros u r m Hm; fuel m. unfold test_of, parent_spec, same_site, top_of, is_requisite; unf.
  enter; unfold ParentFilter__test.
  destruct r as [lv [il|] tr pa [[|c ro]|]]; cbn [r_inline r_root]; unfold pv_urlinfo, mk_obj;
    repeat parent_step; try reflexivity.
Qed.

(* -- span hosts -- *)
Lemma py_in_ostr_tuple : forall h l, py_in (pv_ostr h) (PTuple (map PStr l)) = Ok (host_in h l).
Proof. intros; cbn [py_in]. apply in_list_ostr. Qed.

Ltac span_step := first
  [ progress red1
  | progress unfold pv_urlinfo, mk_obj, parse_opt
  | rewrite parent_url_info_ok by lia
  | rewrite py_in_ostr_tuple
  | rewrite in_list_ostr
  | mp_split ].

Lemma SpanHostsFilter_ok : forall hs e p lp u r m, (m >= 2)%nat ->
  returns (test_of m (FSpanHosts hs e p lp) u r) (span_hosts_spec L hs e p lp u r).
Proof.
  intros hs e p lp u r m Hm; fuel m. unfold returns, test_of, span_hosts_spec, is_requisite; unf.
  enter; unfold SpanHostsFilter__test.
  destruct e; [red1; eexists; split; reflexivity|].
  red1. rewrite in_list_ostr. red1.
  destruct (host_in (u_hostname u) hs); [red1; eexists; split; reflexivity|].
  assert (HP : forall m', (m' >= 1)%nat ->
             runf m' C_URLProperties M_parent_url_info
               [PObj C_Record (fun a => assoc_attr a
                  [(A_level, PInt (r_level r)); (A_inline_level, pv_oint (r_inline r));
                   (A_try_count, PInt (r_tries r)); (A_parent_url, pv_ostr (r_parent r));
                   (A_root_url, pv_ostr (r_root r))])] = Ok (parse_opt (r_parent r))).
  { intros. apply (parent_url_info_ok r); assumption. }
  cbn [assoc_attr] in HP.
  destruct r as [lv [il|] tr [pa|] ro]; cbn [r_inline r_parent r_level r_tries r_root] in *;
    destruct p, lp; red1; rewrite ?HP by lia; unfold parse_opt, pv_urlinfo, mk_obj;
    repeat (first [progress red1 | rewrite HP by lia | progress unfold parse_opt, pv_urlinfo, mk_obj | rewrite in_list_ostr | mp_split ]);
    eexists; split; reflexivity.
Qed.

(* -- regex -- *)
Lemma RegexFilter_ok : forall a rj u r m, (m >= 1)%nat ->
  test_of m (FRegex a rj) u r = Ok (PBool (regex_spec L a rj u)).
Proof.
  intros a rj u r m Hm; fuel m. unfold test_of, regex_spec; unf.
  enter; unfold RegexFilter__test.
  destruct a as [[|x a]|], rj as [[|y rj]|]; auto_mp.
Qed.

(* -- directories -- *)
Lemma dir_loop_ok : forall (which : mname) self u l m,
  (which = M__is_accepted /\ py_getattr self A__accepted = Ok (pv_strs l)) \/
  (which = M__is_rejected /\ py_getattr self A__rejected = Ok (pv_strs l)) ->
  (m >= 2)%nat ->
  returns (runf m C_DirectoryFilter which [self; pv_urlinfo u]) (dir_match L l u).
Proof.
  intros which self u l m Hw Hm; fuel m. unfold returns, dir_match.
  assert (Hloop : forall step,
            (forall E x, E 1 = Some (pv_urlinfo u) ->
               step E (PStr x) = if l_fnmatchcase L (slashed (u_path u)) (slashed x)
                                 then Ok (upd E 2 (PStr x), Some (PBool true)) else Ok (upd E 2 (PStr x), None)) ->
            forall l E, E 1 = Some (pv_urlinfo u) ->
            exists E', for_loop step (map PStr l) E =
              Ok (E', if existsb (fun d => l_fnmatchcase L (slashed (u_path u)) (slashed d)) l
                      then Some (PBool true) else None)).
  { intros step Hstep. induction l0 as [|x l0 IH]; intros E HE; cbn [map for_loop existsb].
    - eexists; reflexivity.
    - rewrite Hstep by exact HE. destruct (l_fnmatchcase L (slashed (u_path u)) (slashed x)); cbn [orb].
      + eexists; reflexivity.
      + apply IH. unfold upd. cbn. exact HE. }
  destruct Hw as [(-> & Hs)|(-> & Hs)].
  - enter; unfold DirectoryFilter___is_accepted. red1. rewrite Hs. unfold pv_strs. red1.
    match goal with |- context [for_loop ?st _ ?E0] =>
      assert (Hst : forall E x, E 1 = Some (pv_urlinfo u) ->
               st E (PStr x) = if l_fnmatchcase L (slashed (u_path u)) (slashed x)
                               then Ok (upd E 2 (PStr x), Some (PBool true)) else Ok (upd E 2 (PStr x), None));
      [| destruct (Hloop st Hst l E0 eq_refl) as (E' & ->)] end.
    + intros E x HE. red1. rewrite HE. unfold pv_urlinfo at 1, mk_obj. red1.
      rewrite is_subdir_wild_ok by lia. red1.
      destruct (l_fnmatchcase L (slashed (u_path u)) (slashed x)); reflexivity.
    + destruct (existsb _ l); eexists; split; reflexivity.
  - enter; unfold DirectoryFilter___is_rejected. red1. rewrite Hs. unfold pv_strs. red1.
    match goal with |- context [for_loop ?st _ ?E0] =>
      assert (Hst : forall E x, E 1 = Some (pv_urlinfo u) ->
               st E (PStr x) = if l_fnmatchcase L (slashed (u_path u)) (slashed x)
                               then Ok (upd E 2 (PStr x), Some (PBool true)) else Ok (upd E 2 (PStr x), None));
      [| destruct (Hloop st Hst l E0 eq_refl) as (E' & ->)] end.
    + intros E x HE. red1. rewrite HE. unfold pv_urlinfo at 1, mk_obj. red1.
      rewrite is_subdir_wild_ok by lia. red1.
      destruct (l_fnmatchcase L (slashed (u_path u)) (slashed x)); reflexivity.
    + destruct (existsb _ l); eexists; split; reflexivity.
Qed.

Ltac dir_step u := first
  [ progress red1
  | rewrite truthy_pv_strs
  | match goal with |- context [run _ filter_prog ?m C_DirectoryFilter M__is_accepted [?s; ?ui]] =>
       let v := fresh "v" in let Hv := fresh "Hv" in let E := fresh "E" in
       edestruct (dir_loop_ok M__is_accepted s u) with (m := m) as (v & E & Hv);
         [left; split; reflexivity | lia | ];
       unfold pv_urlinfo, mk_obj in E; cbn [assoc_attr] in E; rewrite E; clear E end
  | match goal with |- context [run _ filter_prog ?m C_DirectoryFilter M__is_rejected [?s; ?ui]] =>
       let v := fresh "v" in let Hv := fresh "Hv" in let E := fresh "E" in
       edestruct (dir_loop_ok M__is_rejected s u) with (m := m) as (v & E & Hv);
         [right; split; reflexivity | lia | ];
       unfold pv_urlinfo, mk_obj in E; cbn [assoc_attr] in E; rewrite E; clear E end
  | use_truthy
  | mp_split ].

Lemma DirectoryFilter_ok : forall a rj u r m, (m >= 3)%nat ->
  test_of m (FDirectory a rj) u r = Ok (PBool (directory_spec L a rj u)).
Proof.
  intros a rj u r m Hm; fuel m. unfold test_of, directory_spec; unf.
  enter; unfold DirectoryFilter__test.
  destruct a as [[|x la]|], rj as [[|y lr]|]; repeat (dir_step u); reflexivity.
Qed.

(* -- file name suffixes -- *)
Lemma filename_match_ok : forall self l name m, (m >= 1)%nat ->
  returns (runf m C_BackwardFilenameFilter M_match [self; pv_strs l; PStr name])
          (nonempty name && name_match L l name).
Proof.
  intros self l name m Hm; fuel m. unfold returns, name_match, pv_strs.
  enter; unfold BackwardFilenameFilter__match. red1.
  destruct name as [|c s]; red1; [eexists; split; reflexivity|].
  set (s0 := c :: s). clearbody s0.
  match goal with |- context [for_loop ?st _ ?E] => set (step := st); set (E0 := E) end.
  assert (H : forall l E, E 2 = Some (PStr s0) ->
            exists E', for_loop step (map PStr l) E =
                       Ok (E', if existsb (fun p => l_re_search L (l_fn_translate L p) s0) l
                               then Some (PBool true) else None)).
  { clear. induction l as [|x l IH]; intros E HE; cbn [map for_loop existsb].
    - eexists; reflexivity.
    - unfold step at 1. red1. rewrite HE. red1.
      destruct (l_re_search L (l_fn_translate L x) s0); red1; [eexists; reflexivity|].
      apply IH. red1. exact HE. }
  destruct (H l E0 eq_refl) as (E' & ->).
  destruct (existsb _ l); eexists; split; reflexivity.
Qed.

Ltac fname_step := first
  [ progress red1
  | rewrite truthy_pv_strs
  | match goal with |- context [run _ filter_prog ?m C_BackwardFilenameFilter M_match [?s; pv_strs ?l; PStr ?n]] =>
       let v := fresh "v" in let Hv := fresh "Hv" in let E := fresh "E" in
       destruct (filename_match_ok s l n m ltac:(lia)) as (v & E & Hv); rewrite E; clear E end
  | use_truthy
  | mp_split ].

Lemma BackwardFilenameFilter_ok : forall a rj u r m, (m >= 2)%nat ->
  returns (test_of m (FFilename a rj) u r) (filename_spec L a rj u).
Proof.
  intros a rj u r m Hm; fuel m. unfold returns, test_of, filename_spec, file_name, slash; unf.
  enter; unfold BackwardFilenameFilter__test. red1.
  destruct (rsplit1_cases 47%N (u_path u)) as [(h1 & t1 & Hb)| Hb]; rewrite Hb; red1.
  - destruct t1 as [|c t1]; red1; [eexists; split; reflexivity|].
    set (nm := c :: t1) in *.
    assert (Hn : nonempty nm = true) by reflexivity. clearbody nm.
    destruct a as [[|x la]|], rj as [[|y lr]|]; repeat fname_step;
      rewrite ?Hn in *; cbn [andb] in *; eexists; split; try reflexivity;
      repeat use_truthy; cbn [truthy negb andb]; try reflexivity; try use_truthy; rewrite ?andb_true_r; try reflexivity.
  - destruct (u_path u) as [|c t1]; red1; [eexists; split; reflexivity|].
    set (nm := c :: t1) in *.
    assert (Hn : nonempty nm = true) by reflexivity. clearbody nm.
    destruct a as [[|x la]|], rj as [[|y lr]|]; repeat fname_step;
      rewrite ?Hn in *; cbn [andb] in *; eexists; split; try reflexivity;
      repeat use_truthy; cbn [truthy negb andb]; try reflexivity; try use_truthy; rewrite ?andb_true_r; try reflexivity.
Qed.

(* -- all thirteen -- *)
Theorem filter_test_ok : forall f u r m, (m >= 3)%nat -> returns (test_of m f u r) (filter_spec L f u r).
Proof.
  intros [al| |fo|a rj|a rj|e p|d i|t| |hs e p lp|a rj|a rj|a rj] u r m Hm; cbn [filter_spec];
    try (eexists; split; [first
      [ apply SchemeFilter_ok | apply HTTPSOnlyFilter_ok | apply FollowFTPFilter_ok | apply BackwardDomainFilter_ok
      | apply HostnameFilter_ok | apply LevelFilter_ok | apply TriesFilter_ok | apply ParentFilter_ok
      | apply RegexFilter_ok | apply DirectoryFilter_ok ]; lia | reflexivity]).
  - apply RecursiveFilter_ok; lia.
  - apply SpanHostsFilter_ok; lia.
  - apply BackwardFilenameFilter_ok; lia.
Qed.

(* ------------------------------------------------------------------ part C *)
(* the value a filter's test returns (exists by filter_test_ok) *)
Definition fval (m : nat) (f : filter) (u : urlinfo) (r : urlrec) : pv :=
  match test_of m f u r with Ok v => v | Err _ => PNone end.
Lemma fval_ok : forall f u r m, (m >= 3)%nat ->
  test_of m f u r = Ok (fval m f u r) /\ truthy (fval m f u r) = filter_spec L f u r.
Proof.
  intros f u r m Hm. destruct (filter_test_ok f u r m Hm) as (v & E & Hv). unfold fval. rewrite E. auto.
Qed.

Definition fname (f : filter) : str := cls_name (filter_cls f).
Definition passes (u : urlinfo) (r : urlrec) (f : filter) : bool := filter_spec L f u r.
Definition fails (u : urlinfo) (r : urlrec) (f : filter) : bool := negb (filter_spec L f u r).
Definition map_after (m : nat) (u : urlinfo) (r : urlrec) (fs : list filter) (D : list (str * pv)) : list (str * pv) :=
  fold_left (fun d f => sset (fname f) (fval m f u r) d) fs D.

Definition demux (fs : list filter) : pv := mk_obj C_DemuxURLFilter [(A__url_filters, PList (map pv_filter fs))].

Definition s_verdict : str := [118; 101; 114; 100; 105; 99; 116]%N.
Definition s_passed : str := [112; 97; 115; 115; 101; 100]%N.
Definition s_failed : str := [102; 97; 105; 108; 101; 100]%N.
Definition s_map : str := [109; 97; 112]%N.

Definition test_info_val (m : nat) (fs : list filter) (u : urlinfo) (r : urlrec) : pv :=
  PDict (sd [(s_verdict, PBool (forallb (passes u r) fs));
             (s_passed, PSet (map pv_filter (List.filter (passes u r) fs)));
             (s_failed, PSet (map pv_filter (List.filter (fails u r) fs)));
             (s_map, PDict (sd (map_after m u r fs [])))]).

Lemma length_failed_zero : forall u r fs,
  (Z.of_nat (List.length (map pv_filter (List.filter (fails u r) fs))) =? 0)%Z = forallb (passes u r) fs.
Proof.
  intros u r fs. induction fs as [|f fs IH]; cbn [List.filter forallb map List.length]; [reflexivity|].
  unfold fails at 1, passes at 1. destruct (filter_spec L f u r); cbn [negb andb]; [exact IH|].
  cbn [map List.length]. destruct (Z.eqb_spec (Z.of_nat (S (List.length (map pv_filter (List.filter (fails u r) fs))))) 0); [lia|reflexivity].
Qed.

Lemma demux_loop : forall m u r step,
  (m >= 3)%nat ->
  (forall E f P F D, E 1 = Some (pv_urlinfo u) -> E 2 = Some (pv_record r) ->
     E 3 = Some (PSet P) -> E 4 = Some (PSet F) -> E 5 = Some (PDict (sd D)) ->
     exists E', step E (pv_filter f) = Ok (E', None) /\
       E' 1 = Some (pv_urlinfo u) /\ E' 2 = Some (pv_record r) /\
       E' 3 = Some (PSet (if passes u r f then P ++ [pv_filter f] else P)) /\
       E' 4 = Some (PSet (if passes u r f then F else F ++ [pv_filter f])) /\
       E' 5 = Some (PDict (sd (sset (fname f) (fval m f u r) D)))) ->
  forall fs E P F D, E 1 = Some (pv_urlinfo u) -> E 2 = Some (pv_record r) ->
     E 3 = Some (PSet P) -> E 4 = Some (PSet F) -> E 5 = Some (PDict (sd D)) ->
     exists E', for_loop step (map pv_filter fs) E = Ok (E', None) /\
       E' 3 = Some (PSet (P ++ map pv_filter (List.filter (passes u r) fs))) /\
       E' 4 = Some (PSet (F ++ map pv_filter (List.filter (fails u r) fs))) /\
       E' 5 = Some (PDict (sd (map_after m u r fs D))).
Proof.
  intros m u r step Hm Hstep. induction fs as [|f fs IH]; intros E P F D H1 H2 H3 H4 H5; cbn [map for_loop List.filter].
  - exists E. rewrite !app_nil_r. auto.
  - destruct (Hstep E f P F D H1 H2 H3 H4 H5) as (E1 & -> & G1 & G2 & G3 & G4 & G5).
    destruct (IH E1 _ _ _ G1 G2 G3 G4 G5) as (E2 & -> & K3 & K4 & K5).
    exists E2. split; [reflexivity|]. unfold fails, passes, map_after in *. cbn [fold_left].
    destruct (filter_spec L f u r); cbn [negb map] in *; rewrite <- ?app_assoc in *; cbn [app] in *; auto.
Qed.

Lemma class_of_pv_filter : forall f, class_of (pv_filter f) = Ok (filter_cls f).
Proof. reflexivity. Qed.

Theorem test_info_ok : forall fs u r m, (m >= 4)%nat ->
  runf m C_DemuxURLFilter M_test_info [demux fs; pv_urlinfo u; pv_record r] = Ok (test_info_val (pred m) fs u r).
Proof.
  intros fs u r m Hm; fuel m. cbn [pred]. unfold demux, mk_obj.
  enter; unfold DemuxURLFilter__test_info. red1.
  match goal with |- context [for_loop ?st _ ?E0] =>
    destruct (demux_loop m u r st ltac:(lia)) with (fs := fs) (E := E0) (P := @nil pv) (F := @nil pv) (D := @nil (str * pv))
      as (E' & -> & K3 & K4 & K5); try reflexivity end.
  - intros E f P F D H1 H2 H3 H4 H5. red1. rewrite class_of_pv_filter. red1. rewrite H1, H2. red1.
    destruct (fval_ok f u r m ltac:(lia)) as (Ht & Hv). unfold test_of in Ht. rewrite Ht. red1.
    unfold lookup. red1. rewrite H5. red1. rewrite class_of_pv_filter. red1. fold (fname f). rewrite dict_set_sd. red1. rewrite Hv. unfold passes.
    destruct (filter_spec L f u r); red1.
    + unfold lookup. red1. rewrite H3. unfold pv_filter at 1, mk_obj at 1. red1.
      eexists; split; [reflexivity|]. unfold upd; cbn. rewrite H1, H2, H4. auto 10.
    + unfold lookup. red1. rewrite H4. unfold pv_filter at 1, mk_obj at 1. red1.
      eexists; split; [reflexivity|]. unfold upd; cbn. rewrite H1, H2, H3. auto 10.
  - red1. rewrite K3, K4, K5. red1. rewrite length_failed_zero. reflexivity.
Qed.

(* ------------------------------------------------------------------ part D *)
Definition s_span : str := cls_name C_SpanHostsFilter.
Definition s_filters : str := [102; 105; 108; 116; 101; 114; 115]%N.
Definition s_redirect : str := [114; 101; 100; 105; 114; 101; 99; 116]%N.
Definition s_nofilters : str := [110; 111; 102; 105; 108; 116; 101; 114; 115]%N.

Definition is_span (f : filter) : bool := match f with FSpanHosts _ _ _ _ => true | _ => false end.

(* is_only_span_hosts_failed as the code computes it *)
Definition waiver (m : nat) (fs : list filter) (u : urlinfo) (r : urlrec) : bool :=
  (Z.of_nat (List.length (map pv_filter (List.filter (fails u r) fs))) =? 1)%Z &&
  match sget s_span (map_after m u r fs []) with Some v => negb (truthy v) | None => false end.

Definition all_pass (fs : list filter) (u : urlinfo) (r : urlrec) : bool := forallb (passes u r) fs.

Definition rule (fs : list filter) : pv := mk_obj C_FetchRule [(A__url_filter, demux fs)].

Lemma only_span_ok : forall self fs u r k m, (m >= 1)%nat ->
  runf m C_FetchRule M_is_only_span_hosts_failed [self; test_info_val k fs u r] = Ok (PBool (waiver k fs u r)).
Proof.
  intros self fs u r k m Hm; fuel m. unfold test_info_val, waiver.
  enter; unfold FetchRule__is_only_span_hosts_failed. red1.
  change [102%N; 97%N; 105%N; 108%N; 101%N; 100%N] with s_failed.
  change [109%N; 97%N; 112%N] with s_map.
  rewrite !dict_get_sd. cbn [sget str_eqb s_failed s_map s_verdict s_passed N.eqb Pos.eqb andb]. red1.
  destruct (Z.of_nat (List.length (map pv_filter (List.filter (fails u r) fs))) =? 1)%Z; red1; [|reflexivity].
  change [83%N; 112%N; 97%N; 110%N; 72%N; 111%N; 115%N; 116%N; 115%N; 70%N; 105%N; 108%N; 116%N; 101%N; 114%N] with s_span.
  rewrite in_list_keys_sd, dict_get_sd.
  destruct (sget s_span (map_after k u r fs [])) as [v|]; red1; reflexivity.
Qed.

Definition consult_verdict (k : nat) (fs : list filter) (u : urlinfo) (r : urlrec) (ir : pv) : bool :=
  all_pass fs u r || (truthy ir && waiver k fs u r).
Definition consult_reason (k : nat) (fs : list filter) (u : urlinfo) (r : urlrec) (ir : pv) : str :=
  if all_pass fs u r then s_filters else if truthy ir && waiver k fs u r then s_redirect else s_filters.

Theorem consult_ok : forall fs u r ir m, (m >= 5)%nat ->
  runf m C_FetchRule M_consult_filters [rule fs; pv_urlinfo u; pv_record r; ir]
  = Ok (PTuple [PBool (consult_verdict (m - 2) fs u r ir); PStr (consult_reason (m - 2) fs u r ir);
                test_info_val (m - 2) fs u r]).
Proof.
  intros fs u r ir m Hm; fuel m. replace (S m - 2) with (pred m) by lia.
  unfold rule, mk_obj, consult_verdict, consult_reason, all_pass.
  enter; unfold FetchRule__consult_filters. red1.
  assert (Htr : truthy (demux fs) = true) by reflexivity. rewrite Htr. red1.
  assert (Hc : class_of (demux fs) = Ok C_DemuxURLFilter) by reflexivity. rewrite Hc. red1.
  assert (Ht := test_info_ok fs u r m ltac:(lia)).
  rewrite Ht. clear Ht. red1.
  unfold test_info_val at 1.
  change [118%N; 101%N; 114%N; 100%N; 105%N; 99%N; 116%N] with s_verdict.
  red1. rewrite dict_get_sd. cbn [sget str_eqb s_verdict N.eqb Pos.eqb andb]. red1.
  destruct (forallb (passes u r) fs); red1; [reflexivity|].
  destruct (truthy ir) eqn:Hir; red1; [|repeat (progress (red1; rewrite ?Hir)); reflexivity].
  rewrite only_span_ok by lia. red1.
  destruct (waiver (pred m) fs u r); red1; reflexivity.
Qed.

(* what the waiver means *)
Lemma fname_span : forall f, str_eqb s_span (fname f) = is_span f.
Proof. intros []; reflexivity. Qed.

Fixpoint last_span (fs : list filter) : option filter :=
  match fs with
  | [] => None
  | f :: fs' => match last_span fs' with Some g => Some g | None => if is_span f then Some f else None end
  end.

Lemma sget_map_after : forall m u r fs D,
  sget s_span (map_after m u r fs D) =
  match last_span fs with Some g => Some (fval m g u r) | None => sget s_span D end.
Proof.
  intros m u r. induction fs as [|f fs IH]; intros D; [reflexivity|].
  unfold map_after in *. cbn [fold_left last_span]. rewrite IH.
  destruct (last_span fs); [reflexivity|].
  rewrite sget_sset, fname_span. destruct (is_span f); reflexivity.
Qed.

Lemma last_span_in : forall fs g, last_span fs = Some g -> List.In g fs /\ is_span g = true.
Proof.
  induction fs as [|f fs IH]; cbn [last_span]; intros g H; [discriminate|].
  destruct (last_span fs) as [g'|] eqn:E.
  - inversion H; subst. destruct (IH g eq_refl). split; [right|]; assumption.
  - destruct (is_span f) eqn:Es; [|discriminate]. inversion H; subst. split; [left; reflexivity|assumption].
Qed.

Lemma filter_length1 : forall (p : filter -> bool) fs g,
  List.length (List.filter p fs) = 1 -> List.In g fs -> p g = true -> List.filter p fs = [g].
Proof.
  intros p fs g Hl Hin Hp.
  assert (Hg : List.In g (List.filter p fs)) by (apply filter_In; auto).
  destruct (List.filter p fs) as [|x [|y l]]; cbn in *; try discriminate; try lia.
  destruct Hg as [->|[]]. reflexivity.
Qed.

(* waived  ->  exactly one filter (occurrence) failed, and it is a SpanHostsFilter *)
Theorem waiver_sound : forall m fs u r, (m >= 3)%nat -> waiver m fs u r = true ->
  exists g, List.filter (fails u r) fs = [g] /\ is_span g = true.
Proof.
  intros m fs u r Hm H. unfold waiver in H. apply andb_true_iff in H as [Hl Hs].
  rewrite map_length in Hl. apply Z.eqb_eq in Hl.
  rewrite sget_map_after in Hs. destruct (last_span fs) as [g|] eqn:E; [|discriminate].
  destruct (last_span_in _ _ E) as [Hin Hsp]. exists g. split; [|exact Hsp].
  apply filter_length1; [lia|exact Hin|].
  unfold fails. destruct (fval_ok g u r m Hm) as (_ & Hv). rewrite <- Hv. exact Hs.
Qed.

Fixpoint span_count (fs : list filter) : nat :=
  match fs with [] => 0 | f :: fs' => (if is_span f then 1 else 0) + span_count fs' end.

Lemma last_span_unique : forall fs g, span_count fs <= 1 -> List.In g fs -> is_span g = true -> last_span fs = Some g.
Proof.
  induction fs as [|f fs IH]; intros g Hc Hin Hsp; [destruct Hin|]. cbn [span_count last_span] in *.
  destruct Hin as [->|Hin].
  - rewrite Hsp in *. destruct (last_span fs) as [g'|] eqn:E; [|reflexivity].
    destruct (last_span_in _ _ E) as [Hin' Hsp'].
    assert (span_count fs >= 1).
    { clear - Hin' Hsp'. induction fs as [|x fs IH]; [destruct Hin'|]. cbn [span_count].
      destruct Hin' as [->|Hin']; [rewrite Hsp'; lia|]. specialize (IH Hin'). lia. }
    lia.
  - rewrite (IH g); [reflexivity| |assumption|assumption]. destruct (is_span f); lia.
Qed.

(* with at most one SpanHostsFilter in the list (every list the builder makes), the converse holds *)
Theorem waiver_exact : forall m fs u r, (m >= 3)%nat -> span_count fs <= 1 ->
  waiver m fs u r = true <-> exists g, List.filter (fails u r) fs = [g] /\ is_span g = true.
Proof.
  intros m fs u r Hm Hc. split; [apply waiver_sound; assumption|].
  intros (g & Hf & Hsp). unfold waiver. rewrite map_length, Hf. cbn [List.length Z.of_nat Z.eqb Pos.eqb andb Pos.of_succ_nat].
  assert (Hin : List.In g (List.filter (fails u r) fs)) by (rewrite Hf; left; reflexivity).
  apply filter_In in Hin as [Hin Hfl].
  rewrite sget_map_after, (last_span_unique fs g Hc Hin Hsp).
  destruct (fval_ok g u r m Hm) as (_ & Hv). rewrite Hv. exact Hfl.
Qed.

(* ------------------------------------------------------------------ part E *)
(* _build_url_filters is a sequence "filters = [...]; if c1: filters.append(F1(...)); ...; return filters".
   The statements are taken out of the GENERATED term by position, never copied. *)
Fixpoint seq_tail (n : nat) (s : stmt) : stmt :=
  match n with
  | 0 => s
  | S n' => match s with SSeq _ b => seq_tail n' b | _ => SSkip end
  end.
Definition seq_head (s : stmt) : stmt := match s with SSeq a _ => a | x => x end.
Definition bbody : stmt := f_body URLFiltersSetupTask___build_url_filters.

Lemma exec_seq : forall call E a b,
  exec O call E (SSeq a b) = match exec O call E a with Ok (E', None) => exec O call E' b | r => r end.
Proof. reflexivity. Qed.

Definition args_at (E : env) (a : args) : Prop := E 2 = Some (pv_args a).
Definition acc_at (E : env) (acc : list filter) : Prop := E 3 = Some (PList (map pv_filter acc)).

Lemma truthy_pv_ostrs : forall o, truthy (pv_ostrs o) = given o.
Proof. intros [[|x l]|]; reflexivity. Qed.
Lemma truthy_pv_ostr : forall o, truthy (pv_ostr o) = ogiven o.
Proof. intros [[|c s]|]; reflexivity. Qed.

Ltac expose k :=
  let t := eval vm_compute in (seq_head (seq_tail k bbody)) in
  change (seq_head (seq_tail k bbody)) with t.

Ltac build_step := first
  [ progress red1
  | rewrite truthy_pv_ostrs
  | rewrite truthy_pv_ostr
  | mp_split ].

(* one "if cond: filters.append(X(...))" statement *)
Ltac cond_append_proof k :=
  let E := fresh "E" in let acc := fresh "acc" in let H2 := fresh "H2" in let H3 := fresh "H3" in
  intros call a E acc H2 H3; unfold args_at, acc_at in *; pose proof H2 as H2o; unfold pv_args, mk_obj in H2;
  expose k; red1; rewrite H2; red1;
  repeat (first [ progress red1 | rewrite H2 | rewrite truthy_pv_ostrs | rewrite truthy_pv_ostr | mp_split ]);
  unfold lookup; rewrite ?H2, ?H3; red1;
  (eexists; split; [reflexivity|]; split; [unfold upd; cbn; exact H2o|]);
  unfold upd; cbn; rewrite ?H3, ?map_app, ?app_nil_r; cbn [map]; reflexivity.

Definition step_spec (k : nat) (o : args -> list filter) : Prop :=
  forall call a E acc, args_at E a -> acc_at E acc ->
  exists E', exec O call E (seq_head (seq_tail k bbody)) = Ok (E', None) /\ args_at E' a /\ acc_at E' (acc ++ o a).

Lemma build_step2 : step_spec 2 (fun a => opt_filter (a_no_parent a) FParent).
Proof. unfold step_spec. cond_append_proof 2. Qed.
Lemma build_step3 : step_spec 3 (fun a => opt_filter (given (a_domains a) || given (a_exclude_domains a)) (FDomain (a_domains a) (a_exclude_domains a))).
Proof. unfold step_spec. cond_append_proof 3. Qed.
Lemma build_step4 : step_spec 4 (fun a => opt_filter (given (a_hostnames a) || given (a_exclude_hostnames a)) (FHostname (a_hostnames a) (a_exclude_hostnames a))).
Proof. unfold step_spec. cond_append_proof 4. Qed.
Lemma build_step5 : step_spec 5 (fun a => opt_filter (negb (a_tries a =? 0)%Z) (FTries (a_tries a))).
Proof. unfold step_spec. cond_append_proof 5. Qed.
Lemma build_step6 : step_spec 6 (fun a => opt_filter (depth_rule_present a) (FLevel (a_level a) (a_page_requisites_level a))).
Proof. unfold step_spec, depth_rule_present. cond_append_proof 6. Qed.
Lemma build_step7 : step_spec 7 (fun a => opt_filter (ogiven (a_accept_regex a) || ogiven (a_reject_regex a)) (FRegex (a_accept_regex a) (a_reject_regex a))).
Proof. unfold step_spec. cond_append_proof 7. Qed.
Lemma build_step8 : step_spec 8 (fun a => opt_filter (given (a_include_directories a) || given (a_exclude_directories a)) (FDirectory (a_include_directories a) (a_exclude_directories a))).
Proof. unfold step_spec. cond_append_proof 8. Qed.
Lemma build_step9 : step_spec 9 (fun a => opt_filter (given (a_accept a) || given (a_reject a)) (FFilename (a_accept a) (a_reject a))).
Proof. unfold step_spec. cond_append_proof 9. Qed.

Lemma tail_unfold : forall k, k < 10 ->
  seq_tail k bbody = SSeq (seq_head (seq_tail k bbody)) (seq_tail (S k) bbody).
Proof. intros k Hk. do 10 (destruct k as [|k]; [reflexivity|]). lia. Qed.

Lemma build_exec : forall call a hs self, exists E',
  exec O call (bind_args 0 [self; pv_session a hs] empty_env) bbody
  = Ok (E', Some (PList (map pv_filter (build_spec a)))).
Proof.
  intros call a hs self.
  change bbody with (seq_tail 0 bbody).
  (* args = session.args *)
  rewrite (tail_unfold 0) by lia. rewrite exec_seq. expose 0. red1.
  unfold pv_session at 1, mk_obj at 1. red1.
  (* filters = [scheme, recursive, follow-ftp] *)
  rewrite (tail_unfold 1) by lia. rewrite exec_seq. expose 1.
  set (first3 := [ (if a_https_only a then FHTTPSOnly else FScheme default_schemes);
                   FRecursive (a_recursive a) (a_page_requisites a); FFollowFTP (a_follow_ftp a) ]).
  match goal with |- context [exec O call ?E0 (SAssign 3 ?e)] =>
    assert (H1 : exists E1, exec O call E0 (SAssign 3 e) = Ok (E1, None) /\ args_at E1 a /\ acc_at E1 first3) end.
  { remember (pv_args a) as A eqn:HA.
    assert (G1 : py_getattr A A_https_only = Ok (PBool (a_https_only a))) by (subst; reflexivity).
    assert (G2 : py_getattr A A_recursive = Ok (PBool (a_recursive a))) by (subst; reflexivity).
    assert (G3 : py_getattr A A_page_requisites = Ok (PBool (a_page_requisites a))) by (subst; reflexivity).
    assert (G4 : py_getattr A A_follow_ftp = Ok (PBool (a_follow_ftp a))) by (subst; reflexivity).
    red1. rewrite G1, G2, G3, G4. red1. unfold first3.
    destruct (a_https_only a); red1;
      (eexists; split; [reflexivity|]; split; [unfold args_at, upd; cbn; subst; reflexivity | reflexivity]). }
  destruct H1 as (E1 & -> & A1 & B1).
  Ltac chain k lem E A B :=
    rewrite (tail_unfold k) by lia; rewrite exec_seq;
    let E' := fresh "E" in let A' := fresh "A" in let B' := fresh "B" in
    destruct (lem _ _ _ _ A B) as (E' & -> & A' & B').
  destruct (build_step2 call a E1 _ A1 B1) as (E2 & R2 & A2 & B2).
  rewrite (tail_unfold 2) by lia. rewrite exec_seq, R2.
  destruct (build_step3 call a E2 _ A2 B2) as (E3 & R3 & A3 & B3).
  rewrite (tail_unfold 3) by lia. rewrite exec_seq, R3.
  destruct (build_step4 call a E3 _ A3 B3) as (E4 & R4 & A4 & B4).
  rewrite (tail_unfold 4) by lia. rewrite exec_seq, R4.
  destruct (build_step5 call a E4 _ A4 B4) as (E5 & R5 & A5 & B5).
  rewrite (tail_unfold 5) by lia. rewrite exec_seq, R5.
  destruct (build_step6 call a E5 _ A5 B5) as (E6 & R6 & A6 & B6).
  rewrite (tail_unfold 6) by lia. rewrite exec_seq, R6.
  destruct (build_step7 call a E6 _ A6 B6) as (E7 & R7 & A7 & B7).
  rewrite (tail_unfold 7) by lia. rewrite exec_seq, R7.
  destruct (build_step8 call a E7 _ A7 B7) as (E8 & R8 & A8 & B8).
  rewrite (tail_unfold 8) by lia. rewrite exec_seq, R8.
  destruct (build_step9 call a E8 _ A8 B8) as (E9 & R9 & A9 & B9).
  rewrite (tail_unfold 9) by lia. rewrite exec_seq, R9.
  (* return filters *)
  let t := eval vm_compute in (seq_tail 10 bbody) in change (seq_tail 10 bbody) with t.
  red1. unfold acc_at in B9. rewrite B9. eexists. unfold build_spec, first3.
  rewrite <- !app_assoc. reflexivity.
Qed.

Theorem build_url_filters_ok : forall a hs self m, (m >= 1)%nat ->
  runf m C_URLFiltersSetupTask M__build_url_filters [self; pv_session a hs]
  = Ok (PList (map pv_filter (build_spec a))).
Proof.
  intros a hs self m Hm; fuel m. enter. unfold run_body.
  cbn [f_nparams List.length Nat.eqb].
  fold bbody. destruct (build_exec (runf m) a hs self) as (E' & ->). reflexivity.
Qed.

Lemma in_list_const_strs : forall s l, in_list (PStr s) (map PStr l) = Ok (existsb (str_eqb s) l).
Proof. exact in_list_strs. Qed.

Theorem span_hosts_filter_ok : forall a hs self m, (m >= 1)%nat ->
  runf m C_URLFiltersPostURLImportSetupTask M_span_hosts_filter [self; pv_session a hs]
  = Ok (pv_filter (span_spec_filter a hs)).
Proof.
  intros a hs self m Hm; fuel m. enter; unfold URLFiltersPostURLImportSetupTask__span_hosts_filter.
  unfold pv_session, pv_args, mk_obj, pv_strs. red1.
  rewrite !in_list_strs. red1.
  unfold span_spec_filter, pv_filter, mk_obj, filter_cls, filter_fields, s_page_requisites, s_linked_pages.
  reflexivity.
Qed.

(* ------------------------------------------------------------------ part F *)
Lemma forallb_opt : forall (p : filter -> bool) b f, forallb p (opt_filter b f) = if b then p f else true.
Proof. intros p [] f; cbn; [apply andb_true_r|reflexivity]. Qed.

Lemma regex_spec_absent : forall a rj u, ogiven a || ogiven rj = false -> regex_spec L a rj u = true.
Proof. intros a rj u H. apply orb_false_iff in H as [H1 H2]. unfold regex_spec. rewrite H1, H2. reflexivity. Qed.
Lemma directory_spec_absent : forall a rj u, given a || given rj = false -> directory_spec L a rj u = true.
Proof. intros a rj u H. apply orb_false_iff in H as [H1 H2]. unfold directory_spec. rewrite H1, H2. reflexivity. Qed.
Lemma filename_spec_absent : forall a rj u, given a || given rj = false -> filename_spec L a rj u = true.
Proof.
  intros a rj u H. apply orb_false_iff in H as [H1 H2]. unfold filename_spec. rewrite H1, H2.
  destruct (nonempty (file_name u)); reflexivity.
Qed.

Theorem build_spec_meets_scope : forall a u r,
  forallb (passes u r) (build_spec a) = in_scope_but_span L a u r.
Proof.
  intros a u r. unfold build_spec, in_scope_but_span. rewrite !forallb_app, !forallb_opt.
  cbn [forallb]. unfold passes at 1 2 3. cbn [filter_spec]. rewrite andb_true_r.
  replace (filter_spec L (if a_https_only a then FHTTPSOnly else FScheme default_schemes) u r)
    with (if a_https_only a then https_only_spec u else scheme_spec default_schemes u)
    by (destruct (a_https_only a); reflexivity).
  unfold passes. cbn [filter_spec].
  rewrite <- !andb_assoc. repeat f_equal.
  all: try reflexivity.
  - unfold tries_spec; destruct (a_tries a =? 0)%Z; reflexivity.
  - destruct (ogiven (a_accept_regex a) || ogiven (a_reject_regex a)) eqn:E1; [reflexivity|].
    symmetry; apply regex_spec_absent; exact E1.
  - destruct (given (a_include_directories a) || given (a_exclude_directories a)) eqn:E2; [reflexivity|].
    symmetry; apply directory_spec_absent; exact E2.
  - destruct (given (a_accept a) || given (a_reject a)) eqn:E3; [reflexivity|].
    symmetry; apply filename_spec_absent; exact E3.
Qed.

Theorem full_filters_meet_scope : forall a hs u r,
  all_pass (full_filters a hs) u r = in_scope L a hs u r.
Proof.
  intros a hs u r. unfold all_pass, full_filters, in_scope. rewrite forallb_app, build_spec_meets_scope.
  cbn [forallb]. unfold passes, span_spec_filter. cbn [filter_spec]. rewrite andb_true_r. reflexivity.
Qed.

Lemma build_spec_no_span : forall a f, List.In f (build_spec a) -> is_span f = false.
Proof.
  intros a f H. unfold build_spec, opt_filter in H.
  repeat (apply in_app_or in H as [H|H]);
    repeat match goal with
    | H : List.In _ (if ?b then _ else _) |- _ => destruct b
    | H : List.In _ (_ :: _) |- _ => destruct H as [<-|H]
    | H : List.In _ [] |- _ => destruct H
    end; try reflexivity.
  destruct (a_https_only a); reflexivity.
Qed.

Lemma span_count_zero : forall fs, (forall f, List.In f fs -> is_span f = false) -> span_count fs = 0.
Proof.
  induction fs as [|f fs IH]; intros H; [reflexivity|]. cbn [span_count].
  rewrite (H f (or_introl eq_refl)). rewrite IH; [reflexivity|]. intros g Hg. apply H. right; exact Hg.
Qed.

Lemma span_count_app : forall a b, span_count (a ++ b) = span_count a + span_count b.
Proof. induction a as [|x a IH]; intros b; cbn [span_count app]; [reflexivity|]. rewrite IH. lia. Qed.

Lemma full_filters_one_span : forall a hs, span_count (full_filters a hs) <= 1.
Proof.
  intros a hs. unfold full_filters. rewrite span_count_app, (span_count_zero (build_spec a)).
  - cbn. lia.
  - apply build_spec_no_span.
Qed.

Lemma filter_fails_nil : forall u r fs, forallb (passes u r) fs = true -> List.filter (fails u r) fs = [].
Proof.
  intros u r. induction fs as [|f fs IH]; cbn [forallb List.filter]; intros H; [reflexivity|].
  apply andb_true_iff in H as [H1 H2]. unfold fails at 1. unfold passes in H1. rewrite H1. cbn [negb]. auto.
Qed.

Lemma filter_fails_some : forall u r fs, forallb (passes u r) fs = false ->
  exists g, List.In g fs /\ List.In g (List.filter (fails u r) fs).
Proof.
  intros u r. induction fs as [|f fs IH]; cbn [forallb List.filter]; intros H; [discriminate|].
  unfold fails at 1. unfold passes at 1 in H. destruct (filter_spec L f u r); cbn [negb andb] in *.
  - destruct (IH H) as (g & G1 & G2). exists g. split; [right|]; assumption.
  - exists f. split; left; reflexivity.
Qed.

(* the redirect waiver on the filters the builder makes: exactly the span-hosts bullet is dropped *)
Theorem built_waiver_drops_only_span : forall m a hs u r, (m >= 3)%nat ->
  all_pass (full_filters a hs) u r || waiver m (full_filters a hs) u r = in_scope_but_span L a u r.
Proof.
  intros m a hs u r Hm.
  rewrite full_filters_meet_scope. unfold in_scope.
  set (sp := span_hosts_spec L hs (a_span_hosts a) _ _ u r).
  destruct (in_scope_but_span L a u r) eqn:Hb; cbn [andb orb].
  - destruct sp eqn:Hs; [reflexivity|].
    apply (waiver_exact m _ u r Hm (full_filters_one_span a hs)).
    exists (span_spec_filter a hs). split; [|reflexivity].
    unfold full_filters. rewrite filter_app, filter_fails_nil by (rewrite build_spec_meets_scope; exact Hb).
    cbn [List.filter app]. unfold fails, span_spec_filter. cbn [filter_spec]. fold sp. rewrite Hs. reflexivity.
  - destruct (waiver m (full_filters a hs) u r) eqn:Hw; [|reflexivity]. exfalso.
    apply (waiver_sound m _ u r Hm) in Hw as (g & Hf & Hsp).
    rewrite <- build_spec_meets_scope in Hb.
    destruct (filter_fails_some u r _ Hb) as (g' & G1 & G2).
    assert (G3 : List.In g' (List.filter (fails u r) (full_filters a hs))).
    { unfold full_filters. rewrite filter_app. apply in_or_app. left. exact G2. }
    rewrite Hf in G3. destruct G3 as [<-|[]].
    rewrite (build_spec_no_span a g G1) in Hsp. discriminate.
Qed.

(* ---- the composed statement: options -> builder -> demux -> consult = reference predicate ---- *)
Definition built_filters_pv (a : args) (hs : list str) : pv := PList (map pv_filter (full_filters a hs)).

Theorem consult_built_meets_scope : forall a hs u r ir m, (m >= 5)%nat ->
  exists reason info,
    runf m C_FetchRule M_consult_filters [rule (full_filters a hs); pv_urlinfo u; pv_record r; ir]
    = Ok (PTuple [PBool (if truthy ir then in_scope_but_span L a u r else in_scope L a hs u r); reason; info]).
Proof.
  intros a hs u r ir m Hm. rewrite consult_ok by exact Hm. do 2 eexists. repeat f_equal.
  unfold consult_verdict. destruct (truthy ir); cbn [andb].
  - apply built_waiver_drops_only_span. lia.
  - rewrite orb_false_r. apply full_filters_meet_scope.
Qed.

(* the two setup tasks together: the list the running DemuxURLFilter holds is full_filters *)
Theorem builder_meets_spec : forall a hs self1 self2 m, (m >= 1)%nat ->
  runf m C_URLFiltersSetupTask M__build_url_filters [self1; pv_session a hs]
    = Ok (PList (map pv_filter (build_spec a))) /\
  runf m C_URLFiltersPostURLImportSetupTask M_span_hosts_filter [self2; pv_session a hs]
    = Ok (pv_filter (span_spec_filter a hs)) /\
  map pv_filter (build_spec a) ++ [pv_filter (span_spec_filter a hs)] = map pv_filter (full_filters a hs).
Proof.
  intros a hs self1 self2 m Hm. split; [apply build_url_filters_ok; exact Hm|].
  split; [apply span_hosts_filter_ok; exact Hm|]. unfold full_filters. rewrite map_app. reflexivity.
Qed.

End WithLib.
