(* Proofs/FilterProofs.v - C02: the translated filter code (Gen/UrlFilter.v, regenerated from
   wpull on every run, executed by the interpreter of Lib/MiniPy.v) computes exactly the
   reference scope predicate of Spec/Scope.v, for ALL inputs.
     part A  helpers (strings, string-keyed dicts, membership)
     part B  one lemma per filter class: <Filter>.test = its bullet of Spec/Scope.v
     part C  DemuxURLFilter.test_info: verdict = conjunction, for every filter list
     part D  FetchRule.consult_filters / is_only_span_hosts_failed: the redirect waiver
     part E  _build_url_filters + the span-hosts filter of the post-import task = build_spec
     part F  the verdict of the built filters = in_scope; with the waiver = in_scope minus span-hosts *)
From Coq Require Import List NArith ZArith Bool Lia Arith.
From Wpull Require Import Lib.MiniPy Spec.Scope Gen.UrlFilter.
Import ListNotations.
Open Scope nat_scope.
Open Scope bool_scope.

(* ------------------------------------------------------------------ part A *)
Lemma Neqb_refl : forall x : N, N.eqb x x = true.
Proof. intros; apply N.eqb_refl. Qed.

Lemma str_eqb_eq : forall a b, str_eqb a b = true <-> a = b.
Proof.
  induction a as [|x a IH]; destruct b as [|y b]; cbn; split; intro H; try reflexivity; try discriminate.
  - apply andb_true_iff in H as [H1 H2]. apply N.eqb_eq in H1. apply IH in H2. congruence.
  - inversion H; subst. rewrite N.eqb_refl. cbn. apply IH. reflexivity.
Qed.
Lemma str_eqb_refl : forall a, str_eqb a a = true.
Proof. intros; apply str_eqb_eq; reflexivity. Qed.
Lemma str_eqb_sym : forall a b, str_eqb a b = str_eqb b a.
Proof.
  intros. destruct (str_eqb a b) eqn:E1, (str_eqb b a) eqn:E2; try reflexivity.
  - apply str_eqb_eq in E1; subst. rewrite str_eqb_refl in E2; discriminate.
  - apply str_eqb_eq in E2; subst. rewrite str_eqb_refl in E1; discriminate.
Qed.

Lemma in_list_strs : forall s l, in_list (PStr s) (map PStr l) = Ok (existsb (str_eqb s) l).
Proof. induction l as [|x l IH]; cbn; [reflexivity|]. destruct (str_eqb s x); cbn; auto. Qed.

Lemma in_list_none_strs : forall l, in_list PNone (map PStr l) = Ok false.
Proof. induction l as [|x l IH]; cbn; auto. Qed.

Lemma in_list_ostr : forall h l, in_list (pv_ostr h) (map PStr l) = Ok (host_in h l).
Proof. intros [s|] l; cbn [pv_ostr host_in]; [apply in_list_strs | apply in_list_none_strs]. Qed.

(* string-keyed dicts *)
Definition sd (l : list (str * pv)) : list (pv * pv) := map (fun kv => (PStr (fst kv), snd kv)) l.
Fixpoint sget (k : str) (l : list (str * pv)) : option pv :=
  match l with [] => None | (k', v) :: l' => if str_eqb k k' then Some v else sget k l' end.
Fixpoint sset (k : str) (v : pv) (l : list (str * pv)) : list (str * pv) :=
  match l with
  | [] => [(k, v)]
  | (k', v') :: l' => if str_eqb k k' then (k', v) :: l' else (k', v') :: sset k v l'
  end.
Lemma dict_get_sd : forall k l, dict_get (PStr k) (sd l) = Ok (sget k l).
Proof. induction l as [|[k' v] l IH]; cbn; [reflexivity|]. destruct (str_eqb k k'); auto. Qed.
Lemma dict_set_sd : forall k v l, dict_set (PStr k) v (sd l) = Ok (sd (sset k v l)).
Proof.
  induction l as [|[k' v'] l IH]; cbn; [reflexivity|]. destruct (str_eqb k k'); cbn; [reflexivity|].
  fold (sd l). rewrite IH. reflexivity.
Qed.
Lemma in_list_keys_sd : forall k l, in_list (PStr k) (map fst (sd l)) = Ok (match sget k l with Some _ => true | None => false end).
Proof. induction l as [|[k' v] l IH]; cbn; [reflexivity|]. destruct (str_eqb k k'); auto. Qed.
Lemma sget_sset : forall k k' v l, sget k' (sset k v l) = if str_eqb k' k then Some v else sget k' l.
Proof.
  induction l as [|[k0 v0] l IH]; cbn.
  - destruct (str_eqb k' k); reflexivity.
  - destruct (str_eqb k k0) eqn:E; cbn.
    + apply str_eqb_eq in E; subst k0. destruct (str_eqb k' k); reflexivity.
    + destruct (str_eqb k' k0) eqn:E2.
      * destruct (str_eqb k' k) eqn:E3; [|reflexivity].
        apply str_eqb_eq in E2, E3; subst. rewrite str_eqb_refl in E; discriminate.
      * apply IH.
  Qed.

(* the result of a call: some value whose truth value is b *)
Definition returns (x : res pv) (b : bool) : Prop := exists v, x = Ok v /\ truthy v = b.

Ltac unf := unfold pv_filter, pv_urlinfo, pv_record, mk_obj, filter_cls, filter_fields.
Ltac red1 := mp_reduce; cbn [pv_ostr pv_oint pv_ostrs u_scheme u_hostname u_port u_path u_url
                              r_level r_inline r_tries r_parent r_root o_re_search o_fn_translate o_fnmatchcase
                              o_parse o_urljoin mk_oracles nonempty given items ogiven otext].
Ltac auto_mp := repeat (progress (red1; try mp_split)); try reflexivity.
Ltac fuel m := destruct m as [|m]; [lia|].

(* expose the step function of the (single) for loop in the goal *)
Ltac loop_lemma H :=
  match goal with |- context [for_loop ?st (map PStr ?l) ?E] =>
    let r := fresh "R" in
    destruct (H st l E) as (?E' & r); [try reflexivity ..|]; rewrite r; clear r
  end.

Lemma run_S : forall O P m c mt args fd, P c mt = Some fd ->
  run O P (S m) c mt args = match run_body O (run O P m) fd args with Ok (v, _) => Ok v | Err e => Err e end.
Proof. intros O P m c mt args fd H. cbn [run]. rewrite H. reflexivity. Qed.
Ltac enter := erewrite run_S by reflexivity.

Section WithLib.
Variable L : lib.
Notation O := (mk_oracles L).
Notation runf := (run O filter_prog).

(* ------------------------------------------------------------------ part B *)
Definition test_of (m : nat) (f : filter) (u : urlinfo) (r : urlrec) : res pv :=
  runf m (filter_cls f) M_test [pv_filter f; pv_urlinfo u; pv_record r].

Lemma SchemeFilter_ok : forall al u r m, (m >= 1)%nat -> test_of m (FScheme al) u r = Ok (PBool (scheme_spec al u)).
Proof.
  intros al u r m Hm; fuel m. unfold test_of; unf; enter; unfold SchemeFilter__test. red1.
  rewrite in_list_strs. reflexivity.
Qed.

Lemma HTTPSOnlyFilter_ok : forall u r m, (m >= 1)%nat -> test_of m FHTTPSOnly u r = Ok (PBool (https_only_spec u)).
Proof. intros u r m Hm; fuel m. reflexivity. Qed.

Definition parse_opt (o : option str) : pv :=
  match o with Some s => pv_urlinfo (l_parse L s) | None => PNone end.

Lemma parent_url_info_ok : forall r m, (m >= 1)%nat ->
  runf m C_URLProperties M_parent_url_info [pv_record r] = Ok (parse_opt (r_parent r)).
Proof. intros [lv il tr [p|] ro] m Hm; fuel m; reflexivity. Qed.

Lemma FollowFTPFilter_ok : forall fo u r m, (m >= 2)%nat ->
  test_of m (FFollowFTP fo) u r = Ok (PBool (follow_ftp_spec L fo u r)).
Proof.
  intros fo u r m Hm; fuel m. unfold test_of, follow_ftp_spec, parent_is_web, web_scheme, s_ftp, s_http, s_https; unf.
  enter; unfold FollowFTPFilter__test. red1.
  destruct r as [lv il tr [p|] ro]; red1.
  2: { repeat (progress (red1; try mp_split)); reflexivity. }
  destruct p as [|c p]; red1.
  { repeat (progress (red1; try mp_split)); reflexivity. }
  mp_split; red1; [|reflexivity].
  rewrite (parent_url_info_ok {| r_level := lv; r_inline := il; r_tries := tr; r_parent := Some (c :: p); r_root := ro |}) by lia.
  unfold parse_opt, pv_urlinfo, mk_obj. red1.
  repeat (progress (red1; try mp_split)); reflexivity.
Qed.


(* -- domain suffixes -- *)
Lemma domain_match_ok : forall self l h m, (m >= 1)%nat ->
  returns (runf m C_BackwardDomainFilter M_match [self; pv_strs l; pv_ostr h]) (suffix_match l h).
Proof.
  intros self l h m Hm; fuel m. unfold returns, suffix_match, pv_strs.
  enter; unfold BackwardDomainFilter__match. red1.
  destruct h as [s|]; red1; [|eexists; split; reflexivity].
  destruct s as [|c s]; red1; [eexists; split; reflexivity|].
  set (s0 := c :: s). clearbody s0.
  match goal with |- context [for_loop ?st _ ?E] => set (step := st); set (E0 := E) end.
  assert (H : forall l E, E 2 = Some (PStr s0) ->
            exists E', for_loop step (map PStr l) E =
                       Ok (E', if existsb (endswith s0) l then Some (PBool true) else None)).
  { clear. induction l as [|x l IH]; intros E HE; cbn [map for_loop existsb].
    - eexists; reflexivity.
    - unfold step at 1. red1. rewrite HE. red1.
      destruct (endswith s0 x); red1; [eexists; reflexivity|].
      apply IH. red1. exact HE. }
  destruct (H l E0 eq_refl) as (E' & ->).
  destruct (existsb (endswith s0) l); eexists; split; reflexivity.
Qed.

Lemma truthy_pv_strs : forall l, truthy (pv_strs l) = nonempty l.
Proof. intros [|x l]; reflexivity. Qed.
Lemma py_in_ostr_strs : forall h l, py_in (pv_ostr h) (pv_strs l) = Ok (host_in h l).
Proof. intros; unfold pv_strs; cbn [py_in]. apply in_list_ostr. Qed.

Ltac use_truthy := match goal with H : truthy ?v = _ |- context [truthy ?v] => rewrite H end.
Ltac dom_step := first
  [ progress red1
  | rewrite truthy_pv_strs
  | match goal with |- context [run _ filter_prog ?m C_BackwardDomainFilter M_match [?s; pv_strs ?l; pv_ostr ?h]] =>
       let v := fresh "v" in let Hv := fresh "Hv" in let E := fresh "E" in
       destruct (domain_match_ok s l h m ltac:(lia)) as (v & E & Hv); rewrite E; clear E end
  | use_truthy
  | mp_split ].

Lemma BackwardDomainFilter_ok : forall a rj u r m, (m >= 2)%nat ->
  test_of m (FDomain a rj) u r = Ok (PBool (domain_spec a rj u)).
Proof.
  intros a rj u r m Hm; fuel m. unfold test_of, domain_spec; unf.
  enter; unfold BackwardDomainFilter__test.
  destruct a as [[|x la]|], rj as [[|y lr]|]; repeat dom_step; reflexivity.
Qed.

(* -- host names -- *)
Ltac host_step := first
  [ progress red1
  | rewrite truthy_pv_strs
  | rewrite py_in_ostr_strs
  | mp_split ].
Lemma HostnameFilter_ok : forall a rj u r m, (m >= 1)%nat ->
  test_of m (FHostname a rj) u r = Ok (PBool (hostname_spec a rj u)).
Proof.
  intros a rj u r m Hm; fuel m. unfold test_of, hostname_spec; unf.
  enter; unfold HostnameFilter__test.
  destruct a as [[|x la]|], rj as [[|y lr]|]; repeat host_step; reflexivity.
Qed.

(* -- recursion, depth, tries -- *)
Lemma RecursiveFilter_ok : forall e p u r m, (m >= 1)%nat ->
  returns (test_of m (FRecursive e p) u r) (recursive_spec e p r).
Proof.
  intros e p u [lv [il|] tr pa ro] m Hm; fuel m; unfold returns, test_of, recursive_spec, is_requisite; unf;
    enter; unfold RecursiveFilter__test; cbn [r_level r_inline];
    repeat (progress (red1; try mp_split)); eexists; split; try reflexivity;
    destruct e, p; reflexivity.
Qed.

Lemma LevelFilter_ok : forall d i u r m, (m >= 1)%nat ->
  test_of m (FLevel d i) u r = Ok (PBool (level_spec d i r)).
Proof.
  intros d i u [lv [il|] tr pa ro] m Hm; fuel m; unfold test_of, level_spec, is_requisite; unf;
    enter; unfold LevelFilter__test; cbn [r_level r_inline]; auto_mp.
Qed.

Lemma TriesFilter_ok : forall t u r m, (m >= 1)%nat ->
  test_of m (FTries t) u r = Ok (PBool (tries_spec t r)).
Proof.
  intros t u [lv il tr pa ro] m Hm; fuel m; unfold test_of, tries_spec; unf;
    enter; unfold TriesFilter__test; cbn [r_tries]; auto_mp.
Qed.

(* -- url.py helpers -- *)
Lemma schemes_similar_ok : forall a b m, (m >= 1)%nat ->
  runf m C_mod_url M_schemes_similar [PStr a; PStr b] = Ok (PBool (schemes_similar_spec a b)).
Proof.
  intros a b m Hm; fuel m. unfold schemes_similar_spec, web_scheme, s_http, s_https.
  enter; unfold mod_url__schemes_similar. auto_mp.
Qed.

Lemma rsplit1_cases : forall c s, (exists h t, rsplit1 c s = [h; t]) \/ rsplit1 c s = [s].
Proof. intros c s. unfold rsplit1. destruct (rsplit1_aux c s) as [[h t]|]; [left; eauto | right; reflexivity]. Qed.

Lemma is_subdir_trailing_ok : forall b t m, (m >= 1)%nat ->
  runf m C_mod_url M_is_subdir [PStr b; PStr t; PBool true; PBool false]
  = Ok (PBool (startswith (dir_of t) (dir_of b))).
Proof.
  intros b t m Hm; fuel m. unfold dir_of, slash.
  enter; unfold mod_url__is_subdir. red1.
  destruct (rsplit1_cases 47%N b) as [(h1 & t1 & Hb)| Hb];
  destruct (rsplit1_cases 47%N t) as [(h2 & t2 & Ht)| Ht];
  repeat (progress (red1; rewrite ?Hb, ?Ht)); reflexivity.
Qed.

Lemma is_subdir_wild_ok : forall b t m, (m >= 1)%nat ->
  runf m C_mod_url M_is_subdir [PStr b; PStr t; PBool false; PBool true]
  = Ok (PBool (l_fnmatchcase L (slashed t) (slashed b))).
Proof.
  intros b t m Hm; fuel m. unfold slashed, slash.
  enter; unfold mod_url__is_subdir. red1.
  destruct (endswith b [47%N]); red1; destruct (endswith t [47%N]); red1; reflexivity.
Qed.

(* -- no-parent -- *)
Lemma py_eq_ostr : forall a b, py_eq (pv_ostr a) (pv_ostr b) = Some (ostr_eqb a b).
Proof. intros [a|] [b|]; reflexivity. Qed.
Lemma py_eq_oint : forall a b, py_eq (pv_oint a) (pv_oint b) = Some (oint_eqb a b).
Proof. intros [a|] [b|]; reflexivity. Qed.

Ltac parent_step := first
  [ progress red1
  | progress unfold pv_urlinfo, mk_obj
  | rewrite schemes_similar_ok by lia
  | rewrite is_subdir_trailing_ok by lia
  | rewrite py_eq_ostr
  | rewrite py_eq_oint
  | mp_split ].

Lemma ParentFilter_ok : forall u r m, (m >= 2)%nat ->
  test_of m FParent u r = Ok (PBool (parent_spec L u r)).
Proof.
  intros u r m Hm; fuel m. unfold test_of, parent_spec, same_site, top_of, is_requisite; unf.
  enter; unfold ParentFilter__test.
  destruct r as [lv [il|] tr pa [[|c ro]|]]; cbn [r_inline r_root]; unfold pv_urlinfo, mk_obj;
    repeat parent_step; try reflexivity.
Qed.

(* -- span hosts -- *)
Lemma py_in_ostr_tuple : forall h l, py_in (pv_ostr h) (PTuple (map PStr l)) = Ok (host_in h l).
Proof. intros; cbn [py_in]. apply in_list_ostr. Qed.

Ltac span_step := first
  [ progress red1
  | progress unfold pv_urlinfo, mk_obj, parse_opt
  | rewrite parent_url_info_ok by lia
  | rewrite py_in_ostr_tuple
  | rewrite in_list_ostr
  | mp_split ].

Lemma SpanHostsFilter_ok : forall hs e p lp u r m, (m >= 2)%nat ->
  returns (test_of m (FSpanHosts hs e p lp) u r) (span_hosts_spec L hs e p lp u r).
Proof.
  intros hs e p lp u r m Hm; fuel m. unfold returns, test_of, span_hosts_spec, is_requisite; unf.
  enter; unfold SpanHostsFilter__test.
  destruct e; [red1; eexists; split; reflexivity|].
  red1. rewrite in_list_ostr. red1.
  destruct (host_in (u_hostname u) hs); [red1; eexists; split; reflexivity|].
  assert (HP : forall m', (m' >= 1)%nat ->
             runf m' C_URLProperties M_parent_url_info
               [PObj C_Record (fun a => assoc_attr a
                  [(A_level, PInt (r_level r)); (A_inline_level, pv_oint (r_inline r));
                   (A_try_count, PInt (r_tries r)); (A_parent_url, pv_ostr (r_parent r));
                   (A_root_url, pv_ostr (r_root r))])] = Ok (parse_opt (r_parent r))).
  { intros. apply (parent_url_info_ok r); assumption. }
  cbn [assoc_attr] in HP.
  destruct r as [lv [il|] tr [pa|] ro]; cbn [r_inline r_parent r_level r_tries r_root] in *;
    destruct p, lp; red1; rewrite ?HP by lia; unfold parse_opt, pv_urlinfo, mk_obj;
    repeat (first [progress red1 | rewrite HP by lia | progress unfold parse_opt, pv_urlinfo, mk_obj | rewrite in_list_ostr | mp_split ]);
    eexists; split; reflexivity.
Qed.

(* -- regex -- *)
Lemma RegexFilter_ok : forall a rj u r m, (m >= 1)%nat ->
  test_of m (FRegex a rj) u r = Ok (PBool (regex_spec L a rj u)).
Proof.
  intros a rj u r m Hm; fuel m. unfold test_of, regex_spec; unf.
  enter; unfold RegexFilter__test.
  destruct a as [[|x a]|], rj as [[|y rj]|]; auto_mp.
Qed.

(* -- directories -- *)
Lemma dir_loop_ok : forall (which : mname) fd self u l m,
  (which = M__is_accepted /\ fd = DirectoryFilter___is_accepted /\ py_getattr self A__accepted = Ok (pv_strs l)) \/
  (which = M__is_rejected /\ fd = DirectoryFilter___is_rejected /\ py_getattr self A__rejected = Ok (pv_strs l)) ->
  (m >= 2)%nat ->
  returns (runf m C_DirectoryFilter which [self; pv_urlinfo u]) (dir_match L l u).
Proof.
  intros which fd self u l m Hw Hm; fuel m. unfold returns, dir_match.
  assert (Hloop : forall step,
            (forall E x, E 1 = Some (pv_urlinfo u) ->
               step E (PStr x) = if l_fnmatchcase L (slashed (u_path u)) (slashed x)
                                 then Ok (upd E 2 (PStr x), Some (PBool true)) else Ok (upd E 2 (PStr x), None)) ->
            forall l E, E 1 = Some (pv_urlinfo u) ->
            exists E', for_loop step (map PStr l) E =
              Ok (E', if existsb (fun d => l_fnmatchcase L (slashed (u_path u)) (slashed d)) l
                      then Some (PBool true) else None)).
  { intros step Hstep. induction l0 as [|x l0 IH]; intros E HE; cbn [map for_loop existsb].
    - eexists; reflexivity.
    - rewrite Hstep by exact HE. destruct (l_fnmatchcase L (slashed (u_path u)) (slashed x)); cbn [orb].
      + eexists; reflexivity.
      + apply IH. unfold upd. cbn. exact HE. }
  destruct Hw as [(-> & -> & Hs)|(-> & -> & Hs)].
  - enter; unfold DirectoryFilter___is_accepted. red1. rewrite Hs. unfold pv_strs. red1.
    match goal with |- context [for_loop ?st _ ?E] =>
      destruct (Hloop st) with (l := l) (E := E) as (E' & ->); [| reflexivity |] end.
    + intros E x HE. red1. rewrite HE. unfold pv_urlinfo at 1, mk_obj. red1.
      rewrite is_subdir_wild_ok by lia. red1.
      destruct (l_fnmatchcase L (slashed (u_path u)) (slashed x)); reflexivity.
    + destruct (existsb _ l); eexists; split; reflexivity.
  - enter; unfold DirectoryFilter___is_rejected. red1. rewrite Hs. unfold pv_strs. red1.
    match goal with |- context [for_loop ?st _ ?E] =>
      destruct (Hloop st) with (l := l) (E := E) as (E' & ->); [| reflexivity |] end.
    + intros E x HE. red1. rewrite HE. unfold pv_urlinfo at 1, mk_obj. red1.
      rewrite is_subdir_wild_ok by lia. red1.
      destruct (l_fnmatchcase L (slashed (u_path u)) (slashed x)); reflexivity.
    + destruct (existsb _ l); eexists; split; reflexivity.
Qed.

Ltac dir_step u := first
  [ progress red1
  | rewrite truthy_pv_strs
  | match goal with |- context [run _ filter_prog ?m C_DirectoryFilter M__is_accepted [?s; ?ui]] =>
       let v := fresh "v" in let Hv := fresh "Hv" in let E := fresh "E" in
       edestruct (dir_loop_ok M__is_accepted _ s u) with (m := m) as (v & E & Hv);
         [left; split; [reflexivity|split; [reflexivity|reflexivity]] | lia | ];
       fold (pv_urlinfo u) in *; unfold pv_urlinfo, mk_obj in E; rewrite E; clear E end
  | match goal with |- context [run _ filter_prog ?m C_DirectoryFilter M__is_rejected [?s; ?ui]] =>
       let v := fresh "v" in let Hv := fresh "Hv" in let E := fresh "E" in
       edestruct (dir_loop_ok M__is_rejected _ s u) with (m := m) as (v & E & Hv);
         [right; split; [reflexivity|split; [reflexivity|reflexivity]] | lia | ];
       unfold pv_urlinfo, mk_obj in E; rewrite E; clear E end
  | use_truthy
  | mp_split ].

Lemma DirectoryFilter_ok : forall a rj u r m, (m >= 3)%nat ->
  test_of m (FDirectory a rj) u r = Ok (PBool (directory_spec L a rj u)).
Proof.
  intros a rj u r m Hm; fuel m. unfold test_of, directory_spec; unf.
  enter; unfold DirectoryFilter__test.
  destruct a as [[|x la]|], rj as [[|y lr]|]; repeat (dir_step u); reflexivity.
Qed.

End WithLib.
