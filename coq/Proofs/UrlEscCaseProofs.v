(* C10, spelling clause "the case of the hex digits of an escape": two byte strings that differ
   only in the letter case of the two hex digits of escapes (as uppercase_percent_encoding's
   left-to-right scan delimits them) get the same percent-encoded, upper-cased form - for every
   encode set that contains neither '%' nor a hex digit (path, query and fragment sets). *)
From Coq Require Import List NArith ZArith Bool Lia Arith.
From Coq Require Import ZifyBool ZifyNat ZifyN.
From Wpull Require Import Model.UrlLib Model.Url Proofs.UrlPeProofs.
Import ListNotations.
Open Scope N_scope.

(* the scanner's test: do the next two characters complete an escape? *)
Definition esc_head (r : str) : bool :=
  match r with a :: b :: _ => is_hex a && is_hex b | _ => false end.

Inductive hexcase : str -> str -> Prop :=
| hc_nil : hexcase [] []
| hc_esc a b a' b' r r' :
    is_hex a = true -> is_hex b = true -> is_hex a' = true -> is_hex b' = true ->
    upper_c a = upper_c a' -> upper_c b = upper_c b' ->
    hexcase r r' -> hexcase (37 :: a :: b :: r) (37 :: a' :: b' :: r')
| hc_pct r r' : esc_head r = false -> esc_head r' = false -> hexcase r r' -> hexcase (37 :: r) (37 :: r')
| hc_chr x r r' : x <> 37 -> hexcase r r' -> hexcase (x :: r) (x :: r').

Lemma hexcase_refl s : hexcase s s.
Proof.
  induction s as [s IH] using (well_founded_induction (Wf_nat.well_founded_ltof _ (@length N))).
  destruct s as [|x r]; [constructor|].
  destruct (N.eq_dec x 37) as [->|Hx].
  - destruct (esc_head r) eqn:E.
    + destruct r as [|a [|b r2]]; try discriminate. cbn [esc_head] in E. apply andb_true_iff in E as [Ha Hb].
      apply hc_esc; auto. apply IH. unfold ltof. cbn. lia.
    + apply hc_pct; auto. apply IH. unfold ltof. cbn. lia.
  - apply hc_chr; auto. apply IH. unfold ltof. cbn. lia.
Qed.

Lemma upper_pe_pct_noesc r : esc_head r = false -> upper_pe (37 :: r) = 37 :: upper_pe r.
Proof.
  intros E. cbn [upper_pe]. cbn [N.eqb Pos.eqb]. destruct r as [|a [|b r2]]; try reflexivity.
  cbn [esc_head] in E. rewrite E. reflexivity.
Qed.

Lemma upper_pe_pct_esc a b r : is_hex a = true -> is_hex b = true ->
  upper_pe (37 :: a :: b :: r) = 37 :: upper_c a :: upper_c b :: upper_pe r.
Proof. intros Ha Hb. cbn [upper_pe]. cbn [N.eqb Pos.eqb]. rewrite Ha, Hb. reflexivity. Qed.

Theorem upper_pe_hexcase s s' : hexcase s s' -> upper_pe s = upper_pe s'.
Proof.
  induction 1 as [|a b a' b' r r' Ha Hb Ha' Hb' Ea Eb H IH|r r' E E' H IH|x r r' Hx H IH].
  - reflexivity.
  - rewrite !upper_pe_pct_esc by assumption. rewrite Ea, Eb, IH. reflexivity.
  - rewrite !upper_pe_pct_noesc by assumption. rewrite IH. reflexivity.
  - rewrite !upper_pe_other by assumption. rewrite IH. reflexivity.
Qed.

(* ---------- percent_encode keeps the relation ---------- *)
Definition set_ok (set : str) : Prop :=
  memb 37 set = false /\ forall c, is_hex c = true -> memb c set = false.

Lemma is_hex_range c : is_hex c = true -> (c <? 32) = false /\ (126 <? c) = false /\ c <> 37.
Proof. unfold is_hex. lia. Qed.

Lemma pe_byte_hex set c : set_ok set -> is_hex c = true -> pe_byte set c = [c].
Proof.
  intros [_ Hs] Hc. unfold pe_byte. destruct (is_hex_range c Hc) as (A & B & _).
  rewrite A, B, (Hs c Hc). reflexivity.
Qed.

Lemma pe_byte_pct set : set_ok set -> pe_byte set 37 = [37].
Proof. intros [Hp _]. unfold pe_byte. rewrite Hp. reflexivity. Qed.

Lemma hex_upper_digit_hex n : n < 16 -> is_hex (hex_upper_digit n) = true.
Proof.
  intros H. unfold hex_upper_digit, is_hex.
  destruct (n <? 10) eqn:E; lia.
Qed.

(* what pe_byte produces for a byte other than '%': the byte itself, or - for a byte that is not a
   hex digit - an escape *)
Lemma pe_byte_shape set x : set_ok set -> x <> 37 -> x < 256 ->
  pe_byte set x = [x] \/
  (is_hex x = false /\ exists h l, pe_byte set x = [37; h; l] /\ is_hex h = true /\ is_hex l = true).
Proof.
  intros Hs Hx Hb. destruct (is_hex x) eqn:Hh.
  - left. apply pe_byte_hex; assumption.
  - unfold pe_byte. destruct ((x <? 32) || (126 <? x) || memb x set) eqn:E; [right|left; reflexivity].
    split; [reflexivity|].
    exists (hex_upper_digit (x / 16)), (hex_upper_digit (x mod 16)). split; [reflexivity|].
    split; apply hex_upper_digit_hex.
    + apply N.div_lt_upper_bound; lia.
    + apply N.mod_upper_bound. lia.
Qed.

Definition bytes (s : str) : Prop := Forall (fun b => b < 256) s.

Lemma is_hex_37 : is_hex 37 = false.
Proof. reflexivity. Qed.

(* the first character of what pe_bytes produces for x :: r is x itself when x is a hex digit, and not a
   hex digit otherwise *)
Lemma pe_bytes_head set x r : set_ok set -> x < 256 ->
  exists c t, pe_bytes set (x :: r) = c :: t ++ pe_bytes set r /\ is_hex c = is_hex x /\ (is_hex x = true -> c = x /\ t = []).
Proof.
  intros Hs Hb. unfold pe_bytes. cbn [flat_map]. fold (pe_bytes set r).
  destruct (N.eq_dec x 37) as [->|Hx].
  - rewrite (pe_byte_pct set Hs). exists 37, []. split; [reflexivity|]. split; [reflexivity|]. intros X. discriminate X.
  - destruct (pe_byte_shape set x Hs Hx Hb) as [E|(Hn & h & l & E & _)]; rewrite E.
    + exists x, []. split; [reflexivity|]. split; [reflexivity|]. intros _. split; reflexivity.
    + exists 37, [h; l]. rewrite Hn. split; [reflexivity|]. split; [reflexivity|]. intros X. discriminate X.
Qed.

Lemma esc_head_pe set r : set_ok set -> bytes r -> esc_head (pe_bytes set r) = esc_head r.
Proof.
  intros Hs Hb. destruct r as [|a [|b r2]].
  - reflexivity.
  - inversion Hb as [|? ? Ha _]; subst.
    destruct (pe_bytes_head set a [] Hs Ha) as (c & t & E & Hc & Hx). rewrite E. cbn [pe_bytes flat_map app]. rewrite app_nil_r.
    cbn [esc_head]. destruct t as [|t1 t2]; [reflexivity|].
    destruct (is_hex a) eqn:Ha'; [destruct (Hx eq_refl) as [_ Et]; discriminate|]. rewrite Hc. reflexivity.
  - inversion Hb as [|? ? Ha Hb2]; subst. inversion Hb2 as [|? ? Hbb _]; subst.
    destruct (pe_bytes_head set a (b :: r2) Hs Ha) as (c & t & E & Hc & Hx). rewrite E.
    destruct (pe_bytes_head set b r2 Hs Hbb) as (c2 & t2 & E2 & Hc2 & Hx2). rewrite E2.
    cbn [esc_head]. destruct (is_hex a) eqn:Ha'.
    + destruct (Hx eq_refl) as [-> ->]. cbn [app esc_head]. rewrite Ha', Hc2. reflexivity.
    + destruct t as [|t1 t3]; cbn [app esc_head]; rewrite Hc; reflexivity.
Qed.

Lemma hexcase_bytes_l s s' : hexcase s s' -> bytes s -> bytes s'.
Proof.
  induction 1 as [|a b a' b' r r' Ha Hb Ha' Hb' Ea Eb H IH|r r' E E' H IH|x r r' Hx H IH]; intros B.
  - constructor.
  - inversion B as [|? ? _ B1]; subst. inversion B1 as [|? ? _ B2]; subst. inversion B2 as [|? ? _ B3]; subst.
    unfold is_hex in Ha', Hb'. repeat constructor; try lia. apply IH, B3.
  - inversion B; subst. constructor; [lia|]. apply IH. assumption.
  - inversion B; subst. constructor; [assumption|]. apply IH. assumption.
Qed.

Theorem pe_bytes_hexcase set s s' : set_ok set -> hexcase s s' -> bytes s ->
  hexcase (pe_bytes set s) (pe_bytes set s').
Proof.
  intros Hs H. induction H as [|a b a' b' r r' Ha Hb Ha' Hb' Ea Eb H IH|r r' E E' H IH|x r r' Hx H IH]; intros B.
  - constructor.
  - inversion B as [|? ? _ B1]; subst. inversion B1 as [|? ? _ B2]; subst. inversion B2 as [|? ? _ B3]; subst.
    unfold pe_bytes. cbn [flat_map]. fold (pe_bytes set r). fold (pe_bytes set r').
    rewrite (pe_byte_pct set Hs), !(pe_byte_hex set _ Hs) by assumption. cbn [app].
    apply hc_esc; auto.
  - inversion B as [|? ? _ B1]; subst.
    unfold pe_bytes. cbn [flat_map]. fold (pe_bytes set r). fold (pe_bytes set r').
    rewrite (pe_byte_pct set Hs). cbn [app].
    apply hc_pct; [| |apply IH, B1].
    + rewrite esc_head_pe by assumption. exact E.
    + rewrite esc_head_pe; [exact E'|exact Hs|]. apply (hexcase_bytes_l r r' H B1).
  - inversion B as [|? ? Bx B1]; subst.
    unfold pe_bytes. cbn [flat_map]. fold (pe_bytes set r). fold (pe_bytes set r').
    destruct (pe_byte_shape set x Hs Hx Bx) as [Ex|(_ & h & l & Ex & Hh & Hl)]; rewrite Ex; cbn [app].
    + apply hc_chr; [exact Hx|apply IH, B1].
    + apply hc_esc; auto.
Qed.

(* the clause: same normalized component (percent_encode followed by uppercase_percent_encoding) *)
Theorem escape_case_same set s s' : set_ok set -> bytes s -> hexcase s s' ->
  upper_pe (pe_bytes set s) = upper_pe (pe_bytes set s').
Proof. intros Hs B H. apply upper_pe_hexcase, pe_bytes_hexcase; assumption. Qed.

(* the sets of the path, the query and the fragment qualify (user name and password sets contain
   '%': there an escape is not kept but encoded again, and the clause does not apply) *)
Lemma memb_false_forall (set : str) (P : N -> bool) :
  forallb (fun c => negb (P c)) set = true -> forall c, P c = true -> memb c set = false.
Proof.
  induction set as [|x r IH]; intros H c Hc; [reflexivity|].
  cbn [forallb] in H. apply andb_true_iff in H as [Hx Hr]. cbn [memb].
  destruct (N.eqb_spec x c) as [->|Hne]; [rewrite Hc in Hx; discriminate|]. cbn [orb]. apply IH; assumption.
Qed.

Lemma sets_ok : set_ok default_encode_set /\ set_ok query_encode_set /\ set_ok fragment_encode_set.
Proof.
  repeat split; try reflexivity; apply memb_false_forall; reflexivity.
Qed.

(* ... including the '+' for space of the query normalizer (neither ' ' nor '+' is '%' or a hex digit) *)
Lemma esc_head_replace1 r : esc_head (replace1 32 43 r) = esc_head r.
Proof.
  destruct r as [|a [|b r2]]; try reflexivity. cbn [replace1 esc_head].
  assert (X : forall c, is_hex (if c =? 32 then 43 else c) = is_hex c).
  { intros c. destruct (c =? 32) eqn:E; [|reflexivity]. apply N.eqb_eq in E. subst c. reflexivity. }
  rewrite !X. reflexivity.
Qed.

Lemma replace1_hexcase s s' : hexcase s s' -> hexcase (replace1 32 43 s) (replace1 32 43 s').
Proof.
  induction 1 as [|a b a' b' r r' Ha Hb Ha' Hb' Ea Eb H IH|r r' E E' H IH|x r r' Hx H IH]; cbn [replace1].
  - constructor.
  - assert (X : forall c, is_hex c = true -> (if c =? 32 then 43 else c) = c).
    { intros c Hc. destruct (c =? 32) eqn:E; [|reflexivity]. apply N.eqb_eq in E. subst c. discriminate Hc. }
    cbn [N.eqb Pos.eqb]. rewrite !X by assumption. apply hc_esc; auto.
  - cbn [N.eqb Pos.eqb]. apply hc_pct; [rewrite esc_head_replace1; exact E|rewrite esc_head_replace1; exact E'|exact IH].
  - destruct (x =? 32) eqn:E.
    + apply hc_chr; [discriminate|exact IH].
    + apply hc_chr; [exact Hx|exact IH].
Qed.

Theorem escape_case_same_plus set s s' : set_ok set -> bytes s -> hexcase s s' ->
  upper_pe (replace1 32 43 (pe_bytes set s)) = upper_pe (replace1 32 43 (pe_bytes set s')).
Proof. intros Hs B H. apply upper_pe_hexcase, replace1_hexcase, pe_bytes_hexcase; assumption. Qed.

Theorem escape_case_all :
  forall (s s' : str), Forall (fun b => b < 256) s -> hexcase s s' ->
    upper_pe (pe_bytes default_encode_set s) = upper_pe (pe_bytes default_encode_set s') /\
    upper_pe (pe_bytes query_encode_set s) = upper_pe (pe_bytes query_encode_set s') /\
    upper_pe (replace1 32 43 (pe_bytes query_encode_set s)) = upper_pe (replace1 32 43 (pe_bytes query_encode_set s')) /\
    upper_pe (pe_bytes fragment_encode_set s) = upper_pe (pe_bytes fragment_encode_set s').
Proof.
  intros s s' B H. destruct sets_ok as (S1 & S2 & S3).
  exact (conj (escape_case_same _ s s' S1 B H) (conj (escape_case_same _ s s' S2 B H)
        (conj (escape_case_same_plus _ s s' S2 B H) (escape_case_same _ s s' S3 B H)))).
Qed.
