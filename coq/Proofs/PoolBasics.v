(* C12 - list / association-list / waiter-queue lemmas used by PoolProofs.v *)
From Coq Require Import List Arith Bool ZArith Lia.
From Wpull Require Import Model.Pool.
Import ListNotations.
Open Scope bool_scope.

Lemma upd_same {A} (f : nat -> A) i v : upd f i v i = v.
Proof. unfold upd. now rewrite Nat.eqb_refl. Qed.
Lemma upd_other {A} (f : nat -> A) i j v : j <> i -> upd f i v j = f j.
Proof. unfold upd. intros H. apply Nat.eqb_neq in H. now rewrite H. Qed.

(* ---------- mem / remove1 ---------- *)
Lemma mem_In x l : mem x l = true <-> In x l.
Proof.
  induction l as [|y l IH]; cbn; [split; [discriminate|tauto]|].
  rewrite orb_true_iff, IH, Nat.eqb_eq. tauto.
Qed.
Lemma mem_false x l : mem x l = false <-> ~ In x l.
Proof. rewrite <- mem_In. destruct (mem x l); split; congruence. Qed.

Lemma remove1_In y x l : In y (remove1 x l) -> In y l.
Proof.
  induction l as [|z l IH]; cbn; [tauto|].
  destruct (Nat.eqb z x); cbn; tauto.
Qed.
Lemma remove1_NoDup x l : NoDup l -> NoDup (remove1 x l).
Proof.
  induction 1 as [|z l Hz Hl IH]; cbn; [constructor|].
  destruct (Nat.eqb z x); [assumption|]. constructor; [|assumption].
  intros H; apply Hz. eapply remove1_In; eauto.
Qed.
Lemma remove1_In_iff y x l : NoDup l -> (In y (remove1 x l) <-> In y l /\ y <> x).
Proof.
  induction 1 as [|z l Hz Hl IH]; cbn; [tauto|].
  destruct (Nat.eqb z x) eqn:E.
  - apply Nat.eqb_eq in E; subst z. split.
    + intros H. split; [tauto|]. intros ->. contradiction.
    + intros [[->|H] N]; [congruence|assumption].
  - apply Nat.eqb_neq in E. cbn. rewrite IH. split.
    + intros [->|[H N]]; [split; [tauto|assumption]|tauto].
    + intros [[->|H] N]; [tauto|tauto].
Qed.
Lemma remove1_length x l : In x l -> S (length (remove1 x l)) = length l.
Proof.
  induction l as [|z l IH]; cbn; [tauto|].
  destruct (Nat.eqb z x) eqn:E; [reflexivity|].
  apply Nat.eqb_neq in E. intros [->|H]; [congruence|]. cbn. now rewrite IH.
Qed.
Lemma remove1_head x l : remove1 x (x :: l) = l.
Proof. cbn. now rewrite Nat.eqb_refl. Qed.

(* ---------- association list ---------- *)
Lemma aget_aset_same l k v : aget (aset l k v) k = Some v.
Proof.
  induction l as [|[j w] l IH]; cbn; [now rewrite Nat.eqb_refl|].
  destruct (Nat.eqb j k) eqn:E; cbn; rewrite E; [reflexivity|assumption].
Qed.
Lemma aget_aset_other l k v k' : k' <> k -> aget (aset l k v) k' = aget l k'.
Proof.
  intros N. induction l as [|[j w] l IH]; cbn.
  - apply Nat.eqb_neq in N. rewrite Nat.eqb_sym in N. now rewrite N.
  - destruct (Nat.eqb j k) eqn:E; cbn.
    + apply Nat.eqb_eq in E; subst j.
      assert (Nat.eqb k k' = false) as -> by (apply Nat.eqb_neq; congruence). reflexivity.
    + destruct (Nat.eqb j k'); [reflexivity|assumption].
Qed.
Lemma aget_aset l k v k' : aget (aset l k v) k' = if Nat.eqb k' k then Some v else aget l k'.
Proof.
  destruct (Nat.eqb k' k) eqn:E.
  - apply Nat.eqb_eq in E; subst. apply aget_aset_same.
  - apply Nat.eqb_neq in E. now apply aget_aset_other.
Qed.
Lemma aget_adel_same l k : aget (adel l k) k = None.
Proof.
  induction l as [|[j w] l IH]; cbn; [reflexivity|].
  destruct (Nat.eqb j k) eqn:E; cbn; [assumption|]. now rewrite E.
Qed.
Lemma aget_adel_other l k k' : k' <> k -> aget (adel l k) k' = aget l k'.
Proof.
  intros N. induction l as [|[j w] l IH]; cbn; [reflexivity|].
  destruct (Nat.eqb j k) eqn:E; cbn.
  - apply Nat.eqb_eq in E; subst j.
    assert (Nat.eqb k k' = false) as -> by (apply Nat.eqb_neq; congruence). assumption.
  - destruct (Nat.eqb j k'); [reflexivity|assumption].
Qed.
Lemma aget_adel l k k' : aget (adel l k) k' = if Nat.eqb k' k then None else aget l k'.
Proof.
  destruct (Nat.eqb k' k) eqn:E.
  - apply Nat.eqb_eq in E; subst. apply aget_adel_same.
  - apply Nat.eqb_neq in E. now apply aget_adel_other.
Qed.
Lemma aset_aset l k a b : aset (aset l k a) k b = aset l k b.
Proof.
  induction l as [|[j w] l IH]; cbn; [now rewrite Nat.eqb_refl|].
  destruct (Nat.eqb j k) eqn:E; cbn; rewrite E; [reflexivity|now rewrite IH].
Qed.
Lemma aget_In_keys l k v : aget l k = Some v -> In k (map fst l).
Proof.
  induction l as [|[j w] l IH]; cbn; [discriminate|].
  destruct (Nat.eqb j k) eqn:E; [apply Nat.eqb_eq in E; tauto|intros H; right; auto].
Qed.
Lemma In_keys_aget l k : In k (map fst l) -> exists v, aget l k = Some v.
Proof.
  induction l as [|[j w] l IH]; cbn; [tauto|].
  destruct (Nat.eqb j k) eqn:E; [eauto|].
  apply Nat.eqb_neq in E. intros [H|H]; [congruence|auto].
Qed.
Lemma keys_aset_in l k v k' : In k' (map fst (aset l k v)) <-> k' = k \/ In k' (map fst l).
Proof.
  induction l as [|[j w] l IH]; cbn; [intuition|].
  destruct (Nat.eqb j k) eqn:E; cbn.
  - apply Nat.eqb_eq in E; subst. intuition.
  - rewrite IH. intuition.
Qed.
Lemma keys_aset_NoDup l k v : NoDup (map fst l) -> NoDup (map fst (aset l k v)).
Proof.
  induction l as [|[j w] l IH]; cbn; intros H.
  - constructor; [tauto|constructor].
  - inversion H as [|? ? Hj Hl]; subst. destruct (Nat.eqb j k) eqn:E; cbn.
    + constructor; assumption.
    + constructor; [|auto]. rewrite keys_aset_in. apply Nat.eqb_neq in E. intros [->|X]; tauto.
Qed.
Lemma keys_adel_in l k k' : In k' (map fst (adel l k)) <-> k' <> k /\ In k' (map fst l).
Proof.
  induction l as [|[j w] l IH]; cbn; [tauto|].
  destruct (Nat.eqb j k) eqn:E; cbn.
  - apply Nat.eqb_eq in E; subst. rewrite IH. intuition; subst; tauto.
  - apply Nat.eqb_neq in E. rewrite IH. intuition; subst; tauto.
Qed.
Lemma keys_adel_NoDup l k : NoDup (map fst l) -> NoDup (map fst (adel l k)).
Proof.
  induction l as [|[j w] l IH]; cbn; intros H; [constructor|].
  inversion H as [|? ? Hj Hl]; subst. destruct (Nat.eqb j k); cbn; [auto|].
  constructor; [|auto]. rewrite keys_adel_in. tauto.
Qed.

(* ---------- condition waiter queue ---------- *)
Definition count_done (q : list (cli * fstat)) : nat := length (filter (fun e => is_fdone (snd e)) q).
Definition has_pending (q : list (cli * fstat)) : Prop := exists c, In (c, FPending) q.

Lemma cw_status_In q c st : cw_status q c = Some st -> In (c, st) q.
Proof.
  induction q as [|[u f] q IH]; cbn; [discriminate|].
  destruct (Nat.eqb u c) eqn:E; [apply Nat.eqb_eq in E; subst; intros [= ->]; tauto|auto].
Qed.
Lemma In_cw_status q c st : NoDup (map fst q) -> In (c, st) q -> cw_status q c = Some st.
Proof.
  induction q as [|[u f] q IH]; cbn; [tauto|]. intros H. inversion H as [|? ? Hu Hq]; subst.
  intros [[= -> ->]|X]; [now rewrite Nat.eqb_refl|].
  destruct (Nat.eqb u c) eqn:E; [|auto].
  apply Nat.eqb_eq in E; subst. exfalso. apply Hu. change c with (fst (c, st)). now apply in_map.
Qed.
Lemma cw_status_None q c : cw_status q c = None <-> ~ In c (map fst q).
Proof.
  induction q as [|[u f] q IH]; cbn; [tauto|].
  destruct (Nat.eqb u c) eqn:E.
  - apply Nat.eqb_eq in E. split; [discriminate|]. tauto.
  - apply Nat.eqb_neq in E. rewrite IH. tauto.
Qed.
Lemma cw_status_keys q c st : cw_status q c = Some st -> In c (map fst q).
Proof. intros H. apply cw_status_In in H. change c with (fst (c, st)). now apply in_map. Qed.

Lemma cw_remove_keys q c u : NoDup (map fst q) -> (In u (map fst (cw_remove q c)) <-> In u (map fst q) /\ u <> c).
Proof.
  induction q as [|[v f] q IH]; cbn; [tauto|]. intros H. inversion H as [|? ? Hv Hq]; subst.
  destruct (Nat.eqb v c) eqn:E.
  - apply Nat.eqb_eq in E; subst v. split; [intros X; split; [tauto|]; intros ->; tauto|].
    intros [[->|X] N]; [congruence|assumption].
  - apply Nat.eqb_neq in E. cbn. rewrite IH by assumption. split.
    + intros [->|[X N]]; [split; [tauto|assumption]|tauto].
    + intros [[->|X] N]; tauto.
Qed.
Lemma cw_remove_NoDup q c : NoDup (map fst q) -> NoDup (map fst (cw_remove q c)).
Proof.
  induction q as [|[v f] q IH]; cbn; [constructor|]. intros H. inversion H as [|? ? Hv Hq]; subst.
  destruct (Nat.eqb v c) eqn:E; [assumption|]. cbn. constructor; [|auto].
  rewrite cw_remove_keys by assumption. tauto.
Qed.
Lemma cw_remove_In q c e : In e (cw_remove q c) -> In e q.
Proof.
  induction q as [|[v f] q IH]; cbn; [tauto|].
  destruct (Nat.eqb v c); cbn; tauto.
Qed.
Lemma cw_remove_In_other q c u st : u <> c -> In (u, st) q -> In (u, st) (cw_remove q c).
Proof.
  intros N. induction q as [|[v f] q IH]; cbn; [tauto|].
  destruct (Nat.eqb v c) eqn:E.
  - apply Nat.eqb_eq in E; subst. intros [[= -> ->]|X]; [congruence|assumption].
  - cbn. intros [X|X]; [tauto|auto].
Qed.
Lemma cw_remove_length q c : In c (map fst q) -> S (length (cw_remove q c)) = length q.
Proof.
  induction q as [|[v f] q IH]; cbn; [tauto|].
  destruct (Nat.eqb v c) eqn:E; [reflexivity|]. apply Nat.eqb_neq in E.
  intros [X|X]; [congruence|]. cbn. now rewrite IH.
Qed.
Lemma cw_remove_count q c st : NoDup (map fst q) -> cw_status q c = Some st ->
  count_done (cw_remove q c) + (if is_fdone st then 1 else 0) = count_done q.
Proof.
  unfold count_done. induction q as [|[v f] q IH]; cbn; [discriminate|]. intros H. inversion H as [|? ? Hv Hq]; subst.
  destruct (Nat.eqb v c) eqn:E.
  - intros [= ->]. destruct st; cbn; lia.
  - intros X. cbn. specialize (IH Hq X). destruct (is_fdone f); cbn; lia.
Qed.

Lemma cw_notify_keys q : map fst (cw_notify q) = map fst q.
Proof.
  induction q as [|[v f] q IH]; cbn; [reflexivity|]. destruct f; cbn; congruence.
Qed.
Lemma cw_notify_length q : length (cw_notify q) = length q.
Proof. rewrite <- (map_length fst), cw_notify_keys. apply map_length. Qed.
(* either nobody was pending (queue unchanged) or one more is notified *)
Lemma cw_notify_cases q :
  (~ has_pending q /\ cw_notify q = q) \/ (has_pending q /\ count_done (cw_notify q) = S (count_done q)).
Proof.
  unfold has_pending, count_done. induction q as [|[v f] q IH]; cbn.
  - left. split; [intros [c []]|reflexivity].
  - destruct f; cbn.
    + right. split; [exists v; tauto|reflexivity].
    + destruct IH as [[N E]|[P E]].
      * left. split; [|now rewrite E]. intros [c [X|X]]; [discriminate|]. apply N. eauto.
      * right. split; [destruct P as [c P]; exists c; tauto|]. now rewrite E.
    + destruct IH as [[N E]|[P E]].
      * left. split; [|now rewrite E]. intros [c [X|X]]; [discriminate|]. apply N. eauto.
      * right. split; [destruct P as [c P]; exists c; tauto|]. assumption.
Qed.
Lemma cw_notify_pending q c : In (c, FPending) (cw_notify q) -> In (c, FPending) q.
Proof.
  induction q as [|[v f] q IH]; cbn; [tauto|]. destruct f; cbn.
  - intros [X|X]; [discriminate|tauto].
  - intros [X|X]; [discriminate|auto].
  - intros [X|X]; [discriminate|auto].
Qed.
Lemma cw_notify_count_ge q : count_done q <= count_done (cw_notify q).
Proof. destruct (cw_notify_cases q) as [[_ E]|[_ E]]; rewrite E; lia. Qed.

Lemma cw_cancel_keys q c : map fst (cw_cancel q c) = map fst q.
Proof.
  induction q as [|[v f] q IH]; cbn; [reflexivity|]. destruct (Nat.eqb v c); cbn; congruence.
Qed.
Lemma cw_cancel_length q c : length (cw_cancel q c) = length q.
Proof. rewrite <- (map_length fst), cw_cancel_keys. apply map_length. Qed.
Lemma cw_cancel_count q c : cw_status q c = Some FPending -> count_done (cw_cancel q c) = count_done q.
Proof.
  unfold count_done. induction q as [|[v f] q IH]; cbn; [reflexivity|].
  destruct (Nat.eqb v c) eqn:E; [intros [= ->]; reflexivity|].
  intros X. cbn. destruct (is_fdone f); cbn; now rewrite IH.
Qed.
Lemma cw_cancel_pending q c u : In (u, FPending) (cw_cancel q c) -> In (u, FPending) q.
Proof.
  induction q as [|[v f] q IH]; cbn; [tauto|]. destruct (Nat.eqb v c); cbn.
  - intros [X|X]; [discriminate|tauto].
  - intros [X|X]; [tauto|auto].
Qed.
Lemma cw_cancel_status q c st : cw_status q c = Some st -> cw_status (cw_cancel q c) c = Some FCancelled.
Proof.
  induction q as [|[v f] q IH]; cbn; [discriminate|].
  destruct (Nat.eqb v c) eqn:E; cbn; rewrite E; [reflexivity|auto].
Qed.
Lemma cw_cancel_status_other q c u : u <> c -> cw_status (cw_cancel q c) u = cw_status q u.
Proof.
  intros N. induction q as [|[v f] q IH]; cbn; [reflexivity|].
  destruct (Nat.eqb v c) eqn:E; cbn.
  - apply Nat.eqb_eq in E; subst v. assert (Nat.eqb c u = false) as -> by (apply Nat.eqb_neq; congruence). reflexivity.
  - destruct (Nat.eqb v u); [reflexivity|assumption].
Qed.

Lemma count_done_app q e : count_done (q ++ [e]) = count_done q + (if is_fdone (snd e) then 1 else 0).
Proof. unfold count_done. rewrite filter_app, app_length. cbn. destruct (is_fdone (snd e)); cbn; lia. Qed.
Lemma count_done_le_length q : count_done q <= length q.
Proof.
  unfold count_done. induction q as [|e q IH]; cbn; [lia|]. destruct (is_fdone (snd e)); cbn; lia.
Qed.

(* ---------- NoDup over ready ++ busy ---------- *)
Lemma NoDup_app_disj {A} (a b : list A) x : NoDup (a ++ b) -> In x a -> In x b -> False.
Proof.
  induction a as [|y a IH]; cbn; [tauto|]. intros H. inversion H as [|? ? Hy Hl]; subst.
  intros [->|Ha] Hb; [apply Hy, in_or_app; now right|eauto].
Qed.
Lemma NoDup_app_l {A} (a b : list A) : NoDup (a ++ b) -> NoDup a.
Proof.
  induction a as [|y a IH]; cbn; [constructor|]. intros H. inversion H as [|? ? Hy Hl]; subst.
  constructor; [|auto]. intros Ha. apply Hy, in_or_app. now left.
Qed.
Lemma NoDup_app_r {A} (a b : list A) : NoDup (a ++ b) -> NoDup b.
Proof. induction a as [|y a IH]; cbn; [tauto|]. intros H. inversion H; subst. auto. Qed.
Lemma NoDup_app_intro {A} (a b : list A) :
  NoDup a -> NoDup b -> (forall x, In x a -> In x b -> False) -> NoDup (a ++ b).
Proof.
  induction a as [|y a IH]; cbn; [tauto|]. intros Ha Hb D. inversion Ha as [|? ? Hy Hl]; subst.
  constructor.
  - intros X. apply in_app_or in X. destruct X as [X|X]; [tauto|]. eapply D; eauto.
  - apply IH; eauto.
Qed.
(* ready.pop() / busy.add(x) *)
Lemma NoDup_move_rb x r b : NoDup (r ++ b) -> In x r -> NoDup (remove1 x r ++ x :: b).
Proof.
  intros H Hx. apply NoDup_app_intro.
  - apply remove1_NoDup. eapply NoDup_app_l; eauto.
  - constructor; [|eapply NoDup_app_r; eauto]. intros Hb. eapply NoDup_app_disj; eauto.
  - intros y Hy [<-|Hb].
    + apply remove1_In_iff in Hy; [tauto|]. eapply NoDup_app_l; eauto.
    + apply remove1_In in Hy. eapply NoDup_app_disj; eauto.
Qed.
(* busy.remove(x) / ready.add(x) *)
Lemma NoDup_move_br x r b : NoDup (r ++ b) -> In x b -> NoDup ((x :: r) ++ remove1 x b).
Proof.
  intros H Hx. apply NoDup_app_intro.
  - constructor; [|eapply NoDup_app_l; eauto]. intros Hr. eapply NoDup_app_disj; eauto.
  - apply remove1_NoDup. eapply NoDup_app_r; eauto.
  - intros y [<-|Hy] Hb.
    + apply remove1_In_iff in Hb; [tauto|]. eapply NoDup_app_r; eauto.
    + apply remove1_In in Hb. eapply NoDup_app_disj; eauto.
Qed.
Lemma NoDup_filter_app {A} (f : A -> bool) (a b : list A) : NoDup (a ++ b) -> NoDup (filter f a ++ b).
Proof.
  intros H. apply NoDup_app_intro.
  - apply NoDup_filter. eapply NoDup_app_l; eauto.
  - eapply NoDup_app_r; eauto.
  - intros x Hx Hb. apply filter_In in Hx. eapply NoDup_app_disj; eauto. tauto.
Qed.
Lemma filter_length_le {A} (f : A -> bool) l : length (filter f l) <= length l.
Proof. induction l as [|x l IH]; cbn; [lia|]. destruct (f x); cbn; lia. Qed.

Lemma cw_status_Some_of_In q c : In c (map fst q) -> exists st, cw_status q c = Some st.
Proof.
  intros H. destruct (cw_status q c) eqn:E; [eauto|]. apply cw_status_None in E. contradiction.
Qed.
Lemma has_pending_app q e : has_pending (q ++ [e]) <-> has_pending q \/ snd e = FPending.
Proof.
  unfold has_pending. split.
  - intros [c H]. apply in_app_or in H. destruct H as [H|[H|[]]]; [left; eauto|right; now subst e].
  - intros [[c H]|H]; [exists c; apply in_or_app; now left|].
    destruct e as [c f]; cbn in H; subst. exists c. apply in_or_app. right. now left.
Qed.
Lemma has_pending_remove q c : has_pending (cw_remove q c) -> has_pending q.
Proof. intros [u H]. exists u. eapply cw_remove_In; eauto. Qed.
Lemma has_pending_notify q : has_pending (cw_notify q) -> has_pending q.
Proof. intros [u H]. exists u. now apply cw_notify_pending. Qed.
Lemma has_pending_cancel q c : has_pending (cw_cancel q c) -> has_pending q.
Proof. intros [u H]. exists u. eapply cw_cancel_pending; eauto. Qed.
