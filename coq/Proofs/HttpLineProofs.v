(* C08/C04 - lemmas below the reader loops: readline on explicit states, the
   header-block loop, and the two int() call sites (chunk size, Content-Length)
   on the digit strings the reference grammar allows. *)
From Coq Require Import List NArith ZArith Bool Arith Lia ZifyBool ZifyNat ZifyN.
From Wpull Require Import Lib.ListX Lib.Conn Model.PyText Model.Decomp Model.Chunked Model.HttpMsg Spec.HttpFraming.
Import ListNotations.
Open Scope N_scope.

(* ------------------------------------------------------------------ *)
(* list_eqb is equality *)
Lemma list_eqb_eq a b : list_eqb a b = true <-> a = b.
Proof.
  revert b; induction a as [|x a IH]; intros [|y b]; cbn [list_eqb]; split; try congruence; try discriminate.
  - intros H. apply andb_true_iff in H. destruct H as [H1 H2]. apply N.eqb_eq in H1. apply IH in H2. congruence.
  - intros [= -> ->]. rewrite N.eqb_refl. cbn. now apply IH.
Qed.

Lemma list_eqb_refl a : list_eqb a a = true.
Proof. now apply list_eqb_eq. Qed.

Lemma list_eqb_neq a b : a <> b -> list_eqb a b = false.
Proof. intros H. destruct (list_eqb a b) eqn:E; [|reflexivity]. apply list_eqb_eq in E. contradiction. Qed.

(* ------------------------------------------------------------------ *)
(* ends_with_lf *)
Lemma ends_with_lf_snoc a : ends_with_lf (a ++ [10]) = true.
Proof.
  induction a as [|x a IH]; [reflexivity|]. cbn [app ends_with_lf].
  destruct (a ++ [10]) eqn:E; [destruct a; discriminate|]. exact IH.
Qed.

Lemma ends_with_lf_no_lf a : no_lf a -> ends_with_lf a = false.
Proof.
  unfold no_lf. induction a as [|x a IH]; intros H; [reflexivity|]. cbn [ends_with_lf].
  destruct a as [|y a'].
  - apply N.eqb_neq. intros ->. apply H. now left.
  - apply IH. intros Hin. apply H. now right.
Qed.

Lemma no_lf_app a b : no_lf (a ++ b) <-> no_lf a /\ no_lf b.
Proof. unfold no_lf. rewrite in_app_iff. tauto. Qed.

(* ------------------------------------------------------------------ *)
(* readline on explicit states *)
Lemma st_readline_line a b e rc cl :
  no_lf a -> N.of_nat (length a) <= 65536 ->
  st_readline (mkSt (mkConn (a ++ 10 :: b) e) rc cl) = (Line (a ++ [10]), mkSt (mkConn b e) rc cl).
Proof.
  intros Hn Hl. unfold st_readline. cbn [cn recd closed].
  rewrite readline_line by (assumption || (unfold line_limit; lia)). reflexivity.
Qed.

Lemma st_readline_eof a e rc cl :
  no_lf a -> N.of_nat (length a) <= 65536 ->
  st_readline (mkSt (mkConn a e) rc cl) = (Line a, mkSt (mkConn [] true) rc cl).
Proof.
  intros Hn Hl. unfold st_readline. cbn [cn recd closed].
  rewrite readline_eof by (assumption || (unfold line_limit; lia)). reflexivity.
Qed.

Lemma eol_shape e : eol e -> exists a, e = a ++ [10] /\ no_lf a /\ (a = [] \/ a = [13]).
Proof.
  intros [->| ->].
  - exists [13]. repeat split; auto. intros [H|[]]. discriminate.
  - exists []. repeat split; auto. intros [].
Qed.

Lemma st_readline_eol e b ef rc cl :
  eol e -> st_readline (mkSt (mkConn (e ++ b) ef) rc cl) = (Line e, mkSt (mkConn b ef) rc cl).
Proof.
  intros He. destruct (eol_shape e He) as (a & -> & Hn & Ha).
  rewrite <- app_assoc. cbn [app]. apply st_readline_line; [assumption|].
  destruct Ha as [-> | ->]; cbn; lia.
Qed.

(* ------------------------------------------------------------------ *)
(* the header-block loop *)
Lemma head_line_not_blank l : head_line l -> is_blank_line l = false.
Proof.
  intros (a & -> & Hn & H1 & H2). unfold is_blank_line.
  rewrite !list_eqb_neq; [reflexivity| |].
  - change [10] with ([] ++ [10]). intros E. apply app_inj_tail in E. destruct E. contradiction.
  - change [13; 10] with ([13] ++ [10]). intros E. apply app_inj_tail in E. destruct E. contradiction.
Qed.

Lemma eol_blank e : eol e -> is_blank_line e = true.
Proof. intros [-> | ->]; reflexivity. Qed.

Lemma head_line_nonempty l : head_line l -> l <> [].
Proof. intros (a & -> & _). destruct a; discriminate. Qed.

Lemma lines_length_le lines : Forall head_line lines -> (length lines <= length (concat lines))%nat.
Proof.
  induction 1 as [|l ls Hl _ IH]; [cbn; lia|]. cbn [concat length]. rewrite app_length.
  apply head_line_nonempty in Hl. destruct l; [congruence|]. cbn [length]. lia.
Qed.

Lemma read_head_ok lines : forall e rest ef rc cl acc nb fuel,
  Forall head_line lines -> eol e -> (acc <> [] \/ lines <> []) ->
  nb + N.of_nat (length (concat lines)) <= 32768 ->
  (length lines < fuel)%nat ->
  read_head fuel acc nb (mkSt (mkConn (concat lines ++ e ++ rest) ef) rc cl) =
  Ok (acc ++ concat lines) (mkSt (mkConn rest ef) (rc ++ concat lines ++ e) cl).
Proof.
  induction lines as [|l ls IH]; intros e rest ef rc cl acc nb fuel Hls He Hne Hnb Hf.
  - destruct fuel as [|f]; [cbn in Hf; lia|]. cbn [concat app read_head].
    rewrite st_readline_eol by assumption. unfold notify; cbn [cn recd closed].
    assert (Hlf : ends_with_lf e = true) by (destruct He as [-> | ->]; reflexivity).
    rewrite Hlf, (eol_blank e He). cbn [negb].
    destruct Hne as [Hne|Hne]; [|congruence]. destruct acc; [congruence|]. now rewrite !app_nil_r.
  - destruct fuel as [|f]; [cbn in Hf; lia|]. cbn [length] in Hf.
    inversion Hls as [|? ? Hl Hls']; subst.
    pose proof (head_line_not_blank l Hl) as Hnb'.
    destruct Hl as (a & -> & Hn & H1 & H2).
    cbn [concat] in *. rewrite app_length in Hnb. rewrite app_length in Hnb. cbn [length] in Hnb.
    cbn [read_head]. rewrite <- !app_assoc. cbn [app].
    rewrite st_readline_line by (assumption || lia).
    unfold notify; cbn [cn recd closed]. rewrite ends_with_lf_snoc, Hnb'. cbn [negb].
    rewrite app_length. cbn [length].
    destruct (N.ltb_spec 32768 (nb + N.of_nat (length a + 1))) as [Hb|Hb]; [lia|].
    rewrite IH; try assumption; try lia.
    + rewrite <- !app_assoc. cbn [app]. reflexivity.
    + left. destruct acc; destruct a; discriminate.
Qed.

(* ------------------------------------------------------------------ *)
(* str/bytes.strip *)
Lemma drop_while_id f s : (forall c, In c s -> f c = false) -> drop_while f s = s.
Proof. destruct s as [|c r]; intros H; [reflexivity|]. cbn [drop_while]. rewrite (H c); [reflexivity|now left]. Qed.

Lemma drop_while_all f a b : (forall c, In c a -> f c = true) -> drop_while f (a ++ b) = drop_while f b.
Proof.
  induction a as [|c a IH]; intros H; [reflexivity|]. cbn [app drop_while].
  rewrite (H c) by now left. apply IH. intros d Hd. apply H. now right.
Qed.

Lemma strip_with_rev f s : strip_with f s = rev (drop_while f (rev (drop_while f s))).
Proof. unfold strip_with, rev'. now rewrite <- !rev_alt. Qed.

Lemma strip_with_id f s : (forall c, In c s -> f c = false) -> strip_with f s = s.
Proof.
  intros H. rewrite strip_with_rev. rewrite (drop_while_id f s H).
  rewrite drop_while_id; [apply rev_involutive|]. intros c Hc. apply H. now apply in_rev.
Qed.

Lemma strip_with_tail f s t :
  (forall c, In c s -> f c = false) -> (forall c, In c t -> f c = true) -> strip_with f (s ++ t) = s.
Proof.
  intros Hs Ht. rewrite strip_with_rev. destruct s as [|c s'].
  - cbn [app]. replace (drop_while f t) with (@nil N); [reflexivity|].
    rewrite <- (app_nil_r t) at 1. now rewrite drop_while_all.
  - cbn [app drop_while]. rewrite (Hs c) by now left.
    change (c :: s' ++ t) with ((c :: s') ++ t).
    rewrite rev_app_distr, drop_while_all by (intros d Hd; apply Ht; now apply in_rev).
    rewrite drop_while_id; [apply rev_involutive|]. intros d Hd. apply Hs. now apply in_rev.
Qed.

(* ------------------------------------------------------------------ *)
(* split_once *)
Lemma split_once_none sep s : ~ In sep s -> split_once sep s = None.
Proof.
  induction s as [|c r IH]; intros H; [reflexivity|]. cbn [split_once].
  destruct (N.eqb_spec c sep) as [->|Hc]; [exfalso; apply H; now left|].
  rewrite IH; [reflexivity|]. intros Hin. apply H. now right.
Qed.

Lemma split_once_some sep a b : ~ In sep a -> split_once sep (a ++ sep :: b) = Some (a, b).
Proof.
  induction a as [|c r IH]; intros H; cbn [app split_once].
  - now rewrite N.eqb_refl.
  - destruct (N.eqb_spec c sep) as [->|Hc]; [exfalso; apply H; now left|].
    rewrite IH; [reflexivity|]. intros Hin. apply H. now right.
Qed.

(* ------------------------------------------------------------------ *)
(* int(): the literal-pattern matches of py_int on a digit string *)
Lemma sign_match_other (s : list N) :
  (forall c, In c s -> c <> 43 /\ c <> 45) ->
  match s with
  | 43 :: r0 => (false, r0)
  | 45 :: r0 => (true, r0)
  | _ => (false, s)
  end = (false, s).
Proof.
  intros H. destruct s as [|d r]; [reflexivity|]. destruct (H d ltac:(now left)) as [H1 H2].
  destruct d as [|p]; [reflexivity|].
  do 6 (destruct p as [p|p|]; try reflexivity); congruence.
Qed.

Lemma prefix_match_other (s : list N) :
  (forall c, In c s -> c <> 120 /\ c <> 88) ->
  match s with
  | 48 :: x :: r => if (x =? 120) || (x =? 88) then match r with 95 :: r' => r' | _ => r end else s
  | _ => s
  end = s.
Proof.
  intros H. destruct s as [|d [|x r]]; [reflexivity| |].
  - destruct d as [|p]; [reflexivity|]. do 6 (destruct p as [p|p|]; try reflexivity).
  - assert (Hx : (x =? 120) || (x =? 88) = false).
    { destruct (H x ltac:(right; now left)). lia. }
    destruct d as [|p]; [reflexivity|]. do 6 (destruct p as [p|p|]; try reflexivity). now rewrite Hx.
Qed.

Lemma hex_digit_facts c x :
  hex_digit_val c = Some x ->
  (c =? 95) = false /\ digit_val c = x /\ x < 16 /\ ascii_space c = false
  /\ c <> 43 /\ c <> 45 /\ c <> 120 /\ c <> 88 /\ c <> 59 /\ c <> 10.
Proof.
  unfold hex_digit_val, digit_val, ascii_space, in_range. intros H.
  assert (Hr : (48 <= c <= 57 /\ x = c - 48) \/ (97 <= c <= 102 /\ x = c - 87) \/ (65 <= c <= 70 /\ x = c - 55)).
  { destruct ((48 <=? c) && (c <=? 57)) eqn:E1; [injection H as <-; lia|].
    destruct ((97 <=? c) && (c <=? 102)) eqn:E2; [injection H as <-; lia|].
    destruct ((65 <=? c) && (c <=? 70)) eqn:E3; [injection H as <-; lia|discriminate]. }
  clear H.
  destruct ((48 <=? c) && (c <=? 57)) eqn:E1;
  [|destruct ((97 <=? c) && (c <=? 122)) eqn:E2; [|destruct ((65 <=? c) && (c <=? 90)) eqn:E3]];
  repeat split; lia.
Qed.

Lemma dec_digit_facts c :
  dec_digit c = true ->
  (c =? 95) = false /\ digit_val c = c - 48 /\ c - 48 < 10 /\ py_space c = false /\ c <> 43 /\ c <> 45.
Proof.
  unfold dec_digit, digit_val, py_space, in_range. intros H. repeat split; try lia.
  destruct (N.leb_spec 48 c), (N.leb_spec c 57); cbn [andb] in *; try discriminate; reflexivity.
Qed.

Lemma scan_hex ds : forall acc nd pu v,
  hex_val acc ds = Some v -> (ds <> [] \/ pu = false) ->
  scan_digits 16 ds pu nd acc = Some (v, nd + N.of_nat (length ds)).
Proof.
  induction ds as [|c r IH]; intros acc nd pu v Hv Hne.
  - cbn in *. destruct Hne as [Hne| ->]; [congruence|]. injection Hv as <-. f_equal. f_equal. lia.
  - cbn [hex_val] in Hv. destruct (hex_digit_val c) as [x|] eqn:Ex; [|discriminate].
    destruct (hex_digit_facts c x Ex) as (H95 & Hdv & Hlt & _).
    cbn [scan_digits]. rewrite H95, Hdv. destruct (N.ltb_spec x 16); [|lia].
    rewrite (IH _ _ _ v Hv) by now right. f_equal. f_equal. cbn [length]. lia.
Qed.

Lemma scan_dec ds : forall acc nd pu v,
  dec_val acc ds = Some v -> (ds <> [] \/ pu = false) ->
  scan_digits 10 ds pu nd acc = Some (v, nd + N.of_nat (length ds)).
Proof.
  induction ds as [|c r IH]; intros acc nd pu v Hv Hne.
  - cbn in *. destruct Hne as [Hne| ->]; [congruence|]. injection Hv as <-. f_equal. f_equal. lia.
  - cbn [dec_val] in Hv. destruct (dec_digit c) eqn:Ex; [|discriminate].
    destruct (dec_digit_facts c Ex) as (H95 & Hdv & Hlt & _).
    cbn [scan_digits]. rewrite H95, Hdv. destruct (N.ltb_spec (c - 48) 10); [|lia].
    rewrite (IH _ _ _ v Hv) by now right. f_equal. f_equal. cbn [length]. lia.
Qed.

Lemma hex_val_all ds : forall acc v, hex_val acc ds = Some v ->
  forall c, In c ds -> exists x, hex_digit_val c = Some x.
Proof.
  induction ds as [|d r IH]; intros acc v Hv c Hc; [destruct Hc|]. cbn [hex_val] in Hv.
  destruct (hex_digit_val d) as [x|] eqn:Ex; [|discriminate].
  destruct Hc as [<-|Hc]; [eauto|]. eapply IH; eauto.
Qed.

Lemma dec_val_all ds : forall acc v, dec_val acc ds = Some v -> forall c, In c ds -> dec_digit c = true.
Proof.
  induction ds as [|d r IH]; intros acc v Hv c Hc; [destruct Hc|]. cbn [dec_val] in Hv.
  destruct (dec_digit d) eqn:Ex; [|discriminate].
  destruct Hc as [<-|Hc]; [assumption|]. eapply IH; eauto.
Qed.

(* int(b'1A', 16) *)
Lemma py_int16_hex ds v : ds <> [] -> hex_val 0 ds = Some v -> py_int16_bytes ds = Some (Z.of_N v).
Proof.
  intros Hne Hv. unfold py_int16_bytes, py_int.
  pose proof (hex_val_all ds 0 v Hv) as Hall.
  rewrite strip_with_id by (intros c Hc; destruct (Hall c Hc) as (x & Hx); now apply hex_digit_facts in Hx).
  rewrite sign_match_other.
  2:{ intros c Hc. destruct (Hall c Hc) as (y & Hy). apply hex_digit_facts in Hy. tauto. }
  cbv beta iota zeta. change (16 =? 16) with true. cbv beta iota zeta.
  rewrite prefix_match_other.
  2:{ intros c Hc. destruct (Hall c Hc) as (y & Hy). apply hex_digit_facts in Hy. tauto. }
  rewrite (scan_hex ds 0 0 true v Hv) by (left; congruence). reflexivity.
Qed.

(* int('123') *)
Lemma py_int10_dec ds v :
  ds <> [] -> dec_val 0 ds = Some v -> N.of_nat (length ds) <= 4300 -> py_int10_str ds = Some (Z.of_N v).
Proof.
  intros Hne Hv Hl. unfold py_int10_str, py_int.
  pose proof (dec_val_all ds 0 v Hv) as Hall.
  rewrite strip_with_id by (intros c Hc; now apply dec_digit_facts, Hall).
  rewrite sign_match_other.
  2:{ intros c Hc. pose proof (dec_digit_facts c (Hall c Hc)). tauto. }
  cbv beta iota zeta. change (10 =? 16) with false. change (10 =? 10) with true. cbv beta iota zeta.
  rewrite (scan_dec ds 0 0 true v Hv) by (left; congruence).
  unfold max_str_digits. destruct (N.ltb_spec 4300 (0 + N.of_nat (length ds))); [lia|]. reflexivity.
Qed.

(* the chunk-size line: int(line.split(b';', 1)[0].strip(), 16) *)
Lemma chunk_line_size size l :
  chunk_line size l -> py_int16_bytes (bytes_strip (before_semicolon l)) = Some (Z.of_N size).
Proof.
  intros (ds & ext & e & -> & Hne & Hv & Hext & Hnl & He & _).
  pose proof (hex_val_all ds 0 size Hv) as Hall.
  assert (Hns : forall c, In c ds -> ascii_space c = false)
    by (intros c Hc; destruct (Hall c Hc) as (x & Hx); now apply hex_digit_facts in Hx).
  assert (H59 : ~ In 59 ds)
    by (intros Hc; destruct (Hall 59 Hc) as (x & Hx); apply hex_digit_facts in Hx; tauto).
  assert (E : bytes_strip (before_semicolon (ds ++ ext ++ e)) = ds).
  { unfold before_semicolon. destruct Hext as [-> | (x & ->)].
    - cbn [app]. rewrite split_once_none.
      + apply strip_with_tail; [assumption|]. intros c Hc. destruct He as [-> | ->]; cbn in Hc; intuition (subst; reflexivity).
      + rewrite in_app_iff. intros [Hc|Hc]; [contradiction|]. destruct He as [-> | ->]; cbn in Hc; intuition discriminate.
    - cbn [app]. rewrite split_once_some by assumption. now apply strip_with_id. }
  rewrite E. now apply py_int16_hex.
Qed.
