(* Witness for the one-worker theorems: the depth-limited site of witness 2 (admission depends on the level recorded at
   first discovery), ONE worker; the producer runs ahead (rows 2 and 3 are checked out before 2 is fetched), the process
   is killed after the visit of 2 has added its link and before it is checked in; the rerun finishes.  The finished table
   is the table of the uninterrupted one-worker crawl. *)
From Coq Require Import List NArith Bool Arith Lia.
From Wpull Require Import Model.Engine Model.EngineSim Proofs.EngineProofs Proofs.EngineRun Proofs.EngineFinal
  Proofs.EngineWitness Proofs.EngineResume Proofs.EngineBfs.
Import ListNotations.
Open Scope N_scope.

Definition w5_seq := run_on w2_site w2_host w2_scope 20 [1] 1 200 [] [] [].
Definition w5_labels : list label :=
  [LRelease; LAddStarts; LCheckout; LStart; LAct 0; LAct 0; LAct 0; LAct 0;
   LCheckout; LCheckout; LStart; LAct 0; LAct 0; LAct 0;
   LCrash].
Definition w5_killed := run_labels w2_site w2_host w2_scope 20 [1] 1 w5_labels init.
Definition w5_rel := get (fire w2_site w2_host w2_scope 20 [1] 1 LRelease (get w5_killed)).
Definition w5_boot := get (fire w2_site w2_host w2_scope 20 [1] 1 LAddStarts w5_rel).
Definition w5_final := seq_run w2_site w2_host w2_scope 20 [1] 1 200 w5_boot.

Lemma one_worker_nonvacuous :
  reach_nc w2_site w2_host w2_scope 20 [1] 1 (get w5_seq) /\ quiescent w2_site w2_host w2_scope 20 [1] 1 (get w5_seq) /\
  reach w2_site w2_host w2_scope 20 [1] 1 (get w5_final) /\ quiescent w2_site w2_host w2_scope 20 [1] 1 (get w5_final) /\
  st_mode (get w5_killed) = Down /\
  map (fun r => (r_url r, r_status r)) (st_tbl (get w5_killed)) = [(1, Done); (2, InProgress); (3, InProgress); (5, Todo)] /\
  map (fun r => (r_url r, r_status r, ri_level (r_info r))) (st_tbl (get w5_final)) =
    [(1, Done, 0); (2, Done, 1); (3, Done, 1); (5, Done, 2); (4, Done, 2); (6, Done, 3)] /\
  length (st_log (get w5_seq)) = 6%nat /\ length (st_log (get w5_final)) = 7%nat.
Proof.
  split; [apply (run_on_reach_nc _ _ _ _ _ _ 200); vm_compute; reflexivity|].
  split; [apply quiescent_of_shape; vm_compute; reflexivity|].
  split.
  { assert (Rk : reach w2_site w2_host w2_scope 20 [1] 1 (get w5_killed)).
    { apply (run_labels_reach _ _ _ _ _ _ w5_labels init); [constructor | vm_compute; reflexivity]. }
    assert (E1 : fire w2_site w2_host w2_scope 20 [1] 1 LRelease (get w5_killed) = Some w5_rel) by (vm_compute; reflexivity).
    assert (E2 : fire w2_site w2_host w2_scope 20 [1] 1 LAddStarts w5_rel = Some w5_boot) by (vm_compute; reflexivity).
    assert (E3 : seq_run w2_site w2_host w2_scope 20 [1] 1 200 w5_boot = Some (get w5_final)) by (vm_compute; reflexivity).
    apply (steps_reach _ _ _ _ _ _ w5_boot); [|apply (seq_run_steps _ _ _ _ _ _ 200%nat); exact E3].
    econstructor; [econstructor; [exact Rk|exists LRelease; exact E1]|exists LAddStarts; exact E2]. }
  split; [apply quiescent_of_shape; vm_compute; reflexivity|].
  repeat split; vm_compute; reflexivity.
Qed.

(* the statements in the form the property files use *)
Lemma one_worker_schedule_independent site host in_scope maxredir starts :
  (forall sp sp', (forall h, In h sp <-> In h sp') -> forall b u i n, in_scope sp b u i n = in_scope sp' b u i n) ->
  forall s1 s2, no_fail site maxredir ->
    reach site host in_scope maxredir starts 1 s1 -> quiescent site host in_scope maxredir starts 1 s1 ->
    reach site host in_scope maxredir starts 1 s2 -> quiescent site host in_scope maxredir starts 1 s2 ->
    infos (st_tbl s1) = infos (st_tbl s2) /\ (forall e, In e (st_log s1) <-> In e (st_log s2)).
Proof.
  intros EXT s1 s2 NF R1 Q1 R2 Q2. split.
  - now apply (one_worker_same_table site host in_scope maxredir starts EXT).
  - now apply (one_worker_same_requests site host in_scope maxredir starts EXT).
Qed.

Lemma one_worker_union site host in_scope maxredir starts :
  (forall sp sp', (forall h, In h sp <-> In h sp') -> forall b u i n, in_scope sp b u i n = in_scope sp' b u i n) ->
  forall s1 s2, no_fail site maxredir ->
    reach_nc site host in_scope maxredir starts 1 s1 -> quiescent site host in_scope maxredir starts 1 s1 ->
    reach site host in_scope maxredir starts 1 s2 -> quiescent site host in_scope maxredir starts 1 s2 ->
    (forall e, In e (st_log s1) <-> In e (st_log s2)) /\ infos (st_tbl s1) = infos (st_tbl s2).
Proof.
  intros EXT s1 s2 NF R1 Q1 R2 Q2.
  pose proof (reach_nc_reach site host in_scope maxredir starts 1 s1 R1) as R1'.
  destruct (one_worker_schedule_independent site host in_scope maxredir starts EXT s1 s2 NF R1' Q1 R2 Q2). auto.
Qed.
