(* C07, MIME clause against an INDEPENDENT field grammar.  [sniff_spec] gives the MIME type in terms of the model of
   NameValueRecord.parse ([fields_parse]).  Here: for a header block whose field lines follow RFC 7230 section 3.2 without
   obsolete folding -

       field-line = field-name ":" OWS field-value OWS [CR] LF

   (name: non-empty, ASCII, no white space, no colon; value: no CR/LF, not beginning or ending with white space; OWS: SP / HT)
   - [fields_parse] followed by [hget] returns the value of the FIRST line whose name is "Content-Type" up to ASCII letter case,
   and nothing when there is no such line.  No part of the statement mentions the parser's own functions. *)
From Coq Require Import List NArith Bool Lia Arith ZifyBool ZifyNat ZifyN.
From Wpull Require Import Lib.Decimal Lib.FsModel Model.Warc Model.WarcText Proofs.WarcSniff.
Import ListNotations.
Open Scope N_scope.
Open Scope bool_scope.

(* ---------- the grammar ---------- *)
Record fline := { f_name : bytes; f_ows1 : bytes; f_value : bytes; f_ows2 : bytes; f_cr : bool }.

Definition white (c : N) : bool := (c =? 32) || (c =? 9).
Definition name_char (c : N) : bool := (33 <=? c) && (c <=? 126) && negb (c =? 58).
Definition value_char (c : N) : bool := negb (c =? 10) && negb (c =? 13).
(* white space in the sense of the trimming a reader applies: str.isspace on latin-1 *)
Definition trimmed (v : bytes) : Prop :=
  match v with [] => True | c :: _ => py_space c = false end /\
  match rev v with [] => True | c :: _ => py_space c = false end.

Definition fline_ok (f : fline) : Prop :=
  f_name f <> [] /\ forallb name_char (f_name f) = true /\
  forallb white (f_ows1 f) = true /\ forallb white (f_ows2 f) = true /\
  forallb value_char (f_value f) = true /\ trimmed (f_value f).

Definition fl_content (f : fline) : bytes := f_name f ++ 58 :: f_ows1 f ++ f_value f ++ f_ows2 f.
Definition fl_raw (f : fline) : bytes := fl_content f ++ (if f_cr f then [13] else []).

(* case-insensitive comparison of ASCII names *)
Definition lower (c : N) : N := if (65 <=? c) && (c <=? 90) then c + 32 else c.
Definition ci_eqb (a b : bytes) : bool := list_eqb (map lower a) (map lower b).

(* the value of the first line named [k] *)
Fixpoint first_value (k : bytes) (fs : list fline) : option bytes :=
  match fs with
  | [] => None
  | f :: r => if ci_eqb (f_name f) k then Some (f_value f) else first_value k r
  end.

(* ---------- list_eqb ---------- *)
Lemma list_eqb_eq a b : list_eqb a b = true <-> a = b.
Proof.
  revert b; induction a as [|x a IH]; intros [|y b]; cbn; split; intro H; try congruence; try discriminate.
  - apply andb_true_iff in H as [H1 H2]. apply N.eqb_eq in H1. apply IH in H2. congruence.
  - inversion H; subst. rewrite N.eqb_refl. cbn. apply IH. reflexivity.
Qed.
Lemma list_eqb_iff a b c d : (a = b <-> c = d) -> list_eqb a b = list_eqb c d.
Proof.
  intro H. destruct (list_eqb a b) eqn:E1, (list_eqb c d) eqn:E2; auto.
  - apply list_eqb_eq in E1. apply H in E1. apply list_eqb_eq in E1. congruence.
  - apply list_eqb_eq in E2. apply H in E2. apply list_eqb_eq in E2. congruence.
Qed.

(* ---------- trimming ---------- *)
Lemma rev'_rev {A} (l : list A) : rev' l = rev l.
Proof. unfold rev'. rewrite <- rev_alt. reflexivity. Qed.
Lemma drop_while_all f a b : forallb f a = true -> drop_while f (a ++ b) = drop_while f b.
Proof. induction a as [|c a IH]; cbn; intro H; [reflexivity|]. apply andb_true_iff in H as [H1 H2]. rewrite H1. auto. Qed.
Lemma forallb_rev {A} (f : A -> bool) l : forallb f l = true -> forallb f (rev l) = true.
Proof. rewrite !forallb_forall. intros H x Hx. apply H. apply in_rev. exact Hx. Qed.

Definition trimmed_with (f : N -> bool) (v : bytes) : Prop :=
  match v with [] => True | c :: _ => f c = false end /\ match rev v with [] => True | c :: _ => f c = false end.

Lemma strip_spec f a v b :
  forallb f a = true -> forallb f b = true -> trimmed_with f v -> strip_with f (a ++ v ++ b) = v.
Proof.
  intros Ha Hb [H1 H2]. unfold strip_with. rewrite !rev'_rev. rewrite (drop_while_all f a _ Ha).
  destruct v as [|c v].
  - cbn [app]. replace (drop_while f b) with (drop_while f (b ++ [])) by (rewrite app_nil_r; reflexivity).
    rewrite (drop_while_all f b [] Hb). reflexivity.
  - cbn [app drop_while]. rewrite H1. change (c :: v ++ b) with ((c :: v) ++ b). rewrite rev_app_distr.
    rewrite (drop_while_all f (rev b) _ (forallb_rev f b Hb)).
    destruct (rev (c :: v)) as [|d t] eqn:E.
    + apply (f_equal (@length _)) in E. rewrite rev_length in E. discriminate.
    + cbn [drop_while]. rewrite H2. rewrite <- E. apply rev_involutive.
Qed.

Lemma white_space a : forallb white a = true -> forallb py_space a = true.
Proof.
  rewrite !forallb_forall. intros H x Hx. specialize (H x Hx). unfold white in H. unfold py_space, in_range. lia.
Qed.
Lemma name_nospace a : forallb name_char a = true -> forall c, In c a -> py_space c = false.
Proof.
  rewrite forallb_forall. intros H c Hc. specialize (H c Hc). unfold name_char in H. unfold py_space, in_range. lia.
Qed.

(* what is left of a line after trimming: the name, the colon and [rest]; [rest] trims to the value *)
Definition rest_of (f : fline) : bytes := match f_value f with [] => [] | _ => f_ows1 f ++ f_value f end.

Lemma rev_head_app (v : bytes) c t pre : rev v = c :: t -> rev (pre ++ v) = c :: t ++ rev pre.
Proof. intro E. rewrite rev_app_distr, E. reflexivity. Qed.

Lemma strip_spec_eq f s a v b :
  s = a ++ v ++ b -> forallb f a = true -> forallb f b = true -> trimmed_with f v -> strip_with f s = v.
Proof. intros ->. apply strip_spec. Qed.

Lemma strip_content f : fline_ok f -> py_strip (fl_content f) = f_name f ++ 58 :: rest_of f.
Proof.
  intros (Hn & Hnc & H1 & H2 & Hv & Ht1 & Ht2). unfold fl_content, rest_of, py_strip.
  assert (Sn : match f_name f with [] => True | c :: _ => py_space c = false end).
  { destruct (f_name f) as [|n0 nm] eqn:En; [exact I|]. apply (name_nospace (n0 :: nm)); [exact Hnc | left; reflexivity]. }
  destruct (f_value f) as [|v0 vs] eqn:Ev.
  - apply (strip_spec_eq _ _ [] (f_name f ++ [58]) (f_ows1 f ++ f_ows2 f)).
    + cbn [app]. rewrite <- app_assoc. reflexivity.
    + reflexivity.
    + rewrite forallb_app. rewrite (white_space _ H1), (white_space _ H2). reflexivity.
    + split.
      * destruct (f_name f); [congruence | exact Sn].
      * rewrite rev_app_distr. cbn. reflexivity.
  - apply (strip_spec_eq _ _ [] (f_name f ++ 58 :: f_ows1 f ++ v0 :: vs) (f_ows2 f)).
    + cbn [app]. rewrite <- !app_assoc. cbn [app]. rewrite <- app_assoc. reflexivity.
    + reflexivity.
    + exact (white_space _ H2).
    + split.
      * destruct (f_name f); [congruence | exact Sn].
      * destruct (rev (v0 :: vs)) as [|d t] eqn:E.
        { apply (f_equal (@length _)) in E. rewrite rev_length in E. discriminate. }
        replace (f_name f ++ 58 :: f_ows1 f ++ v0 :: vs) with ((f_name f ++ 58 :: f_ows1 f) ++ v0 :: vs)
          by (rewrite <- app_assoc; reflexivity).
        rewrite (rev_head_app _ d t _ E). exact Ht2.
Qed.

Lemma strip_rest f : fline_ok f -> py_strip (rest_of f) = f_value f.
Proof.
  intros (Hn & Hnc & H1 & H2 & Hv & Ht). unfold rest_of, py_strip.
  destruct (f_value f) as [|v0 vs] eqn:Ev; [reflexivity|].
  replace (f_ows1 f ++ v0 :: vs) with (f_ows1 f ++ (v0 :: vs) ++ []) by (rewrite app_nil_r; reflexivity).
  apply strip_spec; [exact (white_space _ H1) | reflexivity | exact Ht].
Qed.

Lemma strip_name f : fline_ok f -> py_strip (f_name f) = f_name f.
Proof.
  intros (Hn & Hnc & _). unfold py_strip.
  replace (f_name f) with ([] ++ f_name f ++ []) at 1 by (rewrite app_nil_r; reflexivity).
  apply strip_spec; try reflexivity.
  pose proof (name_nospace _ Hnc) as S. split.
  - destruct (f_name f) as [|c r]; [exact I|]. apply S. left; reflexivity.
  - destruct (rev (f_name f)) as [|c r] eqn:E; [exact I|]. apply S. apply in_rev. rewrite E. left; reflexivity.
Qed.

(* ---------- line splitting ---------- *)
Definition nobrk (l : bytes) : bool := forallb (fun c => negb (crlf_linebreak c)) l.

Lemma splitlines_lf l rest : nobrk l = true -> splitlines (l ++ 10 :: rest) = l :: splitlines rest.
Proof.
  unfold splitlines. induction l as [|c l IH]; intro H.
  - reflexivity.
  - cbn in H. apply andb_true_iff in H as [Hc Hl]. cbn [app splitlines_with].
    destruct (crlf_linebreak c); [discriminate|]. rewrite (IH Hl). reflexivity.
Qed.
Lemma splitlines_crlf l rest : nobrk l = true -> splitlines (l ++ 13 :: 10 :: rest) = l :: splitlines rest.
Proof.
  unfold splitlines. induction l as [|c l IH]; intro H.
  - reflexivity.
  - cbn in H. apply andb_true_iff in H as [Hc Hl]. cbn [app splitlines_with].
    destruct (crlf_linebreak c); [discriminate|]. rewrite (IH Hl). reflexivity.
Qed.

Lemma nobrk_app a b : nobrk (a ++ b) = nobrk a && nobrk b.
Proof. apply forallb_app. Qed.
Lemma nobrk_white a : forallb white a = true -> nobrk a = true.
Proof.
  unfold nobrk. rewrite !forallb_forall. intros H x Hx. specialize (H x Hx). unfold white in H. unfold crlf_linebreak. lia.
Qed.
Lemma nobrk_name a : forallb name_char a = true -> nobrk a = true.
Proof.
  unfold nobrk. rewrite !forallb_forall. intros H x Hx. specialize (H x Hx). unfold name_char in H. unfold crlf_linebreak. lia.
Qed.
Lemma nobrk_value a : forallb value_char a = true -> nobrk a = true.
Proof.
  unfold nobrk. rewrite !forallb_forall. intros H x Hx. specialize (H x Hx). unfold value_char in H. unfold crlf_linebreak. lia.
Qed.

Lemma nobrk_content f : fline_ok f -> nobrk (fl_content f) = true.
Proof.
  intros (Hn & Hnc & H1 & H2 & Hv & Ht). unfold fl_content.
  rewrite nobrk_app. change (58 :: f_ows1 f ++ f_value f ++ f_ows2 f) with ([58] ++ f_ows1 f ++ f_value f ++ f_ows2 f).
  rewrite !nobrk_app. rewrite (nobrk_name _ Hnc), (nobrk_white _ H1), (nobrk_white _ H2), (nobrk_value _ Hv). reflexivity.
Qed.
Lemma nobrk_stripped f : fline_ok f -> nobrk (f_name f ++ 58 :: rest_of f) = true.
Proof.
  intros (Hn & Hnc & H1 & H2 & Hv & Ht). unfold rest_of.
  rewrite nobrk_app. rewrite (nobrk_name _ Hnc). cbn [andb].
  destruct (f_value f) as [|v0 vs] eqn:Ev; [reflexivity|].
  change (58 :: f_ows1 f ++ v0 :: vs) with ([58] ++ f_ows1 f ++ v0 :: vs). rewrite !nobrk_app.
  rewrite (nobrk_white _ H1), (nobrk_value _ Hv). reflexivity.
Qed.

Lemma split_header_lines (fs : list fline) b :
  Forall fline_ok fs -> blank_ok b ->
  splitlines (lf_lines (map fl_raw fs) ++ b) = map fl_content fs ++ [[]].
Proof.
  intros Hf Hb. induction Hf as [|f fs Hok _ IH].
  - destruct Hb as [-> | ->]; reflexivity.
  - unfold lf_lines in *. cbn [map concat]. unfold fl_raw at 1. rewrite <- !app_assoc.
    destruct (f_cr f); cbn [app].
    + rewrite (splitlines_crlf _ _ (nobrk_content f Hok)). rewrite IH. reflexivity.
    + rewrite (splitlines_lf _ _ (nobrk_content f Hok)). rewrite IH. reflexivity.
Qed.

(* ---------- unfolding: no line begins with white space, so the lines are only trimmed and joined ---------- *)
Definition stripped (f : fline) : bytes := f_name f ++ 58 :: rest_of f.

Lemma unfold_false (fs : list fline) :
  Forall fline_ok fs ->
  unfold_from false (map fl_content fs ++ [[]]) = concat (map (fun f => [13; 10] ++ stripped f) fs) ++ [13; 10].
Proof.
  intro Hf. induction Hf as [|f fs Hok _ IH]; [reflexivity|].
  cbn [map app unfold_from concat]. rewrite IH. rewrite (strip_content f Hok).
  destruct Hok as (Hn & Hnc & _).
  unfold fl_content. destruct (f_name f) as [|n0 nm] eqn:En; [congruence|].
  cbn [app]. assert (W : (n0 =? 32) || (n0 =? 9) = false).
  { rewrite forallb_forall in Hnc. specialize (Hnc n0 (or_introl eq_refl)). unfold name_char in Hnc. lia. }
  rewrite W. unfold stripped. rewrite En. cbn [app]. rewrite <- !app_assoc. reflexivity.
Qed.

Definition joined (fs : list fline) : bytes := concat (map (fun f => stripped f ++ [13; 10]) fs).

Lemma rejoin f (fs : list fline) :
  stripped f ++ concat (map (fun g => [13; 10] ++ stripped g) fs) ++ [13; 10] = joined (f :: fs).
Proof.
  revert f. induction fs as [|g fs IH]; intro f.
  - unfold joined. cbn [map concat app]. rewrite app_nil_r. reflexivity.
  - cbn [map concat]. rewrite <- !app_assoc. rewrite (IH g). unfold joined. cbn [map concat].
    rewrite <- !app_assoc. reflexivity.
Qed.

Lemma unfold_header (fs : list fline) :
  Forall fline_ok fs -> unfold_from true (map fl_content fs ++ [[]]) ++ [13; 10] = joined fs ++ [13; 10].
Proof.
  intro Hf. destruct Hf as [|f fs Hok Hr]; [reflexivity|].
  cbn [map app]. change (unfold_from true (fl_content f :: map fl_content fs ++ [[]]))
    with ((match fl_content f with
           | c :: _ => if (c =? 32) || (c =? 9) then [32] else []
           | [] => []
           end) ++ py_strip (fl_content f) ++ unfold_from false (map fl_content fs ++ [[]])).
  rewrite (unfold_false fs Hr). rewrite (strip_content f Hok).
  assert (E : match fl_content f with c :: _ => if (c =? 32) || (c =? 9) then [32] else [] | [] => [] end = @nil N).
  { destruct Hok as (Hn & Hnc & _). unfold fl_content. destruct (f_name f) as [|n0 nm] eqn:En; [congruence|]. cbn [app].
    rewrite forallb_forall in Hnc. specialize (Hnc n0 (or_introl eq_refl)). unfold name_char in Hnc.
    destruct ((n0 =? 32) || (n0 =? 9)) eqn:W; [lia | reflexivity]. }
  rewrite E. cbn [app]. fold (stripped f). rewrite <- (rejoin f fs). rewrite <- !app_assoc. reflexivity.
Qed.

Lemma split_joined (fs : list fline) :
  Forall fline_ok fs -> splitlines (joined fs ++ [13; 10]) = map stripped fs ++ [[]].
Proof.
  intro Hf. induction Hf as [|f fs Hok _ IH]; [reflexivity|].
  unfold joined in *. cbn [map concat]. rewrite <- !app_assoc. cbn [app].
  rewrite (splitlines_crlf _ _ (nobrk_stripped f Hok)). rewrite IH. reflexivity.
Qed.

(* ---------- the parser on such a header is a fold over the lines ---------- *)
Lemma split_once_name nm rest : forallb name_char nm = true -> split_once 58 (nm ++ 58 :: rest) = Some (nm, rest).
Proof.
  induction nm as [|c nm IH]; intro H; [reflexivity|].
  cbn in H. apply andb_true_iff in H as [Hc Hn]. cbn [app split_once].
  assert (c =? 58 = false) as -> by (unfold name_char in Hc; lia). rewrite (IH Hn). reflexivity.
Qed.

Lemma parse_stripped (fs : list fline) m :
  Forall fline_ok fs ->
  parse_lines (map stripped fs ++ [[]]) m = fold_left (fun m f => fadd (f_name f) (f_value f) m) fs m.
Proof.
  intro Hf. revert m. induction Hf as [|f fs Hok _ IH]; intro m; [reflexivity|].
  cbn [map app fold_left parse_lines]. unfold stripped at 1.
  pose proof Hok as (Hn & Hnc & _).
  destruct (f_name f ++ 58 :: rest_of f) as [|x0 xs] eqn:E.
  - destruct (f_name f); discriminate.
  - unfold stripped. rewrite (split_once_name _ _ Hnc). rewrite (strip_name f Hok), (strip_rest f Hok). apply IH.
Qed.

Theorem fields_parse_header (fs : list fline) b :
  Forall fline_ok fs -> blank_ok b ->
  fields_parse (lf_lines (map fl_raw fs) ++ b) = fold_left (fun m f => fadd (f_name f) (f_value f) m) fs [].
Proof.
  intros Hf Hb. unfold fields_parse, unfold_lines.
  rewrite (split_header_lines fs b Hf Hb). rewrite (unfold_header fs Hf). rewrite (split_joined fs Hf).
  apply parse_stripped. exact Hf.
Qed.

(* ---------- the ordered multimap: get after a fold of adds ---------- *)
Definition wf (m : hfields) : Prop := Forall (fun kv => snd kv <> []) m.

Lemma fadd_norm_wf k v m : wf m -> wf (fadd_norm k v m).
Proof.
  intro H. induction H as [|[k' vs] m Hk Hm IH]; cbn [fadd_norm].
  - constructor; [cbn; discriminate | constructor].
  - destruct (list_eqb k k').
    + constructor; [|exact Hm]. cbn. destruct vs; cbn; discriminate.
    + constructor; [exact Hk | exact IH].
Qed.

Lemma hget_fadd_norm k k' v m :
  wf m ->
  hget_norm k (fadd_norm k' v m) =
  match hget_norm k m with Some x => Some x | None => if list_eqb k k' then Some v else None end.
Proof.
  intro H. induction H as [|[k2 vs] m Hk _ IH]; cbn [fadd_norm hget_norm].
  - destruct (list_eqb k k'); reflexivity.
  - cbn in Hk. destruct (list_eqb k' k2) eqn:E2.
    + apply list_eqb_eq in E2. subst k2. cbn [hget_norm]. destruct (list_eqb k k') eqn:E1.
      * destruct vs; [congruence | reflexivity].
      * destruct (hget_norm k m); reflexivity.
    + cbn [hget_norm]. destruct (list_eqb k k2) eqn:E1.
      * destruct vs; [congruence | reflexivity].
      * exact IH.
Qed.

Lemma hget_fold k (fs : list fline) m :
  wf m ->
  hget_norm k (fold_left (fun m f => fadd (f_name f) (f_value f) m) fs m) =
  match hget_norm k m with
  | Some x => Some x
  | None => (fix first (l : list fline) := match l with
                                           | [] => None
                                           | f :: r => if list_eqb k (normalize_name (f_name f)) then Some (f_value f) else first r
                                           end) fs
  end.
Proof.
  revert m. induction fs as [|f fs IH]; intros m Hm; cbn [fold_left].
  - destruct (hget_norm k m); reflexivity.
  - rewrite IH by (apply fadd_norm_wf; exact Hm). unfold fadd. rewrite (hget_fadd_norm _ _ _ _ Hm).
    destruct (hget_norm k m); [reflexivity|]. destruct (list_eqb k (normalize_name (f_name f))); reflexivity.
Qed.

(* ---------- name normalisation (str.title) identifies exactly the ASCII names equal up to letter case ---------- *)
Definition ascii (s : bytes) : Prop := forall c, In c s -> c < 128.

Definition char_facts (c : N) : bool :=
  (Bool.eqb (is_cased (lower c)) (is_cased c))
  && list_eqb (to_lower (lower c)) (to_lower c) && list_eqb (to_title (lower c)) (to_title c)
  && list_eqb (map lower (to_lower c)) [lower c] && list_eqb (map lower (to_title c)) [lower c].

Lemma char_facts_all : forallb char_facts (map N.of_nat (seq 0 128)) = true.
Proof. vm_compute. reflexivity. Qed.

Lemma char_facts_ok c : c < 128 -> char_facts c = true.
Proof.
  intro H. pose proof char_facts_all as A. rewrite forallb_forall in A. apply A.
  replace c with (N.of_nat (N.to_nat c)) by apply N2Nat.id. apply in_map. apply in_seq. lia.
Qed.

Lemma char_facts_split c : c < 128 ->
  is_cased (lower c) = is_cased c /\ to_lower (lower c) = to_lower c /\ to_title (lower c) = to_title c /\
  map lower (to_lower c) = [lower c] /\ map lower (to_title c) = [lower c].
Proof.
  intro H. pose proof (char_facts_ok c H) as F. unfold char_facts in F.
  repeat (apply andb_true_iff in F as [F ?]).
  repeat match goal with X : list_eqb _ _ = true |- _ => apply list_eqb_eq in X end.
  apply Bool.eqb_prop in F. repeat split; assumption.
Qed.

Lemma title_lower p s : ascii s -> title_from p (map lower s) = title_from p s.
Proof.
  revert p. induction s as [|c s IH]; intros p H; [reflexivity|].
  cbn [map title_from]. destruct (char_facts_split c (H c (or_introl eq_refl))) as (E1 & E2 & E3 & _).
  rewrite E1, E2, E3. rewrite IH; [reflexivity|]. intros x Hx. apply H. right. exact Hx.
Qed.

Lemma lower_title p s : ascii s -> map lower (title_from p s) = map lower s.
Proof.
  revert p. induction s as [|c s IH]; intros p H; [reflexivity|].
  cbn [map title_from]. destruct (char_facts_split c (H c (or_introl eq_refl))) as (_ & _ & _ & E4 & E5).
  rewrite map_app. rewrite IH by (intros x Hx; apply H; right; exact Hx).
  destruct p; [rewrite E4 | rewrite E5]; reflexivity.
Qed.

Lemma title_ci a b : ascii a -> ascii b -> (normalize_name a = normalize_name b <-> map lower a = map lower b).
Proof.
  intros Ha Hb. unfold normalize_name, py_title. split; intro H.
  - rewrite <- (lower_title false a Ha), <- (lower_title false b Hb). rewrite H. reflexivity.
  - rewrite <- (title_lower false a Ha), <- (title_lower false b Hb). rewrite H. reflexivity.
Qed.

Lemma name_ascii f : fline_ok f -> ascii (f_name f).
Proof.
  intros (_ & Hnc & _) c Hc. rewrite forallb_forall in Hnc. specialize (Hnc c Hc). unfold name_char in Hnc. lia.
Qed.

(* ---------- the statement ---------- *)
Theorem header_get (fs : list fline) b (k : bytes) :
  Forall fline_ok fs -> blank_ok b -> ascii k ->
  hget k (fields_parse (lf_lines (map fl_raw fs) ++ b)) = first_value k fs.
Proof.
  intros Hf Hb Hk. rewrite (fields_parse_header fs b Hf Hb). unfold hget.
  rewrite hget_fold by constructor. cbn [hget_norm].
  induction Hf as [|f fs Hok _ IH]; [reflexivity|].
  cbn [first_value]. unfold ci_eqb.
  rewrite (list_eqb_iff (normalize_name k) (normalize_name (f_name f)) (map lower (f_name f)) (map lower k)).
  - destruct (list_eqb (map lower (f_name f)) (map lower k)); [reflexivity | exact IH].
  - pose proof (title_ci k (f_name f) Hk (name_ascii f Hok)) as T. split; intro H.
    + symmetry. apply T. exact H.
    + apply T. symmetry. exact H.
Qed.

Lemma raw_line_ok f : fline_ok f -> line_ok (fl_raw f).
Proof.
  intros Hok. pose proof (nobrk_content f Hok) as Nb. pose proof Hok as (Hn & _).
  unfold line_ok, fl_raw. repeat split.
  - unfold nolf. rewrite forallb_app. apply andb_true_iff. split.
    + unfold nobrk in Nb. rewrite forallb_forall in *. intros x Hx. specialize (Nb x Hx). unfold crlf_linebreak in Nb. lia.
    + destruct (f_cr f); reflexivity.
  - unfold fl_content. destruct (f_name f); [congruence|]. cbn. discriminate.
  - unfold fl_content. destruct (f_name f) as [|n0 nm]; [congruence|]. cbn [app]. destruct nm; cbn; discriminate.
Qed.

(* the MIME clause of C07 with the header fields read by the independent grammar *)
Theorem sniff_spec_grammar (pres : list (bytes * list bytes * bytes)) sl (fs : list fline) b code body :
  Forall interim_block pres -> line_ok sl -> Forall fline_ok fs -> blank_ok b ->
  parse_status_code sl = Some code -> is_interim code = false ->
  sniff (concat (map block_bytes pres) ++ hblock sl (map fl_raw fs) b ++ body)
  = (match parse_mimetype (match first_value s_content_type fs with Some v => v | None => [] end) with
     | Some m => m | None => dash end,
     dec code).
Proof.
  intros Hp Hsl Hf Hb Hc Hi.
  rewrite (sniff_spec pres sl (map fl_raw fs) b code body Hp); auto.
  - rewrite (header_get fs b s_content_type Hf Hb); [reflexivity|].
    intros c Hc'. vm_compute in Hc'. repeat (destruct Hc' as [<- | Hc']; [reflexivity|]). destruct Hc'.
  - constructor; [exact Hsl|]. rewrite Forall_forall. intros l Hl. apply in_map_iff in Hl as (f & <- & Hin).
    apply raw_line_ok. rewrite Forall_forall in Hf. apply Hf. exact Hin.
Qed.
