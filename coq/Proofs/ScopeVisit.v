(* Proofs/ScopeVisit.v - the visit model (Model/Visit.v) driven by the TRANSLATED filter code:
   every request of a visit is for a URL inside the configured scope (C02), and the retry rule
   assumed by the per-URL bound (C18) is what the translated TriesFilter gives. *)
From Coq Require Import List NArith ZArith Bool Lia.
From Wpull Require Import Lib.MiniPy Spec.Scope Gen.UrlFilter Model.Visit Proofs.FilterProofs Proofs.VisitProofs.
Import ListNotations.
Open Scope bool_scope.

Section ScopeVisit.
  Variable L : lib.
  Variable a : args.
  Variable hs : list str.                      (* the hostnames relation read at start-up *)
  Variable m : nat.                            (* interpreter fuel *)
  Hypothesis Hm : (m >= 5)%nat.

  (* the record of the item being visited, except its try_count *)
  Variable lvl : Z.
  Variable inl : option Z.
  Variable par root : option str.
  Definition rec_of (tc : Z) : urlrec :=
    {| r_level := lvl; r_inline := inl; r_tries := tc; r_parent := par; r_root := root |}.

  (* FetchRule.consult_filters of the filters built from the options, as the visit calls it:
     url_info = URLInfo.parse(request URL), record of the item, is_redirect flag *)
  Definition consult_of (tc : Z) (u : vstr) (w : bool) : bool :=
    match run (mk_oracles L) filter_prog m C_FetchRule M_consult_filters
              [rule (full_filters a hs); pv_urlinfo (l_parse L u); pv_record (rec_of tc); PBool w] with
    | Ok (PTuple (PBool b :: _)) => b
    | _ => false
    end.

  Lemma consult_of_spec : forall tc u w,
    consult_of tc u w = if w then in_scope_but_span L a (l_parse L u) (rec_of tc)
                        else in_scope L a hs (l_parse L u) (rec_of tc).
  Proof.
    intros tc u w. unfold consult_of.
    destruct (consult_built_meets_scope L a hs (l_parse L u) (rec_of tc) (PBool w) m Hm) as (reason & info & ->).
    destruct w; reflexivity.
  Qed.

  (* the retry limit is part of every verdict, waived or not *)
  Lemma in_scope_but_span_tries : forall u r, in_scope_but_span L a u r = true -> tries_spec (a_tries a) r = true.
  Proof.
    intros u r H. unfold in_scope_but_span in H.
    repeat (apply andb_true_iff in H as [H ?]). assumption.
  Qed.

  Theorem tries_rule_from_filters : (a_tries a > 0)%Z ->
    forall tc u w, (a_tries a <= tc)%Z -> consult_of tc u w = false.
  Proof.
    intros Ht tc u w Hle. rewrite consult_of_spec.
    assert (Hs : tries_spec (a_tries a) (rec_of tc) = false).
    { unfold tries_spec, rec_of. cbn [r_tries]. destruct (Z.eqb_spec (a_tries a) 0); [lia|].
      apply Z.ltb_ge. exact Hle. }
    destruct w.
    - destruct (in_scope_but_span L a (l_parse L u) (rec_of tc)) eqn:E; [|reflexivity].
      rewrite (in_scope_but_span_tries _ _ E) in Hs. discriminate.
    - unfold in_scope. destruct (in_scope_but_span L a (l_parse L u) (rec_of tc)) eqn:E; [|reflexivity].
      rewrite (in_scope_but_span_tries _ _ E) in Hs. discriminate.
  Qed.

  Variable urljoin : vstr -> vstr -> option vstr.
  Variable parseable : vstr -> bool.
  Variable cfg : config.
  Variable robots : vstr -> robots_result.
  Variable server : list req -> sresp.

  (* C02: every request of a visit is for a URL in scope *)
  Theorem every_request_in_scope : forall tc fuel u ev r,
    process_item urljoin parseable cfg (consult_of tc) robots server fuel u = (ev, r) ->
    forall pre k rq post, ev = pre ++ ERequest k rq :: post ->
      in_scope L a hs (l_parse L (rq_url rq)) (rec_of tc) = true \/
      (c_strong_redirects cfg = true /\ k = KFollowup /\
       in_scope_but_span L a (l_parse L (rq_url rq)) (rec_of tc) = true).
  Proof.
    intros tc fuel u ev r H pre k rq post E.
    destruct (every_request_checked _ _ _ _ _ _ _ _ _ _ H) as (Hcov & _).
    destruct (Hcov _ _ _ _ E) as (pre' & w & rb & _ & _ & Hc & Hw).
    rewrite consult_of_spec in Hc. destruct w.
    - right. destruct (Hw eq_refl). auto.
    - left. exact Hc.
  Qed.
End ScopeVisit.
