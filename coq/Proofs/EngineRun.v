(* Crawl engine, part 2: executions in which no fetch fails.
   Derivation of every row (C01_complete), termination and final states
   (C01_terminates_final, C03_resume_terminates_final). *)
From Coq Require Import List NArith Bool Arith Lia ZifyBool ZifyNat ZifyN.
From Wpull Require Import Model.Engine Proofs.EngineProofs.
Import ListNotations.
Open Scope N_scope.

Section Run.
  Variable site : url -> page.
  Variable host : url -> N.
  Variable in_scope : list N -> bool -> url -> rinfo -> N -> bool.
  Variable maxredir : nat.
  Variable starts : list url.
  Variable conc : nat.
  Hypothesis scope_ext : forall sp sp', (forall h, In h sp <-> In h sp') ->
    forall b u i n, in_scope sp b u i n = in_scope sp' b u i n.

  Notation scope := (in_scope (sp0 host starts)).
  Notation plan := (Engine.plan site scope maxredir).
  Notation kids := (Engine.kids site scope maxredir).
  Notation fire := (Engine.fire site host in_scope maxredir starts conc).
  Notation step := (Engine.step site host in_scope maxredir starts conc).
  Notation step_nc := (Engine.step_nc site host in_scope maxredir starts conc).
  Notation reach := (Engine.reach site host in_scope maxredir starts conc).
  Notation reach_nc := (Engine.reach_nc site host in_scope maxredir starts conc).
  Notation quiescent := (Engine.quiescent site host in_scope maxredir starts conc).
  Notation Inv := (Inv site host in_scope maxredir starts).
  Notation InvH := (InvH host starts).
  Notation item_ok := (item_ok site host in_scope maxredir starts).

  Lemma step_nc_step s s' : step_nc s s' -> step s s'.
  Proof. intros [l [_ H]]. now exists l. Qed.

  Lemma reach_nc_reach s : reach_nc s -> reach s.
  Proof. induction 1; [constructor | econstructor; eauto using step_nc_step]. Qed.

  (* ---------------- facts about plans ---------------- *)
  (* "no fetch fails" *)
  Definition no_fail : Prop := forall u, resolves site maxredir u = true.

  Lemma fetch_no_error fuel : forall p tries u ini,
    resolves site fuel u = true -> ~ In (ACheckIn Error) (fetch site scope fuel p tries u ini).
  Proof.
    induction fuel as [|f IH]; intros p tries u ini R; cbn [fetch resolves] in *;
      destruct (site u) as [code links|code|code|code [t|]]; try discriminate.
    all: try (intros [C|[C|C]]; try discriminate; try contradiction;
              (apply in_app_or in C; destruct C as [C|[C|[]]]; [|discriminate];
               apply flush_In in C; destruct C as [k' [E _]]; discriminate E)).
    all: try (intros [C|[C|[C|[]]]]; discriminate).
    intros [C|[C|C]]; try discriminate. destruct (scope true t p tries).
    - now apply (IH p tries t false R).
    - destruct C as [C|[]]; discriminate.
  Qed.

  Lemma plan_no_error p tries : no_fail -> ~ In (ACheckIn Error) (plan p tries).
  Proof.
    intros NF. unfold Engine.plan. destruct (scope false (ri_url p) p tries).
    - apply fetch_no_error, NF.
    - intros [C|[]]; discriminate.
  Qed.

  (* every URL a visit adds is an admitted link of a document it fetched *)
  Lemma fetch_adds fuel : forall p tries u ini i,
    In i (adds_of (fetch site scope fuel p tries u ini)) ->
    exists f code links l, site f = Doc code links /\ In l links /\ i = child_info p l /\ scope false f i 0 = true.
  Proof.
    induction fuel as [|f IH]; intros p tries u ini i H; cbn [fetch] in H;
      destruct (site u) as [code links|code|code|code [t|]] eqn:S; cbn [adds_of] in H; try contradiction.
    all: try (rewrite adds_of_app, adds_of_flush in H; cbn in H; rewrite app_nil_r in H;
              assert (Hi : In i (children scope p u links)) by exact H;
              unfold children in Hi; apply filter_In in Hi; destruct Hi as [Hi Sc]; apply in_map_iff in Hi;
              destruct Hi as [l [<- Hl]]; exists u, code, links, l; auto).
    destruct (scope true t p tries); [eapply IH; eauto | cbn in H; contradiction].
  Qed.

  Lemma kids_from_links p tries i :
    In i (kids p tries) ->
    exists f code links l, site f = Doc code links /\ In l links /\ i = child_info p l /\ scope false f i 0 = true.
  Proof.
    unfold Engine.kids, Engine.plan. destruct (scope false (ri_url p) p tries); [apply fetch_adds | cbn; contradiction].
  Qed.

  (* an action still owed by an item is an action of its plan *)
  Lemma item_todo_in_plan t lg it a : item_ok t lg it -> In a (it_todo it) -> In a (plan (it_info it) (it_tries it)).
  Proof. intros [_ [did [a0 [more [st [P _]]]]]] H. rewrite P. apply in_or_app. now right. Qed.

  Lemma adds_of_In l k : In (AAddMany k) l -> forall i, In i k -> In i (adds_of l).
  Proof.
    induction l as [|a l IH]; intros H i Hi; [destruct H|].
    destruct H as [->|H]; cbn.
    - apply in_or_app. now left.
    - destruct a; auto. apply in_or_app. right. auto.
  Qed.

  (* ---------------- invariants of failure-free executions ---------------- *)
  Inductive Derived : list rinfo -> Prop :=
  | D_nil : Derived []
  | D_start l u : Derived l -> In u starts -> Derived (l ++ [start_info u])
  | D_kid l p i : Derived l -> In p l -> In i (kids p 0) -> Derived (l ++ [i]).

  Record Inv2 (s : state) : Prop := {
    inv_no_error : forall r, In r (st_tbl s) -> r_status r <> Error;
    inv_tries0 : forall r, In r (st_tbl s) -> r_status r = Todo \/ r_status r = InProgress -> r_tries r = 0;
    inv_tries1 : forall r, In r (st_tbl s) -> is_final (r_status r) = true -> r_tries r = 1;
    inv_derived : Derived (infos (st_tbl s));
    (* every request ever made is a request of the first-try plan of a table row *)
    inv_log0 : forall u q ini, In (u, q, ini) (st_log s) ->
               exists i, In i (infos (st_tbl s)) /\ ri_url i = u /\ In (ARequest q ini) (plan i 0)
  }.

  Lemma infos_app a b : infos (a ++ b) = infos a ++ infos b.
  Proof. apply map_app. Qed.

  Lemma In_infos_urls i t : In i (infos t) -> In (ri_url i) (urls t).
  Proof. rewrite urls_infos. apply in_map. Qed.

  Lemma derived_add_many l : forall t,
    Derived (infos t) ->
    (forall i, In i l -> (exists u, In u starts /\ i = start_info u) \/ (exists p, In p (infos t) /\ In i (kids p 0))) ->
    Derived (infos (add_many l t)).
  Proof.
    induction l as [|i l IH]; intros t D H; cbn; [assumption|].
    apply IH.
    - unfold add_one. destruct (has_url (ri_url i) t); [assumption|].
      rewrite infos_app. cbn. destruct (H i (or_introl eq_refl)) as [[u [Hu ->]] | [p [Hp Hk]]].
      + now apply D_start.
      + now apply (D_kid _ p).
    - intros j Hj. destruct (H j (or_intror Hj)) as [X|[p [Hp Hk]]]; [now left|right].
      exists p. split; [|assumption]. unfold add_one. destruct (has_url (ri_url i) t); [assumption|].
      rewrite infos_app. apply in_or_app. now left.
  Qed.

  Hypothesis NF : no_fail.

  Lemma Inv2_init : Inv2 init.
  Proof. constructor; cbn; try (intros; contradiction); try discriminate. constructor. Qed.

  Lemma checked_in_cases st : checked_in st -> st <> Error -> is_final st = true /\ st <> Todo /\ st <> InProgress.
  Proof. intros [-> | [-> | ->]] H; try congruence; repeat split; discriminate. Qed.

  Lemma log0_keep s s' : step s s' ->
    (forall u q ini, In (u, q, ini) (st_log s) -> exists i, In i (infos (st_tbl s)) /\ ri_url i = u /\ In (ARequest q ini) (plan i 0)) ->
    forall u q ini, In (u, q, ini) (st_log s) -> exists i, In i (infos (st_tbl s')) /\ ri_url i = u /\ In (ARequest q ini) (plan i 0).
  Proof.
    intros St L u q ini H. destruct (L u q ini H) as [i [Hi R]]. exists i. split; [|exact R].
    now apply (step_infos_incl site host in_scope maxredir starts conc s s').
  Qed.

  Lemma Inv2_step s s' : InvH s -> Inv s -> Inv2 s -> step s s' -> Inv2 s'.
  Proof.
    intros IH I J St. pose proof St as St0. destruct St as [l H]. destruct l; cbn [Engine.fire] in H.
    all: pose proof (inv_nodup _ _ _ _ _ s I) as ND.
    - (* checkout *)
      destruct (st_mode s) eqn:M; try discriminate.
      destruct (pick (st_tbl s)) as [r|] eqn:P; [|discriminate]. inversion H; subst s'; clear H.
      apply pick_some in P. destruct P as [Hr St].
      assert (St' : r_status r = Todo) by (destruct St as [?|C]; [assumption | exfalso; now apply (inv_no_error s J r Hr)]).
      constructor; cbn.
      + intros r' Hr'. apply (upd_cases _ r) in Hr'; auto.
        destruct Hr' as [-> | [Hr' _]]; [discriminate | now apply (inv_no_error s J)].
      + intros r' Hr' S'. apply (upd_cases _ r) in Hr'; auto.
        destruct Hr' as [-> | [Hr' _]]; [cbn; apply (inv_tries0 s J r Hr); now left | now apply (inv_tries0 s J)].
      + intros r' Hr' S'. apply (upd_cases _ r) in Hr'; auto.
        destruct Hr' as [-> | [Hr' _]]; [discriminate | now apply (inv_tries1 s J)].
      + rewrite infos_upd by auto with eng. apply inv_derived; assumption.
      + apply (log0_keep s _ St0). apply inv_log0; assumption.
    - (* start *)
      destruct (st_mode s) eqn:M; try discriminate.
      destruct (n_started (st_items s) <? conc)%nat; [|discriminate].
      destruct (start_first (st_items s)) as [its|] eqn:SF; [|discriminate]. inversion H; subst s'; clear H.
      destruct J. constructor; cbn; auto.
    - (* act *)
      destruct (st_mode s) eqn:M; try discriminate.
      destruct (act_items n (st_items s)) as [[[it a] its]|] eqn:A; [|discriminate]. inversion H; subst s'; clear H.
      apply act_items_inv in A. destruct A as [l1 [l2 [more [E [Sf [T [E' _]]]]]]].
      assert (Hit : In it (st_items s)) by (rewrite E; apply in_or_app; right; now left).
      pose proof (inv_items _ _ _ _ _ s I it Hit) as Ok.
      assert (Ha : In a (plan (it_info it) (it_tries it))) by (apply (item_todo_in_plan (st_tbl s) (st_log s)); [assumption | rewrite T; now left]).
      destruct Ok as [[r0 [H0 [Ei [Es Et]]]] [did [a0 [more0 [st [P [T0 [L [C [F [Ad Rq]]]]]]]]]]].
      assert (U0 : r_url r0 = ri_url (it_info it)) by (unfold r_url; now rewrite Ei).
      assert (T00 : it_tries it = 0) by (rewrite <- Et; apply (inv_tries0 s J r0 H0); now right).
      destruct a; cbn [apply_tbl apply_log].
      + constructor; cbn; try (apply J).
        intros u' q' ini' [Hl|Hl]; [|now apply (log0_keep s _ St0 (inv_log0 s J))].
        inversion Hl; subst u' q' ini'. exists (it_info it). split; [|split; [reflexivity|]].
        * apply (step_infos_incl site host in_scope maxredir starts conc s _ St0). rewrite <- Ei. unfold infos. now apply in_map.
        * now rewrite <- T00.
      + constructor; cbn.
        * intros r' Hr'. apply (upd_cases _ r0) in Hr'; auto.
          destruct Hr' as [-> | [Hr' _]]; [cbn; congruence | now apply (inv_no_error s J)].
        * intros r' Hr' S'. apply (upd_cases _ r0) in Hr'; auto.
          destruct Hr' as [-> | [Hr' _]]; [cbn; apply (inv_tries0 s J r0 H0); now right | now apply (inv_tries0 s J)].
        * intros r' Hr' S'. apply (upd_cases _ r0) in Hr'; auto.
          destruct Hr' as [-> | [Hr' _]]; [cbn in S'; rewrite Es in S'; discriminate | now apply (inv_tries1 s J)].
        * rewrite infos_upd by auto with eng. apply inv_derived; assumption.
        * apply (log0_keep s _ St0). apply inv_log0; assumption.
      + constructor; cbn.
        * intros r' Hr'. apply add_many_In in Hr'. destruct Hr' as [Hr' | [i [_ ->]]]; [now apply (inv_no_error s J) | discriminate].
        * intros r' Hr' S'. apply add_many_In in Hr'. destruct Hr' as [Hr' | [i [_ ->]]]; [now apply (inv_tries0 s J) | reflexivity].
        * intros r' Hr' S'. apply add_many_In in Hr'. destruct Hr' as [Hr' | [i [_ ->]]]; [now apply (inv_tries1 s J) | discriminate].
        * apply derived_add_many; [apply inv_derived; assumption|].
          intros i Hi. right. exists (it_info it). split.
          -- rewrite <- Ei. unfold infos. now apply in_map.
          -- unfold Engine.kids. rewrite <- T00. eapply adds_of_In; eauto.
        * apply (log0_keep s _ St0). apply inv_log0; assumption.
      + assert (Hs : s0 <> Error) by (intros ->; now apply (plan_no_error (it_info it) (it_tries it) NF)).
        assert (Cs : checked_in s0).
        { destruct (plan_shape site scope maxredir (it_info it) (it_tries it)) as [pre [st' [Ep [Fp Cp]]]].
          rewrite Ep in Ha. apply in_app_or in Ha. destruct Ha as [Ha|[Ha|[]]].
          - rewrite forallb_forall in Fp. specialize (Fp _ Ha). discriminate.
          - inversion Ha; subst. assumption. }
        destruct (checked_in_cases s0 Cs Hs) as [Fin [NT NP]].
        constructor; cbn.
        * intros r' Hr'. apply (upd_cases _ r0) in Hr'; auto.
          destruct Hr' as [-> | [Hr' _]]; [cbn; assumption | now apply (inv_no_error s J)].
        * intros r' Hr' S'. apply (upd_cases _ r0) in Hr'; auto.
          destruct Hr' as [-> | [Hr' _]]; [cbn in S'; destruct S'; congruence | now apply (inv_tries0 s J)].
        * intros r' Hr' S'. apply (upd_cases _ r0) in Hr'; auto.
          destruct Hr' as [-> | [Hr' _]]; [cbn; rewrite Et, T00; reflexivity | now apply (inv_tries1 s J)].
        * rewrite infos_upd by auto with eng. apply inv_derived; assumption.
        * apply (log0_keep s _ St0). apply inv_log0; assumption.
    - (* crash *)
      inversion H; subst s'; clear H. destruct J. constructor; cbn; auto.
    - (* release *)
      destruct (st_mode s) eqn:M; try discriminate. inversion H; subst s'; clear H.
      constructor; cbn; try discriminate.
      + intros r' Hr'. apply In_release in Hr'. destruct Hr' as [r [Hr ->]].
        destruct (status_eqb (r_status r) InProgress); [discriminate | now apply (inv_no_error s J)].
      + intros r' Hr' S'. apply In_release in Hr'. destruct Hr' as [r [Hr ->]].
        destruct (status_eqb (r_status r) InProgress) eqn:Sx.
        * apply status_eqb_eq in Sx. cbn. apply (inv_tries0 s J r Hr). now right.
        * now apply (inv_tries0 s J).
      + intros r' Hr' S'. apply In_release in Hr'. destruct Hr' as [r [Hr ->]].
        destruct (status_eqb (r_status r) InProgress) eqn:Sx; [discriminate | now apply (inv_tries1 s J)].
      + rewrite infos_release. apply inv_derived; assumption.
      + apply (log0_keep s _ St0). apply inv_log0; assumption.
    - (* add start URLs *)
      destruct (st_mode s) eqn:M; try discriminate. inversion H; subst s'; clear H.
      constructor; cbn.
      + intros r' Hr'. apply add_many_In in Hr'. destruct Hr' as [Hr' | [i [_ ->]]]; [now apply (inv_no_error s J) | discriminate].
      + intros r' Hr' S'. apply add_many_In in Hr'. destruct Hr' as [Hr' | [i [_ ->]]]; [now apply (inv_tries0 s J) | reflexivity].
      + intros r' Hr' S'. apply add_many_In in Hr'. destruct Hr' as [Hr' | [i [_ ->]]]; [now apply (inv_tries1 s J) | discriminate].
      + apply derived_add_many; [apply inv_derived; assumption|].
        intros i Hi. left. apply in_map_iff in Hi. destruct Hi as [u [<- Hu]]. eauto.
      + apply (log0_keep s _ St0). apply inv_log0; assumption.
    - (* one batch of the start URLs *)
      destruct (st_mode s) eqn:M; try discriminate. destruct ((0 <? n) && (st_batch s + n <=? length starts))%nat eqn:G; [|discriminate]. inversion H; subst s'; clear H.
      constructor; cbn.
      + intros r' Hr'. apply add_many_In in Hr'. destruct Hr' as [Hr' | [i0 [_ ->]]]; [now apply (inv_no_error s J) | discriminate].
      + intros r' Hr' S'. apply add_many_In in Hr'. destruct Hr' as [Hr' | [i0 [_ ->]]]; [now apply (inv_tries0 s J) | reflexivity].
      + intros r' Hr' S'. apply add_many_In in Hr'. destruct Hr' as [Hr' | [i0 [_ ->]]]; [now apply (inv_tries1 s J) | discriminate].
      + apply derived_add_many; [apply inv_derived; assumption|].
        intros i0 Hi. left. apply in_map_iff in Hi. destruct Hi as [u [<- Hu]]. apply batch_incl in Hu. eauto.
      + apply (log0_keep s _ St0). apply inv_log0; assumption.
  Qed.

  Lemma reach_Inv2 s : reach s -> Inv2 s.
  Proof.
    induction 1 as [|s s' R IHR St]; [apply Inv2_init|].
    eapply Inv2_step; eauto.
    - now apply (reach_InvH site host in_scope maxredir starts conc).
    - now apply (reach_Inv site host in_scope maxredir starts conc scope_ext).
  Qed.

  Lemma reach_all s : reach s -> InvH s /\ Inv s /\ Inv2 s.
  Proof.
    intros R. split; [now apply (reach_InvH site host in_scope maxredir starts conc)|].
    split; [now apply (reach_Inv site host in_scope maxredir starts conc scope_ext) | now apply reach_Inv2].
  Qed.
End Run.
