(* The constants the hand-written models hard-code are the constants of the source tree: Gen/Consts.v
   is REGENERATED from wpull/url.py, protocol/http/stream.py, processor/web.py and
   protocol/http/redirect.py on every run (harness/translate/consts.py, fail-closed); each lemma
   below is checked by computation inside Coq and holds for EVERY value (not a sample). *)
From Coq Require Import List NArith ZArith Bool Lia Arith.
From Coq Require Import ZifyBool ZifyNat ZifyN.
From Wpull Require Import Model.UrlLib Model.Url Model.PyText Model.HttpMsg Model.Visit Model.Engine Gen.Consts.
Import ListNotations.
Open Scope N_scope.

(* ---------- sets of characters: same members ---------- *)
Definition same_set (a b : list N) : bool :=
  forallb (fun c => memb c b) a && forallb (fun c => memb c a) b.

Lemma memb_forallb_in c l P : memb c l = true -> forallb P l = true -> P c = true.
Proof.
  induction l as [|x r IH]; cbn [memb forallb]; [discriminate|].
  intros H F. apply andb_true_iff in F as [Fx Fr]. apply orb_true_iff in H as [H|H].
  - apply N.eqb_eq in H. subst x. exact Fx.
  - exact (IH H Fr).
Qed.

Lemma same_set_memb a b : same_set a b = true -> forall c, memb c a = memb c b.
Proof.
  unfold same_set. intros H c. apply andb_true_iff in H as [H1 H2].
  destruct (memb c a) eqn:Ea; destruct (memb c b) eqn:Eb; try reflexivity.
  - rewrite (memb_forallb_in c a (fun c => memb c b) Ea H1) in Eb. discriminate.
  - rewrite (memb_forallb_in c b (fun c => memb c a) Eb H2) in Ea. discriminate.
Qed.

Theorem url_encode_sets_agree : forall c,
  memb c default_encode_set = memb c gen_default_encode_set /\
  memb c password_encode_set = memb c gen_password_encode_set /\
  memb c username_encode_set = memb c gen_username_encode_set /\
  memb c query_encode_set = memb c gen_query_encode_set /\
  memb c fragment_encode_set = memb c gen_fragment_encode_set /\
  memb c forbidden_hostname_chars = memb c gen_forbidden_hostname_chars.
Proof.
  intros c. repeat split; apply same_set_memb; vm_compute; reflexivity.
Qed.

(* the C0 control set that URLInfo.parse rejects is "code point < 32", as in the model's parse *)
Theorem url_c0_set_agrees : forall c, memb c gen_c0_control_set = (c <? 32).
Proof.
  intros c. destruct (c <? 32) eqn:E.
  - assert (H : forallb (fun k => memb k gen_c0_control_set) (map N.of_nat (seq 0 32)) = true) by (vm_compute; reflexivity).
    rewrite forallb_forall in H. apply H. apply in_map_iff. exists (N.to_nat c). split; [lia|]. apply in_seq. lia.
  - destruct (memb c gen_c0_control_set) eqn:M; [|reflexivity].
    assert (H : forallb (fun k => k <? 32) gen_c0_control_set = true) by (vm_compute; reflexivity).
    rewrite (memb_forallb_in c _ _ M H) in E. discriminate.
Qed.

(* ---------- default ports: the model's function is the lookup in the generated table ---------- *)
Fixpoint assoc_str (k : str) (l : list (str * N)) : option N :=
  match l with
  | [] => None
  | (k', v) :: r => if str_eqb k k' then Some v else assoc_str k r
  end.

Theorem url_default_ports_agree : forall scheme, default_port scheme = assoc_str scheme gen_default_ports.
Proof.
  intros scheme. unfold default_port, gen_default_ports, Url.s_ftp, Url.s_gopher, Url.s_http, Url.s_https, Url.s_ws, Url.s_wss. cbn [assoc_str].
  repeat match goal with |- context [str_eqb scheme ?s] => destruct (str_eqb scheme s) end; reflexivity.
Qed.

(* ---------- HTTP: status codes without a body ---------- *)
Lemma memb_app_agree c a b : memb c (a ++ b) = memb c a || memb c b.
Proof.
  induction a as [|x a IH]; cbn [app memb]; [reflexivity|]. rewrite IH. apply orb_assoc.
Qed.

Lemma memb_range c a n : memb c (map N.of_nat (seq a n)) = (N.of_nat a <=? c) && (c <? N.of_nat (a + n)).
Proof.
  revert a. induction n as [|n IH]; intros a; cbn [seq map memb].
  - lia.
  - rewrite IH. destruct (N.eqb_spec (N.of_nat a) c); lia.
Qed.

(* the generated set is the range 100..199 followed by 204 and 304 (a syntactic fact about Gen/Consts.v,
   re-checked whenever it is regenerated) *)
Lemma gen_no_content_shape : gen_no_content_codes = map N.of_nat (seq 100 100) ++ [204; 304].
Proof. reflexivity. Qed.

Theorem http_no_content_codes_agree : forall c, no_content_code c = memb c gen_no_content_codes.
Proof.
  intros c. rewrite gen_no_content_shape, memb_app_agree, memb_range.
  unfold no_content_code, in_range. cbn [memb]. lia.
Qed.

(* ---------- web processor: status-code classes; redirect tracker: code lists ---------- *)
Theorem processor_status_codes_agree :
  DOCUMENT_STATUS_CODES = gen_document_status_codes /\ NO_DOCUMENT_STATUS_CODES = gen_no_document_status_codes /\
  REDIRECT_CODES = gen_redirect_codes /\ REPEAT_REDIRECT_CODES = gen_repeat_redirect_codes.
Proof. repeat split; reflexivity. Qed.

(* ---------- crawl engine: the size at which a visit commits its batch of admitted children ---------- *)
Theorem engine_child_batch_size_agrees : flush_size = N.to_nat gen_child_batch_size /\ (1 <= flush_size)%nat.
Proof. split; [reflexivity|]. apply Nat.leb_le. vm_compute. reflexivity. Qed.
