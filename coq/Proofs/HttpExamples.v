(* C08/C04 - concrete well-formed messages (non-vacuity of the reference
   theorems): derivations of [wf_response] for three small response streams. *)
From Coq Require Import List NArith ZArith Bool String Ascii Lia.
From Wpull Require Import Lib.Conn Model.PyText Model.Decomp Model.Chunked Model.HttpMsg Spec.HttpFraming.
Import ListNotations.
Open Scope list_scope.
Open Scope N_scope.

Fixpoint s2b (s : string) : list N :=
  match s with
  | EmptyString => []
  | String c r => N_of_ascii c :: s2b r
  end.

Definition CRLF : list N := [13; 10].
Definition P11 : params := mkParams false false true false.     (* GET, HTTP/1.1, keep-alive *)

Ltac head_line_tac :=
  match goal with
  | |- head_line ?l => exists (removelast l); repeat split;
                       [ vm_compute; intuition discriminate | discriminate | discriminate ]
  end.

Ltac le_tac := vm_compute; discriminate.

Ltac chunk_line_tac ds ext :=
  exists ds, ext, CRLF;
  split; [reflexivity|]; split; [discriminate|]; split; [reflexivity|];
  split; [first [left; reflexivity | right; eexists; reflexivity]|];
  split; [vm_compute; intuition discriminate|]; split; [now left|le_tac].

(* 100 Continue, then a chunked 200 with a chunk extension and a trailer field *)
Definition ex1_lines1 := [s2b "HTTP/1.1 100 Continue" ++ CRLF].
Definition ex1_lines2 := [s2b "HTTP/1.1 200 OK" ++ CRLF; s2b "Transfer-Encoding: chunked" ++ CRLF].
Definition ex1_chunk := (s2b "5;x=y" ++ CRLF) ++ s2b "hello" ++ CRLF.
Definition ex1_last := s2b "0" ++ CRLF.
Definition ex1_trailer := (s2b "X-T: 1" ++ CRLF) ++ CRLF.
Definition ex1_bytes := List.concat ex1_lines1 ++ CRLF ++ List.concat ex1_lines2 ++ CRLF ++ (ex1_chunk ++ []) ++ ex1_last ++ ex1_trailer.

Lemma ex1_wf : exists m, wf_response P11 0 ex1_bytes m
                         /\ m_payload m = s2b "hello" /\ m_delim m = DChunked /\ r_status (m_resp m) = 200
                         /\ fget (s2b "X-T") (r_fields (m_resp m)) = Some (s2b "1").
Proof.
  eexists. split.
  - unfold ex1_bytes. eapply WF_interim.
    + repeat split; [discriminate|repeat constructor; head_line_tac|now left|le_tac].
    + vm_compute. reflexivity.
    + unfold interim. cbn. lia.
    + eapply WF_final.
      * repeat split; [discriminate|repeat constructor; head_line_tac|now left|le_tac].
      * vm_compute. reflexivity.
      * unfold interim. cbn. lia.
      * eapply WB_chunked.
        -- unfold no_body. cbn. lia.
        -- vm_compute. reflexivity.
        -- eapply ChunksCons; [|apply ChunksNil]. unfold ex1_chunk. apply Chunk; [discriminate| |now left].
           chunk_line_tac (s2b "5") (s2b ";x=y").
        -- chunk_line_tac (s2b "0") (@nil N).
        -- unfold ex1_trailer. apply TrailerCons; [|apply TrailerEnd; now left].
           exists 88, (s2b "-T: 1" ++ [13]).
           split; [reflexivity|]. split; [vm_compute; intuition discriminate|]. split; [reflexivity|le_tac].
        -- vm_compute. reflexivity.
  - cbn [m_payload m_delim m_resp r_status r_fields]. repeat split; try (vm_compute; reflexivity).
Qed.

(* a length-delimited 200 on a connection that stays open *)
Definition ex2_lines := [s2b "HTTP/1.1 200 OK" ++ CRLF; s2b "content-length:  5" ++ CRLF; s2b "X-A: b" ++ CRLF].
Definition ex2_bytes := List.concat ex2_lines ++ CRLF ++ s2b "hello".

Lemma ex2_wf : exists m, wf_response P11 0 ex2_bytes m
                         /\ m_payload m = s2b "hello" /\ m_delim m = DLength /\ wants_close P11 m = false
                         /\ m_complete m = List.length ex2_bytes /\ content_kind (m_head m) = KIdentity.
Proof.
  eexists. split.
  - unfold ex2_bytes. eapply WF_final.
    + repeat split; [discriminate|repeat constructor; head_line_tac|now left|le_tac].
    + vm_compute. reflexivity.
    + unfold interim. cbn. lia.
    + eapply WB_length.
      * unfold no_body. cbn. lia.
      * vm_compute. reflexivity.
      * reflexivity.
      * exists (s2b "5"). split; [vm_compute; reflexivity|]. split; [discriminate|]. split; [reflexivity|le_tac].
  - cbn [m_payload m_delim m_complete m_head]. repeat split; vm_compute; reflexivity.
Qed.

(* a response without Content-Length: delimited by the close of the connection *)
Definition ex3_lines := [s2b "HTTP/1.1 404 Not Found" ++ CRLF].
Definition ex3_bytes := List.concat ex3_lines ++ CRLF ++ s2b "gone".

Lemma ex3_wf : exists m, wf_response P11 0 ex3_bytes m /\ m_payload m = s2b "gone" /\ m_delim m = DClose.
Proof.
  eexists. split.
  - unfold ex3_bytes. eapply WF_final.
    + repeat split; [discriminate|repeat constructor; head_line_tac|now left|le_tac].
    + vm_compute. reflexivity.
    + unfold interim. cbn. lia.
    + eapply WB_close.
      * unfold no_body. cbn. lia.
      * vm_compute. reflexivity.
      * left. vm_compute. reflexivity.
  - cbn [m_payload m_delim]. split; reflexivity.
Qed.
