(* C10, the last clause as ONE theorem: the closure of the proved re-spellings of a whole URL text - letter case of the
   scheme, an explicit default port, letter case of the host name, dropped path segments ("." , empty, "x/.."), a dropped
   fragment, another IPv4 or IPv6 notation of the same address, the letter case of the hex digits of escapes in path, query and
   fragment - applied any number of times, in any order and in either direction,
   relates only URLs that are both rejected with the same kind or parse to the same normalized form, scheme, host, port,
   path and query. *)
From Coq Require Import List NArith ZArith Bool Lia Arith.
From Wpull Require Import Model.UrlLib Model.Url Proofs.UrlPeProofs Proofs.UrlStrProofs Proofs.UrlPathProofs
  Proofs.UrlTotalProofs Proofs.UrlHostProofs Proofs.UrlNormProofs Proofs.UrlEquivProofs Proofs.UrlEquiv2Proofs
  Proofs.UrlFragProofs Proofs.UrlEquiv3Proofs Proofs.UrlEscCaseProofs Proofs.UrlEscUrl Proofs.UrlEscPath.
Import ListNotations.
Open Scope N_scope.

Section Spelling.
Variable enc : str -> option (list N).
Variable lower_o : str -> str.
Variable idna_o : str -> option str.
Variable ipv6_o : str -> option str.
Variable int_o : N -> str -> option Z.
Variable unq_o : str -> str.
Notation parse := (Url.parse enc lower_o idna_o ipv6_o int_o unq_o).
Notation pnet := (parse_network enc idna_o ipv6_o int_o unq_o).

(* what "normalize to the same string" means for two parse results *)
Definition same_norm (r r' : result urlinfo) : Prop :=
  match r, r' with
  | Ok i, Ok i' => u_network i = u_network i' /\
                   (u_network i = true ->
                    url_of enc i = url_of enc i' /\ u_scheme i = u_scheme i' /\ u_hostname i = u_hostname i' /\
                    u_port i = u_port i' /\ u_path i = u_path i' /\ u_query i = u_query i')
  | Err k, Err k' => k = k'
  | _, _ => False
  end.

Lemma same_norm_refl r : same_norm r r.
Proof. destruct r as [i|k]; cbn; [split; [reflexivity | intros _; repeat split; reflexivity] | reflexivity]. Qed.

Lemma same_norm_sym r r' : same_norm r r' -> same_norm r' r.
Proof.
  destruct r as [i|k], r' as [i'|k']; cbn; try contradiction; [|congruence].
  intros [Hn H]. split; [congruence|]. intros Hn'. rewrite <- Hn in Hn'. destruct (H Hn') as [A [B [C [D [E F]]]]].
  repeat split; congruence.
Qed.

Lemma same_norm_trans r1 r2 r3 : same_norm r1 r2 -> same_norm r2 r3 -> same_norm r1 r3.
Proof.
  destruct r1 as [i1|k1], r2 as [i2|k2], r3 as [i3|k3]; cbn; try contradiction; [|congruence].
  intros [N12 H12] [N23 H23]. split; [congruence|]. intros H1.
  destruct (H12 H1) as [A [B [C [D [E F]]]]]. rewrite N12 in H1. destruct (H23 H1) as [A' [B' [C' [D' [E' F']]]]].
  repeat split; congruence.
Qed.

Lemma parse_network_ok_network url scheme dport rem i : pnet url scheme dport rem = Ok i -> u_network i = true.
Proof.
  unfold parse_network.
  destruct (split_remaining _) as [[[[authority resource] path] query] fragment].
  destruct (parse_authority authority) as [userinfo host].
  destruct (parse_host idna_o ipv6_o int_o host) as [[hostname port]|k]; cbn [bind]; [|discriminate].
  destruct (parse_userinfo userinfo) as [username password].
  destruct (is_nil hostname); [discriminate|].
  destruct (normalize_path enc path); cbn [bind]; [|discriminate].
  destruct (normalize_query enc query); cbn [bind]; [|discriminate].
  destruct (normalize_fragment enc fragment); cbn [bind]; [|discriminate].
  destruct (normalize_userpart enc username_encode_set _); cbn [bind]; [|discriminate].
  destruct (normalize_userpart enc password_encode_set _); cbn [bind]; [|discriminate].
  intros [= <-]. reflexivity.
Qed.

Lemma parse_ok_network sch sc dport rem i :
  scheme_text lower_o sch sc dport -> plain_text (sch ++ 58 :: rem) -> parse (sch ++ 58 :: rem) = Ok i -> u_network i = true.
Proof.
  intros Hs Hp H. rewrite (parse_is_parse_network enc lower_o idna_o ipv6_o int_o unq_o sch sc dport rem Hs Hp) in H.
  now apply (parse_network_ok_network _ _ _ _ _ H).
Qed.

(* one proved re-spelling step of a whole URL text *)
Inductive respell1 : str -> str -> Prop :=
| rs_scheme a a' rest :
    all_ascii a = true -> all_ascii a' = true -> lower_ascii a = lower_ascii a' ->
    memb 58 a = false -> memb 58 a' = false ->
    strip (a ++ 58 :: rest) = a ++ 58 :: rest -> strip (a' ++ 58 :: rest) = a' ++ 58 :: rest ->
    respell1 (a ++ 58 :: rest) (a' ++ 58 :: rest)
| rs_port sch sc dport A R h :
    scheme_text lower_o sch sc dport ->
    memb 47 A = false -> memb 63 A = false -> memb 35 A = false -> rest_ok R ->
    parse_host idna_o ipv6_o int_o (snd (parse_authority A)) = Ok (h, None) ->
    plain_text (sch ++ 58 :: [47; 47] ++ A ++ R) -> plain_text (sch ++ 58 :: [47; 47] ++ (A ++ 58 :: dec_of_N dport) ++ R) ->
    respell1 (sch ++ 58 :: [47; 47] ++ A ++ R) (sch ++ 58 :: [47; 47] ++ (A ++ 58 :: dec_of_N dport) ++ R)
| rs_host sch sc dport (u : option str) hn hn' pp R :
    scheme_text lower_o sch sc dport ->
    (forall x, u = Some x -> memb 64 x = false /\ memb 47 x = false /\ memb 63 x = false /\ memb 35 x = false) ->
    name_text hn -> name_text hn' -> lower_ascii hn = lower_ascii hn' -> port_text pp ->
    memb 47 hn = false -> memb 63 hn = false -> memb 35 hn = false -> memb 64 hn = false ->
    memb 47 hn' = false -> memb 63 hn' = false -> memb 35 hn' = false -> memb 64 hn' = false ->
    rest_ok R ->
    let U := match u with Some x => x ++ [64] | None => [] end in
    plain_text (sch ++ 58 :: [47; 47] ++ (U ++ hn ++ pp) ++ R) -> plain_text (sch ++ 58 :: [47; 47] ++ (U ++ hn' ++ pp) ++ R) ->
    respell1 (sch ++ 58 :: [47; 47] ++ (U ++ hn ++ pp) ++ R) (sch ++ 58 :: [47; 47] ++ (U ++ hn' ++ pp) ++ R)
| rs_ipv4 sch sc dport (u : option str) a a' v pp R :
    scheme_text lower_o sch sc dport ->
    (forall x, u = Some x -> memb 64 x = false /\ memb 47 x = false /\ memb 63 x = false /\ memb 35 x = false) ->
    ipv4_text int_o a v -> ipv4_text int_o a' v -> (exists d, ipv4_compressed v = Some d) ->
    plain_host_text a -> plain_host_text a' -> port_text pp ->
    memb 47 a = false -> memb 63 a = false -> memb 35 a = false -> memb 64 a = false ->
    memb 47 a' = false -> memb 63 a' = false -> memb 35 a' = false -> memb 64 a' = false ->
    rest_ok R ->
    let U := match u with Some x => x ++ [64] | None => [] end in
    plain_text (sch ++ 58 :: [47; 47] ++ (U ++ a ++ pp) ++ R) -> plain_text (sch ++ 58 :: [47; 47] ++ (U ++ a' ++ pp) ++ R) ->
    respell1 (sch ++ 58 :: [47; 47] ++ (U ++ a ++ pp) ++ R) (sch ++ 58 :: [47; 47] ++ (U ++ a' ++ pp) ++ R)
| rs_ipv6 sch sc dport (u : option str) x x' pp R :
    scheme_text lower_o sch sc dport ->
    (forall y, u = Some y -> memb 64 y = false /\ memb 47 y = false /\ memb 63 y = false /\ memb 35 y = false) ->
    ipv6_inner x -> ipv6_inner x' -> ipv6_o x = ipv6_o x' -> port_text pp -> rest_ok R ->
    let U := match u with Some y => y ++ [64] | None => [] end in
    plain_text (sch ++ 58 :: [47; 47] ++ (U ++ (91 :: x ++ [93]) ++ pp) ++ R) ->
    plain_text (sch ++ 58 :: [47; 47] ++ (U ++ (91 :: x' ++ [93]) ++ pp) ++ R) ->
    respell1 (sch ++ 58 :: [47; 47] ++ (U ++ (91 :: x ++ [93]) ++ pp) ++ R) (sch ++ 58 :: [47; 47] ++ (U ++ (91 :: x' ++ [93]) ++ pp) ++ R)
| rs_userinfo sch sc dport x x' H R :
    scheme_text lower_o sch sc dport ->
    memb 64 x = false -> memb 47 x = false -> memb 63 x = false -> memb 35 x = false ->
    memb 64 x' = false -> memb 47 x' = false -> memb 63 x' = false -> memb 35 x' = false ->
    memb 47 H = false -> memb 63 H = false -> memb 35 H = false ->
    same_login unq_o x x' -> rest_ok R ->
    plain_text (sch ++ 58 :: [47; 47] ++ (x ++ 64 :: H) ++ R) -> plain_text (sch ++ 58 :: [47; 47] ++ (x' ++ 64 :: H) ++ R) ->
    respell1 (sch ++ 58 :: [47; 47] ++ (x ++ 64 :: H) ++ R) (sch ++ 58 :: [47; 47] ++ (x' ++ 64 :: H) ++ R)
| rs_segments sch sc dport A (c : N) (a b : str) (mid : list str) T :
    scheme_text lower_o sch sc dport ->
    memb 47 A = false -> memb 63 A = false -> memb 35 A = false ->
    c <> 47 -> memb 63 (c :: a) = false -> memb 35 (c :: a) = false -> memb 63 b = false -> memb 35 b = false ->
    memb 63 (join [47] mid) = false -> memb 35 (join [47] mid) = false ->
    dropped mid -> mid <> [] -> Forall (fun p => memb 47 p = false) mid -> tail_ok T ->
    plain_text (sch ++ 58 :: [47; 47] ++ A ++ 47 :: ((c :: a) ++ 47 :: join [47] mid ++ 47 :: b) ++ T) ->
    plain_text (sch ++ 58 :: [47; 47] ++ A ++ 47 :: ((c :: a) ++ 47 :: b) ++ T) ->
    respell1 (sch ++ 58 :: [47; 47] ++ A ++ 47 :: ((c :: a) ++ 47 :: join [47] mid ++ 47 :: b) ++ T)
             (sch ++ 58 :: [47; 47] ++ A ++ 47 :: ((c :: a) ++ 47 :: b) ++ T)
| rs_escape sch sc dport A P0 q q' F F' :
    enc_high_ok enc -> scheme_text lower_o sch sc dport ->
    memb 47 A = false -> memb 63 A = false -> memb 35 A = false ->
    memb 63 P0 = false -> memb 35 P0 = false -> memb 35 q = false -> memb 35 q' = false ->
    hexcase q q' -> frag_tail F -> frag_tail F' -> hexcase (skipn 1 F) (skipn 1 F') ->
    plain_text (sch ++ 58 :: [47; 47] ++ A ++ 47 :: P0 ++ 63 :: q ++ F) ->
    plain_text (sch ++ 58 :: [47; 47] ++ A ++ 47 :: P0 ++ 63 :: q' ++ F') ->
    respell1 (sch ++ 58 :: [47; 47] ++ A ++ 47 :: P0 ++ 63 :: q ++ F) (sch ++ 58 :: [47; 47] ++ A ++ 47 :: P0 ++ 63 :: q' ++ F')
| rs_escape_path sch sc dport A P0 P0' T :
    enc_high_ok enc -> scheme_text lower_o sch sc dport ->
    memb 47 A = false -> memb 63 A = false -> memb 35 A = false ->
    memb 63 P0 = false -> memb 35 P0 = false -> hexcase P0 P0' -> tail_ok T ->
    plain_text (sch ++ 58 :: [47; 47] ++ A ++ 47 :: P0 ++ T) -> plain_text (sch ++ 58 :: [47; 47] ++ A ++ 47 :: P0' ++ T) ->
    respell1 (sch ++ 58 :: [47; 47] ++ A ++ 47 :: P0 ++ T) (sch ++ 58 :: [47; 47] ++ A ++ 47 :: P0' ++ T)
| rs_fragment sch sc dport (P f nf : str) :
    scheme_text lower_o sch sc dport -> memb 35 P = false -> enc [] = Some [] -> normalize_fragment enc f = Ok nf ->
    plain_text (sch ++ 58 :: P ++ 35 :: f) -> plain_text (sch ++ 58 :: P) ->
    respell1 (sch ++ 58 :: P ++ 35 :: f) (sch ++ 58 :: P).

(* any number of steps, in any order and direction *)
Inductive respell : str -> str -> Prop :=
| rsp_step s s' : respell1 s s' -> respell s s'
| rsp_refl s : respell s s
| rsp_sym s s' : respell s s' -> respell s' s
| rsp_trans s1 s2 s3 : respell s1 s2 -> respell s2 s3 -> respell s1 s3.

Lemma respell1_same_norm s s' : respell1 s s' -> same_norm (parse s) (parse s').
Proof.
  intros H. destruct H.
  - (* scheme case *)
    exact (parse_scheme_case enc lower_o idna_o ipv6_o int_o unq_o a a' rest H H0 H1 H2 H3 H4 H5).
  - (* default port *)
    pose proof (parse_url_default_port enc lower_o idna_o ipv6_o int_o unq_o sch sc dport A R h H H0 H1 H2 H3 H4 H5 H6) as T.
    cbv zeta in T. unfold same_norm.
    destruct (parse (sch ++ 58 :: [47; 47] ++ A ++ R)) as [i|k] eqn:E1;
      destruct (parse (sch ++ 58 :: [47; 47] ++ (A ++ 58 :: dec_of_N dport) ++ R)) as [i'|k'] eqn:E2; try contradiction; [|exact T].
    rewrite (parse_ok_network _ _ _ _ _ H H5 E1), (parse_ok_network _ _ _ _ _ H H6 E2). split; [reflexivity | intros _; exact T].
  - (* host case *)
    pose proof (parse_url_host_case enc lower_o idna_o ipv6_o int_o unq_o sch sc dport u hn hn' pp R
                  H H0 H1 H2 H3 H4 H5 H6 H7 H8 H9 H10 H11 H12 H13 H14 H15) as T.
    cbv zeta in T. unfold same_url in T. unfold same_norm. subst U.
    match goal with |- match parse ?x with _ => _ end => destruct (parse x) as [i|k] eqn:E1 end;
      match goal with |- match parse ?x with _ => _ end => destruct (parse x) as [i'|k'] eqn:E2 end; try contradiction; [|exact T].
    rewrite (parse_ok_network _ _ _ _ _ H H14 E1), (parse_ok_network _ _ _ _ _ H H15 E2).
    split; [reflexivity | intros _]. destruct T as [A [B [C [D [E [F _]]]]]]. repeat split; assumption.
  - (* IPv4 notation *)
    pose proof (parse_url_ipv4 enc lower_o idna_o ipv6_o int_o unq_o sch sc dport u a a' v pp R
                  H H0 H1 H2 H3 H4 H5 H6 H7 H8 H9 H10 H11 H12 H13 H14 H15 H16 H17) as T.
    cbv zeta in T. unfold same_url in T. unfold same_norm. subst U.
    match goal with |- match parse ?x with _ => _ end => destruct (parse x) as [i|k] eqn:E1 end;
      match goal with |- match parse ?x with _ => _ end => destruct (parse x) as [i'|k'] eqn:E2 end; try contradiction; [|exact T].
    rewrite (parse_ok_network _ _ _ _ _ H H16 E1), (parse_ok_network _ _ _ _ _ H H17 E2).
    split; [reflexivity | intros _]. destruct T as [A [B [C [D [E [F _]]]]]]. repeat split; assumption.
  - (* IPv6 notation *)
    pose proof (parse_url_ipv6 enc lower_o idna_o ipv6_o int_o unq_o sch sc dport u x x' pp R H H0 H1 H2 H3 H4 H5 H6 H7) as T.
    cbv zeta in T. unfold same_url in T. unfold same_norm. subst U.
    match goal with |- match parse ?z with _ => _ end => destruct (parse z) as [i|k] eqn:E1 end;
      match goal with |- match parse ?z with _ => _ end => destruct (parse z) as [i'|k'] eqn:E2 end; try contradiction; [|exact T].
    rewrite (parse_ok_network _ _ _ _ _ H H6 E1), (parse_ok_network _ _ _ _ _ H H7 E2).
    split; [reflexivity | intros _]. destruct T as [A [B [C [D [E [F _]]]]]]. repeat split; assumption.
  - (* user-info *)
    pose proof (parse_url_userinfo enc lower_o idna_o ipv6_o int_o unq_o sch sc dport x x' H R
                  H0 H1 H2 H3 H4 H5 H6 H7 H8 H9 H10 H11 H12 H13 H14 H15) as T.
    cbv zeta in T. unfold same_url in T. unfold same_norm.
    match goal with |- match parse ?z with _ => _ end => destruct (parse z) as [i|k] eqn:E1 end;
      match goal with |- match parse ?z with _ => _ end => destruct (parse z) as [i'|k'] eqn:E2 end; try contradiction; [|exact T].
    rewrite (parse_ok_network _ _ _ _ _ H0 H14 E1), (parse_ok_network _ _ _ _ _ H0 H15 E2).
    split; [reflexivity | intros _]. destruct T as [A [B [C [D [E [F _]]]]]]. repeat split; assumption.
  - (* dropped segments *)
    pose proof (parse_url_insert_segments enc lower_o idna_o ipv6_o int_o unq_o sch sc dport A c a b mid T
                  H H0 H1 H2 H3 H4 H5 H6 H7 H8 H9 H10 H11 H12 H13 H14 H15) as Th.
    cbv zeta in Th. unfold same_url in Th. unfold same_norm.
    match goal with |- match parse ?x with _ => _ end => destruct (parse x) as [i|k] eqn:E1 end;
      match goal with |- match parse ?x with _ => _ end => destruct (parse x) as [i'|k'] eqn:E2 end; try contradiction; [|exact Th].
    rewrite (parse_ok_network _ _ _ _ _ H H14 E1), (parse_ok_network _ _ _ _ _ H H15 E2).
    split; [reflexivity | intros _]. destruct Th as [A' [B [C [D [E [F _]]]]]]. repeat split; assumption.
  - (* hex-digit case of escapes in query and fragment *)
    pose proof (parse_url_query_case enc lower_o idna_o ipv6_o int_o unq_o H sch sc dport A P0 q q' F F'
                  H0 H1 H2 H3 H4 H5 H6 H7 H8 H9 H10 H11 H12 H13) as Th.
    cbv zeta in Th. unfold same_url in Th. unfold same_norm.
    match goal with |- match parse ?x with _ => _ end => destruct (parse x) as [i|k] eqn:E1 end;
      match goal with |- match parse ?x with _ => _ end => destruct (parse x) as [i'|k'] eqn:E2 end; try contradiction; [|exact Th].
    rewrite (parse_ok_network _ _ _ _ _ H0 H12 E1), (parse_ok_network _ _ _ _ _ H0 H13 E2).
    split; [reflexivity | intros _]. destruct Th as [A' [B [C [D [E [G _]]]]]]. repeat split; assumption.
  - (* hex-digit case of escapes in the path *)
    pose proof (parse_url_path_case enc lower_o idna_o ipv6_o int_o unq_o H sch sc dport A P0 P0' T
                  H0 H1 H2 H3 H4 H5 H6 H7 H8 H9) as Th.
    cbv zeta in Th. unfold same_url in Th. unfold same_norm.
    match goal with |- match parse ?x with _ => _ end => destruct (parse x) as [i|k] eqn:E1 end;
      match goal with |- match parse ?x with _ => _ end => destruct (parse x) as [i'|k'] eqn:E2 end; try contradiction; [|exact Th].
    rewrite (parse_ok_network _ _ _ _ _ H0 H8 E1), (parse_ok_network _ _ _ _ _ H0 H9 E2).
    split; [reflexivity | intros _]. destruct Th as [A' [B [C [D [E [G _]]]]]]. repeat split; assumption.
  - (* dropped fragment *)
    pose proof (parse_url_fragment enc lower_o idna_o ipv6_o int_o unq_o sch sc dport P f nf H H0 H1 H2 H3 H4) as T.
    unfold same_norm.
    destruct (parse (sch ++ 58 :: P ++ 35 :: f)) as [i|k] eqn:E1; destruct (parse (sch ++ 58 :: P)) as [i'|k'] eqn:E2;
      try contradiction; [|exact T].
    rewrite (parse_ok_network _ _ _ _ _ H H3 E1), (parse_ok_network _ _ _ _ _ H H4 E2).
    split; [reflexivity | intros _]. destruct T as [A [B [C [D [E [F _]]]]]]. repeat split; assumption.
Qed.

Theorem respell_same_norm s s' : respell s s' -> same_norm (parse s) (parse s').
Proof.
  induction 1 as [s s' H|s|s s' _ IH|s1 s2 s3 _ IH1 _ IH2].
  - now apply respell1_same_norm.
  - apply same_norm_refl.
  - now apply same_norm_sym.
  - now apply (same_norm_trans _ _ _ IH1 IH2).
Qed.
End Spelling.
