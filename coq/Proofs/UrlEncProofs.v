(* C10: the encoder hypothesis, percent-encoding over an encoder as a per-character
   expansion, and the normalizers of path and query: their output is clean, flat
   (path) and a fixpoint of the normalizer. *)
From Coq Require Import List NArith ZArith Bool Lia Arith.
From Coq Require Import ZifyBool ZifyNat ZifyN.
From Wpull Require Import Model.UrlLib Model.Url Proofs.UrlPeProofs Proofs.UrlStrProofs Proofs.UrlPathProofs
  Proofs.UrlTotalProofs.
Import ListNotations.
Open Scope N_scope.

(* ---------- the encoder hypothesis ---------- *)
(* text.encode(encoding) works character by character, is the identity on ASCII, and a
   non-ASCII character becomes one or more bytes, all >= 0x40.  True of utf-8 (proved
   below), latin-1, cp125x, koi8, shift_jis, gbk, big5, euc-*; false for utf-16/32, utf-7,
   EBCDIC and iso-2022 codecs. *)
Definition enc_ok (enc : str -> option (list N)) : Prop :=
  exists encc : N -> option (list N),
    (forall s, enc s = charwise encc s) /\
    (forall c, c < 128 -> encc c = Some [c]) /\
    (forall c bs, 128 <= c -> encc c = Some bs -> bs <> [] /\ Forall (fun b => 64 <= b /\ b < 256) bs).

Lemma utf8_enc_ok : enc_ok utf8.
Proof.
  exists utf8c. split; [reflexivity|]. split.
  - intros c Hc. unfold utf8c. destruct (c <? 128) eqn:E; [reflexivity|lia].
  - intros c bs Hc. unfold utf8c. destruct (c <? 128) eqn:E1; [lia|].
    destruct (c <? 2048) eqn:E2.
    { intros H. assert (Hbs : bs = [192 + c / 64; 128 + c mod 64]) by congruence. clear H.
      split; [rewrite Hbs; discriminate|]. rewrite Hbs.
      assert (c / 64 < 32) by (apply N.div_lt_upper_bound; lia). assert (c mod 64 < 64) by (apply N.mod_lt; lia).
      repeat (apply Forall_cons; [lia|]); apply Forall_nil. }
    destruct ((55296 <=? c) && (c <=? 57343)); [discriminate|].
    destruct (c <? 65536) eqn:E3.
    { intros H. assert (Hbs : bs = [224 + c / 4096; 128 + (c / 64) mod 64; 128 + c mod 64]) by congruence. clear H.
      split; [rewrite Hbs; discriminate|]. rewrite Hbs.
      assert (c / 4096 < 16) by (apply N.div_lt_upper_bound; lia).
      assert ((c / 64) mod 64 < 64) by (apply N.mod_lt; lia). assert (c mod 64 < 64) by (apply N.mod_lt; lia).
      repeat (apply Forall_cons; [lia|]); apply Forall_nil. }
    destruct (c <? 1114112) eqn:E4; [|discriminate].
    intros H.
    assert (Hbs : bs = [240 + c / 262144; 128 + (c / 4096) mod 64; 128 + (c / 64) mod 64; 128 + c mod 64]) by congruence.
    clear H. split; [rewrite Hbs; discriminate|]. rewrite Hbs.
    assert (c / 262144 < 5) by (apply N.div_lt_upper_bound; lia).
    assert ((c / 4096) mod 64 < 64) by (apply N.mod_lt; lia).
    assert ((c / 64) mod 64 < 64) by (apply N.mod_lt; lia). assert (c mod 64 < 64) by (apply N.mod_lt; lia).
    repeat (apply Forall_cons; [lia|]); apply Forall_nil.
Qed.

(* ---------- clean characters ---------- *)
(* printable ASCII without space, not in the encode set *)
Definition cleanx (set : str) (c : N) : Prop := 33 <= c <= 126 /\ memb c set = false.

Lemma cleanx_clean set s :
  Forall (cleanx set) s -> Forall (fun c => 32 <= c <= 126 /\ memb c set = false) s.
Proof. apply Forall_impl. unfold cleanx. intros c [H1 H2]. split; [lia|exact H2]. Qed.

(* sets that contain no '%', digit or letter: the characters of an escape are clean *)
Definition set_plain (set : str) : Prop :=
  forall c, c = 37 \/ 48 <= c <= 57 \/ 65 <= c <= 90 \/ 97 <= c <= 122 -> memb c set = false.

Lemma default_set_plain : set_plain default_encode_set.
Proof. intros c H. unfold default_encode_set. cbn [memb]. lia. Qed.
Lemma query_set_plain : set_plain query_encode_set.
Proof. intros c H. unfold query_encode_set. cbn [memb]. lia. Qed.
Lemma fragment_set_plain : set_plain fragment_encode_set.
Proof. intros c H. unfold fragment_encode_set. cbn [memb]. lia. Qed.

Lemma cleanx_upper_c set c : set_plain set -> cleanx set c -> cleanx set (upper_c c).
Proof.
  intros Hs [H1 H2]. unfold upper_c. destruct ((97 <=? c) && (c <=? 122)) eqn:E; [|split; assumption].
  split; [lia|]. apply Hs. lia.
Qed.

Section Enc.
Variable enc : str -> option (list N).
Variable encc : N -> option (list N).
Hypothesis enc_charwise : forall s, enc s = charwise encc s.
Hypothesis enc_ascii1 : forall c, c < 128 -> encc c = Some [c].
Hypothesis enc_high : forall c bs, 128 <= c -> encc c = Some bs -> bs <> [] /\ Forall (fun b => 64 <= b /\ b < 256) bs.

Definition enc1 (c : N) : list N := match encc c with Some b => b | None => [] end.
Definition encodable (c : N) : Prop := encc c <> None.

Lemma enc_flat_map s bs : enc s = Some bs -> bs = flat_map enc1 s /\ Forall encodable s.
Proof.
  rewrite enc_charwise. revert bs. induction s as [|c s IH]; intros bs H; cbn [charwise] in H.
  - inversion H. split; [reflexivity|constructor].
  - destruct (encc c) as [a|] eqn:Ea; [|discriminate]. destruct (charwise encc s) as [b|]; [|discriminate].
    inversion H; subst. destruct (IH b eq_refl) as [-> Hs]. split.
    + cbn [flat_map]. f_equal. unfold enc1. now rewrite Ea.
    + constructor; [unfold encodable; congruence|exact Hs].
Qed.

Lemma enc_ascii s : all_ascii s = true -> enc s = Some s.
Proof.
  rewrite enc_charwise. intros H. apply all_ascii_Forall in H. induction H as [|c s Hc Hs IH]; [reflexivity|].
  cbn [charwise]. rewrite (enc_ascii1 c Hc), IH. reflexivity.
Qed.

Lemma enc1_bytes c : encodable c -> Forall (fun b => b < 256) (enc1 c).
Proof.
  unfold encodable, enc1. intros H. destruct (encc c) as [a|] eqn:E; [|contradiction].
  destruct (N.lt_ge_cases c 128) as [Hc|Hc].
  - rewrite (enc_ascii1 c Hc) in E. inversion E; subst. repeat constructor. lia.
  - destruct (enc_high c a Hc E) as [_ HF]. eapply Forall_impl; [|exact HF]. intros b [H1 H2]. exact H2.
Qed.

Lemma enc_bytes s bs : enc s = Some bs -> Forall (fun b => b < 256) bs.
Proof.
  intros H. apply enc_flat_map in H. destruct H as [-> Hs]. induction Hs as [|c s Hc Hs IH]; [constructor|].
  cbn [flat_map]. apply Forall_app. split; [now apply enc1_bytes|exact IH].
Qed.

(* percent-encoding of the encoded text, character by character *)
Definition gpe (set : str) (c : N) : str := pe_bytes set (enc1 c).

Lemma pe_bytes_app set a b : pe_bytes set (a ++ b) = pe_bytes set a ++ pe_bytes set b.
Proof. unfold pe_bytes. apply flat_map_app. Qed.

Lemma pe_flat_map set s : pe_bytes set (flat_map enc1 s) = flat_map (gpe set) s.
Proof.
  induction s as [|c s IH]; [reflexivity|]. cbn [flat_map]. rewrite pe_bytes_app, IH. reflexivity.
Qed.

Lemma gpe_ascii set c : c < 128 -> gpe set c = pe_byte set c.
Proof. intros Hc. unfold gpe, enc1. rewrite (enc_ascii1 c Hc). unfold pe_bytes. cbn [flat_map]. apply app_nil_r. Qed.

Lemma pe_byte_keep set b : 32 <= b <= 126 -> memb b set = false -> pe_byte set b = [b].
Proof.
  intros Hb Hm. unfold pe_byte. rewrite Hm. destruct (b <? 32) eqn:E1; [lia|]. destruct (126 <? b) eqn:E2; [lia|]. reflexivity.
Qed.

(* the characters an escape consists of *)
Definition esc_char (c : N) : Prop := c = 37 \/ 48 <= c <= 57 \/ 65 <= c <= 70.

Lemma pe_byte_cases set b : b < 256 ->
  (pe_byte set b = [b] /\ 32 <= b <= 126 /\ memb b set = false) \/
  (exists h l, pe_byte set b = [37; h; l] /\ (48 <= h <= 57 \/ 65 <= h <= 70) /\ (48 <= l <= 57 \/ 65 <= l <= 70)).
Proof.
  intros Hb. unfold pe_byte. destruct ((b <? 32) || (126 <? b) || memb b set) eqn:E.
  - right. eexists. eexists. split; [reflexivity|].
    assert (H1 : b / 16 < 16) by (apply N.div_lt_upper_bound; lia).
    assert (H2 : b mod 16 < 16) by (apply N.mod_lt; lia).
    split; apply hex_upper_digit_range; assumption.
  - left. apply orb_false_iff in E. destruct E as [E E3]. apply orb_false_iff in E. destruct E as [E1 E2].
    repeat split; first [lia | exact E3].
Qed.

(* expansion of one character: what can come out *)
Lemma gpe_chars set c :
  encodable c -> Forall (fun x => (32 <= x <= 126 /\ memb x set = false /\ (x = c \/ (128 <= c /\ 64 <= x))) \/ esc_char x) (gpe set c).
Proof.
  intros He. unfold gpe. pose proof (enc1_bytes c He) as Hb.
  assert (Hsrc : Forall (fun b => b = c \/ (128 <= c /\ 64 <= b)) (enc1 c)).
  { unfold encodable, enc1 in *. destruct (encc c) as [a|] eqn:E; [|contradiction].
    destruct (N.lt_ge_cases c 128) as [Hc|Hc].
    - rewrite (enc_ascii1 c Hc) in E. inversion E; subst. repeat constructor.
    - destruct (enc_high c a Hc E) as [_ HF]. eapply Forall_impl; [|exact HF]. intros b [H1 H2]. right. split; lia. }
  induction (enc1 c) as [|b r IH]; [constructor|].
  inversion Hb as [|? ? Hb1 Hb2]; subst. inversion Hsrc as [|? ? Hs1 Hs2]; subst.
  change (pe_bytes set (b :: r)) with (pe_byte set b ++ pe_bytes set r). apply Forall_app. split; [|now apply IH].
  destruct (pe_byte_cases set b Hb1) as [[-> [H1 H2]]|[h [l [-> [Hh Hl]]]]].
  - apply Forall_cons; [|apply Forall_nil]. left. destruct Hs1 as [Hs1|Hs1]; repeat split; first [lia | assumption | (left; assumption) | (right; split; lia)].
  - repeat (apply Forall_cons; [right; unfold esc_char; lia|]); apply Forall_nil.
Qed.

Lemma gpe_nonempty set c : encodable c -> gpe set c <> [].
Proof.
  intros He. unfold gpe. unfold encodable, enc1 in *. destruct (encc c) as [a|] eqn:E; [|contradiction].
  assert (Ha : a <> []).
  { destruct (N.lt_ge_cases c 128) as [Hc|Hc].
    - rewrite (enc_ascii1 c Hc) in E. inversion E. discriminate.
    - now destruct (enc_high c a Hc E). }
  destruct a as [|b r]; [contradiction|]. unfold pe_bytes. cbn [flat_map]. unfold pe_byte.
  destruct ((b <? 32) || (126 <? b) || memb b set); discriminate.
Qed.

(* a character d (an ASCII delimiter below 0x40 that is not part of an escape) appears in
   the expansion of c only if c = d *)
Lemma gpe_no set c d :
  encodable c -> c <> d -> d < 64 -> d <> 37 -> ~ (48 <= d <= 57) -> memb d (gpe set c) = false.
Proof.
  intros He Hcd Hd H37 Hdig. eapply Forall_memb_false; [apply (gpe_chars set c He)|]. cbn beta.
  intros [[_ [_ [H|[_ H]]]]|H]; [congruence|lia|unfold esc_char in H; lia].
Qed.

(* ---------- percent_encode: shape of the result ---------- *)
Lemma percent_encode_ok set t r :
  percent_encode enc set t = Ok r -> r = flat_map (gpe set) t /\ Forall encodable t.
Proof.
  unfold percent_encode. destruct (enc t) as [bs|] eqn:E; [|discriminate]. intros H; inversion H; subst.
  apply enc_flat_map in E. destruct E as [-> Hs]. split; [apply pe_flat_map|exact Hs].
Qed.

Lemma percent_encode_ascii_fix set s :
  Forall (fun c => 32 <= c <= 126 /\ memb c set = false) s -> percent_encode enc set s = Ok s.
Proof.
  intros H. unfold percent_encode. rewrite enc_ascii.
  - now rewrite pe_bytes_fix.
  - apply all_ascii_Forall. eapply Forall_impl; [|exact H]. intros b [H1 H2]. lia.
Qed.

Lemma flat_map_Forall {A B} (P : B -> Prop) (f : A -> list B) (Q : A -> Prop) l :
  Forall Q l -> (forall a, Q a -> Forall P (f a)) -> Forall P (flat_map f l).
Proof. intros Hl Hf. induction Hl; cbn [flat_map]; [constructor|]. apply Forall_app. split; auto. Qed.

(* output characters: printable ASCII outside the set (a space only if the text has one) *)
Lemma percent_encode_chars set t r :
  set_plain set -> percent_encode enc set t = Ok r ->
  Forall (fun x => 32 <= x <= 126 /\ memb x set = false /\ (x = 32 -> In 32 t)) r.
Proof.
  intros Hs H. apply percent_encode_ok in H. destruct H as [-> He]. apply Forall_forall. intros x Hx.
  apply in_flat_map in Hx. destruct Hx as [c [Hin Hx]].
  assert (Hc : encodable c) by (rewrite Forall_forall in He; now apply He).
  pose proof (gpe_chars set c Hc) as G. rewrite Forall_forall in G. specialize (G x Hx). cbn beta in G.
  destruct G as [[H1 [H2 H3]]|H3].
  - repeat split; try lia; try assumption. intros ->. destruct H3 as [<-|[_ H3]]; [assumption|lia].
  - unfold esc_char in H3. repeat split; try lia. apply Hs. lia.
Qed.

(* ---------- normalize_path ---------- *)
Lemma gpe_default_slash : gpe default_encode_set 47 = [47].
Proof. rewrite gpe_ascii by lia. reflexivity. Qed.
Lemma gpe_default_dot : gpe default_encode_set 46 = [46].
Proof. rewrite gpe_ascii by lia. reflexivity. Qed.
Lemma gpe_default_other c :
  encodable c -> c <> 47 -> c <> 46 ->
  gpe default_encode_set c <> [] /\ memb 47 (gpe default_encode_set c) = false /\ memb 46 (gpe default_encode_set c) = false.
Proof.
  intros He H47 H46. split; [now apply gpe_nonempty|]. split; apply gpe_no; try assumption; lia.
Qed.

Definition path_char (c : N) : Prop := cleanx default_encode_set c.

Theorem normalize_path_props p np :
  normalize_path enc p = Ok np ->
  is_flat np = true /\ Forall path_char np /\ escapes_upper np = true /\ normalize_path enc np = Ok np.
Proof.
  unfold normalize_path. intros H. apply bind_ok in H. destruct H as [r [Hr H]]. inversion H; subst np. clear H.
  set (p' := if startswith p s_slash then p else 47 :: p) in *.
  assert (Hp' : exists p0, p' = 47 :: p0).
  { subst p'. destruct (startswith p s_slash) eqn:E; [|eauto].
    destruct p as [|x p0]; [discriminate|]. unfold s_slash in E. rewrite startswith_cons1 in E.
    apply N.eqb_eq in E. subst. eauto. }
  destruct Hp' as [p0 Hp0]. rewrite Hp0 in Hr.
  pose proof (flatten_path_flat p0) as Hflat. set (F := flatten_path true (47 :: p0)) in *.
  pose proof (percent_encode_chars _ _ _ default_set_plain Hr) as Hch.
  apply percent_encode_ok in Hr. destruct Hr as [-> He].
  assert (Hflat2 : is_flat (upper_pe (flat_map (gpe default_encode_set) F)) = true).
  { rewrite is_flat_upper_pe.
    rewrite (is_flat_flat_map (gpe default_encode_set) encodable gpe_default_slash gpe_default_dot gpe_default_other F He).
    exact Hflat. }
  assert (Hclean : Forall path_char (upper_pe (flat_map (gpe default_encode_set) F))).
  { apply upper_pe_Forall; [intros c; apply cleanx_upper_c, default_set_plain|].
    eapply Forall_impl; [|exact Hch]. cbn beta. intros x [H1 [H2 H3]]. split; [|exact H2].
    assert (x <> 32) by (intros ->; discriminate H2). lia. }
  split; [exact Hflat2|]. split; [exact Hclean|]. split; [apply upper_pe_escapes_upper|].
  set (np := upper_pe (flat_map (gpe default_encode_set) F)) in *.
  assert (Hhd : startswith np s_slash = true).
  { destruct np as [|x r]; [discriminate|]. unfold s_slash. rewrite startswith_cons1.
    cbn [is_flat] in Hflat2. destruct (N.eq_dec x 47) as [->|Hx]; [reflexivity|]. exfalso. revert Hflat2.
    destruct x as [|q]; [discriminate|]. repeat (destruct q as [q|q|]; try discriminate). contradiction. }
  rewrite Hhd. rewrite (flatten_path_fix np Hflat2).
  rewrite (percent_encode_ascii_fix default_encode_set np (cleanx_clean _ _ Hclean)). cbn [bind].
  subst np. now rewrite upper_pe_idem.
Qed.

(* ---------- normalize_query ---------- *)
Definition query_char (c : N) : Prop := cleanx query_encode_set c.

Lemma replace1_Forall (P : N -> Prop) c d s :
  P d -> Forall (fun x => x <> c -> P x) s -> Forall P (replace1 c d s).
Proof.
  intros Hd. induction 1 as [|x s Hx Hs IH]; [constructor|]. cbn [replace1]. constructor; [|exact IH].
  destruct (x =? c) eqn:E; [exact Hd|apply Hx; lia].
Qed.

Lemma memb_In_false c s : ~ In c s -> memb c s = false.
Proof. intros H. destruct (memb c s) eqn:E; [|reflexivity]. apply memb_In in E. contradiction. Qed.

Theorem normalize_query_props q nq :
  normalize_query enc q = Ok nq ->
  Forall query_char nq /\ escapes_upper nq = true /\ normalize_query enc nq = Ok nq.
Proof.
  unfold normalize_query. intros H. apply bind_ok in H. destruct H as [r [Hr H]]. inversion H; subst nq. clear H.
  assert (Hclean : Forall query_char r).
  { unfold percent_encode_plus in Hr. destruct (negb (memb 32 q)) eqn:E.
    - pose proof (percent_encode_chars _ _ _ query_set_plain Hr) as Hch.
      eapply Forall_impl; [|exact Hch]. cbn beta. intros x [H1 [H2 H3]]. split; [|exact H2].
      assert (x <> 32). { intros ->. apply negb_true_iff in E. specialize (H3 eq_refl). apply memb_In in H3. congruence. }
      lia.
    - apply bind_ok in Hr. destruct Hr as [r0 [Hr0 Hr]]. inversion Hr; subst r. clear Hr.
      pose proof (percent_encode_chars _ _ _ query_set_plain Hr0) as Hch.
      apply replace1_Forall; [split; [lia|reflexivity]|].
      eapply Forall_impl; [|exact Hch]. cbn beta. intros x [H1 [H2 _]] Hx. split; [lia|exact H2]. }
  assert (Hclean2 : Forall query_char (upper_pe r)).
  { apply upper_pe_Forall; [intros c; apply cleanx_upper_c, query_set_plain|exact Hclean]. }
  split; [exact Hclean2|]. split; [apply upper_pe_escapes_upper|].
  unfold percent_encode_plus.
  assert (Hsp : memb 32 (upper_pe r) = false).
  { apply memb_In_false. intros Hin. rewrite Forall_forall in Hclean2. specialize (Hclean2 32 Hin). destruct Hclean2. lia. }
  rewrite Hsp. cbn [negb].
  rewrite (percent_encode_ascii_fix query_encode_set _ (cleanx_clean _ _ Hclean2)). cbn [bind].
  now rewrite upper_pe_idem.
Qed.

End Enc.
