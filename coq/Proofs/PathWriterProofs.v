(* C15, writer level: every path a file-writer session hands to os.makedirs /
   open() / os.symlink, for every session class and every option, is the
   download root followed by safe components.  Model: Model/PathWriter.v. *)
From Coq Require Import List NArith ZArith Bool Lia ZifyBool ZifyNat ZifyN.
From Wpull Require Import Model.Path Model.PathWriter Proofs.PathProofs Proofs.PathNormProofs.
Import ListNotations.
Open Scope N_scope.
Open Scope bool_scope.

Ltac Zify.zify_post_hook ::= Z.div_mod_to_equations.

(* ---------------------------------------------------------------- *)
(* the invariant of self._filename                                   *)
(* ---------------------------------------------------------------- *)
(* f = h ++ n : a directory prefix h (empty or ending in "/") that normpath
   resolves to the root's stack st0 followed by safe directory names, and a safe
   last name n.  (i, st0) is what normpath makes of the download root. *)
Definition placed (c : cfg) (i : nat) (st0 : list str) (f : str) : Prop :=
  exists h dirs n,
    f = h ++ n /\ hd_ok h /\ initial_slashes h = i /\ nstack h = st0 ++ dirs
    /\ Forall (safe_component c) dirs /\ safe_component c n.

(* the statement of the property: normpath(f) is normpath(root) followed by at
   least one component, every one of them safe, and these components are
   literally the trailing "/"-separated pieces of f *)
Definition inside (c : cfg) (i : nat) (st0 : list str) (f : str) : Prop :=
  exists comps, comps <> [] /\ Forall (safe_component c) comps
                /\ initial_slashes f = i /\ nstack f = st0 ++ comps.

(* the directory handed to os.makedirs: the root itself or inside it *)
Definition inside_or_root (c : cfg) (i : nat) (st0 : list str) (d : str) : Prop :=
  exists comps, Forall (safe_component c) comps /\ initial_slashes d = i /\ nstack d = st0 ++ comps.

Lemma safe_noslash c n : safe_component c n -> ~ In 47 n.
Proof. intros (_ & _ & _ & H & _). exact H. Qed.

Lemma placed_inside c i st0 f :
  placed c i st0 f -> inside c i st0 f /\ inside_or_root c i st0 (posix_dirname f).
Proof.
  intros (h & dirs & n & -> & Hh & Hi & Hs & Hd & Hn).
  pose proof (safe_noslash _ _ Hn) as Hns.
  split.
  - exists (dirs ++ [n]). split; [intros E; apply app_eq_nil in E; destruct E; discriminate|].
    split; [apply Forall_app; split; [assumption|constructor; [assumption|constructor]]|].
    rewrite init_hd_name by assumption. split; [assumption|].
    unfold nstack. rewrite init_hd_name, stk_hd_name by assumption.
    rewrite (step_psafe _ _ _ (safe_psafe _ _ Hn)). cbn [rev].
    unfold nstack in Hs. rewrite Hs. now rewrite app_assoc.
  - exists dirs. split; [assumption|].
    destruct (dirname_hd_name h n Hh Hns) as (_ & _ & S).
    destruct (nstack_same _ _ S) as [E1 E2]. rewrite E1, E2. auto.
Qed.

Lemma posix_join_one (X n : str) : n <> [] -> ~ In 47 n -> posix_join X (@cons str n nil) = dir_prefix X ++ n.
Proof.
  intros H1 H2. apply (posix_join_plain (@cons str n nil) X); [|discriminate].
  constructor; [split; assumption|constructor].
Qed.

Lemma safe_nonempty c n : safe_component c n -> n <> [].
Proof. intros (H & _). exact H. Qed.

Lemma placed_intro c i st0 h dirs n :
  hd_ok h -> initial_slashes h = i -> nstack h = st0 ++ dirs ->
  Forall (safe_component c) dirs -> safe_component c n -> placed c i st0 (h ++ n).
Proof. intros. exists h, dirs, n. auto 10. Qed.

Lemma placed_suffix c i st0 f s : placed c i st0 f -> tame c s -> placed c i st0 (f ++ s).
Proof.
  intros (h & dirs & n & -> & Hh & Hi & Hs & Hd & Hn) Ht.
  rewrite <- app_assoc. apply (placed_intro c i st0 h dirs (n ++ s)); auto. now apply safe_suffix.
Qed.

(* os.path.join(os.path.dirname(f), name) *)
Lemma placed_sibling c i st0 f m :
  placed c i st0 f -> safe_component c m ->
  placed c i st0 (dir_prefix (posix_dirname f) ++ m).
Proof.
  intros (h & dirs & n & -> & Hh & Hi & Hs & Hd & Hn) Hm.
  destruct (dirname_hd_name h n Hh (safe_noslash _ _ Hn)) as (H1 & H2 & _).
  destruct (nstack_same _ _ H2) as [E1 E2].
  apply (placed_intro c i st0 _ dirs m); auto; congruence.
Qed.

(* ---------------------------------------------------------------- *)
(* PathNamer.get_filename establishes the invariant                  *)
(* ---------------------------------------------------------------- *)
Definition dirs_str (ds : list str) : str := flat_map (fun d => d ++ [47]) ds.

Lemma J_dirs_str ds n : intercalate [47] (ds ++ [n]) = dirs_str ds ++ n.
Proof.
  induction ds as [|d ds IH]; [reflexivity|].
  change ((d :: ds) ++ [n]) with (d :: (ds ++ [n])).
  rewrite intercalate_cons by (intros E; apply app_eq_nil in E; destruct E; discriminate).
  rewrite IH. cbn [dirs_str flat_map]. now rewrite <- !app_assoc.
Qed.

Lemma push_dirs ds : forall h,
    hd_ok h -> Forall psafe ds ->
    hd_ok (h ++ dirs_str ds) /\ initial_slashes (h ++ dirs_str ds) = initial_slashes h
    /\ forall i, stk i (h ++ dirs_str ds) = rev ds ++ stk i h.
Proof.
  induction ds as [|d ds IH]; intros h Hh Hd.
  - cbn [dirs_str flat_map]. rewrite app_nil_r. auto.
  - inversion Hd as [|? ? Hp Hd']; subst. destruct Hp as (P1 & P2 & P3 & P4).
    assert (Hp : psafe d) by (repeat split; assumption).
    cbn [dirs_str flat_map]. fold (dirs_str ds).
    replace (h ++ (d ++ [47]) ++ dirs_str ds) with (((h ++ d) ++ [47]) ++ dirs_str ds)
      by now rewrite <- !app_assoc.
    assert (Hh1 : hd_ok ((h ++ d) ++ [47])) by (right; eauto).
    destruct (IH _ Hh1 Hd') as (A & B & C).
    assert (Hne : h ++ d <> []) by (intros E; apply app_eq_nil in E; destruct E; contradiction).
    assert (He : ends_with_char 47 (h ++ d) = false).
    { rewrite ends_with_char_app by assumption. now apply ends_with_char_notin. }
    split; [assumption|]. split.
    + rewrite B. change [47] with (repeat 47 1). rewrite init_app_last by assumption.
      now apply init_hd_name.
    + intros i. rewrite C. change [47] with (repeat 47 1). rewrite stk_slashes.
      rewrite stk_hd_name, step_psafe by assumption. cbn [rev]. now rewrite <- app_assoc.
Qed.

Lemma joined_placed c root parts :
  parts <> [] -> Forall (safe_component c) parts ->
  placed c (initial_slashes root) (nstack root) (dir_prefix root ++ intercalate [47] parts).
Proof.
  intros Hne Hall. destruct (exists_last Hne) as (ds & n & ->).
  apply Forall_app in Hall. destruct Hall as [Hds Hn]. inversion Hn as [|? ? Hn' _]; subst.
  rewrite J_dirs_str, app_assoc.
  assert (Hps : Forall psafe ds) by (eapply Forall_impl; [|exact Hds]; intros a; apply safe_psafe).
  destruct (push_dirs ds (dir_prefix root) (dir_prefix_hd_ok root) Hps) as (A & B & C).
  destruct (dir_prefix_same root) as [D1 D2].
  apply (placed_intro c _ _ (dir_prefix root ++ dirs_str ds) ds n); auto.
  - congruence.
  - unfold nstack. rewrite B, D1, C, D2, rev_app_distr, rev_involutive. reflexivity.
Qed.

(* ---------------------------------------------------------------- *)
(* _compute_filename                                                 *)
(* ---------------------------------------------------------------- *)
Lemma suffixed_safe c dirs dirs' :
  Forall2 suffixed_d dirs dirs' -> Forall (safe_component c) dirs -> Forall (safe_component c) dirs'.
Proof.
  induction 1 as [|d d' l l' [->| ->] H IH]; intros Hall; [constructor| |];
    inversion Hall; subst; constructor; auto.
  apply safe_suffix; [assumption|apply tame_suffix_d].
Qed.

Section Fs.
  Variable fs_isfile_o fs_isdir_o fs_exists_o : str -> bool.

  (* os.path.join(anti_clobber_dir_path(dirname(path)), basename(path)) *)
  Lemma anti_clobber_join_placed c i st0 path :
    placed c i st0 path -> root_clean fs_isfile_o i st0 ->
    placed c i st0 (posix_join (anti_clobber_dir_path fs_isfile_o (posix_dirname path)) [posix_basename path]).
  Proof.
    intros (h & dirs & n & -> & Hh & Hi & Hs & Hd & Hn) Hrc.
    pose proof (safe_noslash _ _ Hn) as Hns.
    rewrite basename_hd_name by assumption.
    destruct (dirname_hd_name h n Hh Hns) as (_ & _ & S).
    destruct (nstack_same _ _ S) as [E1 E2].
    set (D := posix_dirname (h ++ n)) in *.
    assert (Hps : Forall psafe dirs) by (eapply Forall_impl; [|exact Hd]; intros a; apply safe_psafe).
    destruct (acdp_placed fs_isfile_o D st0 dirs) as (dirs' & A1 & A2 & A3);
      [congruence|rewrite E1, Hi; assumption|assumption|].
    set (X := anti_clobber_dir_path fs_isfile_o D) in *.
    rewrite posix_join_one by (eauto using safe_nonempty).
    destruct (nstack_same _ _ (dir_prefix_same X)) as [F1 F2].
    apply (placed_intro c i st0 (dir_prefix X) dirs' n); auto.
    - apply dir_prefix_hd_ok.
    - congruence.
    - congruence.
    - eapply suffixed_safe; eauto.
  Qed.

  Lemma compute_filename_placed c i st0 path f :
    placed c i st0 path -> root_clean fs_isfile_o i st0 ->
    compute_filename fs_isfile_o fs_isdir_o path = Some f -> placed c i st0 f.
  Proof.
    intros Hp Hrc H. unfold compute_filename in H. destruct (fs_isdir_o path).
    - inversion H; subst. apply placed_suffix; [assumption|apply tame_suffix_f].
    - inversion H; subst. now apply anti_clobber_join_placed.
  Qed.

  (* decimal digits *)
  Lemma dec_digits_ok fuel : forall n acc,
      Forall (fun x => 48 <= x <= 57) acc -> (fuel <> 0)%nat \/ acc <> [] ->
      Forall (fun x => 48 <= x <= 57) (dec_digits fuel n acc) /\ dec_digits fuel n acc <> [].
  Proof.
    induction fuel as [|fuel IH]; intros n acc Ha Hne; cbn [dec_digits].
    - split; [assumption|]. destruct Hne; [contradiction|assumption].
    - assert (Hd : 48 <= 48 + n mod 10 <= 57) by lia.
      destruct (n / 10 =? 0).
      + split; [constructor; assumption|discriminate].
      + apply IH; [constructor; assumption|right; discriminate].
  Qed.

  Lemma tame_dot_number c m : tame c ([46] ++ N_to_dec m).
  Proof.
    unfold N_to_dec. destruct (dec_digits_ok (S (N.size_nat m)) m [] (Forall_nil _)) as [Hd Hne]; [left; discriminate|].
    set (ds := dec_digits _ _ _) in *. destruct ds as [|d0 ds]; [contradiction|].
    apply tame_lit.
    - constructor; [lia|]. eapply Forall_impl; [|exact Hd]. cbv beta. intros a Ha. lia.
    - exists d0. split; [cbn; auto|]. inversion Hd; subst. lia.
  Qed.

  Lemma first_free_spec fuel : forall original k cand,
      first_free fs_exists_o fuel original k = Some cand ->
      cand = original \/ exists m, cand = original ++ [46] ++ N_to_dec m.
  Proof.
    induction fuel as [|fuel IH]; intros original k cand H; [discriminate|].
    cbn [first_free] in H.
    destruct (fs_exists_o (if k =? 0 then original else original ++ [46] ++ N_to_dec k)).
    - eapply IH; eauto.
    - inversion H; subst. destruct (k =? 0); [now left|right; exists k; reflexivity].
  Qed.

  Lemma compute_filename_anticlobber_placed c i st0 fuel path f :
    placed c i st0 path -> root_clean fs_isfile_o i st0 ->
    compute_filename_anticlobber fs_isfile_o fs_exists_o fuel path = Some f -> placed c i st0 f.
  Proof.
    intros Hp Hrc H. unfold compute_filename_anticlobber in H.
    pose proof (anti_clobber_join_placed c i st0 path Hp Hrc) as Hq.
    destruct (first_free_spec _ _ _ _ H) as [->|(m & ->)]; [assumption|].
    apply placed_suffix; [assumption|apply tame_dot_number].
  Qed.

  (* ---------------------------------------------------------------- *)
  (* the session                                                       *)
  (* ---------------------------------------------------------------- *)
  Variable sha1hex : list N -> str.
  Variable pylower pyupper : str -> str.
  Hypothesis Hsha : sha1_shape sha1hex.
  Hypothesis Hlower : case_map_safe pylower.
  Hypothesis Hupper : case_map_safe pyupper.

  Definition url_ok (c : cfg) (u : urlparts) : Prop :=
    (protocol c = true -> u_scheme u <> []) /\ u_hostname u <> Some [].

  Lemma session_compute_placed k fuel c root u f :
    index c <> [] -> url_ok c u -> root_clean fs_isfile_o (initial_slashes root) (nstack root) ->
    session_compute sha1hex pylower pyupper fs_isfile_o fs_isdir_o fs_exists_o k fuel c root u = Ok (Some f) ->
    placed c (initial_slashes root) (nstack root) f.
  Proof.
    intros Hi [Hs Hh] Hrc H. unfold session_compute, bind in H.
    destruct (get_filename _ _ _ c root u) as [path|] eqn:EG; [|discriminate].
    destruct (path_inside_root sha1hex pylower pyupper Hsha Hlower Hupper c root u path Hi Hs Hh EG)
      as (parts & Hne & Hall & ->).
    pose proof (joined_placed c root parts Hne Hall) as Hp.
    inversion H as [H']. destruct k.
    1-3: eapply compute_filename_placed; eauto.
    eapply compute_filename_anticlobber_placed; eauto.
  Qed.

  Lemma tame_ext_html c : tame c ext_html.
  Proof. apply tame_lit; [repeat constructor; lia|exists 104; split; [cbn; auto|lia]]. Qed.
  Lemma tame_ext_css c : tame c ext_css.
  Proof. apply tame_lit; [repeat constructor; lia|exists 99; split; [cbn; auto|lia]]. Qed.
  Lemma tame_dummy c : tame c suffix_dummy.
  Proof. apply tame_lit; [repeat constructor; lia|exists 100; split; [cbn; auto|lia]]. Qed.

  Lemma append_extension_placed c i st0 http html css f :
    placed c i st0 f -> placed c i st0 (append_extension http html css f).
  Proof.
    intros Hp. unfold append_extension.
    destruct (is_nil f); [assumption|]. destruct (negb http); [assumption|].
    destruct (negb (ends_rev pat_html f) && html); [apply placed_suffix; [assumption|apply tame_ext_html]|].
    destruct (negb (ends_rev pat_css f) && css); [apply placed_suffix; [assumption|apply tame_ext_css]|].
    assumption.
  Qed.

  Lemma rename_cd_placed c i st0 http header old new :
    placed c i st0 old ->
    rename_with_content_disposition sha1hex pylower pyupper c http header old = Ok new ->
    placed c i st0 new.
  Proof.
    intros Hp H.
    destruct (cd_path_inside_dir sha1hex pylower pyupper Hsha Hlower Hupper c http header old new H)
      as [->|(name & Hn & ->)]; [assumption|].
    now apply placed_sibling.
  Qed.

  Definition opened (o : wout) (f : str) : Prop := o = WOpen f \/ o = WAppend f.

  Lemma process_response_placed w fuel c root cont r f0 o f :
    index c <> [] -> url_ok c (r_url r) ->
    root_clean fs_isfile_o (initial_slashes root) (nstack root) ->
    placed c (initial_slashes root) (nstack root) f0 ->
    process_response_name sha1hex pylower pyupper fs_isfile_o fs_isdir_o fs_exists_o w fuel c root cont r f0 = Ok o ->
    opened o f -> placed c (initial_slashes root) (nstack root) f.
  Proof.
    intros Hi Hu Hrc Hp H Ho. unfold process_response_name, bind in H.
    destruct (is_nil f0); [inversion H; subst; destruct Ho; discriminate|].
    destruct (r_ftp r).
    { destruct cont; [destruct (r_restart r)|]; inversion H; subst; destruct Ho as [Ho|Ho]; inversion Ho; subst; assumption. }
    destruct cont.
    { destruct (r_code r =? 206)%Z; inversion H; subst; destruct Ho as [Ho|Ho]; inversion Ho; subst; assumption. }
    destruct (((200 <=? r_code r) && (r_code r <=? 299) || (400 <=? r_code r))%Z);
      [|inversion H; subst; destruct Ho; discriminate].
    destruct (if w_trust w && r_http r then _ else _) as [[f1|]|] eqn:E1; try discriminate;
      [|inversion H; subst; destruct Ho; discriminate].
    assert (Hp1 : placed c (initial_slashes root) (nstack root) f1).
    { destruct (w_trust w && r_http r);
        [exact (session_compute_placed (w_kind w) fuel c root (r_url r) f1 Hi Hu Hrc E1)|inversion E1; subst; assumption]. }
    destruct (if w_cd w then _ else _) as [f2|] eqn:E2; [|discriminate].
    assert (Hp2 : placed c (initial_slashes root) (nstack root) f2).
    { destruct (w_cd w); [eapply rename_cd_placed; eauto|inversion E2; subst; assumption]. }
    inversion H; subst. destruct Ho as [Ho|Ho]; inversion Ho; subst.
    destruct (w_adjust w); [now apply append_extension_placed|assumption].
  Qed.

  Theorem session_run_placed w fuel c root u r o f :
    index c <> [] -> url_ok c u -> url_ok c (r_url r) ->
    root_clean fs_isfile_o (initial_slashes root) (nstack root) ->
    session_run sha1hex pylower pyupper fs_isfile_o fs_isdir_o fs_exists_o w fuel c root u r = Ok o ->
    opened o f -> placed c (initial_slashes root) (nstack root) f.
  Proof.
    intros Hi Hu1 Hu2 Hrc H Ho. unfold session_run, process_request_name, bind in H.
    destruct (session_compute _ _ _ _ _ _ (w_kind w) fuel c root u) as [[f0|]|] eqn:E0; try discriminate;
      [|inversion H; subst; destruct Ho; discriminate].
    refine (process_response_placed w fuel c root _ r f0 o f Hi Hu2 Hrc _ H Ho).
    exact (session_compute_placed (w_kind w) fuel c root u f0 Hi Hu1 Hrc E0).
  Qed.

  (* the name chosen by process_request (kept when nothing is opened) *)
  Theorem process_request_placed w fuel c root u f cont :
    index c <> [] -> url_ok c u ->
    root_clean fs_isfile_o (initial_slashes root) (nstack root) ->
    process_request_name sha1hex pylower pyupper fs_isfile_o fs_isdir_o fs_exists_o w fuel c root u = Ok (Some (f, cont)) ->
    placed c (initial_slashes root) (nstack root) f.
  Proof.
    intros Hi Hu Hrc H. unfold process_request_name, bind in H.
    destruct (session_compute _ _ _ _ _ _ (w_kind w) fuel c root u) as [[f0|]|] eqn:E0; try discriminate.
    inversion H; subst. exact (session_compute_placed (w_kind w) fuel c root u f Hi Hu Hrc E0).
  Qed.

  (* os.makedirs gets the directory of the opened file *)
  Theorem makedirs_inside c i st0 f d :
    placed c i st0 f -> makedirs_arg fs_exists_o f = Some d -> inside_or_root c i st0 d.
  Proof.
    intros Hp H. unfold makedirs_arg in H.
    destruct (negb (is_nil (posix_dirname f)) && negb (fs_exists_o (posix_dirname f))); [|discriminate].
    inversion H; subst. now apply placed_inside.
  Qed.

  Theorem extra_resource_placed c i st0 f s p :
    placed c i st0 f -> tame c s -> extra_resource_path f s = Some p -> placed c i st0 p.
  Proof.
    intros Hp Ht H. unfold extra_resource_path in H. destruct (is_nil f); [discriminate|].
    inversion H; subst. now apply placed_suffix.
  Qed.

  Theorem symlink_placed c i st0 f link p :
    placed c i st0 f ->
    symlink_path sha1hex pylower pyupper c f link = Ok (Some p) -> placed c i st0 p.
  Proof.
    intros Hp H. unfold symlink_path, extra_resource_path, bind in H.
    destruct (is_nil f); [discriminate|].
    destruct (is_nil (f ++ suffix_dummy) || is_nil link) eqn:E; [discriminate|].
    apply orb_false_iff in E. destruct E as [_ El]. apply is_nil_false in El.
    destruct (safe_filename _ _ _ c link) as [n|] eqn:ES; [|discriminate].
    assert (Ep : p = posix_join (posix_dirname (f ++ suffix_dummy)) (@cons str n nil)) by congruence.
    subst p. clear H.
    pose proof (safe_filename_safe sha1hex pylower pyupper Hsha Hlower Hupper c link n El ES) as Hn.
    rewrite posix_join_one by (eauto using safe_nonempty, safe_noslash).
    apply placed_sibling; [|assumption].
    apply placed_suffix; [assumption|apply tame_dummy].
  Qed.
End Fs.
