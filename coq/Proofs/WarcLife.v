(* C05 / C07, part 4: the invariants of Proofs/WarcInv.v hold after __init__, are
   kept by every event (Proofs/WarcSteps.v) and survive close() (log record,
   meta file); the statements about a whole recorder lifetime follow. *)
From Coq Require Import List NArith Bool Lia Arith ZifyBool ZifyNat ZifyN.
From Wpull Require Import Lib.Decimal Lib.FsModel Lib.ListX Model.Warc Proofs.WarcSteps Proofs.WarcInv.
Import ListNotations.
Open Scope N_scope.
Open Scope bool_scope.

Section Life.
  Variable fuel : nat.
  Variable O : oracles.
  Variable C : cfg.
  Variable s0 : fs.

  (* what the CDX file holds before this recorder's first line *)
  Definition cdx_base : bytes := content (start_new_cdx_file C s0) (cdx_name C).

  Definition init' : state :=
    mkSt s0 0 (gen_name C 0 false) (gen_base C 0 false) [] 0 0 [] [] [].

  Lemma core_init' : Core O C s0 init'.
  Proof.
    constructor; unfold evs, init'; cbn [st_fs st_trace st_lines st_cur st_cur_base writes flat_map].
    - intros f _. cbn. rewrite app_nil_r. reflexivity.
    - constructor.
    - constructor.
    - reflexivity.
    - split; [reflexivity|]. exists 0, false. reflexivity.
    - constructor.
    - intros _ f. reflexivity.
  Qed.

  Lemma start_init : start_new_warc_file fuel O C (init_state s0) false = start_new_warc_file fuel O C init' false.
  Proof. reflexivity. Qed.

  Lemma warcinfo_not_cdx k v : is_cdx_record (fset n_info v (p_fields (warcinfo_prec O C k))) = false.
  Proof. unfold is_cdx_record. rewrite (warcinfo_fields_type O C k v). reflexivity. Qed.

  Lemma content_cdxinit s f : f <> cdx_name C -> content (start_new_cdx_file C s) f = content s f.
  Proof.
    intros H. unfold start_new_cdx_file.
    destruct (negb (c_appending C)); [apply content_set_other; congruence|].
    destruct (exists_file s (cdx_name C)); [reflexivity|apply content_set_other; congruence].
  Qed.

  Lemma core_cdxinit st :
    Core O C s0 st ->
    Core O C s0 (mkSt (start_new_cdx_file C (st_fs st)) (st_seq st) (st_cur st) (st_cur_base st) (st_info_id st)
                      (st_next st) (st_widx st) (st_trace st) (st_lines st) (st_sess st)).
  Proof.
    intros [H1 H2 H3 H4 H5 H6 H7]. constructor; unfold evs in *; cbn [st_fs st_trace st_lines st_cur st_cur_base]; try assumption.
    - intros f Hf. rewrite content_cdxinit by exact Hf. apply H1, Hf.
    - rewrite Forall_forall in *. intros e In1. specialize (H3 e In1). specialize (H2 e In1).
      destruct H2 as (_ & _ & _ & _ & _ & s & m & E).
      unfold slice_ok, size in *. rewrite content_cdxinit; [exact H3|].
      rewrite E. intros Y. symmetry in Y. revert Y. apply cdx_name_ne.
  Qed.

  Lemma lookup_append_other s f g b : f <> g -> lookup (append_file s f b) g = lookup s g.
  Proof. intros H. unfold append_file. apply lookup_set_other, H. Qed.

  Lemma init_inv st0 : recorder_init fuel O C s0 = Some st0 -> Inv O C s0 cdx_base st0.
  Proof.
    unfold recorder_init. rewrite start_init.
    destruct (start_new_warc_file fuel O C init' false) as [sa|] eqn:S; [|discriminate].
    assert (X0 : CdxInv C (content s0 (cdx_name C)) init').
    { intros _. cbn. rewrite app_nil_r. reflexivity. }
    destruct (start_inv fuel O C s0 (content s0 (cdx_name C)) init' sa false core_init' X0) as (A1 & A2 & A3 & A4);
      [intros _ m _; constructor|intros _ _; reflexivity|exact S|].
    specialize (A4 eq_refl).
    (* the state after the first warcinfo record, explicitly *)
    unfold start_new_warc_file in S. destruct (choose_seq fuel C init' false) as [seq|]; [|discriminate].
    injection S as S.
    assert (L0 : st_lines sa = []).
    { rewrite <- S. unfold write_record. cbn [st_lines]. rewrite warcinfo_not_cdx, andb_false_r. reflexivity. }
    destruct (c_cdx C) eqn:X.
    - intros H. injection H as <-.
      split; [apply core_cdxinit, A1|]. split; [exact A2|]. split; [exact A4|].
      intros _. cbn [st_fs st_lines]. rewrite L0. cbn [map concat]. rewrite app_nil_r.
      unfold cdx_base, start_new_cdx_file.
      destruct (negb (c_appending C)) eqn:NA; [rewrite !content_set_same; reflexivity|].
      assert (LK : lookup (st_fs sa) (cdx_name C) = lookup s0 (cdx_name C)).
      { rewrite <- S. unfold write_record. cbn [st_fs]. rewrite warcinfo_not_cdx, andb_false_r.
        rewrite lookup_append_other.
        - unfold open_file. cbn [st_fs]. rewrite NA. reflexivity.
        - unfold open_file. cbn [st_cur]. intros Y. symmetry in Y. revert Y. apply cdx_name_ne. }
      unfold exists_file, content. rewrite LK.
      destruct (lookup s0 (cdx_name C)) eqn:E.
      + unfold content. rewrite LK, E. reflexivity.
      + rewrite !lookup_set_same. reflexivity.
    - intros H. injection H as <-. split; [exact A1|]. split; [exact A2|]. split; [exact A4|].
      intros Y. congruence.
  Qed.

  (* close(): what remains true of the final state *)
  Definition Final (st : state) : Prop := Core O C s0 st /\ InfoInv st /\ CdxInv C cdx_base st.

  Lemma close_final st st' logblock :
    Inv O C s0 cdx_base st -> recorder_close fuel O C st logblock = Some st' -> Final st'.
  Proof.
    intros (Hc & Hi & Hf & Hx). unfold recorder_close.
    destruct (c_log C); [|intros H; injection H as <-; split; [exact Hc|split; [exact Hi|exact Hx]]].
    assert (Hc' : Core O C s0 (bump_next st)) by (eapply core_same; [..|exact Hc]; reflexivity).
    destruct (c_max_size C) as [m|] eqn:M.
    - destruct (start_new_warc_file fuel O C (bump_next st) true) as [s1|] eqn:S; [|discriminate].
      intros H. injection H as <-.
      destruct (start_inv fuel O C s0 cdx_base (bump_next st) s1 true Hc' Hx) as (A1 & A2 & A3 & _).
      + intros A m' M'. rewrite M in M'. destruct (Hf A m M) as (_ & F2).
        eapply Forall_impl; [|exact F2]. intros e (s & L & E). exists s. split; [discriminate|exact E].
      + intros _ N. congruence.
      + exact S.
      + split; [apply core_write; [apply slm_local_plain|exact A1|exact A2]|].
        split; [apply info_write, A2|].
        apply cdx_write; [|exact A3]. destruct A1 as [_ _ _ _ (_ & X) _ _]. exact X.
    - intros H. injection H as <-.
      split; [apply core_write; [apply slm_local_plain|exact Hc'|exact Hi]|].
      split; [apply info_write, Hi|].
      apply cdx_write; [|exact Hx]. destruct Hc as [_ _ _ _ (_ & X) _ _]. exact X.
  Qed.

  Theorem lifetime_final ops logblock st :
    lifetime fuel O C s0 ops logblock = Some st -> Final st.
  Proof.
    unfold lifetime.
    destruct (recorder_init fuel O C s0) as [st0|] eqn:I0; [|discriminate].
    destruct (run_ops fuel O C st0 ops) as [st1|] eqn:R; [|discriminate].
    intros Hc. eapply close_final; [|exact Hc].
    eapply reach_inv; [eapply run_ops_reach; exact R|]. apply init_inv, I0.
  Qed.
End Life.
