(* C11: URL parsing and joining are total.  Every failure of the model of
   URLInfo.parse is of a kind caught by "except ValueError"; the documented
   accessors of a parsed URL never fail; parse_url_or_log never fails; urljoin
   fails only with what urllib.parse.urljoin fails with. *)
From Coq Require Import List NArith ZArith Bool Lia Arith.
From Coq Require Import ZifyBool ZifyNat ZifyN.
From Wpull Require Import Model.UrlLib Model.Url Proofs.UrlPeProofs.
Import ListNotations.
Open Scope N_scope.

Lemma bind_err {A B} (r : result A) (f : A -> result B) k :
  bind r f = Err k -> r = Err k \/ exists a, r = Ok a /\ f a = Err k.
Proof. destruct r as [a|k']; cbn [bind]; intros H; [right; eauto | left; congruence]. Qed.

Lemma bind_ok {A B} (r : result A) (f : A -> result B) b :
  bind r f = Ok b -> exists a, r = Ok a /\ f a = Ok b.
Proof. destruct r as [a|k']; cbn [bind]; intros H; [eauto | discriminate]. Qed.

Section Total.
Variable enc : str -> option (list N).
Variable lower_o : str -> str.
Variable idna_o : str -> option str.
Variable ipv6_o : str -> option str.
Variable int_o : N -> str -> option Z.
Variable unq_o : str -> str.

Notation VE k := (is_value_error k = true).

(* ---------- the failure kinds of each helper ---------- *)
Lemma percent_encode_err set t k : percent_encode enc set t = Err k -> k = UnicodeErr.
Proof. unfold percent_encode. destruct (enc t); congruence. Qed.

Lemma percent_encode_plus_err set t k : percent_encode_plus enc set t = Err k -> k = UnicodeErr.
Proof.
  unfold percent_encode_plus. destruct (negb (memb 32 t)); [apply percent_encode_err|].
  intros H. apply bind_err in H. destruct H as [H|[a [_ H]]]; [now apply percent_encode_err in H | discriminate].
Qed.

Lemma normalize_path_err p k : normalize_path enc p = Err k -> k = UnicodeErr.
Proof.
  unfold normalize_path. intros H. apply bind_err in H.
  destruct H as [H|[a [_ H]]]; [now apply percent_encode_err in H | discriminate].
Qed.

Lemma normalize_query_err p k : normalize_query enc p = Err k -> k = UnicodeErr.
Proof.
  unfold normalize_query. intros H. apply bind_err in H.
  destruct H as [H|[a [_ H]]]; [now apply percent_encode_plus_err in H | discriminate].
Qed.

Lemma normalize_fragment_err p k : normalize_fragment enc p = Err k -> k = UnicodeErr.
Proof.
  unfold normalize_fragment. intros H. apply bind_err in H.
  destruct H as [H|[a [_ H]]]; [now apply percent_encode_err in H | discriminate].
Qed.

Lemma normalize_userpart_err set p k : normalize_userpart enc set p = Err k -> k = UnicodeErr.
Proof.
  unfold normalize_userpart. intros H. apply bind_err in H.
  destruct H as [H|[a [_ H]]]; [now apply percent_encode_err in H | discriminate].
Qed.

Lemma normalize_hostname_err h k : normalize_hostname idna_o h = Err k -> k = UnicodeErr.
Proof.
  unfold normalize_hostname. destruct (idna_encode idna_o h) as [r|]; [|congruence].
  destruct (negb (all_ascii r)); [congruence|].
  destruct (str_eqb h (lower_ascii r)); [discriminate|].
  destruct (idna_encode idna_o (lower_ascii r)); [discriminate|congruence].
Qed.

Lemma parse_ipv6_hostname_err h k : parse_ipv6_hostname ipv6_o h = Err k -> k = ValueErr \/ k = AddressValueErr.
Proof.
  unfold parse_ipv6_hostname. destruct (negb (startswith h [91]) || negb (last_is h 93)); [left; congruence|].
  destruct (memb 37 (removelast (tl h))); [left; congruence|].
  destruct (ipv6_o (removelast (tl h))); [discriminate|right; congruence].
Qed.

Lemma parse_hostname_err h k : parse_hostname idna_o ipv6_o int_o h = Err k -> VE k.
Proof.
  unfold parse_hostname. destruct (startswith h [91]).
  - intros H. apply parse_ipv6_hostname_err in H. destruct H; subst; reflexivity.
  - intros H. apply bind_err in H. destruct H as [H|[a [_ H]]].
    + apply normalize_hostname_err in H. subst. reflexivity.
    + destruct (existsb _ forbidden_hostname_chars); [|discriminate]. inversion H. reflexivity.
Qed.

Lemma parse_host_err h k : parse_host idna_o ipv6_o int_o h = Err k -> VE k.
Proof.
  unfold parse_host. destruct (last_is h 93).
  - intros H. apply bind_err in H. destruct H as [H|[a [_ H]]]; [now apply parse_hostname_err in H | discriminate].
  - destruct (rpartition 58 h) as [[hn port]|].
    + destruct (py_int int_o 10 port) as [p|]; [|intros H; inversion H; reflexivity].
      destruct ((p <? 0)%Z || (65535 <? p)%Z); [intros H; inversion H; reflexivity|].
      intros H. apply bind_err in H. destruct H as [H|[a [_ H]]]; [now apply parse_hostname_err in H | discriminate].
    + intros H. apply bind_err in H. destruct H as [H|[a [_ H]]]; [now apply parse_hostname_err in H | discriminate].
Qed.

Lemma parse_network_err url scheme dport rem k :
  parse_network enc idna_o ipv6_o int_o unq_o url scheme dport rem = Err k -> VE k.
Proof.
  unfold parse_network.
  destruct (split_remaining _) as [[[[authority resource] path] query] fragment].
  destruct (parse_authority authority) as [userinfo host].
  intros H. apply bind_err in H. destruct H as [H|[[hostname port] [_ H]]]; [now apply parse_host_err in H|].
  destruct (parse_userinfo userinfo) as [username password].
  destruct (is_nil hostname); [inversion H; reflexivity|].
  apply bind_err in H. destruct H as [H|[npath [_ H]]]; [apply normalize_path_err in H; subst; reflexivity|].
  apply bind_err in H. destruct H as [H|[nquery [_ H]]]; [apply normalize_query_err in H; subst; reflexivity|].
  apply bind_err in H. destruct H as [H|[nfrag [_ H]]]; [apply normalize_fragment_err in H; subst; reflexivity|].
  apply bind_err in H. destruct H as [H|[un [_ H]]]; [apply normalize_userpart_err in H; subst; reflexivity|].
  apply bind_err in H. destruct H as [H|[pw [_ H]]]; [apply normalize_userpart_err in H; subst; reflexivity|].
  discriminate.
Qed.

(* every rejection of URLInfo.parse is a ValueError (UnicodeError and
   AddressValueError are subclasses), for every input string and all oracles *)
Theorem parse_only_value_error (s : str) (k : ekind) :
  parse enc lower_o idna_o ipv6_o int_o unq_o s = Err k -> VE k.
Proof.
  unfold parse. destruct (existsb _ (strip s)); [intros H; inversion H; reflexivity|].
  destruct (split_scheme lower_o (strip s)) as [[scheme rem]|]; [|intros H; inversion H; reflexivity].
  destruct (default_port scheme) as [dport|]; [apply parse_network_err | discriminate].
Qed.

Theorem parse_url_or_log_never_raises (s : str) :
  exists r, parse_url_or_log enc lower_o idna_o ipv6_o int_o unq_o s = Ok r.
Proof.
  unfold parse_url_or_log.
  destruct (parse enc lower_o idna_o ipv6_o int_o unq_o s) as [i|k] eqn:E; [eauto|].
  rewrite (parse_only_value_error s k E). eauto.
Qed.

(* ---------- accessors of a parsed URL ---------- *)
(* IPv6Address(..).compressed never contains a bracket (sampled every run) *)
Hypothesis ipv6_no_brackets : forall x c, ipv6_o x = Some c -> memb 91 c = false /\ memb 93 c = false.

Lemma existsb_forbidden_false h c :
  existsb (fun c => memb c h) forbidden_hostname_chars = false -> In c forbidden_hostname_chars -> memb c h = false.
Proof.
  intros H Hin. destruct (memb c h) eqn:E; [|reflexivity].
  assert (existsb (fun c => memb c h) forbidden_hostname_chars = true) by (apply existsb_exists; eauto). congruence.
Qed.

Lemma parse_hostname_no_brackets h r :
  parse_hostname idna_o ipv6_o int_o h = Ok r -> memb 91 r = false /\ memb 93 r = false.
Proof.
  unfold parse_hostname. destruct (startswith h [91]).
  - unfold parse_ipv6_hostname. destruct (_ || _); [discriminate|].
    destruct (memb 37 _); [discriminate|].
    destruct (ipv6_o _) as [c|] eqn:E; [|discriminate]. intros H. inversion H; subst. eapply ipv6_no_brackets; eauto.
  - intros H. apply bind_ok in H. destruct H as [a [_ H]].
    destruct (existsb _ forbidden_hostname_chars) eqn:E; [discriminate|]. inversion H; subst.
    split; apply (existsb_forbidden_false _ _ E); cbn; tauto.
Qed.

Lemma parse_host_no_brackets h r p :
  parse_host idna_o ipv6_o int_o h = Ok (r, p) -> memb 91 r = false /\ memb 93 r = false.
Proof.
  unfold parse_host. destruct (last_is h 93).
  - intros H. apply bind_ok in H. destruct H as [a [Ha H]]. inversion H; subst. eapply parse_hostname_no_brackets; eauto.
  - destruct (rpartition 58 h) as [[hn port]|].
    + destruct (py_int int_o 10 port) as [pz|]; [|discriminate].
      destruct (_ || _); [discriminate|].
      intros H. apply bind_ok in H. destruct H as [a [Ha H]]. inversion H; subst. eapply parse_hostname_no_brackets; eauto.
    + intros H. apply bind_ok in H. destruct H as [a [Ha H]]. inversion H; subst. eapply parse_hostname_no_brackets; eauto.
Qed.

(* what parse_network guarantees about its result *)
Lemma parse_network_ok url scheme dport rem i :
  parse_network enc idna_o ipv6_o int_o unq_o url scheme dport rem = Ok i ->
  u_scheme i = scheme /\
  (memb 91 (u_hostname i) = false /\ memb 93 (u_hostname i) = false) /\
  (exists a, normalize_userpart enc username_encode_set (u_username i) = Ok a) /\
  (exists a, normalize_userpart enc password_encode_set (u_password i) = Ok a).
Proof.
  unfold parse_network.
  destruct (split_remaining _) as [[[[authority resource] path] query] fragment].
  destruct (parse_authority authority) as [userinfo host].
  intros H. apply bind_ok in H. destruct H as [[hostname port] [Hh H]].
  destruct (parse_userinfo userinfo) as [username password].
  destruct (is_nil hostname); [discriminate|].
  apply bind_ok in H. destruct H as [npath [_ H]].
  apply bind_ok in H. destruct H as [nquery [_ H]].
  apply bind_ok in H. destruct H as [nfrag [_ H]].
  apply bind_ok in H. destruct H as [un [Hun H]].
  apply bind_ok in H. destruct H as [pw [Hpw H]].
  inversion H; subst; cbn.
  split; [reflexivity|]. split; [eapply parse_host_no_brackets; eauto|]. split; eauto.
Qed.

(* the documented accessors with a failure path: url, hostname_with_port, query_map
   (is_port_default, is_ipv6, split_path, to_dict's other fields are total functions
   of the record) *)
Theorem accessors_total (s : str) (i : urlinfo) :
  parse enc lower_o idna_o ipv6_o int_o unq_o s = Ok i ->
  (exists u, url_of enc i = Ok u) /\ (exists h, hostname_with_port i = Ok h) /\ (exists m, query_map i = Ok m).
Proof.
  unfold parse. destruct (existsb _ (strip s)); [discriminate|].
  destruct (split_scheme lower_o (strip s)) as [[scheme rem]|]; [|discriminate].
  destruct (default_port scheme) as [dport|] eqn:Ed.
  - intros H. apply parse_network_ok in H. destruct H as [Hs [[Hb1 Hb2] [[a Ha] [b Hb]]]].
    split; [|split].
    + unfold url_of. rewrite Hs, Ed.
      destruct (is_nil (u_username i)); destruct (is_nil (u_password i)); cbn [bind];
        rewrite ?Ha, ?Hb; cbn [bind]; eauto.
    + unfold hostname_with_port. rewrite Hs, Ed, Hb1, Hb2. cbn [orb].
      destruct (dport =? u_port i); eauto.
    + unfold query_map. destruct (u_network i); eauto.
  - intros H. inversion H; subst. split; [|split].
    + unfold url_of. cbn [u_scheme]. rewrite Ed. eauto.
    + unfold hostname_with_port. cbn [u_scheme]. rewrite Ed. eauto.
    + unfold query_map. cbn. eauto.
Qed.

End Total.

(* ---------- urljoin / urljoin_safe ---------- *)
Section JoinTotal.
Variable lib_urljoin : str -> str -> result str.
(* urllib.parse.urljoin raises nothing but ValueError (stdlib assumption, sampled) *)
Hypothesis lib_only_value_error : forall b u k, lib_urljoin b u = Err k -> is_value_error k = true.

Theorem urljoin_only_value_error b u k : urljoin lib_urljoin b u = Err k -> is_value_error k = true.
Proof.
  unfold urljoin. destruct (startswith u [47; 47] && Nat.ltb 2 (length u)); [|apply lib_only_value_error].
  destruct (partition 58 b) as [[scheme sep] rest]. destruct (negb (is_nil scheme)); apply lib_only_value_error.
Qed.

Theorem urljoin_safe_never_raises b u : exists r, urljoin_safe lib_urljoin b u = Ok r.
Proof.
  unfold urljoin_safe. destruct (urljoin lib_urljoin b u) as [x|k] eqn:E; [eauto|].
  rewrite (urljoin_only_value_error b u k E). eauto.
Qed.
End JoinTotal.
