(* C10, equivalent spellings at the level of the whole network URL text: two URLs whose PATH texts normalize
   alike (dot segments, empty segments, "x/..") and two URLs whose HOST texts differ only in ASCII letter case
   are both rejected with the same kind, or parse to the same normalized form and components. *)
From Coq Require Import List NArith ZArith Bool Lia Arith.
From Coq Require Import ZifyBool ZifyNat ZifyN.
From Wpull Require Import Model.UrlLib Model.Url Proofs.UrlPeProofs Proofs.UrlStrProofs Proofs.UrlPathProofs
  Proofs.UrlTotalProofs Proofs.UrlHostProofs Proofs.UrlNormProofs Proofs.UrlEquivProofs Proofs.UrlEquiv2Proofs Proofs.UrlFragProofs.
Import ListNotations.
Open Scope N_scope.

(* ---------- the component split of  /P0 T  (P0 free of ? and #, T empty or starting with ? or #) ---------- *)
Definition tail_ok (T : str) : Prop := match T with [] => True | c :: _ => c = 63 \/ c = 35 end.
Definition tail_k (T : str) : nat := match find_idx 35 T with Some i => i | None => length T end.
Definition tail_query (T : str) : str := slice 1 (tail_k T) T.
Definition tail_fragment (T : str) : str := skipn (S (tail_k T)) T.

Lemma min_found_zero_head l d : min_found (Some 0%nat :: l) d = 0%nat.
Proof.
  unfold min_found. cbn [fold_right]. destruct (fold_right _ None l); reflexivity.
Qed.

Lemma min_found_tail T : tail_ok T -> min_found [find_idx 63 T; find_idx 35 T] (length T) = 0%nat.
Proof.
  destruct T as [|c T']; [reflexivity|]. intros [-> | ->]; cbn [find_idx N.eqb Pos.eqb].
  - apply min_found_zero_head.
  - unfold min_found. cbn [fold_right]. destruct (find_idx 63 T'); reflexivity.
Qed.

Theorem split_remaining_path (P0 T : str) :
  memb 63 P0 = false -> memb 35 P0 = false -> tail_ok T ->
  split_remaining (47 :: P0 ++ T) =
  ([], 47 :: P0 ++ T, (if is_nil P0 then s_slash else P0), tail_query T, tail_fragment T).
Proof.
  intros P63 P35 HT. unfold split_remaining.
  set (B := 47 :: P0).
  change (47 :: P0 ++ T) with (B ++ T).
  assert (B63 : memb 63 B = false) by (subst B; cbn [memb orb N.eqb Pos.eqb]; exact P63).
  assert (B35 : memb 35 B = false) by (subst B; cbn [memb orb N.eqb Pos.eqb]; exact P35).
  assert (H47 : find_idx 47 (B ++ T) = Some 0%nat) by reflexivity.
  rewrite H47, (find_idx_shift 63 B T B63), (find_idx_shift 35 B T B35), app_length.
  set (qi := find_idx 63 T). set (fi := find_idx 35 T).
  rewrite min_found_zero_head.
  change (firstn 0 (B ++ T)) with (@nil N). change (skipn 0 (B ++ T)) with (B ++ T).
  change [option_map (Nat.add (length B)) qi; option_map (Nat.add (length B)) fi]
    with (map (option_map (Nat.add (length B))) [qi; fi]).
  rewrite min_found_shift. subst qi fi. rewrite (min_found_tail T HT). rewrite Nat.add_0_r.
  assert (LB : length B = S (length P0)) by reflexivity.
  assert (Hpath : slice 1 (length B) (B ++ T) = P0).
  { unfold slice. rewrite LB. subst B. cbn [skipn app]. replace (S (length P0) - 1)%nat with (length P0) by lia.
    apply firstn_len_app. }
  rewrite Hpath.
  assert (Hk : match option_map (Nat.add (length B)) (find_idx 35 T) with Some i => i | None => (length B + length T)%nat end
               = (length B + tail_k T)%nat).
  { unfold tail_k. destruct (find_idx 35 T); reflexivity. }
  rewrite Hk.
  assert (Hq : slice (S (length B)) (length B + tail_k T) (B ++ T) = tail_query T).
  { unfold tail_query, slice. replace (S (length B)) with (length B + 1)%nat by lia.
    rewrite skipn_add_app. f_equal. lia. }
  assert (Hf : skipn (S (length B + tail_k T)) (B ++ T) = tail_fragment T).
  { unfold tail_fragment. replace (S (length B + tail_k T)) with (length B + S (tail_k T))%nat by lia.
    apply skipn_add_app. }
  rewrite Hq, Hf. reflexivity.
Qed.

Section PathEquiv.
Variable enc : str -> option (list N).
Variable idna_o : str -> option str.
Variable ipv6_o : str -> option str.
Variable int_o : N -> str -> option Z.
Variable unq_o : str -> str.

(* the path text the parser hands to normalize_path: everything after the first slash, "/" when that is empty *)
Definition path_in (P0 : str) : str := if is_nil P0 then s_slash else P0.

(* "scheme://A/P0 T" and "scheme://A/P0' T" with path texts that normalize alike *)
Theorem parse_network_path_equiv url url' scheme dport A P0 P0' T :
  default_port scheme = Some dport ->
  memb 47 A = false -> memb 63 A = false -> memb 35 A = false ->
  memb 63 P0 = false -> memb 35 P0 = false -> memb 63 P0' = false -> memb 35 P0' = false -> tail_ok T ->
  normalize_path enc (path_in P0) = normalize_path enc (path_in P0') ->
  match parse_network enc idna_o ipv6_o int_o unq_o url scheme dport ([47; 47] ++ A ++ 47 :: P0 ++ T),
        parse_network enc idna_o ipv6_o int_o unq_o url' scheme dport ([47; 47] ++ A ++ 47 :: P0' ++ T) with
  | Ok i, Ok i' => url_of enc i = url_of enc i' /\ u_scheme i = u_scheme i' /\ u_hostname i = u_hostname i' /\
                   u_port i = u_port i' /\ u_path i = u_path i' /\ u_query i = u_query i' /\ u_fragment i = u_fragment i' /\
                   u_username i = u_username i' /\ u_password i = u_password i'
  | Err k, Err k' => k = k'
  | _, _ => False
  end.
Proof.
  intros Hd A47 A63 A35 P63 P35 P63' P35' HT HN.
  unfold parse_network. rewrite !(startswith_app [47; 47]). cbn [app skipn].
  assert (R1 : rest_ok (47 :: P0 ++ T)) by (cbn; auto).
  assert (R2 : rest_ok (47 :: P0' ++ T)) by (cbn; auto).
  rewrite (split_remaining_shift A _ A47 A63 A35 R1), (split_remaining_shift A _ A47 A63 A35 R2).
  rewrite (split_remaining_path P0 T P63 P35 HT), (split_remaining_path P0' T P63' P35' HT).
  fold (path_in P0) (path_in P0').
  destruct (parse_authority A) as [userinfo host].
  destruct (parse_host idna_o ipv6_o int_o host) as [[h port]|k]; cbn [bind]; [|reflexivity].
  destruct (parse_userinfo userinfo) as [username password].
  destruct (is_nil h); [reflexivity|].
  rewrite HN.
  destruct (normalize_path enc (path_in P0')); cbn [bind]; [|reflexivity].
  destruct (normalize_query enc (tail_query T)); cbn [bind]; [|reflexivity].
  destruct (normalize_fragment enc (tail_fragment T)); cbn [bind]; [|reflexivity].
  destruct (normalize_userpart enc username_encode_set _); cbn [bind]; [|reflexivity].
  destruct (normalize_userpart enc password_encode_set _); cbn [bind]; [|reflexivity].
  split; [|repeat split; reflexivity].
  unfold url_of, is_ipv6. cbn [u_scheme u_username u_password u_host u_hostname u_port u_path u_query]. rewrite Hd. reflexivity.
Qed.

(* segments the flattening drops ("." , the empty segment, "x/..") inserted between two segments of the path of a whole URL:
   scheme://A/a/<mid>/b T  against  scheme://A/a/b T   (a begins with an ordinary character) *)
Theorem parse_network_insert_segments url url' scheme dport A (c : N) (a b : str) (mid : list str) T :
  default_port scheme = Some dport ->
  memb 47 A = false -> memb 63 A = false -> memb 35 A = false ->
  c <> 47 -> memb 63 (c :: a) = false -> memb 35 (c :: a) = false -> memb 63 b = false -> memb 35 b = false ->
  memb 63 (join [47] mid) = false -> memb 35 (join [47] mid) = false ->
  dropped mid -> mid <> [] -> Forall (fun p => memb 47 p = false) mid -> tail_ok T ->
  match parse_network enc idna_o ipv6_o int_o unq_o url scheme dport ([47; 47] ++ A ++ 47 :: ((c :: a) ++ 47 :: join [47] mid ++ 47 :: b) ++ T),
        parse_network enc idna_o ipv6_o int_o unq_o url' scheme dport ([47; 47] ++ A ++ 47 :: ((c :: a) ++ 47 :: b) ++ T) with
  | Ok i, Ok i' => url_of enc i = url_of enc i' /\ u_scheme i = u_scheme i' /\ u_hostname i = u_hostname i' /\
                   u_port i = u_port i' /\ u_path i = u_path i' /\ u_query i = u_query i' /\ u_fragment i = u_fragment i' /\
                   u_username i = u_username i' /\ u_password i = u_password i'
  | Err k, Err k' => k = k'
  | _, _ => False
  end.
Proof.
  intros Hd A47 A63 A35 Hc a63 a35 b63 b35 m63 m35 Hdr Hne Hm HT.
  apply parse_network_path_equiv; try assumption.
  - rewrite memb_app, a63. cbn [memb orb N.eqb Pos.eqb]. rewrite memb_app, m63. cbn [memb orb N.eqb Pos.eqb]. exact b63.
  - rewrite memb_app, a35. cbn [memb orb N.eqb Pos.eqb]. rewrite memb_app, m35. cbn [memb orb N.eqb Pos.eqb]. exact b35.
  - rewrite memb_app, a63. cbn [memb orb N.eqb Pos.eqb]. exact b63.
  - rewrite memb_app, a35. cbn [memb orb N.eqb Pos.eqb]. exact b35.
  - unfold path_in. cbn [app is_nil]. unfold normalize_path.
    assert (S1 : forall r, startswith (c :: r) s_slash = false).
    { intros r. unfold s_slash. cbn [startswith]. apply N.eqb_neq in Hc. now rewrite Hc. }
    rewrite !S1. pose proof (flatten_path_insert (c :: a) b mid Hdr Hne Hm) as F. cbn [app] in F. now rewrite F.
Qed.
End PathEquiv.

(* ---------- host letter case, whole network URL ---------- *)
Lemma startswith_no c (s : str) : memb c s = false -> startswith s [c] = false.
Proof.
  destruct s as [|x r]; [reflexivity|]. cbn [memb startswith]. intros H. apply orb_false_iff in H. destruct H as [E _].
  rewrite E. reflexivity.
Qed.

Section HostCaseUrl.
Variable enc : str -> option (list N).
Variable idna_o : str -> option str.
Variable ipv6_o : str -> option str.
Variable int_o : N -> str -> option Z.
Variable unq_o : str -> str.

(* the port text: absent, or ":" followed by decimal digits *)
Definition port_text (pp : str) : Prop :=
  pp = [] \/ exists port, pp = 58 :: port /\ Forall (fun x => 48 <= x <= 57) port /\ port <> [].

(* a host name text: ASCII, no colon, no brackets, not empty *)
Definition name_text (hn : str) : Prop :=
  all_ascii hn = true /\ memb 58 hn = false /\ memb 91 hn = false /\ memb 93 hn = false /\ hn <> [].

Lemma parse_hostname_case hn hn' :
  name_text hn -> name_text hn' -> lower_ascii hn = lower_ascii hn' ->
  parse_hostname idna_o ipv6_o int_o hn = parse_hostname idna_o ipv6_o int_o hn'.
Proof.
  intros [Ha [_ [H91 _]]] [Ha' [_ [H91' _]]] Hl. unfold parse_hostname.
  rewrite (startswith_no 91 hn H91), (startswith_no 91 hn' H91').
  now rewrite (normalize_hostname_case idna_o hn hn' Ha Ha' Hl).
Qed.

(* a host text: no colon, no brackets, not empty *)
Definition plain_host_text (hn : str) : Prop := memb 58 hn = false /\ memb 91 hn = false /\ memb 93 hn = false /\ hn <> [].

Lemma name_plain_host_text hn : name_text hn -> plain_host_text hn.
Proof. intros [_ [A [B [C D]]]]. repeat split; assumption. Qed.

(* two host texts the host-name parser treats alike, followed by the same port text *)
Lemma parse_host_equiv hn hn' pp :
  plain_host_text hn -> plain_host_text hn' -> port_text pp ->
  parse_hostname idna_o ipv6_o int_o hn = parse_hostname idna_o ipv6_o int_o hn' ->
  parse_host idna_o ipv6_o int_o (hn ++ pp) = parse_host idna_o ipv6_o int_o (hn' ++ pp).
Proof.
  intros [H58 [_ [H93 Hne]]] [H58' [_ [H93' Hne']]] Hp Hh.
  unfold parse_host. destruct Hp as [-> | [port [-> [Hdig Hpne]]]].
  - rewrite !app_nil_r. rewrite (last_is_no 93 hn H93), (last_is_no 93 hn' H93').
    rewrite (rpartition_none 58 hn H58), (rpartition_none 58 hn' H58'). now rewrite Hh.
  - assert (Hp58 : memb 58 port = false) by (apply digits_no; [exact Hdig | lia]).
    assert (L : forall x, last_is (x ++ 58 :: port) 93 = false).
    { intros x. change (x ++ 58 :: port) with (x ++ [58] ++ port). rewrite app_assoc.
      apply last_is_digits2; [exact Hpne | exact Hdig | lia]. }
    rewrite !L. rewrite (rpartition_last 58 hn port Hp58), (rpartition_last 58 hn' port Hp58).
    destruct (py_int int_o 10 port) as [z|]; [|reflexivity].
    destruct ((z <? 0)%Z || (65535 <? z)%Z); [reflexivity|]. now rewrite Hh.
Qed.

Lemma parse_host_case hn hn' pp :
  name_text hn -> name_text hn' -> lower_ascii hn = lower_ascii hn' -> port_text pp ->
  parse_host idna_o ipv6_o int_o (hn ++ pp) = parse_host idna_o ipv6_o int_o (hn' ++ pp).
Proof.
  intros N1 N2 Hl Hp. apply parse_host_equiv; auto using name_plain_host_text. now apply parse_hostname_case.
Qed.

(* "scheme://U hn pp R" and "scheme://U hn' pp R": U empty or "userinfo@", pp the port text, R the rest; the host parser gives the
   same answer for "hn pp" and "hn' pp" and both or neither are bracketed *)
Theorem parse_network_host_gen url url' scheme dport (u : option str) hn hn' pp R :
  default_port scheme = Some dport ->
  (forall x, u = Some x -> memb 64 x = false /\ memb 47 x = false /\ memb 63 x = false /\ memb 35 x = false) ->
  parse_host idna_o ipv6_o int_o (hn ++ pp) = parse_host idna_o ipv6_o int_o (hn' ++ pp) ->
  startswith (hn ++ pp) [91] = startswith (hn' ++ pp) [91] -> port_text pp ->
  memb 47 hn = false -> memb 63 hn = false -> memb 35 hn = false -> memb 64 hn = false ->
  memb 47 hn' = false -> memb 63 hn' = false -> memb 35 hn' = false -> memb 64 hn' = false ->
  rest_ok R ->
  let U := match u with Some x => x ++ [64] | None => [] end in
  match parse_network enc idna_o ipv6_o int_o unq_o url scheme dport ([47; 47] ++ (U ++ hn ++ pp) ++ R),
        parse_network enc idna_o ipv6_o int_o unq_o url' scheme dport ([47; 47] ++ (U ++ hn' ++ pp) ++ R) with
  | Ok i, Ok i' => url_of enc i = url_of enc i' /\ u_scheme i = u_scheme i' /\ u_hostname i = u_hostname i' /\
                   u_port i = u_port i' /\ u_path i = u_path i' /\ u_query i = u_query i' /\ u_fragment i = u_fragment i' /\
                   u_username i = u_username i' /\ u_password i = u_password i'
  | Err k, Err k' => k = k'
  | _, _ => False
  end.
Proof.
  intros Hd Hu HPH HV6 Hp h47 h63 h35 h64 h47' h63' h35' h64' HR U.
  assert (Hpp : memb 47 pp = false /\ memb 63 pp = false /\ memb 35 pp = false /\ memb 64 pp = false).
  { destruct Hp as [-> | [port [-> [Hdig _]]]]; [auto|].
    cbn [memb orb N.eqb Pos.eqb]. repeat split; apply digits_no; try exact Hdig; lia. }
  destruct Hpp as [p47 [p63 [p35 p64]]].
  assert (HU : memb 47 U = false /\ memb 63 U = false /\ memb 35 U = false).
  { subst U. destruct u as [x|]; [|auto]. destruct (Hu x eq_refl) as [_ [x47 [x63 x35]]].
    rewrite !memb_app, x47, x63, x35. cbn [memb orb N.eqb Pos.eqb]. auto. }
  destruct HU as [U47 [U63 U35]].
  assert (A1 : memb 47 (U ++ hn ++ pp) = false /\ memb 63 (U ++ hn ++ pp) = false /\ memb 35 (U ++ hn ++ pp) = false)
    by (rewrite !memb_app, U47, U63, U35, h47, h63, h35, p47, p63, p35; auto).
  assert (A2 : memb 47 (U ++ hn' ++ pp) = false /\ memb 63 (U ++ hn' ++ pp) = false /\ memb 35 (U ++ hn' ++ pp) = false)
    by (rewrite !memb_app, U47, U63, U35, h47', h63', h35', p47, p63, p35; auto).
  destruct A1 as [a47 [a63 a35]]. destruct A2 as [a47' [a63' a35']].
  assert (PA : forall h, memb 64 h = false ->
               parse_authority (U ++ h ++ pp) = (match u with Some x => x | None => [] end, h ++ pp)).
  { intros h Hh. unfold parse_authority. subst U. destruct u as [x|].
    - destruct (Hu x eq_refl) as [x64 _]. rewrite <- app_assoc. cbn [app]. now rewrite (partition_first 64 x (h ++ pp) x64).
    - cbn [app]. rewrite partition_none by (rewrite memb_app, Hh, p64; reflexivity). reflexivity. }
  unfold parse_network. rewrite !(startswith_app [47; 47]). cbn [app skipn].
  rewrite (split_remaining_shift _ R a47 a63 a35 HR), (split_remaining_shift _ R a47' a63' a35' HR).
  destruct (split_remaining R) as [[[[a0 resource] path] query] fragment].
  rewrite (PA hn h64), (PA hn' h64').
  rewrite HPH.
  destruct (parse_host idna_o ipv6_o int_o (hn' ++ pp)) as [[h port]|k]; cbn [bind]; [|reflexivity].
  destruct (parse_userinfo _) as [username password].
  destruct (is_nil h); [reflexivity|].
  destruct (normalize_path enc path); cbn [bind]; [|reflexivity].
  destruct (normalize_query enc query); cbn [bind]; [|reflexivity].
  destruct (normalize_fragment enc fragment); cbn [bind]; [|reflexivity].
  destruct (normalize_userpart enc username_encode_set _); cbn [bind]; [|reflexivity].
  destruct (normalize_userpart enc password_encode_set _); cbn [bind]; [|reflexivity].
  split; [|repeat split; reflexivity].
  unfold url_of, is_ipv6. cbn [u_scheme u_username u_password u_host u_hostname u_port u_path u_query]. rewrite Hd.
  now rewrite HV6.
Qed.

(* ... for host texts without colon and brackets that the host-name parser treats alike *)
Theorem parse_network_host_equiv url url' scheme dport (u : option str) hn hn' pp R :
  default_port scheme = Some dport ->
  (forall x, u = Some x -> memb 64 x = false /\ memb 47 x = false /\ memb 63 x = false /\ memb 35 x = false) ->
  plain_host_text hn -> plain_host_text hn' -> parse_hostname idna_o ipv6_o int_o hn = parse_hostname idna_o ipv6_o int_o hn' -> port_text pp ->
  memb 47 hn = false -> memb 63 hn = false -> memb 35 hn = false -> memb 64 hn = false ->
  memb 47 hn' = false -> memb 63 hn' = false -> memb 35 hn' = false -> memb 64 hn' = false ->
  rest_ok R ->
  let U := match u with Some x => x ++ [64] | None => [] end in
  match parse_network enc idna_o ipv6_o int_o unq_o url scheme dport ([47; 47] ++ (U ++ hn ++ pp) ++ R),
        parse_network enc idna_o ipv6_o int_o unq_o url' scheme dport ([47; 47] ++ (U ++ hn' ++ pp) ++ R) with
  | Ok i, Ok i' => url_of enc i = url_of enc i' /\ u_scheme i = u_scheme i' /\ u_hostname i = u_hostname i' /\
                   u_port i = u_port i' /\ u_path i = u_path i' /\ u_query i = u_query i' /\ u_fragment i = u_fragment i' /\
                   u_username i = u_username i' /\ u_password i = u_password i'
  | Err k, Err k' => k = k'
  | _, _ => False
  end.
Proof.
  intros Hd Hu N1 N2 Hl Hp. apply parse_network_host_gen; auto.
  - now apply parse_host_equiv.
  - destruct N1 as [_ [H91 [_ Hne]]]. destruct N2 as [_ [H91' [_ Hne']]].
    rewrite (startswith_app_ne2 hn pp 91 Hne), (startswith_app_ne2 hn' pp 91 Hne').
    now rewrite (startswith_no 91 hn H91), (startswith_no 91 hn' H91').
Qed.

(* host names that differ only in ASCII letter case *)
Theorem parse_network_host_case url url' scheme dport (u : option str) hn hn' pp R :
  default_port scheme = Some dport ->
  (forall x, u = Some x -> memb 64 x = false /\ memb 47 x = false /\ memb 63 x = false /\ memb 35 x = false) ->
  name_text hn -> name_text hn' -> lower_ascii hn = lower_ascii hn' -> port_text pp ->
  memb 47 hn = false -> memb 63 hn = false -> memb 35 hn = false -> memb 64 hn = false ->
  memb 47 hn' = false -> memb 63 hn' = false -> memb 35 hn' = false -> memb 64 hn' = false ->
  rest_ok R ->
  let U := match u with Some x => x ++ [64] | None => [] end in
  match parse_network enc idna_o ipv6_o int_o unq_o url scheme dport ([47; 47] ++ (U ++ hn ++ pp) ++ R),
        parse_network enc idna_o ipv6_o int_o unq_o url' scheme dport ([47; 47] ++ (U ++ hn' ++ pp) ++ R) with
  | Ok i, Ok i' => url_of enc i = url_of enc i' /\ u_scheme i = u_scheme i' /\ u_hostname i = u_hostname i' /\
                   u_port i = u_port i' /\ u_path i = u_path i' /\ u_query i = u_query i' /\ u_fragment i = u_fragment i' /\
                   u_username i = u_username i' /\ u_password i = u_password i'
  | Err k, Err k' => k = k'
  | _, _ => False
  end.
Proof.
  intros Hd Hu N1 N2 Hl Hp. apply parse_network_host_equiv; auto using name_plain_host_text. now apply parse_hostname_case.
Qed.

(* IPv4 notations of the same address (one integer or four, decimal / 0-octal / 0x-hex): the host-name parser gives the same
   dotted-decimal host for both.  The spellings are ASCII texts that pass the IDNA label check (as every spelling made of
   digits, hex letters, "x" and dots with non-empty labels does); the value is that of the lower-cased text *)
Definition ipv4_text (a : str) (v : Z) : Prop :=
  all_ascii a = true /\ is_nil a = false /\ idna_labels_ok (split_on 46 a) = true /\ memb 91 a = false /\
  ipv4_value int_o (lower_ascii a) = Some v.

Lemma parse_hostname_ipv4 a a' v :
  ipv4_text a v -> ipv4_text a' v -> (exists d, ipv4_compressed v = Some d) ->
  parse_hostname idna_o ipv6_o int_o a = parse_hostname idna_o ipv6_o int_o a'.
Proof.
  intros [Ha [Hn [Hl [H91 Hv]]]] [Ha' [Hn' [Hl' [H91' Hv']]]] Hr. unfold parse_hostname.
  rewrite (startswith_no 91 a H91), (startswith_no 91 a' H91').
  rewrite (normalize_hostname_ascii idna_o a Ha), (normalize_hostname_ascii idna_o a' Ha'), Hn, Hn', Hl, Hl'. cbn [orb bind].
  rewrite (normalize_ipv4_by_value int_o (lower_ascii a)), (normalize_ipv4_by_value int_o (lower_ascii a')), Hv, Hv'.
  destruct Hr as [d ->]. reflexivity.
Qed.

Theorem parse_network_ipv4 url url' scheme dport (u : option str) a a' v pp R :
  default_port scheme = Some dport ->
  (forall x, u = Some x -> memb 64 x = false /\ memb 47 x = false /\ memb 63 x = false /\ memb 35 x = false) ->
  ipv4_text a v -> ipv4_text a' v -> (exists d, ipv4_compressed v = Some d) -> plain_host_text a -> plain_host_text a' -> port_text pp ->
  memb 47 a = false -> memb 63 a = false -> memb 35 a = false -> memb 64 a = false ->
  memb 47 a' = false -> memb 63 a' = false -> memb 35 a' = false -> memb 64 a' = false ->
  rest_ok R ->
  let U := match u with Some x => x ++ [64] | None => [] end in
  match parse_network enc idna_o ipv6_o int_o unq_o url scheme dport ([47; 47] ++ (U ++ a ++ pp) ++ R),
        parse_network enc idna_o ipv6_o int_o unq_o url' scheme dport ([47; 47] ++ (U ++ a' ++ pp) ++ R) with
  | Ok i, Ok i' => url_of enc i = url_of enc i' /\ u_scheme i = u_scheme i' /\ u_hostname i = u_hostname i' /\
                   u_port i = u_port i' /\ u_path i = u_path i' /\ u_query i = u_query i' /\ u_fragment i = u_fragment i' /\
                   u_username i = u_username i' /\ u_password i = u_password i'
  | Err k, Err k' => k = k'
  | _, _ => False
  end.
Proof.
  intros Hd Hu I1 I2 Hr T1 T2 Hp. apply parse_network_host_equiv; auto. now apply (parse_hostname_ipv4 a a' v).
Qed.
(* IPv6 literals: "[inner]" and "[inner']" whose inner texts the address library maps to the same compressed form (upper- or
   lower-case hex, leading zeros, "::" placement, embedded IPv4 - all decided by ipaddress.IPv6Address, an oracle here) *)
Definition ipv6_inner (x : str) : Prop :=
  memb 37 x = false /\ memb 47 x = false /\ memb 63 x = false /\ memb 35 x = false /\ memb 64 x = false.

Lemma parse_hostname_ipv6 x x' :
  memb 37 x = false -> memb 37 x' = false -> ipv6_o x = ipv6_o x' ->
  parse_hostname idna_o ipv6_o int_o (91 :: x ++ [93]) = parse_hostname idna_o ipv6_o int_o (91 :: x' ++ [93]).
Proof.
  intros H37 H37' He. unfold parse_hostname, parse_ipv6_hostname.
  assert (S1 : forall y, startswith (91 :: y ++ [93]) [91] = true) by (intros y; cbn [startswith]; destruct (y ++ [93]); reflexivity).
  assert (L1 : forall y, last_is (91 :: y ++ [93]) 93 = true).
  { intros y. change (91 :: y ++ [93]) with ((91 :: y) ++ [93]). now rewrite last_is_app. }
  assert (R1 : forall y, removelast (tl (91 :: y ++ [93])) = y) by (intros y; cbn [tl]; apply removelast_last).
  rewrite !S1, !L1, !R1, H37, H37', He. reflexivity.
Qed.

Lemma parse_host_ipv6 x x' pp :
  memb 37 x = false -> memb 37 x' = false -> ipv6_o x = ipv6_o x' -> port_text pp ->
  parse_host idna_o ipv6_o int_o ((91 :: x ++ [93]) ++ pp) = parse_host idna_o ipv6_o int_o ((91 :: x' ++ [93]) ++ pp).
Proof.
  intros H37 H37' He Hp. pose proof (parse_hostname_ipv6 x x' H37 H37' He) as Hh.
  unfold parse_host. destruct Hp as [-> | [port [-> [Hdig Hpne]]]].
  - rewrite !app_nil_r.
    assert (L1 : forall y, last_is (91 :: y ++ [93]) 93 = true).
    { intros y. change (91 :: y ++ [93]) with ((91 :: y) ++ [93]). now rewrite last_is_app. }
    rewrite !L1. now rewrite Hh.
  - assert (Hp58 : memb 58 port = false) by (apply digits_no; [exact Hdig | lia]).
    assert (L : forall y, last_is (y ++ 58 :: port) 93 = false).
    { intros y. change (y ++ 58 :: port) with (y ++ [58] ++ port). rewrite app_assoc.
      apply last_is_digits2; [exact Hpne | exact Hdig | lia]. }
    rewrite !L. rewrite (rpartition_last 58 (91 :: x ++ [93]) port Hp58), (rpartition_last 58 (91 :: x' ++ [93]) port Hp58).
    destruct (py_int int_o 10 port) as [z|]; [|reflexivity].
    destruct ((z <? 0)%Z || (65535 <? z)%Z); [reflexivity|]. now rewrite Hh.
Qed.

Theorem parse_network_ipv6 url url' scheme dport (u : option str) x x' pp R :
  default_port scheme = Some dport ->
  (forall y, u = Some y -> memb 64 y = false /\ memb 47 y = false /\ memb 63 y = false /\ memb 35 y = false) ->
  ipv6_inner x -> ipv6_inner x' -> ipv6_o x = ipv6_o x' -> port_text pp -> rest_ok R ->
  let U := match u with Some y => y ++ [64] | None => [] end in
  match parse_network enc idna_o ipv6_o int_o unq_o url scheme dport ([47; 47] ++ (U ++ (91 :: x ++ [93]) ++ pp) ++ R),
        parse_network enc idna_o ipv6_o int_o unq_o url' scheme dport ([47; 47] ++ (U ++ (91 :: x' ++ [93]) ++ pp) ++ R) with
  | Ok i, Ok i' => url_of enc i = url_of enc i' /\ u_scheme i = u_scheme i' /\ u_hostname i = u_hostname i' /\
                   u_port i = u_port i' /\ u_path i = u_path i' /\ u_query i = u_query i' /\ u_fragment i = u_fragment i' /\
                   u_username i = u_username i' /\ u_password i = u_password i'
  | Err k, Err k' => k = k'
  | _, _ => False
  end.
Proof.
  intros Hd Hu [H37 [H47 [H63 [H35 H64]]]] [H37' [H47' [H63' [H35' H64']]]] He Hp HR.
  assert (MB : forall c y, (91 =? c) = false -> (93 =? c) = false -> memb c y = false -> memb c (91 :: y ++ [93]) = false).
  { intros c y E1 E2 Hy. cbn [memb]. rewrite E1, memb_app, Hy. cbn [memb orb]. now rewrite E2. }
  assert (SW : forall y, startswith ((91 :: y ++ [93]) ++ pp) [91] = true).
  { intros y. cbn [app startswith]. destruct ((y ++ [93]) ++ pp); reflexivity. }
  exact (parse_network_host_gen url url' scheme dport u (91 :: x ++ [93]) (91 :: x' ++ [93]) pp R Hd Hu
           (parse_host_ipv6 x x' pp H37 H37' He Hp) (eq_trans (SW x) (eq_sym (SW x'))) Hp
           (MB 47 x eq_refl eq_refl H47) (MB 63 x eq_refl eq_refl H63) (MB 35 x eq_refl eq_refl H35) (MB 64 x eq_refl eq_refl H64)
           (MB 47 x' eq_refl eq_refl H47') (MB 63 x' eq_refl eq_refl H63') (MB 35 x' eq_refl eq_refl H35') (MB 64 x' eq_refl eq_refl H64') HR).
Qed.
End HostCaseUrl.

(* ---------- user-info ---------- *)
Section UserInfoUrl.
Variable enc : str -> option (list N).
Variable idna_o : str -> option str.
Variable ipv6_o : str -> option str.
Variable int_o : N -> str -> option Z.
Variable unq_o : str -> str.

(* two user-info texts that decode to the same user name and password (e.g. escapes of unreserved characters, hex-digit case) *)
Definition same_login (x x' : str) : Prop :=
  percent_decode unq_o (fst (parse_userinfo x)) = percent_decode unq_o (fst (parse_userinfo x')) /\
  percent_decode unq_o (snd (parse_userinfo x)) = percent_decode unq_o (snd (parse_userinfo x')).

Theorem parse_network_userinfo url url' scheme dport x x' H R :
  default_port scheme = Some dport ->
  memb 64 x = false -> memb 47 x = false -> memb 63 x = false -> memb 35 x = false ->
  memb 64 x' = false -> memb 47 x' = false -> memb 63 x' = false -> memb 35 x' = false ->
  memb 47 H = false -> memb 63 H = false -> memb 35 H = false ->
  same_login x x' -> rest_ok R ->
  match parse_network enc idna_o ipv6_o int_o unq_o url scheme dport ([47; 47] ++ (x ++ 64 :: H) ++ R),
        parse_network enc idna_o ipv6_o int_o unq_o url' scheme dport ([47; 47] ++ (x' ++ 64 :: H) ++ R) with
  | Ok i, Ok i' => url_of enc i = url_of enc i' /\ u_scheme i = u_scheme i' /\ u_hostname i = u_hostname i' /\
                   u_port i = u_port i' /\ u_path i = u_path i' /\ u_query i = u_query i' /\ u_fragment i = u_fragment i' /\
                   u_username i = u_username i' /\ u_password i = u_password i'
  | Err k, Err k' => k = k'
  | _, _ => False
  end.
Proof.
  intros Hd x64 x47 x63 x35 x64' x47' x63' x35' h47 h63 h35 [L1 L2] HR.
  assert (A1 : memb 47 (x ++ 64 :: H) = false /\ memb 63 (x ++ 64 :: H) = false /\ memb 35 (x ++ 64 :: H) = false)
    by (rewrite !memb_app, x47, x63, x35; cbn [memb orb N.eqb Pos.eqb]; rewrite h47, h63, h35; auto).
  assert (A2 : memb 47 (x' ++ 64 :: H) = false /\ memb 63 (x' ++ 64 :: H) = false /\ memb 35 (x' ++ 64 :: H) = false)
    by (rewrite !memb_app, x47', x63', x35'; cbn [memb orb N.eqb Pos.eqb]; rewrite h47, h63, h35; auto).
  destruct A1 as [a47 [a63 a35]]. destruct A2 as [a47' [a63' a35']].
  unfold parse_network. rewrite !(startswith_app [47; 47]). cbn [app skipn].
  rewrite (split_remaining_shift _ R a47 a63 a35 HR), (split_remaining_shift _ R a47' a63' a35' HR).
  destruct (split_remaining R) as [[[[a0 resource] path] query] fragment].
  unfold parse_authority. rewrite (partition_first 64 x H x64), (partition_first 64 x' H x64').
  destruct (parse_host idna_o ipv6_o int_o H) as [[h port]|k]; cbn [bind]; [|reflexivity].
  destruct (parse_userinfo x) as [un pw]. destruct (parse_userinfo x') as [un' pw']. cbn [fst snd] in L1, L2.
  destruct (is_nil h); [reflexivity|].
  destruct (normalize_path enc path); cbn [bind]; [|reflexivity].
  destruct (normalize_query enc query); cbn [bind]; [|reflexivity].
  destruct (normalize_fragment enc fragment); cbn [bind]; [|reflexivity].
  rewrite L1, L2.
  destruct (normalize_userpart enc username_encode_set _); cbn [bind]; [|reflexivity].
  destruct (normalize_userpart enc password_encode_set _); cbn [bind]; [|reflexivity].
  split; [|repeat split; reflexivity].
  unfold url_of, is_ipv6. cbn [u_scheme u_username u_password u_host u_hostname u_port u_path u_query]. rewrite Hd. reflexivity.
Qed.
End UserInfoUrl.

(* ---------- from the text after the scheme to the whole URL ---------- *)
Section WholeUrl.
Variable enc : str -> option (list N).
Variable lower_o : str -> str.
Variable idna_o : str -> option str.
Variable ipv6_o : str -> option str.
Variable int_o : N -> str -> option Z.
Variable unq_o : str -> str.
Notation parse := (Url.parse enc lower_o idna_o ipv6_o int_o unq_o).
Notation pnet := (parse_network enc idna_o ipv6_o int_o unq_o).

(* the scheme text sch (before the first colon) names the network scheme sc with default port dport *)
Definition scheme_text (sch sc : str) (dport : N) : Prop :=
  sch <> [] /\ memb 58 sch = false /\ sc = py_lower lower_o sch /\ memb 46 sc = false /\ str_eqb sc s_localhost = false /\
  default_port sc = Some dport.

(* a URL text that strip leaves alone and that has no control character *)
Definition plain_text (s : str) : Prop := strip s = s /\ existsb (fun c => c <? 32) s = false.

Lemma parse_is_parse_network sch sc dport rem :
  scheme_text sch sc dport -> plain_text (sch ++ 58 :: rem) ->
  parse (sch ++ 58 :: rem) = pnet (sch ++ 58 :: rem) sc dport rem.
Proof.
  intros [Hne [H58 [Hsc [H46 [Hloc Hd]]]]] [Hs Hc]. unfold Url.parse. rewrite Hs, Hc.
  unfold split_scheme. rewrite (partition_first 58 sch rem H58).
  assert (Hn : is_nil sch = false) by (destruct sch; [contradiction | reflexivity]). rewrite Hn.
  cbn [negb]. rewrite <- Hsc, H46, Hloc. cbn [orb]. now rewrite Hd.
Qed.

(* any relation that holds between the parses of two texts after the scheme, whatever raw text is recorded, holds between
   the parses of the two whole URLs *)
Lemma parse_lift (Rel : result urlinfo -> result urlinfo -> Prop) sch sc dport rem rem' :
  scheme_text sch sc dport -> plain_text (sch ++ 58 :: rem) -> plain_text (sch ++ 58 :: rem') ->
  (forall url url', Rel (pnet url sc dport rem) (pnet url' sc dport rem')) ->
  Rel (parse (sch ++ 58 :: rem)) (parse (sch ++ 58 :: rem')).
Proof.
  intros Hs P1 P2 H. rewrite (parse_is_parse_network sch sc dport rem Hs P1), (parse_is_parse_network sch sc dport rem' Hs P2).
  apply H.
Qed.

Definition same_url (r r' : result urlinfo) : Prop :=
  match r, r' with
  | Ok i, Ok i' => url_of enc i = url_of enc i' /\ u_scheme i = u_scheme i' /\ u_hostname i = u_hostname i' /\
                   u_port i = u_port i' /\ u_path i = u_path i' /\ u_query i = u_query i' /\ u_fragment i = u_fragment i' /\
                   u_username i = u_username i' /\ u_password i = u_password i'
  | Err k, Err k' => k = k'
  | _, _ => False
  end.

(* "sch://A/a/<mid>/b T" and "sch://A/a/b T" *)
Theorem parse_url_insert_segments sch sc dport A (c : N) (a b : str) (mid : list str) T :
  scheme_text sch sc dport ->
  memb 47 A = false -> memb 63 A = false -> memb 35 A = false ->
  c <> 47 -> memb 63 (c :: a) = false -> memb 35 (c :: a) = false -> memb 63 b = false -> memb 35 b = false ->
  memb 63 (join [47] mid) = false -> memb 35 (join [47] mid) = false ->
  dropped mid -> mid <> [] -> Forall (fun p => memb 47 p = false) mid -> tail_ok T ->
  let rem := [47; 47] ++ A ++ 47 :: ((c :: a) ++ 47 :: join [47] mid ++ 47 :: b) ++ T in
  let rem' := [47; 47] ++ A ++ 47 :: ((c :: a) ++ 47 :: b) ++ T in
  plain_text (sch ++ 58 :: rem) -> plain_text (sch ++ 58 :: rem') ->
  same_url (parse (sch ++ 58 :: rem)) (parse (sch ++ 58 :: rem')).
Proof.
  intros Hs A47 A63 A35 Hc a63 a35 b63 b35 m63 m35 Hdr Hne Hm HT rem rem' P1 P2.
  apply (parse_lift same_url sch sc dport rem rem' Hs P1 P2). intros url url'.
  destruct Hs as [_ [_ [_ [_ [_ Hd]]]]].
  exact (parse_network_insert_segments enc idna_o ipv6_o int_o unq_o url url' sc dport A c a b mid T
           Hd A47 A63 A35 Hc a63 a35 b63 b35 m63 m35 Hdr Hne Hm HT).
Qed.

(* "sch://U hn pp R" and "sch://U hn' pp R" *)
Theorem parse_url_host_case sch sc dport (u : option str) hn hn' pp R :
  scheme_text sch sc dport ->
  (forall x, u = Some x -> memb 64 x = false /\ memb 47 x = false /\ memb 63 x = false /\ memb 35 x = false) ->
  name_text hn -> name_text hn' -> lower_ascii hn = lower_ascii hn' -> port_text pp ->
  memb 47 hn = false -> memb 63 hn = false -> memb 35 hn = false -> memb 64 hn = false ->
  memb 47 hn' = false -> memb 63 hn' = false -> memb 35 hn' = false -> memb 64 hn' = false ->
  rest_ok R ->
  let U := match u with Some x => x ++ [64] | None => [] end in
  let rem := [47; 47] ++ (U ++ hn ++ pp) ++ R in
  let rem' := [47; 47] ++ (U ++ hn' ++ pp) ++ R in
  plain_text (sch ++ 58 :: rem) -> plain_text (sch ++ 58 :: rem') ->
  same_url (parse (sch ++ 58 :: rem)) (parse (sch ++ 58 :: rem')).
Proof.
  intros Hs Hu N1 N2 Hl Hp h47 h63 h35 h64 h47' h63' h35' h64' HR U rem rem' P1 P2.
  apply (parse_lift same_url sch sc dport rem rem' Hs P1 P2). intros url url'.
  destruct Hs as [_ [_ [_ [_ [_ Hd]]]]].
  exact (parse_network_host_case enc idna_o ipv6_o int_o unq_o url url' sc dport u hn hn' pp R
           Hd Hu N1 N2 Hl Hp h47 h63 h35 h64 h47' h63' h35' h64' HR).
Qed.
(* "sch://A R" and "sch://A:<default port> R" *)
Theorem parse_url_default_port sch sc dport A R h :
  scheme_text sch sc dport ->
  memb 47 A = false -> memb 63 A = false -> memb 35 A = false -> rest_ok R ->
  parse_host idna_o ipv6_o int_o (snd (parse_authority A)) = Ok (h, None) ->
  let rem := [47; 47] ++ A ++ R in
  let rem' := [47; 47] ++ (A ++ 58 :: dec_of_N dport) ++ R in
  plain_text (sch ++ 58 :: rem) -> plain_text (sch ++ 58 :: rem') ->
  match parse (sch ++ 58 :: rem), parse (sch ++ 58 :: rem') with
  | Ok i, Ok i' => url_of enc i = url_of enc i' /\ u_scheme i = u_scheme i' /\ u_hostname i = u_hostname i' /\
                   u_port i = u_port i' /\ u_path i = u_path i' /\ u_query i = u_query i'
  | Err k, Err k' => k = k'
  | _, _ => False
  end.
Proof.
  intros Hs A47 A63 A35 HR Hh rem rem' P1 P2.
  apply (parse_lift (fun r r' => match r, r' with
                                 | Ok i, Ok i' => url_of enc i = url_of enc i' /\ u_scheme i = u_scheme i' /\ u_hostname i = u_hostname i' /\
                                                  u_port i = u_port i' /\ u_path i = u_path i' /\ u_query i = u_query i'
                                 | Err k, Err k' => k = k'
                                 | _, _ => False
                                 end) sch sc dport rem rem' Hs P1 P2).
  intros url url'. destruct Hs as [_ [_ [_ [_ [_ Hd]]]]].
  exact (parse_network_default_port enc idna_o ipv6_o int_o unq_o url url' sc dport A R h Hd A47 A63 A35 HR Hh).
Qed.

(* "sch:P#f" and "sch:P" *)
Theorem parse_url_fragment sch sc dport (P f nf : str) :
  scheme_text sch sc dport -> memb 35 P = false -> enc [] = Some [] -> normalize_fragment enc f = Ok nf ->
  plain_text (sch ++ 58 :: P ++ 35 :: f) -> plain_text (sch ++ 58 :: P) ->
  match parse (sch ++ 58 :: P ++ 35 :: f), parse (sch ++ 58 :: P) with
  | Ok i, Ok i' => url_of enc i = url_of enc i' /\ u_scheme i = u_scheme i' /\ u_hostname i = u_hostname i' /\
                   u_port i = u_port i' /\ u_path i = u_path i' /\ u_query i = u_query i' /\
                   u_fragment i = nf /\ u_fragment i' = []
  | Err k, Err k' => k = k'
  | _, _ => False
  end.
Proof.
  intros Hs P35 He Hf P1 P2.
  apply (parse_lift (fun r r' => match r, r' with
                                 | Ok i, Ok i' => url_of enc i = url_of enc i' /\ u_scheme i = u_scheme i' /\ u_hostname i = u_hostname i' /\
                                                  u_port i = u_port i' /\ u_path i = u_path i' /\ u_query i = u_query i' /\
                                                  u_fragment i = nf /\ u_fragment i' = []
                                 | Err k, Err k' => k = k'
                                 | _, _ => False
                                 end) sch sc dport (P ++ 35 :: f) P Hs P1 P2).
  intros url url'. destruct Hs as [_ [_ [_ [_ [_ Hd]]]]].
  exact (parse_network_fragment enc idna_o ipv6_o int_o unq_o url url' sc dport P f nf Hd P35 He Hf).
Qed.
(* "sch://U a pp R" and "sch://U a' pp R" with a, a' IPv4 notations of the same address *)
Theorem parse_url_ipv4 sch sc dport (u : option str) a a' v pp R :
  scheme_text sch sc dport ->
  (forall x, u = Some x -> memb 64 x = false /\ memb 47 x = false /\ memb 63 x = false /\ memb 35 x = false) ->
  ipv4_text int_o a v -> ipv4_text int_o a' v -> (exists d, ipv4_compressed v = Some d) -> plain_host_text a -> plain_host_text a' -> port_text pp ->
  memb 47 a = false -> memb 63 a = false -> memb 35 a = false -> memb 64 a = false ->
  memb 47 a' = false -> memb 63 a' = false -> memb 35 a' = false -> memb 64 a' = false ->
  rest_ok R ->
  let U := match u with Some x => x ++ [64] | None => [] end in
  let rem := [47; 47] ++ (U ++ a ++ pp) ++ R in
  let rem' := [47; 47] ++ (U ++ a' ++ pp) ++ R in
  plain_text (sch ++ 58 :: rem) -> plain_text (sch ++ 58 :: rem') ->
  same_url (parse (sch ++ 58 :: rem)) (parse (sch ++ 58 :: rem')).
Proof.
  intros Hs Hu I1 I2 Hr T1 T2 Hp a47 a63 a35 a64 a47' a63' a35' a64' HR U rem rem' P1 P2.
  apply (parse_lift same_url sch sc dport rem rem' Hs P1 P2). intros url url'.
  destruct Hs as [_ [_ [_ [_ [_ Hd]]]]].
  exact (parse_network_ipv4 enc idna_o ipv6_o int_o unq_o url url' sc dport u a a' v pp R
           Hd Hu I1 I2 Hr T1 T2 Hp a47 a63 a35 a64 a47' a63' a35' a64' HR).
Qed.
(* "sch://U [x] pp R" and "sch://U [x'] pp R" with x, x' IPv6 texts of the same address *)
Theorem parse_url_ipv6 sch sc dport (u : option str) x x' pp R :
  scheme_text sch sc dport ->
  (forall y, u = Some y -> memb 64 y = false /\ memb 47 y = false /\ memb 63 y = false /\ memb 35 y = false) ->
  ipv6_inner x -> ipv6_inner x' -> ipv6_o x = ipv6_o x' -> port_text pp -> rest_ok R ->
  let U := match u with Some y => y ++ [64] | None => [] end in
  let rem := [47; 47] ++ (U ++ (91 :: x ++ [93]) ++ pp) ++ R in
  let rem' := [47; 47] ++ (U ++ (91 :: x' ++ [93]) ++ pp) ++ R in
  plain_text (sch ++ 58 :: rem) -> plain_text (sch ++ 58 :: rem') ->
  same_url (parse (sch ++ 58 :: rem)) (parse (sch ++ 58 :: rem')).
Proof.
  intros Hs Hu I1 I2 He Hp HR U rem rem' P1 P2.
  apply (parse_lift same_url sch sc dport rem rem' Hs P1 P2). intros url url'.
  destruct Hs as [_ [_ [_ [_ [_ Hd]]]]].
  exact (parse_network_ipv6 enc idna_o ipv6_o int_o unq_o url url' sc dport u x x' pp R Hd Hu I1 I2 He Hp HR).
Qed.
(* "sch://x@H R" and "sch://x'@H R" with user-info texts that decode to the same login *)
Theorem parse_url_userinfo sch sc dport x x' H R :
  scheme_text sch sc dport ->
  memb 64 x = false -> memb 47 x = false -> memb 63 x = false -> memb 35 x = false ->
  memb 64 x' = false -> memb 47 x' = false -> memb 63 x' = false -> memb 35 x' = false ->
  memb 47 H = false -> memb 63 H = false -> memb 35 H = false ->
  same_login unq_o x x' -> rest_ok R ->
  let rem := [47; 47] ++ (x ++ 64 :: H) ++ R in
  let rem' := [47; 47] ++ (x' ++ 64 :: H) ++ R in
  plain_text (sch ++ 58 :: rem) -> plain_text (sch ++ 58 :: rem') ->
  same_url (parse (sch ++ 58 :: rem)) (parse (sch ++ 58 :: rem')).
Proof.
  intros Hs x64 x47 x63 x35 x64' x47' x63' x35' h47 h63 h35 HL HR rem rem' P1 P2.
  apply (parse_lift same_url sch sc dport rem rem' Hs P1 P2). intros url url'.
  destruct Hs as [_ [_ [_ [_ [_ Hd]]]]].
  exact (parse_network_userinfo enc idna_o ipv6_o int_o unq_o url url' sc dport x x' H R
           Hd x64 x47 x63 x35 x64' x47' x63' x35' h47 h63 h35 HL HR).
Qed.
End WholeUrl.
