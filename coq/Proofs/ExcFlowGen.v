(* C09 - the obligations about the REGENERATED summary (Gen/ExcFlow.v, printed from the wpull
   working tree by harness/translate/excflow.py on every check run).  Each fact below is a
   computation inside Coq on that summary: the class table is transitively closed, and the
   escape analysis of every entry point stays within the handled classes (the translated
   REMOTE_ERRORS of wpull/processor/base.py; nothing at all for link extraction).  A removed
   except clause, a new raise, a changed base class, an assert on server data changes the
   summary and these computations are redone. *)
From Coq Require Import List NArith Bool.
From Wpull Require Import Model.ExcLang Proofs.ExcFlowProofs Gen.ExcFlow.
Import ListNotations.
Open Scope N_scope.

Lemma gen_mro_closed : mro_closed the_prog = true.
Proof. vm_compute. reflexivity. Qed.

Lemma gen_http_within : all_within the_prog entries_http fuel handled = true.
Proof. vm_compute. reflexivity. Qed.

Lemma gen_ftp_within : all_within the_prog entries_ftp fuel handled = true.
Proof. vm_compute. reflexivity. Qed.

Lemma gen_robots_within : all_within the_prog entries_robots fuel handled = true.
Proof. vm_compute. reflexivity. Qed.

Lemma gen_scrape_within : all_within the_prog entries_scrape fuel [] = true.
Proof. vm_compute. reflexivity. Qed.

Lemma gen_process_within : all_within the_prog entries_process fuel [] = true.
Proof. vm_compute. reflexivity. Qed.

Theorem gen_http : forall f c, In f entries_http -> raises the_prog f c -> matches the_prog c handled = true.
Proof. exact (entries_within the_prog entries_http fuel handled gen_mro_closed gen_http_within). Qed.

Theorem gen_ftp : forall f c, In f entries_ftp -> raises the_prog f c -> matches the_prog c handled = true.
Proof. exact (entries_within the_prog entries_ftp fuel handled gen_mro_closed gen_ftp_within). Qed.

Theorem gen_robots : forall f c, In f entries_robots -> raises the_prog f c -> matches the_prog c handled = true.
Proof. exact (entries_within the_prog entries_robots fuel handled gen_mro_closed gen_robots_within). Qed.

Theorem gen_scrape : forall f c, In f entries_scrape -> ~ raises the_prog f c.
Proof. exact (entries_silent the_prog entries_scrape fuel gen_mro_closed gen_scrape_within). Qed.

Theorem gen_process : forall f c, In f entries_process -> ~ raises the_prog f c.
Proof. exact (entries_silent the_prog entries_process fuel gen_mro_closed gen_process_within). Qed.

(* ---------- non-vacuity: the hypotheses [raises the_prog f c] are satisfiable ---------- *)
(* every fetch entry point really has a raising execution in the semantics ... *)
Lemma gen_fetch_live :
  forall f, In f (entries_http ++ entries_ftp ++ entries_robots) -> exists c, raises the_prog f c.
Proof. apply (entries_live the_prog _ fuel). vm_compute. reflexivity. Qed.

(* ... and link extraction is silent although the readers below it do raise: the except clauses
   of the scrapers are what the theorem is about *)
Lemma gen_scrape_inner_live :
  forall f, In f [f_wpull_document_sitemap_SitemapReader_iter_links_SitemapScraper;
                  f_wpull_document_html_HTMLReader_iter_elements_HTMLScraper_lazy;
                  f_wpull_document_css_CSSReader_iter_text_CSSScraper;
                  f_wpull_document_javascript_JavaScriptReader_iter_text_JavaScriptScraper] ->
            exists c, raises the_prog f c.
Proof. apply (entries_live the_prog _ fuel). vm_compute. reflexivity. Qed.

(* the entry points are defined functions of the summary (an undefined one would be "unknown") *)
Lemma gen_entries_defined :
  forallb (fun f => match assoc f (funs the_prog) with Some _ => true | None => false end)
          (entries_http ++ entries_ftp ++ entries_robots ++ entries_scrape ++ entries_process) = true.
Proof. vm_compute. reflexivity. Qed.
