(* C08 - a well-formed message cut short by the peer before its payload is
   complete is reported as an error (ProtocolError / NetworkError), for every
   cut position, every segmentation oracle and every zlib machine: never a
   shorter successful download. *)
From Coq Require Import List NArith ZArith Bool Arith Lia ZifyBool ZifyNat ZifyN.
From Wpull Require Import Lib.ListX Lib.Conn Model.PyText Model.Decomp Proofs.DecompProofs Model.Chunked Model.HttpMsg
  Spec.HttpFraming Proofs.HttpProofs Proofs.HttpLineProofs Proofs.HttpRefProofs.
Import ListNotations.
Open Scope N_scope.

Definition bad (e : err) : Prop := e = ProtocolErr \/ e = NetworkErr.
Definition is_error {A} (x : res A) : Prop := match x with Err e => bad e | Ok _ _ => False end.

Lemma bad_net : bad NetworkErr. Proof. now right. Qed.
Lemma bad_proto : bad ProtocolErr. Proof. now left. Qed.
#[local] Hint Resolve bad_net bad_proto : core.

(* ---------------- prefixes ---------------- *)
Lemma firstn_app_lt {A} n (a b : list A) : (n <= length a)%nat -> firstn n (a ++ b) = firstn n a.
Proof. intros H. rewrite firstn_app. replace (n - length a)%nat with 0%nat by lia. now rewrite firstn_O, app_nil_r. Qed.

Lemma firstn_app_ge {A} n (a b : list A) : (length a <= n)%nat -> firstn n (a ++ b) = a ++ firstn (n - length a) b.
Proof. intros H. rewrite firstn_app. now rewrite firstn_all2 by exact H. Qed.

Lemma in_firstn {A} (x : A) n l : In x (firstn n l) -> In x l.
Proof.
  revert l; induction n as [|n IH]; intros [|y l]; cbn; try tauto. intros [H|H]; [now left|right; now apply IH].
Qed.

Lemma no_lf_firstn n a : no_lf a -> no_lf (firstn n a).
Proof. unfold no_lf. intros H Hin. apply H. eapply in_firstn; eassumption. Qed.

Lemma firstn_len_le {A} n (l : list A) : (length (firstn n l) <= length l)%nat.
Proof. rewrite firstn_length. lia. Qed.

(* a connection that ends inside a line (no LF left): the two line readers *)
Lemma read_chunk_header_nolf p ef rc cl :
  no_lf p -> N.of_nat (length p) <= 65536 ->
  read_chunk_header (mkSt (mkConn p ef) rc cl) = Err NetworkErr.
Proof.
  intros Hn Hl. unfold read_chunk_header. rewrite st_readline_eof by assumption.
  now rewrite ends_with_lf_no_lf.
Qed.

Lemma read_head_nolf p ef rc cl fuel acc nb :
  no_lf p -> N.of_nat (length p) <= 65536 ->
  read_head (S fuel) acc nb (mkSt (mkConn p ef) rc cl) = Err NetworkErr.
Proof.
  intros Hn Hl. cbn [read_head]. rewrite st_readline_eof by assumption.
  now rewrite ends_with_lf_no_lf.
Qed.

Lemma eol_prefix_nolf e k : eol e -> (k < length e)%nat -> no_lf (firstn k e) /\ (length (firstn k e) <= 1)%nat.
Proof.
  intros [-> | ->] Hk; cbn [length] in Hk.
  - destruct k as [|[|k]]; [| |lia]; cbn; split; try lia; intros H; cbn in H; intuition discriminate.
  - destruct k as [|k]; [|lia]. cbn. split; [intros []|lia].
Qed.

(* ---------------- the header block cut short ---------------- *)
Lemma read_head_trunc lines : forall e n ef rc cl acc nb fuel,
  Forall head_line lines -> eol e ->
  nb + N.of_nat (length (concat lines)) <= 32768 ->
  (n < length (concat lines ++ e))%nat -> (n < fuel)%nat ->
  read_head fuel acc nb (mkSt (mkConn (firstn n (concat lines ++ e)) ef) rc cl) = Err NetworkErr.
Proof.
  induction lines as [|l ls IH]; intros e n ef rc cl acc nb fuel Hls He Hcap Hn Hf.
  - cbn [concat app] in *. destruct fuel as [|f]; [lia|].
    destruct (eol_prefix_nolf e n He Hn) as [H1 H2]. apply read_head_nolf; [assumption|lia].
  - destruct fuel as [|f]; [lia|].
    inversion Hls as [|? ? Hl Hls']; subst.
    pose proof (head_line_not_blank l Hl) as Hnb'.
    destruct Hl as (a & -> & Hna & H1 & H2).
    cbn [concat] in *. rewrite !app_length in Hcap. cbn [length] in Hcap.
    rewrite <- !app_assoc. cbn [app].
    destruct (le_lt_dec n (length a)) as [Hk|Hk].
    + rewrite firstn_app_lt by exact Hk. apply read_head_nolf; [now apply no_lf_firstn|].
      pose proof (firstn_len_le n a). lia.
    + change (a ++ 10 :: concat ls ++ e) with (a ++ [10] ++ concat ls ++ e). rewrite app_assoc.
      rewrite firstn_app_ge by (rewrite app_length; cbn [length]; lia).
      rewrite <- app_assoc. cbn [app read_head].
      rewrite st_readline_line by (assumption || lia).
      unfold notify; cbn [cn recd closed]. rewrite ends_with_lf_snoc, Hnb'. cbn [negb].
      rewrite !app_length. cbn [length].
      destruct (N.ltb_spec 32768 (nb + N.of_nat (length a + 1))) as [Hb|Hb]; [lia|].
      apply IH; try assumption; try lia.
      rewrite !app_length in *. cbn [length] in *. lia.
Qed.

(* read_response on a prefix of a well-formed stream: an error while the cut is
   inside the header block(s), otherwise the response with the cut body left *)
Lemma read_response_prefix P pre bs m :
  wf_response P pre bs m ->
  exists hd w r,
    bs = hd ++ w /\ wf_body P r (pre + length hd) w m /\
    forall n ef rc cl fuel, (length (firstn n bs) < fuel)%nat ->
      if (n <? length hd)%nat
      then read_response_loop fuel (mkSt (mkConn (firstn n bs) ef) rc cl) = Err NetworkErr
      else read_response_loop fuel (mkSt (mkConn (firstn n bs) ef) rc cl)
           = Ok r (mkSt (mkConn (firstn (n - length hd) w) ef) (rc ++ hd) cl).
Proof.
  induction 1 as [pre lines e r w m Hb Hp Hni Hw | pre lines e r rest m Hb Hp Hi Hwf IH].
  - exists (concat lines ++ e), w, r. split; [now rewrite app_assoc|]. split; [assumption|].
    intros n ef rc cl fuel Hf. destruct Hb as (Hne & Hls & He & Hcap).
    destruct fuel as [|f]; [lia|]. cbn [read_response_loop].
    rewrite app_assoc. destruct (Nat.ltb_spec n (length (concat lines ++ e))) as [Hn|Hn].
    + rewrite firstn_app_lt by lia. rewrite read_head_trunc; try assumption; try lia; [reflexivity|].
      unfold fuel_of; cbn [cn pending]. rewrite firstn_length. lia.
    + rewrite firstn_app_ge by exact Hn. rewrite <- (app_assoc (concat lines) e (firstn _ _)).
      rewrite read_head_ok; try assumption; try lia; [|now right|].
      * cbn [app]. rewrite Hp.
        destruct (is_interim (r_status r)) eqn:Ei; [apply is_interim_iff in Ei; contradiction|].
        reflexivity.
      * unfold fuel_of. cbn [cn pending]. pose proof (lines_length_le lines Hls). rewrite !app_length. lia.
  - destruct IH as (hd & w & r' & -> & Hw & IHn).
    exists ((concat lines ++ e) ++ hd), w, r'. split; [now rewrite <- !app_assoc|]. split.
    { rewrite app_length. now rewrite Nat.add_assoc. }
    intros n ef rc cl fuel Hf.
    pose proof (head_block_length lines e Hb) as Hpos.
    destruct Hb as (Hne & Hls & He & Hcap).
    destruct fuel as [|f]; [lia|]. cbn [read_response_loop].
    rewrite app_assoc. rewrite app_assoc in Hf.
    destruct (Nat.ltb_spec n (length (concat lines ++ e))) as [Hn|Hn].
    + rewrite firstn_app_lt by lia. rewrite read_head_trunc; try assumption; try lia.
      * destruct (Nat.ltb_spec n (length ((concat lines ++ e) ++ hd))) as [_|Hc]; [reflexivity|].
        rewrite app_length in Hc. lia.
      * unfold fuel_of; cbn [cn pending]. rewrite firstn_length. lia.
    + rewrite firstn_app_ge by exact Hn. rewrite firstn_app_ge in Hf by exact Hn.
      rewrite <- (app_assoc (concat lines) e (firstn _ _)).
      rewrite read_head_ok; try assumption; try lia; [|now right|].
      2:{ unfold fuel_of. cbn [cn pending]. pose proof (lines_length_le lines Hls). rewrite !app_length. lia. }
      cbn [app]. rewrite Hp.
      destruct (is_interim (r_status r)) eqn:Ei.
      2:{ apply is_interim_iff in Hi. congruence. }
      assert (Hf' : (length (firstn (n - length (concat lines ++ e)) (hd ++ w)) < f)%nat).
      { rewrite app_length in Hf. lia. }
      specialize (IHn (n - length (concat lines ++ e))%nat ef (rc ++ concat lines ++ e) cl f Hf').
      rewrite (app_length (concat lines ++ e) hd).
      destruct (Nat.ltb_spec (n - length (concat lines ++ e)) (length hd)) as [Hc|Hc];
        destruct (Nat.ltb_spec n (length (concat lines ++ e) + length hd)) as [Hc'|Hc']; try lia.
      * exact IHn.
      * rewrite IHn. repeat rewrite <- app_assoc.
        replace (n - length (concat lines ++ e) - length hd)%nat with (n - (length (concat lines ++ e) + length hd))%nat by lia.
        reflexivity.
Qed.

Section Trunc.
  Variable zst : Type.
  Variable zinit : wbits -> zst.
  Variable zstep : zst -> N -> option (zst * list N).
  Variable zeof : zst -> bool.
  Variable zfl : zst -> list N.

  Notation dstate := (dstate zst).
  Notation feed := (feed zst zinit zstep).
  Notation finish := (finish zst zeof zfl).
  Notation chunks_spec := (chunks_spec zst zinit zstep).
  Notation read_body := (read_body zst zinit zstep zeof zfl).
  Notation exchange := (exchange zst zinit zstep zeof zfl).
  Notation run := (run zst zinit zstep zeof zfl).

  (* ---------------- chunked body cut before the last-chunk line is complete ---------------- *)
  Lemma chunks_spec_trunc w d :
    chunks w d ->
    forall ll k ef rc cl (ds : dstate) out fuel,
      chunk_line 0 ll -> (k < length (w ++ ll))%nat -> (k + 1 < fuel)%nat ->
      is_error (chunks_spec fuel ds out (mkSt (mkConn (firstn k (w ++ ll)) ef) rc cl)).
  Proof.
    induction 1 as [|w1 d1 w2 d2 Hc Hcs IH]; intros ll k ef rc cl ds out fuel Hll Hk Hf.
    - cbn [app] in *. destruct fuel as [|f]; [lia|]. cbn [HttpProofs.chunks_spec].
      destruct (chunk_line_split 0 ll Hll) as (a & -> & Hna & Hla).
      rewrite app_length in Hk. cbn [length] in Hk.
      rewrite firstn_app_lt by lia.
      rewrite read_chunk_header_nolf; [cbn; auto|now apply no_lf_firstn|].
      pose proof (firstn_len_le k a). lia.
    - destruct fuel as [|f]; [lia|]. cbn [HttpProofs.chunks_spec].
      destruct Hc as [l data e Hd Hl He].
      assert (Hlen : (0 < length data)%nat) by (destruct data; [congruence|cbn; lia]).
      destruct (chunk_line_split _ l Hl) as (a & El & Hna & Hla).
      repeat rewrite <- app_assoc. repeat rewrite <- app_assoc in Hk.
      destruct (le_lt_dec k (length a)) as [Hka|Hka].
      { (* inside the chunk-size line *)
        rewrite El. rewrite <- app_assoc. rewrite firstn_app_lt by exact Hka.
        rewrite read_chunk_header_nolf; [cbn; auto|now apply no_lf_firstn|].
        pose proof (firstn_len_le k a). lia. }
      assert (Hll' : length l = S (length a)) by (rewrite El, app_length; cbn; lia).
      rewrite firstn_app_ge by lia.
      rewrite (read_chunk_header_wf (N.of_nat (length data)) l) by assumption.
      destruct (N.eqb_spec (N.of_nat (length data)) 0) as [E0|_]; [lia|].
      unfold notify; cbn [cn recd closed].
      unfold HttpProofs.chunk_data_spec; cbn [cn pending recd closed eof_hit]. rewrite Nat2N.id.
      set (k1 := (k - length l)%nat).
      destruct (le_lt_dec (length data) k1) as [Hkd|Hkd].
      2:{ (* inside the chunk data *)
        rewrite firstn_app_lt by lia.
        rewrite firstn_firstn. replace (Nat.min (length data) k1) with k1 by lia.
        destruct (feed ds (firstn k1 data)) as [[ds1 o1]|]; [|cbn; auto].
        rewrite firstn_length. destruct (Nat.ltb_spec (Nat.min k1 (length data)) (length data)); [|lia].
        destruct f as [|f']; [lia|]. cbn [HttpProofs.chunks_spec].
        rewrite read_chunk_header_nolf; [cbn; auto|intros []|cbn; lia]. }
      rewrite firstn_app_ge by exact Hkd.
      rewrite firstn_app, Nat.sub_diag, firstn_O, app_nil_r, firstn_all.
      destruct (feed ds data) as [[ds1 o1]|]; [|cbn; auto].
      rewrite app_length. destruct (Nat.ltb_spec (length data + length (firstn (k1 - length data) (e ++ w2 ++ ll))) (length data)); [lia|].
      rewrite skipn_app, Nat.sub_diag, skipn_all. cbn [app skipn].
      set (k2 := (k1 - length data)%nat).
      unfold HttpProofs.chunk_end.
      destruct (le_lt_dec (length e) k2) as [Hke|Hke].
      2:{ (* between the data and the end of its CRLF *)
        rewrite firstn_app_lt by lia.
        destruct (eol_prefix_nolf e k2 He Hke) as [Hn2 Hl2].
        rewrite st_readline_eof by (assumption || lia).
        destruct (Nat.ltb_spec 2 (length (firstn k2 e))); [lia|].
        unfold notify; cbn [cn recd closed].
        destruct f as [|f']; [lia|]. cbn [HttpProofs.chunks_spec].
        rewrite read_chunk_header_nolf; [cbn; auto|intros []|cbn; lia]. }
      rewrite firstn_app_ge by exact Hke.
      rewrite st_readline_eol by assumption.
      assert (He2 : (2 <? length e)%nat = false) by (destruct He as [-> | ->]; reflexivity).
      rewrite He2. unfold notify; cbn [cn recd closed].
      apply IH; [assumption| |].
      + rewrite !app_length in *. subst k1 k2. lia.
      + subst k1 k2. lia.
  Qed.

  Lemma finish_error x : is_error x -> is_error (finish x).
  Proof. destruct x as [e|[ds o] s]; cbn; [auto|intros []]. Qed.

  (* ---------------- the body cut short ---------------- *)
  Lemma read_body_trunc P r hl w m :
    wf_body P r hl w m ->
    forall o k ef rc, (hl + k < m_complete m)%nat ->
      is_error (read_body o P r (mkSt (mkConn (firstn k w) ef) rc false)).
  Proof.
    intros Hw o k ef rc Hk. rewrite read_body_unfold.
    destruct Hw as [Hnb | w d ll t fs Hnb Hte Hcs Hll Htr Hfp | w Hnb Hte Hig Hcl | w Hnb Hte Hcl];
      cbn [m_complete] in Hk; try lia.
    - (* chunked *)
      destruct (is_no_body P r) eqn:Enb; [apply is_no_body_iff in Enb; contradiction|].
      rewrite (strategy_chunked r Hte), read_body_by_chunk_spec. unfold by_chunk_spec.
      rewrite app_assoc. rewrite firstn_app_lt by lia.
      pose proof (chunks_spec_trunc w d Hcs ll k ef rc false (dinit zst (content_kind r)) []
                    (fuel_of (mkSt (mkConn (firstn k (w ++ ll)) ef) rc false)) Hll ltac:(lia)) as H.
      unfold fuel_of in *; cbn [cn pending] in *. rewrite firstn_length in *.
      specialize (H ltac:(lia)).
      destruct (chunks_spec _ _ _ _) as [e0|[ds' o'] s']; [|destruct H]. cbn. exact H.
    - (* Content-Length *)
      destruct (is_no_body P r) eqn:Enb; [apply is_no_body_iff in Enb; contradiction|].
      destruct Hcl as (v & Hv & Hvne & Hdv & Hvl).
      rewrite (strategy_length r Hte) by congruence. rewrite Hig.
      destruct (read_body_by_length_spec zst zinit zstep zeof zfl o r (dinit zst (content_kind r))
                  (mkSt (mkConn (firstn k w) ef) rc false)) as (ovr & Hovr & ->).
      unfold by_length_spec. rewrite Hv, (py_int10_dec v _ Hvne Hdv Hvl).
      destruct (Z.ltb_spec (Z.of_N (N.of_nat (length w))) 0) as [Hz|_]; [lia|].
      rewrite N2Z.id. unfold length_spec; cbn [cn pending].
      destruct (feed _ _) as [[ds' o']|]; [|cbn; auto].
      rewrite firstn_length.
      destruct (N.ltb_spec 0 (N.of_nat (length w) - N.of_nat (Nat.min k (length w)))) as [_|Hc]; [cbn; auto|lia].
  Qed.

  Theorem truncated_is_error o P bs m n :
    wf_response P 0 bs m -> (n < m_complete m)%nat -> is_error (run o P (firstn n bs)).
  Proof.
    intros Hwf Hn. unfold HttpMsg.run, HttpMsg.exchange, read_response, start.
    destruct (read_response_prefix P 0 bs m Hwf) as (hd & w & r & -> & Hw & Hpre).
    specialize (Hpre n false [] false (fuel_of (mkSt (mkConn (firstn n (hd ++ w)) false) [] false))).
    cbn [Nat.add] in Hw.
    destruct (Nat.ltb_spec n (length hd)) as [Hc|Hc].
    - rewrite Hpre by (unfold fuel_of; cbn [cn pending]; lia). cbn. auto.
    - rewrite Hpre by (unfold fuel_of; cbn [cn pending]; lia).
      apply (read_body_trunc P r (length hd) w m Hw). lia.
  Qed.
End Trunc.
