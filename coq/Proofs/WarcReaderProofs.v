(* Facts about the strict WARC reader of Spec/WarcReader.v: fuel is sufficient, the
   record reader is front-local (what it reads does not depend on what follows the
   record), hence a valid archive followed by a valid archive is a valid archive -
   for plain files, and for compressed files under the self-delimiting-member
   hypothesis on the gzip decoder. *)
From Coq Require Import List NArith Bool Lia Arith ZifyBool ZifyNat ZifyN.
From Wpull Require Import Lib.Decimal Spec.WarcReader.
Import ListNotations.
Open Scope N_scope.

Lemma strip_pre_app p : forall c r y, strip_pre p c = Some r -> strip_pre p (c ++ y) = Some (r ++ y).
Proof.
  induction p as [|x p IH]; intros c r y H; cbn in *.
  - inversion H; subst. reflexivity.
  - destruct c as [|z c]; [discriminate|]. cbn. destruct (x =? z); [|discriminate]. apply IH. exact H.
Qed.

Lemma strip_pre_len p : forall c r, strip_pre p c = Some r -> length c = (length p + length r)%nat.
Proof.
  induction p as [|x p IH]; intros c r H; cbn in *.
  - inversion H; subst. reflexivity.
  - destruct c as [|z c]; [discriminate|]. destruct (x =? z); [|discriminate]. cbn. f_equal. apply IH. exact H.
Qed.

Lemma read_line_app : forall c l r y, read_line c = Some (l, r) -> read_line (c ++ y) = Some (l, r ++ y).
Proof.
  induction c as [|x c IH]; intros l r y H; [discriminate|].
  cbn [read_line app] in *. destruct (x =? 13).
  - destruct c as [|z c]; [discriminate|]. cbn [app]. destruct (z =? 10); [|discriminate].
    inversion H; subst. reflexivity.
  - destruct (x =? 10); [discriminate|].
    destruct (read_line c) as [[l' r']|] eqn:E; [|discriminate]. inversion H; subst.
    rewrite (IH l' r y eq_refl). reflexivity.
Qed.

Lemma read_line_len : forall c l r, read_line c = Some (l, r) -> length c = (length l + 2 + length r)%nat.
Proof.
  induction c as [|x c IH]; intros l r H; [discriminate|].
  cbn [read_line] in H. destruct (x =? 13).
  - destruct c as [|z c]; [discriminate|]. destruct (z =? 10); [|discriminate].
    inversion H; subst. cbn. lia.
  - destruct (x =? 10); [discriminate|].
    destruct (read_line c) as [[l' r']|] eqn:E; [|discriminate]. inversion H; subst.
    cbn [length]. rewrite (IH l' r eq_refl). lia.
Qed.

(* the result does not depend on the fuel once the fuel exceeds the input length *)
Lemma read_fields_fuel : forall f f' c,
  (length c < f)%nat -> (length c < f')%nat -> read_fields f c = read_fields f' c.
Proof.
  induction f as [|f IH]; intros f' c H H'; [lia|].
  destruct f' as [|f']; [lia|]. cbn [read_fields].
  destruct (read_line c) as [[l r]|] eqn:E; [|reflexivity].
  destruct l as [|x l]; [reflexivity|].
  destruct (parse_field (x :: l)); [|reflexivity].
  apply read_line_len in E. cbn [length] in E.
  rewrite (IH f' r) by lia. reflexivity.
Qed.

Lemma read_fields_app : forall f c fs r y,
  read_fields f c = Some (fs, r) -> read_fields f (c ++ y) = Some (fs, r ++ y).
Proof.
  induction f as [|f IH]; intros c fs r y H; [discriminate|].
  cbn [read_fields] in *.
  destruct (read_line c) as [[l r0]|] eqn:E; [|discriminate].
  rewrite (read_line_app _ _ _ y E).
  destruct l as [|x l]; [inversion H; subst; reflexivity|].
  destruct (parse_field (x :: l)) as [fld|]; [|discriminate].
  destruct (read_fields f r0) as [[fs' r']|] eqn:R; [|discriminate]. inversion H; subst.
  rewrite (IH _ _ _ y R). reflexivity.
Qed.

Lemma read_fields_len : forall f c fs r, read_fields f c = Some (fs, r) -> (length r <= length c)%nat.
Proof.
  induction f as [|f IH]; intros c fs r H; [discriminate|].
  cbn [read_fields] in H.
  destruct (read_line c) as [[l r0]|] eqn:E; [|discriminate].
  apply read_line_len in E.
  destruct l as [|x l]; [inversion H; subst; lia|].
  destruct (parse_field (x :: l)) as [fld|]; [|discriminate].
  destruct (read_fields f r0) as [[fs' r']|] eqn:R; [|discriminate]. inversion H; subst.
  apply IH in R. lia.
Qed.

Theorem read_record_local c rec r y :
  read_record c = Some (rec, r) -> read_record (c ++ y) = Some (rec, r ++ y).
Proof.
  unfold read_record. intros H.
  destruct (strip_pre version_line c) as [c1|] eqn:E1; [|discriminate].
  rewrite (strip_pre_app _ _ _ y E1).
  destruct (read_fields (S (length c1)) c1) as [[fs c2]|] eqn:E2; [|discriminate].
  rewrite (read_fields_fuel (S (length (c1 ++ y))) (S (length c1 + length y)) (c1 ++ y))
    by (rewrite app_length; lia).
  assert (E2' : read_fields (S (length c1 + length y)) c1 = Some (fs, c2)).
  { rewrite (read_fields_fuel _ (S (length c1)) c1) by lia. exact E2. }
  rewrite (read_fields_app _ _ _ _ y E2').
  destruct (negb (mandatory_ok fs)); [discriminate|].
  destruct (content_length fs) as [n|]; [|discriminate].
  destruct (N.of_nat (length c2) <? n) eqn:L; [discriminate|].
  assert (L' : (N.of_nat (length (c2 ++ y)) <? n) = false) by (rewrite app_length; lia).
  rewrite L'.
  assert (Hn : (N.to_nat n <= length c2)%nat) by lia.
  rewrite skipn_app, firstn_app.
  replace (N.to_nat n - length c2)%nat with 0%nat by lia. cbn [skipn firstn]. rewrite app_nil_r.
  destruct (strip_pre crlfcrlf (skipn (N.to_nat n) c2)) as [c4|] eqn:E4; [|discriminate].
  rewrite (strip_pre_app _ _ _ y E4). inversion H; subst. reflexivity.
Qed.

(* a record consumes at least its version line *)
Lemma read_record_consumes c rec r : read_record c = Some (rec, r) -> (length r < length c)%nat.
Proof.
  unfold read_record. intros H.
  destruct (strip_pre version_line c) as [c1|] eqn:E1; [|discriminate].
  apply strip_pre_len in E1. cbn [length version_line] in E1.
  destruct (read_fields (S (length c1)) c1) as [[fs c2]|] eqn:E2; [|discriminate].
  apply read_fields_len in E2.
  destruct (negb (mandatory_ok fs)); [discriminate|].
  destruct (content_length fs) as [n|]; [|discriminate].
  destruct (N.of_nat (length c2) <? n); [discriminate|].
  destruct (strip_pre crlfcrlf (skipn (N.to_nat n) c2)) as [c4|] eqn:E4; [|discriminate].
  apply strip_pre_len in E4. rewrite skipn_length in E4. inversion H; subst. lia.
Qed.

(* ---- plain archives ---- *)
Theorem parse_plain_app a b xs ys :
  parse_plain a = Some xs -> parse_plain b = Some ys -> parse_plain (a ++ b) = Some (xs ++ ys).
Proof. apply read_all_app. intros c x r y. apply read_record_local. Qed.

Theorem warc_valid_app a b : warc_valid a = true -> warc_valid b = true -> warc_valid (a ++ b) = true.
Proof.
  unfold warc_valid. destruct (parse_plain a) as [xs|] eqn:A; [|discriminate].
  destruct (parse_plain b) as [ys|] eqn:B; [|discriminate]. intros _ _.
  rewrite (parse_plain_app _ _ _ _ A B). reflexivity.
Qed.

Lemma warc_valid_nil : warc_valid [] = true.
Proof. reflexivity. Qed.

(* ---- compressed archives ---- *)
Section Gz.
  Variable gunzip1 : rbytes -> option (rbytes * rbytes).
  (* a gzip member is self-delimiting: decoding the first member does not depend on what follows it *)
  Hypothesis gunzip1_local : forall c p r y, gunzip1 c = Some (p, r) -> gunzip1 (c ++ y) = Some (p, r ++ y).

  Lemma gz_item_local c x r y : gz_item gunzip1 c = Some (x, r) -> gz_item gunzip1 (c ++ y) = Some (x, r ++ y).
  Proof.
    unfold gz_item. destruct (gunzip1 c) as [[p rest]|] eqn:G; [|discriminate].
    rewrite (gunzip1_local _ _ _ y G).
    destruct (read_record p) as [[rec [|z t]]|]; try discriminate.
    intros H; inversion H; subst. reflexivity.
  Qed.

  Theorem parse_gz_app a b xs ys :
    parse_gz gunzip1 a = Some xs -> parse_gz gunzip1 b = Some ys -> parse_gz gunzip1 (a ++ b) = Some (xs ++ ys).
  Proof. apply read_all_app. exact gz_item_local. Qed.

  Theorem warc_gz_valid_app a b :
    warc_gz_valid gunzip1 a = true -> warc_gz_valid gunzip1 b = true -> warc_gz_valid gunzip1 (a ++ b) = true.
  Proof.
    unfold warc_gz_valid. destruct (parse_gz gunzip1 a) as [xs|] eqn:A; [|discriminate].
    destruct (parse_gz gunzip1 b) as [ys|] eqn:B; [|discriminate]. intros _ _.
    rewrite (parse_gz_app _ _ _ _ A B). reflexivity.
  Qed.
End Gz.

Lemma toy_gunzip_local c p r y : toy_gunzip c = Some (p, r) -> toy_gunzip (c ++ y) = Some (p, r ++ y).
Proof.
  unfold toy_gunzip. destruct c as [|n c]; [discriminate|]. cbn [app].
  destruct (Nat.leb (N.to_nat n) (length c)) eqn:E; [|discriminate]. apply Nat.leb_le in E.
  intros H; inversion H; subst.
  assert (E' : Nat.leb (N.to_nat n) (length (c ++ y)) = true) by (apply Nat.leb_le; rewrite app_length; lia).
  rewrite E'. rewrite firstn_app, skipn_app.
  replace (N.to_nat n - length c)%nat with 0%nat by lia. cbn [firstn skipn]. rewrite app_nil_r. reflexivity.
Qed.
