(* C10, the letter case of the hex digits of escapes in the QUERY and the FRAGMENT of a whole URL: lifted from the
   byte-level theorem (Proofs/UrlEscCaseProofs.v) through the encoder - for encoders that map ASCII to itself and every
   other character to bytes >= 128 (UTF-8, Latin-1, ...) - the component normalizers, the component split and the parser. *)
From Coq Require Import List NArith ZArith Bool Lia Arith.
From Coq Require Import ZifyBool ZifyNat ZifyN.
From Wpull Require Import Model.UrlLib Model.Url Proofs.UrlPeProofs Proofs.UrlStrProofs Proofs.UrlPathProofs
  Proofs.UrlTotalProofs Proofs.UrlHostProofs Proofs.UrlNormProofs Proofs.UrlEquivProofs Proofs.UrlEquiv2Proofs
  Proofs.UrlEscCaseProofs Proofs.UrlEquiv3Proofs.
Import ListNotations.
Open Scope N_scope.

(* ---------- encoders ---------- *)
Definition encc_high (encc : N -> option (list N)) : Prop :=
  (forall c, c < 128 -> encc c = Some [c]) /\
  (forall c bs, 128 <= c -> encc c = Some bs -> bs <> [] /\ Forall (fun b => 128 <= b /\ b < 256) bs).

Definition enc_high_ok (enc : str -> option (list N)) : Prop :=
  exists encc, (forall s, enc s = charwise encc s) /\ encc_high encc.

Lemma utf8_enc_high_ok : enc_high_ok utf8.
Proof.
  exists utf8c. split; [reflexivity|]. split.
  - intros c Hc. unfold utf8c. destruct (c <? 128) eqn:E; [reflexivity|lia].
  - intros c bs Hc. unfold utf8c. destruct (c <? 128) eqn:E1; [lia|].
    destruct (c <? 2048) eqn:E2.
    { intros H. assert (Hbs : bs = [192 + c / 64; 128 + c mod 64]) by congruence. rewrite Hbs. split; [discriminate|].
      assert (c / 64 < 32) by (apply N.div_lt_upper_bound; lia). assert (c mod 64 < 64) by (apply N.mod_lt; lia).
      repeat (apply Forall_cons; [lia|]); apply Forall_nil. }
    destruct ((55296 <=? c) && (c <=? 57343)); [discriminate|].
    destruct (c <? 65536) eqn:E3.
    { intros H. assert (Hbs : bs = [224 + c / 4096; 128 + (c / 64) mod 64; 128 + c mod 64]) by congruence. rewrite Hbs. split; [discriminate|].
      assert (c / 4096 < 16) by (apply N.div_lt_upper_bound; lia).
      assert ((c / 64) mod 64 < 64) by (apply N.mod_lt; lia). assert (c mod 64 < 64) by (apply N.mod_lt; lia).
      repeat (apply Forall_cons; [lia|]); apply Forall_nil. }
    destruct (c <? 1114112) eqn:E4; [|discriminate].
    intros H.
    assert (Hbs : bs = [240 + c / 262144; 128 + (c / 4096) mod 64; 128 + (c / 64) mod 64; 128 + c mod 64]) by congruence.
    rewrite Hbs. split; [discriminate|].
    assert (c / 262144 < 5) by (apply N.div_lt_upper_bound; lia).
    assert ((c / 4096) mod 64 < 64) by (apply N.mod_lt; lia).
    assert ((c / 64) mod 64 < 64) by (apply N.mod_lt; lia). assert (c mod 64 < 64) by (apply N.mod_lt; lia).
    repeat (apply Forall_cons; [lia|]); apply Forall_nil.
Qed.

(* ---------- hexcase through the encoder ---------- *)
Definition opt_hexcase (o o' : option (list N)) : Prop :=
  match o, o' with
  | Some b, Some b' => hexcase b b' /\ bytes b
  | None, None => True
  | _, _ => False
  end.

Lemma hexcase_high_prefix p r r' : Forall (fun b => 128 <= b /\ b < 256) p -> hexcase r r' -> hexcase (p ++ r) (p ++ r').
Proof.
  induction p as [|x p IH]; intros Hp H; [exact H|]. inversion Hp as [|? ? Hx Hp']; subst.
  cbn [app]. apply hc_chr; [lia | now apply IH].
Qed.

Lemma is_hex_low c : is_hex c = true -> c < 128.
Proof. unfold is_hex. lia. Qed.

Section Through.
Variable encc : N -> option (list N).
Hypothesis HE : encc_high encc.

Lemma encc_bytes c bs : encc c = Some bs -> bytes bs.
Proof.
  destruct HE as [H1 H2]. intros H. destruct (N.ltb_spec c 128) as [Hc|Hc].
  - rewrite (H1 c Hc) in H. inversion H; subst. constructor; [lia | constructor].
  - eapply Forall_impl; [|apply (H2 c bs Hc H)]. cbn. intros b [_ Hb]. exact Hb.
Qed.

Lemma charwise_bytes s b : charwise encc s = Some b -> bytes b.
Proof.
  revert b. induction s as [|c r IH]; intros b H; cbn [charwise] in H.
  - inversion H. constructor.
  - destruct (encc c) as [a|] eqn:Ec; [|discriminate]. destruct (charwise encc r) as [br|]; [|discriminate].
    inversion H; subst. apply Forall_app. split; [now apply (encc_bytes c) | now apply IH].
Qed.

Lemma encc_shape c bs : encc c = Some bs ->
  (c < 128 /\ bs = [c]) \/ (128 <= c /\ exists y r, bs = y :: r /\ 128 <= y /\ Forall (fun b => 128 <= b /\ b < 256) bs).
Proof.
  destruct HE as [H1 H2]. intros H. destruct (N.ltb_spec c 128) as [Hc|Hc].
  - left. rewrite (H1 c Hc) in H. inversion H. auto.
  - right. split; [assumption|]. destruct (H2 c bs Hc H) as [Hne Hf]. destruct bs as [|y r]; [contradiction|].
    exists y, r. split; [reflexivity|]. inversion Hf as [|? ? [Hy _] _]; subst. auto.
Qed.

Lemma not_hex_high y : 128 <= y -> is_hex y = false.
Proof. unfold is_hex. lia. Qed.

(* "%" followed by something that is not two hex digits stays so after encoding *)
Lemma esc_head_charwise r b : esc_head r = false -> charwise encc r = Some b -> esc_head b = false.
Proof.
  intros He H. destruct r as [|a1 [|a2 r2]]; cbn [charwise] in H.
  - inversion H. reflexivity.
  - destruct (encc a1) as [e1|] eqn:E1; [|discriminate]. inversion H; subst. rewrite app_nil_r.
    destruct (encc_shape a1 e1 E1) as [[_ ->]|[_ [y [r [-> [Hy _]]]]]]; [reflexivity|].
    destruct r; cbn [esc_head]; [reflexivity|]. now rewrite (not_hex_high y Hy).
  - destruct (encc a1) as [e1|] eqn:E1; [|discriminate].
    destruct (encc a2) as [e2|] eqn:E2; [|discriminate].
    destruct (charwise encc r2) as [br|]; [|discriminate]. inversion H; subst. cbn [esc_head] in He.
    destruct (encc_shape a1 e1 E1) as [[_ ->]|[_ [y [r [-> [Hy _]]]]]].
    + cbn [app]. destruct (encc_shape a2 e2 E2) as [[_ ->]|[_ [y2 [r' [-> [Hy2 _]]]]]]; cbn [app esc_head].
      * exact He.
      * rewrite (not_hex_high y2 Hy2). apply andb_false_r.
    + cbn [app]. destruct (r ++ e2 ++ br); cbn [esc_head]; [reflexivity|]. now rewrite (not_hex_high y Hy).
Qed.

Theorem charwise_hexcase s s' : hexcase s s' -> opt_hexcase (charwise encc s) (charwise encc s').
Proof.
  destruct HE as [H1 H2].
  induction 1 as [|a b a' b' r r' Ha Hb Ha' Hb' Ua Ub H IH|r r' He He' H IH|x r r' Hx H IH]; cbn [charwise].
  - split; constructor.
  - rewrite (H1 37 ltac:(lia)), (H1 a (is_hex_low a Ha)), (H1 b (is_hex_low b Hb)), (H1 a' (is_hex_low a' Ha')), (H1 b' (is_hex_low b' Hb')).
    unfold opt_hexcase in IH. destruct (charwise encc r) as [br|], (charwise encc r') as [br'|]; try contradiction; [|exact I].
    destruct IH as [IH Hbr]. cbn [app]. split.
    + apply hc_esc; assumption.
    + pose proof (is_hex_low a Ha). pose proof (is_hex_low b Hb). repeat (apply Forall_cons; [lia|]). exact Hbr.
  - rewrite (H1 37 ltac:(lia)).
    unfold opt_hexcase in IH. destruct (charwise encc r) as [br|] eqn:Er, (charwise encc r') as [br'|] eqn:Er'; try contradiction; [|exact I].
    destruct IH as [IH Hbr]. cbn [app]. split.
    + apply hc_pct; [now apply (esc_head_charwise r) | now apply (esc_head_charwise r') | exact IH].
    + apply Forall_cons; [lia | exact Hbr].
  - destruct (encc x) as [ex|] eqn:Ex.
    + unfold opt_hexcase in IH. destruct (charwise encc r) as [br|], (charwise encc r') as [br'|]; try contradiction; [|exact I].
      destruct IH as [IH Hbr]. split.
      * destruct (encc_shape x ex Ex) as [[_ ->]|[_ [y [rr [-> [_ Hf]]]]]].
        -- cbn [app]. now apply hc_chr.
        -- now apply hexcase_high_prefix.
      * apply Forall_app. split; [now apply (encc_bytes x) | exact Hbr].
    + unfold opt_hexcase in IH. destruct (charwise encc r), (charwise encc r'); try contradiction; exact I.
Qed.
End Through.

(* ---------- the component normalizers ---------- *)
Lemma hexcase_memb c s s' : is_hex c = false -> hexcase s s' -> memb c s = memb c s'.
Proof.
  intros Hc. induction 1 as [|a b a' b' r r' Ha Hb Ha' Hb' Ua Ub H IH|r r' He He' H IH|x r r' Hx H IH]; cbn [memb].
  - reflexivity.
  - assert (E : forall h, is_hex h = true -> (h =? c) = false) by (intros h Hh; apply N.eqb_neq; intros ->; congruence).
    rewrite (E a Ha), (E b Hb), (E a' Ha'), (E b' Hb'), IH. reflexivity.
  - now rewrite IH.
  - now rewrite IH.
Qed.

Section Components.
Variable enc : str -> option (list N).
Hypothesis Henc : enc_high_ok enc.

Lemma enc_hexcase s s' : hexcase s s' -> opt_hexcase (enc s) (enc s').
Proof. destruct Henc as [encc [E HE]]. rewrite !E. now apply charwise_hexcase. Qed.

Lemma percent_encode_hexcase set s s' : set_ok set -> hexcase s s' ->
  match percent_encode enc set s, percent_encode enc set s' with
  | Ok p, Ok p' => upper_pe p = upper_pe p' /\ upper_pe (replace1 32 43 p) = upper_pe (replace1 32 43 p')
  | Err k, Err k' => k = k'
  | _, _ => False
  end.
Proof.
  intros Hs H. unfold percent_encode. pose proof (enc_hexcase s s' H) as O. unfold opt_hexcase in O.
  destruct (enc s) as [b|], (enc s') as [b'|]; try contradiction; [|reflexivity].
  destruct O as [Hb Bb]. split; [now apply escape_case_same | now apply escape_case_same_plus].
Qed.

Lemma normalize_query_hexcase q q' : hexcase q q' -> normalize_query enc q = normalize_query enc q'.
Proof.
  intros H. unfold normalize_query, percent_encode_plus.
  rewrite (hexcase_memb 32 q q' ltac:(reflexivity) H).
  pose proof (percent_encode_hexcase query_encode_set q q' (proj1 (proj2 sets_ok)) H) as P.
  destruct (percent_encode enc query_encode_set q) as [p|k], (percent_encode enc query_encode_set q') as [p'|k']; try contradiction.
  - destruct P as [P1 P2]. destruct (negb (memb 32 q')); cbn [bind]; congruence.
  - subst. reflexivity.
Qed.

Lemma normalize_fragment_hexcase f f' : hexcase f f' -> normalize_fragment enc f = normalize_fragment enc f'.
Proof.
  intros H. unfold normalize_fragment.
  pose proof (percent_encode_hexcase fragment_encode_set f f' (proj2 (proj2 sets_ok)) H) as P.
  destruct (percent_encode enc fragment_encode_set f) as [p|k], (percent_encode enc fragment_encode_set f') as [p'|k']; try contradiction.
  - destruct P as [P1 _]. cbn [bind]. congruence.
  - subst. reflexivity.
Qed.
End Components.

(* ---------- the tail "?q" / "?q#f" of a URL ---------- *)
Definition frag_tail (F : str) : Prop := F = [] \/ exists f, F = 35 :: f.

Lemma tail_of_query q F : memb 35 q = false -> frag_tail F ->
  tail_query (63 :: q ++ F) = q /\ tail_fragment (63 :: q ++ F) = skipn 1 F.
Proof.
  intros Hq HF. unfold tail_query, tail_fragment, tail_k.
  assert (K : match find_idx 35 (63 :: q ++ F) with Some i => i | None => length (63 :: q ++ F) end = S (length q)).
  { cbn [find_idx N.eqb Pos.eqb]. destruct HF as [->|[f ->]].
    - rewrite app_nil_r. rewrite (find_idx_none 35 q Hq). cbn [length]. reflexivity.
    - rewrite (find_idx_first 35 q f Hq). reflexivity. }
  rewrite K. unfold slice. split.
  - change (skipn 1 (63 :: q ++ F)) with (q ++ F).
    replace (S (length q) - 1)%nat with (length q) by lia. apply firstn_len_app.
  - change (skipn (S (S (length q))) (63 :: q ++ F)) with (skipn (S (length q)) (q ++ F)).
    replace (S (length q)) with (length q + 1)%nat by lia. apply skipn_add_app.
Qed.

Section QueryCaseUrl.
Variable enc : str -> option (list N).
Variable lower_o : str -> str.
Variable idna_o : str -> option str.
Variable ipv6_o : str -> option str.
Variable int_o : N -> str -> option Z.
Variable unq_o : str -> str.
Hypothesis Henc : enc_high_ok enc.
Notation parse := (Url.parse enc lower_o idna_o ipv6_o int_o unq_o).

(* "scheme://A/P0?q F" and "scheme://A/P0?q' F'" where q / q' and the fragments differ only in the letter case of the hex
   digits of escapes *)
Theorem parse_network_query_case url url' scheme dport A P0 q q' F F' :
  default_port scheme = Some dport ->
  memb 47 A = false -> memb 63 A = false -> memb 35 A = false ->
  memb 63 P0 = false -> memb 35 P0 = false -> memb 35 q = false -> memb 35 q' = false ->
  hexcase q q' -> frag_tail F -> frag_tail F' -> hexcase (skipn 1 F) (skipn 1 F') ->
  match parse_network enc idna_o ipv6_o int_o unq_o url scheme dport ([47; 47] ++ A ++ 47 :: P0 ++ 63 :: q ++ F),
        parse_network enc idna_o ipv6_o int_o unq_o url' scheme dport ([47; 47] ++ A ++ 47 :: P0 ++ 63 :: q' ++ F') with
  | Ok i, Ok i' => url_of enc i = url_of enc i' /\ u_scheme i = u_scheme i' /\ u_hostname i = u_hostname i' /\
                   u_port i = u_port i' /\ u_path i = u_path i' /\ u_query i = u_query i' /\ u_fragment i = u_fragment i' /\
                   u_username i = u_username i' /\ u_password i = u_password i'
  | Err k, Err k' => k = k'
  | _, _ => False
  end.
Proof.
  intros Hd A47 A63 A35 P63 P35 Q35 Q35' Hq HF HF' Hf.
  unfold parse_network. rewrite !(startswith_app [47; 47]). cbn [app skipn].
  assert (T1 : tail_ok (63 :: q ++ F)) by (cbn; auto). assert (T2 : tail_ok (63 :: q' ++ F')) by (cbn; auto).
  assert (R1 : rest_ok (47 :: P0 ++ 63 :: q ++ F)) by (cbn; auto).
  assert (R2 : rest_ok (47 :: P0 ++ 63 :: q' ++ F')) by (cbn; auto).
  rewrite (split_remaining_shift A _ A47 A63 A35 R1), (split_remaining_shift A _ A47 A63 A35 R2).
  rewrite (split_remaining_path P0 _ P63 P35 T1), (split_remaining_path P0 _ P63 P35 T2).
  destruct (tail_of_query q F Q35 HF) as [-> ->]. destruct (tail_of_query q' F' Q35' HF') as [-> ->].
  rewrite (normalize_query_hexcase enc Henc q q' Hq), (normalize_fragment_hexcase enc Henc _ _ Hf).
  destruct (parse_authority A) as [userinfo host].
  destruct (parse_host idna_o ipv6_o int_o host) as [[h port]|k]; cbn [bind]; [|reflexivity].
  destruct (parse_userinfo userinfo) as [username password].
  destruct (is_nil h); [reflexivity|].
  destruct (normalize_path enc _); cbn [bind]; [|reflexivity].
  destruct (normalize_query enc q'); cbn [bind]; [|reflexivity].
  destruct (normalize_fragment enc _); cbn [bind]; [|reflexivity].
  destruct (normalize_userpart enc username_encode_set _); cbn [bind]; [|reflexivity].
  destruct (normalize_userpart enc password_encode_set _); cbn [bind]; [|reflexivity].
  split; [|repeat split; reflexivity].
  unfold url_of, is_ipv6. cbn [u_scheme u_username u_password u_host u_hostname u_port u_path u_query]. rewrite Hd. reflexivity.
Qed.

Theorem parse_url_query_case sch sc dport A P0 q q' F F' :
  scheme_text lower_o sch sc dport ->
  memb 47 A = false -> memb 63 A = false -> memb 35 A = false ->
  memb 63 P0 = false -> memb 35 P0 = false -> memb 35 q = false -> memb 35 q' = false ->
  hexcase q q' -> frag_tail F -> frag_tail F' -> hexcase (skipn 1 F) (skipn 1 F') ->
  let rem := [47; 47] ++ A ++ 47 :: P0 ++ 63 :: q ++ F in
  let rem' := [47; 47] ++ A ++ 47 :: P0 ++ 63 :: q' ++ F' in
  plain_text (sch ++ 58 :: rem) -> plain_text (sch ++ 58 :: rem') ->
  same_url enc (parse (sch ++ 58 :: rem)) (parse (sch ++ 58 :: rem')).
Proof.
  intros Hs A47 A63 A35 P63 P35 Q35 Q35' Hq HF HF' Hf rem rem' P1 P2.
  apply (parse_lift enc lower_o idna_o ipv6_o int_o unq_o (same_url enc) sch sc dport rem rem' Hs P1 P2). intros url url'.
  destruct Hs as [_ [_ [_ [_ [_ Hd]]]]].
  exact (parse_network_query_case url url' sc dport A P0 q q' F F' Hd A47 A63 A35 P63 P35 Q35 Q35' Hq HF HF' Hf).
Qed.
End QueryCaseUrl.
