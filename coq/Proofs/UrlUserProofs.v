(* C10, user-info: the text the url property writes for a user name / password is
   decoded by urllib's unquote back to something that re-encodes to the same text. *)
From Coq Require Import List NArith ZArith Bool Lia Arith.
From Coq Require Import ZifyBool ZifyNat ZifyN.
From Wpull Require Import Model.UrlLib Model.Url Proofs.UrlPeProofs Proofs.UrlStrProofs Proofs.UrlTotalProofs
  Proofs.UrlEncProofs.
Import ListNotations.
Open Scope N_scope.

Lemma hexv_upper n : n < 16 -> hexv (hex_upper_digit n) = n /\ is_hex (hex_upper_digit n) = true
                               /\ upper_c (hex_upper_digit n) = hex_upper_digit n.
Proof.
  intros Hn. unfold hexv, hex_upper_digit, is_hex, upper_c. destruct (n <? 10) eqn:E.
  - replace ((48 <=? 48 + n) && (48 + n <=? 57)) with true by lia.
    replace ((97 <=? 48 + n) && (48 + n <=? 122)) with false by lia. repeat split; lia.
  - replace ((48 <=? 55 + n) && (55 + n <=? 57)) with false by lia.
    replace ((97 <=? 55 + n) && (55 + n <=? 102)) with false by lia.
    replace ((97 <=? 55 + n) && (55 + n <=? 122)) with false by lia. repeat split; lia.
Qed.

Section WithSet.
Variable set : str.
Hypothesis pct_in_set : memb 37 set = true.

(* one byte: either kept (and then it is not '%'), or a well-formed upper-case escape *)
Lemma pe_byte_shape b : b < 256 ->
  (pe_byte set b = [b] /\ b <> 37 /\ 32 <= b <= 126 /\ memb b set = false) \/
  (pe_byte set b = [37; hex_upper_digit (b / 16); hex_upper_digit (b mod 16)]).
Proof.
  intros Hb. unfold pe_byte. destruct ((b <? 32) || (126 <? b) || memb b set) eqn:E; [now right|left].
  apply orb_false_iff in E. destruct E as [E E3]. apply orb_false_iff in E. destruct E as [E1 E2].
  assert (b <> 37) by (intros ->; congruence). repeat split; first [lia | assumption].
Qed.

Lemma upper_pe_pe_bytes bs : Forall (fun b => b < 256) bs -> upper_pe (pe_bytes set bs) = pe_bytes set bs.
Proof.
  induction 1 as [|b r Hb Hr IH]; [reflexivity|].
  change (pe_bytes set (b :: r)) with (pe_byte set b ++ pe_bytes set r).
  destruct (pe_byte_shape b Hb) as [ [ -> [H37 _] ] | -> ].
  - cbn [app]. rewrite upper_pe_other by exact H37. now rewrite IH.
  - assert (H1 : b / 16 < 16) by (apply N.div_lt_upper_bound; lia).
    assert (H2 : b mod 16 < 16) by (apply N.mod_lt; lia).
    destruct (hexv_upper _ H1) as [_ [Hh1 Hu1]]. destruct (hexv_upper _ H2) as [_ [Hh2 Hu2]].
    cbn [app]. rewrite upper_pe_esc by (now rewrite Hh1, Hh2). now rewrite Hu1, Hu2, IH.
Qed.

Lemma unescape_pe_bytes bs : Forall (fun b => b < 256) bs -> unescape (pe_bytes set bs) = bs.
Proof.
  induction 1 as [|b r Hb Hr IH]; [reflexivity|].
  change (pe_bytes set (b :: r)) with (pe_byte set b ++ pe_bytes set r).
  destruct (pe_byte_shape b Hb) as [ [ -> [H37 _] ] | -> ].
  - cbn [app unescape]. destruct (b =? 37) eqn:E; [lia|]. now rewrite IH.
  - assert (H1 : b / 16 < 16) by (apply N.div_lt_upper_bound; lia).
    assert (H2 : b mod 16 < 16) by (apply N.mod_lt; lia).
    destruct (hexv_upper _ H1) as [Hv1 [Hh1 _]]. destruct (hexv_upper _ H2) as [Hv2 [Hh2 _]].
    cbn [app unescape]. change (37 =? 37) with true. cbv iota. rewrite Hh1, Hh2. cbn [andb]. rewrite Hv1, Hv2, IH.
    f_equal. pose proof (N.div_mod b 16 ltac:(lia)). lia.
Qed.

(* no '%' in the output: nothing was escaped *)
Lemma pe_bytes_nopct bs : Forall (fun b => b < 256) bs -> memb 37 (pe_bytes set bs) = false ->
  pe_bytes set bs = bs /\ Forall (fun c => 32 <= c <= 126 /\ memb c set = false) bs.
Proof.
  induction 1 as [|b r Hb Hr IH]; [split; [reflexivity|constructor]|].
  change (pe_bytes set (b :: r)) with (pe_byte set b ++ pe_bytes set r). rewrite memb_app. intros H.
  apply orb_false_iff in H. destruct H as [H1 H2]. destruct (IH H2) as [IH1 IH2].
  destruct (pe_byte_shape b Hb) as [[E [H37 [Hr1 Hm]]]|E]; rewrite E in *.
  - cbn [app]. rewrite IH1. split; [reflexivity|]. constructor; [split; assumption|exact IH2].
  - cbn [memb N.eqb Pos.eqb orb] in H1. discriminate.
Qed.

Lemma pe_bytes_ascii bs : Forall (fun b => b < 256) bs -> all_ascii (pe_bytes set bs) = true.
Proof.
  intros H. apply all_ascii_Forall. eapply Forall_impl; [|apply (pe_bytes_out set bs H)].
  unfold pe_out_char. intros c Hc. lia.
Qed.

Section Codec.
Variable enc : str -> option (list N).
Variable unq_o : str -> str.
Variable dec_o : list N -> str.          (* bytes.decode(encoding, 'replace') *)
Variable encc : N -> option (list N).
Hypothesis enc_charwise : forall s, enc s = charwise encc s.
Hypothesis enc_ascii1 : forall c, c < 128 -> encc c = Some [c].
Hypothesis enc_high : forall c bs, 128 <= c -> encc c = Some bs -> bs <> [] /\ Forall (fun b => 64 <= b /\ b < 256) bs.
(* unquote of ASCII text = decode (unquote_to_bytes text) *)
Hypothesis unquote_ascii : forall a, all_ascii a = true -> memb 37 a = true -> unq_o a = dec_o (unescape a).
(* decoding what the codec encoded and encoding again gives the same bytes *)
Hypothesis codec_roundtrip : forall t bs, enc t = Some bs -> enc (dec_o bs) = Some bs.

Theorem user_roundtrip_holds t a :
  normalize_userpart enc set t = Ok a -> normalize_userpart enc set (percent_decode unq_o a) = Ok a.
Proof.
  unfold normalize_userpart at 1. intros H. apply bind_ok in H. destruct H as [r [Hr [= <-]]].
  unfold percent_encode in Hr. destruct (enc t) as [bs|] eqn:Et; [|discriminate]. injection Hr as <-.
  assert (Hb : Forall (fun b => b < 256) bs) by (eapply enc_bytes; eauto).
  rewrite (upper_pe_pe_bytes bs Hb). unfold percent_decode.
  destruct (memb 37 (pe_bytes set bs)) eqn:E; cbn [negb].
  - rewrite (unquote_ascii _ (pe_bytes_ascii bs Hb) E), (unescape_pe_bytes bs Hb).
    unfold normalize_userpart, percent_encode. rewrite (codec_roundtrip t bs Et). cbn [bind].
    now rewrite (upper_pe_pe_bytes bs Hb).
  - destruct (pe_bytes_nopct bs Hb E) as [E1 HF]. rewrite E1.
    unfold normalize_userpart, percent_encode.
    assert (Ha : all_ascii bs = true) by (apply all_ascii_Forall; eapply Forall_impl; [|exact HF]; cbn beta; intros c Hc; lia).
    assert (He : enc bs = Some bs) by (eapply enc_ascii; eauto).
    rewrite He. cbn [bind]. rewrite (upper_pe_pe_bytes bs Hb). now rewrite E1.
Qed.
End Codec.
End WithSet.
