(* C10, the letter case of the hex digits of escapes in the PATH of a whole URL: the byte-level relation [hexcase] goes
   through the segment split, the dot-segment flattening and the join of flatten_path, then through the encoder and
   percent_encode (Proofs/UrlEscUrl.v), the component split and the parser. *)
From Coq Require Import List NArith ZArith Bool Lia Arith.
From Coq Require Import ZifyBool ZifyNat ZifyN.
From Wpull Require Import Model.UrlLib Model.Url Proofs.UrlPeProofs Proofs.UrlStrProofs Proofs.UrlPathProofs
  Proofs.UrlTotalProofs Proofs.UrlHostProofs Proofs.UrlNormProofs Proofs.UrlEquivProofs Proofs.UrlEquiv2Proofs
  Proofs.UrlEscCaseProofs Proofs.UrlEquiv3Proofs Proofs.UrlEscUrl.
Import ListNotations.
Open Scope N_scope.

(* ---------- what hexcase cannot change ---------- *)
Lemma hexcase_length s s' : hexcase s s' -> length s = length s'.
Proof. induction 1; cbn [length]; congruence. Qed.

Lemma hexcase_nil_iff s s' : hexcase s s' -> is_nil s = is_nil s'.
Proof. intros H. apply hexcase_length in H. destruct s, s'; cbn in *; congruence. Qed.

(* comparison with a text that contains no '%' *)
Lemma hexcase_str_eqb s s' : hexcase s s' -> forall K, memb 37 K = false -> str_eqb s K = str_eqb s' K.
Proof.
  induction 1 as [|a b a' b' r r' Ha Hb Ha' Hb' Ua Ub H IH|r r' He He' H IH|x r r' Hx H IH]; intros K HK.
  - reflexivity.
  - destruct K as [|k K2]; [reflexivity|]. cbn [memb] in HK. apply orb_false_iff in HK. destruct HK as [Hk _].
    cbn [str_eqb]. rewrite N.eqb_sym in Hk. now rewrite Hk.
  - destruct K as [|k K2]; [reflexivity|]. cbn [memb] in HK. apply orb_false_iff in HK. destruct HK as [Hk _].
    cbn [str_eqb]. rewrite N.eqb_sym in Hk. now rewrite Hk.
  - destruct K as [|k K2]; [reflexivity|]. cbn [memb] in HK. apply orb_false_iff in HK. destruct HK as [_ HK2].
    cbn [str_eqb]. now rewrite (IH K2 HK2).
Qed.

Lemma last_is_single x c : last_is [x] c = (x =? c).
Proof. reflexivity. Qed.

Lemma hexcase_last_is s s' c : is_hex c = false -> hexcase s s' -> last_is s c = last_is s' c.
Proof.
  intros Hc. induction 1 as [|a b a' b' r r' Ha Hb Ha' Hb' Ua Ub H IH|r r' He He' H IH|x r r' Hx H IH].
  - reflexivity.
  - pose proof (hexcase_length r r' H) as L. destruct r as [|y r2], r' as [|y' r2']; try discriminate L.
    + assert (Eb : (b =? c) = false) by (apply N.eqb_neq; intros ->; congruence).
      assert (Eb' : (b' =? c) = false) by (apply N.eqb_neq; intros ->; congruence).
      rewrite (last_is_cons_ne 37 a [b] c), (last_is_cons_ne a b [] c), (last_is_cons_ne 37 a' [b'] c), (last_is_cons_ne a' b' [] c).
      rewrite !last_is_single. congruence.
    + rewrite (last_is_cons_ne 37 a (b :: y :: r2) c), (last_is_cons_ne a b (y :: r2) c), (last_is_cons_ne b y r2 c).
      rewrite (last_is_cons_ne 37 a' (b' :: y' :: r2') c), (last_is_cons_ne a' b' (y' :: r2') c), (last_is_cons_ne b' y' r2' c).
      exact IH.
  - pose proof (hexcase_length r r' H) as L. destruct r as [|y r2], r' as [|y' r2']; try discriminate L; [reflexivity|].
    rewrite (last_is_cons_ne 37 y r2 c), (last_is_cons_ne 37 y' r2' c). exact IH.
  - pose proof (hexcase_length r r' H) as L. destruct r as [|y r2], r' as [|y' r2']; try discriminate L; [reflexivity|].
    rewrite (last_is_cons_ne x y r2 c), (last_is_cons_ne x y' r2' c). exact IH.
Qed.

(* ---------- the segment split ---------- *)
Lemma split_on_cons_ne c x r : (x =? c) = false ->
  exists p ps, split_on c r = p :: ps /\ split_on c (x :: r) = (x :: p) :: ps.
Proof.
  intros E. cbn [split_on]. rewrite E. destruct (split_on c r) as [|p ps] eqn:S; [exfalso; now apply (split_on_nonempty c r)|].
  eauto.
Qed.

Lemma split_on_cons_to c x r p ps : (x =? c) = false -> split_on c r = p :: ps -> split_on c (x :: r) = (x :: p) :: ps.
Proof. intros E S. cbn [split_on]. now rewrite E, S. Qed.

Lemma esc_head_first_seg r p ps : split_on 47 r = p :: ps -> esc_head r = false -> esc_head p = false.
Proof.
  intros S He. destruct r as [|x [|y r2]].
  - cbn in S. inversion S. reflexivity.
  - cbn [split_on] in S. destruct (x =? 47); inversion S; reflexivity.
  - cbn [split_on] in S. destruct (x =? 47) eqn:Ex; [inversion S; reflexivity|].
    destruct (y =? 47) eqn:Ey.
    + inversion S. reflexivity.
    + destruct (split_on 47 r2) as [|q qs]; inversion S; subst; exact He.
Qed.

Lemma is_hex_not_slash h : is_hex h = true -> (h =? 47) = false.
Proof. unfold is_hex. lia. Qed.

Theorem split_on_hexcase s s' : hexcase s s' -> Forall2 hexcase (split_on 47 s) (split_on 47 s').
Proof.
  induction 1 as [|a b a' b' r r' Ha Hb Ha' Hb' Ua Ub H IH|r r' He He' H IH|x r r' Hx H IH].
  - repeat constructor.
  - destruct (split_on 47 r) as [|p ps] eqn:S1; [exfalso; now apply (split_on_nonempty 47 r)|].
    destruct (split_on 47 r') as [|p' ps'] eqn:S1'; [exfalso; now apply (split_on_nonempty 47 r')|].
    inversion IH as [|? ? ? ? Hp Hps]; subst.
    rewrite (split_on_cons_to 47 37 _ _ _ eq_refl (split_on_cons_to 47 a _ _ _ (is_hex_not_slash a Ha)
               (split_on_cons_to 47 b _ _ _ (is_hex_not_slash b Hb) S1))).
    rewrite (split_on_cons_to 47 37 _ _ _ eq_refl (split_on_cons_to 47 a' _ _ _ (is_hex_not_slash a' Ha')
               (split_on_cons_to 47 b' _ _ _ (is_hex_not_slash b' Hb') S1'))).
    constructor; [|exact Hps]. now apply hc_esc.
  - destruct (split_on 47 r) as [|p ps] eqn:S1; [exfalso; now apply (split_on_nonempty 47 r)|].
    destruct (split_on 47 r') as [|p' ps'] eqn:S1'; [exfalso; now apply (split_on_nonempty 47 r')|].
    inversion IH as [|? ? ? ? Hp Hps]; subst.
    rewrite (split_on_cons_to 47 37 _ _ _ eq_refl S1), (split_on_cons_to 47 37 _ _ _ eq_refl S1').
    constructor; [|exact Hps]. apply hc_pct; [now apply (esc_head_first_seg r p ps) | now apply (esc_head_first_seg r' p' ps') | exact Hp].
  - destruct (x =? 47) eqn:Ex.
    + cbn [split_on]. rewrite Ex. constructor; [constructor | exact IH].
    + destruct (split_on 47 r) as [|p ps] eqn:S1; [exfalso; now apply (split_on_nonempty 47 r)|].
      destruct (split_on 47 r') as [|p' ps'] eqn:S1'; [exfalso; now apply (split_on_nonempty 47 r')|].
      inversion IH as [|? ? ? ? Hp Hps]; subst.
      rewrite (split_on_cons_to 47 x _ _ _ Ex S1), (split_on_cons_to 47 x _ _ _ Ex S1').
      constructor; [now apply hc_chr | exact Hps].
Qed.

(* ---------- the join ---------- *)
Lemma esc_head_sep r b : esc_head r = false -> esc_head (r ++ 47 :: b) = false.
Proof.
  intros H. destruct r as [|x [|y r2]]; cbn [app esc_head] in *.
  - destruct b; [reflexivity|]. reflexivity.
  - apply andb_false_iff. right. reflexivity.
  - exact H.
Qed.

Lemma hexcase_sep_app a a' b b' : hexcase a a' -> hexcase b b' -> hexcase (a ++ 47 :: b) (a' ++ 47 :: b').
Proof.
  intros Ha Hb. induction Ha as [|x y x' y' r r' Hx Hy Hx' Hy' Ux Uy H IH|r r' He He' H IH|x r r' Hx H IH]; cbn [app].
  - apply hc_chr; [discriminate | exact Hb].
  - apply hc_esc; assumption.
  - apply hc_pct; [now apply esc_head_sep | now apply esc_head_sep | exact IH].
  - apply hc_chr; assumption.
Qed.

Lemma join_hexcase ps ps' : Forall2 hexcase ps ps' -> hexcase (join s_slash ps) (join s_slash ps').
Proof.
  induction 1 as [|p p' ps ps' Hp Hps IH]; [constructor|].
  destruct ps as [|q qs]; inversion Hps as [|? q' ? qs' Hq Hqs]; subst.
  - exact Hp.
  - rewrite !join_cons. unfold s_slash. cbn [app]. now apply hexcase_sep_app.
Qed.

(* ---------- the flattening ---------- *)
Lemma flatten_parts_hexcase parts parts' : Forall2 hexcase parts parts' ->
  forall st st', Forall2 hexcase st st' -> Forall2 hexcase (flatten_parts true parts st) (flatten_parts true parts' st').
Proof.
  induction 1 as [|p p' ps ps' Hp Hps IH]; intros st st' Hst; cbn [flatten_parts]; [exact Hst|].
  rewrite (hexcase_str_eqb p p' Hp s_dot eq_refl), (hexcase_nil_iff p p' Hp), (hexcase_str_eqb p p' Hp s_dotdot eq_refl).
  destruct (str_eqb p' s_dot || (true && is_nil p')); [now apply IH|].
  destruct (negb (str_eqb p' s_dotdot)).
  - apply IH. now constructor.
  - apply IH. destruct Hst; [constructor | assumption].
Qed.

Lemma Forall2_rev {A B} (R : A -> B -> Prop) l l' : Forall2 R l l' -> Forall2 R (rev l) (rev l').
Proof.
  induction 1 as [|x y l l' Hxy H IH]; [constructor|]. cbn [rev]. apply Forall2_app; [exact IH | repeat constructor; exact Hxy].
Qed.

Lemma Forall2_nil_iff {A B} (R : A -> B -> Prop) l l' : Forall2 R l l' -> is_nil l = is_nil l'.
Proof. destruct 1; reflexivity. Qed.

Theorem flatten_path_hexcase s s' : hexcase s s' -> hexcase (flatten_path true s) (flatten_path true s').
Proof.
  intros H. unfold flatten_path.
  rewrite (hexcase_nil_iff s s' H), (hexcase_str_eqb s s' H s_slash eq_refl).
  destruct (is_nil s' || str_eqb s' s_slash); [apply hexcase_refl|].
  assert (H1 : hexcase (match s with 47 :: r => r | _ => s end) (match s' with 47 :: r => r | _ => s' end)).
  { inversion H as [|a b a' b' r r' Ha Hb Ha' Hb' Ua Ub Hr|r r' He He' Hr|x r r' Hx Hr]; subst; try exact H.
    destruct (N.eq_dec x 47) as [->|Nx]; [exact Hr|].
    destruct x as [|px]; [exact H|]. destruct (N.eq_dec (N.pos px) 47) as [E|_]; [contradiction|].
    assert (G : forall (t : str), match N.pos px :: t with 47 :: r0 => r0 | _ => N.pos px :: t end = N.pos px :: t).
    { intros t. destruct px as [px|px|]; try reflexivity; destruct px as [px|px|]; try reflexivity; destruct px as [px|px|]; try reflexivity;
        destruct px as [px|px|]; try reflexivity; destruct px as [px|px|]; try reflexivity; destruct px as [px|px|]; try reflexivity.
      contradiction Nx. reflexivity. }
    rewrite !G. exact H. }
  set (q := match s with 47 :: r => r | _ => s end) in *. set (q' := match s' with 47 :: r => r | _ => s' end) in *.
  pose proof (Forall2_rev _ _ _ (flatten_parts_hexcase _ _ (split_on_hexcase q q' H1) [] [] (Forall2_nil _))) as F.
  rewrite (hexcase_last_is q q' 47 eq_refl H1), (Forall2_nil_iff _ _ _ F).
  apply join_hexcase. constructor; [constructor|].
  destruct (true && last_is q' 47 || is_nil (rev (flatten_parts true (split_on 47 q') []))); [|exact F].
  apply Forall2_app; [exact F | repeat constructor].
Qed.

(* ---------- normalize_path, the component split, the parser ---------- *)
Lemma hexcase_startswith_slash s s' : hexcase s s' -> startswith s s_slash = startswith s' s_slash.
Proof.
  intros H. inversion H as [|a b a' b' r r' Ha Hb Ha' Hb' Ua Ub Hr|r r' He He' Hr|x r r' Hx Hr]; subst; try reflexivity.
  unfold s_slash. cbn [startswith]. destruct r, r'; reflexivity.
Qed.

Section PathCase.
Variable enc : str -> option (list N).
Variable lower_o : str -> str.
Variable idna_o : str -> option str.
Variable ipv6_o : str -> option str.
Variable int_o : N -> str -> option Z.
Variable unq_o : str -> str.
Hypothesis Henc : enc_high_ok enc.
Notation parse := (Url.parse enc lower_o idna_o ipv6_o int_o unq_o).

Lemma normalize_path_hexcase P P' : hexcase P P' -> normalize_path enc P = normalize_path enc P'.
Proof.
  intros H. unfold normalize_path. rewrite (hexcase_startswith_slash P P' H).
  assert (H2 : hexcase (if startswith P' s_slash then P else 47 :: P) (if startswith P' s_slash then P' else 47 :: P')).
  { destruct (startswith P' s_slash); [exact H | apply hc_chr; [discriminate | exact H]]. }
  pose proof (percent_encode_hexcase enc Henc default_encode_set _ _ (proj1 sets_ok) (flatten_path_hexcase _ _ H2)) as PE.
  destruct (percent_encode enc default_encode_set (flatten_path true (if startswith P' s_slash then P else 47 :: P))) as [p|k],
           (percent_encode enc default_encode_set (flatten_path true (if startswith P' s_slash then P' else 47 :: P'))) as [p'|k'];
    try contradiction.
  - destruct PE as [E _]. cbn [bind]. congruence.
  - subst. reflexivity.
Qed.

(* "scheme://A/P0 T" and "scheme://A/P0' T" where P0 / P0' differ only in the letter case of the hex digits of escapes *)
Theorem parse_network_path_case url url' scheme dport A P0 P0' T :
  default_port scheme = Some dport ->
  memb 47 A = false -> memb 63 A = false -> memb 35 A = false ->
  memb 63 P0 = false -> memb 35 P0 = false -> hexcase P0 P0' -> tail_ok T ->
  match parse_network enc idna_o ipv6_o int_o unq_o url scheme dport ([47; 47] ++ A ++ 47 :: P0 ++ T),
        parse_network enc idna_o ipv6_o int_o unq_o url' scheme dport ([47; 47] ++ A ++ 47 :: P0' ++ T) with
  | Ok i, Ok i' => url_of enc i = url_of enc i' /\ u_scheme i = u_scheme i' /\ u_hostname i = u_hostname i' /\
                   u_port i = u_port i' /\ u_path i = u_path i' /\ u_query i = u_query i' /\ u_fragment i = u_fragment i' /\
                   u_username i = u_username i' /\ u_password i = u_password i'
  | Err k, Err k' => k = k'
  | _, _ => False
  end.
Proof.
  intros Hd A47 A63 A35 P63 P35 H HT.
  apply parse_network_path_equiv; try assumption.
  - now rewrite <- (hexcase_memb 63 P0 P0' eq_refl H).
  - now rewrite <- (hexcase_memb 35 P0 P0' eq_refl H).
  - unfold path_in. rewrite (hexcase_nil_iff P0 P0' H). destruct (is_nil P0'); [reflexivity|]. now apply normalize_path_hexcase.
Qed.

Theorem parse_url_path_case sch sc dport A P0 P0' T :
  scheme_text lower_o sch sc dport ->
  memb 47 A = false -> memb 63 A = false -> memb 35 A = false ->
  memb 63 P0 = false -> memb 35 P0 = false -> hexcase P0 P0' -> tail_ok T ->
  let rem := [47; 47] ++ A ++ 47 :: P0 ++ T in
  let rem' := [47; 47] ++ A ++ 47 :: P0' ++ T in
  plain_text (sch ++ 58 :: rem) -> plain_text (sch ++ 58 :: rem') ->
  same_url enc (parse (sch ++ 58 :: rem)) (parse (sch ++ 58 :: rem')).
Proof.
  intros Hs A47 A63 A35 P63 P35 H HT rem rem' P1 P2.
  apply (parse_lift enc lower_o idna_o ipv6_o int_o unq_o (same_url enc) sch sc dport rem rem' Hs P1 P2). intros url url'.
  destruct Hs as [_ [_ [_ [_ [_ Hd]]]]].
  exact (parse_network_path_case url url' sc dport A P0 P0' T Hd A47 A63 A35 P63 P35 H HT).
Qed.
End PathCase.
