(* C05 / C07, part 3: invariants of the recorder model, proved per primitive
   transition (Proofs/WarcSteps.v) and assembled for a whole recorder lifetime:
     - every archive file is its earlier content (nothing when it was truncated)
       followed by exactly the bytes of the writes that went to it, in order;
     - every write event carries Content-Length / digests computed from the
       block that was serialised, and addresses its own bytes in the file
       (offset = size before, length = growth), also after later appends,
       rollovers and the meta file;
     - the CDX lines are exactly the lines of the response events, in order;
     - every record names a warcinfo record written to the same file. *)
From Coq Require Import List NArith Bool Lia Arith ZifyBool ZifyNat ZifyN.
From Wpull Require Import Lib.Decimal Lib.FsModel Lib.ListX Model.Warc Proofs.WarcSteps.
Import ListNotations.
Open Scope N_scope.
Open Scope bool_scope.

(* ------------------------------------------------------------------ *)
(* file names *)
Lemma val_le_app_zeros (a : list N) (k : nat) : val_le (a ++ repeat 48 k) = val_le a.
Proof.
  induction a as [|d a IH]; cbn [app val_le].
  - induction k as [|k IHk]; cbn [repeat val_le]; [reflexivity|]. rewrite IHk. reflexivity.
  - rewrite IH. reflexivity.
Qed.

Lemma rev_repeat {A} (x : A) (k : nat) : rev (repeat x k) = repeat x k.
Proof.
  induction k as [|k IH]; [reflexivity|]. cbn [repeat rev]. rewrite IH.
  clear IH. induction k as [|k IH]; [reflexivity|]. cbn [repeat app]. rewrite IH. reflexivity.
Qed.

Lemma val_dec (n : N) : val_le (rev (dec n)) = n.
Proof.
  pose proof (undec_dec n) as U. unfold undec in U.
  destruct (dec n) eqn:E; [discriminate|]. rewrite <- E in *.
  rewrite dec_digits in U. injection U as U. exact U.
Qed.

Lemma dec_pad_inj (w : nat) (a b : N) : dec_pad w a = dec_pad w b -> a = b.
Proof.
  intros H. apply (f_equal (fun l => val_le (rev l))) in H. unfold dec_pad in H.
  rewrite !rev_app_distr, !rev_repeat, !val_le_app_zeros, !val_dec in H. exact H.
Qed.

Lemma dec_pad_head (w : nat) (n : N) : exists d r, dec_pad w n = d :: r /\ is_digit d = true.
Proof.
  pose proof (dec_pad_digits w n) as D. pose proof (dec_nonempty n) as NE.
  unfold dec_pad in *. destruct (repeat 48 (w - length (dec n)) ++ dec n) as [|d r] eqn:E.
  - apply app_eq_nil in E. destruct E as [_ E]. contradiction.
  - exists d, r. split; [reflexivity|]. cbn [forallb] in D. apply andb_true_iff in D. tauto.
Qed.

Lemma gen_name_inj C m a b :
  c_max_size C = Some m -> gen_name C a false = gen_name C b false -> a = b.
Proof.
  intros M H. unfold gen_name, gen_base, seq_name in H. rewrite M in H.
  apply app_inv_head in H. apply app_inv_head in H.
  cbn [app] in H. injection H as H.
  apply app_inv_tail in H. exact (dec_pad_inj _ _ _ H).
Qed.

Lemma gen_name_meta_ne C m a b :
  c_max_size C = Some m -> gen_name C a true <> gen_name C b false.
Proof.
  intros M H. unfold gen_name, gen_base, seq_name in H. rewrite M in H.
  apply app_inv_head in H. apply app_inv_head in H.
  destruct (dec_pad_head 5 b) as (d & r & E & Dg). rewrite E in H.
  cbn in H. injection H as H _. subst d. discriminate.
Qed.

Lemma cdx_name_ne C s meta : cdx_name C <> gen_name C s meta.
Proof.
  intros H. unfold cdx_name, gen_name, gen_base, seq_name in H.
  apply app_inv_head in H. apply app_inv_head in H.
  destruct (c_max_size C); [destruct meta|]; unfold ext in H; destruct (c_compress C); cbn in H; discriminate.
Qed.

(* ------------------------------------------------------------------ *)
(* files *)
Lemma content_append_same s f b : content (append_file s f b) f = content s f ++ b.
Proof. unfold append_file. apply content_set_same. Qed.

Lemma content_append_other s f g b : f <> g -> content (append_file s f b) g = content s g.
Proof. intros H. unfold append_file. apply content_set_other, H. Qed.

Lemma leqb_false_ne (a b : list N) : leqb a b = false -> a <> b.
Proof. apply leqb_neq. Qed.

Lemma content_append s f g b :
  content (append_file s f b) g = if leqb f g then content s g ++ b else content s g.
Proof.
  destruct (leqb f g) eqn:E.
  - apply leqb_eq in E. subst g. apply content_append_same.
  - apply content_append_other, leqb_neq, E.
Qed.

Lemma content_cond_append (b : bool) s g x f :
  g <> f -> content (if b then append_file s g x else s) f = content s f.
Proof. intros H. destruct b; [apply content_append_other, H|reflexivity]. Qed.

Lemma size_append_same s f b : size (append_file s f b) f = size s f + blen b.
Proof. unfold size, blen. rewrite content_append_same, app_length. lia. Qed.

Lemma slice_app_stable (c extra : bytes) (off len : N) :
  off + len <= blen c -> slice (c ++ extra) off len = slice c off len.
Proof.
  intros H. unfold slice, blen in *.
  rewrite skipn_app, firstn_app.
  assert (E : (N.to_nat len - length (skipn (N.to_nat off) c) = 0)%nat).
  { rewrite skipn_length. lia. }
  rewrite E. cbn [firstn]. rewrite app_nil_r. reflexivity.
Qed.

Lemma slice_at_end (c data : bytes) : slice (c ++ data) (blen c) (blen data) = data.
Proof.
  unfold slice, blen. rewrite !Nat2N.id, skipn_app, Nat.sub_diag, skipn_all. cbn [app skipn].
  apply firstn_all.
Qed.

Definition slice_ok (s : fs) (f : name) (off len : N) (b : bytes) : Prop :=
  slice (content s f) off len = b /\ off + len <= size s f.

Lemma slice_ok_append s f off len b g x :
  slice_ok s f off len b -> slice_ok (append_file s g x) f off len b.
Proof.
  intros (A & B). unfold slice_ok, size in *. rewrite content_append.
  destruct (leqb g f).
  - rewrite slice_app_stable by (unfold blen; lia). split; [exact A|]. rewrite app_length. lia.
  - split; assumption.
Qed.

Lemma slice_ok_cond (c : bool) s f off len b g x :
  slice_ok s f off len b -> slice_ok (if c then append_file s g x else s) f off len b.
Proof. intros H. destruct c; [apply slice_ok_append, H|exact H]. Qed.

(* ------------------------------------------------------------------ *)
Definition evs (st : state) : list wevent := writes (st_trace st).

Definition trunc_in (f : name) (t : list tentry) : bool :=
  existsb (fun x => match x with TTrunc g => leqb g f | TWrite _ => false end) t.

Lemma writes_app a b : writes (a ++ b) = writes a ++ writes b.
Proof. unfold writes. apply flat_map_app. Qed.

Lemma writes_to_app f a b : writes_to f (a ++ b) = writes_to f a ++ writes_to f b.
Proof. unfold writes_to. rewrite writes_app. apply filter_app. Qed.

Lemma writes_to_single f e : writes_to f [TWrite e] = if leqb (e_file e) f then [e] else [].
Proof. unfold writes_to, writes. cbn [flat_map app filter]. reflexivity. Qed.

Lemma trunc_in_app f a b : trunc_in f (a ++ b) = trunc_in f a || trunc_in f b.
Proof. unfold trunc_in. apply existsb_app. Qed.

Definition efields (e : wevent) : wfields := w_fields (e_rec e).

Definition ev_ok (O : oracles) (C : cfg) (e : wevent) : Prop :=
  write_local O C (efields e) (w_block (e_rec e)) (e_ghost e)
  /\ e_bytes e = encode O C (e_idx e) (serialize (e_rec e))
  /\ e_len e = blen (e_bytes e)
  /\ e_file e = c_dir C ++ e_base e
  /\ fget n_info (efields e) <> None
  /\ exists s m, e_file e = gen_name C s m.

Definition ev_lines (O : oracles) (C : cfg) (e : wevent) : list cdxline :=
  if c_cdx C && is_cdx_record (efields e)
  then [make_line O (efields e) (w_block (e_rec e)) (e_len e) (e_off e) (e_base e)] else [].

Definition is_info_for (e0 e : wevent) : Prop :=
  e_file e0 = e_file e
  /\ fget n_type (efields e0) = Some t_warcinfo
  /\ fget n_id (efields e0) = fget n_info (efields e).

Section Inv.
  Variable fuel : nat.
  Variable O : oracles.
  Variable C : cfg.
  Variable s0 : fs.

  Record Core (st : state) : Prop := mkCore {
    core_files : forall f, f <> cdx_name C ->
      content (st_fs st) f
      = (if trunc_in f (st_trace st) then [] else content s0 f) ++ concat (map e_bytes (writes_to f (st_trace st)));
    core_evs : Forall (ev_ok O C) (evs st);
    core_slices : Forall (fun e => slice_ok (st_fs st) (e_file e) (e_off e) (e_len e) (e_bytes e)) (evs st);
    core_lines : st_lines st = flat_map (ev_lines O C) (evs st);
    core_cur : st_cur st = c_dir C ++ st_cur_base st /\ exists s m, st_cur st = gen_name C s m;
    core_points : Forall (fun e => exists e0, In e0 (evs st) /\ is_info_for e0 e) (evs st);
    core_app : c_appending C = true -> forall f, trunc_in f (st_trace st) = false
  }.

  (* the current file has its warcinfo record *)
  Definition InfoInv (st : state) : Prop :=
    exists e0, In e0 (evs st) /\ e_file e0 = st_cur st
               /\ fget n_type (efields e0) = Some t_warcinfo
               /\ fget n_id (efields e0) = Some (st_info_id st).

  (* numbered files: everything written so far is in a file numbered <= the current one *)
  Definition Fresh (st : state) : Prop :=
    c_appending C = false -> forall m, c_max_size C = Some m ->
      st_cur st = gen_name C (st_seq st) false
      /\ Forall (fun e => exists s, s <= st_seq st /\ e_file e = gen_name C s false) (evs st).

  (* ---- with_sess / bump_next / bump_seq change nothing the invariants look at ---- *)
  Lemma core_same st st' :
    st_fs st' = st_fs st -> st_trace st' = st_trace st -> st_lines st' = st_lines st ->
    st_cur st' = st_cur st -> st_cur_base st' = st_cur_base st ->
    Core st -> Core st'.
  Proof.
    intros E1 E2 E3 E4 E5 [H1 H2 H3 H4 H5 H6 H7].
    constructor; unfold evs in *; rewrite ?E1, ?E2, ?E3, ?E4, ?E5; assumption.
  Qed.

  (* ---- write_record ---- *)
  Definition new_event (st : state) (p : prec) (g : ghost) : wevent :=
    let r := mkRec (fset n_info (st_info_id st) (p_fields p)) (p_block p) in
    let data := encode O C (st_widx st) (serialize r) in
    mkEv (st_cur st) (st_cur_base st) (size (st_fs st) (st_cur st))
         (size (append_file (st_fs st) (st_cur st) data) (st_cur st) - size (st_fs st) (st_cur st))
         data (st_widx st) r (p_k p) g.

  Lemma write_trace st p g :
    st_trace (write_record O C st p g) = st_trace st ++ [TWrite (new_event st p g)].
  Proof. reflexivity. Qed.

  Lemma write_evs st p g : evs (write_record O C st p g) = evs st ++ [new_event st p g].
  Proof. unfold evs. rewrite write_trace, writes_app. reflexivity. Qed.

  Lemma write_local_info fs blk g v :
    write_local O C fs blk g -> write_local O C (fset n_info v fs) blk g.
  Proof.
    intros (H1 & H2 & H3). split; [|split].
    - rewrite fget_fset_other by neq_names. exact H1.
    - intros D. rewrite fget_fset_other by neq_names. exact (H2 D).
    - destruct g as [|off|head off|head off orig].
      + exact I.
      + intros D. rewrite fget_fset_other by neq_names. exact (H3 D).
      + intros D. rewrite fget_fset_other by neq_names. exact (H3 D).
      + destruct H3 as (A & B & D). split; [exact A|]. split.
        * rewrite fget_fset_other by neq_names. exact B.
        * intros D'. rewrite fget_fset_other by neq_names. exact (D D').
  Qed.

  Lemma new_event_len st p g :
    e_len (new_event st p g) = blen (e_bytes (new_event st p g)).
  Proof. unfold new_event. cbn [e_len e_bytes]. rewrite size_append_same. lia. Qed.

  Lemma core_write_gen st p g :
    write_local O C (p_fields p) (p_block p) g ->
    Core st ->
    (exists e0, In e0 (evs st ++ [new_event st p g]) /\ is_info_for e0 (new_event st p g)) ->
    Core (write_record O C st p g).
  Proof.
    intros WL [H1 H2 H3 H4 H5 H6 H7] Hpt.
    destruct H5 as (H5a & s & m & H5b).
    pose (ev := new_event st p g).
    assert (CN : cdx_name C <> st_cur st) by (rewrite H5b; apply cdx_name_ne).
    constructor.
    - (* files *)
      intros f Hf. rewrite write_trace, writes_to_app, trunc_in_app.
      cbn [trunc_in existsb]. rewrite orb_false_r.
      unfold write_record. cbn [st_fs].
      rewrite content_cond_append by congruence. rewrite content_append, (H1 f Hf).
      rewrite writes_to_single, map_app, concat_app. change (e_file (new_event st p g)) with (st_cur st).
      destruct (leqb (st_cur st) f); cbn [map concat].
      + rewrite app_nil_r, app_assoc. reflexivity.
      + rewrite !app_nil_r. reflexivity.
    - (* events *)
      rewrite write_evs. apply Forall_app. split; [exact H2|]. constructor; [|constructor].
      unfold ev_ok. split; [|split; [|split; [|split; [|split]]]].
      + apply write_local_info, WL.
      + reflexivity.
      + apply new_event_len.
      + exact H5a.
      + unfold efields. cbn. rewrite fget_fset_same. discriminate.
      + exists s, m. exact H5b.
    - (* slices *)
      rewrite write_evs. apply Forall_app. split.
      + eapply Forall_impl; [|exact H3]. intros e Sl.
        unfold write_record. cbn [st_fs]. apply slice_ok_cond, slice_ok_append, Sl.
      + constructor; [|constructor].
        rewrite new_event_len. unfold write_record. cbn [st_fs]. apply slice_ok_cond.
        unfold new_event. cbn [e_file e_off e_bytes].
        unfold slice_ok. rewrite content_append_same, size_append_same. split; [apply slice_at_end|lia].
    - (* lines *)
      rewrite write_evs, flat_map_app. cbn [flat_map]. rewrite app_nil_r.
      unfold write_record. cbn [st_lines]. unfold ev_lines at 2, efields, new_event. cbn [e_rec w_fields w_block e_len e_off e_base].
      rewrite <- H4. destruct (c_cdx C && is_cdx_record _); [reflexivity|]. rewrite app_nil_r. reflexivity.
    - split; [exact H5a|]. exists s, m. exact H5b.
    - (* points *)
      rewrite write_evs. apply Forall_app. split.
      + eapply Forall_impl; [|exact H6]. intros e (e1 & In1 & P1). exists e1. split; [|exact P1].
        apply in_or_app. left. exact In1.
      + constructor; [|constructor]. exact Hpt.
    - intros A f. rewrite write_trace, trunc_in_app, (H7 A f). reflexivity.
  Qed.

  Lemma core_write st p g :
    write_local O C (p_fields p) (p_block p) g ->
    Core st -> InfoInv st -> Core (write_record O C st p g).
  Proof.
    intros WL Hc (e0 & In0 & F0 & T0 & I0). apply core_write_gen; [exact WL|exact Hc|].
    exists e0. split; [apply in_or_app; left; exact In0|].
    unfold is_info_for, efields, new_event. cbn [e_file e_rec w_fields].
    rewrite fget_fset_same. repeat split; assumption.
  Qed.

  Lemma info_write st p g : InfoInv st -> InfoInv (write_record O C st p g).
  Proof.
    intros (e0 & In0 & F0 & T0 & I0). exists e0. rewrite write_evs.
    split; [apply in_or_app; left; exact In0|]. repeat split; assumption.
  Qed.

  Lemma fresh_write st p g : Fresh st -> Fresh (write_record O C st p g).
  Proof.
    intros F A m M. destruct (F A m M) as (F1 & F2). split; [exact F1|].
    rewrite write_evs. apply Forall_app. split; [exact F2|]. constructor; [|constructor].
    exists (st_seq st). split; [cbn; lia|exact F1].
  Qed.

  (* ---- opening a new current file ---- *)
  Lemma core_open st seq meta :
    Core st ->
    (c_appending C = false -> writes_to (gen_name C seq meta) (st_trace st) = []) ->
    Core (open_file O C st seq meta).
  Proof.
    intros [H1 H2 H3 H4 H5 H6 H7] Fr.
    destruct (c_appending C) eqn:A.
    - (* appending: nothing is truncated *)
      constructor; unfold open_file, evs in *; rewrite A; cbn [negb st_fs st_trace st_lines st_cur st_cur_base]; try assumption.
      split; [reflexivity|]. exists seq, meta. reflexivity.
    - specialize (Fr eq_refl).
      set (f0 := gen_name C seq meta) in *.
      assert (EV : evs (open_file O C st seq meta) = evs st).
      { unfold evs, open_file. rewrite A. cbn [negb st_trace]. rewrite writes_app. cbn. apply app_nil_r. }
      assert (NoEv : forall e, In e (evs st) -> e_file e <> f0).
      { intros e In1 E. unfold writes_to in Fr.
        assert (In e (filter (fun e => leqb (e_file e) f0) (writes (st_trace st)))) as X.
        { apply filter_In. split; [exact In1|]. rewrite E. apply leqb_refl. }
        rewrite Fr in X. exact X. }
      constructor.
      + intros f Hf. unfold open_file. rewrite A. cbn [negb st_fs st_trace].
        rewrite writes_to_app, trunc_in_app. cbn [writes_to writes flat_map filter trunc_in existsb]. rewrite app_nil_r, orb_false_r.
        fold f0. destruct (leqb f0 f) eqn:E.
        * apply leqb_eq in E. subst f. rewrite content_set_same, orb_true_r, Fr. reflexivity.
        * rewrite content_set_other by (apply leqb_neq; exact E). rewrite orb_false_r. apply H1, Hf.
      + rewrite EV. exact H2.
      + rewrite EV. rewrite Forall_forall in H3 |- *. intros e In1. specialize (H3 e In1).
        unfold open_file. rewrite A. cbn [negb st_fs]. fold f0. unfold slice_ok, size in *.
        rewrite content_set_other by (intros E; apply (NoEv e In1); symmetry; exact E). exact H3.
      + rewrite EV. unfold open_file. cbn [st_lines]. exact H4.
      + unfold open_file. cbn [st_cur st_cur_base]. split; [reflexivity|]. exists seq, meta. reflexivity.
      + rewrite EV. exact H6.
      + intros X. congruence.
  Qed.

  Lemma warcinfo_fields_type k v :
    fget n_type (fset n_info v (p_fields (warcinfo_prec O C k))) = Some t_warcinfo.
  Proof.
    unfold warcinfo_prec, compute_checksum, set_common_fields. cbn [p_fields].
    repeat rewrite fget_fset_other by neq_names. apply fget_fset_same.
  Qed.

  Lemma warcinfo_fields_id k v :
    fget n_id (fset n_info v (p_fields (warcinfo_prec O C k))) = Some (o_id O k).
  Proof.
    unfold warcinfo_prec, compute_checksum, set_common_fields. cbn [p_fields].
    repeat rewrite fget_fset_other by neq_names. apply fget_fset_same.
  Qed.

  (* Core of the state right after the warcinfo record of a freshly opened file *)
  Lemma core_start st seq meta :
    Core st ->
    (c_appending C = false -> writes_to (gen_name C seq meta) (st_trace st) = []) ->
    let st' := write_record O C (open_file O C st seq meta) (warcinfo_prec O C (st_next st)) GPlain in
    Core st' /\ InfoInv st'.
  Proof.
    intros Hc Fr st'.
    pose proof (core_open st seq meta Hc Fr) as Ho.
    set (so := open_file O C st seq meta) in *.
    set (p := warcinfo_prec O C (st_next st)) in *.
    (* the new event is its own warcinfo record *)
    assert (Hinfo : InfoInv st').
    { exists (new_event so p GPlain). unfold st'. rewrite write_evs.
      split; [apply in_or_app; right; left; reflexivity|].
      unfold efields, new_event. cbn [e_file e_rec w_fields].
      split; [reflexivity|]. split; [apply warcinfo_fields_type|].
      unfold p, so, open_file. cbn [st_info_id]. apply warcinfo_fields_id. }
    split; [|exact Hinfo].
    apply core_write_gen; [apply warcinfo_local|exact Ho|].
    exists (new_event so p GPlain). split; [apply in_or_app; right; left; reflexivity|].
    unfold is_info_for, efields, new_event. cbn [e_file e_rec w_fields].
    split; [reflexivity|]. split; [apply warcinfo_fields_type|].
    rewrite fget_fset_same. unfold p, so, open_file. cbn [st_info_id]. apply warcinfo_fields_id.
  Qed.

  (* ---------------------------------------------------------------- *)
  (* the CDX file *)
  Definition CdxInv (cb : bytes) (st : state) : Prop :=
    c_cdx C = true -> content (st_fs st) (cdx_name C) = cb ++ concat (map render_line (st_lines st)).

  Lemma cdx_write cb st p g :
    (exists s m, st_cur st = gen_name C s m) -> CdxInv cb st -> CdxInv cb (write_record O C st p g).
  Proof.
    intros (s & m & E) H X. specialize (H X).
    assert (CN : st_cur st <> cdx_name C) by (rewrite E; intros Y; symmetry in Y; revert Y; apply cdx_name_ne).
    unfold write_record. cbn [st_fs st_lines]. rewrite X. cbn [andb].
    destruct (is_cdx_record _).
    - rewrite content_append_same, content_append_other by exact CN.
      rewrite H, map_app, concat_app. cbn [map concat]. rewrite app_nil_r, app_assoc. reflexivity.
    - rewrite content_append_other by exact CN. exact H.
  Qed.

  Lemma cdx_open cb st seq meta : CdxInv cb st -> CdxInv cb (open_file O C st seq meta).
  Proof.
    intros H X. specialize (H X). unfold open_file. cbn [st_fs st_lines].
    destruct (negb (c_appending C)); [|exact H].
    rewrite content_set_other; [exact H|]. intros Y. symmetry in Y. revert Y. apply cdx_name_ne.
  Qed.

  (* ---------------------------------------------------------------- *)
  Definition Inv (cb : bytes) (st : state) : Prop :=
    Core st /\ InfoInv st /\ Fresh st /\ CdxInv cb st.

  Lemma filter_none {A} (f : A -> bool) (P : A -> Prop) (l : list A) :
    Forall P l -> (forall x, P x -> f x = false) -> filter f l = [].
  Proof.
    intros H G. induction H as [|x l Hx Hl IH]; [reflexivity|]. cbn [filter]. rewrite (G x Hx). exact IH.
  Qed.

  Lemma start_inv cb st st' meta :
    Core st -> CdxInv cb st ->
    (c_appending C = false -> forall m, c_max_size C = Some m ->
       Forall (fun e => exists s, (meta = false -> s < st_seq st) /\ e_file e = gen_name C s false) (evs st)) ->
    (c_appending C = false -> c_max_size C = None -> st_trace st = []) ->
    start_new_warc_file fuel O C st meta = Some st' ->
    Core st' /\ InfoInv st' /\ CdxInv cb st'
    /\ (meta = false -> Fresh st').
  Proof.
    intros Hc Hx Hnum Hnone S.
    unfold start_new_warc_file in S. destruct (choose_seq fuel C st meta) as [seq|] eqn:Q; [|discriminate].
    injection S as <-.
    assert (Fr : c_appending C = false -> writes_to (gen_name C seq meta) (st_trace st) = []).
    { intros A. unfold choose_seq in Q. rewrite A, andb_false_r in Q. injection Q as <-.
      destruct (c_max_size C) as [m|] eqn:M.
      - unfold writes_to. eapply filter_none; [exact (Hnum A m eq_refl)|].
        intros e (s & L & E). rewrite E. apply leqb_neq. destruct meta.
        + intros Y. symmetry in Y. revert Y. apply (gen_name_meta_ne C m), M.
        + intros Y. apply (gen_name_inj C m _ _ M) in Y. specialize (L eq_refl). lia.
      - rewrite (Hnone A eq_refl). reflexivity. }
    destruct (core_start st seq meta Hc Fr) as (C1 & I1).
    split; [exact C1|]. split; [exact I1|]. split.
    - apply cdx_write; [|apply cdx_open, Hx]. exists seq, meta. reflexivity.
    - intros -> A m M. unfold choose_seq in Q. rewrite A, andb_false_r in Q. injection Q as <-.
      split; [reflexivity|].
      rewrite write_evs. apply Forall_app. split.
      + unfold evs, open_file. rewrite A. cbn [negb st_trace]. rewrite writes_app. cbn [writes flat_map]. rewrite app_nil_r.
        eapply Forall_impl; [|exact (Hnum A m M)]. intros e (s & L & E). exists s.
        change (st_seq (write_record O C _ _ _)) with (st_seq st). specialize (L eq_refl). split; [lia|exact E].
      + constructor; [|constructor]. exists (st_seq st).
        change (st_seq (write_record O C _ _ _)) with (st_seq st). split; [lia|reflexivity].
  Qed.

  Lemma prim_inv cb st st' : prim fuel O C st st' -> Inv cb st -> Inv cb st'.
  Proof.
    intros P (Hc & Hi & Hf & Hx). destruct P as [st l|st|st p g WL|st st' m M S].
    - split; [eapply core_same; [..|exact Hc]; reflexivity|]. split; [exact Hi|]. split; [exact Hf|exact Hx].
    - split; [eapply core_same; [..|exact Hc]; reflexivity|]. split; [exact Hi|]. split; [exact Hf|exact Hx].
    - split; [apply core_write; assumption|]. split; [apply info_write, Hi|]. split; [apply fresh_write, Hf|].
      apply cdx_write; [|exact Hx]. destruct Hc as [_ _ _ _ (_ & X) _ _]. exact X.
    - assert (Hc' : Core (bump_seq st)) by (eapply core_same; [..|exact Hc]; reflexivity).
      destruct (start_inv cb (bump_seq st) st' false Hc') as (A1 & A2 & A3 & A4); try assumption.
      + intros A m' M'. destruct (Hf A m' M') as (_ & F2).
        eapply Forall_impl; [|exact F2]. intros e (s & L & E). exists s. split; [cbn; lia|exact E].
      + intros _ N. congruence.
      + split; [exact A1|]. split; [exact A2|]. split; [apply A4; reflexivity|exact A3].
  Qed.

  Lemma reach_inv cb st st' : reach fuel O C st st' -> Inv cb st -> Inv cb st'.
  Proof. induction 1 as [st|st st1 st2 P R IH]; intros Hi; [exact Hi|]. apply IH. eapply prim_inv; eauto. Qed.
End Inv.
