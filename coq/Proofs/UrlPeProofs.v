(* Component lemmas for C10: uppercase_percent_encoding and percent_encode
   (Model/Url.v: upper_pe, pe_byte, pe_bytes). *)
From Coq Require Import List NArith ZArith Bool Lia Arith.
From Coq Require Import ZifyBool ZifyNat ZifyN.
From Wpull Require Import Model.UrlLib Model.Url.
Import ListNotations.
Open Scope N_scope.

(* ---------- small facts about character classes ---------- *)
Lemma is_hex_upper_c a : is_hex a = true -> is_hex (upper_c a) = true.
Proof. unfold is_hex, upper_c. destruct ((97 <=? a) && (a <=? 122)) eqn:E; lia. Qed.

Lemma upper_c_idem a : upper_c (upper_c a) = upper_c a.
Proof. unfold upper_c. destruct ((97 <=? a) && (a <=? 122)) eqn:E; [|rewrite E; reflexivity].
  destruct ((97 <=? a - 32) && (a - 32 <=? 122)) eqn:E2; lia. Qed.

Lemma upper_c_not_lower a : ((97 <=? upper_c a) && (upper_c a <=? 122)) = false.
Proof. unfold upper_c. destruct ((97 <=? a) && (a <=? 122)) eqn:E; lia. Qed.

Lemma upper_c_not_pct a : is_hex a = true -> upper_c a <> 37.
Proof. unfold is_hex, upper_c. destruct ((97 <=? a) && (a <=? 122)) eqn:E; lia. Qed.

(* ---------- upper_pe: one unfolding step ---------- *)
Lemma upper_pe_nil : upper_pe [] = [].
Proof. reflexivity. Qed.

Lemma upper_pe_other x r : x <> 37 -> upper_pe (x :: r) = x :: upper_pe r.
Proof. intros H. cbn [upper_pe]. destruct (x =? 37) eqn:E; [lia|reflexivity]. Qed.

Lemma upper_pe_esc a b r :
  is_hex a && is_hex b = true -> upper_pe (37 :: a :: b :: r) = 37 :: upper_c a :: upper_c b :: upper_pe r.
Proof. intros H. cbn [upper_pe]. change (37 =? 37) with true. cbv iota. rewrite H. reflexivity. Qed.

Lemma upper_pe_pct_noesc r :
  match r with a :: b :: _ => is_hex a && is_hex b = false | _ => True end ->
  upper_pe (37 :: r) = 37 :: upper_pe r.
Proof.
  intros H. cbn [upper_pe]. change (37 =? 37) with true. cbv iota.
  destruct r as [|a [|b r2]]; try reflexivity. rewrite H. reflexivity.
Qed.

(* induction principle following the recursion of upper_pe *)
Lemma upper_pe_ind (P : str -> Prop) :
  P [] ->
  (forall x r, x <> 37 -> P r -> P (x :: r)) ->
  (forall a b r, is_hex a && is_hex b = true -> P r -> P (37 :: a :: b :: r)) ->
  (forall r, match r with a :: b :: _ => is_hex a && is_hex b = false | _ => True end -> P r -> P (37 :: r)) ->
  forall s, P s.
Proof.
  intros Hnil Hoth Hesc Hpct s.
  assert (H : forall n s, (length s <= n)%nat -> P s).
  { induction n as [|n IH]; intros s0 Hl.
    - destruct s0; [exact Hnil | cbn in Hl; lia].
    - destruct s0 as [|x r]; [exact Hnil|]. cbn [length] in Hl.
      destruct (N.eq_dec x 37) as [->|Hx].
      + destruct r as [|a [|b r2]].
        * apply Hpct; [exact I | apply IH; cbn; lia].
        * apply Hpct; [exact I | apply IH; cbn in *; lia].
        * destruct (is_hex a && is_hex b) eqn:E.
          -- apply Hesc; [exact E | apply IH; cbn [length] in *; lia].
          -- apply Hpct; [exact E | apply IH; cbn [length] in *; lia].
      + apply Hoth; [exact Hx | apply IH; lia]. }
  apply (H (length s)). lia.
Qed.

Lemma upper_pe_hd_pct r : exists t, upper_pe (37 :: r) = 37 :: t.
Proof.
  cbn [upper_pe]. change (37 =? 37) with true. cbv iota.
  destruct r as [|c [|d r3]]; try (eexists; reflexivity).
  destruct (is_hex c && is_hex d); eexists; reflexivity.
Qed.

(* the first two characters of upper_pe r when r does not start with an escape-forming pair *)
Lemma upper_pe_head2 r :
  match r with a :: b :: _ => is_hex a && is_hex b = false | _ => True end ->
  match upper_pe r with a :: b :: _ => is_hex a && is_hex b = false | _ => True end.
Proof.
  intros Hr. destruct r as [|a [|b r2]].
  - exact I.
  - cbn [upper_pe]. destruct (a =? 37); exact I.
  - destruct (N.eq_dec a 37) as [->|Ha].
    + destruct (upper_pe_hd_pct (b :: r2)) as [t ->]. destruct t; [exact I|reflexivity].
    + rewrite (upper_pe_other a _ Ha).
      destruct (N.eq_dec b 37) as [->|Hb].
      * destruct (upper_pe_hd_pct r2) as [t ->]. exact Hr.
      * rewrite (upper_pe_other b _ Hb). exact Hr.
Qed.

(* ---------- idempotence ---------- *)
Lemma upper_pe_idem s : upper_pe (upper_pe s) = upper_pe s.
Proof.
  induction s as [|x r Hx IH|a b r E IH|r Hr IH] using upper_pe_ind.
  - reflexivity.
  - rewrite (upper_pe_other x r Hx). rewrite (upper_pe_other _ _ Hx). now rewrite IH.
  - rewrite (upper_pe_esc a b r E).
    rewrite upper_pe_esc.
    + rewrite !upper_c_idem, IH. reflexivity.
    + apply andb_true_iff in E. destruct E as [Ea Eb].
      now rewrite (is_hex_upper_c a Ea), (is_hex_upper_c b Eb).
  - rewrite (upper_pe_pct_noesc r Hr).
    rewrite upper_pe_pct_noesc; [now rewrite IH|]. now apply upper_pe_head2.
Qed.

(* ---------- every escape in the output is upper-case ---------- *)
(* at every position: a % followed by two hex digits has no lower-case letter in them *)
Definition not_lower (c : N) : bool := negb ((97 <=? c) && (c <=? 122)).
Fixpoint escapes_upper (s : str) : bool :=
  match s with
  | [] => true
  | x :: r =>
      (if x =? 37 then
         match r with
         | a :: b :: _ => if is_hex a && is_hex b then not_lower a && not_lower b else true
         | _ => true
         end
       else true) && escapes_upper r
  end.

Lemma escapes_upper_other x r : x <> 37 -> escapes_upper (x :: r) = escapes_upper r.
Proof. intros H. cbn [escapes_upper]. destruct (x =? 37) eqn:E; [lia|reflexivity]. Qed.

Lemma upper_pe_escapes_upper s : escapes_upper (upper_pe s) = true.
Proof.
  induction s as [|x r Hx IH|a b r E IH|r Hr IH] using upper_pe_ind.
  - reflexivity.
  - rewrite (upper_pe_other x r Hx), (escapes_upper_other _ _ Hx). exact IH.
  - rewrite (upper_pe_esc a b r E).
    apply andb_true_iff in E. destruct E as [Ea Eb].
    cbn [escapes_upper]. change (37 =? 37) with true. cbv iota.
    rewrite (is_hex_upper_c a Ea), (is_hex_upper_c b Eb). cbn [andb].
    unfold not_lower. rewrite !upper_c_not_lower. cbn [negb andb].
    pose proof (upper_c_not_pct a Ea) as Na. pose proof (upper_c_not_pct b Eb) as Nb.
    destruct (upper_c a =? 37) eqn:E1; [lia|]. destruct (upper_c b =? 37) eqn:E2; [lia|].
    cbn [andb]. exact IH.
  - rewrite (upper_pe_pct_noesc r Hr).
    pose proof (upper_pe_head2 r Hr) as H2.
    cbn [escapes_upper]. change (37 =? 37) with true. cbv iota.
    destruct (upper_pe r) as [|a [|b t]] eqn:EU; try exact IH.
    rewrite H2. cbn [andb]. exact IH.
Qed.

(* upper_pe maps a character predicate that is stable under upper_c *)
Lemma upper_pe_Forall (P : N -> Prop) (s : str) :
  (forall c, P c -> P (upper_c c)) -> Forall P s -> Forall P (upper_pe s).
Proof.
  intros HP. induction s as [|x r Hx IH|a b r E IH|r Hr IH] using upper_pe_ind; intros HF.
  - constructor.
  - rewrite (upper_pe_other x r Hx). inversion HF; subst. constructor; auto.
  - rewrite (upper_pe_esc a b r E).
    inversion HF as [|? ? H0 HF1]; subst. inversion HF1 as [|? ? H1 HF2]; subst.
    inversion HF2 as [|? ? H2 HF3]; subst. repeat constructor; auto.
  - rewrite (upper_pe_pct_noesc r Hr). inversion HF; subst. constructor; auto.
Qed.

Lemma upper_pe_length s : length (upper_pe s) = length s.
Proof.
  induction s as [|x r Hx IH|a b r E IH|r Hr IH] using upper_pe_ind.
  - reflexivity.
  - rewrite (upper_pe_other x r Hx). cbn. now rewrite IH.
  - rewrite (upper_pe_esc a b r E). cbn. now rewrite IH.
  - rewrite (upper_pe_pct_noesc r Hr). cbn. now rewrite IH.
Qed.

(* characters other than letters are kept in place: upper_pe only changes a-f to A-F *)
Lemma upper_pe_map_rel (s : str) : Forall2 (fun x y => y = x \/ (is_hex x = true /\ y = upper_c x)) s (upper_pe s).
Proof.
  induction s as [|x r Hx IH|a b r E IH|r Hr IH] using upper_pe_ind.
  - constructor.
  - rewrite (upper_pe_other x r Hx). constructor; auto.
  - rewrite (upper_pe_esc a b r E). apply andb_true_iff in E. destruct E as [Ea Eb].
    constructor; [now left|]. constructor; [right; now split|]. constructor; [right; now split|]. exact IH.
  - rewrite (upper_pe_pct_noesc r Hr). constructor; auto.
Qed.

(* ---------- percent_encode ---------- *)
Lemma hex_upper_digit_range n : n < 16 ->
  (48 <= hex_upper_digit n <= 57) \/ (65 <= hex_upper_digit n <= 70).
Proof. unfold hex_upper_digit. intros H. destruct (n <? 10) eqn:E; lia. Qed.

(* what a character of percent_encode's output looks like *)
Definition pe_out_char (set : str) (c : N) : Prop :=
  (32 <= c <= 126 /\ memb c set = false) \/ c = 37 \/ (48 <= c <= 57) \/ (65 <= c <= 70).

Lemma pe_byte_out set b : b < 256 -> Forall (pe_out_char set) (pe_byte set b).
Proof.
  intros Hb. unfold pe_byte.
  destruct ((b <? 32) || (126 <? b) || memb b set) eqn:E.
  - assert (H1 : b / 16 < 16) by (apply N.div_lt_upper_bound; lia).
    assert (H2 : b mod 16 < 16) by (apply N.mod_lt; lia).
    pose proof (hex_upper_digit_range _ H1). pose proof (hex_upper_digit_range _ H2).
    constructor; [|constructor; [|constructor; [|constructor]]]; unfold pe_out_char; lia.
  - constructor; [|constructor]. left.
    apply orb_false_iff in E. destruct E as [E E3]. apply orb_false_iff in E. destruct E as [E1 E2].
    split; [lia|exact E3].
Qed.

Lemma pe_bytes_out set bs : Forall (fun b => b < 256) bs -> Forall (pe_out_char set) (pe_bytes set bs).
Proof.
  unfold pe_bytes. induction 1 as [|b r Hb Hr IH]; cbn [flat_map]; [constructor|].
  apply Forall_app. split; [now apply pe_byte_out | exact IH].
Qed.

(* encoding an already encoded, clean string changes nothing *)
Lemma pe_bytes_fix set s :
  Forall (fun c => 32 <= c <= 126 /\ memb c set = false) s -> pe_bytes set s = s.
Proof.
  unfold pe_bytes. induction 1 as [|c r [Hc Hm] Hr IH]; cbn [flat_map]; [reflexivity|].
  unfold pe_byte at 1. rewrite Hm.
  destruct (c <? 32) eqn:E1; [lia|]. destruct (126 <? c) eqn:E2; [lia|].
  cbn [orb app]. now rewrite IH.
Qed.

(* memb as a proposition *)
Lemma memb_In c s : memb c s = true <-> In c s.
Proof.
  induction s as [|x r IH]; cbn [memb In]; [split; [discriminate|tauto]|].
  rewrite orb_true_iff, IH. split; intros [H|H]; auto; left; lia.
Qed.

Lemma memb_false_In c s : memb c s = false <-> ~ In c s.
Proof. rewrite <- memb_In. destruct (memb c s); split; congruence. Qed.
