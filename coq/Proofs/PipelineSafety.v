(* C13 - safety invariant of the pipeline LTS: the log restricted to one item is always
   a prefix of  Start i 0, End i 0, Start i 1, End i 1, ...  (at most t tasks), an item
   is in exactly one place, only yielded items appear. *)
From Coq Require Import List Arith Bool Lia.
From Wpull Require Import Model.Pipeline Proofs.PipelineBase.
Import ListNotations.

Definition item_of (e : ev) : nat := match e with Ev _ i _ => i end.
Definition proj (i : nat) (l : list ev) : list ev := filter (fun e => item_of e =? i) l.
Fixpoint done_upto (i k : nat) : list ev :=
  match k with O => [] | S k' => End_ i k' :: Start i k' :: done_upto i k' end.
Arguments proj : simpl never.
Arguments done_upto : simpl never.

Definition witem (p : wpc) : option (nat * nat) :=
  match p with W_task i k | W_ret i k | W_exc i k => Some (i, k) | _ => None end.
Definition pitem (p : ppc) : option nat :=
  match p with P_src_item i | P_put_parked i _ => Some i | _ => None end.

Record Safe (t : nat) (s : state) : Prop := {
  sf_getters : forall w, In w (getters s) -> wpc_at (workers s) w = Some W_parked;
  sf_getters_nd : NoDup (getters s);
  sf_pitem : forall i, pitem (prod s) = Some i -> ~ In i (q_items s);
  sf_queue_nd : NoDup (q_items s);
  sf_fresh : forall i, (i = 0 \/ next_item s <= i \/ In i (q_items s) \/ pitem (prod s) = Some i) ->
                       proj i (log s) = [];
  sf_held : forall w p i k, wpc_at (workers s) w = Some p -> witem p = Some (i, k) ->
                            k < t /\ proj i (log s) = Start i k :: done_upto i k;
  sf_uniq : forall w w' p p' i k k', wpc_at (workers s) w = Some p -> witem p = Some (i, k) ->
                            wpc_at (workers s) w' = Some p' -> witem p' = Some (i, k') -> w = w';
  sf_shape : forall i, exists k, k <= t /\ (proj i (log s) = done_upto i k \/
                                           (k < t /\ proj i (log s) = Start i k :: done_upto i k));
  sf_range : (forall i, In i (q_items s) -> 1 <= i < next_item s) /\
             (forall i, pitem (prod s) = Some i -> 1 <= i < next_item s) /\ 1 <= next_item s
}.

(* ---- proj ------------------------------------------------------------------------ *)
Lemma proj_cons_same b i k l : proj i (Ev b i k :: l) = Ev b i k :: proj i l.
Proof. unfold proj. cbn. now rewrite Nat.eqb_refl. Qed.
Lemma proj_cons_other b i j k l : j <> i -> proj i (Ev b j k :: l) = proj i l.
Proof. intros N. unfold proj. cbn. apply Nat.eqb_neq in N. now rewrite N. Qed.

Lemma pitem_pnotify p : pitem (pnotify p) = pitem p.
Proof. destruct p as [| | | | | |i [|]|[|]| | |]; reflexivity. Qed.

(* ---- frame: what Safe depends on ---------------------------------------------------- *)
Lemma safe_frame t s s' :
  Safe t s ->
  next_item s' = next_item s -> q_items s' = q_items s -> log s' = log s ->
  (pitem (prod s') = pitem (prod s) \/ pitem (prod s') = None) ->
  (forall w p, wpc_at (workers s') w = Some p -> witem p <> None ->
               exists q, wpc_at (workers s) w = Some q /\ witem q = witem p) ->
  (forall w, In w (getters s') -> wpc_at (workers s') w = Some W_parked) ->
  NoDup (getters s') ->
  Safe t s'.
Proof.
  intros [G GN PI QN FR HE UQ SH RG] En Eq El Ep W1 W2 W3.
  assert (PP : forall i, pitem (prod s') = Some i -> pitem (prod s) = Some i)
    by (intros i H; destruct Ep as [Ep|Ep]; congruence).
  constructor; rewrite ?En, ?Eq, ?El; auto.
  - intros i [H|[H|[H|H]]]; apply FR; auto.
  - intros w p i k A B. destruct (W1 w p A) as [q [A' B']]; [congruence|].
    apply (HE w q i k); [exact A'|congruence].
  - intros w w' p p' i k k' A B C D.
    destruct (W1 w p A) as [q [A' B']]; [congruence|]. destruct (W1 w' p' C) as [q' [C' D']]; [congruence|].
    apply (UQ w w' q q' i k k'); congruence.
  - destruct RG as [R1 [R2 R3]]. auto.
Qed.

Lemma nodup_app_r {A} (a b : list A) : NoDup (a ++ b) -> NoDup b.
Proof. induction a as [|x a IH]; cbn; [auto|]. intros H; inversion H; auto. Qed.

Lemma nodup_snoc {A} (a : list A) x : NoDup a -> ~ In x a -> NoDup (a ++ [x]).
Proof.
  induction a as [|y a IH]; cbn; intros ND N; [constructor; [intros []|constructor]|].
  inversion ND as [|? ? Ny ND']; subst. constructor.
  - intros I. apply in_app_or in I. destruct I as [I|[->|[]]]; [contradiction|]. apply N; now left.
  - apply IH; [exact ND'|]. intros I; apply N; now right.
Qed.

Lemma nodup_split {A} (l : list A) k : NoDup l -> NoDup (skipn k l) /\ forall x, In x (firstn k l) -> ~ In x (skipn k l).
Proof.
  intros ND. rewrite <- (firstn_skipn k l) in ND. split.
  - now apply nodup_app_r in ND.
  - revert ND. generalize (firstn k l) (skipn k l). intros a b; induction a as [|y a IH]; intros ND x I; [destruct I|].
    cbn in ND. inversion ND as [|? ? N ND']; subst. destruct I as [->|I]; [|now apply IH].
    intros Ib. apply N. apply in_or_app. now right.
Qed.

(* waking the first k getters *)
Lemma safe_wake_args t s k :
  Safe t s ->
  (forall w p, wpc_at (wake_set (workers s) (firstn k (getters s))) w = Some p -> witem p <> None ->
               exists q, wpc_at (workers s) w = Some q /\ witem q = witem p) /\
  (forall w, In w (skipn k (getters s)) -> wpc_at (wake_set (workers s) (firstn k (getters s))) w = Some W_parked) /\
  NoDup (skipn k (getters s)).
Proof.
  intros S. destruct (nodup_split (getters s) k (sf_getters_nd _ _ S)) as [ND DJ]. repeat split.
  - intros w p A B. destruct (wake_set_at _ _ _ _ A) as [[_ ->]|[_ E]]; [now elim B|eauto].
  - intros w I. rewrite wake_set_not_in.
    + apply (sf_getters _ _ S). rewrite <- (firstn_skipn k (getters s)). apply in_or_app; now right.
    + intros I2. exact (DJ _ I2 I).
  - exact ND.
Qed.

Ltac wake_frame S k :=
  let A := fresh in let B := fresh in let C := fresh in
  destruct (safe_wake_args _ _ k S) as [A [B C]];
  apply (safe_frame _ _ _ S); cbn; auto.

Lemma safe_wake_n t s k : Safe t s -> Safe t (wake_n k s).
Proof. intros S. rewrite wake_n_eq. wake_frame S k. Qed.

Lemma safe_wake_one t s : Safe t s -> Safe t (wake_one s).
Proof. apply (safe_wake_n t s 1). Qed.

Lemma safe_put_pills t s k : Safe t s -> Safe t (put_pills k s).
Proof. intros S. rewrite put_pills_eq. wake_frame S k. Qed.

(* a state that differs only in fields Safe does not read *)
Ltac same_frame S :=
  apply (safe_frame _ _ _ S); cbn;
  [ reflexivity | reflexivity | reflexivity | auto | intros ? ? ? _; eauto
  | apply (sf_getters _ _ S) | apply (sf_getters_nd _ _ S) ].

Lemma safe_event_set t s : Safe t s -> Safe t (event_set s).
Proof. intros S. rewrite event_set_eq. destruct (unpaused s); [exact S|]. same_frame S. Qed.

Lemma safe_notify_all t s : Safe t s -> Safe t (notify_all s).
Proof. intros S. rewrite notify_all_eq. same_frame S. left. apply pitem_pnotify. Qed.

Lemma safe_pipeline_stop t s : Safe t s -> Safe t (pipeline_stop s).
Proof.
  intros S. unfold pipeline_stop. destruct (pstate s); try exact S.
  apply safe_event_set, safe_put_pills. same_frame S.
Qed.

Lemma safe_set_concurrency t s k : Safe t s -> Safe t (set_concurrency k s).
Proof.
  intros S. unfold set_concurrency.
  assert (S1 : Safe t (set_conc s k)) by same_frame S.
  destruct (pstate s); try exact S1.
  assert (S2 : Safe t (if k <? conc s then put_pills (conc s - k) (set_conc s k)
                       else if conc s <? k then put_pills 1 (set_conc s k) else set_conc s k)).
  { destruct (k <? conc s); [now apply safe_put_pills|]. destruct (conc s <? k); [now apply safe_put_pills|exact S1]. }
  destruct (0 <? k); [now apply safe_event_set|]. same_frame S2.
Qed.

(* changing the producer's pc to one that holds no item *)
Lemma safe_set_prod_noitem t s p : Safe t s -> pitem p = None -> Safe t (set_prod s p).
Proof. intros S E. same_frame S. Qed.

Lemma safe_set_prod_same t s p : Safe t s -> pitem p = pitem (prod s) -> Safe t (set_prod s p).
Proof. intros S E. same_frame S. Qed.

Lemma safe_prod_loop t s : Safe t s -> Safe t (prod_loop s).
Proof.
  intros S. unfold prod_loop. destruct (prod_running s).
  - now apply safe_set_prod_noitem.
  - apply safe_set_prod_noitem; [now apply safe_pipeline_stop|reflexivity].
Qed.

(* ---- producer -------------------------------------------------------------------------- *)
Lemma safe_enqueue t s i :
  Safe t s -> pitem (prod s) = Some i ->
  Safe t (set_prod (set_items (set_unfinished s (S (unfinished s))) (q_items s ++ [i])) P_src).
Proof.
  intros S E. destruct S as [G GN PI QN FR HE UQ SH [R1 [R2 R3]]].
  constructor; cbn; auto.
  - discriminate.
  - apply nodup_snoc; [exact QN|now apply PI].
  - intros j [H|[H|[H|H]]]; try discriminate; apply FR; auto.
    apply in_app_or in H. destruct H as [H|[<-|[]]]; auto.
  - repeat split; auto; try discriminate.
    + apply in_app_or in H. destruct H as [H|[<-|[]]]; [apply R1, H|apply R2, E].
    + apply in_app_or in H. destruct H as [H|[<-|[]]]; [apply R1, H|apply R2, E].
Qed.

Lemma prod_loop_set_prod s p : prod_loop (set_prod s p) = prod_loop s.
Proof.
  unfold prod_loop. cbn [prod_running set_prod]. destruct (prod_running s); [reflexivity|].
  unfold pipeline_stop. cbn [pstate set_prod]. destruct (pstate s); try reflexivity.
  rewrite !event_set_eq, !put_pills_eq. cbn. destruct (unpaused s); reflexivity.
Qed.

Lemma wake_one_set_prod s p : wake_one (set_prod s p) = set_prod (wake_one s) p.
Proof. rewrite !wake_one_eq. reflexivity. Qed.

Lemma safe_prod_put t s i : Safe t s -> pitem (prod s) = Some i -> Safe t (prod_put i s).
Proof.
  intros S E. unfold prod_put. destruct (qsize s).
  - pose proof (safe_enqueue t s i S E) as S1.
    apply safe_wake_one, safe_prod_loop in S1.
    rewrite wake_one_set_prod, prod_loop_set_prod in S1. exact S1.
  - apply safe_set_prod_same; [exact S|now rewrite E].
Qed.

Lemma safe_cancelled t s : Safe t s -> Safe t (set_prod_cancel (set_prod s P_cancelled) false).
Proof. intros S. same_frame S. Qed.

Lemma safe_prod_step t s s' : Safe t s -> prod_step s = Some s' -> Safe t s'.
Proof.
  intros S. unfold prod_step. destruct (pdone (prod s)); [discriminate|].
  destruct (prod s) as [| | |i| | |i [|]|[|]| | |] eqn:E; try discriminate;
    (destruct (prod_cancel s); [intros H; injection H as <-; now apply safe_cancelled|]);
    try discriminate; try (match goal with |- match unfinished s with _ => _ end = _ -> _ => destruct (unfinished s) end); intros H; injection H as <-.
  - apply safe_prod_loop. same_frame S.
  - apply safe_prod_put; [exact S|now rewrite E].
  - apply safe_set_prod_noitem; [|reflexivity]. apply safe_pipeline_stop. same_frame S.
  - now apply safe_set_prod_noitem.
  - apply safe_set_prod_noitem; [now apply safe_pipeline_stop|reflexivity].
  - apply safe_prod_put; [exact S|now rewrite E].
  - now apply safe_prod_loop.
Qed.

(* ---- workers ------------------------------------------------------------------------------ *)
Lemma upd_pc_idem ws w p q : upd_pc (upd_pc ws w p) w q = upd_pc ws w q.
Proof. revert w; induction ws as [|x r IH]; intros [|w]; cbn; auto. now rewrite IH. Qed.

Lemma not_getter t s w p : Safe t s -> wpc_at (workers s) w = Some p -> p <> W_parked -> ~ In w (getters s).
Proof. intros S E N I. rewrite (sf_getters _ _ S w I) in E. congruence. Qed.

(* the worker's pc changes, its item (if any) is kept or abandoned *)
Lemma safe_set_wpc t s w p p' :
  Safe t s -> wpc_at (workers s) w = Some p -> p <> W_parked ->
  (witem p' = None \/ witem p' = witem p) -> Safe t (set_wpc s w p').
Proof.
  intros S E N I. pose proof (not_getter _ _ _ _ S E N) as NG.
  apply (safe_frame _ _ _ S); cbn; auto.
  - intros w' q A B. destruct (wpc_at_upd _ _ _ _ _ A) as [[-> ->]|[_ A']]; [|eauto].
    destruct I as [I|I]; [congruence|eauto].
  - intros w' I'. rewrite wpc_at_upd_other; [now apply (sf_getters _ _ S)|]. intros ->. contradiction.
  - apply (sf_getters_nd _ _ S).
Qed.

Lemma safe_park t s w p :
  Safe t s -> wpc_at (workers s) w = Some p -> p <> W_parked ->
  Safe t (set_getters (set_wpc s w W_parked) (getters s ++ [w])).
Proof.
  intros S E N. pose proof (not_getter _ _ _ _ S E N) as NG.
  pose proof (safe_set_wpc t s w p W_parked S E N (or_introl eq_refl)) as S1.
  apply (safe_frame _ _ _ S1); cbn; auto.
  - eauto.
  - intros w' I. apply in_app_or in I. destruct I as [I|[<-|[]]].
    + rewrite wpc_at_upd_other; [now apply (sf_getters _ _ S)|]. intros ->. contradiction.
    + apply wpc_at_upd_same. eapply wpc_at_Some_lt; eauto.
  - apply nodup_snoc; [apply (sf_getters_nd _ _ S)|exact NG].
Qed.

Lemma safe_drop_head t s i r : Safe t s -> q_items s = i :: r -> Safe t (set_items s r).
Proof.
  intros [G GN PI QN FR HE UQ SH [R1 [R2 R3]]] E. rewrite E in *.
  constructor; cbn; auto.
  - intros j H I. apply (PI j H). now right.
  - now inversion QN.
  - intros j [H|[H|[H|H]]]; apply FR; auto. right; right; left; now right.
  - split; [|split]; auto. intros j Hj. apply R1. now right.
Qed.

Lemma done_upto_proj i k : proj i (done_upto i k) = done_upto i k.
Proof.
  induction k; [reflexivity|]. change (done_upto i (S k)) with (End_ i k :: Start i k :: done_upto i k).
  unfold End_, Start. now rewrite !proj_cons_same, IHk.
Qed.

Lemma safe_take t s w p i r :
  Safe t s -> q_items s = i :: r -> wpc_at (workers s) w = Some p -> witem p = None -> p <> W_parked -> 0 < t ->
  Safe t (set_wpc (add_log (set_items s r) (Start i 0)) w (W_task i 0)).
Proof.
  intros S E A B N T. pose proof (not_getter _ _ _ _ S A N) as NG.
  assert (Fi : proj i (log s) = []) by (apply (sf_fresh _ _ S); rewrite E; right; right; left; now left).
  assert (NH : forall w' q k, wpc_at (workers s) w' = Some q -> witem q = Some (i, k) -> False).
  { intros w' q k C D. destruct (sf_held _ _ S _ _ _ _ C D) as [_ X]. rewrite Fi in X. discriminate. }
  pose proof (safe_drop_head _ _ _ _ S E) as S1.
  destruct S as [G GN PI QN FR HE UQ SH [R1 [R2 R3]]]. rewrite E in *.
  assert (Ni : ~ In i r) by (now inversion QN).
  assert (Pi : pitem (prod s) <> Some i) by (intros H; apply (PI i H); now left).
  constructor; cbn; auto.
  - intros w' I. rewrite wpc_at_upd_other; [now apply G|]. intros ->. contradiction.
  - intros j H I. apply (PI j H). now right.
  - now inversion QN.
  - intros j H. assert (j <> i).
    { intros ->. destruct H as [H|[H|[H|H]]]; auto.
      - assert (1 <= i) by (apply R1; now left). lia.
      - assert (i < next_item s) by (apply R1; now left). lia. }
    unfold Start. rewrite proj_cons_other by congruence. apply FR.
    destruct H as [H|[H|[H|H]]]; auto. right; right; left; now right.
  - intros w' q j k C D. destruct (wpc_at_upd _ _ _ _ _ C) as [[-> ->]|[_ C']].
    + cbn in D. injection D as <- <-. split; [exact T|]. unfold Start. now rewrite proj_cons_same, Fi.
    + assert (j <> i) by (intros ->; eapply NH; eauto).
      unfold Start. rewrite proj_cons_other by congruence. eapply HE; eauto.
  - intros w1 w2 q1 q2 j k k' C1 D1 C2 D2.
    destruct (wpc_at_upd _ _ _ _ _ C1) as [[-> ->]|[N1 C1']], (wpc_at_upd _ _ _ _ _ C2) as [[-> ->]|[N2 C2']]; auto.
    + cbn in D1. injection D1 as <- <-. exfalso; eapply NH; eauto.
    + cbn in D2. injection D2 as <- <-. exfalso; eapply NH; eauto.
    + eapply UQ; eauto.
  - intros j. destruct (Nat.eq_dec j i) as [->|Nj].
    + exists 0. split; [lia|]. right. split; [exact T|]. unfold Start. now rewrite proj_cons_same, Fi.
    + unfold Start. rewrite proj_cons_other by congruence. apply SH.
  - split; [|split]; auto. intros j Hj. apply R1. now right.
Qed.

Lemma safe_next_task t s w i k :
  Safe t s -> wpc_at (workers s) w = Some (W_ret i k) -> S k < t ->
  Safe t (set_wpc (add_log (add_log s (End_ i k)) (Start i (S k))) w (W_task i (S k))).
Proof.
  intros Sf A T. assert (N : W_ret i k <> W_parked) by discriminate.
  pose proof (not_getter _ _ _ _ Sf A N) as NG.
  destruct (sf_held _ _ Sf _ _ _ _ A eq_refl) as [_ Hi].
  assert (Hn : proj i (Start i (S k) :: End_ i k :: log s) = Start i (S k) :: done_upto i (S k)).
  { unfold Start, End_. rewrite !proj_cons_same. fold (Start i (S k)) (End_ i k). now rewrite Hi. }
  assert (Ho : forall j, j <> i -> proj j (Start i (S k) :: End_ i k :: log s) = proj j (log s)).
  { intros j Nj. unfold Start, End_. now rewrite !proj_cons_other by congruence. }
  destruct Sf as [G GN PI QN FR HE UQ SH [R1 [R2 R3]]].
  constructor; cbn; auto.
  - intros w' I. rewrite wpc_at_upd_other; [now apply G|]. intros ->. contradiction.
  - intros j H. assert (j <> i) by (intros ->; rewrite (FR i H) in Hi; discriminate).
    rewrite Ho by assumption. now apply FR.
  - intros w' q j k' C D. destruct (wpc_at_upd _ _ _ _ _ C) as [[-> ->]|[Nw C']].
    + cbn in D. injection D as <- <-. split; [exact T|exact Hn].
    + assert (j <> i). { intros ->. apply Nw. eapply (UQ w' w); eauto. reflexivity. }
      rewrite Ho by assumption. eapply HE; eauto.
  - intros w1 w2 q1 q2 j k1 k2 C1 D1 C2 D2.
    destruct (wpc_at_upd _ _ _ _ _ C1) as [[-> ->]|[N1 C1']], (wpc_at_upd _ _ _ _ _ C2) as [[-> ->]|[N2 C2']]; auto.
    + cbn in D1. injection D1 as <- <-. symmetry. eapply (UQ w2 w); eauto. reflexivity.
    + cbn in D2. injection D2 as <- <-. eapply (UQ w1 w); eauto. reflexivity.
    + eapply UQ; eauto.
  - intros j. destruct (Nat.eq_dec j i) as [->|Nj].
    + exists (S k). split; [lia|]. right. split; [exact T|exact Hn].
    + rewrite Ho by assumption. apply SH.
Qed.

Lemma safe_finish_item t s w i k p' :
  Safe t s -> wpc_at (workers s) w = Some (W_ret i k) -> t <= S k -> witem p' = None ->
  Safe t (set_wpc (add_log s (End_ i k)) w p').
Proof.
  intros Sf A T B. assert (N : W_ret i k <> W_parked) by discriminate.
  pose proof (not_getter _ _ _ _ Sf A N) as NG.
  destruct (sf_held _ _ Sf _ _ _ _ A eq_refl) as [Tk Hi].
  assert (Hn : proj i (End_ i k :: log s) = done_upto i (S k)).
  { unfold End_. rewrite proj_cons_same. fold (End_ i k). now rewrite Hi. }
  assert (Ho : forall j, j <> i -> proj j (End_ i k :: log s) = proj j (log s)).
  { intros j Nj. unfold End_. now rewrite proj_cons_other by congruence. }
  destruct Sf as [G GN PI QN FR HE UQ SH [R1 [R2 R3]]].
  constructor; cbn; auto.
  - intros w' I. rewrite wpc_at_upd_other; [now apply G|]. intros ->. contradiction.
  - intros j H. assert (j <> i) by (intros ->; rewrite (FR i H) in Hi; discriminate).
    rewrite Ho by assumption. now apply FR.
  - intros w' q j k' C D. destruct (wpc_at_upd _ _ _ _ _ C) as [[-> ->]|[Nw C']]; [congruence|].
    assert (j <> i). { intros ->. apply Nw. eapply (UQ w' w); eauto. reflexivity. }
    rewrite Ho by assumption. eapply HE; eauto.
  - intros w1 w2 q1 q2 j k1 k2 C1 D1 C2 D2.
    destruct (wpc_at_upd _ _ _ _ _ C1) as [[-> ->]|[N1 C1']], (wpc_at_upd _ _ _ _ _ C2) as [[-> ->]|[N2 C2']];
      auto; try congruence. eapply UQ; eauto.
  - intros j. destruct (Nat.eq_dec j i) as [->|Nj].
    + exists (S k). split; [lia|]. left. exact Hn.
    + rewrite Ho by assumption. apply SH.
Qed.

Lemma worker_get_overwrite t w s p : worker_get t w (set_wpc s w p) = worker_get t w s.
Proof.
  unfold worker_get. cbn [q_pills q_items set_wpc set_workers].
  destruct (q_pills s).
  - destruct (q_items s) as [|i r].
    + unfold set_wpc, set_getters, set_workers. cbn. now rewrite upd_pc_idem.
    + destruct t.
      * rewrite !notify_all_eq. cbn. destruct (unfinished s); rewrite ?notify_all_eq; unfold set_wpc; cbn;
          now rewrite upd_pc_idem.
      * rewrite !notify_all_eq. unfold set_wpc; cbn. now rewrite upd_pc_idem.
  - rewrite !notify_all_eq. unfold set_wpc; cbn. now rewrite upd_pc_idem.
Qed.

Lemma safe_worker_get t s w p :
  Safe t s -> wpc_at (workers s) w = Some p -> witem p = None -> p <> W_parked -> Safe t (worker_get t w s).
Proof.
  intros Sf A B N. unfold worker_get. destruct (q_pills s) as [|pl] eqn:EP.
  - destruct (q_items s) as [|i r] eqn:EQ.
    + eapply safe_park; eauto.
    + destruct t as [|t'].
      * pose proof (safe_notify_all _ _ (safe_drop_head _ _ _ _ Sf EQ)) as S1.
        assert (A1 : wpc_at (workers (notify_all (set_items s r))) w = Some p) by (rewrite notify_all_eq; exact A).
        destruct (unfinished (notify_all (set_items s r))) as [|u].
        -- eapply safe_set_wpc; eauto.
        -- assert (S2 : Safe 0 (notify_all (set_unfinished (notify_all (set_items s r)) u))).
           { apply safe_notify_all. same_frame S1. }
           eapply safe_set_wpc; [exact S2| |exact N|left; reflexivity].
           rewrite !notify_all_eq. exact A.
      * assert (E : set_wpc (add_log (notify_all (set_items s r)) (Start i 0)) w (W_task i 0) =
                    set_wpc (add_log (set_items (notify_all s) r) (Start i 0)) w (W_task i 0))
          by (rewrite !notify_all_eq; reflexivity).
        rewrite E. eapply safe_take; [apply safe_notify_all, Sf| | | | |lia]; rewrite ?notify_all_eq; eauto.
  - assert (S1 : Safe t (notify_all (set_pills s pl))) by (apply safe_notify_all; same_frame Sf).
    eapply safe_set_wpc; [exact S1| |exact N|left; reflexivity]. rewrite notify_all_eq. exact A.
Qed.

Lemma safe_worker_step t w s s' : Safe t s -> worker_step t w s = Some s' -> Safe t s'.
Proof.
  intros Sf. unfold worker_step. destruct (wpc_at (workers s) w) as [p|] eqn:A; [|discriminate].
  destruct p as [| | | |i k|i k|i k| |]; try discriminate.
  - intros H; injection H as <-. eapply safe_worker_get; eauto. discriminate.
  - intros H; injection H as <-. eapply safe_worker_get; eauto. discriminate.
  - intros H; injection H as <-. eapply safe_worker_get; eauto. discriminate.
  - destruct (S k <? t) eqn:T.
    + apply Nat.ltb_lt in T. intros H; injection H as <-. now apply safe_next_task.
    + apply Nat.ltb_ge in T. cbn [unfinished add_log].
      destruct (unfinished s) as [|u]; intros H; injection H as <-.
      * apply safe_finish_item; auto.
      * rewrite <- worker_get_overwrite with (p := W_loop).
        pose proof (safe_finish_item t s w i k W_loop Sf A T eq_refl) as S1.
        eapply safe_worker_get with (p := W_loop); [| |reflexivity|discriminate].
        -- rewrite notify_all_eq.
           apply safe_notify_all in S1. rewrite notify_all_eq in S1.
           apply (safe_frame _ _ _ S1); cbn; auto; [eauto|apply (sf_getters _ _ S1)|apply (sf_getters_nd _ _ S1)].
        -- rewrite notify_all_eq. cbn. apply wpc_at_upd_same. eapply wpc_at_Some_lt; eauto.
  - intros H; injection H as <-. eapply safe_set_wpc; eauto. discriminate.
Qed.

(* ---- main coroutine ------------------------------------------------------------------------- *)
Lemma safe_set_workers t s ws' :
  Safe t s ->
  (forall w p, wpc_at ws' w = Some p -> witem p <> None -> wpc_at (workers s) w = Some p) ->
  (forall w, wpc_at (workers s) w = Some W_parked -> wpc_at ws' w = Some W_parked) ->
  Safe t (set_workers s ws').
Proof.
  intros Sf W1 W2. apply (safe_frame _ _ _ Sf); cbn; auto.
  - eauto.
  - intros w I. apply W2, (sf_getters _ _ Sf), I.
  - apply (sf_getters_nd _ _ Sf).
Qed.

Lemma safe_spawn t s : Safe t s -> Safe t (spawn s).
Proof.
  intros Sf. apply safe_set_workers; [exact Sf| |].
  - intros w p A B. destruct (wpc_at_app_repeat _ _ _ _ _ A) as [A'|[_ ->]]; [exact A'|now elim B].
  - intros w A. now apply wpc_at_app_l.
Qed.

Lemma safe_reap t s : Safe t s -> Safe t (set_workers s (reap (workers s))).
Proof. intros Sf. apply safe_set_workers; [exact Sf| |]; intros w; rewrite ?wpc_at_reap; auto. Qed.

Lemma safe_clear t s : Safe t s -> Safe t (set_workers s (clear_set (workers s))).
Proof. intros Sf. apply safe_set_workers; [exact Sf| |]; intros w; rewrite ?wpc_at_clear; auto. Qed.

Lemma safe_set_main t s m : Safe t s -> Safe t (set_main s m).
Proof. intros Sf. same_frame Sf. Qed.

Lemma safe_finish_prod t s : Safe t s -> Safe t (finish_prod s).
Proof. intros Sf. unfold finish_prod. destruct (prod s); same_frame Sf. Qed.

Lemma safe_sd_after_workers t s : Safe t s -> Safe t (sd_after_workers s).
Proof.
  intros Sf. unfold sd_after_workers. apply safe_clear in Sf.
  destruct (pdone (prod (set_workers s (clear_set (workers s))))); [now apply safe_finish_prod|]. same_frame Sf.
Qed.

Lemma safe_main_loop t s : Safe t s -> Safe t (main_loop s).
Proof.
  intros Sf. unfold main_loop. destruct (pstate s).
  - destruct (0 <? count_inset (workers s)); [now apply safe_set_main|now apply safe_sd_after_workers].
  - apply safe_spawn in Sf. destruct (0 <? count_inset (workers (spawn s))); [now apply safe_set_main|].
    destruct (unpaused (spawn s)); now apply safe_set_main.
  - destruct (0 <? count_inset (workers s)); [now apply safe_set_main|now apply safe_sd_after_workers].
Qed.

Lemma safe_main_step t s s' : Safe t s -> main_step s = Some s' -> Safe t s'.
Proof.
  intros Sf. unfold main_step. destruct (mainpc s) as [| | |[|]| | | |]; try discriminate.
  - destruct (pstate s) eqn:EP; intros H; injection H as <-; try (now apply safe_main_loop).
    apply safe_main_loop. same_frame Sf.
  - intros H; injection H as <-. now apply safe_main_loop.
  - destruct (existsb in_done (workers s)); [|discriminate].
    destruct (existsb in_raised (workers s)); intros H; injection H as <-; [now apply safe_set_main|].
    now apply safe_main_loop, safe_reap.
  - intros H; injection H as <-. now apply safe_main_loop.
  - destruct (existsb in_live (workers s)); [discriminate|]. intros H; injection H as <-. now apply safe_sd_after_workers.
  - destruct (pdone (prod s)); [|discriminate]. intros H; injection H as <-. now apply safe_finish_prod.
Qed.

(* ---- environment ---------------------------------------------------------------------------------- *)
Lemma find_task_spec ws i o w k :
  find_task ws i o = Some (w, k) -> o <= w /\ wpc_at ws (w - o) = Some (W_task i k).
Proof.
  revert o; induction ws as [|x r IH]; intros o; [discriminate|]. cbn [find_task].
  assert (R : find_task r i (S o) = Some (w, k) -> o <= w /\ wpc_at (x :: r) (w - o) = Some (W_task i k)).
  { intros H. destruct (IH _ H) as [L E]. split; [lia|]. replace (w - o) with (S (w - S o)) by lia. exact E. }
  destruct (pc x) as [| | | |j k'| | | |] eqn:E; auto.
  destruct (j =? i) eqn:Eji; auto. apply Nat.eqb_eq in Eji. subst j.
  intros H; injection H as <- <-. split; [lia|]. rewrite Nat.sub_diag. unfold wpc_at. cbn. now rewrite E.
Qed.

Lemma safe_take_source t s : Safe t s -> pitem (prod s) = None -> Safe t (take_source s).
Proof.
  intros [G GN PI QN FR HE UQ SH [R1 [R2 R3]]] E.
  constructor; cbn; auto.
  - intros i H; injection H as <-. intros I. apply R1 in I. lia.
  - intros i [H|[H|[H|H]]]; apply FR; auto; [right; left; lia|]. injection H as <-. right; left; lia.
  - split; [|split]; try lia.
    + intros i I. apply R1 in I. lia.
    + intros i H; injection H as <-. lia.
Qed.

Lemma safe_step t s l s' : Safe t s -> step t s l = Some s' -> Safe t s'.
Proof.
  intros Sf. destruct l as [| |w|i|i| | | | |k]; cbn [step].
  - now apply safe_main_step.
  - now apply safe_prod_step.
  - now apply safe_worker_step.
  - destruct (find_task (workers s) i 0) as [[w k]|] eqn:F; [|discriminate]. intros H; injection H as <-.
    destruct (find_task_spec _ _ _ _ _ F) as [_ A]. rewrite Nat.sub_0_r in A.
    eapply safe_set_wpc; eauto. discriminate.
  - destruct (find_task (workers s) i 0) as [[w k]|] eqn:F; [|discriminate]. intros H; injection H as <-.
    destruct (find_task_spec _ _ _ _ _ F) as [_ A]. rewrite Nat.sub_0_r in A.
    eapply safe_set_wpc; eauto. discriminate.
  - destruct (prod s) eqn:E; try discriminate. destruct (prod_cancel s); [discriminate|].
    destruct (src_left s); [discriminate|]. intros H; injection H as <-. apply safe_take_source; [exact Sf|now rewrite E].
  - destruct (prod s) eqn:E; try discriminate. destruct (prod_cancel s); [discriminate|].
    intros H; injection H as <-. now apply safe_set_prod_noitem.
  - destruct (prod s) eqn:E; try discriminate. destruct (prod_cancel s); [discriminate|].
    intros H; injection H as <-. now apply safe_set_prod_noitem.
  - intros H; injection H as <-. now apply safe_pipeline_stop.
  - intros H; injection H as <-. now apply safe_set_concurrency.
Qed.

Lemma safe_init t n c : Safe t (init n c).
Proof.
  assert (W : forall w p, wpc_at [] w = Some p -> False) by (intros [|w] p H; discriminate H).
  constructor; cbn.
  - intros w [].
  - constructor.
  - discriminate.
  - constructor.
  - intros; reflexivity.
  - intros w p i k A; elim (W _ _ A).
  - intros w w' p p' i k k' A; elim (W _ _ A).
  - intros i; exists 0; split; [lia|left; reflexivity].
  - split; [intros i []|split; [discriminate|lia]].
Qed.

Theorem safe_reachable t n c s : reachable t n c s -> Safe t s.
Proof. induction 1; [apply safe_init|eapply safe_step; eauto]. Qed.

(* ---- consequences of the shape -------------------------------------------------------------------- *)
Definition task_of (e : ev) : nat := match e with Ev _ _ k => k end.

Lemma done_upto_S i k : done_upto i (S k) = End_ i k :: Start i k :: done_upto i k.
Proof. reflexivity. Qed.

Lemma done_upto_in i m e : In e (done_upto i m) -> item_of e = i /\ task_of e < m.
Proof.
  induction m as [|m IH]; [intros []|]. rewrite done_upto_S. intros [<-|[<-|H]]; cbn; try (split; [reflexivity|lia]).
  destruct (IH H); split; [assumption|lia].
Qed.

Lemma done_upto_nodup i m : NoDup (done_upto i m).
Proof.
  induction m as [|m IH]; [constructor|]. rewrite done_upto_S. constructor; [|constructor; [|exact IH]].
  - intros [H|H]; [discriminate|]. apply done_upto_in in H. cbn in H. lia.
  - intros H. apply done_upto_in in H. cbn in H. lia.
Qed.

Definition shape (t i : nat) (L : list ev) : Prop :=
  exists k, k <= t /\ (L = done_upto i k \/ (k < t /\ L = Start i k :: done_upto i k)).

Lemma shape_nodup t i L : shape t i L -> NoDup L.
Proof.
  intros [k [_ [->|[_ ->]]]]; [apply done_upto_nodup|]. constructor; [|apply done_upto_nodup].
  intros H. apply done_upto_in in H. cbn in H. lia.
Qed.

Lemma shape_in t i L e : shape t i L -> In e L -> item_of e = i /\ task_of e < t.
Proof.
  intros [k [Hk [->|[Hk' ->]]]] H.
  - apply done_upto_in in H. destruct H; split; [assumption|lia].
  - destruct H as [<-|H]; [cbn; split; [reflexivity|lia]|]. apply done_upto_in in H. destruct H; split; [assumption|lia].
Qed.

(* every suffix of a shaped list that starts at an event: what follows it *)
Lemma done_upto_suffix i m a e b :
  done_upto i m = a ++ e :: b ->
  exists k, k < m /\ ((e = End_ i k /\ b = Start i k :: done_upto i k) \/ (e = Start i k /\ b = done_upto i k)).
Proof.
  revert a; induction m as [|m IH]; intros a H; [destruct a; discriminate|].
  rewrite done_upto_S in H. destruct a as [|x [|y a]]; cbn in H.
  - injection H as <- <-. exists m. split; [lia|]. left; auto.
  - injection H as _ <- <-. exists m. split; [lia|]. right; auto.
  - injection H as _ _ H. destruct (IH _ H) as [k [L R]]. exists k. split; [lia|exact R].
Qed.

Lemma shape_suffix t i L a e b :
  shape t i L -> L = a ++ e :: b ->
  exists k, k < t /\ ((e = End_ i k /\ b = Start i k :: done_upto i k) \/ (e = Start i k /\ b = done_upto i k)).
Proof.
  intros [m [Hm [->|[Hm' ->]]]] H.
  - destruct (done_upto_suffix _ _ _ _ _ H) as [k [L R]]. exists k. split; [lia|exact R].
  - destruct a as [|x a]; cbn in H.
    + injection H as <- <-. exists m. split; [lia|]. right; auto.
    + injection H as _ H. destruct (done_upto_suffix _ _ _ _ _ H) as [k [L R]]. exists k. split; [lia|exact R].
Qed.

Lemma proj_app i a b : proj i (a ++ b) = proj i a ++ proj i b.
Proof. apply filter_app. Qed.

Lemma proj_in i l e : In e (proj i l) <-> In e l /\ item_of e = i.
Proof. unfold proj. rewrite filter_In, Nat.eqb_eq. tauto. Qed.

Lemma nodup_by_proj l : (forall i, NoDup (proj i l)) -> NoDup l.
Proof.
  induction l as [|[b i k] l IH]; intros H; [constructor|]. constructor.
  - intros I. specialize (H i). rewrite proj_cons_same in H. inversion H as [|? ? N _]; subst.
    apply N. apply proj_in. split; [exact I|reflexivity].
  - apply IH. intros j. specialize (H j). destruct (Nat.eq_dec i j) as [->|N].
    + rewrite proj_cons_same in H. now inversion H.
    + now rewrite proj_cons_other in H by exact N.
Qed.

Section Consequences.
  Variables (t : nat) (s : state).
  Hypothesis Sf : Safe t s.

  Lemma safe_shape i : shape t i (proj i (log s)).
  Proof. apply (sf_shape _ _ Sf). Qed.

  Lemma log_nodup : NoDup (log s).
  Proof. apply nodup_by_proj. intros i. eapply shape_nodup, safe_shape. Qed.

  Lemma log_event_range b i k : In (Ev b i k) (log s) -> 1 <= i < next_item s /\ k < t.
  Proof.
    intros I. assert (Ip : In (Ev b i k) (proj i (log s))) by (apply proj_in; split; [exact I|reflexivity]).
    destruct (shape_in _ _ _ _ (safe_shape i) Ip) as [_ Hk]. split; [|exact Hk].
    destruct (Nat.eq_dec i 0) as [->|N0].
    - rewrite (sf_fresh _ _ Sf 0) in Ip by auto. destruct Ip.
    - destruct (Nat.lt_ge_cases i (next_item s)) as [L|L]; [lia|].
      rewrite (sf_fresh _ _ Sf i) in Ip by auto. destruct Ip.
  Qed.

  Lemma log_order l1 e l2 :
    log s = l1 ++ e :: l2 ->
    match e with
    | Ev true i (S k) => In (End_ i k) l2
    | Ev true i O => True
    | Ev false i k => In (Start i k) l2
    end.
  Proof.
    intros E. destruct e as [b i k].
    assert (P : proj i (log s) = proj i l1 ++ Ev b i k :: proj i l2) by (rewrite E, proj_app, proj_cons_same; reflexivity).
    destruct (shape_suffix _ _ _ _ _ _ (safe_shape i) P) as [k' [_ [[E1 E2]|[E1 E2]]]].
    - injection E1 as -> ->. apply (proj_in i). rewrite E2. now left.
    - injection E1 as -> ->. destruct k' as [|k']; [exact I|]. apply (proj_in i). rewrite E2, done_upto_S. now left.
  Qed.
End Consequences.
