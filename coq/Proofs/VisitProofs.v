(* Proofs/VisitProofs.v - C18 / C02 engine clause.
     part A  the TRANSLATED RedirectTracker (Gen/Redirect.v, regenerated from wpull on every run)
             computes exactly the tracker functions used by Model/Visit.v, for all inputs
     part B  one visit: requests <= 2 * (max_redirects + 1), follow-ups <= max_redirects, one
             authentication retry per hop, every visit ends in a status, fuel suffices -
             for EVERY server strategy, verdict function and robots behaviour
     part C  one URL over the crawl: visits that send requests <= tries; a finished row is left alone
     part D  every request of a visit is directly preceded by a passing consult of exactly its URL,
             waived only after a redirect status with strong redirects on (C02) *)
From Coq Require Import List NArith ZArith Bool Lia Arith.
From Wpull Require Import Lib.MiniPy Gen.Redirect Model.Visit.
Import ListNotations.
Open Scope nat_scope.
Open Scope bool_scope.

(* ------------------------------------------------------------------ part A *)
Definition s_location : str := [108; 111; 99; 97; 116; 105; 111; 110]%N.

Definition mk_obj (c : cls) (l : list (attr * pv)) : pv := PObj c (fun a => assoc_attr a l).

Definition pv_tresp (p : tresp) : pv :=
  mk_obj C_Response
    [(A_fields, PDict (match tp_location p with Some l => [(PStr s_location, PStr l)] | None => [] end));
     (A_status_code, PInt (tp_status p));
     (A_request, mk_obj C_Request [(A_url_info, mk_obj C_URLInfo [(A_url, PStr (tp_url p))])])].

Definition pv_last (o : option tresp) : pv := match o with Some p => pv_tresp p | None => PNone end.

(* v is a RedirectTracker instance whose fields hold the state t *)
Definition tracker_repr (v : pv) (t : tracker) : Prop :=
  exists f, v = PObj C_RedirectTracker f /\
    f A__max_redirects = Some (PInt (t_max t)) /\
    f A__codes = Some (PTuple (map PInt (t_codes t))) /\
    f A__repeat_codes = Some (PTuple (map PInt (t_repeat t))) /\
    f A__response = Some (pv_last (t_last t)) /\
    f A__num_redirects = Some (PInt (t_num t)).

Lemma run_mut_S : forall O P m c mt args fd, P c mt = Some fd ->
  run_mut O P (S m) c mt args =
  match run_body O (run O P m) fd args with
  | Ok (v, E) => match E 0 with Some s => Ok (v, s) | None => Err UnboundLocal end
  | Err e => Err e
  end.
Proof. intros O P m c mt args fd H. cbn [run_mut]. rewrite H. reflexivity. Qed.
Lemma run_S : forall O P m c mt args fd, P c mt = Some fd ->
  run O P (S m) c mt args = match run_body O (run O P m) fd args with Ok (v, _) => Ok v | Err e => Err e end.
Proof. intros O P m c mt args fd H. cbn [run]. rewrite H. reflexivity. Qed.

Lemma in_list_ints : forall s l, in_list (PInt s) (map PInt l) = Ok (zmem s l).
Proof.
  induction l as [|x l IH]; cbn [map in_list zmem existsb]; [reflexivity|].
  cbn [py_eq as_int]. destruct (Z.eqb s x); cbn [orb]; [reflexivity|exact IH].
Qed.

Ltac redt := mp_reduce; cbn [pv_last tp_status tp_location tp_url t_max t_codes t_repeat t_num t_last
                              o_urljoin str_truthy s_location str_eqb].
Ltac fuel m := destruct m as [|m]; [lia|].

Section Tracker.
Variable O : oracles.
Notation runr := (run O redirect_prog).

Lemma tracker_new_ok : forall max m, (m >= 1)%nat ->
  exists v, runr m C_RedirectTracker M_new [PInt max; PTuple (map PInt REDIRECT_CODES); PTuple (map PInt REPEAT_REDIRECT_CODES)] = Ok v
            /\ tracker_repr v (new_tracker max).
Proof.
  intros max m Hm; fuel m. erewrite run_S by reflexivity. unfold RedirectTracker__new. redt.
  eexists; split; [reflexivity|]. eexists; split; [reflexivity|]. cbn. auto 10.
Qed.

(* the default codes of __init__ are the ones of the model *)
Lemma tracker_defaults_ok :
  RedirectTracker__defaults = [PInt 20; PTuple (map PInt REDIRECT_CODES); PTuple (map PInt REPEAT_REDIRECT_CODES)].
Proof. reflexivity. Qed.

Lemma py_getattr_repr : forall f a x, f a = Some x -> py_getattr (PObj C_RedirectTracker f) a = Ok x.
Proof. intros f a x H. cbn [py_getattr]. rewrite H. reflexivity. Qed.

Lemma raw_location_ok : forall v t m, (m >= 1)%nat -> tracker_repr v t ->
  runr m C_RedirectTracker M_next_location [v; PBool true]
  = Ok (match t_last t with
        | Some p => match tp_location p with Some l => PStr l | None => PNone end
        | None => PNone end).
Proof.
  intros v t m Hm (f & -> & F1 & F2 & F3 & F4 & F5); fuel m.
  erewrite run_S by reflexivity. unfold RedirectTracker__next_location. redt.
  rewrite ?F4. destruct (t_last t) as [p|]; redt; [|reflexivity].
  unfold pv_tresp at 1, mk_obj at 1. redt. rewrite ?F4. redt.
  unfold pv_tresp at 1, mk_obj at 1. redt.
  destruct (tp_location p) as [[|c l]|]; redt; reflexivity.
Qed.

Lemma tracker_load_ok : forall v t p m, (m >= 2)%nat -> tracker_repr v t ->
  exists x v', run_mut O redirect_prog m C_RedirectTracker M_load [v; pv_tresp p] = Ok (x, v')
               /\ tracker_repr v' (tr_load t p).
Proof.
  intros v t p m Hm Hr. pose proof Hr as (f & -> & F1 & F2 & F3 & F4 & F5); fuel m.
  erewrite run_mut_S by reflexivity. unfold RedirectTracker__load. redt.
  set (v1 := PObj C_RedirectTracker (fun b => if attr_eqb b A__response then Some (pv_tresp p) else f b)).
  assert (R1 : tracker_repr v1 {| t_max := t_max t; t_codes := t_codes t; t_repeat := t_repeat t;
                                  t_num := t_num t; t_last := Some p |}).
  { eexists; split; [reflexivity|]. cbn. auto 10. }
  rewrite (raw_location_ok v1 _ m ltac:(lia) R1). cbn [t_last].
  unfold tr_load.
  destruct (tp_location p) as [[|c l]|] eqn:EL; redt.
  - do 2 eexists; split; [reflexivity|exact R1].
  - subst v1. redt. rewrite F5. redt.
    do 2 eexists; split; [reflexivity|]. eexists; split; [reflexivity|]. cbn. rewrite ?EL. cbn. auto 10.
  - do 2 eexists; split; [reflexivity|exact R1].
Qed.

Ltac trk F1 F2 F3 F4 F5 :=
  repeat (first [ progress redt | rewrite F1 | rewrite F2 | rewrite F3 | rewrite F4 | rewrite F5
                | rewrite in_list_ints | progress unfold pv_tresp, mk_obj ]).

Lemma tracker_is_redirect_ok : forall v t m, (m >= 1)%nat -> tracker_repr v t ->
  exists x, runr m C_RedirectTracker M_is_redirect [v] = Ok x /\ truthy x = tr_is_redirect t.
Proof.
  intros v t m Hm (f & -> & F1 & F2 & F3 & F4 & F5); fuel m.
  erewrite run_S by reflexivity. unfold RedirectTracker__is_redirect, tr_is_redirect.
  destruct (t_last t) as [p|]; trk F1 F2 F3 F4 F5; [|eexists; split; reflexivity].
  destruct (zmem (tp_status p) (t_codes t)); trk F1 F2 F3 F4 F5; eexists; split; reflexivity.
Qed.

Lemma tracker_is_repeat_ok : forall v t m, (m >= 1)%nat -> tracker_repr v t ->
  exists x, runr m C_RedirectTracker M_is_repeat [v] = Ok x /\ truthy x = tr_is_repeat t.
Proof.
  intros v t m Hm (f & -> & F1 & F2 & F3 & F4 & F5); fuel m.
  erewrite run_S by reflexivity. unfold RedirectTracker__is_repeat, tr_is_repeat.
  destruct (t_last t) as [p|]; trk F1 F2 F3 F4 F5; eexists; split; reflexivity.
Qed.

Lemma tracker_exceeded_ok : forall v t m, (m >= 1)%nat -> tracker_repr v t ->
  runr m C_RedirectTracker M_exceeded [v] = Ok (PBool (tr_exceeded t)).
Proof.
  intros v t m Hm (f & -> & F1 & F2 & F3 & F4 & F5); fuel m.
  erewrite run_S by reflexivity. unfold RedirectTracker__exceeded, tr_exceeded.
  trk F1 F2 F3 F4 F5. reflexivity.
Qed.

Lemma tracker_count_ok : forall v t m, (m >= 1)%nat -> tracker_repr v t ->
  runr m C_RedirectTracker M_count [v] = Ok (PInt (t_num t)).
Proof.
  intros v t m Hm (f & -> & F1 & F2 & F3 & F4 & F5); fuel m.
  erewrite run_S by reflexivity. unfold RedirectTracker__count. trk F1 F2 F3 F4 F5. reflexivity.
Qed.

(* next_location(raw=False): None / '' when there is no usable Location, ValueError or the joined URL *)
Lemma tracker_next_location_ok : forall v t m, (m >= 1)%nat -> tracker_repr v t ->
  match tr_next_location (o_urljoin O) t with
  | NLNone => exists x, runr m C_RedirectTracker M_next_location [v; PBool false] = Ok x /\ truthy x = false
  | NLError => runr m C_RedirectTracker M_next_location [v; PBool false] = Err ValueError
  | NLUrl u => runr m C_RedirectTracker M_next_location [v; PBool false] = Ok (PStr u)
  end.
Proof.
  intros v t m Hm (f & -> & F1 & F2 & F3 & F4 & F5); fuel m.
  erewrite run_S by reflexivity. unfold RedirectTracker__next_location, tr_next_location.
  destruct (t_last t) as [p|]; trk F1 F2 F3 F4 F5; [|eexists; split; reflexivity].
  destruct (tp_location p) as [[|c l]|]; trk F1 F2 F3 F4 F5; try (eexists; split; reflexivity).
  destruct (o_urljoin O (tp_url p) (c :: l)); reflexivity.
Qed.

Theorem tracker_translated : forall v t p m, (m >= 2)%nat -> tracker_repr v t ->
  (exists x v', run_mut O redirect_prog m C_RedirectTracker M_load [v; pv_tresp p] = Ok (x, v')
                /\ tracker_repr v' (tr_load t p)) /\
  (exists x, runr m C_RedirectTracker M_is_redirect [v] = Ok x /\ truthy x = tr_is_redirect t) /\
  (exists x, runr m C_RedirectTracker M_is_repeat [v] = Ok x /\ truthy x = tr_is_repeat t) /\
  runr m C_RedirectTracker M_exceeded [v] = Ok (PBool (tr_exceeded t)) /\
  runr m C_RedirectTracker M_count [v] = Ok (PInt (t_num t)) /\
  match tr_next_location (o_urljoin O) t with
  | NLNone => exists x, runr m C_RedirectTracker M_next_location [v; PBool false] = Ok x /\ truthy x = false
  | NLError => runr m C_RedirectTracker M_next_location [v; PBool false] = Err ValueError
  | NLUrl u => runr m C_RedirectTracker M_next_location [v; PBool false] = Ok (PStr u)
  end.
Proof.
  intros v t p m Hm Hr.
  split; [apply tracker_load_ok; assumption|].
  split; [apply tracker_is_redirect_ok; [lia|assumption]|].
  split; [apply tracker_is_repeat_ok; [lia|assumption]|].
  split; [apply tracker_exceeded_ok; [lia|assumption]|].
  split; [apply tracker_count_ok; [lia|assumption]|].
  apply tracker_next_location_ok; [lia|assumption].
Qed.
End Tracker.

(* ------------------------------------------------------------------ part B *)
Open Scope Z_scope.

Definition hops_left (w : wsess) : nat := Z.to_nat (t_max (ws_tr w) - t_num (ws_tr w)).
Definition is_auth (l : loop_type) : bool := loop_eqb l LAuth.
Definition is_redir (l : loop_type) : bool := loop_eqb l LRedirect.
Definition is_normal (l : loop_type) : bool := loop_eqb l LNormal.
Definition b2n (b : bool) : nat := if b then 1%nat else 0%nat.

(* requests still possible from a session state *)
Definition pot (w : wsess) : nat := (2 * (hops_left w + 1) - b2n (is_auth (ws_loop w)))%nat.

Section VisitBounds.
  Variable urljoin : vstr -> vstr -> option vstr.
  Variable parseable : vstr -> bool.
  Variable cfg : config.
  Variable consult : vstr -> bool -> bool.
  Variable robots : vstr -> robots_result.
  Variable server : list req -> sresp.

  Notation loop' := (loop urljoin parseable cfg consult robots server).

  Lemma count_requests_app : forall a b, count_requests (a ++ b) = (count_requests a + count_requests b)%nat.
  Proof. intros. unfold count_requests. rewrite filter_app, app_length. reflexivity. Qed.
  Lemma count_kind_app : forall k a b, count_kind k (a ++ b) = (count_kind k a + count_kind k b)%nat.
  Proof. intros. unfold count_kind. rewrite filter_app, app_length. reflexivity. Qed.

  (* what _process_response can do to the session, as far as the bounds care *)
  Lemma process_response_cases : forall w rq status location w',
    process_response urljoin parseable w rq status location = POk w' ->
    (* followed a redirect *)
    (ws_loop w' = LRedirect /\ tr_is_redirect (ws_tr w') = true /\ ws_next w' <> None /\
     t_max (ws_tr w') = t_max (ws_tr w) /\ t_num (ws_tr w') = t_num (ws_tr w) + 1 /\
     t_num (ws_tr w') <= t_max (ws_tr w') /\ ws_orig w' = ws_orig w /\
     (forall rq', ws_next w' = Some rq' -> rq_pw rq' = true -> zmem status (t_repeat (ws_tr w)) = true /\ rq_pw (ws_orig w) = true)) \/
    (* authentication retry *)
    (ws_loop w' = LAuth /\ tr_is_redirect (ws_tr w') = false /\ ws_next w' = Some rq /\ ws_loop w <> LAuth /\ rq_pw rq = true /\
     t_max (ws_tr w') = t_max (ws_tr w) /\ t_num (ws_tr w) <= t_num (ws_tr w') /\ ws_orig w' = ws_orig w) \/
    (* final response *)
    (ws_loop w' = LNormal /\ tr_is_redirect (ws_tr w') = false /\ ws_next w' = None).
  Proof.
    intros w rq status location w' H. unfold process_response in H.
    set (tr := tr_load (ws_tr w) {| tp_status := status; tp_location := location; tp_url := rq_url rq |}) in *.
    assert (Hmax : t_max tr = t_max (ws_tr w)) by reflexivity.
    assert (Hrep : t_repeat tr = t_repeat (ws_tr w)) by reflexivity.
    destruct (tr_is_redirect tr) eqn:Hred.
    - destruct (tr_exceeded tr) eqn:Hex; [discriminate|].
      unfold tr_next_location in H. cbn [tr t_last tr_load tp_location tp_url] in H.
      destruct location as [[|c l]|]; try discriminate.
      destruct (urljoin (rq_url rq) (c :: l)) as [[|c' l']|]; try discriminate.
      destruct (parseable (c' :: l')); [|discriminate].
      inversion H; subst w'; clear H. cbn [ws_loop ws_tr ws_next ws_orig]. left.
      unfold tr_exceeded in Hex. cbn [tr t_num t_max tr_load str_truthy tp_location] in *.
      split; [reflexivity|]. split; [exact Hred|]. split; [discriminate|]. split; [reflexivity|].
      split; [reflexivity|]. split; [lia|]. split; [reflexivity|].
      intros rq' Hn Hp. inversion Hn; subst rq'; clear Hn.
      unfold tr_is_repeat in Hp. cbn [tr t_last tr_load tp_status t_repeat] in Hp.
      destruct (zmem status (t_repeat (ws_tr w))); [cbn in Hp; auto|discriminate].
    - destruct ((status =? 401) && rq_pw rq) eqn:Ha.
      + apply andb_true_iff in Ha as [_ Hpw].
        destruct (ws_loop w) eqn:Hl; inversion H; subst w'; clear H; cbn [ws_loop ws_tr ws_next ws_orig].
        * right; left. repeat split; try assumption; try discriminate.
          cbn [tr tr_load t_num]. destruct (str_truthy _); lia.
        * right; left. repeat split; try assumption; try discriminate.
          cbn [tr tr_load t_num]. destruct (str_truthy _); lia.
        * right; right. repeat split; assumption.
      + inversion H; subst w'; clear H. right; right. cbn [ws_loop ws_tr ws_next]. repeat split; assumption.
  Qed.

  Lemma process_response_tr : forall w rq status location w',
    process_response urljoin parseable w rq status location = POk w' ->
    ws_tr w' = tr_load (ws_tr w) {| tp_status := status; tp_location := location; tp_url := rq_url rq |}.
  Proof.
    intros w rq status location w' H. unfold process_response in H.
    destruct (tr_is_redirect _).
    - destruct (tr_exceeded _); [discriminate|].
      destruct (tr_next_location _ _) as [| |[|c l]]; try discriminate.
      destruct (parseable _); inversion H; reflexivity.
    - destruct (_ && _); [destruct (ws_loop w)|]; inversion H; reflexivity.
  Qed.

  (* the kinds partition the requests *)
  Lemma count_requests_kinds : forall ev,
    count_requests ev = (count_kind KInitial ev + count_kind KFollowup ev + count_kind KAuthRetry ev)%nat.
  Proof.
    induction ev as [|e ev IH]; [reflexivity|].
    unfold count_requests, count_kind in *. cbn [List.filter].
    destruct e as [u w v|u|k rq|s]; cbn [is_request is_kind]; try exact IH.
    destruct k; cbn [List.length]; lia.
  Qed.

  Definition pre_events (w : wsess) (hist : list req) (rq : req) : list event :=
    EConsult (rq_url rq) (c_strong_redirects cfg && tr_is_redirect (ws_tr w)) true
      :: robots_events cfg robots hist rq ++ [ERequest (kind_of (ws_loop w)) rq].

  (* the visit stops at the robots.txt check of a later request (redirect target): no request *)
  Definition robots_stop (w : wsess) (rq : req) (s : vstatus) : list event :=
    [EConsult (rq_url rq) (c_strong_redirects cfg && tr_is_redirect (ws_tr w)) true; ERobots (rq_url rq); EStatus s].

  (* one unfolding of the loop, as a case list *)
  Lemma loop_step : forall f w hist ev r, loop' (S f) w hist = (ev, r) ->
    (ws_next w = None /\ ev = [EStatus VSkipped] /\ r = Some VSkipped) \/
    (exists rq, ws_next w = Some rq /\
       let waived := c_strong_redirects cfg && tr_is_redirect (ws_tr w) in
       ((consult (rq_url rq) waived = false /\ ev = [EConsult (rq_url rq) waived false; EStatus VSkipped] /\ r = Some VSkipped) \/
        (consult (rq_url rq) waived = true /\
          ((exists s, ev = robots_stop w rq s /\ r = Some s /\ hist <> [] /\ c_robots cfg = true /\
                      ((s = VError /\ robots (rq_url rq) = RFail) \/ (s = VSkipped /\ robots (rq_url rq) = RDeny))) \/
           (exists s, ev = pre_events w hist rq ++ [EStatus s] /\ r = Some s /\
                      (s = VError \/ exists status location w', server (hist ++ [rq]) = Resp status location /\
                         process_response urljoin parseable w rq status location = POk w' /\ ws_next w' = None)) \/
           (exists status location w' ev', server (hist ++ [rq]) = Resp status location /\
              process_response urljoin parseable w rq status location = POk w' /\ ws_next w' <> None /\
              loop' f w' (hist ++ [rq]) = (ev', r) /\ ev = pre_events w hist rq ++ ev'))))).
  Proof.
    intros f w hist ev r H. cbn [loop] in H.
    destruct (ws_next w) as [rq|] eqn:Hn; [right; exists rq; split; [reflexivity|] | left; inversion H; auto].
    cbn zeta.
    destruct (consult (rq_url rq) (c_strong_redirects cfg && tr_is_redirect (ws_tr w))) eqn:Hc; cbn [negb] in H.
    2:{ left. inversion H; auto. }
    right. split; [reflexivity|].
    assert (Hstop : forall x, hop_robots cfg robots hist rq = Some x -> hist <> [] /\ c_robots cfg = true /\ robots (rq_url rq) = x).
    { intros x E. unfold hop_robots in E. destruct hist; [discriminate|]. destruct (c_robots cfg); [|discriminate].
      inversion E. repeat split. discriminate. }
    assert (Hgo : (match hop_robots cfg robots hist rq with Some RFail | Some RDeny => False | _ => True end) ->
      (let pre := EConsult (rq_url rq) (c_strong_redirects cfg && tr_is_redirect (ws_tr w)) true
                   :: robots_events cfg robots hist rq ++ [ERequest (kind_of (ws_loop w)) rq] in
       match server (hist ++ [rq]) with
       | Fail => (pre ++ [EStatus VError], Some VError)
       | Resp status location =>
           match process_response urljoin parseable w rq status location with
           | PProtocolError => (pre ++ [EStatus VError], Some VError)
           | POk w' =>
               if tr_is_redirect (ws_tr w') || loop_eqb (ws_loop w') LAuth
               then let (ev, r) := loop' f w' (hist ++ [rq]) in (pre ++ ev, r)
               else (pre ++ [EStatus (final_status cfg status)], Some (final_status cfg status))
           end
       end) = (ev, r) ->
      (exists s, ev = pre_events w hist rq ++ [EStatus s] /\ r = Some s /\
                      (s = VError \/ exists status location w', server (hist ++ [rq]) = Resp status location /\
                         process_response urljoin parseable w rq status location = POk w' /\ ws_next w' = None)) \/
           (exists status location w' ev', server (hist ++ [rq]) = Resp status location /\
              process_response urljoin parseable w rq status location = POk w' /\ ws_next w' <> None /\
              loop' f w' (hist ++ [rq]) = (ev', r) /\ ev = pre_events w hist rq ++ ev')).
    { intros _ H'. cbn zeta in H'. fold (pre_events w hist rq) in H'.
      destruct (server (hist ++ [rq])) as [status location|] eqn:Hs.
      2:{ left. exists VError. inversion H'. auto. }
      destruct (process_response urljoin parseable w rq status location) as [w'|] eqn:Hp.
      2:{ left. exists VError. inversion H'. auto. }
      destruct (process_response_cases _ _ _ _ _ Hp) as [C|[C|C]].
      - destruct C as (Hl & Hr & Hnn & _). rewrite Hr in H'. cbn [orb] in H'.
        destruct (loop' f w' (hist ++ [rq])) as [ev' r'] eqn:Hloop. inversion H'; subst.
        right. exists status, location, w', ev'. auto.
      - destruct C as (Hl & Hr & Hnn & _). rewrite Hr, Hl in H'. cbn [orb loop_eqb] in H'.
        destruct (loop' f w' (hist ++ [rq])) as [ev' r'] eqn:Hloop. inversion H'; subst.
        right. exists status, location, w', ev'. repeat split; auto. rewrite Hnn; discriminate.
      - destruct C as (Hl & Hr & Hnn). rewrite Hr, Hl in H'. cbn [orb loop_eqb] in H'.
        left. exists (final_status cfg status). inversion H'; subst. repeat split.
        right. exists status, location, w'. auto. }
    destruct (hop_robots cfg robots hist rq) as [[| |]|] eqn:Hh.
    - right. apply Hgo; [exact I|exact H].
    - left. destruct (Hstop _ eq_refl) as (A & B & C). exists VSkipped. inversion H. unfold robots_stop. auto 8.
    - left. destruct (Hstop _ eq_refl) as (A & B & C). exists VError. inversion H. unfold robots_stop. auto 8.
    - right. apply Hgo; [exact I|exact H].
  Qed.

  Lemma count_requests_robots_events : forall hist rq, count_requests (robots_events cfg robots hist rq) = 0%nat.
  Proof. intros. unfold robots_events. destruct (hop_robots _ _ _ _); reflexivity. Qed.
  Lemma count_kind_robots_events : forall k hist rq, count_kind k (robots_events cfg robots hist rq) = 0%nat.
  Proof. intros. unfold robots_events. destruct (hop_robots _ _ _ _); destruct k; reflexivity. Qed.
  Lemma count_pre : forall w hist rq, count_requests (pre_events w hist rq) = 1%nat.
  Proof.
    intros. unfold pre_events. change (EConsult ?u ?b true :: ?l) with ([EConsult u b true] ++ l).
    rewrite !count_requests_app, count_requests_robots_events. reflexivity.
  Qed.
  Lemma count_kind_pre : forall k w hist rq, count_kind k (pre_events w hist rq) =
    b2n (match k, ws_loop w with KInitial, LNormal | KFollowup, LRedirect | KAuthRetry, LAuth => true | _, _ => false end).
  Proof.
    intros k w hist rq. unfold pre_events. change (EConsult ?u ?b true :: ?l) with ([EConsult u b true] ++ l).
    rewrite !count_kind_app, count_kind_robots_events. unfold count_kind. cbn. destruct k, (ws_loop w); reflexivity.
  Qed.
  Lemma count_robots_stop : forall w rq s, count_requests (robots_stop w rq s) = 0%nat.
  Proof. reflexivity. Qed.
  Lemma count_kind_robots_stop : forall k w rq s, count_kind k (robots_stop w rq s) = 0%nat.
  Proof. intros. destruct k; reflexivity. Qed.

  (* B1: the main bounds, for every server, by induction on the fuel *)
  Theorem loop_bounds : forall f w hist ev r, loop' f w hist = (ev, r) ->
    (count_requests ev <= pot w)%nat /\
    (count_kind KFollowup ev <= hops_left w + b2n (is_redir (ws_loop w)))%nat /\
    (count_kind KAuthRetry ev <= hops_left w + 1)%nat /\
    (count_kind KInitial ev <= b2n (is_normal (ws_loop w)))%nat.
  Proof.
    induction f as [|f IH]; intros w hist ev r H.
    { inversion H; subst. cbn. repeat split; lia. }
    destruct (loop_step _ _ _ _ _ H) as [(Hn & -> & ->)|(rq & Hn & [(Hc & -> & ->)|(Hc & [(s0 & -> & -> & _)|[(s & -> & -> & _)|(status & location & w' & ev' & Hs & Hp & Hnn & Hl & ->)]])])].
    - cbn. repeat split; lia.
    - cbn. repeat split; lia.
    - rewrite count_robots_stop, !count_kind_robots_stop. repeat split; lia.
    - rewrite count_requests_app, !count_kind_app, count_pre, !count_kind_pre.
      unfold pot. cbn [count_requests count_kind List.filter is_request is_kind List.length].
      destruct (ws_loop w); cbn [b2n is_auth is_redir is_normal loop_eqb]; repeat split; lia.
    - specialize (IH _ _ _ _ Hl) as (I1 & I2 & I3 & I4).
      rewrite count_requests_app, !count_kind_app, count_pre, !count_kind_pre.
      destruct (process_response_cases _ _ _ _ _ Hp) as [C|[C|C]].
      + destruct C as (Hl' & _ & _ & Hmax & Hnum & Hle & _).
        unfold pot, hops_left in *. rewrite Hl' in *. rewrite Hmax, Hnum in *.
        cbn [b2n is_auth is_redir is_normal loop_eqb] in *.
        assert (Z.to_nat (t_max (ws_tr w) - (t_num (ws_tr w) + 1)) + 1 = Z.to_nat (t_max (ws_tr w) - t_num (ws_tr w)))%nat by lia.
        destruct (ws_loop w); cbn [b2n is_auth is_redir is_normal loop_eqb]; repeat split; lia.
      + destruct C as (Hl' & _ & _ & Hnl & _ & Hmax & Hnum & _).
        unfold pot, hops_left in *. rewrite Hl' in *. rewrite Hmax in *.
        cbn [b2n is_auth is_redir is_normal loop_eqb] in *.
        assert (Z.to_nat (t_max (ws_tr w) - t_num (ws_tr w')) <= Z.to_nat (t_max (ws_tr w) - t_num (ws_tr w)))%nat by lia.
        destruct (ws_loop w); try congruence; cbn [b2n is_auth is_redir is_normal loop_eqb]; repeat split; lia.
      + destruct C as (_ & _ & Hnone). contradiction.
  Qed.

  (* B2: enough fuel - the loop never runs out *)
  Theorem loop_fuel : forall f w hist, (f > pot w)%nat -> snd (loop' f w hist) <> None.
  Proof.
    induction f as [|f IH]; intros w hist Hf; [lia|].
    destruct (loop' (S f) w hist) as [ev r] eqn:H. cbn [snd].
    destruct (loop_step _ _ _ _ _ H) as [(Hn & -> & ->)|(rq & Hn & [(Hc & -> & ->)|(Hc & [(s0 & -> & -> & _)|[(s & -> & -> & _)|(status & location & w' & ev' & Hs & Hp & Hnn & Hl & ->)]])])];
      try discriminate.
    assert (Hpot : (pot w' < pot w)%nat).
    { destruct (process_response_cases _ _ _ _ _ Hp) as [C|[C|C]].
      - destruct C as (Hl' & _ & _ & Hmax & Hnum & Hle & _).
        unfold pot, hops_left. rewrite Hl', Hmax, Hnum. cbn [b2n is_auth loop_eqb].
        assert (Z.to_nat (t_max (ws_tr w) - (t_num (ws_tr w) + 1)) + 1 = Z.to_nat (t_max (ws_tr w) - t_num (ws_tr w)))%nat by lia.
        destruct (ws_loop w); cbn [b2n is_auth loop_eqb]; lia.
      - destruct C as (Hl' & _ & _ & Hnl & _ & Hmax & Hnum & _).
        unfold pot, hops_left. rewrite Hl', Hmax. cbn [b2n is_auth loop_eqb].
        assert (Z.to_nat (t_max (ws_tr w) - t_num (ws_tr w')) <= Z.to_nat (t_max (ws_tr w) - t_num (ws_tr w)))%nat by lia.
        destruct (ws_loop w); try congruence; cbn [b2n is_auth loop_eqb]; lia.
      - destruct C as (_ & _ & Hnone). contradiction. }
    specialize (IH w' (hist ++ [rq]) ltac:(lia)). rewrite Hl in IH. exact IH.
  Qed.

  Lemma pre_events_no_status : forall w hist rq,
    forallb (fun e => match e with EStatus _ => false | _ => true end) (pre_events w hist rq) = true.
  Proof. intros. unfold pre_events, robots_events. destruct (hop_robots _ _ _ _); reflexivity. Qed.

  (* B3: a visit that ends, ends in exactly one status event, the last one *)
  Theorem loop_ends_in_status : forall f w hist ev s, loop' f w hist = (ev, Some s) ->
    exists ev0, ev = ev0 ++ [EStatus s] /\ forallb (fun e => match e with EStatus _ => false | _ => true end) ev0 = true.
  Proof.
    induction f as [|f IH]; intros w hist ev s H; [inversion H|].
    destruct (loop_step _ _ _ _ _ H) as [(Hn & -> & Hr)|(rq & Hn & [(Hc & -> & Hr)|(Hc & [(s0 & -> & Hr & _)|[(s' & -> & Hr & _)|(status & location & w' & ev' & Hs & Hp & Hnn & Hl & ->)]])])].
    - inversion Hr; subst. exists []. split; reflexivity.
    - inversion Hr; subst. eexists [_]. split; reflexivity.
    - inversion Hr; subst. eexists [_; _]. split; reflexivity.
    - inversion Hr; subst. exists (pre_events w hist rq). split; [reflexivity|]. apply pre_events_no_status.
    - destruct (IH _ _ _ _ Hl) as (ev0 & -> & Hall). exists (pre_events w hist rq ++ ev0).
      split; [rewrite app_assoc; reflexivity|]. rewrite forallb_app, Hall, pre_events_no_status. reflexivity.
  Qed.

  (* B4: without 307/308 answers (or without a password) at most ONE authentication retry *)
  Definition no_repeat_answers : Prop :=
    forall h status location, server h = Resp status location -> zmem status REPEAT_REDIRECT_CODES = false.

  Definition auth_budget (w : wsess) : nat :=
    match ws_loop w with
    | LAuth => 1%nat
    | _ => match ws_next w with Some rq => b2n (rq_pw rq) | None => 0%nat end
    end.

  Theorem loop_one_auth_retry : forall f w hist ev r,
    (no_repeat_answers \/ rq_pw (ws_orig w) = false) -> t_repeat (ws_tr w) = REPEAT_REDIRECT_CODES ->
    loop' f w hist = (ev, r) -> (count_kind KAuthRetry ev <= auth_budget w)%nat.
  Proof.
    induction f as [|f IH]; intros w hist ev r G Hrep H.
    { inversion H; subst. cbn. lia. }
    destruct (loop_step _ _ _ _ _ H) as [(Hn & -> & ->)|(rq & Hn & [(Hc & -> & ->)|(Hc & [(s0 & -> & -> & _)|[(s & -> & -> & _)|(status & location & w' & ev' & Hs & Hp & Hnn & Hl & ->)]])])].
    - cbn. lia.
    - cbn. lia.
    - rewrite count_kind_robots_stop. lia.
    - rewrite count_kind_app, count_kind_pre. unfold auth_budget. rewrite Hn.
      destruct (ws_loop w); cbn; lia.
    - rewrite count_kind_app, count_kind_pre.
      destruct (process_response_cases _ _ _ _ _ Hp) as [C|[C|C]].
      + destruct C as (Hl' & _ & _ & Hmax & _ & _ & Ho & Hpw).
        assert (Hrep' : t_repeat (ws_tr w') = REPEAT_REDIRECT_CODES)
          by (rewrite (process_response_tr _ _ _ _ _ Hp); exact Hrep).
        assert (G' : no_repeat_answers \/ rq_pw (ws_orig w') = false) by (rewrite Ho; exact G).
        specialize (IH _ _ _ _ G' Hrep' Hl).
        assert (Hb : auth_budget w' = 0%nat).
        { unfold auth_budget. rewrite Hl'. destruct (ws_next w') as [rq'|] eqn:Hn'; [|reflexivity].
          destruct (rq_pw rq') eqn:Hpw'; [|reflexivity]. exfalso.
          destruct (Hpw rq' eq_refl Hpw') as (Hz & Hop). rewrite Hrep in Hz.
          destruct G as [G|G]; [rewrite (G _ _ _ Hs) in Hz; discriminate | congruence]. }
        unfold auth_budget at 1. rewrite Hn. destruct (ws_loop w); cbn [b2n]; lia.
      + destruct C as (Hl' & _ & Hn' & Hnl & Hpw & _ & _ & Ho).
        assert (Hrep' : t_repeat (ws_tr w') = REPEAT_REDIRECT_CODES)
          by (rewrite (process_response_tr _ _ _ _ _ Hp); exact Hrep).
        assert (G' : no_repeat_answers \/ rq_pw (ws_orig w') = false) by (rewrite Ho; exact G).
        specialize (IH _ _ _ _ G' Hrep' Hl). unfold auth_budget in *. rewrite Hl' in IH. rewrite Hn, Hpw.
        destruct (ws_loop w); try congruence; cbn [b2n]; lia.
      + destruct C as (_ & _ & Hnone). contradiction.
  Qed.

  (* ---- the whole visit (WebProcessorSession.process) ---- *)
  Notation process' := (process_item urljoin parseable cfg consult robots server).

  Lemma process_item_cases : forall fuel u ev r, process' fuel u = (ev, r) ->
    (consult u false = false /\ ev = [EConsult u false false; EStatus VSkipped] /\ r = Some VSkipped) \/
    (consult u false = true /\ c_robots cfg = true /\ robots u = RFail /\ ev = [EConsult u false true; ERobots u; EStatus VError] /\ r = Some VError) \/
    (consult u false = true /\ c_robots cfg = true /\ robots u = RDeny /\ ev = [EConsult u false true; ERobots u; EStatus VSkipped] /\ r = Some VSkipped) \/
    (consult u false = true /\ exists ev', loop' fuel (new_session {| rq_url := u; rq_pw := c_password cfg |} (c_max_redirects cfg)) [] = (ev', r) /\
       ((c_robots cfg = true /\ robots u = RAllow /\ ev = EConsult u false true :: ERobots u :: ev') \/
        (c_robots cfg = false /\ ev = EConsult u false true :: ev'))).
  Proof.
    intros fuel u ev r H. unfold process_item in H.
    destruct (consult u false) eqn:Hc; cbn [negb] in H; [|left; inversion H; auto].
    right.
    destruct (loop' fuel _ []) as [ev' r'] eqn:Hl.
    destruct (c_robots cfg) eqn:Hr.
    - destruct (robots u) eqn:Hro; inversion H; subst.
      + right; right. split; [reflexivity|]. exists ev'. auto.
      + right; left. auto.
      + left. auto.
    - inversion H; subst. right; right. split; [reflexivity|]. exists ev'. auto.
  Qed.

  Lemma pot_new_session : forall rq max, pot (new_session rq max) = (2 * (Z.to_nat max + 1))%nat.
  Proof. intros. unfold pot, hops_left, new_session. cbn. rewrite Z.sub_0_r. lia. Qed.

  Lemma count_cons_nonreq : forall e ev, is_request e = false -> count_requests (e :: ev) = count_requests ev.
  Proof. intros e ev H. unfold count_requests. cbn [List.filter]. rewrite H. reflexivity. Qed.
  Lemma count_kind_cons_nonreq : forall k e ev, is_request e = false -> count_kind k (e :: ev) = count_kind k ev.
  Proof.
    intros k e ev H. unfold count_kind. cbn [List.filter].
    destruct e; try discriminate; cbn [is_kind]; destruct k; reflexivity.
  Qed.

  (* C18, clause 1: whatever the server answers, a visit sends at most 2 * (max_redirects + 1)
     requests, of which at most max_redirects are redirect follow-ups, at most one is the
     initial request and at most max_redirects + 1 are authentication retries *)
  Theorem visit_request_bound : forall fuel u ev r, process' fuel u = (ev, r) ->
    (count_requests ev <= 2 * (Z.to_nat (c_max_redirects cfg) + 1))%nat /\
    (count_kind KFollowup ev <= Z.to_nat (c_max_redirects cfg))%nat /\
    (count_kind KInitial ev <= 1)%nat /\
    (count_kind KAuthRetry ev <= Z.to_nat (c_max_redirects cfg) + 1)%nat.
  Proof.
    intros fuel u ev r H.
    destruct (process_item_cases _ _ _ _ H) as [(_ & -> & _)|[(_ & _ & _ & -> & _)|[(_ & _ & _ & -> & _)|(_ & ev' & Hl & Hev)]]];
      try (cbn; repeat split; lia).
    destruct (loop_bounds _ _ _ _ _ Hl) as (I1 & I2 & I3 & I4).
    rewrite pot_new_session in I1. unfold hops_left, new_session in *. cbn in I2, I3, I4. rewrite Z.sub_0_r in *.
    destruct Hev as [(_ & _ & ->)|(_ & ->)];
      rewrite ?count_cons_nonreq, ?count_kind_cons_nonreq by reflexivity; repeat split; lia.
  Qed.

  (* the bound of the property TEXT (follow-ups + the initial request + ONE authentication retry)
     holds when the server never answers 307/308 or no password is configured *)
  Theorem visit_request_bound_text : forall fuel u ev r,
    (no_repeat_answers \/ c_password cfg = false) ->
    process' fuel u = (ev, r) ->
    (count_kind KAuthRetry ev <= 1)%nat /\ (count_requests ev <= Z.to_nat (c_max_redirects cfg) + 2)%nat.
  Proof.
    intros fuel u ev r G H.
    destruct (visit_request_bound _ _ _ _ H) as (_ & B2 & B3 & _).
    assert (A : (count_kind KAuthRetry ev <= 1)%nat).
    { destruct (process_item_cases _ _ _ _ H) as [(_ & -> & _)|[(_ & _ & _ & -> & _)|[(_ & _ & _ & -> & _)|(_ & ev' & Hl & Hev)]]];
        try (cbn; lia).
      assert (A' : (count_kind KAuthRetry ev' <= auth_budget (new_session {| rq_url := u; rq_pw := c_password cfg |} (c_max_redirects cfg)))%nat).
      { eapply loop_one_auth_retry; [|reflexivity|exact Hl]. exact G. }
      unfold auth_budget, new_session in A'. cbn in A'.
      destruct Hev as [(_ & _ & ->)|(_ & ->)]; rewrite ?count_kind_cons_nonreq by reflexivity;
        destruct (c_password cfg); cbn in A'; lia. }
    split; [exact A|]. rewrite count_requests_kinds. lia.
  Qed.

  (* C18, clause "every visit ends": with visit_fuel the visit never runs out of fuel, and it ends
     in exactly one status event, the last one *)
  Theorem visit_ends : forall u, exists ev s ev0,
    process' (visit_fuel (c_max_redirects cfg)) u = (ev, Some s) /\ ev = ev0 ++ [EStatus s] /\
    forallb (fun e => match e with EStatus _ => false | _ => true end) ev0 = true.
  Proof.
    intros u. destruct (process' (visit_fuel (c_max_redirects cfg)) u) as [ev r] eqn:H.
    destruct (process_item_cases _ _ _ _ H) as [(_ & -> & ->)|[(_ & _ & _ & -> & ->)|[(_ & _ & _ & -> & ->)|(_ & ev' & Hl & Hev)]]].
    - do 2 eexists. eexists [_]. repeat split.
    - do 2 eexists. eexists [_; _]. repeat split.
    - do 2 eexists. eexists [_; _]. repeat split.
    - assert (Hr : r <> None).
      { pose proof (loop_fuel (visit_fuel (c_max_redirects cfg)) (new_session {| rq_url := u; rq_pw := c_password cfg |} (c_max_redirects cfg)) []) as F.
        rewrite pot_new_session in F. rewrite Hl in F. apply F. unfold visit_fuel. lia. }
      destruct r as [s|]; [|contradiction].
      destruct (loop_ends_in_status _ _ _ _ _ Hl) as (ev0 & -> & Hall).
      destruct Hev as [(_ & _ & ->)|(_ & ->)].
      + exists (EConsult u false true :: ERobots u :: ev0 ++ [EStatus s]), s, (EConsult u false true :: ERobots u :: ev0).
        repeat split. cbn [forallb]. exact Hall.
      + exists (EConsult u false true :: ev0 ++ [EStatus s]), s, (EConsult u false true :: ev0).
        repeat split. cbn [forallb]. exact Hall.
  Qed.
End VisitBounds.

(* ------------------------------------------------------------------ part C *)
Section ItemBounds.
  Variable urljoin : vstr -> vstr -> option vstr.
  Variable parseable : vstr -> bool.
  Variable cfg : config.
  Variable consult_tc : Z -> vstr -> bool -> bool.
  Variable u : vstr.
  Variable tries : Z.
  (* the retry rule: once try_count has reached the limit no consult passes - this is what the
     TRANSLATED TriesFilter, put into the list by the translated builder iff tries <> 0, gives
     (Proofs/FilterProofs.v: consult_built_meets_scope + tries_spec, also under the waiver) *)
  Hypothesis tries_rule : forall tc url w, tries <= tc -> consult_tc tc url w = false.

  Notation visit' := (visit_item urljoin parseable cfg consult_tc u).
  Notation visits' := (visits urljoin parseable cfg consult_tc u).

  Lemma visit_item_cases : forall env i i' ev, visit' env i = (i', ev) ->
    (checked_out i = false /\ i' = i /\ ev = []) \/
    (checked_out i = true /\ it_tries i' = it_tries i + 1 /\
     (count_requests ev <= 2 * (Z.to_nat (c_max_redirects cfg) + 1))%nat /\
     (tries <= it_tries i -> count_requests ev = 0%nat /\ it_status i' = ISkipped) /\
     exists s, it_status i' = istatus_of s).
  Proof.
    intros [ro sv] i i' ev H. unfold visit_item in H. cbn [fst snd] in H.
    destruct (checked_out i) eqn:Hc; [right|left; inversion H; auto].
    destruct (visit_ends urljoin parseable cfg (consult_tc (it_tries i)) ro sv u) as (ev1 & s & ev0 & Hp & _).
    rewrite Hp in H. inversion H; subst; clear H. cbn [it_tries it_status].
    split; [reflexivity|]. split; [reflexivity|].
    split; [apply (visit_request_bound _ _ _ _ _ _ _ _ _ _ Hp)|].
    split; [|exists s; reflexivity].
    intros Ht. unfold process_item in Hp. rewrite (tries_rule _ u false Ht) in Hp. cbn [negb] in Hp.
    inversion Hp; subst. split; reflexivity.
  Qed.

  (* C18, clause 2: however the servers behave at the successive check-outs, at most [tries]
     visits of the URL send any request *)
  Theorem tries_bound : forall envs i i' evs, visits' envs i = (i', evs) ->
    (visits_with_requests evs <= Z.to_nat (tries - it_tries i))%nat /\
    (total_requests evs <= Z.to_nat (tries - it_tries i) * (2 * (Z.to_nat (c_max_redirects cfg) + 1)))%nat.
  Proof.
    induction envs as [|e envs IH]; intros i i' evs H; cbn [visits] in H.
    { inversion H; subst. split; apply Nat.le_0_l. }
    destruct (visit' e i) as [i1 ev] eqn:Hv. destruct (visits' envs i1) as [i2 evs'] eqn:Hvs.
    inversion H; subst; clear H. specialize (IH _ _ _ Hvs) as (I1 & I2).
    unfold visits_with_requests, total_requests in *. cbn [List.filter fold_right].
    destruct (visit_item_cases _ _ _ _ Hv) as [(Hc & -> & ->)|(Hc & Ht & Hb & Hz & _)].
    - cbn. split; lia.
    - rewrite Ht in *. destruct (Z_le_gt_dec tries (it_tries i)) as [Hle|Hgt].
      + destruct (Hz Hle) as (Hz0 & _). unfold nonempty_requests at 1. rewrite Hz0. cbn [Nat.eqb negb].
        replace (Z.to_nat (tries - it_tries i)) with 0%nat by lia.
        replace (Z.to_nat (tries - (it_tries i + 1))) with 0%nat in * by lia. split; lia.
      + assert (E : Z.to_nat (tries - it_tries i) = S (Z.to_nat (tries - (it_tries i + 1)))) by lia.
        rewrite E. destruct (nonempty_requests ev); cbn [List.length]; split; nia.
  Qed.

  (* ... and then it is left alone: a done / skipped row is never visited again, and a row whose
     try_count has reached the limit is skipped (final) at its next check-out *)
  Theorem final_left_alone : forall envs i, checked_out i = false ->
    visits' envs i = (i, map (fun _ => []) envs).
  Proof.
    induction envs as [|e envs IH]; intros i Hc; cbn [visits map]; [reflexivity|].
    unfold visit_item at 1. rewrite Hc. rewrite (IH i Hc). reflexivity.
  Qed.

  Theorem exhausted_is_skipped : forall env i, checked_out i = true -> tries <= it_tries i ->
    it_status (fst (visit' env i)) = ISkipped /\ count_requests (snd (visit' env i)) = 0%nat.
  Proof.
    intros env i Hc Ht. destruct (visit' env i) as [i' ev] eqn:Hv. cbn [fst snd].
    destruct (visit_item_cases _ _ _ _ Hv) as [(Hc' & _)|(_ & _ & _ & Hz & _)]; [congruence|].
    destruct (Hz Ht). auto.
  Qed.

  (* after more than [tries] check-outs the row is final, whatever happened (per-URL termination) *)
  Theorem finished_after_tries : forall envs i, 0 <= it_tries i ->
    (List.length envs > Z.to_nat (tries - it_tries i))%nat ->
    checked_out (fst (visits' envs i)) = false.
  Proof.
    induction envs as [|e envs IH]; intros i H0 Hlen; cbn [List.length] in Hlen; [lia|].
    cbn [visits]. destruct (visit' e i) as [i1 ev] eqn:Hv. destruct (visits' envs i1) as [i2 evs'] eqn:Hvs. cbn [fst].
    destruct (visit_item_cases _ _ _ _ Hv) as [(Hc & -> & ->)|(Hc & Ht & Hb & Hz & (s & Hs))].
    - rewrite (final_left_alone envs i Hc) in Hvs. inversion Hvs; subst. exact Hc.
    - destruct (Z_le_gt_dec tries (it_tries i)) as [Hle|Hgt].
      + destruct (Hz Hle) as (_ & Hsk).
        assert (Hc1 : checked_out i1 = false) by (unfold checked_out; rewrite Hsk; reflexivity).
        rewrite (final_left_alone envs i1 Hc1) in Hvs. inversion Hvs; subst. exact Hc1.
      + specialize (IH i1 ltac:(lia) ltac:(rewrite Ht; lia)). rewrite Hvs in IH. exact IH.
  Qed.
End ItemBounds.

(* ------------------------------------------------------------------ part D *)
Section Checked.
  Variable urljoin : vstr -> vstr -> option vstr.
  Variable parseable : vstr -> bool.
  Variable cfg : config.
  Variable consult : vstr -> bool -> bool.
  Variable robots : vstr -> robots_result.
  Variable server : list req -> sresp.

  (* request k rq at this place of the trace is covered by the passing consult event before it:
     directly before it, or with only the robots.txt consultation for the same URL in between *)
  Definition covered (pre : list event) (k : rkind) (rq : req) : Prop :=
    exists pre' w rb, pre = pre' ++ EConsult (rq_url rq) w true :: rb /\ (rb = [] \/ rb = [ERobots (rq_url rq)]) /\
      consult (rq_url rq) w = true /\
      (w = true -> c_strong_redirects cfg = true /\ k = KFollowup).

  Definition all_covered (ev : list event) : Prop :=
    forall pre k rq post, ev = pre ++ ERequest k rq :: post -> covered pre k rq.

  (* a robots.txt consultation for x comes directly after a passing consult of the filters on x *)
  Definition robots_after_consult (ev : list event) : Prop :=
    forall pre x post, ev = pre ++ ERobots x :: post -> exists pre' w, pre = pre' ++ [EConsult x w true] /\ consult x w = true.

  (* the session is in redirect state exactly when the tracker holds a redirect response *)
  Definition redir_inv (w : wsess) : Prop := tr_is_redirect (ws_tr w) = true -> ws_loop w = LRedirect.

  Lemma all_covered_nil_like : forall ev, forallb (fun e => negb (is_request e)) ev = true -> all_covered ev.
  Proof.
    intros ev H pre k rq post E. subst ev. rewrite forallb_app in H. apply andb_true_iff in H as [_ H].
    cbn in H. discriminate.
  Qed.

  Lemma app_eq_cons_request : forall (a b : list event) pre k rq post,
    a ++ b = pre ++ ERequest k rq :: post ->
    (exists post', a = pre ++ ERequest k rq :: post' /\ post = post' ++ b) \/
    (exists pre', pre = a ++ pre' /\ b = pre' ++ ERequest k rq :: post).
  Proof.
    induction a as [|x a IH]; intros b pre k rq post H.
    - right. exists pre. auto.
    - destruct pre as [|y pre]; cbn in H; inversion H; subst.
      + left. exists a. auto.
      + destruct (IH _ _ _ _ _ H2) as [(post' & -> & ->)|(pre' & -> & ->)].
        * left. exists post'. auto.
        * right. exists pre'. auto.
  Qed.

  Lemma app_eq_cons_robots : forall (a b : list event) pre x post,
    a ++ b = pre ++ ERobots x :: post ->
    (exists post', a = pre ++ ERobots x :: post' /\ post = post' ++ b) \/
    (exists pre', pre = a ++ pre' /\ b = pre' ++ ERobots x :: post).
  Proof.
    induction a as [|y a IH]; intros b pre x post H.
    - right. exists pre. auto.
    - destruct pre as [|z pre]; cbn in H; inversion H; subst.
      + left. exists a. auto.
      + destruct (IH _ _ _ _ H2) as [(post' & -> & ->)|(pre' & -> & ->)].
        * left. exists post'. auto.
        * right. exists pre'. auto.
  Qed.

  Lemma pre_events_shape : forall w hist rq,
    pre_events cfg robots w hist rq = [EConsult (rq_url rq) (c_strong_redirects cfg && tr_is_redirect (ws_tr w)) true; ERequest (kind_of (ws_loop w)) rq]
    \/ pre_events cfg robots w hist rq = [EConsult (rq_url rq) (c_strong_redirects cfg && tr_is_redirect (ws_tr w)) true; ERobots (rq_url rq); ERequest (kind_of (ws_loop w)) rq].
  Proof. intros. unfold pre_events, robots_events. destruct (hop_robots _ _ _ _); [right|left]; reflexivity. Qed.

  Lemma covered_in_pre : forall w hist rq, redir_inv w ->
    consult (rq_url rq) (c_strong_redirects cfg && tr_is_redirect (ws_tr w)) = true ->
    forall pre k rq0 post, pre_events cfg robots w hist rq = pre ++ ERequest k rq0 :: post -> covered pre k rq0.
  Proof.
    intros w hist rq Hinv Hc pre k rq0 post E.
    assert (Hw : c_strong_redirects cfg && tr_is_redirect (ws_tr w) = true -> c_strong_redirects cfg = true /\ kind_of (ws_loop w) = KFollowup).
    { intros Hw. apply andb_true_iff in Hw as [Hs Hr]. split; [exact Hs|]. rewrite (Hinv Hr). reflexivity. }
    destruct (pre_events_shape w hist rq) as [S|S]; rewrite S in E.
    - destruct pre as [|e1 [|e2 pre]]; cbn in E; inversion E; subst; try (destruct pre; discriminate).
      exists [], (c_strong_redirects cfg && tr_is_redirect (ws_tr w)), []. auto.
    - destruct pre as [|e1 [|e2 [|e3 pre]]]; cbn in E; inversion E; subst; try (destruct pre; discriminate).
      exists [], (c_strong_redirects cfg && tr_is_redirect (ws_tr w)), [ERobots (rq_url rq0)]. auto.
  Qed.

  Lemma robots_in_pre : forall w hist rq,
    consult (rq_url rq) (c_strong_redirects cfg && tr_is_redirect (ws_tr w)) = true ->
    forall pre x post, pre_events cfg robots w hist rq = pre ++ ERobots x :: post ->
    exists pre' wv, pre = pre' ++ [EConsult x wv true] /\ consult x wv = true.
  Proof.
    intros w hist rq Hc pre x post E.
    destruct (pre_events_shape w hist rq) as [S|S]; rewrite S in E.
    - destruct pre as [|e1 [|e2 [|e3 pre]]]; cbn in E; inversion E.
    - destruct pre as [|e1 [|e2 [|e3 [|e4 pre]]]]; cbn in E; inversion E; subst.
      exists [], (c_strong_redirects cfg && tr_is_redirect (ws_tr w)). auto.
  Qed.

  Lemma covered_shift : forall a pre k rq, covered pre k rq -> covered (a ++ pre) k rq.
  Proof. intros a pre k rq (p' & wv & rb & -> & Hrb & Hc & Hw). exists (a ++ p'), wv, rb. rewrite app_assoc. auto. Qed.

  Lemma robots_shift : forall a pre x, (exists pre' w, pre = pre' ++ [EConsult x w true] /\ consult x w = true) ->
    exists pre' w, a ++ pre = pre' ++ [EConsult x w true] /\ consult x w = true.
  Proof. intros a pre x (p' & wv & -> & Hc). exists (a ++ p'), wv. rewrite app_assoc. auto. Qed.

  Lemma robots_after_consult_nil_like : forall ev,
    forallb (fun e => match e with ERobots _ => false | _ => true end) ev = true -> robots_after_consult ev.
  Proof.
    intros ev H pre x post E. subst ev. rewrite forallb_app in H. apply andb_true_iff in H as [_ H].
    cbn in H. discriminate.
  Qed.

  Lemma loop_all_covered : forall f w hist ev r, redir_inv w ->
    loop urljoin parseable cfg consult robots server f w hist = (ev, r) -> all_covered ev /\ robots_after_consult ev.
  Proof.
    induction f as [|f IH]; intros w hist ev r Hinv H.
    { inversion H; subst. split; [apply all_covered_nil_like|apply robots_after_consult_nil_like]; reflexivity. }
    destruct (loop_step _ _ _ _ _ _ _ _ _ _ _ H) as [(Hn & -> & ->)|(rq & Hn & [(Hc & -> & ->)|(Hc & [(s0 & -> & -> & _)|[(s & -> & -> & _)|(status & location & w' & ev' & Hs & Hp & Hnn & Hl & ->)]])])].
    - split; [apply all_covered_nil_like|apply robots_after_consult_nil_like]; reflexivity.
    - split; [apply all_covered_nil_like|apply robots_after_consult_nil_like]; reflexivity.
    - split; [apply all_covered_nil_like; reflexivity|].
      intros pre x post E. unfold robots_stop in E.
      destruct pre as [|e1 [|e2 [|e3 [|e4 pre]]]]; cbn in E; inversion E; subst.
      exists [], (c_strong_redirects cfg && tr_is_redirect (ws_tr w)). auto.
    - split.
      + intros pre k rq0 post E.
        destruct (app_eq_cons_request _ _ _ _ _ _ E) as [(post' & E1 & _)|(pre' & -> & E2)].
        * eapply (covered_in_pre w hist rq Hinv Hc); exact E1.
        * destruct pre' as [|? [|? ?]]; cbn in E2; inversion E2.
      + intros pre x post E.
        destruct (app_eq_cons_robots _ _ _ _ _ E) as [(post' & E1 & _)|(pre' & -> & E2)].
        * eapply (robots_in_pre w hist rq Hc); exact E1.
        * destruct pre' as [|? [|? ?]]; cbn in E2; inversion E2.
    - assert (Hinv' : redir_inv w').
      { intros Hr. destruct (process_response_cases _ _ _ _ _ _ _ Hp) as [C|[C|C]].
        - destruct C as (Hl' & _). exact Hl'.
        - destruct C as (_ & Hnr & _). congruence.
        - destruct C as (_ & Hnr & _). congruence. }
      destruct (IH _ _ _ _ Hinv' Hl) as [IHc IHr]. split.
      + intros pre k rq0 post E.
        destruct (app_eq_cons_request _ _ _ _ _ _ E) as [(post' & E1 & _)|(pre' & -> & E2)].
        * eapply (covered_in_pre w hist rq Hinv Hc); exact E1.
        * apply covered_shift. eapply IHc. exact E2.
      + intros pre x post E.
        destruct (app_eq_cons_robots _ _ _ _ _ E) as [(post' & E1 & _)|(pre' & -> & E2)].
        * eapply (robots_in_pre w hist rq Hc); exact E1.
        * apply robots_shift. eapply IHr. exact E2.
  Qed.

  (* C02, engine clause: in a visit, every request on the wire is preceded by a PASSING consult of
     the filters on exactly the URL requested (with the record of the item visited) - directly, or
     with only the robots.txt consultation for that same URL in between; the consult is a waived one
     (is_redirect = True) only for the follow-up of a redirect response and only with strong
     redirects enabled; robots.txt handling (whose requests are the documented exception, C20) is
     started only for a URL that has just passed the filters: the item's own URL (unwaived), or the
     URL of a later request of the visit (the target of a redirect) *)
  Theorem every_request_checked : forall fuel u ev r,
    process_item urljoin parseable cfg consult robots server fuel u = (ev, r) ->
    all_covered ev /\ robots_after_consult ev /\
    (forall x post, ev = [EConsult u false true] ++ ERobots x :: post -> x = u).
  Proof.
    intros fuel u ev r H.
    destruct (process_item_cases _ _ _ _ _ _ _ _ _ _ H) as [(_ & -> & _)|[(Hc & _ & _ & -> & _)|[(Hc & _ & _ & -> & _)|(Hc & ev' & Hl & Hev)]]].
    - split; [apply all_covered_nil_like; reflexivity|]. split; [apply robots_after_consult_nil_like; reflexivity|].
      intros x post E. inversion E.
    - split; [apply all_covered_nil_like; reflexivity|]. split.
      + intros pre x post E. destruct pre as [|? [|? [|? [|? ?]]]]; cbn in E; inversion E; subst. exists [], false. auto.
      + intros x post E. inversion E. reflexivity.
    - split; [apply all_covered_nil_like; reflexivity|]. split.
      + intros pre x post E. destruct pre as [|? [|? [|? [|? ?]]]]; cbn in E; inversion E; subst. exists [], false. auto.
      + intros x post E. inversion E. reflexivity.
    - assert (Hcov : all_covered ev' /\ robots_after_consult ev').
      { eapply loop_all_covered; [|exact Hl]. intros Hr. cbn in Hr. discriminate. }
      destruct Hcov as [Hcov Hrob].
      destruct Hev as [(_ & _ & ->)|(_ & ->)].
      + split; [|split].
        * intros pre k rq post E. change (EConsult u false true :: ERobots u :: ev') with ([EConsult u false true; ERobots u] ++ ev') in E.
          destruct (app_eq_cons_request _ _ _ _ _ _ E) as [(post' & E1 & _)|(pre' & -> & E2)].
          -- destruct pre as [|? [|? [|? ?]]]; cbn in E1; inversion E1.
          -- apply covered_shift. eapply Hcov. exact E2.
        * intros pre x post E. change (EConsult u false true :: ERobots u :: ev') with ([EConsult u false true; ERobots u] ++ ev') in E.
          destruct (app_eq_cons_robots _ _ _ _ _ E) as [(post' & E1 & _)|(pre' & -> & E2)].
          -- destruct pre as [|? [|? [|? ?]]]; cbn in E1; inversion E1; subst. exists [], false. auto.
          -- apply robots_shift. eapply Hrob. exact E2.
        * intros x post E. inversion E. reflexivity.
      + split; [|split].
        * intros pre k rq post E. change (EConsult u false true :: ev') with ([EConsult u false true] ++ ev') in E.
          destruct (app_eq_cons_request _ _ _ _ _ _ E) as [(post' & E1 & _)|(pre' & -> & E2)].
          -- destruct pre as [|? [|? ?]]; cbn in E1; inversion E1.
          -- apply covered_shift. eapply Hcov. exact E2.
        * intros pre x post E. change (EConsult u false true :: ev') with ([EConsult u false true] ++ ev') in E.
          destruct (app_eq_cons_robots _ _ _ _ _ E) as [(post' & E1 & _)|(pre' & -> & E2)].
          -- destruct pre as [|? [|? ?]]; cbn in E1; inversion E1.
          -- apply robots_shift. eapply Hrob. exact E2.
        * intros x post E. cbn in E. inversion E as [E']. subst ev'.
          destruct (Hrob [] x post eq_refl) as (p' & wv & Ep & _). destruct p'; discriminate.
  Qed.
End Checked.

(* ---- the three "left alone" facts as one statement ---- *)
Theorem left_alone :
  forall urljoin parseable (cfg : config) (consult_tc : Z -> vstr -> bool -> bool) (u : vstr) (tries : Z),
    (forall tc url w, (tries <= tc)%Z -> consult_tc tc url w = false) ->
    (forall env i, checked_out i = true -> (tries <= it_tries i)%Z ->
       it_status (fst (visit_item urljoin parseable cfg consult_tc u env i)) = ISkipped /\
       count_requests (snd (visit_item urljoin parseable cfg consult_tc u env i)) = 0%nat) /\
    (forall envs i, checked_out i = false ->
       visits urljoin parseable cfg consult_tc u envs i = (i, map (fun _ => []) envs)) /\
    (forall envs i, (0 <= it_tries i)%Z -> (List.length envs > Z.to_nat (tries - it_tries i))%nat ->
       checked_out (fst (visits urljoin parseable cfg consult_tc u envs i)) = false).
Proof.
  intros urljoin parseable cfg consult_tc u tries H. split; [|split].
  - intros env i. apply exhausted_is_skipped. exact H.
  - intros envs i. apply final_left_alone.
  - intros envs i. apply finished_after_tries. exact H.
Qed.

(* ---- F16: the property text's bound (max_redirects + 2) fails with 401 / 307 alternation ---- *)
Definition f16_server : list req -> sresp :=
  fun h => if Nat.even (List.length h) then Resp 307 (Some [120]%N) else Resp 401 None.
Definition f16_cfg : config :=
  {| c_max_redirects := 3; c_strong_redirects := true; c_password := true; c_robots := false; c_content_on_error := false |}.

Theorem text_bound_refuted :
  exists urljoin parseable cfg consult robots server fuel u,
    let ev := fst (process_item urljoin parseable cfg consult robots server fuel u) in
    (count_requests ev > Z.to_nat (c_max_redirects cfg) + 2)%nat /\ (count_kind KAuthRetry ev > 1)%nat.
Proof.
  exists (fun _ l => Some l), (fun _ => true), f16_cfg, (fun _ _ => true), (fun _ => RAllow), f16_server, 20%nat, [97%N].
  vm_compute. split; lia.
Qed.

(* ------------------------------------------------------------------ part E *)
(* a crawl over the rows of a finite site, for an arbitrary scheduler and arbitrary servers *)
Section CrawlBounds.
  Variable urljoin : vstr -> vstr -> option vstr.
  Variable parseable : vstr -> bool.
  Variable cfg : config.
  Variable tries : Z.

  Definition rows_obey_tries (rows : list crow) : Prop :=
    forall r, List.In r rows -> forall tc url w, (tries <= tc)%Z -> cr_consult r tc url w = false.

  Notation visit_nth' := (visit_nth urljoin parseable cfg).
  Notation crawl' := (crawl urljoin parseable cfg).

  Lemma row_budget_step : forall r env i' ev,
    (forall tc url w, (tries <= tc)%Z -> cr_consult r tc url w = false) ->
    visit_item urljoin parseable cfg (cr_consult r) (cr_url r) env (cr_item r) = (i', ev) ->
    let r' := {| cr_url := cr_url r; cr_consult := cr_consult r; cr_item := i' |} in
    (count_requests ev <= 2 * (Z.to_nat (c_max_redirects cfg) + 1))%nat /\
    (if checked_out (cr_item r) then (row_budget tries r' < row_budget tries r)%nat
     else r' = r /\ ev = []).
  Proof.
    intros r env i' ev Hrule Hv. cbn zeta.
    destruct (visit_item_cases urljoin parseable cfg (cr_consult r) (cr_url r) tries Hrule env _ _ _ Hv)
      as [(Hc & -> & ->)|(Hc & Ht & Hb & Hz & (s & Hs))].
    - rewrite Hc. split; [cbn; lia|]. split; [destruct r; reflexivity|reflexivity].
    - rewrite Hc. split; [exact Hb|]. unfold row_budget. cbn [cr_item]. rewrite Hc.
      destruct (Z_le_gt_dec tries (it_tries (cr_item r))) as [Hle|Hgt].
      + destruct (Hz Hle) as (_ & Hsk). unfold checked_out. rewrite Hsk. lia.
      + destruct (checked_out i'); [rewrite Ht|]; lia.
  Qed.

  Lemma visit_nth_budget : forall k env rows rows' ev, rows_obey_tries rows ->
    visit_nth' k env rows = (rows', ev) ->
    rows_obey_tries rows' /\
    (count_requests ev <= 2 * (Z.to_nat (c_max_redirects cfg) + 1))%nat /\
    (if row_active k rows then (crawl_budget tries rows' < crawl_budget tries rows)%nat
     else rows' = rows /\ ev = []).
  Proof.
    induction k as [|k IH]; intros env rows rows' ev Hob H; destruct rows as [|r rows]; cbn [visit_nth] in H.
    - inversion H; subst. unfold row_active. cbn. repeat split; auto; lia.
    - destruct (visit_item urljoin parseable cfg (cr_consult r) (cr_url r) env (cr_item r)) as [i' ev'] eqn:Hv.
      inversion H; subst; clear H.
      destruct (row_budget_step r env i' ev (Hob r (or_introl eq_refl)) Hv) as (Hb & Hd).
      split.
      { intros x [<-|Hin]; [cbn [cr_consult]; apply (Hob r (or_introl eq_refl)) | apply Hob; right; exact Hin]. }
      split; [exact Hb|]. unfold row_active. cbn [nth_error crawl_budget fold_right].
      destruct (checked_out (cr_item r)).
      + fold (crawl_budget tries rows). lia.
      + destruct Hd as (-> & ->). split; reflexivity.
    - inversion H; subst. unfold row_active. cbn. repeat split; auto; lia.
    - destruct (visit_nth' k env rows) as [rows'' ev'] eqn:Hv. inversion H; subst; clear H.
      assert (Hob' : rows_obey_tries rows) by (intros x Hin; apply Hob; right; exact Hin).
      destruct (IH _ _ _ _ Hob' Hv) as (Hob'' & Hb & Hd).
      split.
      { intros x [<-|Hin]; [apply Hob; left; reflexivity | apply Hob''; exact Hin]. }
      split; [exact Hb|]. unfold row_active in *. cbn [nth_error crawl_budget fold_right].
      destruct (match nth_error rows k with Some r0 => checked_out (cr_item r0) | None => false end).
      + fold (crawl_budget tries rows) (crawl_budget tries rows''). lia.
      + destruct Hd as (-> & ->). split; reflexivity.
  Qed.

  (* C18, last clause: whatever the scheduler and the servers do, a crawl over n rows makes at most
     crawl_budget visits (<= n * (tries + 1) from a fresh table) - every execution is finite - and
     sends at most crawl_budget * 2 * (max_redirects + 1) requests *)
  Theorem crawl_terminates : forall sched rows rows' evs n, rows_obey_tries rows ->
    crawl' sched rows = (rows', evs, n) ->
    (n + crawl_budget tries rows' <= crawl_budget tries rows)%nat /\
    (total_requests evs <= n * (2 * (Z.to_nat (c_max_redirects cfg) + 1)))%nat.
  Proof.
    induction sched as [|[k env] sched IH]; intros rows rows' evs n Hob H; cbn [crawl] in H.
    { inversion H; subst. cbn. split; lia. }
    destruct (visit_nth' k env rows) as [rows1 ev] eqn:Hv.
    destruct (crawl' sched rows1) as [[rows2 evs'] n'] eqn:Hc. inversion H; subst; clear H.
    destruct (visit_nth_budget _ _ _ _ _ Hob Hv) as (Hob1 & Hb & Hd).
    destruct (IH _ _ _ _ Hob1 Hc) as (I1 & I2).
    unfold total_requests in *. cbn [fold_right].
    destruct (row_active k rows).
    - split; [lia|nia].
    - destruct Hd as (-> & ->). cbn. split; lia.
  Qed.

  (* once the budget is used up no row is handed out any more: the item source returns None *)
  Theorem crawl_budget_zero_all_final : forall rows, crawl_budget tries rows = 0%nat ->
    forall r, List.In r rows -> checked_out (cr_item r) = false.
  Proof.
    induction rows as [|x rows IH]; intros H r Hin; [destruct Hin|]. cbn [crawl_budget fold_right] in H.
    fold (crawl_budget tries rows) in H.
    destruct Hin as [<-|Hin].
    - unfold row_budget in H. destruct (checked_out (cr_item x)); [lia|reflexivity].
    - apply IH; [lia|exact Hin].
  Qed.
End CrawlBounds.
