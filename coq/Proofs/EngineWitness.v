(* Crawl engine, part 6: executable schedules are executions; concrete witnesses
   (refutations of the clauses the code does not satisfy, non-vacuity of the hypotheses). *)
From Coq Require Import List NArith Bool Arith Lia.
From Wpull Require Import Model.Engine Model.EngineSim Proofs.EngineProofs Proofs.EngineRun Proofs.EngineFinal Proofs.EngineOnce.
Import ListNotations.
Open Scope N_scope.

Section Exec.
  Variable site : url -> page.
  Variable host : url -> N.
  Variable in_scope : list N -> bool -> url -> rinfo -> N -> bool.
  Variable maxredir : nat.
  Variable starts : list url.
  Variable conc : nat.

  Notation fire := (Engine.fire site host in_scope maxredir starts conc).
  Notation reach := (Engine.reach site host in_scope maxredir starts conc).
  Notation reach_nc := (Engine.reach_nc site host in_scope maxredir starts conc).
  Notation quiescent := (Engine.quiescent site host in_scope maxredir starts conc).
  Notation run_labels := (Engine.run_labels site host in_scope maxredir starts conc).
  Notation seq_run := (Engine.seq_run site host in_scope maxredir starts conc).
  Notation boot := (Engine.boot site host in_scope maxredir starts conc).

  Lemma run_labels_reach_nc ls : forall s s', forallb (fun l => negb (is_crash l)) ls = true ->
    reach_nc s -> run_labels ls s = Some s' -> reach_nc s'.
  Proof.
    induction ls as [|l ls IH]; intros s s' F R H; cbn in H; [inversion H; now subst|].
    cbn in F. apply andb_prop in F. destruct F as [Fl F].
    destruct (fire l s) as [s1|] eqn:E; [|discriminate].
    apply (IH s1 s' F); [|assumption]. econstructor; [exact R|]. exists l. split; [now destruct (is_crash l) | assumption].
  Qed.

  Lemma run_labels_reach ls : forall s s', reach s -> run_labels ls s = Some s' -> reach s'.
  Proof.
    induction ls as [|l ls IH]; intros s s' R H; cbn in H; [inversion H; now subst|].
    destruct (fire l s) as [s1|] eqn:E; [|discriminate].
    apply (IH s1 s'); [|assumption]. econstructor; [exact R|]. now exists l.
  Qed.

  Lemma seq_run_reach_nc fuel : forall s s', reach_nc s -> seq_run fuel s = Some s' -> reach_nc s'.
  Proof.
    induction fuel as [|f IH]; intros s s' R H; cbn [Engine.seq_run] in H; [discriminate|].
    assert (K : forall l, is_crash l = false -> match fire l s with Some s1 => seq_run f s1 | None => Some s end = Some s' -> reach_nc s').
    { intros l C Hl. destruct (fire l s) as [s1|] eqn:E; [|inversion Hl; now subst].
      apply (IH s1 s'); [|assumption]. econstructor; [exact R|]. exists l. auto. }
    destruct (st_items s) as [|it rest].
    - apply (K LCheckout); [reflexivity | exact H].
    - destruct (it_started it); [apply (K (LAct 0)) | apply (K LStart)]; try reflexivity; exact H.
  Qed.

  Lemma run_on_reach_nc fuel s' : run_on site host in_scope maxredir starts conc fuel [] [] [] = Some s' -> reach_nc s'.
  Proof.
    unfold run_on, Engine.boot. intros H.
    destruct (fire LRelease (mkState [] [] [] [] [] [] Down 0)) as [s1|] eqn:E1; [|discriminate].
    destruct (fire LAddStarts s1) as [s2|] eqn:E2; [|discriminate].
    apply (seq_run_reach_nc fuel s2 s'); [|exact H].
    econstructor; [econstructor; [constructor|]|].
    - exists LRelease. split; [reflexivity | exact E1].
    - exists LAddStarts. split; [reflexivity | exact E2].
  Qed.

  Lemma quiescent_of_shape s : st_mode s = Running -> st_items s = [] -> pick (st_tbl s) = None -> quiescent s.
  Proof.
    intros M I P s' [l [C H]]. destruct l; cbn [Engine.fire] in H.
    - rewrite M, P in H. discriminate.
    - rewrite M, I in H. cbn [n_started filter length start_first] in H. destruct (0 <? conc)%nat; discriminate.
    - rewrite M, I in H. destruct n; discriminate.
    - discriminate.
    - rewrite M in H. discriminate.
    - rewrite M in H. discriminate.
    - rewrite M in H. discriminate.
  Qed.
End Exec.

(* sites given as finite lists *)
Lemma site_of_cases l u : site_of l u = NoDoc 404 \/ In (u, site_of l u) l.
Proof.
  induction l as [|[k p] l IH]; cbn; [now left|].
  destruct (k =? u) eqn:E; [apply N.eqb_eq in E; subst; right; now left|].
  destruct IH as [IH|IH]; [now left | right; now right].
Qed.

Lemma resolves_site_of l m :
  forallb (fun kp => resolves (site_of l) m (fst kp)) l = true -> forall u, resolves (site_of l) m u = true.
Proof.
  intros F u. destruct (site_of_cases l u) as [E|H].
  - destruct m; cbn; rewrite E; reflexivity.
  - rewrite forallb_forall in F. apply (F _ H).
Qed.

Lemma mem_iff sp sp' h : (forall x, In x sp <-> In x sp') -> mem h sp = mem h sp'.
Proof.
  intros H. unfold mem. destruct (existsb (N.eqb h) sp) eqn:A, (existsb (N.eqb h) sp') eqn:B; try reflexivity; exfalso.
  - apply existsb_exists in A. destruct A as [x [Hx E]]. apply H in Hx.
    assert (existsb (N.eqb h) sp' = true) by (apply existsb_exists; eauto). congruence.
  - apply existsb_exists in B. destruct B as [x [Hx E]]. apply H in Hx.
    assert (existsb (N.eqb h) sp = true) by (apply existsb_exists; eauto). congruence.
Qed.

(* the concrete filters look at the span-hosts list only through membership *)
Lemma cscope_ext attrs o sp sp' : (forall h, In h sp <-> In h sp') ->
  forall b u i n, cscope attrs o sp b u i n = cscope attrs o sp' b u i n.
Proof.
  intros H b u i n. unfold cscope, f_span. now rewrite !(mem_iff sp sp' _ H).
Qed.

(* ------------------------------------------------------------------ *)
(* witness 1 (F28): 1 links 2 and 3; 2 redirects to 3                  *)
(* ------------------------------------------------------------------ *)
Definition w1_site := site_of [(1, Doc 200 [(2, false); (3, false)]); (2, Redirect 302 (Some 3)); (3, Doc 200 [])].
Definition w1_scope : list N -> bool -> url -> rinfo -> N -> bool := fun _ _ _ _ _ => true.
Definition w1_host : url -> N := fun _ => 1.
Definition w1_final := run_on w1_site w1_host w1_scope 20 [1] 1 100 [] [] [].

(* ------------------------------------------------------------------ *)
(* witness 2 (F29): 1 -> 2,3 ; 2 -> 5 ; 3 -> 4 ; 4 -> 5 ; 5 -> 6 ; depth limit 3, two workers *)
(* ------------------------------------------------------------------ *)
Definition w2_sitel := [(1, Doc 200 [(2, false); (3, false)]); (2, Doc 200 [(5, false)]); (3, Doc 200 [(4, false)]);
                        (4, Doc 200 [(5, false)]); (5, Doc 200 [(6, false)]); (6, Doc 200 [])].
Definition w2_site := site_of w2_sitel.
Definition w2_attrs := attrs_of (map (fun u => (u, mkUA 0 1 80 [47; u + 96] false false)) [1; 2; 3; 4; 5; 6]).
Definition w2_opts := mkOpts true false 3 5 false 1 false false false false false.
Definition w2_scope := cscope w2_attrs w2_opts.
Definition w2_host := chost w2_attrs.
(* one worker after the other *)
Definition w2_seq := run_on w2_site w2_host w2_scope 20 [1] 2 200 [] [] [].
(* the second worker overtakes the first: 3 and 4 are fetched before 2 finishes *)
Definition w2_labels : list label :=
  [LRelease; LAddStarts; LCheckout; LStart; LAct 0; LAct 0; LAct 0; LAct 0;
   LCheckout; LCheckout; LStart; LStart; LAct 1; LAct 1; LAct 1; LAct 1;
   LCheckout; LStart; LAct 1; LAct 1; LAct 1; LAct 1;
   LAct 0; LAct 0; LAct 0; LAct 0;
   LCheckout; LStart; LAct 0; LAct 0; LAct 0].
Definition w2_par := run_labels w2_site w2_host w2_scope 20 [1] 2 w2_labels (init).


Definition get (o : option state) : state := match o with Some s => s | None => init end.

Lemma w1_no_fail : no_fail w1_site 20.
Proof. unfold no_fail, w1_site. apply resolves_site_of. vm_compute. reflexivity. Qed.

(* F28: a URL that is both linked and the target of a redirect is requested twice *)
Lemma each_url_requested_once_refuted :
  exists site host in_scope maxredir starts conc s,
    (forall sp sp', (forall h, In h sp <-> In h sp') -> forall b u i n, in_scope sp b u i n = in_scope sp' b u i n) /\
    no_fail site maxredir /\ (1 <= conc)%nat /\
    reach_nc site host in_scope maxredir starts conc s /\ quiescent site host in_scope maxredir starts conc s /\
    ~ NoDup (all_reqs (st_log s)).
Proof.
  exists w1_site, w1_host, w1_scope, 20%nat, [1], 1%nat, (get w1_final).
  split; [reflexivity|]. split; [exact w1_no_fail|]. split; [lia|]. split; [|split].
  - apply (run_on_reach_nc _ _ _ _ _ _ 100). vm_compute. reflexivity.
  - apply quiescent_of_shape; vm_compute; reflexivity.
  - assert (E : all_reqs (st_log (get w1_final)) = [3; 3; 2; 1]) by (vm_compute; reflexivity).
    rewrite E. intros ND. inversion ND as [|? ? Hn _]. apply Hn. now left.
Qed.

Lemma w2_no_fail : no_fail w2_site 20.
Proof. unfold no_fail, w2_site. apply resolves_site_of. vm_compute. reflexivity. Qed.

Lemma w2_finite : forall u code links l, w2_site u = Doc code links -> In l links -> In (fst l) [1; 2; 3; 4; 5; 6].
Proof.
  intros u code links l S Hl. unfold w2_site in S. destruct (site_of_cases w2_sitel u) as [E|H]; [congruence|].
  rewrite S in H. cbn in H.
  repeat (destruct H as [H|H]; [inversion H; subst; cbn in Hl; repeat (destruct Hl as [<-|Hl]; [cbn; tauto|]); destruct Hl|]).
  destruct H.
Qed.

Lemma w2_links_len : forall u code links, w2_site u = Doc code links -> (length links <= 2)%nat.
Proof.
  intros u code links S. unfold w2_site in S. destruct (site_of_cases w2_sitel u) as [E|H]; [congruence|].
  rewrite S in H. cbn in H.
  repeat (destruct H as [H|H]; [inversion H; subst; cbn; lia|]).
  destruct H.
Qed.

(* F29: under a depth limit the set of URLs a crawl fetches depends on the schedule *)
Lemma schedule_independent_refuted :
  exists site host in_scope maxredir starts conc s1 s2 u,
    (forall sp sp', (forall h, In h sp <-> In h sp') -> forall b u i n, in_scope sp b u i n = in_scope sp' b u i n) /\
    no_fail site maxredir /\ (1 <= conc)%nat /\
    reach_nc site host in_scope maxredir starts conc s1 /\ quiescent site host in_scope maxredir starts conc s1 /\
    reach_nc site host in_scope maxredir starts conc s2 /\ quiescent site host in_scope maxredir starts conc s2 /\
    In u (urls (st_tbl s1)) /\ ~ In u (urls (st_tbl s2)).
Proof.
  exists w2_site, w2_host, w2_scope, 20%nat, [1], 2%nat, (get w2_seq), (get w2_par), 6.
  split; [apply cscope_ext|]. split; [exact w2_no_fail|]. split; [lia|].
  split; [apply (run_on_reach_nc _ _ _ _ _ _ 200); vm_compute; reflexivity|].
  split; [apply quiescent_of_shape; vm_compute; reflexivity|].
  split; [apply (run_labels_reach_nc _ _ _ _ _ _ w2_labels init); [reflexivity | constructor | vm_compute; reflexivity]|].
  split; [apply quiescent_of_shape; vm_compute; reflexivity|].
  split.
  - assert (E : urls (st_tbl (get w2_seq)) = [1; 2; 3; 5; 4; 6]) by (vm_compute; reflexivity). rewrite E. cbn. tauto.
  - assert (E : urls (st_tbl (get w2_par)) = [1; 2; 3; 4; 5]) by (vm_compute; reflexivity). rewrite E. cbn.
    intros H. repeat (destruct H as [H|H]; [discriminate|]). destruct H.
Qed.

(* the hypotheses of the C01 theorems are satisfiable by a crawl that really does something *)
Lemma c01_nonvacuous :
  (forall sp sp', (forall h, In h sp <-> In h sp') -> forall b u i n, w2_scope sp b u i n = w2_scope sp' b u i n) /\
  no_fail w2_site 20 /\
  (forall u code links l, w2_site u = Doc code links -> In l links -> In (fst l) [1; 2; 3; 4; 5; 6]) /\
  (forall u code links, w2_site u = Doc code links -> (length links <= 2)%nat) /\
  reach_nc w2_site w2_host w2_scope 20 [1] 2 (get w2_par) /\
  quiescent w2_site w2_host w2_scope 20 [1] 2 (get w2_par) /\
  length (st_tbl (get w2_par)) = 5%nat /\ all_reqs (st_log (get w2_par)) = [5; 2; 4; 3; 1].
Proof.
  split; [apply cscope_ext|]. split; [exact w2_no_fail|]. split; [exact w2_finite|]. split; [exact w2_links_len|].
  split; [apply (run_labels_reach_nc _ _ _ _ _ _ w2_labels init); [reflexivity | constructor | vm_compute; reflexivity]|].
  split; [apply quiescent_of_shape; vm_compute; reflexivity|].
  split; vm_compute; reflexivity.
Qed.
