(* C13 - exactly once: in a run without stop() in which process() returns, every item the
   source yielded went through every task (each Start/End is in the log; with NoDup (log s)
   that is exactly once). *)
From Coq Require Import List Arith Bool Lia.
From Wpull Require Import Model.Pipeline Proofs.PipelineBase Proofs.PipelineSafety Proofs.PipelineStop
  Proofs.PipelineQueue Proofs.PipelineCtl.
Import ListNotations.
Local Arguments Nat.ltb : simpl never.
Local Arguments Nat.eqb : simpl never.

(* runs without stop(); with h = true moreover the source is honest: it answers None only
   when it has nothing left *)
Inductive reachable_ns (h : bool) (t n c : nat) : state -> Prop :=
| RN_init : reachable_ns h t n c (init n c)
| RN_step s l s' : reachable_ns h t n c s -> l <> E_stop ->
                   (h = true -> l = E_src_none -> src_left s = 0) ->
                   step t s l = Some s' -> reachable_ns h t n c s'.

Lemma reachable_ns_reachable h t n c s : reachable_ns h t n c s -> reachable t n c s.
Proof. induction 1; [constructor|eapply R_step; eauto]. Qed.

Fixpoint honest (t : nat) (s : state) (ls : list label) : bool :=
  match ls with
  | [] => true
  | l :: r => (match l with E_src_none => src_left s =? 0 | _ => true end)
              && match step t s l with Some s' => honest t s' r | None => true end
  end.

Lemma run_reachable_ns h t n c ls : forall s0 s,
  reachable_ns h t n c s0 -> run t s0 ls = Some s -> ~ In E_stop ls -> (h = true -> honest t s0 ls = true) ->
  reachable_ns h t n c s.
Proof.
  induction ls as [|l ls IH]; intros s0 s R H N Ho.
  - cbn in H. injection H as <-. exact R.
  - cbn in H. destruct (step t s0 l) as [s1|] eqn:E; [|discriminate].
    apply (IH s1 s); auto.
    + eapply RN_step; eauto.
      * intros ->. apply N. now left.
      * intros Hh ->. specialize (Ho Hh). cbn in Ho. apply andb_prop in Ho. destruct Ho as [Ho _]. now apply Nat.eqb_eq.
    + intros I. apply N. now right.
    + intros Hh. specialize (Ho Hh). cbn [honest] in Ho. rewrite E in Ho. apply andb_prop in Ho. tauto.
Qed.

Definition is_last (t : nat) (e : ev) : bool := match e with Ev false _ k => S k =? t | _ => false end.
Definition cnt_last (t : nat) (l : list ev) : nat := length (filter (is_last t) l).
Definition pheld (p : ppc) : nat := match p with P_src_item _ | P_put_parked _ _ => 1 | _ => 0 end.

Lemma cnt_last_cons t e l : cnt_last t (e :: l) = b2n (is_last t e) + cnt_last t l.
Proof. unfold cnt_last. cbn. destruct (is_last t e); reflexivity. Qed.
Arguments cnt_last : simpl never.

Lemma pheld_pnotify p : pheld (pnotify p) = pheld p.
Proof. destruct p as [| | | | | |j [|]|[|]| | |]; reflexivity. Qed.

Definition pk (p : ppc) : nat :=
  match p with P_absent => 0 | P_new => 1 | P_done => 2 | P_raised => 3 | P_cancelled => 4 | _ => 5 end.
Lemma pk_pnotify p : pk (pnotify p) = pk p.
Proof. destruct p as [| | | | | |j [|]|[|]| | |]; reflexivity. Qed.

Lemma pk_inv p :
  match pk p with 0 => p = P_absent | 1 => p = P_new | 2 => p = P_done | 3 => p = P_raised | 4 => p = P_cancelled
             | _ => True end.
Proof. destruct p; cbn; auto. Qed.
Ltac pkinv :=
  repeat match goal with
         | H : pk ?p = 0 |- _ => let X := fresh in pose proof (pk_inv p) as X; rewrite H in X; clear H
         | H : pk ?p = 1 |- _ => let X := fresh in pose proof (pk_inv p) as X; rewrite H in X; clear H
         | H : pk ?p = 2 |- _ => let X := fresh in pose proof (pk_inv p) as X; rewrite H in X; clear H
         | H : pk ?p = 3 |- _ => let X := fresh in pose proof (pk_inv p) as X; rewrite H in X; clear H
         | H : pk ?p = 4 |- _ => let X := fresh in pose proof (pk_inv p) as X; rewrite H in X; clear H
         end.

Definition psn (p : ppc) : bool := match p with P_src_none => true | _ => false end.
Lemma psn_pnotify p : psn (pnotify p) = psn p.
Proof. destruct p as [| | | | | |j [|]|[|]| | |]; reflexivity. Qed.

Record Ns (h : bool) (t : nat) (s : state) : Prop := {
  ns_h : h = true -> pk (prod s) = 2 \/ psn (prod s) = true -> src_left s = 0;
  ns_a : pstate s <> St_running -> mainpc s <> M_new -> (pk (prod s) = 2 /\ unfinished s = 0) \/ pk (prod s) = 3;
  ns_b : prod_cancel s = false;
  ns_b' : pk (prod s) <> 4;
  ns_c : mainpc s = M_returned -> pk (prod s) = 2;
  ns_d : 0 < t -> next_item s = 1 + pheld (prod s) + unfinished s + cnt_last t (log s);
  ns_f : pstate s = St_running -> pk (prod s) = 0 \/ pk (prod s) = 1 \/ prod_running s = true;
  ns_g : mainpc s = M_new -> pk (prod s) = 0
}.

Ltac nsclause :=
  cbn; intros; rewrite ?cnt_last_cons, ?pheld_pnotify, ?pk_pnotify, ?psn_pnotify in *; cbn [b2n is_last pheld pk psn] in *; hyps;
  try match goal with H : prod _ = _ |- _ => rewrite H in *; cbn [pheld pk psn] in * end;
  first [congruence | lia | tauto | (left; split; first [congruence|lia]) | (right; congruence)
        | (right; left; congruence) | (right; right; congruence)
        | intuition (first [congruence|lia]) | idtac].
Ltac hyps2 :=
  hyps; repeat (match goal with
                | H : ?a <> ?b -> _, H' : ?a = ?c |- _ => specialize (H ltac:(rewrite H'; discriminate))
                end; hyps).
Ltac nsfin :=
  cbn in *; hyps2; repeat match goal with H : _ \/ _ |- _ => destruct H end; hyps; pkinv;
  try (match goal with H : prod _ = _ |- _ => rewrite H in *; cbn in * end);
  first [discriminate | congruence | constructor; nsclause].

Lemma ns_main_step h t s s' : Stp s -> Ctl s -> Ns h t s -> main_step s = Some s' -> Ns h t s'.
Proof.
  intros St C [Hh A B B' Cc D F G]. pose proof (st_sd _ St) as SD. pose proof (st_new _ St) as SN.
  unfold main_step, main_loop, sd_after_workers, finish_prod, spawn. brk2; intros H; inversion H; subst; clear H.
  all: nsfin.
Qed.

Lemma ns_prod_step h t s s' : Stp s -> Ctl s -> Ns h t s -> prod_step s = Some s' -> Ns h t s'.
Proof.
  intros St C [Hh A B B' Cc D F G]. pose proof (st_sd _ St) as SD. pose proof (st_new _ St) as SN.
  pose proof (c3 _ C) as C3. pose proof (c6 _ C) as C6.
  unfold prod_step, prod_put, prod_loop, pipeline_stop. brk2; intros H; inversion H; subst; clear H.
  all: nf2; brk2; nsfin.
Qed.

Lemma ns_worker_step h t w s s' : Safe t s -> Qi s -> Ns h t s -> worker_step t w s = Some s' -> Ns h t s'.
Proof.
  intros Sf Q [Hh A B B' Cc D F G]. unfold worker_step.
  destruct (wpc_at (workers s) w) as [p|] eqn:EA; [|discriminate].
  destruct p as [| | | |i k|i k|i k| |]; try discriminate.
  1-3: unfold worker_get; brk2; intros H; inversion H; subst; clear H; nf2; cbn; nf2; nsfin.
  - destruct (sf_held _ _ Sf _ _ _ _ EA eq_refl) as [Kt _].
    assert (UP : 0 < unfinished s).
    { destruct (wpc_at_nth _ _ _ EA) as [x [Ex Px]]. pose proof (q_c9 _ Q) as E9.
      assert (0 < countw holder (workers s)) by (eapply holder_le; eauto; unfold holder; now rewrite Px). lia. }
    destruct (S k <? t) eqn:T.
    + apply Nat.ltb_lt in T. assert (EQ : (S k =? t) = false) by (apply Nat.eqb_neq; lia).
      intros H; inversion H; subst; clear H. constructor; cbn; rewrite ?cnt_last_cons; cbn [is_last b2n End_ Start]; rewrite ?EQ; auto.
    + apply Nat.ltb_ge in T. assert (EQ : (S k =? t) = true) by (apply Nat.eqb_eq; lia).
      unfold worker_get; brk2; intros H; inversion H; subst; clear H; nf2; cbn in *; nf2;
        (constructor; cbn; rewrite ?cnt_last_cons, ?pheld_pnotify, ?pk_pnotify, ?psn_pnotify; cbn [is_last b2n End_ Start]; rewrite ?EQ; cbn [b2n];
         try tauto; try congruence; try lia; try (intuition (first [congruence|lia]))).
  - intros H; inversion H; subst; clear H. constructor; cbn; auto.
Qed.

Lemma ns_env_step h t s l s' :
  internal l = false -> l <> E_stop -> (h = true -> l = E_src_none -> src_left s = 0) ->
  Stp s -> Ns h t s -> step t s l = Some s' -> Ns h t s'.
Proof.
  intros IL NS HO St [Hh A B B' Cc D F G]. pose proof (st_new _ St) as SN.
  destruct l; try discriminate IL; try (now elim NS); cbn [step]; unfold set_concurrency;
    brk2; intros H; inversion H; subst; clear H.
  all: nf2; brk2; cbn; nf2; brk2; nsfin.
Qed.

Lemma ns_init h t n c : Ns h t (init n c).
Proof. constructor; cbn; auto; try discriminate; try (intros ? [?|?]; discriminate); intros; congruence. Qed.

Theorem ns_reachable h t n c s : reachable_ns h t n c s -> Ns h t s.
Proof.
  induction 1 as [|s l s' R IH NS HO H]; [apply ns_init|].
  pose proof (reachable_ns_reachable _ _ _ _ _ R) as R'.
  pose proof (safe_reachable _ _ _ _ R') as Sf. pose proof (stp_reachable _ _ _ _ R') as St.
  pose proof (qi_reachable _ _ _ _ R') as Q. pose proof (ctl_reachable _ _ _ _ R') as C.
  destruct (internal l) eqn:IL.
  - destruct l; try discriminate IL; cbn [step] in H.
    + eapply ns_main_step; eauto.
    + eapply ns_prod_step; eauto.
    + eapply ns_worker_step; eauto.
  - apply (ns_env_step h t s l s'); assumption.
Qed.


(* ---- counting argument ---------------------------------------------------------------------------------- *)
Lemma done_upto_all i m k : k < m -> In (Start i k) (done_upto i m) /\ In (End_ i k) (done_upto i m).
Proof.
  induction m as [|m IH]; [lia|]. intros L. rewrite done_upto_S.
  destruct (Nat.eq_dec k m) as [->|N].
  - split; [right; now left|now left].
  - destruct IH as [A B]; [lia|]. split; right; right; assumption.
Qed.

Lemma nodup_map_inj {A B} (f : A -> B) l :
  NoDup l -> (forall a b, In a l -> In b l -> f a = f b -> a = b) -> NoDup (map f l).
Proof.
  induction 1 as [|x l Nx ND IH]; intros Inj; [constructor|]. cbn. constructor.
  - intros I. apply in_map_iff in I. destruct I as [y [E Iy]]. apply Nx.
    rewrite (Inj x y); auto; [now left|now right].
  - apply IH. intros a b Ia Ib. apply Inj; now right.
Qed.

Lemma is_last_inv t e : is_last t e = true -> exists i k, e = End_ i k /\ S k = t.
Proof. destruct e as [[|] i k]; cbn; [discriminate|]. intros H. apply Nat.eqb_eq in H. eauto. Qed.

Theorem exactly_once t n c ls s :
  run t (init n c) ls = Some s -> ~ In E_stop ls -> mainpc s = M_returned ->
  prod s = P_done /\ unfinished s = 0 /\
  forall i k, 1 <= i < next_item s -> k < t -> In (Start i k) (log s) /\ In (End_ i k) (log s).
Proof.
  intros Hr NS MR.
  assert (RN : reachable_ns false t n c s) by (eapply run_reachable_ns; eauto; [constructor|discriminate]).
  pose proof (reachable_ns_reachable _ _ _ _ _ RN) as R.
  pose proof (safe_reachable _ _ _ _ R) as Sf. pose proof (ctl_reachable _ _ _ _ R) as C.
  pose proof (ns_reachable _ _ _ _ _ RN) as N.
  pose proof (ns_c _ _ _ N MR) as P2. pose proof (pk_inv (prod s)) as PI. rewrite P2 in PI.
  assert (NR : pstate s <> St_running) by (apply (c6 _ C); now rewrite PI).
  assert (NN : mainpc s <> M_new) by congruence.
  destruct (ns_a _ _ _ N NR NN) as [[_ U]|P3]; [|rewrite P2 in P3; discriminate].
  split; [exact PI|]. split; [exact U|]. intros i k Hi Hk.
  assert (T0 : 0 < t) by lia.
  pose proof (ns_d _ _ _ N T0) as D. rewrite PI, U in D. cbn [pheld] in D.
  set (F := filter (is_last t) (log s)) in *. set (L := map item_of F).
  assert (LL : length L = next_item s - 1) by (unfold L; rewrite map_length; unfold cnt_last in D; fold F in D; lia).
  assert (ND : NoDup L).
  { apply nodup_map_inj; [apply NoDup_filter, (log_nodup _ _ Sf)|].
    intros a b Ia Ib E. apply filter_In in Ia, Ib. destruct Ia as [_ Ia], Ib as [_ Ib].
    destruct (is_last_inv _ _ Ia) as [ia [ka [-> Ea]]], (is_last_inv _ _ Ib) as [ib [kb [-> Eb]]].
    cbn in E. subst ib. f_equal. lia. }
  assert (IN : incl L (seq 1 (next_item s - 1))).
  { intros j Ij. apply in_map_iff in Ij. destruct Ij as [e [<- Ie]]. apply filter_In in Ie. destruct Ie as [Ie _].
    destruct e as [b j k']. destruct (log_event_range _ _ Sf _ _ _ Ie) as [Rj _]. cbn. apply in_seq. lia. }
  assert (ALL : incl (seq 1 (next_item s - 1)) L).
  { apply NoDup_length_incl; [exact ND|rewrite seq_length; lia|exact IN]. }
  assert (Ii : In i L) by (apply ALL, in_seq; lia).
  apply in_map_iff in Ii. destruct Ii as [e [Ei Ie]]. apply filter_In in Ie. destruct Ie as [Ie Le].
  destruct (is_last_inv _ _ Le) as [i' [k' [-> Ek]]]. cbn in Ei. subst i'.
  assert (Ip : In (End_ i k') (proj i (log s))) by (apply proj_in; split; [exact Ie|reflexivity]).
  assert (SH : proj i (log s) = done_upto i t).
  { destruct (safe_shape _ _ Sf i) as [m [Hm [E|[Hm' E]]]]; rewrite E in Ip.
    - apply done_upto_in in Ip. cbn in Ip. assert (m = t) by lia. now subst m.
    - destruct Ip as [X|Ip]; [discriminate|]. apply done_upto_in in Ip. cbn in Ip. lia. }
  destruct (done_upto_all i t k Hk) as [A B]. rewrite <- SH in A, B.
  apply proj_in in A, B. tauto.
Qed.

(* with a source that says None only when it is exhausted, returning without stop means all n
   items went through all tasks *)
Theorem returns_when_exhausted t n c ls s :
  run t (init n c) ls = Some s -> ~ In E_stop ls -> honest t (init n c) ls = true -> mainpc s = M_returned ->
  src_left s = 0 /\ next_item s = S n /\
  forall i k, 1 <= i <= n -> k < t -> In (Start i k) (log s) /\ In (End_ i k) (log s).
Proof.
  intros Hr NS Ho MR.
  assert (RN : reachable_ns true t n c s) by (eapply run_reachable_ns; eauto; constructor).
  pose proof (reachable_ns_reachable _ _ _ _ _ RN) as R.
  pose proof (ns_reachable _ _ _ _ _ RN) as N.
  pose proof (ns_c _ _ _ N MR) as P2.
  assert (SL : src_left s = 0) by (apply (ns_h _ _ _ N eq_refl); now left).
  pose proof (src_count_reachable _ _ _ _ R) as SC.
  destruct (exactly_once t n c ls s Hr NS MR) as [_ [_ EO]].
  split; [exact SL|]. split; [lia|]. intros i k Hi Hk. apply EO; lia.
Qed.
