(* C13 - exactly once: in a run without stop() in which process() returns, every item the
   source yielded went through every task (each Start/End is in the log; with NoDup (log s)
   that is exactly once). *)
From Coq Require Import List Arith Bool Lia.
From Wpull Require Import Model.Pipeline Proofs.PipelineBase Proofs.PipelineSafety Proofs.PipelineStop
  Proofs.PipelineQueue Proofs.PipelineCtl.
Import ListNotations.
Local Arguments Nat.ltb : simpl never.
Local Arguments Nat.eqb : simpl never.

Inductive reachable_ns (t n c : nat) : state -> Prop :=
| RN_init : reachable_ns t n c (init n c)
| RN_step s l s' : reachable_ns t n c s -> l <> E_stop -> step t s l = Some s' -> reachable_ns t n c s'.

Lemma reachable_ns_reachable t n c s : reachable_ns t n c s -> reachable t n c s.
Proof. induction 1; [constructor|eapply R_step; eauto]. Qed.

Lemma run_reachable_ns t n c ls s :
  run t (init n c) ls = Some s -> ~ In E_stop ls -> reachable_ns t n c s.
Proof.
  revert s. induction ls as [|l ls IH] using rev_ind; intros s H N.
  - cbn in H. injection H as <-. constructor.
  - rewrite run_app in H. destruct (run t (init n c) ls) as [s0|] eqn:E; [|discriminate].
    cbn in H. destruct (step t s0 l) eqn:E2; [|discriminate]. injection H as <-.
    eapply RN_step; [apply IH; [reflexivity|]| |exact E2].
    + intros I. apply N. apply in_or_app. now left.
    + intros ->. apply N. apply in_or_app. right. now left.
Qed.

Definition is_last (t : nat) (e : ev) : bool := match e with Ev false _ k => S k =? t | _ => false end.
Definition cnt_last (t : nat) (l : list ev) : nat := length (filter (is_last t) l).
Definition pheld (p : ppc) : nat := match p with P_src_item _ | P_put_parked _ _ => 1 | _ => 0 end.

Lemma cnt_last_cons t e l : cnt_last t (e :: l) = b2n (is_last t e) + cnt_last t l.
Proof. unfold cnt_last. cbn. destruct (is_last t e); reflexivity. Qed.
Arguments cnt_last : simpl never.

Lemma pheld_pnotify p : pheld (pnotify p) = pheld p.
Proof. destruct p as [| | | | | |j [|]|[|]| | |]; reflexivity. Qed.

Record Ns (t : nat) (s : state) : Prop := {
  ns_a : pstate s <> St_running -> mainpc s <> M_new -> (prod s = P_done /\ unfinished s = 0) \/ prod s = P_raised;
  ns_b : prod_cancel s = false;
  ns_b' : prod s <> P_cancelled;
  ns_c : mainpc s = M_returned -> prod s = P_done;
  ns_d : next_item s = 1 + pheld (prod s) + unfinished s + cnt_last t (log s);
  ns_f : pstate s = St_running -> prod s = P_absent \/ prod s = P_new \/ prod_running s = true;
  ns_g : mainpc s = M_new -> prod s = P_absent
}.

Ltac nsclause :=
  cbn; intros; rewrite ?cnt_last_cons, ?pheld_pnotify in *; cbn [b2n is_last pheld] in *; hyps;
  try match goal with H : prod _ = _ |- _ => rewrite H in *; cbn [pheld] in * end;
  first [congruence | lia | tauto | (left; split; first [congruence|lia]) | (right; congruence)
        | (right; left; congruence) | (right; right; congruence)
        | intuition (first [congruence|lia]) | idtac].
Ltac hyps2 :=
  hyps; repeat (match goal with
                | H : ?a <> ?b -> _, H' : ?a = ?c |- _ => specialize (H ltac:(rewrite H'; discriminate))
                end; hyps).
Ltac nsfin :=
  cbn in *; hyps2; repeat match goal with H : _ \/ _ |- _ => destruct H end; hyps;
  try (match goal with H : prod _ = _ |- _ => rewrite H in *; cbn in * end);
  first [discriminate | congruence | constructor; nsclause].

Lemma ns_main_step t s s' : Stp s -> Ctl s -> Ns t s -> main_step s = Some s' -> Ns t s'.
Proof.
  intros St C [A B B' Cc D F G]. pose proof (st_sd _ St) as SD. pose proof (st_new _ St) as SN.
  unfold main_step, main_loop, sd_after_workers, finish_prod, spawn. brk2; intros H; inversion H; subst; clear H.
  all: nsfin.
Qed.
