(* C10, equivalent spellings: a dropped fragment.  For the text after the scheme, "P" and
   "P#f" (P without '#') are both rejected with the same kind, or parse to the same normalized
   URL and the same scheme, host, port, path and query - provided the fragment itself can be
   encoded (otherwise "P#f" is rejected with a value error and "P" is not). *)
From Coq Require Import List NArith ZArith Bool Lia Arith.
From Coq Require Import ZifyBool ZifyNat ZifyN.
From Wpull Require Import Model.UrlLib Model.Url Proofs.UrlStrProofs.
Import ListNotations.
Open Scope N_scope.

Lemma find_idx_app c R T :
  find_idx c (R ++ T) = match find_idx c R with
                        | Some i => Some i
                        | None => option_map (Nat.add (length R)) (find_idx c T)
                        end.
Proof.
  induction R as [|x R IH]; cbn [app find_idx length].
  - destruct (find_idx c T); reflexivity.
  - destruct (x =? c); [reflexivity|]. rewrite IH. destruct (find_idx c R); [reflexivity|].
    destruct (find_idx c T); reflexivity.
Qed.

Lemma find_idx_lt c R i : find_idx c R = Some i -> (i < length R)%nat.
Proof.
  revert i. induction R as [|x R IH]; cbn [find_idx length]; intros i H; [discriminate|].
  destruct (x =? c); [injection H as <-; lia|].
  destruct (find_idx c R) as [j|]; [|discriminate]. injection H as <-. specialize (IH j eq_refl). lia.
Qed.

Lemma find_idx_none c R : memb c R = false -> find_idx c R = None.
Proof.
  induction R as [|x R IH]; cbn [memb find_idx]; [reflexivity|].
  intros H. apply orb_false_iff in H as [H1 H2]. rewrite H1, (IH H2). reflexivity.
Qed.

Lemma find_idx_hash R f : memb 35 R = false -> find_idx 35 (R ++ 35 :: f) = Some (length R).
Proof.
  intros H. rewrite find_idx_app, (find_idx_none 35 R H). cbn [find_idx N.eqb Pos.eqb option_map]. f_equal. lia.
Qed.

(* an index found in "R#f" for a character other than '#': the one in R, or something behind the '#' *)
Definition beyond (n : nat) (o o' : option nat) : Prop :=
  match o with
  | Some i => o' = Some i /\ (i < n)%nat
  | None => o' = None \/ exists j, o' = Some j /\ (n < j)%nat
  end.

Lemma find_idx_beyond c R f : c <> 35 -> beyond (length R) (find_idx c R) (find_idx c (R ++ 35 :: f)).
Proof.
  intros Hc. rewrite find_idx_app. unfold beyond. destruct (find_idx c R) as [i|] eqn:E.
  - split; [reflexivity|]. exact (find_idx_lt c R i E).
  - cbn [find_idx]. destruct (35 =? c) eqn:E2; [lia|].
    destruct (find_idx c f) as [j|]; cbn [option_map]; [right; eexists; split; [reflexivity|lia]|left; reflexivity].
Qed.

Lemma min_found3 n d p q p' q' : beyond n p p' -> beyond n q q' ->
  min_found [p'; q'; Some n] d = min_found [p; q; None] n.
Proof.
  unfold beyond. destruct p as [i|]; destruct q as [j|]; intros Hp Hq.
  - destruct Hp as [-> Hi]. destruct Hq as [-> Hj]. unfold min_found. cbn. lia.
  - destruct Hp as [-> Hi]. destruct Hq as [->|(j & -> & Hj)]; unfold min_found; cbn; lia.
  - destruct Hq as [-> Hj]. destruct Hp as [->|(i & -> & Hi)]; unfold min_found; cbn; lia.
  - destruct Hp as [->|(i & -> & Hi)]; destruct Hq as [->|(j & -> & Hj)]; unfold min_found; cbn; lia.
Qed.

Lemma min_found2 n d q q' : beyond n q q' -> min_found [q'; Some n] d = min_found [q; None] n.
Proof.
  unfold beyond. destruct q as [j|]; intros Hq.
  - destruct Hq as [-> Hj]. unfold min_found. cbn. lia.
  - destruct Hq as [->|(j & -> & Hj)]; unfold min_found; cbn; lia.
Qed.

Lemma min_found3_le n p q :
  (forall i, p = Some i -> (i < n)%nat) -> (forall j, q = Some j -> (j < n)%nat) -> (min_found [p; q; None] n <= n)%nat.
Proof.
  intros Hp Hq. unfold min_found. destruct p as [i|]; destruct q as [j|]; cbn;
    try specialize (Hp _ eq_refl); try specialize (Hq _ eq_refl); lia.
Qed.
Lemma min_found2_le n q : (forall j, q = Some j -> (j < n)%nat) -> (min_found [q; None] n <= n)%nat.
Proof. intros Hq. unfold min_found. destruct q as [j|]; cbn; try specialize (Hq _ eq_refl); lia. Qed.

Lemma firstn_app_le {A} (k : nat) (a b : list A) : (k <= length a)%nat -> firstn k (a ++ b) = firstn k a.
Proof. intros H. rewrite firstn_app. replace (k - length a)%nat with 0%nat by lia. cbn [firstn]. apply app_nil_r. Qed.

Lemma slice_app_le (a b : nat) (R T : str) : (b <= length R)%nat -> slice a b (R ++ T) = slice a b R.
Proof.
  intros H. unfold slice. destruct (Nat.le_gt_cases a (length R)) as [Ha|Ha].
  - rewrite skipn_app. replace (a - length R)%nat with 0%nat by lia. cbn [skipn].
    rewrite firstn_app_le; [reflexivity|]. rewrite skipn_length. lia.
  - replace (b - a)%nat with 0%nat by lia. reflexivity.
Qed.

(* the component split of "R#f": that of R, except for the fragment (and the resource) *)
Theorem split_remaining_fragment (R f : str) :
  memb 35 R = false ->
  let '(a, _, p, q, fr) := split_remaining (R ++ 35 :: f) in
  let '(a0, _, p0, q0, fr0) := split_remaining R in
  a = a0 /\ p = p0 /\ q = q0 /\ fr = f /\ fr0 = [].
Proof.
  intros H. unfold split_remaining.
  rewrite (find_idx_hash R f H), (find_idx_none 35 R H).
  pose proof (find_idx_beyond 47 R f ltac:(lia)) as Bp.
  pose proof (find_idx_beyond 63 R f ltac:(lia)) as Bq.
  set (pi := find_idx 47 R) in *. set (qi := find_idx 63 R) in *.
  set (pi' := find_idx 47 (R ++ 35 :: f)) in *. set (qi' := find_idx 63 (R ++ 35 :: f)) in *.
  rewrite (min_found3 (length R) (length (R ++ 35 :: f)) pi qi pi' qi' Bp Bq).
  rewrite (min_found2 (length R) (length (R ++ 35 :: f)) qi qi' Bq).
  pose proof (min_found3_le (length R) pi qi (find_idx_lt 47 R) (find_idx_lt 63 R)) as L3.
  pose proof (min_found2_le (length R) qi (find_idx_lt 63 R)) as L2.
  set (ai := min_found [pi; qi; None] (length R)) in *. set (p2 := min_found [qi; None] (length R)) in *.
  rewrite (firstn_app_le ai R (35 :: f) L3).
  rewrite (slice_app_le (S ai) p2 R (35 :: f) L2).
  rewrite (slice_app_le (S p2) (length R) R (35 :: f) (Nat.le_refl _)).
  repeat split.
  - replace (S (length R)) with (length R + 1)%nat by lia. rewrite skipn_app.
    rewrite skipn_all2 by lia. replace (length R + 1 - length R)%nat with 1%nat by lia. reflexivity.
  - apply skipn_all2. lia.
Qed.

Lemma strip_slashes_fragment (P f : str) :
  (if startswith (P ++ 35 :: f) [47; 47] then skipn 2 (P ++ 35 :: f) else P ++ 35 :: f)
  = (if startswith P [47; 47] then skipn 2 P else P) ++ 35 :: f.
Proof.
  destruct P as [|a [|b P']]; cbn [app startswith skipn].
  - reflexivity.
  - destruct (a =? 47); reflexivity.
  - assert (E : forall t : str, startswith t [] = true) by (intros t; destruct t; reflexivity).
    rewrite !E. destruct ((a =? 47) && ((b =? 47) && true)); reflexivity.
Qed.

Lemma memb_strip_slashes c (P : str) : memb c P = false -> memb c (if startswith P [47; 47] then skipn 2 P else P) = false.
Proof.
  intros H. destruct P as [|a [|b P']].
  - exact H.
  - cbn [startswith]. destruct (a =? 47); exact H.
  - destruct (startswith (a :: b :: P') [47; 47]); [|exact H].
    cbn [skipn]. cbn [memb] in H. apply orb_false_iff in H as [_ H]. apply orb_false_iff in H as [_ H]. exact H.
Qed.

Section Frag.
  Variable enc : str -> option (list N).
  Variable idna_o : str -> option str.
  Variable ipv6_o : str -> option str.
  Variable int_o : N -> str -> option Z.
  Variable unq_o : str -> str.

  Theorem parse_network_fragment url url' scheme dport (P f nf : str) :
    default_port scheme = Some dport ->
    memb 35 P = false -> enc [] = Some [] ->
    normalize_fragment enc f = Ok nf ->
    match parse_network enc idna_o ipv6_o int_o unq_o url scheme dport (P ++ 35 :: f),
          parse_network enc idna_o ipv6_o int_o unq_o url' scheme dport P with
    | Ok i, Ok i' => url_of enc i = url_of enc i' /\ u_scheme i = u_scheme i' /\ u_hostname i = u_hostname i' /\
                     u_port i = u_port i' /\ u_path i = u_path i' /\ u_query i = u_query i' /\
                     u_fragment i = nf /\ u_fragment i' = []
    | Err k, Err k' => k = k'
    | _, _ => False
    end.
  Proof.
    intros Hd HP He Hf. unfold parse_network. cbv zeta. rewrite strip_slashes_fragment.
    pose proof (memb_strip_slashes 35 P HP) as HR.
    set (R := if startswith P [47; 47] then skipn 2 P else P) in *.
    pose proof (split_remaining_fragment R f HR) as HS.
    destruct (split_remaining (R ++ 35 :: f)) as [[[[a r] p] q] fr].
    destruct (split_remaining R) as [[[[a0 r0] p0] q0] fr0].
    destruct HS as (-> & -> & -> & -> & ->).
    destruct (parse_authority a0) as [userinfo host].
    destruct (parse_host idna_o ipv6_o int_o host) as [[hostname port]|k]; cbn [bind]; [|reflexivity].
    destruct (parse_userinfo userinfo) as [username password].
    destruct (is_nil hostname); [reflexivity|].
    destruct (normalize_path enc p0); cbn [bind]; [|reflexivity].
    destruct (normalize_query enc q0); cbn [bind]; [|reflexivity].
    rewrite Hf. assert (H0 : normalize_fragment enc [] = Ok []).
    { unfold normalize_fragment, percent_encode. rewrite He. reflexivity. }
    rewrite H0. cbn [bind].
    destruct (normalize_userpart enc username_encode_set _); cbn [bind]; [|reflexivity].
    destruct (normalize_userpart enc password_encode_set _); cbn [bind]; [|reflexivity].
    split; [|repeat split; reflexivity].
    unfold url_of, is_ipv6. cbn [u_scheme u_username u_password u_host u_hostname u_port u_path u_query]. rewrite Hd. reflexivity.
  Qed.
End Frag.

(* ---------- IPv4 spellings: the normalized form is a function of the 32-bit value alone ---------- *)
Section Ipv4.
  Variable int_o : N -> str -> option Z.

  (* the number an IPv4 spelling denotes: one integer (decimal, 0-octal or 0x-hex), or four of them *)
  Definition ipv4_value (a : str) : option Z :=
    match count 46 a with
    | 0%nat => parse_ipv4_int int_o a
    | 3%nat => ipv4_sum int_o (split_on 46 a) 24 0
    | _ => None
    end.

  Theorem normalize_ipv4_by_value a :
    normalize_ipv4_address int_o a = match ipv4_value a with Some n => ipv4_compressed n | None => None end.
  Proof.
    unfold normalize_ipv4_address, ipv4_value. destruct (count 46 a) as [|[|[|[|k]]]]; try reflexivity.
  Qed.

  Theorem normalize_ipv4_same_value a a' :
    ipv4_value a = ipv4_value a' -> normalize_ipv4_address int_o a = normalize_ipv4_address int_o a'.
  Proof. intros H. rewrite !normalize_ipv4_by_value, H. reflexivity. Qed.
End Ipv4.
